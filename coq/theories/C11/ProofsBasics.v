(* C11 — basic lemmas about keys, valuations, lists used by ProofsBuilder.v *)
From Coq Require Import ZArith List Bool Lia.
From PL.C11 Require Import ModelBuilder.
Import ListNotations.
Open Scope Z_scope.

(* ------------------------------------------------------------ keys *)
Lemma key_eqb_true : forall a b, key_eqb a b = true <-> a = b.
Proof. intros a b. unfold key_eqb. destruct (key_eq_dec a b); split; congruence. Qed.

Lemma memk_In : forall k l, memk k l = true <-> In k l.
Proof.
  intros k l. unfold memk. rewrite existsb_exists. split.
  - intros [x [Hin Hx]]. apply key_eqb_true in Hx. subst. exact Hin.
  - intros H. exists k. split; [exact H | apply key_eqb_true; reflexivity].
Qed.

Lemma memz_In : forall z l, memz z l = true <-> In z l.
Proof.
  intros z l. unfold memz. rewrite existsb_exists. split.
  - intros [x [Hin Hx]]. apply Z.eqb_eq in Hx. subst. exact Hin.
  - intros H. exists z. split; [exact H | apply Z.eqb_refl].
Qed.

Lemma memz_false : forall z l, memz z l = false <-> ~ In z l.
Proof.
  intros z l. rewrite <- memz_In. destruct (memz z l); split; intro H; try congruence; try (exfalso; apply H; reflexivity).
Qed.

Lemma vkey_negate : forall v k, vkey v (negate k) = negb (vkey v k).
Proof.
  intros v [z|]; simpl; [|reflexivity].
  destruct (z =? 0) eqn:E0; simpl; [reflexivity|].
  apply Z.eqb_neq in E0.
  destruct (- z =? 0) eqn:E1; [apply Z.eqb_eq in E1; lia|].
  destruct (z >? 0) eqn:E2.
  - assert (- z >? 0 = false) as -> by lia. rewrite Z.opp_involutive. reflexivity.
  - assert (- z >? 0 = true) as -> by lia. rewrite negb_involutive. reflexivity.
Qed.

(* a "proper literal": neither TRUE nor FALSE *)
Definition proper (k : key) : Prop := match k with Some z => z <> 0 | None => False end.

Lemma kabs_eq_proper : forall x y, proper x -> proper y -> x <> y -> kabs x = kabs y -> y = negate x.
Proof.
  intros [x|] [y|] Hx Hy Hne Habs; simpl in *; try contradiction.
  injection Habs as Habs.
  assert (x =? 0 = false) as -> by (apply Z.eqb_neq; exact Hx).
  f_equal. assert (x <> y) by congruence. lia.
Qed.

(* ------------------------------------------------------------ evaluation of child lists *)
Definition ev (kd : kind) (v : Z -> bool) (l : list key) : bool :=
  match kd with KConj => forallb (vkey v) l | KDisj => existsb (vkey v) l end.

Lemma eval_mk_node : forall a v kd l nm, eval_node a v (mk_node kd l nm) = ev kd v l.
Proof. intros a v [] l nm; reflexivity. Qed.

Lemma forallb_same_elems : forall (p : key -> bool) l l',
  (forall x, In x l <-> In x l') -> forallb p l = forallb p l'.
Proof.
  intros p l l' H. apply eq_iff_eq_true. rewrite !forallb_forall. split; intros G x Hx; apply G; apply H; exact Hx.
Qed.

Lemma existsb_same_elems : forall (p : key -> bool) l l',
  (forall x, In x l <-> In x l') -> existsb p l = existsb p l'.
Proof.
  intros p l l' H. apply eq_iff_eq_true. rewrite !existsb_exists.
  split; intros [x [Hx Px]]; exists x; (split; [apply H; exact Hx | exact Px]).
Qed.

Lemma ev_same_elems : forall kd v l l', (forall x, In x l <-> In x l') -> ev kd v l = ev kd v l'.
Proof. intros [] v l l' H; [apply forallb_same_elems | apply existsb_same_elems]; exact H. Qed.

Lemma dedup_In : forall x l, In x (dedup l) <-> In x l.
Proof. intros x l. unfold dedup. rewrite <- in_rev, nodup_In, <- in_rev. reflexivity. Qed.

Lemma ev_dedup : forall kd v l, ev kd v (dedup l) = ev kd v l.
Proof. intros. apply ev_same_elems. intro x. apply dedup_In. Qed.

(* neutral element / absorbing element of the two node kinds *)
Definition kt (kd : kind) : key := match kd with KConj => KFALSE | KDisj => KTRUE end.
Definition kf (kd : kind) : key := match kd with KConj => KTRUE | KDisj => KFALSE end.

Lemma ev_absorbing : forall kd v l, In (kt kd) l -> ev kd v l = vkey v (kt kd).
Proof.
  intros [] v l H; simpl.
  - destruct (forallb (vkey v) l) eqn:E; [|reflexivity].
    rewrite forallb_forall in E. specialize (E _ H). simpl in E. discriminate.
  - apply existsb_exists. exists (Some 0). split; [exact H | reflexivity].
Qed.

Lemma ev_filter_neutral : forall kd v l,
  ev kd v (filter (fun x => negb (key_eqb x (kf kd))) l) = ev kd v l.
Proof.
  intros kd v l. induction l as [|x t IH]; [destruct kd; reflexivity|].
  simpl. destruct (key_eqb x (kf kd)) eqn:E; simpl.
  - apply key_eqb_true in E. subst x. rewrite IH. destruct kd; simpl; reflexivity.
  - destruct kd; simpl in *; rewrite IH; reflexivity.
Qed.

Lemma ev_nil : forall kd v, ev kd v [] = vkey v (kf kd).
Proof. intros [] v; reflexivity. Qed.

Lemma ev_single : forall kd v c, ev kd v [c] = vkey v c.
Proof. intros [] v c; simpl; [apply andb_true_r | apply orb_false_r]. Qed.

Lemma ev_complement : forall kd v l x, In x l -> In (negate x) l -> ev kd v l = vkey v (kt kd).
Proof.
  intros kd v l x H1 H2. destruct kd; simpl.
  - destruct (forallb (vkey v) l) eqn:E; [|reflexivity].
    rewrite forallb_forall in E. pose proof (E _ H1) as A. pose proof (E _ H2) as B.
    rewrite vkey_negate, A in B. discriminate.
  - apply existsb_exists. destruct (vkey v x) eqn:A.
    + exists x. split; assumption.
    + exists (negate x). split; [assumption|]. rewrite vkey_negate, A. reflexivity.
Qed.

(* ------------------------------------------------------------ the complementary-literal test *)
Lemma NoDup_map_inj_in : forall (f : key -> key) l,
  (forall x y, In x l -> In y l -> f x = f y -> x = y) -> NoDup l -> NoDup (map f l).
Proof.
  intros f l. induction l as [|a t IH]; intros Hinj Hnd; simpl; [constructor|].
  inversion Hnd as [|a' t' Hnotin Hnd']; subst. constructor.
  - intro Hin. apply in_map_iff in Hin. destruct Hin as [y [Hy Hyin]].
    assert (y = a) by (apply Hinj; [right; exact Hyin | left; reflexivity | exact Hy]).
    subst y. contradiction.
  - apply IH; [|exact Hnd']. intros x y Hx Hy. apply Hinj; right; assumption.
Qed.

Definition has_opp (l : list key) : bool :=
  existsb (fun x => existsb (fun y => negb (key_eqb x y) && key_eqb (kabs x) (kabs y)) l) l.

Lemma opposites_has_opp : forall l, opposites l = true -> has_opp l = true.
Proof.
  intros l H. destruct (has_opp l) eqn:E; [reflexivity|]. exfalso.
  unfold opposites in H. apply Nat.ltb_lt in H.
  assert (Hinj : forall x y, In x l -> In y l -> kabs x = kabs y -> x = y).
  { intros x y Hx Hy Hxy. destruct (key_eq_dec x y) as [|Hne]; [assumption|]. exfalso.
    unfold has_opp in E.
    assert (existsb (fun x0 => existsb (fun y0 => negb (key_eqb x0 y0) && key_eqb (kabs x0) (kabs y0)) l) l = true); [|congruence].
    apply existsb_exists. exists x. split; [exact Hx|].
    apply existsb_exists. exists y. split; [exact Hy|].
    apply andb_true_iff. split.
    - apply negb_true_iff. destruct (key_eqb x y) eqn:K; [apply key_eqb_true in K; contradiction | reflexivity].
    - apply key_eqb_true. exact Hxy. }
  assert (Hnd : NoDup (map kabs (nodup key_eq_dec l))).
  { apply NoDup_map_inj_in; [|apply NoDup_nodup].
    intros x y Hx Hy. rewrite (nodup_In key_eq_dec) in Hx, Hy. apply Hinj; assumption. }
  assert (Hincl : incl (map kabs (nodup key_eq_dec l)) (nodup key_eq_dec (map kabs l))).
  { intros y Hy. apply in_map_iff in Hy. destruct Hy as [x [Hx Hxin]]. apply nodup_In.
    apply in_map_iff. exists x. split; [exact Hx|]. rewrite (nodup_In key_eq_dec) in Hxin. exact Hxin. }
  pose proof (NoDup_incl_length Hnd Hincl) as L. rewrite map_length in L. lia.
Qed.

Lemma opposites_witness : forall l, (forall x, In x l -> proper x) -> opposites l = true ->
  exists x, In x l /\ In (negate x) l.
Proof.
  intros l Hp H. apply opposites_has_opp in H. unfold has_opp in H.
  apply existsb_exists in H. destruct H as [x [Hx H]].
  apply existsb_exists in H. destruct H as [y [Hy H]].
  apply andb_true_iff in H. destruct H as [Hne Habs].
  apply key_eqb_true in Habs. apply negb_true_iff in Hne.
  assert (x <> y). { intro. subst. assert (key_eqb y y = true) by (apply key_eqb_true; reflexivity). congruence. }
  exists x. split; [exact Hx|].
  rewrite <- (kabs_eq_proper x y); auto.
Qed.

(* ------------------------------------------------------------ list_set / nth_error *)
Lemma list_set_length : forall (A : Type) (l : list A) n x, length (list_set l n x) = length l.
Proof. intros A l. induction l as [|h t IH]; intros [|n] x; simpl; auto. Qed.

Lemma nth_error_list_set_eq : forall (A : Type) (l : list A) n x, (n < length l)%nat -> nth_error (list_set l n x) n = Some x.
Proof.
  intros A l. induction l as [|h t IH]; intros [|n] x H; simpl in *; try lia; [reflexivity|].
  apply IH. lia.
Qed.

Lemma nth_error_list_set_neq : forall (A : Type) (l : list A) n m x, n <> m -> nth_error (list_set l n x) m = nth_error l m.
Proof.
  intros A l. induction l as [|h t IH]; intros [|n] [|m] x H; simpl in *; try reflexivity; try congruence.
  apply IH. congruence.
Qed.

Lemma map_list_set : forall (A B : Type) (f : A -> B) l n x, map f (list_set l n x) = list_set (map f l) n (f x).
Proof. intros A B f l. induction l as [|h t IH]; intros [|n] x; simpl; auto. rewrite IH. reflexivity. Qed.

Lemma list_set_same : forall (A : Type) (l : list A) n x, nth_error l n = Some x -> list_set l n x = l.
Proof.
  intros A l. induction l as [|h t IH]; intros [|n] x H; simpl in *; try discriminate; try reflexivity.
  - injection H as ->. reflexivity.
  - rewrite IH; auto.
Qed.

Lemma list_set_app1 : forall (A : Type) (l l' : list A) n x, (n < length l)%nat -> list_set (l ++ l') n x = list_set l n x ++ l'.
Proof.
  intros A l. induction l as [|h t IH]; intros l' [|n] x H; simpl in *; try lia; try reflexivity.
  rewrite IH; [reflexivity | lia].
Qed.

(* shapes: nodes up to their name *)
Definition strip (n : node) : node := set_name n None.
Definition sh (s : state) : list node := map strip (nodes s).

Lemma strip_set_name : forall n x, strip (set_name n x) = strip n.
Proof. intros [] x; reflexivity. Qed.

Lemma strip_idem : forall n, strip (strip n) = strip n.
Proof. intros []; reflexivity. Qed.

Lemma eval_strip : forall a v n, eval_node a v (strip n) = eval_node a v n.
Proof. intros a v []; reflexivity. Qed.

Lemma strip_mk_node : forall kd l nm, strip (mk_node kd l nm) = mk_node kd l None.
Proof. intros [] l nm; reflexivity. Qed.

Lemma sh_length : forall s, length (sh s) = length (nodes s).
Proof. intros. unfold sh. apply map_length. Qed.

Lemma sh_nth : forall s n nd, nth_error (nodes s) n = Some nd -> nth_error (sh s) n = Some (strip nd).
Proof. intros. unfold sh. rewrite nth_error_map, H. reflexivity. Qed.

Lemma sh_nth_inv : forall s n x, nth_error (sh s) n = Some x -> exists nd, nth_error (nodes s) n = Some nd /\ strip nd = x.
Proof.
  intros s n x H. unfold sh in H. rewrite nth_error_map in H.
  destruct (nth_error (nodes s) n) as [nd|]; simpl in H; [|discriminate].
  injection H as H. exists nd. auto.
Qed.
