(* C11 — consequences of the invariant: meaning of returned keys. *)
From Coq Require Import ZArith List Bool Lia.
From PL.C11 Require Import ModelBuilder ProofsBasics ProofsBuilder ProofsInv ProofsStep.
Import ListNotations.
Open Scope Z_scope.

Lemma run_app : forall o pcl ops1 ops2 r r2,
  run o pcl r (ops1 ++ ops2) = Ok r2 -> exists r1, run o pcl r ops1 = Ok r1 /\ run o pcl r1 ops2 = Ok r2.
Proof.
  intros o pcl ops1. induction ops1 as [|x t IH]; intros ops2 r r2 H; simpl in *.
  - exists r. auto.
  - destruct (step o pcl r x) as [[r' rv]| |]; try discriminate. apply IH. exact H.
Qed.

Theorem builder_sound : forall o pcl ops r, run o pcl init ops = Ok r ->
  forall a v, sol a (nodes (impl r)) v -> sol a (rg r) (pull (rmap r) v).
Proof.
  intros o pcl ops r H. destruct (run_inv o pcl ops init r (Inv_init pcl) H) as [I _].
  apply (Inv_sound pcl r I).
Qed.

Theorem keys_stable : forall o pcl ops1 ops2 r1 r2,
  run o pcl init ops1 = Ok r1 -> run o pcl r1 ops2 = Ok r2 ->
  exists ext, rmap r2 = rmap r1 ++ ext /\
    forall a v, sol a (nodes (impl r2)) v -> sol a (rg r2) (pull (rmap r1 ++ ext) v).
Proof.
  intros o pcl ops1 ops2 r1 r2 H1 H2.
  destruct (run_inv o pcl ops1 init r1 (Inv_init pcl) H1) as [I1 _].
  destruct (run_inv o pcl ops2 r1 r2 I1 H2) as [I2 [ext E]].
  exists ext. split; [exact E|]. rewrite <- E. apply (Inv_sound pcl r2 I2).
Qed.

(* ------------------------------------------------------------ acyclic reference graphs *)
(* every child refers to an earlier node: the graph is a DAG in creation order
   (always the case when add_disjunct is not used to close a cycle) *)
Definition acyclic (g : list node) : Prop :=
  forall i nd, nth_error g i = Some nd -> forall c, In c (children nd) -> rvalid i c.

Lemma vkey_agree : forall (w1 w2 : Z -> bool) n c, rvalid n c ->
  (forall m, (m < n)%nat -> w1 (Z.of_nat m + 1) = w2 (Z.of_nat m + 1)) -> vkey w1 c = vkey w2 c.
Proof.
  intros w1 w2 n [z|] Hv H; simpl in *; [|reflexivity].
  destruct (z =? 0) eqn:E0; [reflexivity|]. apply Z.eqb_neq in E0.
  destruct (z >? 0) eqn:E1.
  - replace z with (Z.of_nat (Z.to_nat (z - 1)) + 1) by lia. apply H. lia.
  - f_equal. replace (- z) with (Z.of_nat (Z.to_nat (- z - 1)) + 1) by lia. apply H. lia.
Qed.

Lemma acyclic_unique : forall a g w1 w2, acyclic g -> sol a g w1 -> sol a g w2 ->
  forall i nd, nth_error g i = Some nd -> w1 (Z.of_nat i + 1) = w2 (Z.of_nat i + 1).
Proof.
  intros a g w1 w2 Hac S1 S2 i. induction i as [i IH] using lt_wf_ind. intros nd Hn.
  rewrite (S1 i nd Hn), (S2 i nd Hn). apply eval_ext_in. intros c Hc.
  apply (vkey_agree w1 w2 i c (Hac i nd Hn c Hc)).
  intros m Hm. assert (Lm : (m < length g)%nat) by (apply nth_error_lt in Hn; lia).
  destruct (nth_error g m) as [ndm|] eqn:Em; [|apply nth_error_None in Em; lia].
  apply (IH m Hm ndm Em).
Qed.

Lemma acyclic_has_sol : forall a g, acyclic g -> exists w, sol a g w.
Proof.
  intros a g. induction g as [|nd g IH] using rev_ind; intro Hac.
  - exists (fun _ => false). intros [|i] nd H; discriminate.
  - assert (Hac' : acyclic g).
    { intros i nd0 Hn c Hc. apply (Hac i nd0); [|exact Hc]. rewrite nth_error_app1; [exact Hn | eapply nth_error_lt; eauto]. }
    destruct (IH Hac') as [w Hw].
    set (n := length g).
    set (w' := fun j => if j =? Z.of_nat n + 1 then eval_node a w nd else w j).
    assert (Agree : forall nd0 i, (i <= n)%nat -> (forall c, In c (children nd0) -> rvalid i c) -> eval_node a w' nd0 = eval_node a w nd0).
    { intros nd0 i Li Hc. apply eval_ext_in. intros c Hcin. apply (vkey_agree w' w i c (Hc c Hcin)).
      intros m Hm. unfold w'. assert (Z.of_nat m + 1 =? Z.of_nat n + 1 = false) as -> by lia. reflexivity. }
    exists w'. intros i nd0 Hn.
    destruct (Nat.lt_ge_cases i n) as [L|L].
    + pose proof Hn as Hn'. rewrite nth_error_app1 in Hn' by exact L.
      unfold w' at 1. assert (Z.of_nat i + 1 =? Z.of_nat n + 1 = false) as -> by lia.
      rewrite (Hw i nd0 Hn'). symmetry. apply (Agree nd0 i); [lia|]. intros c Hc. apply (Hac i nd0 Hn c Hc).
    + pose proof Hn as Hn'. rewrite nth_error_app2 in Hn' by exact L.
      fold n in Hn'. destruct (i - n)%nat as [|k] eqn:Ek; simpl in Hn'; [|destruct k; discriminate].
      injection Hn' as <-. assert (i = n) by lia. subst i.
      unfold w' at 1. rewrite Z.eqb_refl. symmetry. apply (Agree nd n); [lia|].
      intros c Hc. apply (Hac n nd Hn c Hc).
Qed.

(* For an acyclic call history the reference equations have exactly one
   solution w: the Boolean functions the calls describe.  Every key the builder
   returned has that value in every supported valuation of the builder's graph. *)
Theorem meaning_acyclic : forall o pcl ops r, run o pcl init ops = Ok r -> acyclic (rg r) ->
  forall a v w, sol a (nodes (impl r)) v -> sol a (rg r) w ->
  forall i ik, nth_error (rmap r) i = Some ik -> vkey v ik = w (Z.of_nat i + 1).
Proof.
  intros o pcl ops r H Hac a v w Sv Sw i ik Hm.
  pose proof (builder_sound o pcl ops r H a v Sv) as Sp.
  destruct (run_inv o pcl ops init r (Inv_init pcl) H) as [I _].
  assert (Li : (i < length (rg r))%nat) by (rewrite <- (inv_len _ _ I); eapply nth_error_lt; eauto).
  destruct (nth_error (rg r) i) as [nd|] eqn:En; [|apply nth_error_None in En; lia].
  rewrite <- (acyclic_unique a (rg r) _ _ Hac Sp Sw i nd En).
  unfold pull. replace (Z.to_nat (Z.of_nat i + 1 - 1)) with i by lia. rewrite Hm. reflexivity.
Qed.

(* the function the extracted oracle runs is the [run] of the theorems *)
Lemma run_trace_ok : forall o pcl ops r acc rets r',
  run_trace o pcl r ops acc = (rets, r', 0%nat) -> run o pcl r ops = Ok r'.
Proof.
  intros o pcl ops. induction ops as [|x t IH]; intros r acc rets r' H; simpl in *.
  - injection H as _ <-. reflexivity.
  - destruct (step o pcl r x) as [[r1 rv]| |]; try (injection H as _ _ H; discriminate).
    eapply IH. exact H.
Qed.
