(* C11 — placeholder while the proofs are being written *)
From Coq Require Import ZArith List Bool.
From PL.C11 Require Import ModelBuilder.
