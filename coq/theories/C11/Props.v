(* C11 — The ground-program builder preserves Boolean meaning.
   Only statements; proofs are in Proofs*.v.

   Setting (ModelBuilder.v).  A history is a list of builder calls whose
   arguments are *reference keys*: the reference builder appends one node per
   add_atom/add_and/add_or call and never optimises ([rg], node n = n-th such
   call); the model of LogicFormula is run side by side and [rmap] records the
   key it returned for reference node n.  [run] fails closed: it is [Ok] only if
   every key passed in was returned earlier, add_disjunct is only used on keys
   created with readonly=False (or TRUE), and no call raised.
   A valuation v gives every node index a truth value; [sol a g v] says that v
   satisfies every node equation of graph g under atom assignment a (a supported
   valuation; for an acyclic graph there is exactly one, for a positive cycle
   the least one is the least fixpoint).  [pull rmap v] reads v through the
   returned keys: reference node n gets the value of the key returned for it. *)
From Coq Require Import ZArith List Bool.
From PL.C11 Require Import ModelBuilder ProofsBasics ProofsBuilder ProofsInv ProofsStep ProofsSem
  ProofsCompleteShape ProofsCompleteInv ProofsComplete ProofsCompleteLfp ProofsCompleteAtoms ProofsCompletePos ProofsCompleteMain.
Import ListNotations.
Open Scope Z_scope.

(* Soundness, for every option vector (auto_compact, keep_order, keep_duplicates,
   keep_all, avoid_name_clash, max_arity), every probability class of the atoms and
   every history (add_atom, add_and, add_or readonly/mutable/placeholder with
   per-call compact flag and names, add_disjunct incl. max_arity splitting,
   negate, add_name), no bound: whatever truth values the builder's graph
   supports, the returned keys carry values that satisfy the equations of the
   unoptimised graph the calls describe.  Constant folding, duplicate and
   complement elimination, single-child collapse (incl. the name-clash branch),
   node sharing through the index tables and later updates of mutable nodes
   never break this. *)
Theorem C11_builder_sound : forall o pcl ops r, run o pcl init ops = Ok r ->
  forall a v, sol a (nodes (impl r)) v -> sol a (rg r) (pull (rmap r) v).
Proof. exact builder_sound. Qed.
Print Assumptions C11_builder_sound.

(* Keys returned earlier are never renumbered and keep denoting their
   reference node after any continuation of the history. *)
Theorem C11_keys_stable : forall o pcl ops1 ops2 r1 r2,
  run o pcl init ops1 = Ok r1 -> run o pcl r1 ops2 = Ok r2 ->
  exists ext, rmap r2 = rmap r1 ++ ext /\
    forall a v, sol a (nodes (impl r2)) v -> sol a (rg r2) (pull (rmap r1 ++ ext) v).
Proof. exact keys_stable. Qed.
Print Assumptions C11_keys_stable.

(* Acyclic histories (add_disjunct never closes a cycle): the reference
   equations have exactly one solution w -- the Boolean functions of the atoms
   that the calls describe -- and every returned key has exactly that value. *)
Theorem C11_meaning_acyclic : forall o pcl ops r, run o pcl init ops = Ok r -> acyclic (rg r) ->
  forall a v w, sol a (nodes (impl r)) v -> sol a (rg r) w ->
  forall i ik, nth_error (rmap r) i = Some ik -> vkey v ik = w (Z.of_nat i + 1).
Proof. exact meaning_acyclic. Qed.
Print Assumptions C11_meaning_acyclic.

Theorem C11_acyclic_meaning_exists : forall a g, acyclic g -> exists w, sol a g w.
Proof. exact acyclic_has_sol. Qed.
Print Assumptions C11_acyclic_meaning_exists.

Theorem C11_acyclic_meaning_unique : forall a g w1 w2, acyclic g -> sol a g w1 -> sol a g w2 ->
  forall i nd, nth_error g i = Some nd -> w1 (Z.of_nat i + 1) = w2 (Z.of_nat i + 1).
Proof. exact acyclic_unique. Qed.
Print Assumptions C11_acyclic_meaning_unique.

(* The invariant behind the theorems (ProofsInv.v: index tables point at live
   read-only nodes with exactly the indexed children; mutable nodes are owned by
   one reference node, are never indexed and are the only nodes whose content
   changes) holds in every reachable state. *)
Theorem C11_invariant : forall o pcl ops r, run o pcl init ops = Ok r -> Inv pcl r.
Proof. intros o pcl ops r H. exact (proj1 (run_inv o pcl ops init r (Inv_init pcl) H)). Qed.
Print Assumptions C11_invariant.

(* Operation level: _add_compound on any state whose index tables are consistent. *)
Theorem C11_add_compound_sound : forall pcl o s im kd content ro nm ph cp s' k,
  idx_ok pcl s im -> im_ok s im ->
  add_compound o s kd content ro nm ph cp = Some (s', k) ->
  idx_ok pcl s' im /\ grows s s' /\
  ((ro = true \/ kd = KConj) -> forall a v, rsol a (sh s') im v -> vkey v k = ev kd v content) /\
  (ro = false -> kd = KDisj -> mut_result s s' content k).
Proof. exact add_compound_sound. Qed.
Print Assumptions C11_add_compound_sound.

(* negate *)
Theorem C11_negate : forall v k, vkey v (negate k) = negb (vkey v k).
Proof. exact vkey_negate. Qed.
Print Assumptions C11_negate.

(* the extracted oracle used by the correspondence runs [run_trace]; status 0 means [run] is Ok with the same state *)
Theorem C11_trace_is_run : forall o pcl ops r acc rets r',
  run_trace o pcl r ops acc = (rets, r', 0%nat) -> run o pcl r ops = Ok r'.
Proof. exact run_trace_ok. Qed.
Print Assumptions C11_trace_is_run.

(* ------------------------------------------------------------------------------------------------
   COMPLETENESS (the converse of C11_builder_sound), for every option vector, probability-class map and
   history -- cyclic histories, mutable disjunctions, max_arity splitting, folding to TRUE/FALSE included:
   every supported valuation w of the reference graph is realised by a supported valuation v of the builder's
   graph whose returned keys carry exactly the values of w.  Together with soundness: read through the
   returned keys, the builder's graph and the unoptimised graph have the same supported valuations; in
   particular soundness cannot hold vacuously (the builder's graph has a supported valuation whenever the
   reference equations have one). *)
Theorem C11_builder_complete : forall o pcl ops r, run o pcl init ops = Ok r ->
  forall a w, sol a (rg r) w ->
  exists v, sol a (nodes (impl r)) v /\
            forall n, (n < length (rg r))%nat -> pull (rmap r) v (Z.of_nat n + 1) = w (Z.of_nat n + 1).
Proof. exact builder_complete. Qed.
Print Assumptions C11_builder_complete.

Corollary C11_builder_has_supported_valuation : forall o pcl ops r, run o pcl init ops = Ok r ->
  forall a, (exists w, sol a (rg r) w) -> exists v, sol a (nodes (impl r)) v.
Proof. exact builder_has_sol. Qed.
Print Assumptions C11_builder_has_supported_valuation.

(* The structural invariant behind completeness (ProofsCompleteInv.v): read-only model nodes only have children
   with a smaller index, every mutable model node is owned by a mutable reference node, read-only reference
   nodes only have earlier children, a mutable reference node folded to TRUE was folded because of its original
   children, returned keys and children are in range. *)
Theorem C11_invariant2 : forall o pcl ops r, run o pcl init ops = Ok r -> Inv2 r.
Proof. intros o pcl ops r H. exact (run_inv2 o pcl ops init r (Inv_init pcl) Inv2_init H). Qed.
Print Assumptions C11_invariant2.

(* LEAST MODELS.  `natomic g`: every negative key in g points at an atom node (negation on atoms only; positive
   cycles through mutable disjunctions allowed): the node equations are monotone and the meaning of the graph
   is its LEAST supported valuation (`least_sol`, defined without reference to any algorithm).
   If the reference graph of a history negates atoms only, so does the builder's graph and so do the returned
   keys ... *)
Theorem C11_negation_on_atoms_inherited : forall o pcl ops r, run o pcl init ops = Ok r -> natomic (rg r) ->
  natomic (nodes (impl r)) /\ forall n k, nth_error (rmap r) n = Some k -> katom (nodes (impl r)) k.
Proof. exact natomic_inherited. Qed.
Print Assumptions C11_negation_on_atoms_inherited.

(* ... both graphs have a least supported valuation (computed by the Kleene iteration kleeneN, |g|+1 rounds) ... *)
Theorem C11_least_model_exists : forall o pcl ops r, run o pcl init ops = Ok r -> natomic (rg r) ->
  forall a, least_sol a (nodes (impl r)) (lfpN a (nodes (impl r))) /\ least_sol a (rg r) (lfpN a (rg r)).
Proof. exact least_exist. Qed.
Print Assumptions C11_least_model_exists.

Theorem C11_least_model_exists_graph : forall a g, natomic g -> least_sol a g (lfpN a g).
Proof. exact lfpN_least_sol. Qed.
Print Assumptions C11_least_model_exists_graph.

(* ... and the least models agree on every returned key: the key returned for the n-th creating call has, in the
   least model of the builder's graph, the value of reference node n in the least model of the reference graph. *)
Theorem C11_least_model_equal : forall o pcl ops r, run o pcl init ops = Ok r -> natomic (rg r) ->
  forall a V W, least_sol a (nodes (impl r)) V -> least_sol a (rg r) W ->
  forall n ik, nth_error (rmap r) n = Some ik -> vkey V ik = W (Z.of_nat n + 1).
Proof. exact least_equal. Qed.
Print Assumptions C11_least_model_equal.

Theorem C11_lfp_equal : forall o pcl ops r, run o pcl init ops = Ok r -> natomic (rg r) ->
  forall a n ik, nth_error (rmap r) n = Some ik ->
  vkey (lfpN a (nodes (impl r))) ik = lfpN a (rg r) (Z.of_nat n + 1).
Proof. exact lfpN_equal. Qed.
Print Assumptions C11_lfp_equal.

(* The same with ModelBuilder.lfp_val (plain Kleene iteration from the all-false valuation).
   PARTIAL in the class of histories only: reference graphs WITHOUT negative keys (then the builder's graph has
   none either, C11_no_negation_inherited).  This restriction cannot be lifted for lfp_val: it reads a negated
   atom from the previous iterate (all-false at the start), so with a negated atom inside a cycle it is not the
   least model and the equality is FALSE, see C11_lfp_val_negated_atom_cycle below; C11_lfp_equal is the
   statement for that class (negation on atoms).
   Not covered by any of the least-model theorems: negation of derived (non-atom) nodes (stratified negation);
   for those histories the proved statements are C11_builder_sound + C11_builder_complete (same supported
   valuations), the stratified (perfect-model) reading is covered by the tie only.  Missing for it: a level
   mapping of the builder's graph compatible with one of the reference graph (shared/collapsed nodes get the
   minimum level of the reference nodes they stand for), then the level-wise version of C11_least_model_equal. *)
Theorem C11_lfp_val_equal_partial : forall o pcl ops r, run o pcl init ops = Ok r -> posonly (rg r) ->
  forall a n ik, nth_error (rmap r) n = Some ik ->
  lfp_val a (nodes (impl r)) ik = lfp_val a (rg r) (Some (Z.of_nat n + 1)).
Proof. exact lfp_val_equal. Qed.
Print Assumptions C11_lfp_val_equal_partial.

Theorem C11_no_negation_inherited : forall o pcl ops r, run o pcl init ops = Ok r -> posonly (rg r) ->
  posonly (nodes (impl r)).
Proof. exact posonly_inherited. Qed.
Print Assumptions C11_no_negation_inherited.

Theorem C11_lfp_val_is_least : forall a g, posonly g -> exists V, least_sol a g V /\ forall k, lfp_val a g k = vkey V k.
Proof. exact lfp_val_least. Qed.
Print Assumptions C11_lfp_val_is_least.

(* Non-vacuity: a history with a mutable disjunction m = or() that is closed into a
   cycle (c = and(m, a, TRUE, m); add_disjunct(m, c); add_disjunct(m, b)), a collapsed
   single-child or, a complementary pair, a shared conjunction.  The run is Ok, the
   builder's graph has 5 nodes for 8 reference nodes, and the least-fixpoint values
   of all returned keys agree with the reference graph for all four assignments. *)
Definition ex_opts := mkOpts true false false false false 0.
Definition ex_pcl (_ : Z) := PProb.
Definition ex_ops :=
  [OAtom 0 None; OAtom 1 None; OOr [] true true None None; OAnd [Some 3; Some 1; Some 0; Some 3] None None;
   ODisjunct (Some 3) (Some 4); ODisjunct (Some 3) (Some 2); OOr [Some 4] true false None None;
   OOr [Some 2; Some (-2)] true false None None; OAnd [Some 3; Some 1] None None;
   OOr [Some 5; Some (-1); None] true false None None].
Definition ex_assigns : list (Z -> bool) :=
  map (fun p : bool * bool => fun id : Z => if id =? 0 then fst p else snd p)
      [(false, false); (false, true); (true, false); (true, true)].

Example C11_example_cyclic :
  match run ex_opts ex_pcl init ex_ops with
  | Ok r => Some (rmap r, length (nodes (impl r)), imut r,
                  map (fun a => map (fun k => lfp_val a (nodes (impl r)) k) (rmap r)) ex_assigns,
                  map (fun a => map (fun i => lfp_val a (rg r) (Some (Z.of_nat i))) (seq 1 (length (rg r)))) ex_assigns)
  | _ => None
  end
  = Some ([Some 1; Some 2; Some 3; Some 4; Some 4; Some 0; Some 4; Some 5], 5%nat, [3],
          [[false; false; false; false; false; true; false; true];
           [false; true; true; false; false; true; false; true];
           [true; false; false; false; false; true; false; false];
           [true; true; true; true; true; true; true; true]],
          [[false; false; false; false; false; true; false; true];
           [false; true; true; false; false; true; false; true];
           [true; false; false; false; false; true; false; false];
           [true; true; true; true; true; true; true; true]]).
Proof. vm_compute. reflexivity. Qed.

(* the hypotheses of C11_meaning_acyclic are satisfiable by a non-trivial history *)
Example C11_example_acyclic :
  match run ex_opts ex_pcl init [OAtom 0 None; OAtom 1 None; OAnd [Some 1; Some (-2); Some 1] None None;
                                 OOr [Some 3; Some 2; None] true false None None; OOr [Some 4] true false None None] with
  | Ok r => Some (rmap r, length (nodes (impl r)))
  | _ => None
  end = Some ([Some 1; Some 2; Some 3; Some 4; Some 4], 4%nat).
Proof. vm_compute. reflexivity. Qed.

(* the cyclic example above satisfies the hypothesis of the least-model theorems (negation on atoms only) and the
   least models computed by kleeneN agree on all returned keys, for all four assignments *)
Example C11_example_cyclic_natomic :
  match run ex_opts ex_pcl init ex_ops with
  | Ok r => Some (natomicb (rg r),
                  map (fun a => map (fun k => vkey (lfpN a (nodes (impl r))) k) (rmap r)) ex_assigns,
                  map (fun a => map (fun i => lfpN a (rg r) (Z.of_nat i)) (seq 1 (length (rg r)))) ex_assigns)
  | _ => None
  end
  = Some (true,
          [[false; false; false; false; false; true; false; true];
           [false; true; true; false; false; true; false; true];
           [true; false; false; false; false; true; false; false];
           [true; true; true; true; true; true; true; true]],
          [[false; false; false; false; false; true; false; true];
           [false; true; true; false; false; true; false; true];
           [true; false; false; false; false; true; false; false];
           [true; true; true; true; true; true; true; true]]).
Proof. vm_compute. reflexivity. Qed.

(* Why the least-model theorems are not stated with lfp_val: m = or() mutable; x = and(\+a); q = or(m);
   add_disjunct(m, q); add_disjunct(m, x), with a true.  Least model: m = q = x = false.  The builder's graph
   is {1: a, 2: or(2, -1)}.  lfp_val oscillates on the reference graph (m false, q true after 5 rounds) and
   gets stuck at true on the builder's graph; kleeneN gives false everywhere. *)
Definition ex2_ops :=
  [OAtom 0 None; OOr [] true true None None; OAnd [Some (-1)] None None; OOr [Some 2] true false None None;
   ODisjunct (Some 2) (Some 4); ODisjunct (Some 2) (Some 3)].
Example C11_lfp_val_negated_atom_cycle :
  let a := fun _ : Z => true in
  match run ex_opts ex_pcl init ex2_ops with
  | Ok r => Some (rmap r, natomicb (rg r),
                  map (lfp_val a (nodes (impl r))) (rmap r),
                  map (fun i => lfp_val a (rg r) (Some (Z.of_nat i))) (seq 1 (length (rg r))),
                  map (vkey (lfpN a (nodes (impl r)))) (rmap r),
                  map (fun i => lfpN a (rg r) (Z.of_nat i)) (seq 1 (length (rg r))))
  | _ => None
  end
  = Some ([Some 1; Some 2; Some (-1); Some 2], true,
          [true; true; false; true],
          [true; false; false; true],
          [true; false; false; false],
          [true; false; false; false]).
Proof. vm_compute. reflexivity. Qed.

(* a negation-free cyclic history (m = or() mutable; c = and(m, a); add_disjunct(m, c); add_disjunct(m, b);
   d = or(m, c)): hypothesis of C11_lfp_val_equal_partial satisfiable, lfp_val of all returned keys equal *)
Definition ex3_ops :=
  [OAtom 0 None; OAtom 1 None; OOr [] true true None None; OAnd [Some 3; Some 1] None None;
   ODisjunct (Some 3) (Some 4); ODisjunct (Some 3) (Some 2); OOr [Some 3; Some 4] true false None None].
Example C11_example_positive_cycle :
  match run ex_opts ex_pcl init ex3_ops with
  | Ok r => forallb (fun nd => forallb (fun c => match c with Some z => 0 <=? z | None => true end) (children nd)) (rg r) = true /\
            map (fun a => map (lfp_val a (nodes (impl r))) (rmap r)) ex_assigns
            = map (fun a => map (fun i => lfp_val a (rg r) (Some (Z.of_nat i))) (seq 1 (length (rg r)))) ex_assigns /\
            map (fun a => lfp_val a (rg r) (Some 3)) ex_assigns = [false; true; false; true]
  | _ => False
  end.
Proof. vm_compute. repeat split; reflexivity. Qed.
