(* C11 — The ground-program builder preserves Boolean meaning.
   Only statements; proofs are in Proofs*.v.

   Setting (ModelBuilder.v).  A history is a list of builder calls whose
   arguments are *reference keys*: the reference builder appends one node per
   add_atom/add_and/add_or call and never optimises ([rg], node n = n-th such
   call); the model of LogicFormula is run side by side and [rmap] records the
   key it returned for reference node n.  [run] fails closed: it is [Ok] only if
   every key passed in was returned earlier, add_disjunct is only used on keys
   created with readonly=False (or TRUE), and no call raised.
   A valuation v gives every node index a truth value; [sol a g v] says that v
   satisfies every node equation of graph g under atom assignment a (a supported
   valuation; for an acyclic graph there is exactly one, for a positive cycle
   the least one is the least fixpoint).  [pull rmap v] reads v through the
   returned keys: reference node n gets the value of the key returned for it. *)
From Coq Require Import ZArith List Bool.
From PL.C11 Require Import ModelBuilder ProofsBasics ProofsBuilder ProofsInv ProofsStep ProofsSem.
Import ListNotations.
Open Scope Z_scope.

(* Soundness, for every option vector (auto_compact, keep_order, keep_duplicates,
   keep_all, avoid_name_clash, max_arity), every probability class of the atoms and
   every history (add_atom, add_and, add_or readonly/mutable/placeholder with
   per-call compact flag and names, add_disjunct incl. max_arity splitting,
   negate, add_name), no bound: whatever truth values the builder's graph
   supports, the returned keys carry values that satisfy the equations of the
   unoptimised graph the calls describe.  Constant folding, duplicate and
   complement elimination, single-child collapse (incl. the name-clash branch),
   node sharing through the index tables and later updates of mutable nodes
   never break this. *)
Theorem C11_builder_sound : forall o pcl ops r, run o pcl init ops = Ok r ->
  forall a v, sol a (nodes (impl r)) v -> sol a (rg r) (pull (rmap r) v).
Proof. exact builder_sound. Qed.
Print Assumptions C11_builder_sound.

(* Keys returned earlier are never renumbered and keep denoting their
   reference node after any continuation of the history. *)
Theorem C11_keys_stable : forall o pcl ops1 ops2 r1 r2,
  run o pcl init ops1 = Ok r1 -> run o pcl r1 ops2 = Ok r2 ->
  exists ext, rmap r2 = rmap r1 ++ ext /\
    forall a v, sol a (nodes (impl r2)) v -> sol a (rg r2) (pull (rmap r1 ++ ext) v).
Proof. exact keys_stable. Qed.
Print Assumptions C11_keys_stable.

(* Acyclic histories (add_disjunct never closes a cycle): the reference
   equations have exactly one solution w -- the Boolean functions of the atoms
   that the calls describe -- and every returned key has exactly that value. *)
Theorem C11_meaning_acyclic : forall o pcl ops r, run o pcl init ops = Ok r -> acyclic (rg r) ->
  forall a v w, sol a (nodes (impl r)) v -> sol a (rg r) w ->
  forall i ik, nth_error (rmap r) i = Some ik -> vkey v ik = w (Z.of_nat i + 1).
Proof. exact meaning_acyclic. Qed.
Print Assumptions C11_meaning_acyclic.

Theorem C11_acyclic_meaning_exists : forall a g, acyclic g -> exists w, sol a g w.
Proof. exact acyclic_has_sol. Qed.
Print Assumptions C11_acyclic_meaning_exists.

Theorem C11_acyclic_meaning_unique : forall a g w1 w2, acyclic g -> sol a g w1 -> sol a g w2 ->
  forall i nd, nth_error g i = Some nd -> w1 (Z.of_nat i + 1) = w2 (Z.of_nat i + 1).
Proof. exact acyclic_unique. Qed.
Print Assumptions C11_acyclic_meaning_unique.

(* The invariant behind the theorems (ProofsInv.v: index tables point at live
   read-only nodes with exactly the indexed children; mutable nodes are owned by
   one reference node, are never indexed and are the only nodes whose content
   changes) holds in every reachable state. *)
Theorem C11_invariant : forall o pcl ops r, run o pcl init ops = Ok r -> Inv pcl r.
Proof. intros o pcl ops r H. exact (proj1 (run_inv o pcl ops init r (Inv_init pcl) H)). Qed.
Print Assumptions C11_invariant.

(* Operation level: _add_compound on any state whose index tables are consistent. *)
Theorem C11_add_compound_sound : forall pcl o s im kd content ro nm ph cp s' k,
  idx_ok pcl s im -> im_ok s im ->
  add_compound o s kd content ro nm ph cp = Some (s', k) ->
  idx_ok pcl s' im /\ grows s s' /\
  ((ro = true \/ kd = KConj) -> forall a v, rsol a (sh s') im v -> vkey v k = ev kd v content) /\
  (ro = false -> kd = KDisj -> mut_result s s' content k).
Proof. exact add_compound_sound. Qed.
Print Assumptions C11_add_compound_sound.

(* negate *)
Theorem C11_negate : forall v k, vkey v (negate k) = negb (vkey v k).
Proof. exact vkey_negate. Qed.
Print Assumptions C11_negate.

(* the extracted oracle used by the correspondence runs [run_trace]; status 0 means [run] is Ok with the same state *)
Theorem C11_trace_is_run : forall o pcl ops r acc rets r',
  run_trace o pcl r ops acc = (rets, r', 0%nat) -> run o pcl r ops = Ok r'.
Proof. exact run_trace_ok. Qed.
Print Assumptions C11_trace_is_run.

(* NOT proved (see notes/C11.md):
   C11_builder_complete : forall ... run o pcl init ops = Ok r ->
     forall a w, sol a (rg r) w -> exists v, sol a (nodes (impl r)) v /\ forall i in range, pull (rmap r) v i = w i
   (every supported valuation of the reference graph is realised by the builder's graph), and with it
   C11_builder_sound_lfp : lfp_val a (nodes (impl r)) (key i) = lfp_val a (rg r) (Some i) for stratified cyclic
   histories.  For cyclic histories the proved statement is C11_builder_sound (supported valuations), the
   least-fixpoint reading is covered by the tie only. *)

(* Non-vacuity: a history with a mutable disjunction m = or() that is closed into a
   cycle (c = and(m, a, TRUE, m); add_disjunct(m, c); add_disjunct(m, b)), a collapsed
   single-child or, a complementary pair, a shared conjunction.  The run is Ok, the
   builder's graph has 5 nodes for 8 reference nodes, and the least-fixpoint values
   of all returned keys agree with the reference graph for all four assignments. *)
Definition ex_opts := mkOpts true false false false false 0.
Definition ex_pcl (_ : Z) := PProb.
Definition ex_ops :=
  [OAtom 0 None; OAtom 1 None; OOr [] true true None None; OAnd [Some 3; Some 1; Some 0; Some 3] None None;
   ODisjunct (Some 3) (Some 4); ODisjunct (Some 3) (Some 2); OOr [Some 4] true false None None;
   OOr [Some 2; Some (-2)] true false None None; OAnd [Some 3; Some 1] None None;
   OOr [Some 5; Some (-1); None] true false None None].
Definition ex_assigns : list (Z -> bool) :=
  map (fun p : bool * bool => fun id : Z => if id =? 0 then fst p else snd p)
      [(false, false); (false, true); (true, false); (true, true)].

Example C11_example_cyclic :
  match run ex_opts ex_pcl init ex_ops with
  | Ok r => Some (rmap r, length (nodes (impl r)), imut r,
                  map (fun a => map (fun k => lfp_val a (nodes (impl r)) k) (rmap r)) ex_assigns,
                  map (fun a => map (fun i => lfp_val a (rg r) (Some (Z.of_nat i))) (seq 1 (length (rg r)))) ex_assigns)
  | _ => None
  end
  = Some ([Some 1; Some 2; Some 3; Some 4; Some 4; Some 0; Some 4; Some 5], 5%nat, [3],
          [[false; false; false; false; false; true; false; true];
           [false; true; true; false; false; true; false; true];
           [true; false; false; false; false; true; false; false];
           [true; true; true; true; true; true; true; true]],
          [[false; false; false; false; false; true; false; true];
           [false; true; true; false; false; true; false; true];
           [true; false; false; false; false; true; false; false];
           [true; true; true; true; true; true; true; true]]).
Proof. vm_compute. reflexivity. Qed.

(* the hypotheses of C11_meaning_acyclic are satisfiable by a non-trivial history *)
Example C11_example_acyclic :
  match run ex_opts ex_pcl init [OAtom 0 None; OAtom 1 None; OAnd [Some 1; Some (-2); Some 1] None None;
                                 OOr [Some 3; Some 2; None] true false None None; OOr [Some 4] true false None None] with
  | Ok r => Some (rmap r, length (nodes (impl r)))
  | _ => None
  end = Some ([Some 1; Some 2; Some 3; Some 4; Some 4], 4%nat).
Proof. vm_compute. reflexivity. Qed.
