(* C11 — soundness of the model builder's operations (state level).
   The simulation invariant over call histories is in ProofsInv.v. *)
From Coq Require Import ZArith List Bool Lia.
From PL.C11 Require Import ModelBuilder ProofsBasics.
Import ListNotations.
Open Scope Z_scope.

Definition ix (j : Z) : nat := Z.to_nat (j - 1).

Lemma ix_inj : forall i j, 0 < i -> 0 < j -> ix i = ix j -> i = j.
Proof. unfold ix. intros. lia. Qed.

Lemma ix_next : forall s, ix (next_index s) = length (sh s).
Proof. intros. rewrite sh_length. unfold ix, next_index. lia. Qed.

Lemma next_index_pos : forall s, 0 < next_index s.
Proof. intros. unfold next_index. lia. Qed.

Lemma nth_error_lt : forall (A : Type) (l : list A) n x, nth_error l n = Some x -> (n < length l)%nat.
Proof. intros. apply nth_error_Some. congruence. Qed.

Lemma ix_in_range : forall (g : list node) j nd, 0 < j -> nth_error g (ix j) = Some nd -> j <= Z.of_nat (length g).
Proof. intros g j nd Hj H. apply nth_error_lt in H. unfold ix in H. lia. Qed.

(* ------------------------------------------------------------ equations of the read-only part *)
(* v satisfies the equation of every node that is not in the (mutable) set im *)
Definition rsol (a : Z -> bool) (g : list node) (im : list Z) (v : Z -> bool) : Prop :=
  forall j nd, 0 < j -> nth_error g (ix j) = Some nd -> ~ In j im -> v j = eval_node a v nd.

Lemma rsol_app : forall a g x im v, rsol a (g ++ x) im v -> rsol a g im v.
Proof.
  intros a g x im v H j nd Hj Hn Him. apply H; auto.
  rewrite nth_error_app1; [exact Hn | eapply nth_error_lt; eauto].
Qed.

Lemma rsol_more_mut : forall a g im j0 v, rsol a g (j0 :: im) v -> Z.of_nat (length g) < j0 -> rsol a g im v.
Proof.
  intros a g im j0 v H Hlt j nd Hj Hn Him. apply H; auto.
  intros [E|E]; [|contradiction]. subst. pose proof (ix_in_range _ _ _ Hj Hn). lia.
Qed.

Lemma rsol_set : forall a g im j0 x v, In j0 im -> 0 < j0 -> (rsol a (list_set g (ix j0) x) im v <-> rsol a g im v).
Proof.
  intros a g im j0 x v Hin Hpos. split; intros H j nd Hj Hn Him; apply H; auto.
  - rewrite nth_error_list_set_neq; [exact Hn|]. intro E. apply ix_inj in E; auto. subst. contradiction.
  - rewrite nth_error_list_set_neq in Hn; [exact Hn|]. intro E. apply ix_inj in E; auto. subst. contradiction.
Qed.

Lemma sol_rsol : forall a g im v, sol a g v -> rsol a g im v.
Proof.
  intros a g im v H j nd Hj Hn _. specialize (H (ix j) nd Hn).
  replace (Z.of_nat (ix j) + 1) with j in H by (unfold ix; lia). exact H.
Qed.

Lemma sol_sh : forall a s v, sol a (nodes s) v <-> sol a (sh s) v.
Proof.
  intros a s v. split; intros H i nd Hn.
  - apply sh_nth_inv in Hn. destruct Hn as [nd' [Hn' <-]]. rewrite eval_strip. apply H. exact Hn'.
  - rewrite <- eval_strip. apply H. apply sh_nth. exact Hn.
Qed.

(* ------------------------------------------------------------ index tables *)
Definition tbl_ok {K : Type} (eqd : forall a b : K, {a = b} + {a <> b}) (mk : K -> node)
           (g : list node) (im : list Z) (t : list (K * Z)) : Prop :=
  forall k j, lookup eqd k t = Some j -> 0 < j /\ ~ In j im /\ nth_error g (ix j) = Some (mk k).

Lemma tbl_ok_app : forall K eqd mk g x im (t : list (K * Z)), tbl_ok eqd mk g im t -> tbl_ok eqd mk (g ++ x) im t.
Proof.
  intros K eqd mk g x im t H k j L. destruct (H k j L) as [A [B C]]. repeat split; auto.
  rewrite nth_error_app1; [exact C | eapply nth_error_lt; eauto].
Qed.

Lemma tbl_ok_cons : forall K eqd mk g im (t : list (K * Z)) k0 j0,
  tbl_ok eqd mk g im t -> 0 < j0 -> ~ In j0 im -> nth_error g (ix j0) = Some (mk k0) ->
  tbl_ok eqd mk g im ((k0, j0) :: t).
Proof.
  intros K eqd mk g im t k0 j0 H A B C k j L. simpl in L.
  destruct (eqd k k0) as [->|].
  - injection L as <-. auto.
  - apply H. exact L.
Qed.

Lemma tbl_ok_add_im : forall K eqd mk g im (t : list (K * Z)) j0,
  tbl_ok eqd mk g im t -> Z.of_nat (length g) < j0 -> tbl_ok eqd mk g (j0 :: im) t.
Proof.
  intros K eqd mk g im t j0 H Hlt k j L. destruct (H k j L) as [A [B C]]. repeat split; auto.
  intros [E|E]; [|contradiction]. subst. pose proof (ix_in_range _ _ _ A C). lia.
Qed.

Lemma tbl_ok_set : forall K eqd mk g im (t : list (K * Z)) j0 x,
  tbl_ok eqd mk g im t -> In j0 im -> 0 < j0 -> tbl_ok eqd mk (list_set g (ix j0) x) im t.
Proof.
  intros K eqd mk g im t j0 x H Hin Hpos k j L. destruct (H k j L) as [A [B C]]. repeat split; auto.
  rewrite nth_error_list_set_neq; [exact C|]. intro E. apply ix_inj in E; auto. subst. contradiction.
Qed.

Definition idx_ok (pcl : Z -> pclass) (s : state) (im : list Z) : Prop :=
  tbl_ok Z.eq_dec (fun id => NAtom id (pcl id) None) (sh s) im (idx_atom s) /\
  tbl_ok keys_eq_dec (fun cs => NConj cs None) (sh s) im (idx_conj s) /\
  tbl_ok keys_eq_dec (fun cs => NDisj cs None) (sh s) im (idx_disj s).

Definition im_ok (s : state) (im : list Z) : Prop :=
  forall j, In j im -> 0 < j <= Z.of_nat (length (sh s)).

Definition same_tables (s s' : state) : Prop :=
  idx_atom s' = idx_atom s /\ idx_conj s' = idx_conj s /\ idx_disj s' = idx_disj s.

Lemma idx_ok_ext : forall pcl s s' im x, idx_ok pcl s im -> sh s' = sh s ++ x -> same_tables s s' -> idx_ok pcl s' im.
Proof.
  intros pcl s s' im x [A [B C]] E [T1 [T2 T3]]. unfold idx_ok. rewrite E, T1, T2, T3.
  split; [|split]; apply tbl_ok_app; assumption.
Qed.

Lemma idx_ok_same : forall pcl s s' im, idx_ok pcl s im -> sh s' = sh s -> same_tables s s' -> idx_ok pcl s' im.
Proof.
  intros pcl s s' im H E T. apply (idx_ok_ext pcl s s' im []); auto. rewrite app_nil_r. exact E.
Qed.

Lemma idx_ok_add_im : forall pcl s im j0, idx_ok pcl s im -> Z.of_nat (length (sh s)) < j0 -> idx_ok pcl s (j0 :: im).
Proof. intros pcl s im j0 [A [B C]] H. split; [|split]; apply tbl_ok_add_im; assumption. Qed.

Lemma idx_ok_set : forall pcl s s' im j0 x, idx_ok pcl s im -> In j0 im -> 0 < j0 ->
  sh s' = list_set (sh s) (ix j0) x -> same_tables s s' -> idx_ok pcl s' im.
Proof.
  intros pcl s s' im j0 x [A [B C]] Hin Hpos E [T1 [T2 T3]]. unfold idx_ok. rewrite E, T1, T2, T3.
  split; [|split]; apply tbl_ok_set; assumption.
Qed.

(* ------------------------------------------------------------ get_node / update / add_name *)
Lemma get_node_sh : forall s k nd, get_node s k = Some nd -> 0 < k /\ nth_error (nodes s) (ix k) = Some nd.
Proof.
  intros s k nd H. unfold get_node in H. destruct (k >? 0) eqn:E; [|discriminate]. split; [lia | exact H].
Qed.

Lemma update_spec : forall s k x s', update s k x = Some s' ->
  0 < k /\ (ix k < length (nodes s))%nat /\ nodes s' = list_set (nodes s) (ix k) x /\ same_tables s s' /\ names s' = names s.
Proof.
  intros s k x s' H. unfold update in H.
  destruct ((k >? 0) && Nat.ltb (Z.to_nat (k - 1)) (length (nodes s))) eqn:E; [|discriminate].
  apply andb_true_iff in E. destruct E as [E1 E2]. apply Nat.ltb_lt in E2.
  injection H as <-. repeat split; auto. lia.
Qed.

Lemma update_sh : forall s k x s', update s k x = Some s' -> sh s' = list_set (sh s) (ix k) (strip x).
Proof.
  intros s k x s' H. apply update_spec in H. destruct H as [_ [_ [E _]]].
  unfold sh. rewrite E. apply map_list_set.
Qed.

Lemma add_name_spec : forall s nm k keep s', add_name s nm k keep = Some s' -> sh s' = sh s /\ same_tables s s'.
Proof.
  intros s nm k keep s' H. unfold add_name in H.
  destruct (negb keep && is_probabilistic k).
  - destruct k as [z|]; [|discriminate].
    destruct (get_node s (Z.abs z)) as [nd|] eqn:G; [|discriminate].
    destruct (update s (Z.abs z) (set_name nd (Some (if z <? 0 then - nm else nm)))) as [s1|] eqn:U; [|discriminate].
    injection H as <-. pose proof (update_sh _ _ _ _ U) as E. pose proof (update_spec _ _ _ _ U) as [_ [_ [_ [T _]]]].
    apply get_node_sh in G. destruct G as [_ G]. apply sh_nth in G.
    split.
    + change (sh (bind_name s1 nm (Some z))) with (sh s1). rewrite E.
      rewrite strip_set_name. apply list_set_same. exact G.
    + exact T.
  - injection H as <-. split; [reflexivity | repeat split].
Qed.

(* ------------------------------------------------------------ _add *)
Lemma sh_snoc : forall (g : list node) n, map strip (g ++ [n]) = map strip g ++ [strip n].
Proof. intros. rewrite map_app. reflexivity. Qed.

Lemma nth_snoc : forall (A : Type) (g : list A) x, nth_error (g ++ [x]) (length g) = Some x.
Proof. intros. rewrite nth_error_app2; [|lia]. rewrite Nat.sub_diag. reflexivity. Qed.

Lemma im_ok_fresh : forall s im, im_ok s im -> ~ In (next_index s) im.
Proof.
  intros s im H Hin. apply H in Hin. rewrite sh_length in Hin. unfold next_index in Hin. lia.
Qed.

Lemma add_node_spec : forall pcl s im n reuse s' j,
  idx_ok pcl s im -> im_ok s im ->
  (forall id pc nm, n = NAtom id pc nm -> pc = pcl id) ->
  add_node s n reuse = (s', j) ->
  0 < j /\ nth_error (sh s') (ix j) = Some (strip n) /\ idx_ok pcl s' im /\
  ((sh s' = sh s /\ ~ In j im) \/ (sh s' = sh s ++ [strip n] /\ j = next_index s)) /\
  (reuse = false -> sh s' = sh s ++ [strip n] /\ j = next_index s /\ same_tables s s').
Proof.
  intros pcl s im n reuse s' j Hidx Him Hpc H.
  pose proof Hidx as [TA [TC TD]].
  assert (Fresh : forall s1, sh s1 = sh s ++ [strip n] ->
            nth_error (sh s1) (ix (next_index s)) = Some (strip n)).
  { intros s1 E. rewrite E, ix_next. apply nth_snoc. }
  unfold add_node in H. destruct reuse.
  - destruct n as [id pc nm | cs nm | cs nm].
    + destruct (lookup Z.eq_dec id (idx_atom s)) as [i|] eqn:L.
      * injection H as <- <-. destruct (TA _ _ L) as [A [B C]].
        rewrite (Hpc id pc nm eq_refl).
        split; [exact A|]. split; [exact C|]. split; [exact Hidx|]. split; [left; split; [reflexivity | exact B] | discriminate].
      * injection H as <- <-.
        set (s1 := mkState (nodes s ++ [NAtom id pc nm]) ((id, next_index s) :: idx_atom s) (idx_conj s) (idx_disj s) (names s)).
        assert (E : sh s1 = sh s ++ [strip (NAtom id pc nm)]) by apply sh_snoc.
        split; [apply next_index_pos|]. split; [apply Fresh; exact E|]. split; [|split; [right; split; [exact E | reflexivity] | discriminate]].
        unfold idx_ok. rewrite E. simpl idx_atom. simpl idx_conj. simpl idx_disj.
        split; [|split; apply tbl_ok_app; assumption].
        apply tbl_ok_cons; [apply tbl_ok_app; assumption | apply next_index_pos | apply im_ok_fresh; assumption |].
        rewrite ix_next, nth_snoc. simpl. rewrite (Hpc id pc nm eq_refl). reflexivity.
    + destruct (lookup keys_eq_dec cs (idx_conj s)) as [i|] eqn:L.
      * injection H as <- <-. destruct (TC _ _ L) as [A [B C]].
        split; [exact A|]. split; [exact C|]. split; [exact Hidx|]. split; [left; split; [reflexivity | exact B] | discriminate].
      * injection H as <- <-.
        set (s1 := mkState (nodes s ++ [NConj cs nm]) (idx_atom s) ((cs, next_index s) :: idx_conj s) (idx_disj s) (names s)).
        assert (E : sh s1 = sh s ++ [strip (NConj cs nm)]) by apply sh_snoc.
        split; [apply next_index_pos|]. split; [apply Fresh; exact E|]. split; [|split; [right; split; [exact E | reflexivity] | discriminate]].
        unfold idx_ok. rewrite E. simpl idx_atom. simpl idx_conj. simpl idx_disj.
        split; [apply tbl_ok_app; assumption | split; [|apply tbl_ok_app; assumption]].
        apply tbl_ok_cons; [apply tbl_ok_app; assumption | apply next_index_pos | apply im_ok_fresh; assumption |].
        rewrite ix_next, nth_snoc. reflexivity.
    + destruct (lookup keys_eq_dec cs (idx_disj s)) as [i|] eqn:L.
      * injection H as <- <-. destruct (TD _ _ L) as [A [B C]].
        split; [exact A|]. split; [exact C|]. split; [exact Hidx|]. split; [left; split; [reflexivity | exact B] | discriminate].
      * injection H as <- <-.
        set (s1 := mkState (nodes s ++ [NDisj cs nm]) (idx_atom s) (idx_conj s) ((cs, next_index s) :: idx_disj s) (names s)).
        assert (E : sh s1 = sh s ++ [strip (NDisj cs nm)]) by apply sh_snoc.
        split; [apply next_index_pos|]. split; [apply Fresh; exact E|]. split; [|split; [right; split; [exact E | reflexivity] | discriminate]].
        unfold idx_ok. rewrite E. simpl idx_atom. simpl idx_conj. simpl idx_disj.
        split; [apply tbl_ok_app; assumption | split; [apply tbl_ok_app; assumption|]].
        apply tbl_ok_cons; [apply tbl_ok_app; assumption | apply next_index_pos | apply im_ok_fresh; assumption |].
        rewrite ix_next, nth_snoc. reflexivity.
  - injection H as <- <-.
    assert (E : sh (append_node s n) = sh s ++ [strip n]) by apply sh_snoc.
    assert (T : same_tables s (append_node s n)) by (repeat split).
    split; [apply next_index_pos|]. split; [apply Fresh; exact E|].
    split; [eapply idx_ok_ext; eauto|]. split; [right; auto|]. intros _. auto.
Qed.

(* ------------------------------------------------------------ _add_compound *)
Definition grows (s s' : state) : Prop := exists x, sh s' = sh s ++ x.

Lemma grows_refl : forall s, grows s s.
Proof. intro s. exists []. rewrite app_nil_r. reflexivity. Qed.

Lemma grows_same : forall s s', sh s' = sh s -> grows s s'.
Proof. intros s s' E. exists []. rewrite app_nil_r. exact E. Qed.

Lemma im_ok_grows : forall s s' im, im_ok s im -> grows s s' -> im_ok s' im.
Proof.
  intros s s' im H [x E] j Hj. specialize (H j Hj). rewrite E, app_length. lia.
Qed.

(* what `create` gives *)
Lemma create_spec : forall pcl o s im kd cs ro nm clash s' k,
  idx_ok pcl s im -> im_ok s im ->
  create o s kd cs ro nm clash = (s', k) ->
  exists j, k = Some j /\ 0 < j /\ nth_error (sh s') (ix j) = Some (mk_node kd cs None) /\ idx_ok pcl s' im /\ grows s s' /\
  ((ro = true \/ kd = KConj) -> ~ In j im) /\
  (ro = false -> kd = KDisj -> sh s' = sh s ++ [NDisj cs None] /\ j = next_index s /\ same_tables s s').
Proof.
  intros pcl o s im kd cs ro nm clash s' k Hidx Him H. unfold create in H.
  match type of H with (let (_, _) := add_node s ?n ?r in _) = _ => destruct (add_node s n r) as [s1 i] eqn:A end.
  injection H as <- <-.
  apply (add_node_spec pcl s im) in A; auto.
  2:{ intros id pc nm' E. destruct kd; discriminate. }
  destruct A as [P [N [I [D F]]]]. rewrite strip_mk_node in *.
  exists i. split; [reflexivity|]. split; [exact P|]. split; [exact N|]. split; [exact I|].
  split; [destruct D as [[E _]|[E _]]; [apply grows_same; exact E | eexists; exact E]|].
  split.
  - intros _. destruct D as [[_ D]|[_ D]]; [exact D | subst i; apply im_ok_fresh; exact Him].
  - intros -> ->. simpl in F. apply F. reflexivity.
Qed.

Lemma filter_proper : forall kd content x,
  memk (kt kd) content = false -> In x (filter (fun y => negb (key_eqb y (kf kd))) content) -> proper x.
Proof.
  intros kd content x Hm Hin. apply filter_In in Hin. destruct Hin as [Hin Hf].
  apply negb_true_iff in Hf.
  assert (x <> kt kd). { intro E. subst. apply memk_In in Hin. congruence. }
  assert (x <> kf kd). { intro E. subst. assert (key_eqb (kf kd) (kf kd) = true) by (apply key_eqb_true; reflexivity). congruence. }
  unfold kt, kf, KTRUE, KFALSE in *.
  destruct x as [z|]; destruct kd; simpl; try congruence; try (intro E; subst; congruence).
Qed.

(* the shape of the result when the node is created by a non-readonly add_or *)
Definition mut_result (s s' : state) (content : list key) (k : key) : Prop :=
  (k = Some 0 /\ sh s' = sh s /\ forall v, existsb (vkey v) content = true) \/
  (k = None /\ sh s' = sh s /\ forall v, existsb (vkey v) content = false) \/
  (exists c2, k = Some (next_index s) /\ sh s' = sh s ++ [NDisj c2 None] /\ same_tables s s' /\
              forall v, existsb (vkey v) c2 = existsb (vkey v) content).

Lemma add_compound_sound : forall pcl o s im kd content ro nm ph cp s' k,
  idx_ok pcl s im -> im_ok s im ->
  add_compound o s kd content ro nm ph cp = Some (s', k) ->
  idx_ok pcl s' im /\ grows s s' /\
  ((ro = true \/ kd = KConj) -> forall a v, rsol a (sh s') im v -> vkey v k = ev kd v content) /\
  (ro = false -> kd = KDisj -> mut_result s s' content k).
Proof.
  intros pcl o s im kd content ro nm ph cp s' k Hidx Him H.
  unfold add_compound in H.
  destruct (negb ph && match content with [] => true | _ => false end) eqn:Eassert; [discriminate|].
  fold (kt kd) in H. fold (kf kd) in H.
  (* the final `create` step, shared by several branches *)
  assert (Create : forall cs clash s1 k1,
            (forall v, ev kd v cs = ev kd v content) ->
            create o s kd cs ro nm clash = (s1, k1) ->
            idx_ok pcl s1 im /\ grows s s1 /\
            ((ro = true \/ kd = KConj) -> forall a v, rsol a (sh s1) im v -> vkey v k1 = ev kd v content) /\
            (ro = false -> kd = KDisj -> mut_result s s1 content k1)).
  { intros cs clash s1 k1 Hev Hc.
    destruct (create_spec pcl o s im kd cs ro nm clash s1 k1 Hidx Him Hc) as [j [-> [Pj [Nj [Ij [Gj [Rj Mj]]]]]]].
    split; [exact Ij|]. split; [exact Gj|]. split.
    - intros Hro a v Hr. simpl. assert (j =? 0 = false) as -> by lia. assert (j >? 0 = true) as -> by lia.
      rewrite (Hr j _ Pj Nj (Rj Hro)). rewrite eval_mk_node. apply Hev.
    - intros Hro Hkd. right. right. exists cs. destruct (Mj Hro Hkd) as [E [-> T]].
      subst kd. simpl in Hev. auto. }
  destruct (match cp with Some b => b | None => auto_compact o end).
  2:{ injection H as H. destruct (create o s kd content ro nm false) as [s1 k1] eqn:C. injection H as <- <-.
      eapply Create; eauto. }
  destruct (memk (kt kd) content) eqn:Ht.
  { injection H as <- <-. split; [exact Hidx|]. split; [apply grows_refl|]. split.
    - intros _ a v _. symmetry. apply ev_absorbing. apply memk_In. exact Ht.
    - intros _ ->. left. split; [reflexivity|]. split; [reflexivity|]. intro v.
      apply (ev_absorbing KDisj). apply memk_In. exact Ht. }
  set (c1 := filter (fun x => negb (key_eqb x (kf kd))) content) in *.
  set (c2 := if keep_duplicates o then c1 else dedup c1) in *.
  assert (Hc2 : forall v, ev kd v c2 = ev kd v content).
  { intro v. unfold c2. destruct (keep_duplicates o); [|rewrite ev_dedup]; apply ev_filter_neutral. }
  assert (Hprop : forall x, In x c2 -> proper x).
  { intros x Hx. apply (filter_proper kd content); [exact Ht|]. fold c1.
    unfold c2 in Hx. destruct (keep_duplicates o); [exact Hx | rewrite dedup_In in Hx; exact Hx]. }
  destruct (match c2 with [] => true | _ => false end && negb ph) eqn:Eempty.
  { injection H as <- <-. apply andb_true_iff in Eempty. destruct Eempty as [Ee _].
    destruct c2 as [|? ?] eqn:Ec2; [|discriminate].
    split; [exact Hidx|]. split; [apply grows_refl|]. split.
    - intros _ a v _. rewrite <- Hc2. symmetry. apply ev_nil.
    - intros _ ->. right. left. split; [reflexivity|]. split; [reflexivity|]. intro v.
      specialize (Hc2 v). simpl in Hc2. symmetry. exact Hc2. }
  destruct (opposites c2) eqn:Eopp.
  { injection H as <- <-. destruct (opposites_witness c2 Hprop Eopp) as [x [Hx1 Hx2]].
    split; [exact Hidx|]. split; [apply grows_refl|]. split.
    - intros _ a v _. rewrite <- Hc2. symmetry. apply (ev_complement kd v c2 x); assumption.
    - intros _ ->. left. split; [reflexivity|]. split; [reflexivity|]. intro v.
      specialize (Hc2 v). simpl in Hc2. rewrite <- Hc2. apply (ev_complement KDisj v c2 x); assumption. }
  (* remaining: single-child collapse or creation *)
  assert (Fallback : forall clash s1 k1, create o s kd c2 ro nm clash = (s1, k1) ->
            idx_ok pcl s1 im /\ grows s s1 /\
            ((ro = true \/ kd = KConj) -> forall a v, rsol a (sh s1) im v -> vkey v k1 = ev kd v content) /\
            (ro = false -> kd = KDisj -> mut_result s s1 content k1)).
  { intros clash s1 k1 Hc. eapply Create; eauto. }
  assert (Collapse : forall c s1, c2 = [c] -> ro = true -> sh s1 = sh s -> same_tables s s1 ->
            idx_ok pcl s1 im /\ grows s s1 /\
            ((ro = true \/ kd = KConj) -> forall a v, rsol a (sh s1) im v -> vkey v c = ev kd v content) /\
            (ro = false -> kd = KDisj -> mut_result s s1 content c)).
  { intros c s1 Ec Hro E T. split; [eapply idx_ok_same; eauto|]. split; [apply grows_same; exact E|]. split.
    - intros _ a v _. rewrite <- Hc2, Ec. symmetry. apply ev_single.
    - intros Hro'. congruence. }
  destruct c2 as [|c [|c' rest]] eqn:Ec2.
  - destruct (create o s kd [] ro nm false) as [s1 k1] eqn:C. injection H as <- <-. eapply Fallback; eauto.
  - destruct ro eqn:Ero.
    2:{ destruct (create o s kd [c] false nm false) as [s1 k1] eqn:C. injection H as <- <-. eapply Fallback; eauto. }
    destruct (avoid_name_clash o).
    + destruct c as [z|]; [|discriminate].
      destruct (get_node s (Z.abs z)) as [nd|]; [|discriminate].
      destruct (match nm with None => true | Some a => match node_name nd with None => true | Some b => a =? b end end).
      * destruct nm as [n|].
        -- destruct (add_name s n (Some z) false) as [s1|] eqn:AN; [|discriminate]. injection H as <- <-.
           apply add_name_spec in AN. destruct AN as [E T]. eapply Collapse; eauto.
        -- injection H as <- <-. eapply Collapse; eauto. repeat split.
      * match type of H with Some ?t = _ => destruct t as [s1 k1] eqn:C end. injection H as <- <-. eapply Fallback; eauto.
    + destruct nm as [n|].
      * destruct c as [z|]; [|discriminate].
        destruct (get_node s (Z.abs z)) as [nd|]; [|discriminate].
        destruct (node_name nd).
        -- injection H as <- <-. eapply Collapse; eauto. repeat split.
        -- destruct (add_name s n (Some z) false) as [s1|] eqn:AN; [|discriminate]. injection H as <- <-.
           apply add_name_spec in AN. destruct AN as [E T]. eapply Collapse; eauto.
      * injection H as <- <-. eapply Collapse; eauto. repeat split.
  - destruct (create o s kd (c :: c' :: rest) ro nm false) as [s1 k1] eqn:C. injection H as <- <-. eapply Fallback; eauto.
Qed.
