(* C23 — invariants of Border.update and of the evaluate loop. *)
From Coq Require Import ZArith QArith List Bool Lia Lqa Setoid.
From PL.C23 Require Import ModelPartial ModelKBest ProofsPartial ProofsWMC.
Import ListNotations.
Open Scope Z_scope.
Ltac Zify.zify_post_hook ::= Z.to_euclidean_division_equations.

Lemma pairwise_snoc {A} (R : A -> A -> Prop) l y :
  pairwise R l -> Forall (fun x => R x y) l -> pairwise R (l ++ [y]).
Proof.
  induction l as [|x l IH]; simpl; intros PW Hf.
  - split; auto.
  - destruct PW as [P1 P2]. inversion Hf; subst. split.
    + apply Forall_app. split; auto.
    + apply IH; auto.
Qed.

Lemma sumQ_snoc (f : list Z -> Q) cs c :
  (sumQ (map f (cs ++ [c])) == sumQ (map f cs) + f c)%Q.
Proof.
  induction cs as [|x cs IH]; simpl.
  - ring.
  - rewrite IH. ring.
Qed.

(* a cube that can be handed to the weight lemma: every variable at most once, only atom nodes *)
Definition cube_good (g : dag) (c : list Z) : Prop :=
  NoDup (map Z.abs c) /\ forall l, In l c -> is_atom g (Z.abs l) = true.

Lemma is_atom_range g i : is_atom g i = true -> 1 <= i <= Z.of_nat (length g).
Proof.
  unfold is_atom, node_at. destruct (i <? 1) eqn:E; [discriminate|].
  destruct (nth_error g (Z.to_nat (i - 1))) eqn:E'; [|discriminate]. intros _.
  assert (Z.to_nat (i - 1) < length g)%nat by (apply nth_error_Some; congruence). lia.
Qed.

(* NoDup of what from_partial reads back *)
Lemma from_partial_nodup weighted sol0 :
  (forall i, weighted i = true -> In (ct i) sol0 -> ~ In (- pt i) sol0) ->
  forall t, incl t sol0 -> NoDup (map Z.abs t) -> NoDup (map Z.abs (from_partial weighted t)).
Proof.
  intros H. induction t as [|s t IH]; intros Hincl ND.
  - simpl. constructor.
  - assert (Ht : incl t sol0) by (intros x Hx; apply Hincl; right; auto).
    simpl in ND. inversion ND as [|? ? N1 N2]; subst.
    specialize (IH Ht N2).
    change (from_partial weighted (s :: t))
      with ((fun s => if (s mod 2 =? 1) && (s <? 0) then
                         let r := (Z.abs s + 1) / 2 in if weighted r then [- r] else []
                       else if (s mod 2 =? 0) && (0 <? s) then
                         let r := (Z.abs s + 1) / 2 in if weighted r then [r] else []
                       else []) s ++ from_partial weighted t).
    cbv beta zeta.
    assert (Hs : In s sol0) by (apply Hincl; left; auto).
    assert (Key : forall x, In x (from_partial weighted t) -> Z.abs x = (Z.abs s + 1) / 2 ->
                  weighted ((Z.abs s + 1) / 2) = true ->
                  ((s mod 2 = 1 /\ s < 0) \/ (s mod 2 = 0 /\ 0 < s)) -> False).
    { intros x Hx Hab Hwr Hcase.
      destruct (from_partial_inv weighted t x Hx) as [_ [Hx0 [[Hp Hin]|[Hn Hin]]]].
      - destruct Hcase as [[Hm Hneg]|[Hm Hpos]].
        + (* s = -pt r, x = r, ct r in t *)
          apply (H ((Z.abs s + 1) / 2) Hwr).
          * apply Ht. replace ((Z.abs s + 1) / 2) with x by lia. exact Hin.
          * unfold pt, ct. replace (- (2 * ((Z.abs s + 1) / 2) - 1)) with s by lia. exact Hs.
        + (* s = ct r = ct x in t: duplicate *)
          apply N1. apply in_map_iff. exists (ct x). split; auto. unfold ct. lia.
      - destruct Hcase as [[Hm Hneg]|[Hm Hpos]].
        + (* s = -pt r, x = -r, -pt r in t: duplicate *)
          apply N1. apply in_map_iff. exists (- pt (- x)). split; auto. unfold pt, ct. lia.
        + (* s = ct r, x = -r, -pt r in t *)
          apply (H ((Z.abs s + 1) / 2) Hwr).
          * unfold ct. replace (2 * ((Z.abs s + 1) / 2)) with s by lia. exact Hs.
          * apply Ht. replace ((Z.abs s + 1) / 2) with (- x) by lia. exact Hin. }
    destruct ((s mod 2 =? 1) && (s <? 0)) eqn:E1.
    + apply andb_true_iff in E1. destruct E1 as [Ea Eb]. apply Z.eqb_eq in Ea. apply Z.ltb_lt in Eb.
      destruct (weighted ((Z.abs s + 1) / 2)) eqn:Ew; [|exact IH].
      simpl. constructor; auto. intro HI. apply in_map_iff in HI. destruct HI as [x [Hx1 Hx2]].
      apply (Key x Hx2); auto. lia.
    + destruct ((s mod 2 =? 0) && (0 <? s)) eqn:E2; [|exact IH].
      apply andb_true_iff in E2. destruct E2 as [Ea Eb]. apply Z.eqb_eq in Ea. apply Z.ltb_lt in Eb.
      destruct (weighted ((Z.abs s + 1) / 2)) eqn:Ew; [|exact IH].
      simpl. constructor; auto. intro HI. apply in_map_iff in HI. destruct HI as [x [Hx1 Hx2]].
      apply (Key x Hx2); auto. lia.
Qed.

Section K.
  Variable solver : list (list Z) -> option (list Z).
  Variable g : dag.
  Variable ads : list clause.          (* constraint clauses copied by clarks_completion (ADs) *)
  Variable weighted : Z -> bool.
  Variable w : Z -> Q * Q.
  Let n := length g.
  Let F := completion g ++ ads.

  Hypothesis Hwf : wf_dag g = true.
  Hypothesis Hw : forall i, is_atom g i = true <-> weighted i = true.
  Hypothesis HrF : in_range n F = true.
  (* the solver's contract *)
  Hypothesis solver_sound : forall cs sol, solver cs = Some sol -> consistent sol /\ all_sat sol cs = true.
  Hypothesis solver_complete : forall cs, solver cs = None -> forall m, fsat m cs = false.
  Hypothesis Hnn : nonneg w.
  (* `okc` = an extra invariant of the cubes read back from ANY model of the encoding of F plus
     further clauses (AD-saturation when F contains AD clauses; `fun _ => True` otherwise);
     the weight lemma is only needed for such cubes *)
  Variable okc : list Z -> Prop.
  Hypothesis Hok : forall extra sol, consistent sol ->
    all_sat sol (encode n true (F ++ extra)) = true -> okc (from_partial weighted sol).
  Hypothesis Hcw : forall c, cube_good g c -> okc c ->
    (cube_weight w c == wmc w n (fun a => holds_all a F && cube_sat a c))%Q.

  Section OneBorder.
  Variable q : Z.
  Hypothesis Hq : 0 < Z.abs q <= Z.of_nat n.

  Definition clauses_of (cs : list (list Z)) : list clause := F ++ Constr true [q] :: map block cs.

  Inductive reach : border -> Prop :=
  | reach_init : reach (border_init F q)
  | reach_step b : reach b -> reach (border_update solver n weighted w b).

  Inductive cubes_ok : list (list Z) -> Prop :=
  | co_nil : cubes_ok []
  | co_snoc cs sol : cubes_ok cs -> consistent sol ->
      all_sat sol (encode n true (clauses_of cs)) = true ->
      cubes_ok (cs ++ [from_partial weighted sol]).

  Lemma clauses_snoc cs c : clauses_of cs ++ [block c] = clauses_of (cs ++ [c]).
  Proof. unfold clauses_of. rewrite <- app_assoc. simpl. rewrite map_app. reflexivity. Qed.

  Lemma reach_inv b : reach b ->
    b_clauses b = clauses_of (b_cubes b) /\ cubes_ok (b_cubes b) /\
    (b_value b == sumQ (map (cube_weight w) (b_cubes b)))%Q /\
    (b_impr b = None -> solver (encode n true (b_clauses b)) = None).
  Proof.
    induction 1 as [|b Hb IH].
    - simpl. split; [reflexivity|]. split; [constructor|]. split; [reflexivity|discriminate].
    - destruct IH as [I1 [I2 [I3 I4]]]. unfold border_update.
      destruct (solver (encode n true (b_clauses b))) as [sol|] eqn:Es; simpl.
      + destruct (solver_sound _ _ Es) as [S1 S2]. split; [|split; [|split]].
        * rewrite I1. apply clauses_snoc.
        * constructor; auto. rewrite <- I1. exact S2.
        * rewrite sumQ_snoc. rewrite I3. reflexivity.
        * discriminate.
      + split; [|split; [|split]]; auto.
  Qed.

  (* --- facts about the answers read back *)
  Lemma sol_cube_good cs sol : consistent sol -> all_sat sol (encode n true (clauses_of cs)) = true ->
    cube_good g (from_partial weighted sol).
  Proof.
    clear solver_sound solver_complete Hcw Hok okc Hnn HrF.
    intros Hc Hs. split.
    - apply (from_partial_nodup weighted sol); [|apply incl_refl|apply Hc].
      intros i Hwi Hct. apply Hw in Hwi. apply is_atom_range in Hwi. fold n in Hwi.
      pose proof (all_sat_In _ _ _ Hs (encode_atom_in n true _ i Hwi)) as Hcl.
      apply csat_In in Hcl. destruct Hcl as [l [Hl1 Hl2]]. simpl in Hl1.
      destruct Hl1 as [<-|[<-|[]]].
      + apply consistent_opp; auto.
      + exfalso. revert Hl2. apply consistent_opp; auto.
    - intros l Hl. apply from_partial_inv in Hl. apply Hw. tauto.
  Qed.

  Lemma cubes_good cs : cubes_ok cs -> Forall (cube_good g) cs.
  Proof.
    clear solver_sound solver_complete Hcw Hok okc Hnn HrF.
    induction 1 as [|cs sol Hcs IH Hc Hs]; [constructor|].
    apply Forall_app. split; auto. constructor; [|constructor]. eapply sol_cube_good; eauto.
  Qed.

  Lemma cube_good_lit c l : cube_good g c -> In l c -> l <> 0 /\ weighted (Z.abs l) = true /\ 1 <= Z.abs l <= Z.of_nat n.
  Proof.
    clear solver_sound solver_complete Hcw Hok okc Hnn HrF.
    intros [_ H] Hl. specialize (H l Hl). pose proof (is_atom_range _ _ H) as Hr. fold n in Hr.
    split; [lia|]. split; auto. apply Hw; auto.
  Qed.

  Lemma sol_exclusive cs sol c : cubes_ok cs -> In c cs -> consistent sol ->
    all_sat sol (encode n true (clauses_of cs)) = true -> exclusive c (from_partial weighted sol).
  Proof.
    clear solver_sound solver_complete Hcw Hok okc Hnn HrF.
    intros Hcs Hc Hcons Hs.
    pose proof (cubes_good cs Hcs) as Hg. rewrite Forall_forall in Hg. specialize (Hg c Hc).
    assert (Hin : In (map cpt (map Z.opp c)) (encode n true (clauses_of cs))).
    { apply encode_forced_in. unfold clauses_of. apply in_or_app. right. right.
      apply in_map_iff. exists c. split; auto. }
    pose proof (all_sat_In _ _ _ Hs Hin) as Hcl. apply csat_In in Hcl.
    destruct Hcl as [x [Hx1 Hx2]]. apply in_map_iff in Hx1. destruct Hx1 as [y [<- Hy]].
    apply in_map_iff in Hy. destruct Hy as [l [<- Hl]].
    destruct (cube_good_lit c l Hg Hl) as [L0 [L1 L2]].
    exists l. split; auto. split; auto.
    unfold cpt in Hx2. destruct (- l <? 0) eqn:E.
    - rewrite Z.opp_involutive in Hx2. apply from_partial_npt; auto; [lia|].
      replace l with (Z.abs l) by lia. exact L1.
    - apply from_partial_ct; auto; [lia|]. replace (- l) with (Z.abs l) by lia. exact L1.
  Qed.

  Lemma cubes_exclusive cs : cubes_ok cs -> pairwise exclusive cs.
  Proof.
    clear solver_sound solver_complete Hcw Hok okc Hnn HrF.
    induction 1 as [|cs sol Hcs IH Hc Hs]; [exact I|].
    apply pairwise_snoc; auto. apply Forall_forall. intros c Hcin. eapply sol_exclusive; eauto.
  Qed.

  Lemma holds_all_app a x y : holds_all a (x ++ y) = holds_all a x && holds_all a y.
  Proof. unfold holds_all. apply forallb_app. Qed.

  Lemma sol_entails cs sol : consistent sol -> all_sat sol (encode n true (clauses_of cs)) = true ->
    entails F q (from_partial weighted sol).
  Proof.
    intros Hcons Hs a Ha Hc.
    unfold F in Ha. rewrite holds_all_app in Ha. apply andb_true_iff in Ha. destruct Ha as [Ha1 Ha2].
    assert (Hs' : all_sat sol (encode (length g) true (completion g ++ (ads ++ Constr true [q] :: map block cs))) = true).
    { unfold clauses_of, F in Hs. rewrite <- app_assoc in Hs. exact Hs. }
    assert (He : existsb (lit a) [q] = true).
    { apply (sound_forced g (ads ++ Constr true [q] :: map block cs) true sol a weighted
                          Hwf Hcons Hs' Ha1).
      - intros i Hi. apply Hw; auto.
      - intros l Hl. unfold cube_sat in Hc. rewrite forallb_forall in Hc. auto.
      - apply in_or_app. right. left. reflexivity.
      - intros l [<-|[]]. exact Hq. }
    simpl in He. rewrite orb_false_r in He. exact He.
  Qed.

  Lemma cubes_entail cs : cubes_ok cs -> Forall (entails F q) cs.
  Proof.
    induction 1 as [|cs sol Hcs IH Hc Hs]; [constructor|].
    apply Forall_app. split; auto. constructor; [|constructor]. eapply sol_entails; eauto.
  Qed.

  (* --- completeness of the enumeration when the solver reports unsatisfiable *)

  Lemma block_range cs : Forall (cube_good g) cs -> in_range n (clauses_of cs) = true.
  Proof.
    intro Hg. unfold clauses_of, in_range. rewrite forallb_app. apply andb_true_iff. split; [exact HrF|].
    simpl. apply andb_true_iff. split.
    - rewrite andb_true_r. unfold lit_in_range. apply andb_true_iff. split; [apply Z.ltb_lt|apply Z.leb_le]; lia.
    - apply forallb_forall. intros x Hx. apply in_map_iff in Hx. destruct Hx as [c [<- Hc]].
      rewrite Forall_forall in Hg. specialize (Hg c Hc). simpl.
      apply forallb_forall. intros y Hy. apply in_map_iff in Hy. destruct Hy as [l [<- Hl]].
      destruct (cube_good_lit c l Hg Hl) as [L0 [L1 L2]].
      unfold lit_in_range. apply andb_true_iff. split; [apply Z.ltb_lt|apply Z.leb_le]; lia.
  Qed.

  Lemma unsat_covers cs : cubes_ok cs -> solver (encode n true (clauses_of cs)) = None ->
    forall a, holds_all a F = true -> lit a q = true -> exists c, In c cs /\ cube_sat a c = true.
  Proof.
    intros Hcs Hnone a Ha Hqa.
    destruct (existsb (cube_sat a) cs) eqn:E.
    - apply existsb_exists in E. exact E.
    - exfalso.
      pose proof (cubes_good cs Hcs) as Hg.
      assert (Hall : holds_all a (clauses_of cs) = true).
      { unfold clauses_of. rewrite holds_all_app. rewrite Ha. simpl. rewrite Hqa. simpl.
        apply forallb_forall. intros x Hx. apply in_map_iff in Hx. destruct Hx as [c [<- Hc]].
        assert (Ec : cube_sat a c = false).
        { destruct (cube_sat a c) eqn:Ec; auto.
          assert (existsb (cube_sat a) cs = true) by (apply existsb_exists; eauto). congruence. }
        unfold cube_sat in Ec. simpl.
        assert (Hex : exists l, In l c /\ lit a l = false).
        { clear - Ec. induction c as [|l c IH]; simpl in Ec; [discriminate|].
          destruct (lit a l) eqn:El.
          - destruct (IH Ec) as [l' [H1 H2]]. exists l'; split; auto. right; auto.
          - exists l; split; auto. left; auto. }
        destruct Hex as [l [Hl1 Hl2]]. apply existsb_exists. exists (- l). split; [apply in_map; auto|].
        rewrite Forall_forall in Hg. destruct (cube_good_lit c l (Hg c Hc) Hl1) as [L0 _].
        rewrite lit_opp by auto. rewrite Hl2. reflexivity. }
      pose proof (embed_sat n a true (clauses_of cs) (block_range cs Hg) Hall) as Hemb.
      rewrite (solver_complete _ Hnone (emb n a)) in Hemb. discriminate.
  Qed.

  (* --- the bounds, given that a good cube's product of weights is its weighted model count *)

  Lemma cubes_okc cs : cubes_ok cs -> Forall okc cs.
  Proof.
    clear solver_sound solver_complete Hcw Hnn HrF.
    induction 1 as [|cs sol Hcs IH Hc Hs]; [constructor|].
    apply Forall_app. split; auto. constructor; [|constructor].
    apply (Hok (Constr true [q] :: map block cs) sol Hc). exact Hs.
  Qed.

  Lemma value_is_wmc cs : Forall (cube_good g) cs -> Forall okc cs ->
    (sumQ (map (cube_weight w) cs)
     == sumQ (map (fun c => wmc w n (fun a => holds_all a F && cube_sat a c)) cs))%Q.
  Proof.
    induction 1 as [|c cs Hc Hcs IH]; intro Ho; simpl; [reflexivity|].
    inversion Ho as [|? ? Ho1 Ho2]; subst. rewrite (IH Ho2), (Hcw c Hc Ho1). reflexivity.
  Qed.

  Theorem border_lower b : reach b -> (b_value b <= prob w n F q)%Q.
  Proof.
    clear solver_complete HrF. intro Hb. destruct (reach_inv b Hb) as [I1 [I2 [I3 I4]]].
    rewrite I3. rewrite (value_is_wmc _ (cubes_good _ I2) (cubes_okc _ I2)).
    apply disjoint_lower; auto using cubes_exclusive, cubes_entail.
  Qed.

  Theorem border_exact b : reach b -> b_impr b = None -> (b_value b == prob w n F q)%Q.
  Proof.
    intros Hb Hnone. destruct (reach_inv b Hb) as [I1 [I2 [I3 I4]]].
    rewrite I3. rewrite (value_is_wmc _ (cubes_good _ I2) (cubes_okc _ I2)).
    apply covering_exact; auto using cubes_exclusive, cubes_entail.
    apply unsat_covers; auto. rewrite <- I1. auto.
  Qed.
  End OneBorder.

  (* ---------------------------------------------------------------- the evaluate loop *)
  Section Loop.
  Variable q : Z.
  Hypothesis Hq : 0 < Z.abs q <= Z.of_nat n.
  Hypothesis Hone : (wmc w n (fun a => holds_all a F) == 1)%Q.
  Variable lower_only : bool.
  Variable conv : Q.
  Let P := prob w n F q.

  Definition result_ok (r : result) : Prop :=
    match r with
    | Value v => (v == P)%Q
    | Interval lo hi => (lo <= P /\ P <= hi)%Q
    | OutOfFuel lo hi => (lo <= P /\ P <= hi)%Q
    end.

  Lemma Hq' : 0 < Z.abs (- q) <= Z.of_nat n.
  Proof. lia. Qed.

  Lemma compl_eq : (prob w n F (- q) == 1 - P)%Q.
  Proof.
    assert (q <> 0) by lia. pose proof (prob_compl w n F q H) as Hc. rewrite Hone in Hc.
    unfold P. lra.
  Qed.

  Lemma interval_ok lb ub : reach q lb -> reach (- q) ub ->
    (b_value lb <= P /\ P <= 1 - b_value ub)%Q.
  Proof.
    intros Hl Hu. pose proof (border_lower q Hq lb Hl) as H1.
    pose proof (border_lower (- q) Hq' ub Hu) as H2. rewrite compl_eq in H2.
    fold P in H1. split; lra.
  Qed.

  Lemma complete_none b : is_complete b = true -> b_impr b = None.
  Proof. unfold is_complete. destruct (b_impr b); [discriminate|reflexivity]. Qed.

  Lemma upper_exact ub : reach (- q) ub -> is_complete ub = true -> (1 - b_value ub == P)%Q.
  Proof.
    intros Hu Hc. pose proof (border_exact (- q) Hq' ub Hu (complete_none _ Hc)) as H.
    rewrite compl_eq in H. lra.
  Qed.

  Theorem loop_sound : forall fuel lb ub r lb' ub',
    reach q lb -> reach (- q) ub ->
    loop solver n weighted w lower_only conv fuel lb ub = (r, lb', ub') ->
    reach q lb' /\ reach (- q) ub' /\ result_ok r.
  Proof.
    induction fuel as [|fuel IH]; intros lb ub r lb' ub' Hl Hu E; cbn [loop] in E.
    - injection E as <- <- <-. split; [|split]; auto. simpl. apply interval_ok; auto.
    - destruct (if lower_only then false else choose_ub lb ub) eqn:Ep; cbv iota in E.
      + (* the upper border is refined *)
        destruct (is_complete ub) eqn:Ec.
        { injection E as <- <- <-. split; [|split]; auto. simpl. apply interval_ok; auto. }
        pose proof (reach_step (- q) ub Hu) as Hu1.
        set (ub1 := border_update solver n weighted w ub) in *.
        destruct (is_complete ub1) eqn:Ec1.
        { destruct (border_eq ub1 lb) eqn:Eeq; cbn [andb negb] in E; injection E as <- <- <-;
            (split; [|split]; auto); simpl.
          - (* nborder == lb: then lb is complete as well *)
            apply (border_exact q Hq lb Hl).
            pose proof (complete_none _ Ec1) as Hn. unfold border_eq in Eeq. rewrite Hn in Eeq.
            destruct (b_impr lb); [discriminate|reflexivity].
          - apply upper_exact; auto. }
        destruct (Qlt_bool (1 - conv) (b_value ub1 + b_value lb)) eqn:Ecv.
        { injection E as <- <- <-. split; [|split]; auto. simpl. apply interval_ok; auto. }
        apply (IH lb ub1); auto.
      + (* the lower border is refined *)
        destruct (is_complete lb) eqn:Ec.
        { injection E as <- <- <-. split; [|split]; auto. simpl. apply interval_ok; auto. }
        pose proof (reach_step q lb Hl) as Hl1.
        set (lb1 := border_update solver n weighted w lb) in *.
        destruct (is_complete lb1) eqn:Ec1.
        { cbn [andb] in E. injection E as <- <- <-. split; [|split]; auto. simpl.
          apply (border_exact q Hq lb1 Hl1). apply complete_none; auto. }
        destruct (Qlt_bool (1 - conv) (b_value ub + b_value lb1)) eqn:Ecv.
        { injection E as <- <- <-. split; [|split]; auto. simpl. apply interval_ok; auto. }
        apply (IH lb1 ub); auto.
  Qed.

  (* with lower_only a single value is only returned by a completed lower border *)
  Lemma loop_lower_value : forall fuel lb ub v lb' ub',
    lower_only = true ->
    loop solver n weighted w lower_only conv fuel lb ub = (Value v, lb', ub') ->
    is_complete lb' = true /\ v = b_value lb'.
  Proof.
    intros fuel lb ub v lb' ub' Hlo. subst lower_only. revert lb ub.
    induction fuel as [|fuel IH]; intros lb ub E; cbn [loop] in E; [discriminate|].
    destruct (is_complete lb) eqn:Ec; [discriminate|].
    set (lb1 := border_update solver n weighted w lb) in *.
    destruct (is_complete lb1) eqn:Ec1.
    { cbn [andb] in E. injection E as <- <- <-. split; auto. }
    destruct (Qlt_bool (1 - conv) (b_value ub + b_value lb1)); [discriminate|].
    apply (IH lb1 ub E).
  Qed.

  (* explain mode (lower_only): on a `Value` the listed proof probabilities sum to P(q) *)
  Theorem explain_sound lb : reach q lb -> is_complete lb = true ->
    (sumQ (explain_probs w lb) == P)%Q.
  Proof.
    intros Hl Hc. destruct (reach_inv q lb Hl) as [_ [_ [I3 _]]].
    unfold explain_probs. rewrite <- I3. apply (border_exact q Hq lb Hl). apply complete_none; auto.
  Qed.
  End Loop.
End K.
