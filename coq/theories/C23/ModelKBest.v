(* C23 — hand model of problog/kbest.py: Border (init / update / is_complete /
   ordering) and KBestEvaluator.evaluate's lower/upper/convergence loop, plus the
   weighted model count used as the specification.  Executable definitions only.

   The MaxSAT solver is a parameter: a function from the hard clause set of the
   DIMACS file to `Some answer` (the integers of the "v ..." line) or `None`
   (UnsatisfiableError).  Soft clauses only influence WHICH model is returned. *)
From Coq Require Import ZArith QArith List Bool.
From PL.C23 Require Import ModelPartial.
Import ListNotations.
Open Scope Z_scope.

(* ---------- weights: extract_weights gives key -> (positive, negative) *)
Definition wlit (w : Z -> Q * Q) (l : Z) : Q := if l <? 0 then snd (w (- l)) else fst (w l).
(* `probability = one; for s in solution: probability *= weights[...]` *)
Definition cube_weight (w : Z -> Q * Q) (c : list Z) : Q :=
  fold_right (fun l acc => (wlit w l * acc)%Q) 1%Q c.

(* ---------- Border *)
Record border := mkBorder {
  b_clauses : list clause;       (* self.wcnf.clauses *)
  b_value : Q;                   (* self.value *)
  b_impr : option Q;             (* self.improvement (None = complete) *)
  b_cubes : list (list Z)        (* history of returned solutions (ghost) *)
}.

Definition block (cube : list Z) : clause := Constr true (map Z.opp cube).

(* Border.__init__: deepcopy(cnf) + add_constraint(TrueConstraint(query), True) *)
Definition border_init (cnf : list clause) (q : Z) : border :=
  mkBorder (cnf ++ [Constr true [q]]) 0%Q (Some 1%Q) [].

Definition is_complete (b : border) : bool :=
  match b_impr b with None => true | Some _ => false end.

Definition Qlt_bool (x y : Q) : bool := negb (Qle_bool y x).

(* max(lb, ub) returns ub iff ub > lb; total_ordering: a > b = not (a < b) and a != b *)
Definition choose_ub (lb ub : border) : bool :=
  match b_impr lb, b_impr ub with
  | _, None => false
  | None, Some _ => true
  | Some pl, Some pu => Qlt_bool pl pu
  end.
(* Border.__eq__ *)
Definition border_eq (x y : border) : bool :=
  match b_impr x, b_impr y with
  | None, None => true
  | Some p, Some q => Qeq_bool p q
  | _, _ => false
  end.

Inductive result :=
| Value (v : Q)
| Interval (lo hi : Q)
| OutOfFuel (lo hi : Q).

Section KBest.
  Variable solver : list (list Z) -> option (list Z).
  Variable n : nat.                   (* atomcount *)
  Variable weighted : Z -> bool.      (* r in self.get_weights() *)
  Variable w : Z -> Q * Q.            (* extract_weights *)

  (* Border.update *)
  Definition border_update (b : border) : border :=
    match solver (encode n true (b_clauses b)) with
    | None => mkBorder (b_clauses b) (b_value b) None (b_cubes b)
    | Some sol =>
        let cube := from_partial weighted sol in
        let p := cube_weight w cube in
        mkBorder (b_clauses b ++ [block cube]) (b_value b + p)%Q (Some p) (b_cubes b ++ [cube])
    end.

  Variable lower_only : bool.
  Variable conv : Q.

  (* the while loop of KBestEvaluator.evaluate (index not None, not 0) *)
  Fixpoint loop (fuel : nat) (lb ub : border) : result * border * border :=
    match fuel with
    | O => (OutOfFuel (b_value lb) (1 - b_value ub)%Q, lb, ub)
    | S fuel' =>
        let pick := if lower_only then false else choose_ub lb ub in
        let nb := if pick then ub else lb in
        if is_complete nb then (Interval (b_value lb) (1 - b_value ub)%Q, lb, ub)
        else
          let nb' := border_update nb in
          let lb' := if pick then lb else nb' in
          let ub' := if pick then nb' else ub in
          if is_complete nb' then
            (if pick && negb (border_eq nb' lb') then Value (1 - b_value ub')%Q else Value (b_value lb'),
             lb', ub')
          else if Qlt_bool (1 - conv)%Q (b_value ub' + b_value lb')%Q then
            (Interval (b_value lb') (1 - b_value ub')%Q, lb', ub')
          else loop fuel' lb' ub'
    end.

  Definition evaluate (fuel : nat) (cnf : list clause) (q : Z) : result * border * border :=
    loop fuel (border_init cnf q) (border_init cnf (- q)).

  (* explain mode: the proofs listed are the lower border's solutions with P = improvement *)
  Definition explain_probs (lb : border) : list Q := map (cube_weight w) (b_cubes lb).
End KBest.

(* ---------- specification: weighted model count over total assignments of 1..n *)
Definition upd (a : Z -> bool) (k : Z) (b : bool) : Z -> bool :=
  fun x => if x =? k then b else a x.

Fixpoint wsum (w : Z -> Q * Q) (k : nat) (f : (Z -> bool) -> Q) (a : Z -> bool) : Q :=
  match k with
  | O => f a
  | S k' =>
      (fst (w (Z.of_nat (S k'))) * wsum w k' f (upd a (Z.of_nat (S k')) true)
       + snd (w (Z.of_nat (S k'))) * wsum w k' f (upd a (Z.of_nat (S k')) false))%Q
  end.

Definition ind (b : bool) : Q := if b then 1%Q else 0%Q.
Definition wmc (w : Z -> Q * Q) (n : nat) (phi : (Z -> bool) -> bool) : Q :=
  wsum w n (fun a => ind (phi a)) (fun _ => false).

Definition cube_sat (a : Z -> bool) (c : list Z) : bool := forallb (lit a) c.
(* P(q) = sum over the total models of the CNF in which q holds of the product of weights *)
Definition prob (w : Z -> Q * Q) (n : nat) (F : list clause) (q : Z) : Q :=
  wmc w n (fun a => holds_all a F && lit a q).
Definition sumQ (l : list Q) : Q := fold_right Qplus 0%Q l.

(* ---------- vocabulary of the bound theorems *)
(* two cubes contain complementary literals *)
Definition exclusive (c d : list Z) : Prop := exists l, l <> 0 /\ In l c /\ In (- l) d.
Fixpoint pairwise {A} (R : A -> A -> Prop) (l : list A) : Prop :=
  match l with [] => True | x :: t => Forall (R x) t /\ pairwise R t end.
(* every total model of F that extends the cube makes q true *)
Definition entails (F : list clause) (q : Z) (c : list Z) : Prop :=
  forall a, holds_all a F = true -> cube_sat a c = true -> lit a q = true.
Definition nonneg (w : Z -> Q * Q) : Prop := forall v, (0 <= fst (w v) /\ 0 <= snd (w v))%Q.

(* ---------- replay helper for the tie: a scripted solver *)
Definition scripted (ans : option (list Z)) : list (list Z) -> option (list Z) := fun _ => ans.
