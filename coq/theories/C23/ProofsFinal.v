(* C23 — the statements of Props.v, assembled from the lemma files. *)
From Coq Require Import ZArith QArith List Bool Lia.
From PL.C23 Require Import ModelPartial ModelKBest ProofsPartial ProofsWMC ProofsKBest.
Import ListNotations.
Open Scope Z_scope.

Lemma partial_sound_final : forall g extra sc sol a weighted,
  wf_dag g = true -> consistent sol ->
  all_sat sol (encode (length g) sc (completion g ++ extra)) = true ->
  holds_all a (completion g) = true ->
  (forall i, is_atom g i = true -> weighted i = true) ->
  (forall l, In l (from_partial weighted sol) -> lit a l = true) ->
  forall i, 1 <= i <= Z.of_nat (length g) ->
  (In (ct i) sol -> a i = true) /\ (In (- pt i) sol -> a i = false).
Proof.
  intros g extra sc sol a weighted H1 H2 H3 H4 H5 H6 i Hi.
  apply (sound_inv g extra sc sol a weighted H1 H2 H3 H4 H5 H6 i); lia.
Qed.

Lemma partial_complete_final : forall n a sc cs,
  in_range n cs = true -> holds_all a cs = true -> exists m, fsat m (encode n sc cs) = true.
Proof. intros n a sc cs H1 H2. exists (emb n a). apply embed_sat; auto. Qed.

Definition solver_sound_c (solver : list (list Z) -> option (list Z)) : Prop :=
  forall cs sol, solver cs = Some sol -> consistent sol /\ all_sat sol cs = true.
Definition solver_complete_c (solver : list (list Z) -> option (list Z)) : Prop :=
  forall cs, solver cs = None -> forall m, fsat m cs = false.
(* the weights are attached to exactly the atom nodes of the DAG *)
Definition weights_on_atoms (g : dag) (weighted : Z -> bool) : Prop :=
  forall i, is_atom g i = true <-> weighted i = true.
(* product of a good cube's literal weights = weighted count of the models extending it *)
Definition cube_weight_is_wmc (g : dag) (ads : list clause) (w : Z -> Q * Q) : Prop :=
  forall c, cube_good g c ->
    (cube_weight w c == wmc w (length g) (fun a => holds_all a (completion g ++ ads) && cube_sat a c))%Q.

Section Final.
  Variables (solver : list (list Z) -> option (list Z)) (g : dag) (ads : list clause)
            (weighted : Z -> bool) (w : Z -> Q * Q) (q : Z).
  Hypothesis Hwf : wf_dag g = true.
  Hypothesis Hw : weights_on_atoms g weighted.
  Hypothesis Hs : solver_sound_c solver.
  Hypothesis Hq : 0 < Z.abs q <= Z.of_nat (length g).

  Lemma cubes_disjoint_final b : reach solver g ads weighted w q b -> pairwise exclusive (b_cubes b).
  Proof.
    intro Hb. destruct (reach_inv solver g ads weighted w Hs q b Hb) as [_ [I2 _]].
    eapply cubes_exclusive; eauto.
  Qed.

  Lemma cubes_entail_final b : reach solver g ads weighted w q b ->
    Forall (entails (completion g ++ ads) q) (b_cubes b).
  Proof.
    intro Hb. destruct (reach_inv solver g ads weighted w Hs q b Hb) as [_ [I2 _]].
    eapply cubes_entail; eauto.
  Qed.

  Lemma cubes_good_final b : reach solver g ads weighted w q b -> Forall (cube_good g) (b_cubes b).
  Proof.
    intro Hb. destruct (reach_inv solver g ads weighted w Hs q b Hb) as [_ [I2 _]].
    eapply cubes_good; eauto.
  Qed.

  Lemma value_sum_final b : reach solver g ads weighted w q b ->
    (b_value b == sumQ (map (cube_weight w) (b_cubes b)))%Q.
  Proof.
    intro Hb. destruct (reach_inv solver g ads weighted w Hs q b Hb) as [_ [_ [I3 _]]]. exact I3.
  Qed.
End Final.

(* ------------------------------------------------------------------ bounds *)
From PL.C23 Require Import ProofsCube.
From Coq Require Import Lqa Setoid.

Section WithADsGen.
  (* general form: constraint clauses `ads` present; `okc` is an invariant of every cube read back
     from a model of the encoding, and the weight lemma is required for such cubes only *)
  Variables (solver : list (list Z) -> option (list Z)) (g : dag) (ads : list clause)
            (weighted : Z -> bool) (w : Z -> Q * Q) (q : Z).
  Hypothesis Hwf : wf_dag g = true.
  Hypothesis Hw : weights_on_atoms g weighted.
  Hypothesis Hr : in_range (length g) (completion g ++ ads) = true.
  Hypothesis Hs : solver_sound_c solver.
  Hypothesis Hc : solver_complete_c solver.
  Hypothesis Hnn : nonneg w.
  Hypothesis Hq : 0 < Z.abs q <= Z.of_nat (length g).
  Variable okc : list Z -> Prop.
  Hypothesis Hok : forall extra sol, consistent sol ->
    all_sat sol (encode (length g) true ((completion g ++ ads) ++ extra)) = true ->
    okc (from_partial weighted sol).
  Hypothesis Hcw : forall c, cube_good g c -> okc c ->
    (cube_weight w c == wmc w (length g) (fun a => holds_all a (completion g ++ ads) && cube_sat a c))%Q.
  Hypothesis Hone : (wmc w (length g) (fun a => holds_all a (completion g ++ ads)) == 1)%Q.

  Lemma lower_gen b : reach solver g ads weighted w q b ->
    (b_value b <= prob w (length g) (completion g ++ ads) q)%Q.
  Proof. intro Hb. exact (border_lower solver g ads weighted w Hwf Hw Hs Hnn okc Hok Hcw q Hq b Hb). Qed.

  Lemma exact_gen b : reach solver g ads weighted w q b -> b_impr b = None ->
    (b_value b == prob w (length g) (completion g ++ ads) q)%Q.
  Proof. intros Hb Hn. exact (border_exact solver g ads weighted w Hwf Hw Hr Hs Hc okc Hok Hcw q Hq b Hb Hn). Qed.

  Lemma evaluate_gen lower_only conv fuel r lb ub :
    evaluate solver (length g) weighted w lower_only conv fuel (completion g ++ ads) q = (r, lb, ub) ->
    match r with
    | Value v => (v == prob w (length g) (completion g ++ ads) q)%Q
    | Interval lo hi | OutOfFuel lo hi =>
        (lo <= prob w (length g) (completion g ++ ads) q /\ prob w (length g) (completion g ++ ads) q <= hi)%Q
    end.
  Proof.
    unfold evaluate. intro E.
    destruct (loop_sound solver g ads weighted w Hwf Hw Hr Hs Hc Hnn okc Hok Hcw q Hq Hone lower_only conv fuel
                _ _ r lb ub (reach_init _ _ _ _ _ _) (reach_init _ _ _ _ _ _) E) as [_ [_ H]].
    destruct r; exact H.
  Qed.

  Lemma explain_gen conv fuel v lb ub :
    evaluate solver (length g) weighted w true conv fuel (completion g ++ ads) q = (Value v, lb, ub) ->
    (sumQ (explain_probs w lb) == prob w (length g) (completion g ++ ads) q)%Q /\ (v == sumQ (explain_probs w lb))%Q.
  Proof.
    unfold evaluate. intro E.
    assert (Hlv : is_complete lb = true /\ v = b_value lb) by (eapply loop_lower_value; [reflexivity|exact E]).
    destruct Hlv as [Hcm Hv].
    destruct (loop_sound solver g ads weighted w Hwf Hw Hr Hs Hc Hnn okc Hok Hcw q Hq Hone true conv fuel
                _ _ _ lb ub (reach_init _ _ _ _ _ _) (reach_init _ _ _ _ _ _) E) as [Hl [_ H]].
    assert (Hex : (sumQ (explain_probs w lb) == prob w (length g) (completion g ++ ads) q)%Q).
    { exact (explain_sound solver g ads weighted w Hwf Hw Hr Hs Hc okc Hok Hcw q Hq lb Hl Hcm). }
    split; auto. simpl in H. rewrite Hex. exact H.
  Qed.
End WithADsGen.

Section WithADs.
  (* the two counting facts about the weights as hypotheses, for ALL good cubes *)
  Variables (solver : list (list Z) -> option (list Z)) (g : dag) (ads : list clause)
            (weighted : Z -> bool) (w : Z -> Q * Q) (q : Z).
  Hypothesis Hwf : wf_dag g = true.
  Hypothesis Hw : weights_on_atoms g weighted.
  Hypothesis Hr : in_range (length g) (completion g ++ ads) = true.
  Hypothesis Hs : solver_sound_c solver.
  Hypothesis Hc : solver_complete_c solver.
  Hypothesis Hnn : nonneg w.
  Hypothesis Hq : 0 < Z.abs q <= Z.of_nat (length g).
  Hypothesis Hcw : cube_weight_is_wmc g ads w.
  Hypothesis Hone : (wmc w (length g) (fun a => holds_all a (completion g ++ ads)) == 1)%Q.

  Let okc : list Z -> Prop := fun _ => True.
  Let Hok : forall extra sol, consistent sol ->
    all_sat sol (encode (length g) true ((completion g ++ ads) ++ extra)) = true ->
    okc (from_partial weighted sol) := fun _ _ _ _ => I.
  Let Hcw' : forall c, cube_good g c -> okc c ->
    (cube_weight w c == wmc w (length g) (fun a => holds_all a (completion g ++ ads) && cube_sat a c))%Q :=
    fun c Hg _ => Hcw c Hg.

  Lemma lower_ads b : reach solver g ads weighted w q b ->
    (b_value b <= prob w (length g) (completion g ++ ads) q)%Q.
  Proof. exact (lower_gen solver g ads weighted w q Hwf Hw Hs Hnn Hq okc Hok Hcw' b). Qed.

  Lemma exact_ads b : reach solver g ads weighted w q b -> b_impr b = None ->
    (b_value b == prob w (length g) (completion g ++ ads) q)%Q.
  Proof. exact (exact_gen solver g ads weighted w q Hwf Hw Hr Hs Hc Hq okc Hok Hcw' b). Qed.

  Lemma evaluate_ads lower_only conv fuel r lb ub :
    evaluate solver (length g) weighted w lower_only conv fuel (completion g ++ ads) q = (r, lb, ub) ->
    match r with
    | Value v => (v == prob w (length g) (completion g ++ ads) q)%Q
    | Interval lo hi | OutOfFuel lo hi =>
        (lo <= prob w (length g) (completion g ++ ads) q /\ prob w (length g) (completion g ++ ads) q <= hi)%Q
    end.
  Proof. exact (evaluate_gen solver g ads weighted w q Hwf Hw Hr Hs Hc Hnn Hq okc Hok Hcw' Hone lower_only conv fuel r lb ub). Qed.

  Lemma explain_ads conv fuel v lb ub :
    evaluate solver (length g) weighted w true conv fuel (completion g ++ ads) q = (Value v, lb, ub) ->
    (sumQ (explain_probs w lb) == prob w (length g) (completion g ++ ads) q)%Q /\ (v == sumQ (explain_probs w lb))%Q.
  Proof. exact (explain_gen solver g ads weighted w q Hwf Hw Hr Hs Hc Hnn Hq okc Hok Hcw' Hone conv fuel v lb ub). Qed.
End WithADs.

Section ADFree.
  Variables (solver : list (list Z) -> option (list Z)) (g : dag)
            (weighted : Z -> bool) (w : Z -> Q * Q) (q : Z).
  Hypothesis Hwf : wf_dag g = true.
  Hypothesis Hw : weights_on_atoms g weighted.
  Hypothesis Hwn : weights_normal g w.
  Hypothesis Hnn : nonneg w.
  Hypothesis Hs : solver_sound_c solver.
  Hypothesis Hq : 0 < Z.abs q <= Z.of_nat (length g).

  Lemma range_adfree : in_range (length g) (completion g ++ []) = true.
  Proof.
    rewrite app_nil_r. unfold in_range. apply forallb_forall. intros c Hc. apply forallb_forall. intros l Hl.
    pose proof (completion_from_range g 1 c l ltac:(lia) Hwf Hc Hl) as H.
    unfold lit_in_range. apply andb_true_iff. split; [apply Z.ltb_lt|apply Z.leb_le]; lia.
  Qed.

  Lemma lower_adfree b : reach solver g [] weighted w q b ->
    (b_value b <= prob w (length g) (completion g) q)%Q.
  Proof.
    intro Hb. rewrite <- (app_nil_r (completion g)). eapply lower_ads; eauto.
    exact (cube_weight_is_wmc_adfree g w Hwf Hwn).
  Qed.

  Lemma Hq_neg : 0 < Z.abs (- q) <= Z.of_nat (length g).
  Proof. lia. Qed.

  Lemma compl_adfree : (prob w (length g) (completion g) (- q) == 1 - prob w (length g) (completion g) q)%Q.
  Proof.
    assert (q <> 0) by lia. pose proof (prob_compl w (length g) (completion g) q H) as Hc.
    pose proof (total_weight_one g w Hwf Hwn) as H1. rewrite app_nil_r in H1. rewrite H1 in Hc. lra.
  Qed.
End ADFree.

Section ADFree2.
  Variables (solver : list (list Z) -> option (list Z)) (g : dag)
            (weighted : Z -> bool) (w : Z -> Q * Q) (q : Z).
  Hypothesis Hwf : wf_dag g = true.
  Hypothesis Hw : weights_on_atoms g weighted.
  Hypothesis Hwn : weights_normal g w.
  Hypothesis Hnn : nonneg w.
  Hypothesis Hs : solver_sound_c solver.
  Hypothesis Hq : 0 < Z.abs q <= Z.of_nat (length g).

  Lemma upper_adfree b : reach solver g [] weighted w (- q) b ->
    (prob w (length g) (completion g) q <= 1 - b_value b)%Q.
  Proof.
    intro Hb.
    assert (H : (b_value b <= prob w (length g) (completion g) (- q))%Q).
    { eapply lower_adfree; eauto. lia. }
    rewrite (compl_adfree g w q Hwf Hwn Hq) in H. lra.
  Qed.

  Hypothesis Hc : solver_complete_c solver.

  Lemma exact_adfree b : reach solver g [] weighted w q b -> b_impr b = None ->
    (b_value b == prob w (length g) (completion g) q)%Q.
  Proof.
    intros Hb Hn. rewrite <- (app_nil_r (completion g)). eapply exact_ads; eauto.
    - apply range_adfree; auto.
    - exact (cube_weight_is_wmc_adfree g w Hwf Hwn).
  Qed.

  Lemma evaluate_adfree lower_only conv fuel r lb ub :
    evaluate solver (length g) weighted w lower_only conv fuel (completion g) q = (r, lb, ub) ->
    match r with
    | Value v => (v == prob w (length g) (completion g) q)%Q
    | Interval lo hi | OutOfFuel lo hi =>
        (lo <= prob w (length g) (completion g) q /\ prob w (length g) (completion g) q <= hi)%Q
    end.
  Proof.
    rewrite <- (app_nil_r (completion g)). intro E.
    eapply (evaluate_ads solver g [] weighted w q); eauto.
    - apply range_adfree; auto.
    - exact (cube_weight_is_wmc_adfree g w Hwf Hwn).
    - apply total_weight_one; auto.
  Qed.

  Lemma explain_adfree conv fuel v lb ub :
    evaluate solver (length g) weighted w true conv fuel (completion g) q = (Value v, lb, ub) ->
    (sumQ (explain_probs w lb) == prob w (length g) (completion g) q)%Q /\ (v == sumQ (explain_probs w lb))%Q.
  Proof.
    rewrite <- (app_nil_r (completion g)). intro E.
    eapply (explain_ads solver g [] weighted w q); eauto.
    - apply range_adfree; auto.
    - exact (cube_weight_is_wmc_adfree g w Hwf Hwn).
    - apply total_weight_one; auto.
  Qed.
End ADFree2.
