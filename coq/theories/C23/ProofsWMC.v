(* C23 — algebra of the weighted sum over total assignments and the two
   counting facts behind the k-best bounds (disjoint cubes that entail q). *)
From Coq Require Import ZArith QArith List Bool Lia Lqa Setoid.
From PL.C23 Require Import ModelPartial ModelKBest ProofsPartial.
Import ListNotations.
Open Scope Q_scope.

Section W.
  Variable w : Z -> Q * Q.

  Lemma wsum_S k f a :
    wsum w (S k) f a =
    fst (w (Z.of_nat (S k))) * wsum w k f (upd a (Z.of_nat (S k)) true)
    + snd (w (Z.of_nat (S k))) * wsum w k f (upd a (Z.of_nat (S k)) false).
  Proof. reflexivity. Qed.

  Lemma wsum_rel (R : (Z -> bool) -> (Z -> bool) -> Prop) k : forall f g,
    (forall j a1 a2 b, (1 <= j <= k)%nat -> R a1 a2 ->
                       R (upd a1 (Z.of_nat j) b) (upd a2 (Z.of_nat j) b)) ->
    (forall a1 a2, R a1 a2 -> f a1 == g a2) ->
    forall a1 a2, R a1 a2 -> wsum w k f a1 == wsum w k g a2.
  Proof.
    induction k as [|k IHk]; intros f g HR Hfg a1 a2 H.
    - simpl. auto.
    - rewrite !wsum_S.
      assert (IH : forall b, wsum w k f (upd a1 (Z.of_nat (S k)) b)
                             == wsum w k g (upd a2 (Z.of_nat (S k)) b)).
      { intro b. apply IHk; auto.
        - intros; apply HR; auto; lia.
        - apply HR; auto; lia. }
      rewrite (IH true), (IH false). reflexivity.
  Qed.

  Lemma wsum_ext k f g a : (forall a, f a == g a) -> wsum w k f a == wsum w k g a.
  Proof.
    intro H. apply (wsum_rel eq); auto.
    - intros; subst; auto.
    - intros; subst; auto.
  Qed.

  Lemma wsum_plus k f g : forall a,
    wsum w k (fun a => f a + g a) a == wsum w k f a + wsum w k g a.
  Proof.
    induction k as [|k IH]; intro a.
    - simpl. reflexivity.
    - rewrite !wsum_S. rewrite !IH. ring.
  Qed.

  Lemma wsum_scale k c f : forall a, wsum w k (fun a => c * f a) a == c * wsum w k f a.
  Proof.
    induction k as [|k IH]; intro a.
    - simpl. reflexivity.
    - rewrite !wsum_S. rewrite !IH. ring.
  Qed.

  Lemma wsum_zero k : forall a, wsum w k (fun _ => 0) a == 0.
  Proof.
    induction k as [|k IH]; intro a.
    - simpl. reflexivity.
    - rewrite !wsum_S. rewrite !IH. ring.
  Qed.

  Lemma wsum_sum {A} k (h : A -> (Z -> bool) -> Q) (cs : list A) : forall a,
    wsum w k (fun a => sumQ (map (fun c => h c a) cs)) a
    == sumQ (map (fun c => wsum w k (h c) a) cs).
  Proof.
    induction cs as [|c cs IH]; intro a.
    - simpl. apply wsum_zero.
    - simpl. rewrite wsum_plus. rewrite IH. reflexivity.
  Qed.

  Hypothesis Hnn : nonneg w.

  Lemma wsum_le k f g : (forall a, f a <= g a) -> forall a, wsum w k f a <= wsum w k g a.
  Proof.
    intro H. induction k as [|k IH]; intro a.
    - simpl. auto.
    - rewrite !wsum_S.
      destruct (Hnn (Z.of_nat (S k))) as [Hp Hq].
      pose proof (IH (upd a (Z.of_nat (S k)) true)) as I1.
      pose proof (IH (upd a (Z.of_nat (S k)) false)) as I2.
      set (p := fst (w (Z.of_nat (S k)))) in *. set (q := snd (w (Z.of_nat (S k)))) in *.
      set (x1 := wsum w k f (upd a (Z.of_nat (S k)) true)) in *.
      set (y1 := wsum w k g (upd a (Z.of_nat (S k)) true)) in *.
      set (x2 := wsum w k f (upd a (Z.of_nat (S k)) false)) in *.
      set (y2 := wsum w k g (upd a (Z.of_nat (S k)) false)) in *.
      assert (E1 : p * x1 <= p * y1).
      { setoid_replace (p * x1) with (x1 * p) by ring. setoid_replace (p * y1) with (y1 * p) by ring.
        apply Qmult_le_compat_r; auto. }
      assert (E2 : q * x2 <= q * y2).
      { setoid_replace (q * x2) with (x2 * q) by ring. setoid_replace (q * y2) with (y2 * q) by ring.
        apply Qmult_le_compat_r; auto. }
      lra.
  Qed.
End W.

(* ------------------------------------------------------------------ pointwise counting *)
Lemma exclusive_unsat a c d : exclusive c d -> cube_sat a c = true -> cube_sat a d = false.
Proof.
  intros [l [H0 [H1 H2]]] Hc. unfold cube_sat in *. rewrite forallb_forall in Hc.
  pose proof (Hc l H1) as Hl.
  destruct (forallb (lit a) d) eqn:E; auto.
  rewrite forallb_forall in E. pose proof (E _ H2) as Hn.
  rewrite lit_opp in Hn by auto. rewrite Hl in Hn. discriminate.
Qed.

Lemma sumQ_zero {A} (phi : A -> Q) l : (forall x, In x l -> phi x == 0) -> sumQ (map phi l) == 0.
Proof.
  induction l as [|x l IH]; intro H; simpl.
  - reflexivity.
  - rewrite (H x) by (left; auto). rewrite IH by (intros; apply H; right; auto). ring.
Qed.

Lemma point_sum (fa : bool) a cs :
  pairwise exclusive cs ->
  (sumQ (map (fun c => ind (fa && cube_sat a c)) cs) == 0
   /\ forall c, In c cs -> fa && cube_sat a c = false)
  \/ (sumQ (map (fun c => ind (fa && cube_sat a c)) cs) == 1
      /\ exists c, In c cs /\ fa && cube_sat a c = true).
Proof.
  induction cs as [|c t IH]; intro PW.
  - left. simpl. split; [reflexivity|intros ? []].
  - destruct PW as [Hf Ht]. simpl. destruct (fa && cube_sat a c) eqn:E.
    + right. split.
      * rewrite sumQ_zero; [simpl; ring|].
        intros d Hd. rewrite Forall_forall in Hf. specialize (Hf d Hd).
        apply andb_true_iff in E. destruct E as [_ E].
        rewrite (exclusive_unsat a c d Hf E). rewrite andb_false_r. reflexivity.
      * exists c; split; auto.
    + destruct (IH Ht) as [[H0 Hall]|[H1 [d [Hd Ed]]]].
      * left. split; [rewrite H0; simpl; ring|]. intros d [<-|Hd]; auto.
      * right. split; [rewrite H1; simpl; ring|]. exists d; split; auto.
Qed.

(* ------------------------------------------------------------------ the two bound facts *)
Theorem disjoint_lower w n F q cs :
  nonneg w -> pairwise exclusive cs -> Forall (entails F q) cs ->
  sumQ (map (fun c => wmc w n (fun a => holds_all a F && cube_sat a c)) cs) <= prob w n F q.
Proof.
  intros Hnn PW He. unfold prob, wmc.
  rewrite <- (wsum_sum w n (fun c a => ind (holds_all a F && cube_sat a c)) cs).
  apply wsum_le; auto. intro a.
  destruct (point_sum (holds_all a F) a cs PW) as [[H0 _]|[H1 [c [Hc E]]]].
  - rewrite H0. unfold ind. destruct (holds_all a F && lit a q); lra.
  - rewrite H1. rewrite Forall_forall in He. apply andb_true_iff in E. destruct E as [E1 E2].
    rewrite E1, (He c Hc a E1 E2). simpl. lra.
Qed.

Theorem covering_exact w n F q cs :
  pairwise exclusive cs -> Forall (entails F q) cs ->
  (forall a, holds_all a F = true -> lit a q = true -> exists c, In c cs /\ cube_sat a c = true) ->
  sumQ (map (fun c => wmc w n (fun a => holds_all a F && cube_sat a c)) cs) == prob w n F q.
Proof.
  intros PW He Hcov. unfold prob, wmc.
  rewrite <- (wsum_sum w n (fun c a => ind (holds_all a F && cube_sat a c)) cs).
  apply wsum_ext. intro a.
  destruct (point_sum (holds_all a F) a cs PW) as [[H0 Hall]|[H1 [c [Hc E]]]].
  - rewrite H0. destruct (holds_all a F) eqn:E1; [|reflexivity].
    destruct (lit a q) eqn:E2; [|reflexivity]. exfalso.
    destruct (Hcov a E1 E2) as [c [Hc Hs]]. specialize (Hall c Hc). simpl in Hall. congruence.
  - rewrite H1. rewrite Forall_forall in He. apply andb_true_iff in E. destruct E as [E1 E2].
    rewrite E1, (He c Hc a E1 E2). simpl. reflexivity.
Qed.

(* complement: P(q) + P(not q) = weighted count of all models *)
Lemma prob_compl w n F q : q <> 0%Z ->
  prob w n F q + prob w n F (- q) == wmc w n (fun a => holds_all a F).
Proof.
  intro Hq. unfold prob, wmc. rewrite <- wsum_plus. apply wsum_ext. intro a.
  rewrite lit_opp by auto. destruct (holds_all a F); destruct (lit a q); simpl; ring.
Qed.
