(* C23 — hand model of problog/cnf_formula.py: CNF clause store, clarks_completion,
   `_contents(partial=True, smart_constraints=sc)` (hard clauses + soft clauses) and
   `from_partial`.  Executable definitions only; proofs are in ProofsPartial.v.

   Numbering, exactly as in the code:  ct i = 2*i  ("certainly true"),
   pt i = 2*i - 1 ("possibly true"), cpt l = -pt(-l) if l < 0 else ct l;
   indicator variables of smart constraints are numbered 2*atomcount+1, +2, ...
   in clause order.  A CNF clause is the Python list [head] + body where head is
   an int (ordinary clause, from clarks_completion) or a bool (constraint clause
   added through add_constraint(constraint, force)). *)
From Coq Require Import ZArith List Bool.
Import ListNotations.
Open Scope Z_scope.

Inductive clause :=
| Rule (head : Z) (body : list Z)            (* [head] + body, head an int *)
| Constr (force : bool) (body : list Z).     (* [force] + body, head a bool *)

Definition ct (i : Z) : Z := 2 * i.
Definition pt (i : Z) : Z := ct i - 1.
Definition cpt (i : Z) : Z := if i <? 0 then - pt (- i) else ct i.

(* range(1, atomcount+1) *)
Definition atoms (n : nat) : list Z := map Z.of_nat (seq 1 n).

Definition enc_atom (a : Z) : list Z := [pt a; - ct a].

Definition enc_rule (h : Z) (body : list Z) : list Z :=
  let ah := Z.abs h in
  (if h <? 0 then [- ct ah; - pt ah] else [ct ah; pt ah]) ++ map cpt body.

(* one CNF clause; `cnt` is the running `atomcount` of _contents.  Returns the
   emitted hard clauses and the new counter. *)
Definition enc_clause (sc : bool) (cnt : Z) (c : clause) : list (list Z) * Z :=
  match c with
  | Rule h body => ([enc_rule h body], cnt)
  | Constr force body =>
      if sc && negb force then
        let ind := cnt + 1 in
        (flat_map (fun b => [[- ct (Z.abs b); ind]; [pt (Z.abs b); ind]]) body
           ++ [flat_map (fun b => [ct (Z.abs b); - pt (Z.abs b)]) body ++ [- ind];
               map cpt body ++ [- ind]],
         ind)
      else ([map cpt body], cnt)
  end.

Fixpoint enc_clauses (sc : bool) (cnt : Z) (cs : list clause) : list (list Z) * Z :=
  match cs with
  | [] => ([], cnt)
  | c :: cs' =>
      let (l, cnt') := enc_clause sc cnt c in
      let (l', cnt'') := enc_clauses sc cnt' cs' in
      (l ++ l', cnt'')
  end.

(* the hard clauses (weight = top) in emission order, and the header atom count *)
Definition encode (n : nat) (sc : bool) (cs : list clause) : list (list Z) :=
  map enc_atom (atoms n) ++ fst (enc_clauses sc (2 * Z.of_nat n) cs).
Definition encode_nvars (n : nat) (sc : bool) (cs : list clause) : Z :=
  snd (enc_clauses sc (2 * Z.of_nat n) cs).

(* soft clauses: (integer weight, literal); the table gives, per atom, the
   transformed weights -wt(w_pos), -wt(w_neg) or None when semiring.is_one *)
Definition soft_clauses (tab : list (Z * (option Z * option Z))) : list (Z * list Z) :=
  flat_map (fun e => match e with (a, (wp, wn)) =>
     (match wp with Some x => [(x, [- ct a])] | None => [] end) ++
     (match wn with Some x => [(x, [pt a])] | None => [] end) end) tab.

(* from_partial: `s % 2` is Python's (non-negative) remainder = Z.modulo for modulus 2 *)
Definition from_partial (weighted : Z -> bool) (sol : list Z) : list Z :=
  flat_map (fun s =>
    if (s mod 2 =? 1) && (s <? 0) then
      let r := (Z.abs s + 1) / 2 in if weighted r then [- r] else []
    else if (s mod 2 =? 0) && (0 <? s) then
      let r := (Z.abs s + 1) / 2 in if weighted r then [r] else []
    else []) sol.

(* ---------- semantics of clause sets under a solver answer (a list of signed ints) *)
Definition mem (l : Z) (sol : list Z) : bool := existsb (Z.eqb l) sol.
Definition csat (sol : list Z) (c : list Z) : bool := existsb (fun l => mem l sol) c.
Definition all_sat (sol : list Z) (cs : list (list Z)) : bool := forallb (csat sol) cs.
(* every variable at most once (=> no literal together with its complement, no duplicates) *)
Definition consistent (sol : list Z) : Prop := NoDup (map Z.abs sol) /\ ~ In 0 sol.
Fixpoint nodupb (l : list Z) : bool :=
  match l with [] => true | x :: t => negb (mem x t) && nodupb t end.
Definition consistentb (sol : list Z) : bool := nodupb (map Z.abs sol) && negb (mem 0 sol).

(* ---------- total (two-valued) semantics of the original CNF *)
(* (also used for clause sets of the encoding under a function assignment: `fsat`) *)
Definition lit (a : Z -> bool) (l : Z) : bool := if l <? 0 then negb (a (- l)) else a l.
Definition holds (a : Z -> bool) (c : clause) : bool :=
  match c with
  | Rule h body => lit a h || existsb (lit a) body
  | Constr _ body => existsb (lit a) body
  end.
Definition holds_all (a : Z -> bool) (cs : list clause) : bool := forallb (holds a) cs.
Definition fsat (m : Z -> bool) (cs : list (list Z)) : bool := forallb (fun c => existsb (lit m) c) cs.

(* ---------- LogicDAG and clarks_completion *)
Inductive node := NAtom | NConj (ch : list Z) | NDisj (ch : list Z).
Definition dag := list node.      (* node with key k (1-based) is nth (k-1) *)

Definition completion_node (idx : Z) (nd : node) : list clause :=
  match nd with
  | NAtom => []
  | NConj ch => Rule idx (map Z.opp ch) :: map (fun c => Rule (- idx) [c]) ch
  | NDisj ch => Rule (- idx) ch :: map (fun c => Rule idx [- c]) ch
  end.
Fixpoint completion_from (idx : Z) (g : dag) : list clause :=
  match g with
  | [] => []
  | nd :: g' => completion_node idx nd ++ completion_from (idx + 1) g'
  end.
Definition completion (g : dag) : list clause := completion_from 1 g.

Definition children (nd : node) : list Z :=
  match nd with NAtom => [] | NConj ch => ch | NDisj ch => ch end.
(* children refer to strictly earlier nodes (LogicDAG is built bottom-up) *)
Fixpoint wf_from (idx : Z) (g : dag) : bool :=
  match g with
  | [] => true
  | nd :: g' => forallb (fun c => (0 <? Z.abs c) && (Z.abs c <? idx)) (children nd) && wf_from (idx + 1) g'
  end.
Definition wf_dag (g : dag) : bool := wf_from 1 g.

Definition node_at (g : dag) (i : Z) : option node :=
  if i <? 1 then None else nth_error g (Z.to_nat (i - 1)).
Definition is_atom (g : dag) (i : Z) : bool :=
  match node_at g i with Some NAtom => true | _ => false end.

(* all literals of a clause list have their variable in 1..n *)
Definition lit_in_range (n : nat) (l : Z) : bool := (0 <? Z.abs l) && (Z.abs l <=? Z.of_nat n).
Definition clause_lits (c : clause) : list Z :=
  match c with Rule h b => h :: b | Constr _ b => b end.
Definition in_range (n : nat) (cs : list clause) : bool :=
  forallb (fun c => forallb (lit_in_range n) (clause_lits c)) cs.

(* comparison helpers for the harness tie *)
Fixpoint list_eqb {A} (eqb : A -> A -> bool) (x y : list A) : bool :=
  match x, y with
  | [], [] => true
  | a :: x', b :: y' => eqb a b && list_eqb eqb x' y'
  | _, _ => false
  end.
Definition clause_eqb (x y : clause) : bool :=
  match x, y with
  | Rule h b, Rule h' b' => (h =? h') && list_eqb Z.eqb b b'
  | Constr f b, Constr f' b' => Bool.eqb f f' && list_eqb Z.eqb b b'
  | _, _ => false
  end.
