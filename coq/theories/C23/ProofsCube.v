(* C23 — the weight lemma: for Clark's completion of a well-formed LogicDAG without
   constraint clauses, normalised weights on the atom nodes and unit weights on the
   derived nodes, the product of the literal weights of a cube over atom nodes equals
   the weighted count of the total models extending it. *)
From Coq Require Import ZArith QArith List Bool Lia Lqa Setoid Btauto.
From PL.C23 Require Import ModelPartial ModelKBest ProofsPartial ProofsWMC ProofsKBest.
Import ListNotations.
Open Scope Z_scope.

(* ------------------------------------------------------------------ list facts *)
Lemma existsb_agree {A} (f h : A -> bool) l : (forall x, In x l -> f x = h x) -> existsb f l = existsb h l.
Proof.
  induction l as [|x l IH]; intro H; simpl; auto.
  rewrite (H x) by (left; auto). rewrite IH; auto. intros; apply H; right; auto.
Qed.
Lemma forallb_agree {A} (f h : A -> bool) l : (forall x, In x l -> f x = h x) -> forallb f l = forallb h l.
Proof.
  induction l as [|x l IH]; intro H; simpl; auto.
  rewrite (H x) by (left; auto). rewrite IH; auto. intros; apply H; right; auto.
Qed.

Lemma lit_agree a1 a2 l : a1 (Z.abs l) = a2 (Z.abs l) -> lit a1 l = lit a2 l.
Proof.
  unfold lit. destruct (l <? 0) eqn:E; intro H.
  - replace (Z.abs l) with (- l) in H by lia. rewrite H. reflexivity.
  - replace (Z.abs l) with l in H by lia. exact H.
Qed.

Lemma holds_agree a1 a2 c :
  (forall l, In l (clause_lits c) -> a1 (Z.abs l) = a2 (Z.abs l)) -> holds a1 c = holds a2 c.
Proof.
  intro H. destruct c as [h b|f b]; simpl in *.
  - rewrite (lit_agree a1 a2 h) by (apply H; left; auto).
    rewrite (existsb_agree (lit a1) (lit a2) b); auto.
    intros x Hx. apply lit_agree. apply H. right; auto.
  - apply existsb_agree. intros x Hx. apply lit_agree. apply H; auto.
Qed.

Lemma holds_all_agree a1 a2 cs :
  (forall c l, In c cs -> In l (clause_lits c) -> a1 (Z.abs l) = a2 (Z.abs l)) ->
  holds_all a1 cs = holds_all a2 cs.
Proof.
  intro H. unfold holds_all. apply forallb_agree. intros c Hc. apply holds_agree. intros l Hl. eapply H; eauto.
Qed.

Lemma cube_sat_agree a1 a2 c :
  (forall l, In l c -> a1 (Z.abs l) = a2 (Z.abs l)) -> cube_sat a1 c = cube_sat a2 c.
Proof. intro H. unfold cube_sat. apply forallb_agree. intros l Hl. apply lit_agree; auto. Qed.

(* ------------------------------------------------------------------ prefixes of a DAG *)
Lemma completion_from_snoc : forall g idx nd,
  completion_from idx (g ++ [nd]) = completion_from idx g ++ completion_node (idx + Z.of_nat (length g)) nd.
Proof.
  induction g as [|x g IH]; intros idx nd.
  - simpl. rewrite app_nil_r. replace (idx + 0) with idx by lia. reflexivity.
  - cbn [app completion_from]. rewrite IH. rewrite <- app_assoc.
    replace (idx + 1 + Z.of_nat (length g)) with (idx + Z.of_nat (length (x :: g))); [reflexivity|].
    cbn [length]. lia.
Qed.

Lemma firstn_snoc {A} : forall (g : list A) k nd, nth_error g k = Some nd -> firstn (S k) g = firstn k g ++ [nd].
Proof.
  induction g as [|x g IH]; intros k nd H.
  - destruct k; discriminate.
  - destruct k as [|k]; simpl in H.
    + inversion H; subst. reflexivity.
    + change (firstn (S (S k)) (x :: g)) with (x :: firstn (S k) g). rewrite (IH k nd H). reflexivity.
Qed.

Lemma completion_from_range : forall g idx c l,
  1 <= idx -> wf_from idx g = true -> In c (completion_from idx g) -> In l (clause_lits c) ->
  0 < Z.abs l < idx + Z.of_nat (length g).
Proof.
  induction g as [|nd g IH]; intros idx c l Hi Hw Hc Hl; simpl in *; [contradiction|].
  apply andb_true_iff in Hw. destruct Hw as [Hw1 Hw2]. rewrite forallb_forall in Hw1.
  apply in_app_or in Hc. destruct Hc as [Hc|Hc].
  - assert (Hch : forall x, In x (children nd) -> 0 < Z.abs x < idx).
    { intros x Hx. specialize (Hw1 x Hx). apply andb_true_iff in Hw1. lia. }
    destruct nd as [|ch|ch]; simpl in Hc; [contradiction| |].
    + destruct Hc as [<-|Hc]; simpl in Hl.
      * destruct Hl as [<-|Hl]; [lia|]. apply in_map_iff in Hl. destruct Hl as [x [<- Hx]].
        specialize (Hch x Hx). lia.
      * apply in_map_iff in Hc. destruct Hc as [x [<- Hx]]. simpl in Hl.
        destruct Hl as [<-|[<-|[]]]; [lia|]. specialize (Hch x Hx). lia.
    + destruct Hc as [<-|Hc]; simpl in Hl.
      * destruct Hl as [<-|Hl]; [lia|]. specialize (Hch l Hl). lia.
      * apply in_map_iff in Hc. destruct Hc as [x [<- Hx]]. simpl in Hl.
        destruct Hl as [<-|[<-|[]]]; [lia|]. specialize (Hch x Hx). lia.
  - specialize (IH (idx + 1) c l ltac:(lia) Hw2 Hc Hl). lia.
Qed.

Lemma wf_from_firstn : forall g idx k, wf_from idx g = true -> wf_from idx (firstn k g) = true.
Proof.
  induction g as [|nd g IH]; intros idx k H; destruct k; simpl in *; auto.
  all: try (apply andb_true_iff in H; destruct H as [H1 H2]; rewrite H1; simpl; apply IH; auto).
Qed.

(* ------------------------------------------------------------------ splitting a cube by variable *)
Definition cle (k : Z) (c : list Z) : list Z := filter (fun l => Z.abs l <=? k) c.
Definition ceq (v : Z) (c : list Z) : list Z := filter (fun l => Z.abs l =? v) c.

Lemma cle_sat a k c :
  cube_sat a (cle (k + 1) c) = cube_sat a (cle k c) && cube_sat a (ceq (k + 1) c).
Proof.
  unfold cube_sat, cle, ceq. induction c as [|l c IH]; simpl; auto.
  destruct (Z.abs l <=? k + 1) eqn:E1; destruct (Z.abs l <=? k) eqn:E2; destruct (Z.abs l =? k + 1) eqn:E3;
    try lia; simpl; rewrite IH; btauto.
Qed.

Lemma cle_weight w k c :
  (cube_weight w (cle (k + 1) c) == cube_weight w (cle k c) * cube_weight w (ceq (k + 1) c))%Q.
Proof.
  unfold cle, ceq. induction c as [|l c IH]; simpl.
  - ring.
  - destruct (Z.abs l <=? k + 1) eqn:E1; destruct (Z.abs l <=? k) eqn:E2; destruct (Z.abs l =? k + 1) eqn:E3;
      try lia; simpl; rewrite IH; ring.
Qed.

Lemma ceq_none v c : (forall l, In l c -> Z.abs l <> v) -> ceq v c = [].
Proof.
  unfold ceq. induction c as [|l c IH]; intro H; simpl; auto.
  destruct (Z.abs l =? v) eqn:E.
  - exfalso. apply (H l); [left; auto|lia].
  - apply IH. intros; apply H; right; auto.
Qed.

Lemma ceq_cases v c : 0 < v -> NoDup (map Z.abs c) -> ceq v c = [] \/ ceq v c = [v] \/ ceq v c = [- v].
Proof.
  intros Hv. induction c as [|l c IH]; intro ND; simpl; auto.
  simpl in ND. inversion ND as [|? ? N1 N2]; subst.
  destruct (Z.abs l =? v) eqn:E.
  - assert (Hr : ceq v c = []).
    { apply ceq_none. intros x Hx Hab. apply N1. apply in_map_iff. exists x. split; auto. lia. }
    fold (ceq v c). rewrite Hr. right. destruct (Z_lt_le_dec l 0).
    + right. f_equal. lia.
    + left. f_equal. lia.
  - apply IH; auto.
Qed.

Lemma cle_all k c : (forall l, In l c -> Z.abs l <= k) -> cle k c = c.
Proof.
  unfold cle. induction c as [|l c IH]; intro H; simpl; auto.
  destruct (Z.abs l <=? k) eqn:E.
  - f_equal. apply IH. intros; apply H; right; auto.
  - specialize (H l (or_introl eq_refl)). lia.
Qed.

Lemma cle_zero c : (forall l, In l c -> 0 < Z.abs l) -> cle 0 c = [].
Proof.
  unfold cle. induction c as [|l c IH]; intro H; simpl; auto.
  destruct (Z.abs l <=? 0) eqn:E.
  - specialize (H l (or_introl eq_refl)). lia.
  - apply IH. intros; apply H; right; auto.
Qed.

Lemma cle_in k c l : In l (cle k c) -> In l c /\ Z.abs l <= k.
Proof. unfold cle. rewrite filter_In. intros [H1 H2]. split; auto. lia. Qed.

(* ------------------------------------------------------------------ a node's completion clauses *)
Definition evalnd (a : Z -> bool) (nd : node) : bool :=
  match nd with
  | NAtom => true
  | NConj ch => forallb (lit a) ch
  | NDisj ch => existsb (lit a) ch
  end.

Lemma existsb_opp a ch : (forall c, In c ch -> c <> 0) ->
  existsb (lit a) (map Z.opp ch) = negb (forallb (lit a) ch).
Proof.
  induction ch as [|c ch IH]; intro H; simpl; auto.
  rewrite lit_opp by (apply H; left; auto). rewrite IH by (intros; apply H; right; auto).
  destruct (lit a c); destruct (forallb (lit a) ch); reflexivity.
Qed.

Lemma node_holds a v nd b : 0 < v -> a v = b -> (forall c, In c (children nd) -> c <> 0) ->
  nd <> NAtom -> holds_all a (completion_node v nd) = Bool.eqb (evalnd a nd) b.
Proof.
  intros Hv Hb Hc Hn.
  assert (Lp : lit a v = b) by (unfold lit; destruct (v <? 0) eqn:E; [lia|exact Hb]).
  assert (Ln : lit a (- v) = negb b) by (rewrite lit_opp by lia; rewrite Lp; reflexivity).
  destruct nd as [|ch|ch]; [congruence| |]; simpl in *.
  - rewrite Lp. rewrite existsb_opp by auto.
    assert (E : holds_all a (map (fun c => Rule (- v) [c]) ch) = negb b || forallb (lit a) ch).
    { clear Hc Hn. unfold holds_all. induction ch as [|c ch IH]; simpl.
      - rewrite orb_true_r. reflexivity.
      - rewrite IH, Ln. destruct b; destruct (lit a c); destruct (forallb (lit a) ch); reflexivity. }
    rewrite E. destruct b; destruct (forallb (lit a) ch); reflexivity.
  - rewrite Ln.
    assert (E : holds_all a (map (fun c => Rule v [- c]) ch) = b || negb (existsb (lit a) ch)).
    { clear Hn. unfold holds_all. induction ch as [|c ch IH]; simpl.
      - rewrite orb_true_r. reflexivity.
      - rewrite IH by (intros; apply Hc; right; auto). rewrite Lp.
        rewrite lit_opp by (apply Hc; left; auto).
        destruct b; destruct (lit a c); destruct (existsb (lit a) ch); reflexivity. }
    rewrite E. destruct b; destruct (existsb (lit a) ch); reflexivity.
Qed.

Lemma ind_and x y : (ind (x && y) == ind x * ind y)%Q.
Proof. destruct x; destruct y; simpl; ring. Qed.

(* ------------------------------------------------------------------ the weight lemma *)
Definition weights_normal (g : dag) (w : Z -> Q * Q) : Prop :=
  forall i, 1 <= i <= Z.of_nat (length g) ->
    (is_atom g i = true -> (fst (w i) + snd (w i) == 1)%Q) /\
    (is_atom g i = false -> (fst (w i) == 1)%Q /\ (snd (w i) == 1)%Q).

Section Cube.
  Variables (g : dag) (w : Z -> Q * Q) (c : list Z).
  Hypothesis Hwf : wf_dag g = true.
  Hypothesis Hwn : weights_normal g w.
  Hypothesis Hc : cube_good g c.

  Let f (k : nat) : (Z -> bool) -> Q :=
    fun a => ind (holds_all a (completion (firstn k g)) && cube_sat a (cle (Z.of_nat k) c)).

  Lemma c_pos l : In l c -> 1 <= Z.abs l <= Z.of_nat (length g).
  Proof. intro H. destruct Hc as [_ H2]. apply is_atom_range. apply H2; auto. Qed.

  Lemma prefix_agree k a1 a2 : (k <= length g)%nat ->
    (forall x, 1 <= x <= Z.of_nat k -> a1 x = a2 x) -> f k a1 = f k a2.
  Proof.
    intros Hk H. unfold f. f_equal. f_equal.
    - apply holds_all_agree. intros cl l Hcl Hl. apply H.
      assert (Hw' : wf_from 1 (firstn k g) = true) by (apply wf_from_firstn; exact Hwf).
      pose proof (completion_from_range (firstn k g) 1 cl l ltac:(lia) Hw' Hcl Hl) as Hr.
      rewrite firstn_length in Hr. lia.
    - apply cube_sat_agree. intros l Hl. apply cle_in in Hl. destruct Hl as [Hl1 Hl2].
      apply H. pose proof (c_pos l Hl1). lia.
  Qed.

  Lemma step k : (S k <= length g)%nat ->
    (forall a0, wsum w k (f k) a0 == cube_weight w (cle (Z.of_nat k) c))%Q ->
    forall a0, (wsum w (S k) (f (S k)) a0 == cube_weight w (cle (Z.of_nat (S k)) c))%Q.
  Proof.
    intros Hk IH a0.
    set (v := Z.of_nat (S k)).
    assert (Hv : v = Z.of_nat k + 1) by (unfold v; lia).
    destruct (nth_error g k) as [nd|] eqn:End; [|apply nth_error_None in End; lia].
    assert (Hnode : node_at g v = Some nd).
    { unfold node_at. destruct (v <? 1) eqn:E; [lia|]. replace (Z.to_nat (v - 1)) with k by lia. exact End. }
    assert (Hcompl : forall a, holds_all a (completion (firstn (S k) g))
                     = holds_all a (completion (firstn k g)) && holds_all a (completion_node v nd)).
    { intro a. rewrite (firstn_snoc g k nd End). unfold completion. rewrite completion_from_snoc.
      unfold holds_all. rewrite forallb_app. rewrite firstn_length.
      replace (1 + Z.of_nat (Nat.min k (length g))) with v by lia. reflexivity. }
    assert (Hsat : forall a, cube_sat a (cle v c) = cube_sat a (cle (Z.of_nat k) c) && cube_sat a (ceq v c))
      by (intro a; rewrite Hv; apply cle_sat).
    assert (Hcw : (cube_weight w (cle v c) == cube_weight w (cle (Z.of_nat k) c) * cube_weight w (ceq v c))%Q)
      by (rewrite Hv; apply cle_weight).
    (* relation between assignments: fixed value b at v, equal elsewhere *)
    pose (R := fun (b : bool) (a1 a2 : Z -> bool) => a1 v = b /\ forall x, x <> v -> a1 x = a2 x).
    assert (HR : forall b j a1 a2 b', (1 <= j <= k)%nat -> R b a1 a2 ->
                 R b (upd a1 (Z.of_nat j) b') (upd a2 (Z.of_nat j) b')).
    { intros b j a1 a2 b' Hj [H1 H2]. unfold R, upd. split.
      - destruct (v =? Z.of_nat j) eqn:E; [lia|exact H1].
      - intros x Hx. destruct (x =? Z.of_nat j); auto. }
    assert (HR0 : forall b, R b (upd a0 v b) a0).
    { intro b. unfold R, upd. split.
      - rewrite Z.eqb_refl. reflexivity.
      - intros x Hx. destruct (x =? v) eqn:E; [lia|reflexivity]. }
    assert (Hpre : forall b a1 a2, R b a1 a2 -> f k a1 = f k a2).
    { intros b a1 a2 [_ H2]. apply prefix_agree; [lia|]. intros x Hx. apply H2. lia. }
    rewrite wsum_S. fold v.
    assert (Hdec : nd = NAtom \/ nd <> NAtom) by (destruct nd; [left; reflexivity|right; discriminate|right; discriminate]).
    destruct Hdec as [Hna|Hnn].
    - (* an atom node: independent choice *)
      subst nd.
      assert (Hat : is_atom g v = true) by (unfold is_atom; rewrite Hnode; reflexivity).
      destruct (Hwn v ltac:(lia)) as [Hsum _]. specialize (Hsum Hat).
      assert (Hside : forall b a1 a2, R b a1 a2 ->
                (f (S k) a1 == ind (cube_sat (upd a0 v b) (ceq v c)) * f k a2)%Q).
      { intros b a1 a2 HRb. rewrite <- (Hpre b a1 a2 HRb). unfold f. fold v.
        rewrite Hcompl, Hsat. simpl. rewrite andb_true_r.
        assert (Ee : cube_sat a1 (ceq v c) = cube_sat (upd a0 v b) (ceq v c)).
        { apply cube_sat_agree. intros l Hl. unfold ceq in Hl. apply filter_In in Hl.
          destruct Hl as [_ Hl]. apply Z.eqb_eq in Hl. rewrite Hl. destruct HRb as [H1 _].
          rewrite H1. unfold upd. rewrite Z.eqb_refl. reflexivity. }
        rewrite Ee. rewrite andb_assoc. rewrite ind_and. ring. }
      assert (Hb : forall b, (wsum w k (f (S k)) (upd a0 v b)
                   == ind (cube_sat (upd a0 v b) (ceq v c)) * cube_weight w (cle (Z.of_nat k) c))%Q).
      { intro b.
        rewrite (wsum_rel w (R b) k (f (S k)) (fun a2 => ind (cube_sat (upd a0 v b) (ceq v c)) * f k a2)%Q
                          (HR b) (Hside b) _ a0 (HR0 b)).
        rewrite wsum_scale. rewrite IH. reflexivity. }
      rewrite (Hb true), (Hb false). rewrite Hcw.
      destruct Hc as [Hnd _].
      assert (Uv : forall b, upd a0 v b v = b) by (intro b; unfold upd; rewrite Z.eqb_refl; reflexivity).
      set (W := cube_weight w (cle (Z.of_nat k) c)).
      destruct (ceq_cases v c ltac:(lia) Hnd) as [E|[E|E]]; rewrite E; unfold cube_sat, cube_weight; cbn [forallb fold_right andb].
      + simpl ind. setoid_replace (fst (w v) * (1 * W) + snd (w v) * (1 * W))%Q
          with ((fst (w v) + snd (w v)) * W)%Q by ring.
        rewrite Hsum. ring.
      + unfold lit, wlit. destruct (v <? 0) eqn:E0; [lia|]. rewrite !Uv. simpl ind. ring.
      + unfold lit, wlit. destruct (- v <? 0) eqn:E0; [|lia]. rewrite Z.opp_involutive. rewrite !Uv. simpl ind. ring.
    - (* a derived node: its value is determined by the earlier variables *)
      assert (Hat : is_atom g v = false) by (unfold is_atom; rewrite Hnode; destruct nd; congruence).
      destruct (Hwn v ltac:(lia)) as [_ Hone]. destruct (Hone Hat) as [W1 W2].
      assert (Hch : forall x, In x (children nd) -> 0 < Z.abs x < v)
        by (intros x Hx; apply (wf_children g v nd x Hwf Hnode Hx)).
      assert (Eceq : ceq v c = []).
      { apply ceq_none. intros l Hl Hab. destruct Hc as [_ H2]. specialize (H2 l Hl). rewrite Hab in H2. congruence. }
      assert (Hev : forall b a1 a2, R b a1 a2 -> evalnd a1 nd = evalnd a2 nd).
      { intros b a1 a2 [_ H2]. destruct nd as [|ch|ch]; simpl; auto.
        - apply forallb_agree. intros x Hx. apply lit_agree. apply H2. specialize (Hch x Hx). lia.
        - apply existsb_agree. intros x Hx. apply lit_agree. apply H2. specialize (Hch x Hx). lia. }
      assert (Hside : forall b a1 a2, R b a1 a2 ->
                (f (S k) a1 == ind (Bool.eqb (evalnd a2 nd) b) * f k a2)%Q).
      { intros b a1 a2 HRb. rewrite <- (Hpre b a1 a2 HRb). rewrite <- (Hev b a1 a2 HRb). unfold f. fold v.
        rewrite Hcompl, Hsat, Eceq. destruct HRb as [H1 _].
        rewrite (node_holds a1 v nd b ltac:(lia) H1) by (auto; intros x Hx; specialize (Hch x Hx); lia).
        unfold cube_sat at 2. simpl forallb. rewrite andb_true_r.
        rewrite <- andb_assoc. rewrite (andb_comm (Bool.eqb (evalnd a1 nd) b)). rewrite andb_assoc.
        rewrite ind_and. ring. }
      assert (Hb : forall b, (wsum w k (f (S k)) (upd a0 v b)
                   == wsum w k (fun a2 => ind (Bool.eqb (evalnd a2 nd) b) * f k a2)%Q a0)%Q).
      { intro b. apply (wsum_rel w (R b) k _ _ (HR b) (Hside b) _ a0 (HR0 b)). }
      rewrite (Hb true), (Hb false), W1, W2. rewrite Hcw, Eceq.
      setoid_replace (1 * wsum w k (fun a2 => ind (Bool.eqb (evalnd a2 nd) true) * f k a2) a0
                      + 1 * wsum w k (fun a2 => ind (Bool.eqb (evalnd a2 nd) false) * f k a2) a0)%Q
        with (wsum w k (fun a2 => ind (Bool.eqb (evalnd a2 nd) true) * f k a2
                                  + ind (Bool.eqb (evalnd a2 nd) false) * f k a2) a0)%Q
        by (rewrite wsum_plus; ring).
      rewrite (wsum_ext w k _ (f k)).
      + rewrite IH. unfold cube_weight at 3. simpl. ring.
      + intro a. destruct (evalnd a nd); simpl; ring.
  Qed.

  Lemma all_prefixes : forall k, (k <= length g)%nat ->
    forall a0, (wsum w k (f k) a0 == cube_weight w (cle (Z.of_nat k) c))%Q.
  Proof.
    induction k as [|k IH]; intros Hk a0.
    - simpl wsum. unfold f. simpl firstn. unfold completion. simpl.
      rewrite cle_zero by (intros l Hl; pose proof (c_pos l Hl); lia). simpl. reflexivity.
    - apply step; auto. apply IH. lia.
  Qed.

  Theorem cube_weight_wmc a0 :
    (wsum w (length g) (fun a => ind (holds_all a (completion g) && cube_sat a c)) a0 == cube_weight w c)%Q.
  Proof.
    pose proof (all_prefixes (length g) (le_n _) a0) as H. unfold f in H.
    rewrite firstn_all in H. rewrite cle_all in H by (intros l Hl; pose proof (c_pos l Hl); lia).
    exact H.
  Qed.
End Cube.

Lemma cube_good_nil g : cube_good g [].
Proof. split; [constructor|intros l []]. Qed.

(* the hypothesis of the bound theorems, discharged for AD-free completions *)
Theorem cube_weight_is_wmc_adfree g w : wf_dag g = true -> weights_normal g w ->
  forall c, cube_good g c ->
  (cube_weight w c == wmc w (length g) (fun a => holds_all a (completion g ++ []) && cube_sat a c))%Q.
Proof.
  intros Hwf Hwn c Hc. unfold wmc.
  rewrite (wsum_ext w (length g) _ (fun a => ind (holds_all a (completion g) && cube_sat a c))).
  - symmetry. apply cube_weight_wmc; auto.
  - intro a. rewrite app_nil_r. reflexivity.
Qed.

Theorem total_weight_one g w : wf_dag g = true -> weights_normal g w ->
  (wmc w (length g) (fun a => holds_all a (completion g ++ [])) == 1)%Q.
Proof.
  intros Hwf Hwn. unfold wmc.
  rewrite (wsum_ext w (length g) _ (fun a => ind (holds_all a (completion g) && cube_sat a []))).
  - rewrite (cube_weight_wmc g w [] Hwf Hwn (cube_good_nil g)). reflexivity.
  - intro a. rewrite app_nil_r. simpl. rewrite andb_true_r. reflexivity.
Qed.
