(* C23 — annotated disjunctions as the k-best CNF sees them.  Executable definitions only.

   problog/constraint.py, ConstraintAD.as_clauses (a non-trivial group, nodes = heads ++ [extra_node]):
       for i, n in enumerate(nodes): for m in nodes[i+1:]: (-n, -m)      mutually exclusive
       nodes                                                            pick one
   clarks_completion copies them with CNF.add_constraint(c) (force = False), i.e. every line
   becomes the Python list [False] + line = `Constr false line`.

   ConstraintAD.update_weights: every head keeps its positive weight and gets negative weight
   one (`ad_negate`), the extra node gets (1 - sum, one): inside a group the positive weights sum
   to 1 and all negative weights are 1.  Atoms outside every group have (p, 1-p); derived nodes
   have no weight = (1, 1). *)
From Coq Require Import ZArith QArith List Bool.
From PL.C23 Require Import ModelPartial ModelKBest.
Import ListNotations.
Open Scope Z_scope.

Fixpoint ad_pairs (G : list Z) : list clause :=
  match G with
  | [] => []
  | v :: G' => map (fun m => Constr false [- v; - m]) G' ++ ad_pairs G'
  end.
Definition ad_group_clauses (G : list Z) : list clause := ad_pairs G ++ [Constr false G].
Definition ad_clauses (groups : list (list Z)) : list clause := flat_map ad_group_clauses groups.

(* well-formedness of the groups and of the weights (a boolean: the harness evaluates it on
   every real program of the tie) *)
Definition group_ok (g : dag) (w : Z -> Q * Q) (G : list Z) : bool :=
  forallb (fun v => is_atom g v && Qeq_bool (snd (w v)) 1 && Qle_bool 0 (fst (w v))) G
  && Qeq_bool (sumQ (map (fun v => fst (w v)) G)) 1.
Definition node_ok (g : dag) (w : Z -> Q * Q) (groups : list (list Z)) (i : Z) : bool :=
  if is_atom g i then mem i (concat groups) || Qeq_bool (fst (w i) + snd (w i)) 1
  else Qeq_bool (fst (w i)) 1 && Qeq_bool (snd (w i)) 1.
(* every group: members are atom nodes, negative weight 1, positive weights in [0,1] summing to 1
   (the complement atom is a member); groups are duplicate-free and pairwise disjoint;
   atoms outside the groups are normalised, derived nodes carry (1,1) *)
Definition ad_wfb (g : dag) (w : Z -> Q * Q) (groups : list (list Z)) : bool :=
  forallb (group_ok g w) groups && nodupb (concat groups)
  && forallb (node_ok g w groups) (atoms (length g)).

(* exactly-one / none, the meaning of a group's clauses under a total assignment *)
Definition noneb (a : Z -> bool) (G : list Z) : bool := forallb (fun v => negb (a v)) G.
Fixpoint oneb (a : Z -> bool) (G : list Z) : bool :=
  match G with [] => false | v :: G' => if a v then noneb a G' else oneb a G' end.
