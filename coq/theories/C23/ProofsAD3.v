(* C23 — annotated disjunctions, part 3: every cube read back from a model of the partial
   encoding WITH smart constraints is AD-saturated (the indicator clauses of
   CNF._contents(smart_constraints=True) enforce it), and the assembly of the bound theorems
   for programs with annotated disjunctions without any counting hypothesis. *)
From Coq Require Import ZArith QArith List Bool Lia Lqa Setoid.
From PL.C23 Require Import ModelPartial ModelKBest ModelAD ProofsPartial ProofsWMC ProofsKBest ProofsCube
                           ProofsAD1 ProofsAD2 ProofsFinal.
Import ListNotations.
Open Scope Z_scope.

(* ------------------------------------------------------------------ where the indicator clauses end up *)
Lemma enc_clause_cnt sc cnt c : cnt <= snd (enc_clause sc cnt c).
Proof. destruct c as [h b|f b]; simpl; [lia|]. destruct (sc && negb f); simpl; lia. Qed.

Lemma enc_smart_in : forall cs cnt body, 0 <= cnt -> In (Constr false body) cs ->
  exists ind, 0 < ind /\
    (forall b, In b body ->
       In [- ct (Z.abs b); ind] (fst (enc_clauses true cnt cs)) /\
       In [pt (Z.abs b); ind] (fst (enc_clauses true cnt cs))) /\
    In (map cpt body ++ [- ind]) (fst (enc_clauses true cnt cs)).
Proof.
  induction cs as [|c cs IH]; intros cnt body Hc H; [contradiction|].
  cbn [enc_clauses]. destruct (enc_clause true cnt c) as [l cnt'] eqn:E.
  destruct (enc_clauses true cnt' cs) as [l' cnt''] eqn:E'. cbn [fst].
  destruct H as [->|H].
  - simpl in E. inversion E; subst. exists (cnt + 1). split; [lia|]. split.
    + intros b Hb. split; apply in_or_app; left; apply in_or_app; left; apply in_flat_map; exists b;
        (split; [exact Hb|simpl; auto]).
    + apply in_or_app; left. apply in_or_app; right. simpl. right; left; reflexivity.
  - assert (Hc' : 0 <= cnt').
    { pose proof (enc_clause_cnt true cnt c) as X. rewrite E in X. simpl in X. lia. }
    destruct (IH cnt' body Hc' H) as [ind [H1 [H2 H3]]]. rewrite E' in H2, H3. cbn [fst] in H2, H3.
    exists ind. split; auto. split.
    + intros b Hb. destruct (H2 b Hb). split; apply in_or_app; right; auto.
    + apply in_or_app; right; auto.
Qed.

(* a constraint clause one of whose variables is decided (certainly true / not possibly true) must
   be satisfied with certainty: some literal's cpt is in the answer *)
Lemma smart_fires n cs sol body :
  consistent sol -> all_sat sol (encode n true cs) = true -> In (Constr false body) cs ->
  forall b, In b body -> (In (ct (Z.abs b)) sol \/ In (- pt (Z.abs b)) sol) ->
  exists x, In x body /\ In (cpt x) sol.
Proof.
  intros Hcons Hsat Hin b Hb Hdec.
  destruct (enc_smart_in cs (2 * Z.of_nat n) body ltac:(lia) Hin) as [ind [Hpos [H2 H3]]].
  destruct (H2 b Hb) as [Ha Hb'].
  assert (Hind : In ind sol).
  { destruct Hdec as [Hd|Hd].
    - assert (Hcl : In [- ct (Z.abs b); ind] (encode n true cs)) by (unfold encode; apply in_or_app; right; auto).
      pose proof (all_sat_In _ _ _ Hsat Hcl) as Hc. apply csat_In in Hc. destruct Hc as [l [Hl1 Hl2]].
      destruct Hl1 as [<-|[<-|[]]]; auto. exfalso. revert Hl2. apply consistent_opp; auto.
    - assert (Hcl : In [pt (Z.abs b); ind] (encode n true cs)) by (unfold encode; apply in_or_app; right; auto).
      pose proof (all_sat_In _ _ _ Hsat Hcl) as Hc. apply csat_In in Hc. destruct Hc as [l [Hl1 Hl2]].
      destruct Hl1 as [<-|[<-|[]]]; auto. exfalso.
      apply (consistent_opp sol (- pt (Z.abs b)) Hcons Hd). rewrite Z.opp_involutive. exact Hl2. }
  assert (Hcl : In (map cpt body ++ [- ind]) (encode n true cs)) by (unfold encode; apply in_or_app; right; auto).
  pose proof (all_sat_In _ _ _ Hsat Hcl) as Hc. apply csat_In in Hc. destruct Hc as [l [Hl1 Hl2]].
  apply in_app_or in Hl1. destruct Hl1 as [Hl1|[<-|[]]].
  - apply in_map_iff in Hl1. destruct Hl1 as [x [<- Hx]]. exists x; split; auto.
  - exfalso. revert Hl2. apply consistent_opp; auto.
Qed.

Lemma ct_not_npt n cs sol i : consistent sol -> all_sat sol (encode n true cs) = true ->
  1 <= i <= Z.of_nat n -> In (ct i) sol -> ~ In (- pt i) sol.
Proof.
  intros Hcons Hsat Hi Hct.
  pose proof (all_sat_In _ _ _ Hsat (encode_atom_in n true cs i Hi)) as Hcl.
  apply csat_In in Hcl. destruct Hcl as [l [Hl1 Hl2]]. simpl in Hl1.
  destruct Hl1 as [<-|[<-|[]]].
  - apply consistent_opp; auto.
  - exfalso. revert Hl2. apply consistent_opp; auto.
Qed.

(* ------------------------------------------------------------------ the clauses of a group *)
Lemma pairs_in G : forall u v, In u G -> In v G -> u <> v ->
  In (Constr false [- u; - v]) (ad_pairs G) \/ In (Constr false [- v; - u]) (ad_pairs G).
Proof.
  induction G as [|x G IH]; intros u v Hu Hv Hne; [contradiction|].
  cbn [ad_pairs]. destruct Hu as [->|Hu]; destruct Hv as [->|Hv].
  - contradiction.
  - left. apply in_or_app; left. apply in_map_iff. exists v. split; auto.
  - right. apply in_or_app; left. apply in_map_iff. exists u. split; auto.
  - destruct (IH u v Hu Hv Hne) as [H|H]; [left|right]; apply in_or_app; right; auto.
Qed.

Lemma pairs_lits G : forall c l, In c (ad_pairs G) -> In l (clause_lits c) -> In (Z.abs l) (map Z.abs G).
Proof.
  induction G as [|x G IH]; intros c l Hc Hl; [contradiction|].
  cbn [ad_pairs] in Hc. apply in_app_or in Hc. destruct Hc as [Hc|Hc].
  - apply in_map_iff in Hc. destruct Hc as [m [<- Hm]]. simpl in Hl.
    destruct Hl as [<-|[<-|[]]]; rewrite Z.abs_opp.
    + left; reflexivity.
    + right. apply in_map; auto.
  - right. apply (IH c l); auto.
Qed.

Lemma group_in groups G c : In G groups -> In c (ad_group_clauses G) -> In c (ad_clauses groups).
Proof. intros HG Hc. unfold ad_clauses. apply in_flat_map. exists G. split; auto. Qed.

(* ------------------------------------------------------------------ saturation *)
Section Sat.
  Variables (g : dag) (groups : list (list Z)) (weighted : Z -> bool).
  Let n := length g.
  Hypothesis Hw : weights_on_atoms g weighted.
  Hypothesis Hat : forall G v, In G groups -> In v G -> is_atom g v = true.

  Lemma ads_saturated extra sol : consistent sol ->
    all_sat sol (encode n true ((completion g ++ ad_clauses groups) ++ extra)) = true ->
    ad_saturated groups (from_partial weighted sol).
  Proof.
    intros Hcons Hsat G HG.
    set (cs := (completion g ++ ad_clauses groups) ++ extra) in *.
    assert (Hcs : forall c, In c (ad_group_clauses G) -> In c cs).
    { intros c Hc. unfold cs. apply in_or_app; left. apply in_or_app; right. eapply group_in; eauto. }
    assert (Hr : forall v, In v G -> 1 <= v <= Z.of_nat n /\ weighted v = true).
    { intros v Hv. pose proof (Hat G v HG Hv) as Ha. split; [apply is_atom_range; auto|apply Hw; auto]. }
    split.
    - intros l Hl Hm.
      assert (Hone : In (Constr false G) cs).
      { apply Hcs. unfold ad_group_clauses. apply in_or_app; right. left; reflexivity. }
      destruct (Hr _ Hm) as [Hrl _].
      assert (Habs : Z.abs (Z.abs l) = Z.abs l) by lia.
      assert (Hdec : In (ct (Z.abs (Z.abs l))) sol \/ In (- pt (Z.abs (Z.abs l))) sol).
      { rewrite Habs. destruct (from_partial_inv weighted sol l Hl) as [_ [_ [[Hp Hin]|[Hn Hin]]]].
        - left. replace (Z.abs l) with l by lia. exact Hin.
        - right. replace (Z.abs l) with (- l) by lia. exact Hin. }
      destruct (smart_fires n cs sol G Hcons Hsat Hone (Z.abs l) Hm Hdec) as [x [Hx Hcx]].
      destruct (Hr x Hx) as [Hrx Hwx]. exists x. split; auto.
      apply from_partial_ct; auto; [lia|].
      unfold cpt in Hcx. destruct (x <? 0) eqn:E; [lia|exact Hcx].
    - intros u v Hu Hv Huc Hvc. destruct (Z.eq_dec u v) as [|Hne]; auto. exfalso.
      destruct (Hr u Hu) as [Hru _]. destruct (Hr v Hv) as [Hrv _].
      assert (Hctu : In (ct u) sol).
      { destruct (from_partial_inv weighted sol u Huc) as [_ [_ [[Hp Hin]|[Hn Hin]]]]; [exact Hin|lia]. }
      assert (Hctv : In (ct v) sol).
      { destruct (from_partial_inv weighted sol v Hvc) as [_ [_ [[Hp Hin]|[Hn Hin]]]]; [exact Hin|lia]. }
      assert (Conflict : forall x y, 1 <= x <= Z.of_nat n -> 1 <= y <= Z.of_nat n ->
                 In (ct x) sol -> In (ct y) sol -> In (Constr false [- x; - y]) cs -> False).
      { intros x y Hx Hy Hcx Hcy Hin.
        assert (Hd : In (ct (Z.abs (- x))) sol \/ In (- pt (Z.abs (- x))) sol).
        { left. replace (Z.abs (- x)) with x by lia. exact Hcx. }
        destruct (smart_fires n cs sol [- x; - y] Hcons Hsat Hin (- x) (or_introl eq_refl) Hd) as [z [Hz Hcz]].
        destruct Hz as [<-|[<-|[]]]; unfold cpt in Hcz.
        - destruct (- x <? 0) eqn:E; [|lia]. rewrite Z.opp_involutive in Hcz.
          exact (ct_not_npt n cs sol x Hcons Hsat Hx Hcx Hcz).
        - destruct (- y <? 0) eqn:E; [|lia]. rewrite Z.opp_involutive in Hcz.
          exact (ct_not_npt n cs sol y Hcons Hsat Hy Hcy Hcz). }
      destruct (pairs_in G u v Hu Hv Hne) as [Hp|Hp].
      + apply (Conflict u v); auto. apply Hcs. unfold ad_group_clauses. apply in_or_app; left; auto.
      + apply (Conflict v u); auto. apply Hcs. unfold ad_group_clauses. apply in_or_app; left; auto.
  Qed.

  Lemma ads_in_range : wf_dag g = true -> in_range n (completion g ++ ad_clauses groups) = true.
  Proof.
    intro Hwf. unfold in_range. rewrite forallb_app. apply andb_true_iff. split.
    - pose proof (range_adfree g 0 Hwf) as H. rewrite app_nil_r in H. exact H.
    - apply forallb_forall. intros c Hc. apply forallb_forall. intros l Hl.
      unfold ad_clauses in Hc. apply in_flat_map in Hc. destruct Hc as [G [HG Hc]].
      assert (Hm : In (Z.abs l) (map Z.abs G)).
      { unfold ad_group_clauses in Hc. apply in_app_or in Hc. destruct Hc as [Hc|[<-|[]]].
        - eapply pairs_lits; eauto.
        - simpl in Hl. apply in_map; auto. }
      apply in_map_iff in Hm. destruct Hm as [v [Ev Hv]].
      pose proof (is_atom_range _ _ (Hat G v HG Hv)) as Hr. fold n in Hr.
      unfold lit_in_range. apply andb_true_iff. split; [apply Z.ltb_lt|apply Z.leb_le]; lia.
  Qed.
End Sat.

(* ------------------------------------------------------------------ assembly *)
Section FinalAD.
  Variables (solver : list (list Z) -> option (list Z)) (g : dag) (groups : list (list Z))
            (weighted : Z -> bool) (w : Z -> Q * Q) (q : Z).
  Hypothesis Hwf : wf_dag g = true.
  Hypothesis Hw : weights_on_atoms g weighted.
  Hypothesis Hads : ad_wfb g w groups = true.
  Hypothesis Hs : solver_sound_c solver.
  Hypothesis Hc : solver_complete_c solver.
  Hypothesis Hnn : nonneg w.
  Hypothesis Hq : 0 < Z.abs q <= Z.of_nat (length g).

  Let ads := ad_clauses groups.

  Lemma Hat_ads : forall G v, In G groups -> In v G -> is_atom g v = true.
  Proof. intros G v HG Hv. destruct (ad_wfb_ok g w groups Hads) as [K1 _]. apply (K1 G v HG Hv). Qed.

  Lemma cubes_saturated_final b : reach solver g ads weighted w q b -> Forall (ad_saturated groups) (b_cubes b).
  Proof.
    intro Hb. destruct (reach_inv solver g ads weighted w Hs q b Hb) as [_ [I2 _]].
    apply (cubes_okc g ads weighted (ad_saturated groups)
             (ads_saturated g groups weighted Hw Hat_ads) q (b_cubes b) I2).
  Qed.

  Lemma lower_ads_full b : reach solver g ads weighted w q b ->
    (b_value b <= prob w (length g) (completion g ++ ads) q)%Q.
  Proof.
    exact (lower_gen solver g ads weighted w q Hwf Hw Hs Hnn Hq (ad_saturated groups)
             (ads_saturated g groups weighted Hw Hat_ads)
             (cube_weight_is_wmc_ads g w groups Hwf Hads) b).
  Qed.

  Lemma evaluate_ads_full lower_only conv fuel r lb ub :
    evaluate solver (length g) weighted w lower_only conv fuel (completion g ++ ads) q = (r, lb, ub) ->
    match r with
    | Value v => (v == prob w (length g) (completion g ++ ads) q)%Q
    | Interval lo hi | OutOfFuel lo hi =>
        (lo <= prob w (length g) (completion g ++ ads) q /\ prob w (length g) (completion g ++ ads) q <= hi)%Q
    end.
  Proof.
    exact (evaluate_gen solver g ads weighted w q Hwf Hw (ads_in_range g groups Hat_ads Hwf) Hs Hc Hnn Hq
             (ad_saturated groups) (ads_saturated g groups weighted Hw Hat_ads)
             (cube_weight_is_wmc_ads g w groups Hwf Hads) (total_weight_one_ads g w groups Hwf Hads)
             lower_only conv fuel r lb ub).
  Qed.

  Lemma explain_ads_full conv fuel v lb ub :
    evaluate solver (length g) weighted w true conv fuel (completion g ++ ads) q = (Value v, lb, ub) ->
    (sumQ (explain_probs w lb) == prob w (length g) (completion g ++ ads) q)%Q /\ (v == sumQ (explain_probs w lb))%Q.
  Proof.
    exact (explain_gen solver g ads weighted w q Hwf Hw (ads_in_range g groups Hat_ads Hwf) Hs Hc Hnn Hq
             (ad_saturated groups) (ads_saturated g groups weighted Hw Hat_ads)
             (cube_weight_is_wmc_ads g w groups Hwf Hads) (total_weight_one_ads g w groups Hwf Hads)
             conv fuel v lb ub).
  Qed.
End FinalAD.
