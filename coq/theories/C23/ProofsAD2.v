(* C23 — annotated disjunctions, part 2: the weight lemma (H1) and total weight one (H2)
   in the presence of the AD clauses.  Every group is split into one term per member
   (ProofsAD1.group_one); under the selected weights (member (1,0), other members (0,1)) all
   atoms are normalised, so the AD-free weight lemma (ProofsCube.cube_weight_wmc) applies; the
   terms are summed back using that the cube is AD-saturated. *)
From Coq Require Import ZArith QArith List Bool Lia Lqa Setoid.
From PL.C23 Require Import ModelPartial ModelKBest ModelAD ProofsPartial ProofsWMC ProofsKBest ProofsCube ProofsAD1.
Import ListNotations.
Open Scope Z_scope.

(* a cube is saturated w.r.t. a group: if it mentions a member at all it contains a positive
   member, and it contains at most one positive member *)
Definition sat_group (c G : list Z) : Prop :=
  (forall l, In l c -> In (Z.abs l) G -> exists u, In u G /\ In u c) /\
  (forall u v, In u G -> In v G -> In u c -> In v c -> u = v).

Lemma sat_group_nil G : sat_group [] G.
Proof. split; [intros l []|intros u v _ _ []]. Qed.

(* ------------------------------------------------------------------ cube weights under changed weights *)
Lemma wlit_abs w l : wlit w l = if l <? 0 then snd (w (Z.abs l)) else fst (w (Z.abs l)).
Proof.
  unfold wlit. destruct (l <? 0) eqn:E.
  - replace (Z.abs l) with (- l) by lia. reflexivity.
  - replace (Z.abs l) with l by lia. reflexivity.
Qed.

Lemma cube_weight_cons w l c : cube_weight w (l :: c) = (wlit w l * cube_weight w c)%Q.
Proof. reflexivity. Qed.

Lemma cube_weight_agree w1 w2 c :
  (forall l, In l c -> (wlit w1 l == wlit w2 l)%Q) -> (cube_weight w1 c == cube_weight w2 c)%Q.
Proof.
  induction c as [|l c IH]; intro H; [reflexivity|].
  rewrite !cube_weight_cons. rewrite (H l) by (left; auto). rewrite IH by (intros; apply H; right; auto).
  reflexivity.
Qed.

Lemma cube_weight_zero w c l : In l c -> (wlit w l == 0)%Q -> (cube_weight w c == 0)%Q.
Proof.
  induction c as [|x c IH]; intros Hl H0; [contradiction|].
  rewrite cube_weight_cons. destruct Hl as [->|Hl].
  - rewrite H0. ring.
  - rewrite IH by auto. ring.
Qed.

Lemma sumQ_scale_r {A} (f : A -> Q) K l : (sumQ (map (fun u => f u * K) l) == sumQ (map f l) * K)%Q.
Proof. induction l as [|x l IH]; simpl; [ring|]. rewrite IH. ring. Qed.

Lemma sumQ_single (f : Z -> Q) v G : NoDup G -> In v G ->
  (forall u, In u G -> u <> v -> (f u == 0)%Q) -> (sumQ (map f G) == f v)%Q.
Proof.
  induction G as [|x G IH]; intros ND Hv H0; [contradiction|].
  inversion ND as [|? ? Nx ND']; subst. simpl.
  destruct (Z.eq_dec x v) as [->|Hx].
  - rewrite sumQ_zero; [ring|]. intros u Hu. apply H0; [right; auto|]. intro; subst; contradiction.
  - destruct Hv as [Hv|Hv]; [contradiction|].
    rewrite (H0 x) by (auto; left; auto). rewrite IH; auto; [ring|]. intros; apply H0; auto. right; auto.
Qed.

Lemma mem_false_notin x G : mem x G = false -> ~ In x G.
Proof. intros E H. apply mem_In in H. congruence. Qed.
Lemma notin_mem_false x G : ~ In x G -> mem x G = false.
Proof. intro H. destruct (mem x G) eqn:E; auto. apply mem_In in E. contradiction. Qed.

Lemma sel_weight w G v : In v G -> 0 < v -> (forall x, In x G -> (snd (w x) == 1)%Q) ->
  forall c, NoDup (map Z.abs c) ->
  (forall l, In l c -> In (Z.abs l) G -> l = v \/ (l < 0 /\ - l <> v)) ->
  (cube_weight w c == (if mem v c then fst (w v) else 1) * cube_weight (sel w G v) c)%Q.
Proof.
  intros HvG Hv Hs. induction c as [|l c IH]; intros ND Hl.
  - simpl. unfold cube_weight. simpl. ring.
  - simpl in ND. inversion ND as [|? ? N1 N2]; subst.
    specialize (IH N2 (fun x Hx => Hl x (or_intror Hx))).
    rewrite !cube_weight_cons. rewrite mem_cons.
    destruct (Z.eq_dec l v) as [->|Hlv].
    + rewrite Z.eqb_refl. cbn [orb].
      assert (Nm : mem v c = false).
      { apply notin_mem_false. intro HI. apply N1. apply in_map; auto. }
      rewrite Nm in IH. rewrite IH.
      assert (Es : sel w G v v = (1, 0)%Q) by (unfold sel; rewrite Z.eqb_refl; reflexivity).
      unfold wlit. destruct (v <? 0) eqn:E; [lia|]. rewrite Es. cbn [fst]. ring.
    + assert (E0 : (v =? l) = false) by (apply Z.eqb_neq; auto). rewrite E0. cbn [orb]. rewrite IH.
      assert (Ew : (wlit w l == wlit (sel w G v) l)%Q).
      { rewrite !wlit_abs. destruct (mem (Z.abs l) G) eqn:Em.
        - apply mem_In in Em. destruct (Hl l (or_introl eq_refl) Em) as [->|[Hneg Hne]]; [contradiction|].
          destruct (l <? 0) eqn:E; [|lia]. rewrite (Hs _ Em). unfold sel.
          destruct (Z.eqb_spec (Z.abs l) v); [lia|]. apply mem_In in Em. rewrite Em. reflexivity.
        - unfold sel. destruct (Z.eqb_spec (Z.abs l) v) as [Ev|Ev].
          + exfalso. apply (mem_false_notin _ _ Em). rewrite Ev. exact HvG.
          + rewrite Em. reflexivity. }
      rewrite Ew. ring.
Qed.

Lemma sat_sum w G c :
  NoDup G -> (forall v, In v G -> 0 < v /\ (snd (w v) == 1)%Q) ->
  (sumQ (map (fun v => fst (w v)) G) == 1)%Q ->
  NoDup (map Z.abs c) -> sat_group c G ->
  (sumQ (map (fun u => fst (w u) * cube_weight (sel w G u) c) G) == cube_weight w c)%Q.
Proof.
  intros NDG HG Hsum NDc [S1 S2].
  destruct (existsb (fun l => mem (Z.abs l) G) c) eqn:Et.
  - apply existsb_exists in Et. destruct Et as [l0 [Hl0 Hm0]]. apply mem_In in Hm0.
    destruct (S1 l0 Hl0 Hm0) as [v [HvG Hvc]].
    destruct (HG v HvG) as [Hv _].
    rewrite (sumQ_single (fun u => fst (w u) * cube_weight (sel w G u) c)%Q v G NDG HvG).
    + rewrite (sel_weight w G v HvG Hv (fun x Hx => proj2 (HG x Hx)) c NDc).
      * assert (Em : mem v c = true) by (apply mem_In; auto). rewrite Em. reflexivity.
      * intros l Hl Hm. destruct (Z.eq_dec l v) as [|Hne]; [left; auto|right].
        assert (Hneg : l < 0).
        { destruct (Z_lt_le_dec l 0) as [|Hge]; auto. exfalso.
          replace (Z.abs l) with l in Hm by lia. apply Hne. apply (S2 l v); auto. }
        split; auto. intro E. apply Hne.
        apply (NoDup_map_inj Z.abs c); auto. lia.
    + intros u Hu Huv.
      rewrite (cube_weight_zero (sel w G u) c v Hvc); [ring|].
      unfold wlit. destruct (v <? 0) eqn:E; [lia|]. unfold sel.
      destruct (Z.eqb_spec v u); [congruence|]. apply mem_In in HvG. rewrite HvG. reflexivity.
  - assert (Hno : forall l, In l c -> mem (Z.abs l) G = false).
    { intros l Hl. destruct (mem (Z.abs l) G) eqn:E; auto.
      assert (existsb (fun l => mem (Z.abs l) G) c = true) by (apply existsb_exists; eauto). congruence. }
    rewrite (sumQ_ext_in _ (fun u => fst (w u) * cube_weight w c)%Q).
    + rewrite sumQ_scale_r. rewrite Hsum. ring.
    + intros u Hu. rewrite (cube_weight_agree (sel w G u) w c); [reflexivity|].
      intros l Hl. rewrite !wlit_abs. unfold sel. rewrite (Hno l Hl).
      destruct (Z.eqb_spec (Z.abs l) u) as [Ev|Ev]; [|reflexivity].
      exfalso. apply (mem_false_notin _ _ (Hno l Hl)). rewrite Ev. exact Hu.
Qed.

(* ------------------------------------------------------------------ all groups *)
Lemma NoDup_app_disj {A} (x y : list A) a : NoDup (x ++ y) -> In a x -> In a y -> False.
Proof.
  induction x as [|b x IH]; simpl; intros ND Hx Hy; [contradiction|].
  inversion ND as [|? ? N1 N2]; subst. destruct Hx as [->|Hx].
  - apply N1. apply in_or_app. right; auto.
  - apply IH; auto.
Qed.

Lemma NoDup_app_l {A} (x y : list A) : NoDup (x ++ y) -> NoDup x.
Proof.
  induction x as [|b x IH]; simpl; intro ND; [constructor|].
  inversion ND as [|? ? N1 N2]; subst. constructor; auto. intro H. apply N1. apply in_or_app. left; auto.
Qed.
Lemma NoDup_app_r {A} (x y : list A) : NoDup (x ++ y) -> NoDup y.
Proof.
  induction x as [|b x IH]; simpl; intro ND; auto. inversion ND; subst. auto.
Qed.

Lemma ind_split (A B C D : bool) : (ind ((A && (B && C)) && D) == ind B * ind ((A && C) && D))%Q.
Proof. destruct A, B, C, D; simpl; ring. Qed.

Definition groups_ok (g : dag) (w : Z -> Q * Q) (groups : list (list Z)) : Prop :=
  (forall G v, In G groups -> In v G -> is_atom g v = true /\ (snd (w v) == 1)%Q) /\
  NoDup (concat groups) /\
  (forall G, In G groups -> (sumQ (map (fun v => fst (w v)) G) == 1)%Q) /\
  (forall i, 1 <= i <= Z.of_nat (length g) ->
     (is_atom g i = true -> ~ In i (concat groups) -> (fst (w i) + snd (w i) == 1)%Q) /\
     (is_atom g i = false -> (fst (w i) == 1)%Q /\ (snd (w i) == 1)%Q)).

Section ADWeight.
  Variables (g : dag) (c : list Z).
  Hypothesis Hwf : wf_dag g = true.
  Hypothesis Hc : cube_good g c.
  Let n := length g.

  Lemma ad_weight : forall groups w a0,
    groups_ok g w groups -> (forall G, In G groups -> sat_group c G) ->
    (wsum w n (fun a => ind (holds_all a (completion g ++ ad_clauses groups) && cube_sat a c)) a0
     == cube_weight w c)%Q.
  Proof.
    induction groups as [|G rest IH]; intros w a0 [K1 [K2 [K3 K4]]] Hsat.
    - rewrite (wsum_ext w n _ (fun a => ind (holds_all a (completion g) && cube_sat a c))).
      + assert (Hwn : weights_normal g w).
        { intros i Hi. destruct (K4 i Hi) as [A B]. split; auto. }
        exact (cube_weight_wmc g w c Hwf Hwn Hc a0).
      + intro a. simpl. rewrite app_nil_r. reflexivity.
    - assert (HGat : forall v, In v G -> is_atom g v = true /\ (snd (w v) == 1)%Q)
        by (intros v Hv; apply (K1 G v); [left; auto|auto]).
      assert (HGr : forall v, In v G -> 1 <= v <= Z.of_nat n)
        by (intros v Hv; apply is_atom_range; apply HGat; auto).
      simpl concat in K2.
      assert (NDG : NoDup G) by (eapply NoDup_app_l; eauto).
      assert (NDr : NoDup (concat rest)) by (eapply NoDup_app_r; eauto).
      set (phi := fun a => ind (holds_all a (completion g ++ ad_clauses rest) && cube_sat a c)).
      rewrite (wsum_ext w n _ (fun a => ind (oneb a G) * phi a)%Q).
      2: { intro a. unfold phi. change (ad_clauses (G :: rest)) with (ad_group_clauses G ++ ad_clauses rest).
           rewrite !holds_all_app'. rewrite group_clauses_one by (intros m Hm; specialize (HGr m Hm); lia).
           apply ind_split. }
      rewrite (group_one n phi G w a0 NDG).
      2: { intros v Hv. split; [apply HGr; auto|apply HGat; auto]. }
      rewrite (sumQ_ext_in _ (fun u => fst (w u) * cube_weight (sel w G u) c)%Q).
      + apply sat_sum; auto.
        * intros v Hv. split; [specialize (HGr v Hv); lia|apply HGat; auto].
        * apply K3. left; auto.
        * apply Hc.
        * apply Hsat. left; auto.
      + intros u Hu. unfold phi. rewrite IH; [reflexivity| |intros; apply Hsat; right; auto].
        assert (Hsame : forall v, ~ In v G -> sel w G u v = w v).
        { intros v Hv. unfold sel. destruct (Z.eqb_spec v u); [subst; contradiction|].
          rewrite (notin_mem_false _ _ Hv). reflexivity. }
        assert (Hrest : forall G' v, In G' rest -> In v G' -> ~ In v G).
        { intros G' v HG' Hv HvG. apply (NoDup_app_disj G (concat rest) v K2 HvG).
          apply in_concat. exists G'. split; auto. }
        split; [|split; [|split]].
        * intros G' v HG' Hv. rewrite (Hsame v (Hrest G' v HG' Hv)). apply (K1 G' v); [right; auto|auto].
        * exact NDr.
        * intros G' HG'. rewrite (sumQ_ext_in _ (fun v => fst (w v))).
          -- apply K3. right; auto.
          -- intros v Hv. rewrite (Hsame v (Hrest G' v HG' Hv)). reflexivity.
        * intros i Hi. destruct (K4 i Hi) as [A B]. split.
          -- intros Hat Hni. unfold sel. destruct (Z.eqb_spec i u); [simpl; ring|].
             destruct (mem i G) eqn:Em; [simpl; ring|].
             apply A; auto. intro HI. apply in_app_or in HI. destruct HI as [HI|HI]; auto.
             apply (mem_false_notin _ _ Em HI).
          -- intro Hat. rewrite Hsame; auto. intro HI. destruct (HGat i HI) as [Hat' _]. congruence.
  Qed.
End ADWeight.

(* ------------------------------------------------------------------ from the boolean well-formedness *)
Lemma atoms_In n i : 1 <= i <= Z.of_nat n -> In i (atoms n).
Proof.
  intro H. unfold atoms. replace i with (Z.of_nat (Z.to_nat i)) by lia. apply in_map. apply in_seq. lia.
Qed.

Lemma ad_wfb_ok g w groups : ad_wfb g w groups = true -> groups_ok g w groups.
Proof.
  unfold ad_wfb. intro H. apply andb_true_iff in H. destruct H as [H H3].
  apply andb_true_iff in H. destruct H as [H1 H2].
  rewrite forallb_forall in H1. rewrite forallb_forall in H3. apply nodupb_NoDup in H2.
  split; [|split; [|split]]; auto.
  - intros G v HG Hv. specialize (H1 G HG). unfold group_ok in H1.
    apply andb_true_iff in H1. destruct H1 as [H1 _]. rewrite forallb_forall in H1.
    specialize (H1 v Hv). apply andb_true_iff in H1. destruct H1 as [H1 _].
    apply andb_true_iff in H1. destruct H1 as [Ha Hs]. split; auto. apply Qeq_bool_iff; auto.
  - intros G HG. specialize (H1 G HG). unfold group_ok in H1.
    apply andb_true_iff in H1. destruct H1 as [_ H1]. apply Qeq_bool_iff; auto.
  - intros i Hi. specialize (H3 i (atoms_In _ _ Hi)). unfold node_ok in H3. split.
    + intros Hat Hni. rewrite Hat in H3. apply orb_true_iff in H3. destruct H3 as [H3|H3].
      * apply mem_In in H3. contradiction.
      * apply Qeq_bool_iff; auto.
    + intro Hat. rewrite Hat in H3. apply andb_true_iff in H3. destruct H3 as [A B].
      split; apply Qeq_bool_iff; auto.
Qed.

Definition ad_saturated (groups : list (list Z)) (c : list Z) : Prop :=
  forall G, In G groups -> sat_group c G.

(* H1: the weight lemma with the AD clauses present, for AD-saturated cubes *)
Theorem cube_weight_is_wmc_ads g w groups :
  wf_dag g = true -> ad_wfb g w groups = true ->
  forall c, cube_good g c -> ad_saturated groups c ->
  (cube_weight w c
   == wmc w (length g) (fun a => holds_all a (completion g ++ ad_clauses groups) && cube_sat a c))%Q.
Proof.
  intros Hwf Hok c Hc Hs. unfold wmc. symmetry. apply ad_weight; auto. apply ad_wfb_ok; auto.
Qed.

(* H2: the weighted count of all models of completion + AD clauses is 1 *)
Theorem total_weight_one_ads g w groups :
  wf_dag g = true -> ad_wfb g w groups = true ->
  (wmc w (length g) (fun a => holds_all a (completion g ++ ad_clauses groups)) == 1)%Q.
Proof.
  intros Hwf Hok. unfold wmc.
  rewrite (wsum_ext w (length g) _
             (fun a => ind (holds_all a (completion g ++ ad_clauses groups) && cube_sat a []))).
  - rewrite (ad_weight g [] Hwf (cube_good_nil g) groups w _ (ad_wfb_ok _ _ _ Hok)).
    + reflexivity.
    + intros G _. apply sat_group_nil.
  - intro a. simpl. rewrite andb_true_r. reflexivity.
Qed.
