(* C23 — annotated disjunctions, part 1: the weighted sum is linear in every weight pair,
   a deterministic weight pins its variable, and an exactly-one group splits the sum into one
   term per member (the member true, the others false). *)
From Coq Require Import ZArith QArith List Bool Lia Lqa Setoid.
From PL.C23 Require Import ModelPartial ModelKBest ModelAD ProofsPartial ProofsWMC.
Import ListNotations.
Open Scope Z_scope.

Definition setw (w : Z -> Q * Q) (v : Z) (p : Q * Q) : Z -> Q * Q := fun x => if x =? v then p else w x.
Definition weq (k : nat) (w1 w2 : Z -> Q * Q) : Prop :=
  forall x, 1 <= x <= Z.of_nat k -> (fst (w1 x) == fst (w2 x))%Q /\ (snd (w1 x) == snd (w2 x))%Q.

Lemma wsum_wext k : forall w1 w2 f a, weq k w1 w2 -> (wsum w1 k f a == wsum w2 k f a)%Q.
Proof.
  induction k as [|k IH]; intros w1 w2 f a H.
  - simpl. reflexivity.
  - rewrite (wsum_S w1), (wsum_S w2).
    destruct (H (Z.of_nat (S k)) ltac:(lia)) as [H1 H2].
    rewrite H1, H2.
    assert (H' : weq k w1 w2) by (intros x Hx; apply H; lia).
    rewrite (IH w1 w2 f (upd a (Z.of_nat (S k)) true) H'), (IH w1 w2 f (upd a (Z.of_nat (S k)) false) H').
    reflexivity.
Qed.

Lemma setw_same w v p : setw w v p v = p.
Proof. unfold setw. rewrite Z.eqb_refl. reflexivity. Qed.
Lemma setw_other w v p x : x <> v -> setw w v p x = w x.
Proof. intro H. unfold setw. destruct (Z.eqb_spec x v); [contradiction|reflexivity]. Qed.

Lemma wsum_lin w v k f : 1 <= v <= Z.of_nat k -> forall a,
  (wsum w k f a == fst (w v) * wsum (setw w v (1, 0)%Q) k f a
                   + snd (w v) * wsum (setw w v (0, 1)%Q) k f a)%Q.
Proof.
  induction k as [|k IH]; intros Hv a; [lia|].
  destruct (Z.eq_dec v (Z.of_nat (S k))) as [E|E].
  - assert (W : forall p b, (wsum (setw w v p) k f (upd a v b) == wsum w k f (upd a v b))%Q).
    { intros p b. apply wsum_wext. intros x Hx. rewrite setw_other by lia. split; reflexivity. }
    rewrite (wsum_S w), (wsum_S (setw w v (1, 0)%Q)), (wsum_S (setw w v (0, 1)%Q)).
    rewrite <- E. rewrite !setw_same. cbn [fst snd]. rewrite !W. ring.
  - assert (Hv' : 1 <= v <= Z.of_nat k) by lia.
    rewrite (wsum_S w), (wsum_S (setw w v (1, 0)%Q)), (wsum_S (setw w v (0, 1)%Q)).
    rewrite !(setw_other w v _ (Z.of_nat (S k))) by lia.
    rewrite (IH Hv' (upd a (Z.of_nat (S k)) true)), (IH Hv' (upd a (Z.of_nat (S k)) false)). ring.
Qed.

Lemma wsum_det w v (b : bool) k f h : 1 <= v <= Z.of_nat k ->
  (fst (w v) == ind b)%Q -> (snd (w v) == ind (negb b))%Q ->
  (forall a, a v = b -> (f a == h a)%Q) -> forall a, (wsum w k f a == wsum w k h a)%Q.
Proof.
  intros Hv Hf Hs Hfh. induction k as [|k IH]; intro a; [lia|].
  destruct (Z.eq_dec v (Z.of_nat (S k))) as [E|E].
  - rewrite !wsum_S. rewrite <- E. rewrite Hf, Hs.
    assert (B : (wsum w k f (upd a v b) == wsum w k h (upd a v b))%Q).
    { apply (wsum_rel w (fun a1 a2 => a1 = a2 /\ a1 v = b)).
      - intros j a1 a2 b' Hj [-> H2]. split; [reflexivity|].
        unfold upd. destruct (Z.eqb_spec v (Z.of_nat j)); [lia|exact H2].
      - intros a1 a2 [-> H2]. apply Hfh; auto.
      - split; [reflexivity|]. unfold upd. rewrite Z.eqb_refl. reflexivity. }
    destruct b; simpl ind; rewrite B; ring.
  - assert (Hv' : 1 <= v <= Z.of_nat k) by lia.
    rewrite !wsum_S. rewrite (IH Hv' (upd a (Z.of_nat (S k)) true)), (IH Hv' (upd a (Z.of_nat (S k)) false)).
    reflexivity.
Qed.

Lemma sumQ_ext_in {A} (f h : A -> Q) l :
  (forall x, In x l -> (f x == h x)%Q) -> (sumQ (map f l) == sumQ (map h l))%Q.
Proof.
  induction l as [|x l IH]; intro H; simpl; [reflexivity|].
  rewrite (H x) by (left; auto). rewrite IH by (intros; apply H; right; auto). reflexivity.
Qed.

(* ------------------------------------------------------------------ one group *)
Definition allfalse (w : Z -> Q * Q) (G : list Z) : Z -> Q * Q :=
  fun x => if mem x G then (0, 1)%Q else w x.
(* member u certainly true, the other members certainly false *)
Definition sel (w : Z -> Q * Q) (G : list Z) (u : Z) : Z -> Q * Q :=
  fun x => if x =? u then (1, 0)%Q else if mem x G then (0, 1)%Q else w x.

Lemma mem_cons x v G : mem x (v :: G) = (x =? v) || mem x G.
Proof. reflexivity. Qed.

Lemma group_none n phi : forall G w a0,
  (forall v, In v G -> 1 <= v <= Z.of_nat n /\ (snd (w v) == 1)%Q) ->
  (wsum w n (fun a => ind (noneb a G) * phi a) a0 == wsum (allfalse w G) n phi a0)%Q.
Proof.
  induction G as [|v G IH]; intros w a0 H.
  - rewrite (wsum_ext w n _ phi) by (intro a; simpl; ring).
    apply wsum_wext. intros x Hx. unfold allfalse. simpl. split; reflexivity.
  - destruct (H v (or_introl eq_refl)) as [Hv Hs].
    rewrite (wsum_lin w v n _ Hv a0).
    rewrite (wsum_det (setw w v (1, 0)%Q) v true n _ (fun _ => 0%Q) Hv);
      [ | rewrite setw_same; reflexivity | rewrite setw_same; reflexivity
        | intros a Ha; unfold noneb; simpl; rewrite Ha; simpl; ring ].
    rewrite wsum_zero.
    rewrite (wsum_det (setw w v (0, 1)%Q) v false n _ (fun a => ind (noneb a G) * phi a)%Q Hv);
      [ | rewrite setw_same; reflexivity | rewrite setw_same; reflexivity
        | intros a Ha; unfold noneb; simpl; rewrite Ha; simpl; reflexivity ].
    rewrite IH.
    + rewrite Hs.
      rewrite (wsum_wext n (allfalse (setw w v (0, 1)%Q) G) (allfalse w (v :: G))); [ring|].
      intros x Hx. unfold allfalse, setw. rewrite mem_cons.
      destruct (x =? v); destruct (mem x G); simpl; split; reflexivity.
    + intros u Hu. destruct (H u (or_intror Hu)) as [Hu1 Hu2]. split; auto.
      unfold setw. destruct (u =? v); simpl; [reflexivity|auto].
Qed.

Lemma group_one n phi : forall G w a0,
  NoDup G ->
  (forall v, In v G -> 1 <= v <= Z.of_nat n /\ (snd (w v) == 1)%Q) ->
  (wsum w n (fun a => ind (oneb a G) * phi a) a0
   == sumQ (map (fun u => fst (w u) * wsum (sel w G u) n phi a0) G))%Q.
Proof.
  induction G as [|v G IH]; intros w a0 ND H.
  - rewrite (wsum_ext w n _ (fun _ => 0%Q)) by (intro a; simpl; ring).
    rewrite wsum_zero. simpl. reflexivity.
  - inversion ND as [|? ? Nv ND']; subst.
    destruct (H v (or_introl eq_refl)) as [Hv Hs].
    assert (Nm : mem v G = false).
    { destruct (mem v G) eqn:E; auto. apply mem_In in E. contradiction. }
    rewrite (wsum_lin w v n _ Hv a0).
    rewrite (wsum_det (setw w v (1, 0)%Q) v true n _ (fun a => ind (noneb a G) * phi a)%Q Hv);
      [ | rewrite setw_same; reflexivity | rewrite setw_same; reflexivity
        | intros a Ha; simpl; rewrite Ha; reflexivity ].
    rewrite group_none.
    2: { intros u Hu. destruct (H u (or_intror Hu)) as [Hu1 Hu2]. split; auto.
         rewrite setw_other; auto. intro; subst; contradiction. }
    rewrite (wsum_det (setw w v (0, 1)%Q) v false n _ (fun a => ind (oneb a G) * phi a)%Q Hv);
      [ | rewrite setw_same; reflexivity | rewrite setw_same; reflexivity
        | intros a Ha; simpl; rewrite Ha; reflexivity ].
    rewrite IH; auto.
    2: { intros u Hu. destruct (H u (or_intror Hu)) as [Hu1 Hu2]. split; auto.
         unfold setw. destruct (u =? v); simpl; [reflexivity|auto]. }
    rewrite Hs. cbn [map sumQ fold_right].
    rewrite (wsum_wext n (allfalse (setw w v (1, 0)%Q) G) (sel w (v :: G) v)).
    2: { intros x Hx. unfold allfalse, setw, sel. rewrite mem_cons.
         destruct (Z.eqb_spec x v) as [->|Hx'].
         - rewrite Nm. simpl. split; reflexivity.
         - simpl. destruct (mem x G); simpl; split; reflexivity. }
    rewrite (sumQ_ext_in
               (fun u => fst (setw w v (0, 1)%Q u) * wsum (sel (setw w v (0, 1)%Q) G u) n phi a0)%Q
               (fun u => fst (w u) * wsum (sel w (v :: G) u) n phi a0)%Q G).
    { unfold sumQ. ring. }
    intros u Hu. assert (Huv : u <> v) by (intro; subst; contradiction).
    rewrite setw_other by auto.
    rewrite (wsum_wext n (sel (setw w v (0, 1)%Q) G u) (sel w (v :: G) u)); [reflexivity|].
    intros x Hx. unfold sel, setw. rewrite mem_cons.
    destruct (x =? u); destruct (x =? v); destruct (mem x G); simpl; split; reflexivity.
Qed.

(* ------------------------------------------------------------------ meaning of a group's clauses *)
Lemma holds_all_app' a x y : holds_all a (x ++ y) = holds_all a x && holds_all a y.
Proof. unfold holds_all. apply forallb_app. Qed.

Lemma lit_pos a v : 0 < v -> lit a v = a v.
Proof. intro H. unfold lit. destruct (v <? 0) eqn:E; [lia|reflexivity]. Qed.
Lemma lit_neg a v : 0 < v -> lit a (- v) = negb (a v).
Proof. intro H. unfold lit. destruct (- v <? 0) eqn:E; [|lia]. rewrite Z.opp_involutive. reflexivity. Qed.

Lemma pairs_with a v G : 0 < v -> (forall m, In m G -> 0 < m) ->
  holds_all a (map (fun m => Constr false [- v; - m]) G) = negb (a v) || noneb a G.
Proof.
  intros Hv. induction G as [|m G IH]; intro HG.
  - simpl. rewrite orb_true_r. reflexivity.
  - cbn [map holds_all forallb holds existsb noneb]. fold (holds_all a (map (fun m => Constr false [- v; - m]) G)).
    rewrite IH by (intros; apply HG; right; auto).
    rewrite lit_neg by auto. rewrite lit_neg by (apply HG; left; auto).
    unfold noneb. destruct (a v); destruct (a m); simpl; auto.
Qed.

Lemma none_pairs a G : (forall m, In m G -> 0 < m) -> noneb a G = true -> holds_all a (ad_pairs G) = true.
Proof.
  induction G as [|v G IH]; intros HG Hn; [reflexivity|].
  cbn [ad_pairs]. rewrite holds_all_app'.
  unfold noneb in Hn. cbn [forallb] in Hn. apply andb_true_iff in Hn. destruct Hn as [H1 H2].
  rewrite pairs_with by (first [apply HG; left; reflexivity | intros; apply HG; right; auto]).
  rewrite H1. simpl. apply IH; auto. intros; apply HG; right; auto.
Qed.

Lemma existsb_pos a G : (forall m, In m G -> 0 < m) -> existsb (lit a) G = existsb a G.
Proof.
  induction G as [|v G IH]; intro HG; [reflexivity|].
  simpl. rewrite lit_pos by (apply HG; left; auto). rewrite IH by (intros; apply HG; right; auto). reflexivity.
Qed.

Lemma none_exists a G : noneb a G = negb (existsb a G).
Proof. induction G as [|v G IH]; simpl; auto. unfold noneb in *. simpl. rewrite IH. destruct (a v); reflexivity. Qed.

Lemma group_clauses_one a G : (forall m, In m G -> 0 < m) ->
  holds_all a (ad_group_clauses G) = oneb a G.
Proof.
  unfold ad_group_clauses. induction G as [|v G IH]; intro HG.
  - reflexivity.
  - assert (HG' : forall m, In m G -> 0 < m) by (intros; apply HG; right; auto).
    assert (Hv : 0 < v) by (apply HG; left; auto).
    specialize (IH HG'). rewrite holds_all_app' in IH.
    cbn [ad_pairs]. rewrite !holds_all_app'. rewrite pairs_with by auto.
    cbn [holds_all forallb holds existsb] in *. rewrite lit_pos by auto.
    cbn [oneb]. destruct (a v) eqn:Ea; simpl.
    + destruct (noneb a G) eqn:En; simpl; auto.
      rewrite none_pairs by auto. reflexivity.
    + rewrite <- IH. reflexivity.
Qed.
