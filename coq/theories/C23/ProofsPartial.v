(* C23 — soundness and completeness of the partial (3-valued) encoding. *)
From Coq Require Import ZArith List Bool Lia Wf_Z.
From PL.C23 Require Import ModelPartial.
Import ListNotations.
Open Scope Z_scope.
Ltac Zify.zify_post_hook ::= Z.to_euclidean_division_equations.

(* ------------------------------------------------------------------ basics *)
Lemma mem_In l sol : mem l sol = true <-> In l sol.
Proof.
  unfold mem. rewrite existsb_exists. split.
  - intros [x [H E]]. apply Z.eqb_eq in E. subst; auto.
  - intro H; exists l; split; auto. apply Z.eqb_refl.
Qed.

Lemma csat_In sol c : csat sol c = true <-> exists l, In l c /\ In l sol.
Proof.
  unfold csat. rewrite existsb_exists. split; intros [l [H1 H2]]; exists l; split; auto; apply mem_In; auto.
Qed.

Lemma all_sat_In sol cs c : all_sat sol cs = true -> In c cs -> csat sol c = true.
Proof. unfold all_sat. rewrite forallb_forall. auto. Qed.

Lemma NoDup_map_inj {A B} (f : A -> B) l x y :
  NoDup (map f l) -> In x l -> In y l -> f x = f y -> x = y.
Proof.
  induction l as [|a l IH]; simpl; intros ND Hx Hy E; [contradiction|].
  inversion ND as [|? ? H1 H2]; subst.
  destruct Hx as [Hx|Hx], Hy as [Hy|Hy]; subst; auto.
  - exfalso. apply H1. rewrite E. apply in_map; auto.
  - exfalso. apply H1. rewrite <- E. apply in_map; auto.
Qed.

Lemma consistent_opp sol l : consistent sol -> In l sol -> ~ In (- l) sol.
Proof.
  intros [ND N0] H H'.
  assert (E : l = - l) by (apply (NoDup_map_inj Z.abs sol); auto; lia).
  assert (l = 0) by lia. subst. auto.
Qed.

Lemma nodupb_NoDup l : nodupb l = true <-> NoDup l.
Proof.
  induction l as [|x t IH]; simpl.
  - split; auto. constructor.
  - rewrite andb_true_iff, negb_true_iff, IH. split.
    + intros [H1 H2]. constructor; auto. intro HI. apply mem_In in HI. congruence.
    + intro ND. inversion ND; subst. split; auto.
      destruct (mem x t) eqn:E; auto. apply mem_In in E. contradiction.
Qed.

Lemma consistentb_ok sol : consistentb sol = true <-> consistent sol.
Proof.
  unfold consistentb, consistent. rewrite andb_true_iff, negb_true_iff, nodupb_NoDup.
  split; intros [H1 H2]; split; auto.
  - intro HI. apply mem_In in HI. congruence.
  - destruct (mem 0 sol) eqn:E; auto. apply mem_In in E. contradiction.
Qed.

Lemma lit_opp a c : c <> 0 -> lit a (- c) = negb (lit a c).
Proof.
  intro H. unfold lit.
  destruct (c <? 0) eqn:E1; destruct (- c <? 0) eqn:E2; try lia.
  - rewrite negb_involutive. reflexivity.
  - rewrite Z.opp_involutive. reflexivity.
Qed.

(* ------------------------------------------------------------------ where encoded clauses end up *)
Lemma enc_rule_in sc : forall cs cnt h b,
  In (Rule h b) cs -> In (enc_rule h b) (fst (enc_clauses sc cnt cs)).
Proof.
  induction cs as [|c cs IH]; simpl; intros cnt h b H; [contradiction|].
  destruct (enc_clause sc cnt c) as [l cnt'] eqn:E.
  destruct (enc_clauses sc cnt' cs) as [l' cnt''] eqn:E'. simpl.
  apply in_or_app. destruct H as [->|H].
  - left. simpl in E. inversion E; subst. left; auto.
  - right. specialize (IH cnt' h b H). rewrite E' in IH. exact IH.
Qed.

Lemma enc_forced_in sc : forall cs cnt b,
  In (Constr true b) cs -> In (map cpt b) (fst (enc_clauses sc cnt cs)).
Proof.
  induction cs as [|c cs IH]; simpl; intros cnt b H; [contradiction|].
  destruct (enc_clause sc cnt c) as [l cnt'] eqn:E.
  destruct (enc_clauses sc cnt' cs) as [l' cnt''] eqn:E'. simpl.
  apply in_or_app. destruct H as [->|H].
  - left. simpl in E. rewrite andb_false_r in E. inversion E; subst. left; auto.
  - right. specialize (IH cnt' b H). rewrite E' in IH. exact IH.
Qed.

Lemma encode_atom_in n sc cs i : 1 <= i <= Z.of_nat n -> In (enc_atom i) (encode n sc cs).
Proof.
  intros H. unfold encode. apply in_or_app; left. apply in_map. unfold atoms.
  replace i with (Z.of_nat (Z.to_nat i)) by lia. apply in_map. apply in_seq. lia.
Qed.

Lemma encode_rule_in n sc cs h b : In (Rule h b) cs -> In (enc_rule h b) (encode n sc cs).
Proof. intro H. unfold encode. apply in_or_app; right. apply enc_rule_in; auto. Qed.

Lemma encode_forced_in n sc cs b : In (Constr true b) cs -> In (map cpt b) (encode n sc cs).
Proof. intro H. unfold encode. apply in_or_app; right. apply enc_forced_in; auto. Qed.

(* ------------------------------------------------------------------ DAG lookups *)
Lemma completion_from_in : forall g idx k nd c,
  nth_error g k = Some nd -> In c (completion_node (idx + Z.of_nat k) nd) -> In c (completion_from idx g).
Proof.
  induction g as [|x g IH]; intros idx k nd c Hn Hc.
  - destruct k; discriminate.
  - destruct k as [|k]; simpl in Hn.
    + inversion Hn; subst. simpl. apply in_or_app; left.
      replace (idx + Z.of_nat 0) with idx in Hc by lia. exact Hc.
    + simpl. apply in_or_app; right. apply (IH (idx + 1) k nd c Hn).
      replace (idx + 1 + Z.of_nat k) with (idx + Z.of_nat (S k)) by lia. exact Hc.
Qed.

Lemma node_at_nth g i nd : node_at g i = Some nd -> 1 <= i /\ nth_error g (Z.to_nat (i - 1)) = Some nd.
Proof.
  unfold node_at. destruct (i <? 1) eqn:E; [discriminate|]. intro H. split; [lia|exact H].
Qed.

Lemma completion_in g i nd c :
  node_at g i = Some nd -> In c (completion_node i nd) -> In c (completion g).
Proof.
  intros H Hc. apply node_at_nth in H. destruct H as [H1 H2].
  unfold completion. apply (completion_from_in g 1 _ nd c H2).
  replace (1 + Z.of_nat (Z.to_nat (i - 1))) with i by lia. exact Hc.
Qed.

Lemma wf_from_children : forall g idx k nd c,
  wf_from idx g = true -> nth_error g k = Some nd -> In c (children nd) ->
  0 < Z.abs c < idx + Z.of_nat k.
Proof.
  induction g as [|x g IH]; intros idx k nd c Hw Hn Hc.
  - destruct k; discriminate.
  - simpl in Hw. apply andb_true_iff in Hw. destruct Hw as [Hw1 Hw2].
    destruct k as [|k]; simpl in Hn.
    + inversion Hn; subst. rewrite forallb_forall in Hw1. specialize (Hw1 c Hc).
      apply andb_true_iff in Hw1. lia.
    + specialize (IH (idx + 1) k nd c Hw2 Hn Hc). lia.
Qed.

Lemma wf_children g i nd c :
  wf_dag g = true -> node_at g i = Some nd -> In c (children nd) -> 0 < Z.abs c < i.
Proof.
  intros Hw H Hc. apply node_at_nth in H. destruct H as [H1 H2].
  pose proof (wf_from_children g 1 _ nd c Hw H2 Hc). lia.
Qed.

Lemma node_at_total g i : 1 <= i <= Z.of_nat (length g) -> exists nd, node_at g i = Some nd.
Proof.
  intro H. unfold node_at. destruct (i <? 1) eqn:E; [lia|].
  destruct (nth_error g (Z.to_nat (i - 1))) eqn:E'; [eauto|].
  apply nth_error_None in E'. lia.
Qed.

(* ------------------------------------------------------------------ from_partial *)
Lemma from_partial_ct weighted sol i :
  1 <= i -> weighted i = true -> In (ct i) sol -> In i (from_partial weighted sol).
Proof.
  intros Hi Hw HI. unfold from_partial. apply in_flat_map. exists (ct i). split; auto.
  unfold ct.
  assert (E1 : (2 * i) mod 2 =? 1 = false) by (apply Z.eqb_neq; lia).
  assert (E2 : (2 * i) mod 2 =? 0 = true) by (apply Z.eqb_eq; lia).
  assert (E3 : 0 <? 2 * i = true) by (apply Z.ltb_lt; lia).
  assert (E4 : (Z.abs (2 * i) + 1) / 2 = i) by lia.
  rewrite E1, E2, E3, E4. simpl. rewrite Hw. left; auto.
Qed.

Lemma from_partial_npt weighted sol i :
  1 <= i -> weighted i = true -> In (- pt i) sol -> In (- i) (from_partial weighted sol).
Proof.
  intros Hi Hw HI. unfold from_partial. apply in_flat_map. exists (- pt i). split; auto.
  unfold pt, ct.
  assert (E1 : (- (2 * i - 1)) mod 2 =? 1 = true) by (apply Z.eqb_eq; lia).
  assert (E3 : - (2 * i - 1) <? 0 = true) by (apply Z.ltb_lt; lia).
  assert (E4 : (Z.abs (- (2 * i - 1)) + 1) / 2 = i) by lia.
  rewrite E1, E3, E4. simpl. rewrite Hw. left; auto.
Qed.

(* every literal of from_partial comes from a determined variable of the answer *)
Lemma from_partial_inv weighted sol l :
  In l (from_partial weighted sol) ->
  weighted (Z.abs l) = true /\ l <> 0 /\
  ((0 < l /\ In (ct l) sol) \/ (l < 0 /\ In (- pt (- l)) sol)).
Proof.
  unfold from_partial. rewrite in_flat_map. intros [s [Hs Hl]].
  destruct ((s mod 2 =? 1) && (s <? 0)) eqn:E1.
  - apply andb_true_iff in E1. destruct E1 as [Ea Eb].
    apply Z.eqb_eq in Ea. apply Z.ltb_lt in Eb.
    destruct (weighted ((Z.abs s + 1) / 2)) eqn:Ew; [|contradiction].
    destruct Hl as [Hl|[]]. subst l.
    assert (Er : Z.abs (- ((Z.abs s + 1) / 2)) = (Z.abs s + 1) / 2) by lia.
    rewrite Er. split; auto. split; [lia|]. right. split; [lia|].
    rewrite Z.opp_involutive. unfold pt, ct.
    replace (- (2 * ((Z.abs s + 1) / 2) - 1)) with s by lia. exact Hs.
  - destruct ((s mod 2 =? 0) && (0 <? s)) eqn:E2; [|contradiction].
    apply andb_true_iff in E2. destruct E2 as [Ea Eb].
    apply Z.eqb_eq in Ea. apply Z.ltb_lt in Eb.
    destruct (weighted ((Z.abs s + 1) / 2)) eqn:Ew; [|contradiction].
    destruct Hl as [Hl|[]]. subst l.
    assert (Er : Z.abs ((Z.abs s + 1) / 2) = (Z.abs s + 1) / 2) by lia.
    rewrite Er. split; auto. split; [lia|]. left. split; [lia|].
    unfold ct. replace (2 * ((Z.abs s + 1) / 2)) with s by lia. exact Hs.
Qed.

(* ------------------------------------------------------------------ soundness *)
Section Sound.
  Variables (g : dag) (extra : list clause) (sc : bool) (sol : list Z)
            (a : Z -> bool) (weighted : Z -> bool).
  Let n := length g.
  Hypothesis Hwf : wf_dag g = true.
  Hypothesis Hcons : consistent sol.
  Hypothesis Hsat : all_sat sol (encode n sc (completion g ++ extra)) = true.
  Hypothesis Ha : holds_all a (completion g) = true.
  Hypothesis Hw : forall i, is_atom g i = true -> weighted i = true.
  Hypothesis Hext : forall l, In l (from_partial weighted sol) -> lit a l = true.

  Lemma ct_facts i : 1 <= i <= Z.of_nat n -> In (ct i) sol ->
    ~ In (- ct i) sol /\ ~ In (- pt i) sol.
  Proof.
    intros Hi HI. split; [apply consistent_opp; auto|].
    pose proof (all_sat_In _ _ _ Hsat (encode_atom_in n sc _ i Hi)) as Hc.
    apply csat_In in Hc. destruct Hc as [l [Hl1 Hl2]]. simpl in Hl1.
    destruct Hl1 as [<-|[<-|[]]].
    - apply consistent_opp; auto.
    - exfalso. revert Hl2. apply consistent_opp; auto.
  Qed.

  Lemma npt_facts i : 1 <= i <= Z.of_nat n -> In (- pt i) sol ->
    ~ In (pt i) sol /\ ~ In (ct i) sol.
  Proof.
    intros Hi HI.
    assert (H1 : ~ In (pt i) sol).
    { intro H. apply (consistent_opp sol (pt i) Hcons H). exact HI. }
    split; auto. intro H. destruct (ct_facts i Hi H) as [_ H2]. contradiction.
  Qed.

  Lemma holds_completion c : In c (completion g) -> holds a c = true.
  Proof. unfold holds_all in Ha. rewrite forallb_forall in Ha. auto. Qed.

  Lemma sat_rule h b : In (Rule h b) (completion g) -> exists l, In l (enc_rule h b) /\ In l sol.
  Proof.
    intro H. apply csat_In. apply (all_sat_In _ _ _ Hsat).
    apply encode_rule_in. apply in_or_app; left; auto.
  Qed.

  Definition inv (i : Z) : Prop :=
    (In (ct i) sol -> a i = true) /\ (In (- pt i) sol -> a i = false).

  Lemma cpt_sound i c : (forall m, 1 <= m < i -> inv m) -> 0 < Z.abs c < i ->
    In (cpt c) sol -> lit a c = true.
  Proof.
    intros IH Hc HI. unfold cpt in HI. unfold lit. destruct (c <? 0) eqn:E.
    - destruct (IH (- c)) as [_ H2]; [lia|]. rewrite (H2 HI). reflexivity.
    - destruct (IH c) as [H1 _]; [lia|]. apply H1; auto.
  Qed.

  Lemma sound_inv : forall i, 0 <= i -> 1 <= i <= Z.of_nat n -> inv i.
  Proof.
    apply (Z_lt_induction (fun i => 1 <= i <= Z.of_nat n -> inv i)).
    intros i IH Hi.
    assert (IH' : forall m, 1 <= m < i -> inv m) by (intros m Hm; apply IH; lia).
    destruct (node_at_total g i Hi) as [nd Hnd].
    assert (Hch : forall c, In c (children nd) -> 0 < Z.abs c < i)
      by (intros c Hc; eapply wf_children; eauto).
    destruct nd as [|ch|ch].
    - (* atom *)
      assert (Hwi : weighted i = true) by (apply Hw; unfold is_atom; rewrite Hnd; reflexivity).
      split; intro HI.
      + pose proof (Hext _ (from_partial_ct weighted sol i ltac:(lia) Hwi HI)) as H.
        unfold lit in H. destruct (i <? 0) eqn:E; [lia|exact H].
      + pose proof (Hext _ (from_partial_npt weighted sol i ltac:(lia) Hwi HI)) as H.
        unfold lit in H. destruct (- i <? 0) eqn:E; [|lia].
        rewrite Z.opp_involutive in H. apply negb_true_iff in H. exact H.
    - (* conj *)
      split; intro HI.
      + (* certainly true: every child certainly true *)
        destruct (ct_facts i Hi HI) as [N1 N2].
        assert (Hall : forall c, In c ch -> lit a c = true).
        { intros c Hc.
          assert (HR : In (Rule (- i) [c]) (completion g)).
          { apply (completion_in g i _ _ Hnd). simpl. right. apply in_map_iff. exists c; auto. }
          destruct (sat_rule _ _ HR) as [l [Hl1 Hl2]]. unfold enc_rule in Hl1.
          destruct (- i <? 0) eqn:E; [|lia]. replace (Z.abs (- i)) with i in Hl1 by lia.
          simpl in Hl1. destruct Hl1 as [<-|[<-|[<-|[]]]]; try contradiction.
          apply (cpt_sound i c IH' (Hch c Hc) Hl2). }
        assert (HR : In (Rule i (map Z.opp ch)) (completion g)).
        { apply (completion_in g i _ _ Hnd). simpl. left; auto. }
        pose proof (holds_completion _ HR) as Hh. simpl in Hh.
        apply orb_true_iff in Hh. destruct Hh as [Hh|Hh].
        * unfold lit in Hh. destruct (i <? 0) eqn:E; [lia|exact Hh].
        * exfalso. apply existsb_exists in Hh. destruct Hh as [x [Hx1 Hx2]].
          apply in_map_iff in Hx1. destruct Hx1 as [c [<- Hc]].
          rewrite lit_opp in Hx2 by (specialize (Hch c Hc); lia).
          rewrite (Hall c Hc) in Hx2. discriminate.
      + (* not possibly true: some child not possibly true *)
        destruct (npt_facts i Hi HI) as [N1 N2].
        assert (HR : In (Rule i (map Z.opp ch)) (completion g)).
        { apply (completion_in g i _ _ Hnd). simpl. left; auto. }
        destruct (sat_rule _ _ HR) as [l [Hl1 Hl2]]. unfold enc_rule in Hl1.
        destruct (i <? 0) eqn:E; [lia|]. replace (Z.abs i) with i in Hl1 by lia.
        simpl in Hl1. destruct Hl1 as [<-|[<-|Hl1]]; try contradiction.
        apply in_map_iff in Hl1. destruct Hl1 as [x [<- Hx]].
        apply in_map_iff in Hx. destruct Hx as [c [<- Hc]].
        assert (Hc0 : 0 < Z.abs c < i) by (apply Hch; auto).
        assert (Hlc : lit a (- c) = true) by (apply (cpt_sound i (- c) IH'); auto; lia).
        rewrite lit_opp in Hlc by lia. apply negb_true_iff in Hlc.
        assert (HR2 : In (Rule (- i) [c]) (completion g)).
        { apply (completion_in g i _ _ Hnd). simpl. right. apply in_map_iff. exists c; auto. }
        pose proof (holds_completion _ HR2) as Hh. simpl in Hh. rewrite Hlc in Hh.
        rewrite orb_false_r in Hh. unfold lit in Hh. destruct (- i <? 0) eqn:E2; [|lia].
        rewrite Z.opp_involutive in Hh. apply negb_true_iff in Hh. exact Hh.
    - (* disj *)
      split; intro HI.
      + destruct (ct_facts i Hi HI) as [N1 N2].
        assert (HR : In (Rule (- i) ch) (completion g)).
        { apply (completion_in g i _ _ Hnd). simpl. left; auto. }
        destruct (sat_rule _ _ HR) as [l [Hl1 Hl2]]. unfold enc_rule in Hl1.
        destruct (- i <? 0) eqn:E; [|lia]. replace (Z.abs (- i)) with i in Hl1 by lia.
        simpl in Hl1. destruct Hl1 as [<-|[<-|Hl1]]; try contradiction.
        apply in_map_iff in Hl1. destruct Hl1 as [c [<- Hc]].
        assert (Hlc : lit a c = true) by (apply (cpt_sound i c IH'); auto).
        assert (HR2 : In (Rule i [- c]) (completion g)).
        { apply (completion_in g i _ _ Hnd). simpl. right. apply in_map_iff. exists c; auto. }
        pose proof (holds_completion _ HR2) as Hh. simpl in Hh.
        rewrite lit_opp in Hh by (specialize (Hch c Hc); lia). rewrite Hlc in Hh. simpl in Hh.
        rewrite orb_false_r in Hh. unfold lit in Hh. destruct (i <? 0) eqn:E2; [lia|exact Hh].
      + destruct (npt_facts i Hi HI) as [N1 N2].
        assert (Hall : forall c, In c ch -> lit a c = false).
        { intros c Hc.
          assert (HR : In (Rule i [- c]) (completion g)).
          { apply (completion_in g i _ _ Hnd). simpl. right. apply in_map_iff. exists c; auto. }
          destruct (sat_rule _ _ HR) as [l [Hl1 Hl2]]. unfold enc_rule in Hl1.
          destruct (i <? 0) eqn:E; [lia|]. replace (Z.abs i) with i in Hl1 by lia.
          simpl in Hl1. destruct Hl1 as [<-|[<-|[<-|[]]]]; try contradiction.
          assert (Hc0 : 0 < Z.abs c < i) by (apply Hch; auto).
          assert (Hlc : lit a (- c) = true) by (apply (cpt_sound i (- c) IH'); auto; lia).
          rewrite lit_opp in Hlc by lia. apply negb_true_iff in Hlc. exact Hlc. }
        assert (HR : In (Rule (- i) ch) (completion g)).
        { apply (completion_in g i _ _ Hnd). simpl. left; auto. }
        pose proof (holds_completion _ HR) as Hh. simpl in Hh.
        apply orb_true_iff in Hh. destruct Hh as [Hh|Hh].
        * unfold lit in Hh. destruct (- i <? 0) eqn:E2; [|lia].
          rewrite Z.opp_involutive in Hh. apply negb_true_iff in Hh. exact Hh.
        * exfalso. apply existsb_exists in Hh. destruct Hh as [c [Hc1 Hc2]].
          rewrite (Hall c Hc1) in Hc2. discriminate.
  Qed.

  (* a literal forced certainly-true in the encoding is true in the total model *)
  Lemma sound_cpt q : 0 < Z.abs q <= Z.of_nat n -> In (cpt q) sol -> lit a q = true.
  Proof.
    intros Hq HI. apply (cpt_sound (Z.of_nat n + 1) q); auto; [|lia].
    intros m Hm. apply sound_inv; lia.
  Qed.

  (* a forced clause [True, body]: one of its literals is true in the total model *)
  Lemma sound_forced b :
    In (Constr true b) extra -> (forall l, In l b -> 0 < Z.abs l <= Z.of_nat n) ->
    existsb (lit a) b = true.
  Proof.
    intros Hin Hr.
    assert (Hc : csat sol (map cpt b) = true).
    { apply (all_sat_In _ _ _ Hsat). apply encode_forced_in. apply in_or_app; right; auto. }
    apply csat_In in Hc. destruct Hc as [l [Hl1 Hl2]].
    apply in_map_iff in Hl1. destruct Hl1 as [x [<- Hx]].
    apply existsb_exists. exists x. split; auto. apply sound_cpt; auto.
  Qed.
End Sound.

(* ------------------------------------------------------------------ completeness:
   every total model of the CNF embeds into a model of the partial encoding
   (pt i = ct i = a i, every indicator true) *)
Definition emb (n : nat) (a : Z -> bool) : Z -> bool :=
  fun x => if x <=? 2 * Z.of_nat n then a ((x + 1) / 2) else true.

Section Complete.
  Variables (n : nat) (a : Z -> bool).
  Let m := emb n a.

  Lemma emb_pt i : 1 <= i <= Z.of_nat n -> m (pt i) = a i.
  Proof.
    intro H. unfold m, emb, pt, ct. destruct (2 * i - 1 <=? 2 * Z.of_nat n) eqn:E; [|lia].
    f_equal. lia.
  Qed.
  Lemma emb_ct i : 1 <= i <= Z.of_nat n -> m (ct i) = a i.
  Proof.
    intro H. unfold m, emb, ct. destruct (2 * i <=? 2 * Z.of_nat n) eqn:E; [|lia].
    f_equal. lia.
  Qed.
  Lemma emb_ind x : 2 * Z.of_nat n < x -> lit m x = true.
  Proof.
    intro H. unfold lit. destruct (x <? 0) eqn:E; [lia|]. unfold m, emb.
    destruct (x <=? 2 * Z.of_nat n) eqn:E2; [lia|reflexivity].
  Qed.
  Lemma emb_lit_ct i : 1 <= i <= Z.of_nat n -> lit m (ct i) = a i.
  Proof. intro H. unfold lit. destruct (ct i <? 0) eqn:E; [unfold ct in E; lia|]. apply emb_ct; auto. Qed.
  Lemma emb_lit_pt i : 1 <= i <= Z.of_nat n -> lit m (pt i) = a i.
  Proof. intro H. unfold lit. destruct (pt i <? 0) eqn:E; [unfold pt, ct in E; lia|]. apply emb_pt; auto. Qed.
  Lemma emb_lit_nct i : 1 <= i <= Z.of_nat n -> lit m (- ct i) = negb (a i).
  Proof. intro H. rewrite lit_opp by (unfold ct; lia). rewrite emb_lit_ct; auto. Qed.
  Lemma emb_lit_npt i : 1 <= i <= Z.of_nat n -> lit m (- pt i) = negb (a i).
  Proof. intro H. rewrite lit_opp by (unfold pt, ct; lia). rewrite emb_lit_pt; auto. Qed.

  Lemma range_abs l : lit_in_range n l = true -> 1 <= Z.abs l <= Z.of_nat n.
  Proof. unfold lit_in_range. rewrite andb_true_iff. lia. Qed.

  Lemma emb_cpt l : lit_in_range n l = true -> lit m (cpt l) = lit a l.
  Proof.
    intro H. apply range_abs in H. unfold cpt. unfold lit at 2. destruct (l <? 0) eqn:E.
    - rewrite emb_lit_npt by lia. reflexivity.
    - rewrite emb_lit_ct by lia. reflexivity.
  Qed.

  Lemma emb_cpt_body b :
    forallb (lit_in_range n) b = true -> existsb (lit a) b = true ->
    existsb (lit m) (map cpt b) = true.
  Proof.
    intros Hr He. apply existsb_exists in He. destruct He as [l [Hl1 Hl2]].
    apply existsb_exists. exists (cpt l). split; [apply in_map; auto|].
    rewrite forallb_forall in Hr. rewrite emb_cpt; auto.
  Qed.

  Lemma emb_enc_clause sc cnt c :
    2 * Z.of_nat n <= cnt ->
    forallb (lit_in_range n) (clause_lits c) = true -> holds a c = true ->
    fsat m (fst (enc_clause sc cnt c)) = true /\ 2 * Z.of_nat n <= snd (enc_clause sc cnt c).
  Proof.
    intros Hc Hr Hh. destruct c as [h b|force b]; simpl in Hr, Hh.
    - simpl. split; auto. rewrite andb_true_r.
      apply andb_true_iff in Hr. destruct Hr as [Hrh Hrb].
      unfold enc_rule. rewrite existsb_app. apply orb_true_iff.
      apply orb_true_iff in Hh. destruct Hh as [Hh|Hh].
      + left. pose proof (range_abs _ Hrh) as Ha. unfold lit in Hh.
        destruct (h <? 0) eqn:E; simpl.
        * rewrite emb_lit_nct by auto. replace (Z.abs h) with (- h) by lia. rewrite Hh. reflexivity.
        * rewrite emb_lit_ct by auto. replace (Z.abs h) with h by lia. rewrite Hh. reflexivity.
      + right. apply emb_cpt_body; auto.
    - cbn [enc_clause]. destruct (sc && negb force) eqn:Es.
      + cbn [fst snd]. split; [|lia]. unfold fsat. rewrite forallb_app. apply andb_true_iff. split.
        * apply forallb_forall. intros x Hx. apply in_flat_map in Hx. destruct Hx as [l [Hl Hx]].
          cbn [In] in Hx. destruct Hx as [<-|[<-|[]]]; cbn [existsb]; rewrite (emb_ind (cnt + 1)) by lia;
            rewrite !orb_true_r; reflexivity.
        * cbn [forallb]. rewrite andb_true_r. apply andb_true_iff. split.
          -- rewrite existsb_app. apply orb_true_iff. left.
             apply existsb_exists in Hh. destruct Hh as [l [Hl1 Hl2]].
             rewrite forallb_forall in Hr. pose proof (range_abs _ (Hr l Hl1)) as Ha.
             destruct (a (Z.abs l)) eqn:Ea.
             ++ apply existsb_exists. exists (ct (Z.abs l)). split.
                ** apply in_flat_map. exists l. split; auto. left; auto.
                ** rewrite emb_lit_ct; auto.
             ++ apply existsb_exists. exists (- pt (Z.abs l)). split.
                ** apply in_flat_map. exists l. split; auto. right; left; auto.
                ** rewrite emb_lit_npt; auto. rewrite Ea. reflexivity.
          -- rewrite existsb_app. apply orb_true_iff. left. apply emb_cpt_body; auto.
      + cbn [fst snd]. split; auto. simpl. rewrite andb_true_r. apply emb_cpt_body; auto.
  Qed.

  Lemma emb_enc_clauses sc : forall cs cnt,
    2 * Z.of_nat n <= cnt -> in_range n cs = true -> holds_all a cs = true ->
    fsat m (fst (enc_clauses sc cnt cs)) = true.
  Proof.
    induction cs as [|c cs IH]; intros cnt Hc Hr Hh; simpl; auto.
    simpl in Hr, Hh. apply andb_true_iff in Hr. destruct Hr as [Hr1 Hr2].
    apply andb_true_iff in Hh. destruct Hh as [Hh1 Hh2].
    destruct (emb_enc_clause sc cnt c Hc Hr1 Hh1) as [H1 H2].
    destruct (enc_clause sc cnt c) as [l cnt'] eqn:E.
    specialize (IH cnt' H2 Hr2 Hh2).
    destruct (enc_clauses sc cnt' cs) as [l' cnt''] eqn:E'. simpl in *.
    unfold fsat in *. rewrite forallb_app. rewrite H1, IH. reflexivity.
  Qed.

  Theorem embed_sat sc cs :
    in_range n cs = true -> holds_all a cs = true -> fsat m (encode n sc cs) = true.
  Proof.
    intros Hr Hh. unfold encode, fsat. rewrite forallb_app. apply andb_true_iff. split.
    - apply forallb_forall. intros x Hx. apply in_map_iff in Hx. destruct Hx as [i [<- Hi]].
      unfold atoms in Hi. apply in_map_iff in Hi. destruct Hi as [k [<- Hk]]. apply in_seq in Hk.
      unfold enc_atom. simpl. rewrite emb_lit_pt by lia. rewrite emb_lit_nct by lia.
      destruct (a (Z.of_nat k)); reflexivity.
    - apply emb_enc_clauses; auto. lia.
  Qed.
End Complete.
