(* C23 — k-best anytime bounds are sound and tight on completion.
   Only statements; every proof is `exact <lemma>`.

   Vocabulary (ModelPartial.v / ModelKBest.v): `encode n sc cs` = hard clauses of
   CNF._contents(partial=True, smart_constraints=sc); `from_partial`; `completion g` =
   clarks_completion of a LogicDAG `g`; `holds_all a cs` = total two-valued satisfaction;
   `all_sat sol cs` = the solver answer `sol` (list of signed ints) contains a literal of
   every clause; `consistent sol` = every variable at most once and no 0.
   `border_update solver n weighted w` = Border.update; `reach solver g ads weighted w q b` =
   b is obtained from Border(cnf, q) by any number of updates (ProofsKBest.v);
   `evaluate` = KBestEvaluator.evaluate's loop with fuel; `prob w n F q` = weighted count over
   ALL total assignments of variables 1..n of the models of F in which q holds.
   The MaxSAT solver is universally quantified under its contract:
     solver_sound_c    : an answer is consistent and satisfies every hard clause given;
     solver_complete_c : `None` only if no assignment satisfies the hard clauses.
   Optimality of the answer is NOT assumed anywhere (it only affects how fast the bounds move).
   Annotated disjunctions (ModelAD.v): `ad_clauses groups`, `ad_wfb g w groups`; section 7 states the
   bound theorems for programs with ADs without any counting hypothesis (the weight lemma and
   total weight 1 with the exactly-one clauses present are C23_cube_weight_with_ads and
   C23_total_weight_with_ads; the `_partial` theorems of section 6 are kept for reference). *)
From Coq Require Import ZArith QArith List Bool.
From PL.C23 Require Import ModelPartial ModelKBest ModelAD ProofsPartial ProofsWMC ProofsKBest ProofsCube ProofsFinal
                           ProofsAD1 ProofsAD2 ProofsAD3.
Import ListNotations.
Open Scope Z_scope.

(* ---- 1. The 3-valued encoding is sound w.r.t. Clark's completion.
   For every model `sol` of the partial encoding of (completion g ++ any extra clauses) and every
   TOTAL model `a` of the completion that agrees with the cube from_partial(sol) on the weighted
   atoms: whatever the encoding marks "certainly true" (ct i) is true in a, whatever it marks
   "not possibly true" (-pt i) is false in a — for every node i, derived ones included.
   (The literal reading "every total extension of the cube over all variables satisfies the CNF"
   is false for this encoding, see C23_literal_reading_fails below: derived variables are
   determined by the completion, not free.) *)
Theorem C23_partial_sound :
  forall (g : dag) (extra : list clause) (sc : bool) (sol : list Z) (a weighted : Z -> bool),
    wf_dag g = true ->
    consistent sol ->
    all_sat sol (encode (length g) sc (completion g ++ extra)) = true ->
    holds_all a (completion g) = true ->
    (forall i, is_atom g i = true -> weighted i = true) ->
    (forall l, In l (from_partial weighted sol) -> lit a l = true) ->
    forall i, 1 <= i <= Z.of_nat (length g) ->
      (In (ct i) sol -> a i = true) /\ (In (- pt i) sol -> a i = false).
Proof. exact partial_sound_final. Qed.
Print Assumptions C23_partial_sound.

(* a forced clause [True, body] (the query unit clause, a blocking clause) of the encoding has a
   literal that is true in every such total model *)
Theorem C23_partial_forced :
  forall (g : dag) (extra : list clause) (sc : bool) (sol : list Z) (a weighted : Z -> bool),
    wf_dag g = true ->
    consistent sol ->
    all_sat sol (encode (length g) sc (completion g ++ extra)) = true ->
    holds_all a (completion g) = true ->
    (forall i, is_atom g i = true -> weighted i = true) ->
    (forall l, In l (from_partial weighted sol) -> lit a l = true) ->
    forall b, In (Constr true b) extra ->
      (forall l, In l b -> 0 < Z.abs l <= Z.of_nat (length g)) ->
      existsb (lit a) b = true.
Proof. exact sound_forced. Qed.
Print Assumptions C23_partial_forced.

(* ---- 2. ... and complete: every total model of ANY clause list (rules, smart constraints,
   forced clauses) yields a model of its partial encoding. *)
Theorem C23_partial_complete :
  forall (n : nat) (a : Z -> bool) (sc : bool) (cs : list clause),
    in_range n cs = true -> holds_all a cs = true ->
    exists m, fsat m (encode n sc cs) = true.
Proof. exact partial_complete_final. Qed.
Print Assumptions C23_partial_complete.

(* ---- 3. Border.update: successive solutions are pairwise mutually exclusive cubes ... *)
Theorem C23_cubes_disjoint :
  forall solver (g : dag) (ads : list clause) (weighted : Z -> bool) (w : Z -> Q * Q) (q : Z),
    weights_on_atoms g weighted -> solver_sound_c solver ->
    0 < Z.abs q <= Z.of_nat (length g) ->
    forall b, reach solver g ads weighted w q b -> pairwise exclusive (b_cubes b).
Proof. exact cubes_disjoint_final. Qed.
Print Assumptions C23_cubes_disjoint.

(* ... each of which entails the query in every total model of the CNF (ADs included) ... *)
Theorem C23_cubes_entail :
  forall solver (g : dag) (ads : list clause) (weighted : Z -> bool) (w : Z -> Q * Q) (q : Z),
    wf_dag g = true -> weights_on_atoms g weighted -> solver_sound_c solver ->
    0 < Z.abs q <= Z.of_nat (length g) ->
    forall b, reach solver g ads weighted w q b ->
      Forall (entails (completion g ++ ads) q) (b_cubes b).
Proof. exact cubes_entail_final. Qed.
Print Assumptions C23_cubes_entail.

(* ... mention every variable at most once and only atom nodes ... *)
Theorem C23_cubes_wellformed :
  forall solver (g : dag) (ads : list clause) (weighted : Z -> bool) (w : Z -> Q * Q) (q : Z),
    weights_on_atoms g weighted -> solver_sound_c solver ->
    0 < Z.abs q <= Z.of_nat (length g) ->
    forall b, reach solver g ads weighted w q b -> Forall (cube_good g) (b_cubes b).
Proof. exact cubes_good_final. Qed.
Print Assumptions C23_cubes_wellformed.

(* ... and `value` is the sum of the cubes' literal-weight products. *)
Theorem C23_value_is_cube_sum :
  forall solver (g : dag) (ads : list clause) (weighted : Z -> bool) (w : Z -> Q * Q) (q : Z),
    solver_sound_c solver ->
    forall b, reach solver g ads weighted w q b ->
      (b_value b == sumQ (map (cube_weight w) (b_cubes b)))%Q.
Proof. exact value_sum_final. Qed.
Print Assumptions C23_value_is_cube_sum.

(* ---- 4. The weight lemma (programs without annotated disjunctions): with normalised weights
   on atom nodes and unit weights on derived nodes, a cube's product of weights is the
   weighted count of the total models of the completion that extend it. *)
Theorem C23_cube_weight :
  forall (g : dag) (w : Z -> Q * Q),
    wf_dag g = true -> weights_normal g w ->
    forall c, cube_good g c ->
      (cube_weight w c == wmc w (length g) (fun a => holds_all a (completion g ++ []) && cube_sat a c))%Q.
Proof. exact cube_weight_is_wmc_adfree. Qed.
Print Assumptions C23_cube_weight.

(* ---- 5. Bounds, programs without annotated disjunctions (no hypothesis left but the
   solver contract and well-formedness of the inputs). *)
Theorem C23_lower :
  forall solver (g : dag) (weighted : Z -> bool) (w : Z -> Q * Q) (q : Z),
    wf_dag g = true -> weights_on_atoms g weighted -> weights_normal g w -> nonneg w ->
    solver_sound_c solver -> 0 < Z.abs q <= Z.of_nat (length g) ->
    forall b, reach solver g [] weighted w q b ->
      (b_value b <= prob w (length g) (completion g) q)%Q.
Proof. exact lower_adfree. Qed.
Print Assumptions C23_lower.

Theorem C23_upper :
  forall solver (g : dag) (weighted : Z -> bool) (w : Z -> Q * Q) (q : Z),
    wf_dag g = true -> weights_on_atoms g weighted -> weights_normal g w -> nonneg w ->
    solver_sound_c solver -> 0 < Z.abs q <= Z.of_nat (length g) ->
    forall b, reach solver g [] weighted w (- q) b ->
      (prob w (length g) (completion g) q <= 1 - b_value b)%Q.
Proof. exact upper_adfree. Qed.
Print Assumptions C23_upper.

Theorem C23_complete_exact :
  forall solver (g : dag) (weighted : Z -> bool) (w : Z -> Q * Q) (q : Z),
    wf_dag g = true -> weights_on_atoms g weighted -> weights_normal g w ->
    solver_sound_c solver -> 0 < Z.abs q <= Z.of_nat (length g) -> solver_complete_c solver ->
    forall b, reach solver g [] weighted w q b -> b_impr b = None ->
      (b_value b == prob w (length g) (completion g) q)%Q.
Proof. exact exact_adfree. Qed.
Print Assumptions C23_complete_exact.

(* whatever the loop returns (any fuel, lower_only or not, any convergence threshold) is sound *)
Theorem C23_evaluate_sound :
  forall solver (g : dag) (weighted : Z -> bool) (w : Z -> Q * Q) (q : Z),
    wf_dag g = true -> weights_on_atoms g weighted -> weights_normal g w -> nonneg w ->
    solver_sound_c solver -> 0 < Z.abs q <= Z.of_nat (length g) -> solver_complete_c solver ->
    forall (lower_only : bool) (conv : Q) (fuel : nat) (r : result) (lb ub : border),
      evaluate solver (length g) weighted w lower_only conv fuel (completion g) q = (r, lb, ub) ->
      match r with
      | Value v => (v == prob w (length g) (completion g) q)%Q
      | Interval lo hi | OutOfFuel lo hi =>
          (lo <= prob w (length g) (completion g) q /\ prob w (length g) (completion g) q <= hi)%Q
      end.
Proof. exact evaluate_adfree. Qed.
Print Assumptions C23_evaluate_sound.

(* explain mode (= lower_only): when a single value is returned, the probabilities of the listed
   proofs sum to P(q) and to the returned value *)
Theorem C23_explain_sum :
  forall solver (g : dag) (weighted : Z -> bool) (w : Z -> Q * Q) (q : Z),
    wf_dag g = true -> weights_on_atoms g weighted -> weights_normal g w -> nonneg w ->
    solver_sound_c solver -> 0 < Z.abs q <= Z.of_nat (length g) -> solver_complete_c solver ->
    forall (conv : Q) (fuel : nat) (v : Q) (lb ub : border),
      evaluate solver (length g) weighted w true conv fuel (completion g) q = (Value v, lb, ub) ->
      (sumQ (explain_probs w lb) == prob w (length g) (completion g) q)%Q /\
      (v == sumQ (explain_probs w lb))%Q.
Proof. exact explain_adfree. Qed.
Print Assumptions C23_explain_sum.

(* ---- 6. Programs WITH annotated disjunctions, conditional form (kept): arbitrary constraint
   clauses `ads`, under the two counting hypotheses (H1) weight lemma for ALL good cubes and (H2)
   total weight 1.  NOTE: for real AD weights (p_i, 1) (H1) is false for cubes that mention a
   group only negatively; section 7 below proves what actually holds — (H1) for the AD-saturated
   cubes, which are the only ones k-best can produce — and removes both hypotheses. *)
Theorem C23_evaluate_sound_with_ads_partial :
  forall solver (g : dag) (ads : list clause) (weighted : Z -> bool) (w : Z -> Q * Q) (q : Z),
    wf_dag g = true -> weights_on_atoms g weighted ->
    in_range (length g) (completion g ++ ads) = true ->
    solver_sound_c solver -> solver_complete_c solver -> nonneg w ->
    0 < Z.abs q <= Z.of_nat (length g) ->
    cube_weight_is_wmc g ads w ->                                                     (* H1 *)
    (wmc w (length g) (fun a => holds_all a (completion g ++ ads)) == 1)%Q ->          (* H2 *)
    forall (lower_only : bool) (conv : Q) (fuel : nat) (r : result) (lb ub : border),
      evaluate solver (length g) weighted w lower_only conv fuel (completion g ++ ads) q = (r, lb, ub) ->
      match r with
      | Value v => (v == prob w (length g) (completion g ++ ads) q)%Q
      | Interval lo hi | OutOfFuel lo hi =>
          (lo <= prob w (length g) (completion g ++ ads) q /\ prob w (length g) (completion g ++ ads) q <= hi)%Q
      end.
Proof. exact evaluate_ads. Qed.
Print Assumptions C23_evaluate_sound_with_ads_partial.

Theorem C23_explain_sum_with_ads_partial :
  forall solver (g : dag) (ads : list clause) (weighted : Z -> bool) (w : Z -> Q * Q) (q : Z),
    wf_dag g = true -> weights_on_atoms g weighted ->
    in_range (length g) (completion g ++ ads) = true ->
    solver_sound_c solver -> solver_complete_c solver -> nonneg w ->
    0 < Z.abs q <= Z.of_nat (length g) ->
    cube_weight_is_wmc g ads w ->                                                     (* H1 *)
    (wmc w (length g) (fun a => holds_all a (completion g ++ ads)) == 1)%Q ->          (* H2 *)
    forall (conv : Q) (fuel : nat) (v : Q) (lb ub : border),
      evaluate solver (length g) weighted w true conv fuel (completion g ++ ads) q = (Value v, lb, ub) ->
      (sumQ (explain_probs w lb) == prob w (length g) (completion g ++ ads) q)%Q /\
      (v == sumQ (explain_probs w lb))%Q.
Proof. exact explain_ads. Qed.
Print Assumptions C23_explain_sum_with_ads_partial.

(* ---- 7. Programs WITH annotated disjunctions, no counting hypothesis left.
   `ad_clauses groups` (ModelAD.v) = the clauses ConstraintAD.as_clauses emits per group
   (heads ++ [extra node]): pairwise exclusion + pick one, all added with force=False.
   `ad_wfb g w groups` (a boolean, evaluated by the harness on every real program of the tie):
   members are atom nodes with negative weight 1 and positive weights in [0,1] summing to 1
   (ConstraintAD.update_weights), groups duplicate-free and pairwise disjoint, atoms outside the
   groups have pos+neg = 1, derived nodes (1,1).
   `ad_saturated groups c`: for every group, if the cube c mentions a member at all it contains a
   positive member, and it contains at most one positive member. *)

(* every k-best solution is AD-saturated: the smart-constraint indicator clauses enforce it *)
Theorem C23_cubes_ad_saturated :
  forall solver (g : dag) (groups : list (list Z)) (weighted : Z -> bool) (w : Z -> Q * Q) (q : Z),
    weights_on_atoms g weighted -> ad_wfb g w groups = true -> solver_sound_c solver ->
    forall b, reach solver g (ad_clauses groups) weighted w q b ->
      Forall (ad_saturated groups) (b_cubes b).
Proof. exact cubes_saturated_final. Qed.
Print Assumptions C23_cubes_ad_saturated.

(* (H1) the weight lemma with the exactly-one clauses present *)
Theorem C23_cube_weight_with_ads :
  forall (g : dag) (w : Z -> Q * Q) (groups : list (list Z)),
    wf_dag g = true -> ad_wfb g w groups = true ->
    forall c, cube_good g c -> ad_saturated groups c ->
      (cube_weight w c
       == wmc w (length g) (fun a => holds_all a (completion g ++ ad_clauses groups) && cube_sat a c))%Q.
Proof. exact cube_weight_is_wmc_ads. Qed.
Print Assumptions C23_cube_weight_with_ads.

(* (H2) total weight of the models of completion + AD clauses is 1 *)
Theorem C23_total_weight_with_ads :
  forall (g : dag) (w : Z -> Q * Q) (groups : list (list Z)),
    wf_dag g = true -> ad_wfb g w groups = true ->
    (wmc w (length g) (fun a => holds_all a (completion g ++ ad_clauses groups)) == 1)%Q.
Proof. exact total_weight_one_ads. Qed.
Print Assumptions C23_total_weight_with_ads.

Theorem C23_evaluate_sound_with_ads :
  forall solver (g : dag) (groups : list (list Z)) (weighted : Z -> bool) (w : Z -> Q * Q) (q : Z),
    wf_dag g = true -> weights_on_atoms g weighted -> ad_wfb g w groups = true ->
    solver_sound_c solver -> solver_complete_c solver -> nonneg w ->
    0 < Z.abs q <= Z.of_nat (length g) ->
    forall (lower_only : bool) (conv : Q) (fuel : nat) (r : result) (lb ub : border),
      evaluate solver (length g) weighted w lower_only conv fuel (completion g ++ ad_clauses groups) q = (r, lb, ub) ->
      match r with
      | Value v => (v == prob w (length g) (completion g ++ ad_clauses groups) q)%Q
      | Interval lo hi | OutOfFuel lo hi =>
          (lo <= prob w (length g) (completion g ++ ad_clauses groups) q /\
           prob w (length g) (completion g ++ ad_clauses groups) q <= hi)%Q
      end.
Proof. exact evaluate_ads_full. Qed.
Print Assumptions C23_evaluate_sound_with_ads.

Theorem C23_explain_sum_with_ads :
  forall solver (g : dag) (groups : list (list Z)) (weighted : Z -> bool) (w : Z -> Q * Q) (q : Z),
    wf_dag g = true -> weights_on_atoms g weighted -> ad_wfb g w groups = true ->
    solver_sound_c solver -> solver_complete_c solver -> nonneg w ->
    0 < Z.abs q <= Z.of_nat (length g) ->
    forall (conv : Q) (fuel : nat) (v : Q) (lb ub : border),
      evaluate solver (length g) weighted w true conv fuel (completion g ++ ad_clauses groups) q = (Value v, lb, ub) ->
      (sumQ (explain_probs w lb) == prob w (length g) (completion g ++ ad_clauses groups) q)%Q /\
      (v == sumQ (explain_probs w lb))%Q.
Proof. exact explain_ads_full. Qed.
Print Assumptions C23_explain_sum_with_ads.

(* ---- non-vacuity with an AD: 0.3::a; 0.5::b.  0.6::f.  q :- a, f.
   nodes 1 = a, 2 = b, 3 = extra node of the AD (weight 1 - 0.8), 4 = f, 5 = q = conj(1,4) *)
Definition g1 : dag := [NAtom; NAtom; NAtom; NAtom; NConj [1; 4]].
Definition w1 : Z -> Q * Q := fun v =>
  match v with 1 => (3 # 10, 1)%Q | 2 => (1 # 2, 1)%Q | 3 => (1 # 5, 1)%Q | 4 => (6 # 10, 4 # 10)%Q | _ => (1%Q, 1%Q) end.
Definition wt1 : Z -> bool := fun v => match v with 1 | 2 | 3 | 4 => true | _ => false end.
(* a true, b and the extra node certainly false (forced by the indicator clauses), f true, q true *)
Definition sol1 : list Z := [1; 2; -3; -4; -5; -6; 7; 8; 9; 10; 11; 12; 13; 14].

Example C23_ex_ad_wf :
  wf_dag g1 = true /\ ad_wfb g1 w1 [[1; 2; 3]] = true /\
  ad_clauses [[1; 2; 3]] = [Constr false [-1; -2]; Constr false [-1; -3]; Constr false [-2; -3]; Constr false [1; 2; 3]] /\
  Qeq_bool (prob w1 5 (completion g1 ++ ad_clauses [[1; 2; 3]]) 5) (18 # 100) = true /\
  Qeq_bool (wmc w1 5 (fun a => holds_all a (completion g1 ++ ad_clauses [[1; 2; 3]]))) 1 = true.
Proof. vm_compute. repeat split; reflexivity. Qed.

Example C23_ex_ad_border :
  consistentb sol1 = true /\
  all_sat sol1 (encode 5 true ((completion g1 ++ ad_clauses [[1; 2; 3]]) ++ [Constr true [5]])) = true /\
  let b1 := border_update (scripted (Some sol1)) 5 wt1 w1 (border_init (completion g1 ++ ad_clauses [[1; 2; 3]]) 5) in
  b_cubes b1 = [[1; -2; -3; 4]] /\ Qeq_bool (b_value b1) (18 # 100) = true.
Proof. vm_compute. repeat split; reflexivity. Qed.

(* why (H1) cannot hold for every good cube with AD weights: the cube [-a] has weight 1 but only
   0.7 of the models extend it; it is not AD-saturated *)
Example C23_ex_unsaturated_cube :
  Qeq_bool (cube_weight w1 [-1]) 1 = true /\
  Qeq_bool (wmc w1 5 (fun a => holds_all a (completion g1 ++ ad_clauses [[1; 2; 3]]) && cube_sat a [-1])) (7 # 10) = true.
Proof. vm_compute. repeat split; reflexivity. Qed.

(* ---- non-vacuity: q :- a, b. with 0.3::a, 0.4::b  (nodes 1, 2 atoms, 3 = conj) *)
Definition g0 : dag := [NAtom; NAtom; NConj [1; 2]].
Definition w0 : Z -> Q * Q := fun v => match v with 1 => (3 # 10, 7 # 10)%Q | 2 => (4 # 10, 6 # 10)%Q | _ => (1%Q, 1%Q) end.
Definition wt0 : Z -> bool := fun v => match v with 1 | 2 => true | _ => false end.
Definition sol0 : list Z := [1; 2; 3; 4; 5; 6].

Example C23_ex_model :
  wf_dag g0 = true /\ consistentb sol0 = true /\
  all_sat sol0 (encode 3 true (completion g0 ++ [Constr true [3]])) = true /\
  from_partial wt0 sol0 = [1; 2].
Proof. vm_compute. repeat split; reflexivity. Qed.

Example C23_ex_prob : (prob w0 3 (completion g0) 3 == 12 # 100)%Q.
Proof. vm_compute. reflexivity. Qed.

(* one update with that answer, then `None`: value 0.12 = P(q), complete *)
Example C23_ex_border :
  let b1 := border_update (scripted (Some sol0)) 3 wt0 w0 (border_init (completion g0) 3) in
  let b2 := border_update (scripted None) 3 wt0 w0 b1 in
  b_cubes b2 = [[1; 2]] /\ is_complete b2 = true /\ Qeq_bool (b_value b2) (12 # 100) = true.
Proof. vm_compute. repeat split; reflexivity. Qed.

(* why (1) is not stated as "every total extension satisfies the CNF": q :- a. with everything
   unknown is a model of the encoding, its cube is empty, and a=true,q=false extends it *)
Example C23_literal_reading_fails :
  let g := [NAtom; NConj [1]] in
  let sol := [1; -2; 3; -4] in
  consistentb sol = true /\ all_sat sol (encode 2 true (completion g)) = true /\
  from_partial (fun v => v =? 1) sol = [] /\
  holds_all (fun v => v =? 1) (completion g) = false.
Proof. vm_compute. repeat split; reflexivity. Qed.
