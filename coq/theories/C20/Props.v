(* C20 — MPE returns a most probable world consistent with the evidence.
   Only statements, closed by `exact`. *)
From Coq Require Import QArith ZArith List Bool NArith.
From PL.C20 Require Import ModelMPE ProofsMaxSat ProofsSemiring.
Import ListNotations.
Local Close Scope Q_scope.

(* ------------------------------------------------------------------ MaxSAT mode *)

(* Weighted partial MaxSAT in general: when the top weight exceeds the sum of
   the (non-negative) soft weights, every assignment that is at least as cheap
   as some assignment satisfying the hard clauses satisfies them too. *)
Theorem C20_top_weight_dominates :
  forall (soft : list wclause) (hard : list clause) (top : Z) (A B : Z -> bool),
    (forall wc, In wc soft -> (0 <= fst wc)%Z) ->
    (weight_sum soft < top)%Z ->
    all_sat B hard = true ->
    (cost A (soft ++ map (fun c => (top, c)) hard) <= cost B (soft ++ map (fun c => (top, c)) hard))%Z ->
    all_sat A hard = true.
Proof. exact optimal_satisfies_hard. Qed.
Print Assumptions C20_top_weight_dominates.

(* the encoding of _contents(weighted=int): w_max = int(-w_sum * 10000) + 1
   exceeds the sum of all soft weights int(max(-10000, w) * 10000) *)
Theorem C20_encoding_top_exceeds_soft :
  forall lw a, weights_nonpos lw -> (weight_sum (soft_clauses a lw) < top_weight lw)%Z.
Proof. exact encode_top_dominates. Qed.
Print Assumptions C20_encoding_top_exceeds_soft.

(* the cost of the soft unit clauses is the quantised -ln P of the assignment *)
Theorem C20_soft_cost_is_quantised_logprob :
  forall A lw a, (0 < a)%Z -> weights_nonpos lw -> cost A (soft_clauses a lw) = qcost A a lw.
Proof. exact cost_soft_clauses. Qed.
Print Assumptions C20_soft_cost_is_quantised_logprob.

(* An assignment A that is optimal for the encoding (at least as cheap as every
   other assignment, in particular as B) satisfies the evidence / hard clauses
   and its log-probability is within n * 1e-4 of that of ANY assignment B that
   satisfies them (n = number of weighted atoms; weights in [e^-10000, 1]). *)
Theorem C20_maxsat_within_quant :
  forall lw hard (A B : Z -> bool),
    weights_in_range lw ->
    all_sat B hard = true ->
    (cost A (snd (encode lw hard)) <= cost B (snd (encode lw hard)))%Z ->
    all_sat A hard = true /\
    (logprob B 1 lw - inject_Z (Z.of_nat (length lw)) / (10000 # 1) <= logprob A 1 lw)%Q.
Proof. exact encode_optimal_within_quant. Qed.
Print Assumptions C20_maxsat_within_quant.

(* the clamp: ln 0 = -inf is encoded as max(-10000, w) * 10000, a soft clause of weight 10^8 *)
Theorem C20_log_zero_is_clamped :
  forall w, (w <= - (10000 # 1))%Q -> (- wt w)%Z = 100000000%Z.
Proof. exact wt_clamped. Qed.
Print Assumptions C20_log_zero_is_clamped.

(* ... so an assignment using a probability-0 literal costs strictly more than every assignment
   that uses none and has probability > e^-10000: the optimum never has probability 0 when a
   world of positive probability satisfies the hard clauses *)
Theorem C20_zero_probability_literal_loses :
  forall (A B : Z -> bool) lw,
    weights_nonpos lw ->
    uses_clamped A 1 lw = true -> uses_clamped B 1 lw = false ->
    (- (10000 # 1) < logprob B 1 lw)%Q ->
    (qcost B 1 lw < qcost A 1 lw)%Z.
Proof. exact clamped_loses. Qed.
Print Assumptions C20_zero_probability_literal_loses.

(* reported probability = product of the weights of the returned (complete) assignment *)
Theorem C20_reported_prob :
  forall result pw a,
    (forall x, (a <= x)%Z -> (x < a + Z.of_nat (length pw))%Z -> In x result \/ In (- x)%Z result) ->
    reported_prob result a pw = prob_of (assignment_of result) a pw.
Proof. exact reported_is_product. Qed.
Print Assumptions C20_reported_prob.

(* ------------------------------------------------------------------ semiring mode
   (non-negative weights; guard `decomposable` excludes the finding
   C20_semiring_nondecomposable_refuted) *)

(* max-times evaluation returns an upper bound of the weight of every
   satisfying assignment of the atoms of the formula ... *)
Theorem C20_semiring_upper_bound :
  forall (wpos wneg : N -> Q),
    (forall x, (0 <= wpos x)%Q) -> (forall x, (0 <= wneg x)%Q) ->
    forall f, decomposable f = true ->
    forall A, sat A f = true -> (prodA wpos wneg (vars f) A <= fst (fst (eval wpos wneg f)))%Q.
Proof. exact eval_upper_bound. Qed.
Print Assumptions C20_semiring_upper_bound.

(* ... that is attained by the returned set: it assigns every atom of the
   formula exactly once (hence is consistent), the value is the product of its
   weights, and every assignment agreeing with it satisfies the formula *)
Theorem C20_semiring_witness :
  forall (wpos wneg : N -> Q),
    (forall x, (0 <= wpos x)%Q) -> (forall x, (0 <= wneg x)%Q) ->
    forall f, decomposable f = true ->
    (0 < fst (fst (eval wpos wneg f)))%Q ->
    let W := snd (fst (eval wpos wneg f)) in
    consistent W = true /\
    NoDup (map lvar W) /\ (forall x, In x (map lvar W) <-> In x (vars f)) /\
    (fst (fst (eval wpos wneg f)) == wprod wpos wneg W)%Q /\
    forall A, agrees A W -> sat A f = true.
Proof.
  intros wpos wneg Hp Hn f Hd H0 W.
  destruct (eval_witness wpos wneg Hp Hn f Hd H0) as [(N1 & M1 & E1) S1].
  split; [now apply NoDup_vars_consistent|]. split; [exact N1|]. split; [exact M1|]. split; [exact E1|exact S1].
Qed.
Print Assumptions C20_semiring_witness.

(* the root is smoothed over the remaining weighted atoms with max(w, w') *)
Theorem C20_semiring_root_smoothing :
  forall (wpos wneg : N -> Q) universe f,
    (fst (evaluate wpos wneg universe f) ==
     fst (fst (eval wpos wneg f)) * prodmax wpos wneg (diffN universe (vars f)))%Q.
Proof.
  intros wpos wneg universe f. unfold evaluate.
  pose proof (eval_used wpos wneg f) as U. destruct (eval wpos wneg f) as [v u]. cbn [fst snd] in *. subst u.
  apply smooth_fst.
Qed.
Print Assumptions C20_semiring_root_smoothing.

(* ------------------------------------------------------------------ non-vacuity *)
Definition ex_w (x : N) : Q := match x with 1%N => (6 # 10)%Q | 2%N => (3 # 10)%Q | _ => (3 # 10)%Q end.
Definition ex_wn (x : N) : Q := (1 - ex_w x)%Q.
(* evidence (a \/ b) /\ c : decomposable *)
Definition ex_f : nnf := NAnd (NOr (NLit false 1) (NLit false 2)) (NLit false 3).
Example C20_example_semiring :
  decomposable ex_f = true /\
  snd (fst (eval ex_w ex_wn ex_f)) = [(false, 1%N); (true, 2%N); (false, 3%N)] /\
  (fst (fst (eval ex_w ex_wn ex_f)) == 126 # 1000)%Q.
Proof. vm_compute. repeat split; reflexivity. Qed.

(* 0.6::a. 0.3::b. hard clause (a \/ b): ln weights as rationals *)
Definition ex_lw : list (Q * Q) := [((-5108 # 10000)%Q, (-9163 # 10000)%Q); ((-12040 # 10000)%Q, (-3567 # 10000)%Q)].
Example C20_example_encoding :
  encode ex_lw [[1%Z; 2%Z]] =
  (29879%Z, [(5108%Z, [(-1)%Z]); (9163%Z, [1%Z]); (12040%Z, [(-2)%Z]); (3567%Z, [2%Z]); (29879%Z, [1%Z; 2%Z])]).
Proof. vm_compute. reflexivity. Qed.
