(* Max-times evaluation with witness sets (mpe_semiring) on decomposable NNFs. *)
From Coq Require Import QArith ZArith List Bool NArith Lia Lqa Permutation.
From PL.C20 Require Import ModelMPE.
Import ListNotations.
Local Close Scope Q_scope.

(* ------------------------------------------------------------------ lists as sets *)
Lemma memN_In : forall x l, memN x l = true <-> In x l.
Proof.
  intros x l. unfold memN. rewrite existsb_exists. split.
  - intros [y [Hy E]]. apply N.eqb_eq in E. now subst.
  - intros H. exists x. split; [exact H|apply N.eqb_refl].
Qed.

Lemma memN_false : forall x l, memN x l = false <-> ~ In x l.
Proof.
  intros x l. split.
  - intros H Hin. apply memN_In in Hin. congruence.
  - intros H. destruct (memN x l) eqn:E; [|reflexivity]. exfalso. apply H. now apply memN_In.
Qed.

Lemma In_diffN : forall x a b, In x (diffN a b) <-> In x a /\ ~ In x b.
Proof.
  intros x a b. unfold diffN. rewrite filter_In, negb_true_iff, memN_false. tauto.
Qed.

Lemma In_unionN : forall x a b, In x (unionN a b) <-> In x a \/ In x b.
Proof.
  intros x a b. unfold unionN. rewrite in_app_iff, filter_In, negb_true_iff, memN_false.
  destruct (in_dec N.eq_dec x a); tauto.
Qed.

Lemma NoDup_app_disj : forall (A : Type) (a b : list A),
    NoDup a -> NoDup b -> (forall x, In x a -> ~ In x b) -> NoDup (a ++ b).
Proof.
  intros A a b Ha Hb Hd. induction a as [|x a IH]; cbn [app]; [exact Hb|].
  inversion Ha; subst. constructor.
  - rewrite in_app_iff. intros [H|H]; [contradiction|]. apply (Hd x); [now left|exact H].
  - apply IH; [assumption|]. intros y Hy. apply Hd. now right.
Qed.

Lemma NoDup_filter' : forall (A : Type) (f : A -> bool) l, NoDup l -> NoDup (filter f l).
Proof.
  intros A f l H. induction H as [|x l Hx Hl IH]; cbn [filter]; [constructor|].
  destruct (f x); [|exact IH]. constructor; [|exact IH]. rewrite filter_In. tauto.
Qed.

Lemma NoDup_unionN : forall a b, NoDup a -> NoDup b -> NoDup (unionN a b).
Proof.
  intros a b Ha Hb. unfold unionN. apply NoDup_app_disj; [exact Ha|now apply NoDup_filter'|].
  intros x Hx. rewrite filter_In, negb_true_iff, memN_false. tauto.
Qed.

Lemma NoDup_diffN : forall a b, NoDup a -> NoDup (diffN a b).
Proof. intros. unfold diffN. now apply NoDup_filter'. Qed.

Lemma split_perm : forall all u, NoDup all -> NoDup u -> incl u all ->
    Permutation all (u ++ diffN all u).
Proof.
  intros all u Ha Hu Hi. apply NoDup_Permutation; [exact Ha| |].
  - apply NoDup_app_disj; [exact Hu|now apply NoDup_diffN|]. intros x Hx. rewrite In_diffN. tauto.
  - intros x. rewrite in_app_iff, In_diffN. split.
    + intros H. destruct (in_dec N.eq_dec x u); tauto.
    + intros [H|[H _]]; [now apply Hi|exact H].
Qed.

Lemma unionN_disjoint : forall a b, disjointN a b = true -> unionN a b = a ++ b.
Proof.
  intros a b H. unfold unionN. f_equal. unfold disjointN in H. rewrite forallb_forall in H.
  induction b as [|x b IH]; cbn [filter]; [reflexivity|].
  rewrite (H x (or_introl eq_refl)). f_equal. apply IH. intros y Hy. apply H. now right.
Qed.

Lemma disjointN_spec : forall a b, disjointN a b = true -> forall x, In x a -> ~ In x b.
Proof.
  intros a b H x Ha Hb. unfold disjointN in H. rewrite forallb_forall in H.
  specialize (H x Hb). rewrite negb_true_iff, memN_false in H. contradiction.
Qed.

(* ------------------------------------------------------------------ products *)
Definition prodf (f : N -> Q) (l : list N) : Q := fold_right (fun x acc => (f x * acc)%Q) 1%Q l.

Lemma prodf_app : forall f l1 l2, (prodf f (l1 ++ l2) == prodf f l1 * prodf f l2)%Q.
Proof.
  intros f l1 l2. induction l1 as [|x l1 IH]; unfold prodf; cbn [app fold_right].
  - ring.
  - fold (prodf f (l1 ++ l2)). fold (prodf f l1). fold (prodf f l2). rewrite IH. ring.
Qed.

Lemma prodf_perm : forall f l l', Permutation l l' -> (prodf f l == prodf f l')%Q.
Proof.
  intros f l l' H. induction H; unfold prodf; cbn [fold_right].
  - reflexivity.
  - fold (prodf f l). fold (prodf f l'). rewrite IHPermutation. reflexivity.
  - fold (prodf f l). ring.
  - fold (prodf f l). fold (prodf f l''). rewrite IHPermutation1. exact IHPermutation2.
Qed.

Lemma prodf_nonneg : forall f l, (forall x, 0 <= f x)%Q -> (0 <= prodf f l)%Q.
Proof.
  intros f l H. induction l as [|x l IH]; unfold prodf; cbn [fold_right]; [discriminate|].
  fold (prodf f l). apply Qmult_le_0_compat; [apply H|exact IH].
Qed.

Lemma Qmult_le_compat_both : forall a b c d : Q,
    (0 <= a)%Q -> (a <= b)%Q -> (0 <= c)%Q -> (c <= d)%Q -> (a * c <= b * d)%Q.
Proof.
  intros a b c d Ha Hab Hc Hcd. apply Qle_trans with (b * c)%Q.
  - apply Qmult_le_compat_r; assumption.
  - rewrite (Qmult_comm b c), (Qmult_comm b d). apply Qmult_le_compat_r; [assumption|].
    now apply Qle_trans with a.
Qed.

Lemma prodf_le : forall f g l, (forall x, 0 <= f x)%Q -> (forall x, f x <= g x)%Q -> (prodf f l <= prodf g l)%Q.
Proof.
  intros f g l Hf Hfg. induction l as [|x l IH]; unfold prodf; cbn [fold_right]; [apply Qle_refl|].
  fold (prodf f l). fold (prodf g l).
  apply Qmult_le_compat_both; [apply Hf|apply Hfg|now apply prodf_nonneg|exact IH].
Qed.

Lemma Qlt_bool_true : forall a b, Qlt_bool a b = true -> (a < b)%Q.
Proof.
  intros a b H. unfold Qlt_bool in H. apply negb_true_iff in H. apply Qnot_le_lt. intro L.
  apply Qle_bool_iff in L. congruence.
Qed.

Lemma Qlt_bool_false : forall a b, Qlt_bool a b = false -> (b <= a)%Q.
Proof.
  intros a b H. unfold Qlt_bool in H. apply negb_false_iff in H. now apply Qle_bool_iff.
Qed.

Lemma pos_of_mult : forall a b : Q, (0 <= a)%Q -> (0 <= b)%Q -> (0 < a * b)%Q -> (0 < a)%Q /\ (0 < b)%Q.
Proof.
  intros a b Ha Hb H. split.
  - destruct (Qlt_le_dec 0 a) as [L|L]; [exact L|exfalso].
    assert (E : (a == 0)%Q) by (apply Qle_antisym; assumption). rewrite E in H. lra.
  - destruct (Qlt_le_dec 0 b) as [L|L]; [exact L|exfalso].
    assert (E : (b == 0)%Q) by (apply Qle_antisym; assumption). rewrite E in H. lra.
Qed.

Section Sem.
  Variable wpos wneg : N -> Q.
  Hypothesis Hpos : forall x, (0 <= wpos x)%Q.
  Hypothesis Hneg : forall x, (0 <= wneg x)%Q.

  Definition wA (A : N -> bool) (x : N) : Q := if A x then wpos x else wneg x.
  Definition mxv (x : N) : Q := fst (sr_plus (pos_value wpos x) (neg_value wneg x)).
  Definition prodA (l : list N) (A : N -> bool) : Q := prodf (wA A) l.
  Definition prodmax (l : list N) : Q := prodf mxv l.

  Lemma wA_nonneg : forall A x, (0 <= wA A x)%Q.
  Proof. intros A x. unfold wA. destruct (A x); auto. Qed.

  Lemma wA_le_mxv : forall A x, (wA A x <= mxv x)%Q.
  Proof.
    intros A x. unfold wA, mxv, sr_plus, pos_value, neg_value. cbn [fst].
    destruct (Qlt_bool (wpos x) (wneg x)) eqn:E; cbn [fst].
    - apply Qlt_bool_true in E. destruct (A x); [now apply Qlt_le_weak|apply Qle_refl].
    - apply Qlt_bool_false in E. destruct (A x); [apply Qle_refl|exact E].
  Qed.

  Lemma mxv_nonneg : forall x, (0 <= mxv x)%Q.
  Proof. intros x. apply Qle_trans with (wA (fun _ => true) x); [apply wA_nonneg|apply wA_le_mxv]. Qed.

  Lemma smooth_fst : forall l v, (fst (smooth wpos wneg v l) == fst v * prodmax l)%Q.
  Proof.
    induction l as [|x l IH]; intros v; unfold smooth, prodmax, prodf; cbn [fold_left fold_right].
    - ring.
    - fold (smooth wpos wneg (sr_times v (sr_plus (pos_value wpos x) (neg_value wneg x))) l).
      rewrite IH. unfold sr_times at 1. cbn [fst]. fold (mxv x). fold (prodf mxv l). fold (prodmax l). ring.
  Qed.

  Lemma sr_plus_ge_l : forall a b, (fst a <= fst (sr_plus a b))%Q.
  Proof.
    intros a b. unfold sr_plus. destruct (Qlt_bool (fst a) (fst b)) eqn:E.
    - apply Qlt_bool_true in E. now apply Qlt_le_weak.
    - apply Qle_refl.
  Qed.

  Lemma sr_plus_ge_r : forall a b, (fst b <= fst (sr_plus a b))%Q.
  Proof.
    intros a b. unfold sr_plus. destruct (Qlt_bool (fst a) (fst b)) eqn:E.
    - apply Qle_refl.
    - now apply Qlt_bool_false in E.
  Qed.

  Lemma eval_used : forall f, snd (eval wpos wneg f) = vars f.
  Proof.
    induction f as [| |neg x|a IHa b IHb|a IHa b IHb]; cbn [eval vars]; try reflexivity.
    - destruct neg; reflexivity.
    - destruct (eval wpos wneg a) as [va ua]. destruct (eval wpos wneg b) as [vb ub]. cbn [snd] in *. now subst.
    - destruct (eval wpos wneg a) as [va ua]. destruct (eval wpos wneg b) as [vb ub]. cbn [snd] in *. now subst.
  Qed.

  Lemma vars_NoDup : forall f, NoDup (vars f).
  Proof.
    induction f; cbn [vars]; try constructor; try (intros []); try constructor; try now apply NoDup_unionN.
  Qed.

  Lemma eval_nonneg : forall f, (0 <= fst (fst (eval wpos wneg f)))%Q.
  Proof.
    induction f as [| |neg x|a IHa b IHb|a IHa b IHb]; cbn [eval].
    - cbn. discriminate.
    - cbn. discriminate.
    - destruct neg; cbn [fst pos_value neg_value]; auto.
    - destruct (eval wpos wneg a) as [va ua]. destruct (eval wpos wneg b) as [vb ub]. cbn [fst sr_times] in *.
      now apply Qmult_le_0_compat.
    - destruct (eval wpos wneg a) as [va ua]. destruct (eval wpos wneg b) as [vb ub]. cbn [fst] in *.
      apply Qle_trans with (fst (smooth wpos wneg va (diffN (unionN ua ub) ua))); [|apply sr_plus_ge_l].
      rewrite smooth_fst. apply Qmult_le_0_compat; [exact IHa|]. apply prodf_nonneg. apply mxv_nonneg.
  Qed.

  (* ---------------------------------------------------------------- the value is an upper bound *)
  Lemma eval_upper_bound : forall f, decomposable f = true ->
      forall A, sat A f = true -> (prodA (vars f) A <= fst (fst (eval wpos wneg f)))%Q.
  Proof.
    induction f as [| |neg x|a IHa b IHb|a IHa b IHb]; intros Hd A Hs; cbn [eval vars sat decomposable] in *.
    - cbn. discriminate.
    - discriminate.
    - unfold prodA. cbn [prodf fold_right]. unfold wA.
      destruct neg; cbn [fst pos_value neg_value].
      + apply negb_true_iff in Hs. rewrite Hs. rewrite Qmult_1_r. apply Qle_refl.
      + rewrite Hs. rewrite Qmult_1_r. apply Qle_refl.
    - apply andb_true_iff in Hd. destruct Hd as [Hd Hdis]. apply andb_true_iff in Hd. destruct Hd as [Hda Hdb].
      apply andb_true_iff in Hs. destruct Hs as [Hsa Hsb].
      specialize (IHa Hda A Hsa). specialize (IHb Hdb A Hsb).
      pose proof (eval_nonneg a) as Na. pose proof (eval_nonneg b) as Nb.
      destruct (eval wpos wneg a) as [va ua]. destruct (eval wpos wneg b) as [vb ub]. cbn [fst sr_times] in *.
      rewrite (unionN_disjoint _ _ Hdis). unfold prodA in *. rewrite prodf_app.
      apply Qmult_le_compat_both; try assumption; apply prodf_nonneg; apply wA_nonneg.
    - apply andb_true_iff in Hd. destruct Hd as [Hda Hdb].
      pose proof (eval_nonneg a) as Na. pose proof (eval_nonneg b) as Nb.
      pose proof (eval_used a) as Ua. pose proof (eval_used b) as Ub.
      destruct (eval wpos wneg a) as [va ua]. destruct (eval wpos wneg b) as [vb ub]. cbn [fst snd] in *. subst ua ub.
      set (all := unionN (vars a) (vars b)).
      assert (Hall : NoDup all) by (apply NoDup_unionN; apply vars_NoDup).
      apply orb_true_iff in Hs. destruct Hs as [Hs|Hs].
      + specialize (IHa Hda A Hs).
        apply Qle_trans with (fst (smooth wpos wneg va (diffN all (vars a)))); [|apply sr_plus_ge_l].
        rewrite smooth_fst. unfold prodA in *.
        rewrite (prodf_perm _ _ _ (split_perm all (vars a) Hall (vars_NoDup a)
                                     (fun x H => proj2 (In_unionN x (vars a) (vars b)) (or_introl H)))).
        rewrite prodf_app. apply Qmult_le_compat_both.
        * apply prodf_nonneg. apply wA_nonneg.
        * exact IHa.
        * apply prodf_nonneg. apply wA_nonneg.
        * apply prodf_le; [apply wA_nonneg|apply wA_le_mxv].
      + specialize (IHb Hdb A Hs).
        apply Qle_trans with (fst (smooth wpos wneg vb (diffN all (vars b)))); [|apply sr_plus_ge_r].
        rewrite smooth_fst. unfold prodA in *.
        rewrite (prodf_perm _ _ _ (split_perm all (vars b) Hall (vars_NoDup b)
                                     (fun x H => proj2 (In_unionN x (vars a) (vars b)) (or_intror H)))).
        rewrite prodf_app. apply Qmult_le_compat_both.
        * apply prodf_nonneg. apply wA_nonneg.
        * exact IHb.
        * apply prodf_nonneg. apply wA_nonneg.
        * apply prodf_le; [apply wA_nonneg|apply wA_le_mxv].
  Qed.

  (* ---------------------------------------------------------------- the witness *)
  Definition agrees (A : N -> bool) (W : list lit) : Prop := forall l, In l W -> A (snd l) = negb (fst l).

  Definition winv (S : list N) (v : value) : Prop :=
    NoDup (map lvar (snd v)) /\ (forall x, In x (map lvar (snd v)) <-> In x S) /\
    (fst v == wprod wpos wneg (snd v))%Q.

  Lemma wprod_app : forall W1 W2, (wprod wpos wneg (W1 ++ W2) == wprod wpos wneg W1 * wprod wpos wneg W2)%Q.
  Proof.
    intros W1 W2. induction W1 as [|l W1 IH]; unfold wprod; cbn [app fold_right].
    - ring.
    - fold (wprod wpos wneg (W1 ++ W2)). fold (wprod wpos wneg W1). fold (wprod wpos wneg W2). rewrite IH. ring.
  Qed.

  Lemma memL_var : forall l W, memL l W = true -> In (lvar l) (map lvar W).
  Proof.
    intros l W H. unfold memL in H. apply existsb_exists in H. destruct H as [l' [Hin E]].
    unfold lit_eqb in E. apply andb_true_iff in E. destruct E as [_ E]. apply N.eqb_eq in E.
    apply in_map_iff. exists l'. split; [unfold lvar; now rewrite E|exact Hin].
  Qed.

  Lemma unionL_disjoint : forall W1 W2,
      (forall l, In l W2 -> ~ In (lvar l) (map lvar W1)) -> unionL W1 W2 = W1 ++ W2.
  Proof.
    intros W1 W2 H. unfold unionL. f_equal. induction W2 as [|l W2 IH]; cbn [filter]; [reflexivity|].
    destruct (memL l W1) eqn:E.
    - exfalso. apply (H l (or_introl eq_refl)). now apply memL_var.
    - cbn [negb]. f_equal. apply IH. intros l' Hl'. apply H. now right.
  Qed.

  Lemma times_winv : forall S1 S2 v1 v2,
      winv S1 v1 -> winv S2 v2 -> (forall x, In x S1 -> ~ In x S2) ->
      winv (S1 ++ S2) (sr_times v1 v2) /\ snd (sr_times v1 v2) = snd v1 ++ snd v2.
  Proof.
    intros S1 S2 [p1 W1] [p2 W2] (N1 & M1 & E1) (N2 & M2 & E2) Hd. cbn [fst snd] in *.
    assert (HU : unionL W1 W2 = W1 ++ W2).
    { apply unionL_disjoint. intros l Hl Hc. apply M1 in Hc. apply (Hd _ Hc). apply M2.
      apply in_map_iff. exists l. split; [reflexivity|exact Hl]. }
    unfold sr_times. cbn [fst snd]. rewrite HU. split; [|reflexivity].
    split; [|split]; cbn [fst snd].
    - rewrite map_app. apply NoDup_app_disj; [exact N1|exact N2|]. intros x H1 H2.
      apply M1 in H1. apply M2 in H2. now apply (Hd x).
    - intros x. rewrite map_app, !in_app_iff, M1, M2. tauto.
    - rewrite wprod_app, E1, E2. reflexivity.
  Qed.

  Lemma plus_lit_winv : forall x,
      exists b, sr_plus (pos_value wpos x) (neg_value wneg x) = (wlit wpos wneg (b, x), [(b, x)]).
  Proof.
    intros x. unfold sr_plus, pos_value, neg_value. cbn [fst].
    destruct (Qlt_bool (wpos x) (wneg x)); [exists true|exists false]; reflexivity.
  Qed.

  Lemma smooth_winv : forall l S v,
      winv S v -> NoDup l -> (forall x, In x l -> ~ In x S) ->
      winv (S ++ l) (smooth wpos wneg v l) /\ incl (snd v) (snd (smooth wpos wneg v l)).
  Proof.
    induction l as [|x l IH]; intros S v Hv Hl Hd; cbn [smooth fold_left].
    - rewrite app_nil_r. split; [exact Hv|apply incl_refl].
    - fold (smooth wpos wneg (sr_times v (sr_plus (pos_value wpos x) (neg_value wneg x))) l).
      destruct (plus_lit_winv x) as [b Eb]. rewrite Eb.
      assert (Hx : winv [x] (wlit wpos wneg (b, x), [(b, x)])).
      { split; [|split]; cbn [fst snd map lvar].
        - constructor; [intros []|constructor].
        - intros y. reflexivity.
        - unfold wprod. cbn [fold_right]. ring. }
      inversion Hl as [|x' l' Hxl Hl']; subst.
      destruct (times_winv S [x] v _ Hv Hx) as [Ht Es].
      { intros y Hy [E|[]]. subst y. apply (Hd x); [now left|exact Hy]. }
      destruct (IH (S ++ [x]) _ Ht Hl') as [I1 I2].
      { intros y Hy Hc. apply in_app_or in Hc. destruct Hc as [Hc|[E|[]]].
        - apply (Hd y); [now right|exact Hc].
        - subst y. contradiction. }
      split.
      + destruct I1 as (A1 & A2 & A3). split; [exact A1|split; [|exact A3]].
        intros y. rewrite A2. rewrite !in_app_iff. cbn [In]. tauto.
      + intros y Hy. apply I2. rewrite Es. apply in_or_app. now left.
  Qed.

  Lemma agrees_incl : forall A W W', incl W W' -> agrees A W' -> agrees A W.
  Proof. intros A W W' Hi Ha l Hl. apply Ha. now apply Hi. Qed.

  Lemma eval_witness : forall f, decomposable f = true ->
      (0 < fst (fst (eval wpos wneg f)))%Q ->
      winv (vars f) (fst (eval wpos wneg f)) /\
      forall A, agrees A (snd (fst (eval wpos wneg f))) -> sat A f = true.
  Proof.
    induction f as [| |neg x|a IHa b IHb|a IHa b IHb]; intros Hd Hp; cbn [eval vars sat decomposable] in *.
    - cbn [fst snd sr_one]. split; [|reflexivity]. split; [constructor|split]; cbn; [tauto|reflexivity].
    - cbn in Hp. discriminate.
    - destruct neg; unfold pos_value, neg_value in *; cbn [fst snd] in *.
      + split.
        * split; [|split]; cbn [fst snd map lvar].
          -- constructor; [intros []|constructor].
          -- intros y. reflexivity.
          -- unfold wprod, wlit. cbn [fold_right fst snd]. ring.
        * intros A Ha. pose proof (Ha (true, x) (or_introl eq_refl)) as E. cbn [fst snd] in E. rewrite E. reflexivity.
      + split.
        * split; [|split]; cbn [fst snd map lvar].
          -- constructor; [intros []|constructor].
          -- intros y. reflexivity.
          -- unfold wprod, wlit. cbn [fold_right fst snd]. ring.
        * intros A Ha. pose proof (Ha (false, x) (or_introl eq_refl)) as E. cbn [fst snd] in E. rewrite E. reflexivity.
    - apply andb_true_iff in Hd. destruct Hd as [Hd Hdis]. apply andb_true_iff in Hd. destruct Hd as [Hda Hdb].
      pose proof (eval_nonneg a) as Na. pose proof (eval_nonneg b) as Nb.
      destruct (eval wpos wneg a) as [va ua]. destruct (eval wpos wneg b) as [vb ub]. cbn [fst snd sr_times] in *.
      destruct (pos_of_mult _ _ Na Nb Hp) as [Pa Pb].
      destruct (IHa Hda Pa) as [Wa Sa]. destruct (IHb Hdb Pb) as [Wb Sb].
      destruct (times_winv (vars a) (vars b) va vb Wa Wb (disjointN_spec _ _ Hdis)) as [Ht Es].
      rewrite (unionN_disjoint _ _ Hdis). split; [exact Ht|].
      intros A Ha. unfold sr_times in Es. cbn [snd] in Es. rewrite Es in Ha.
      rewrite Sa, Sb; [reflexivity| |]; intros l Hl; apply Ha; apply in_or_app; tauto.
    - apply andb_true_iff in Hd. destruct Hd as [Hda Hdb].
      pose proof (eval_nonneg a) as Na. pose proof (eval_nonneg b) as Nb.
      pose proof (eval_used a) as Ua. pose proof (eval_used b) as Ub.
      destruct (eval wpos wneg a) as [va ua]. destruct (eval wpos wneg b) as [vb ub]. cbn [fst snd] in *. subst ua ub.
      set (all := unionN (vars a) (vars b)) in *.
      assert (Hall : NoDup all) by (apply NoDup_unionN; apply vars_NoDup).
      assert (Hmem : forall S, (forall x, In x S -> In x all) -> forall x, In x (S ++ diffN all S) <-> In x all).
      { intros S HS x. rewrite in_app_iff, In_diffN. split.
        - intros [H|[H _]]; [now apply HS|exact H].
        - intros H. destruct (in_dec N.eq_dec x S); tauto. }
      unfold sr_plus in *.
      destruct (Qlt_bool (fst (smooth wpos wneg va (diffN all (vars a)))) (fst (smooth wpos wneg vb (diffN all (vars b))))).
      + (* b is chosen *)
        assert (Pb : (0 < fst vb)%Q).
        { rewrite smooth_fst in Hp. apply (pos_of_mult _ _ Nb (prodf_nonneg _ _ mxv_nonneg) Hp). }
        destruct (IHb Hdb Pb) as [Wb Sb].
        destruct (smooth_winv (diffN all (vars b)) (vars b) vb Wb (NoDup_diffN _ _ Hall)) as [I1 I2].
        { intros x Hx. apply In_diffN in Hx. tauto. }
        split.
        * destruct I1 as (A1 & A2 & A3). split; [exact A1|split; [|exact A3]].
          intros x. rewrite A2. apply Hmem. intros y Hy. apply In_unionN. now right.
        * intros A Ha. rewrite (Sb A (agrees_incl _ _ _ I2 Ha)). apply orb_true_r.
      + assert (Pa : (0 < fst va)%Q).
        { rewrite smooth_fst in Hp. apply (pos_of_mult _ _ Na (prodf_nonneg _ _ mxv_nonneg) Hp). }
        destruct (IHa Hda Pa) as [Wa Sa].
        destruct (smooth_winv (diffN all (vars a)) (vars a) va Wa (NoDup_diffN _ _ Hall)) as [I1 I2].
        { intros x Hx. apply In_diffN in Hx. tauto. }
        split.
        * destruct I1 as (A1 & A2 & A3). split; [exact A1|split; [|exact A3]].
          intros x. rewrite A2. apply Hmem. intros y Hy. apply In_unionN. now left.
        * intros A Ha. rewrite (Sa A (agrees_incl _ _ _ I2 Ha)). reflexivity.
  Qed.

  (* no atom with both signs in a set whose variables are pairwise different *)
  Lemma NoDup_vars_consistent : forall W, NoDup (map lvar W) -> consistent W = true.
  Proof.
    induction W as [|l W IH]; intros H; cbn [consistent map] in *; [reflexivity|].
    inversion H; subst. rewrite IH by assumption. rewrite andb_true_r. apply negb_true_iff.
    destruct (memL (negb (fst l), snd l) W) eqn:E; [|reflexivity].
    exfalso. apply memL_var in E. unfold lvar in E at 1. cbn [snd] in E. contradiction.
  Qed.
End Sem.
