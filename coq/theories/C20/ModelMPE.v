(* Hand models for problog/tasks/mpe.py:
   (1) SemiringMPEState (max-times with witness sets) evaluated by
       FormulaEvaluatorNSP over a LogicNNF (mpe_semiring);
   (2) the weighted MaxSAT encoding CNF._contents(weighted=int), non-partial
       branch, and the read-back of the solver's answer (mpe_maxsat).
   No proofs in this file. *)
From Coq Require Import QArith ZArith List Bool NArith.
Import ListNotations.
Local Close Scope Q_scope.

(* ------------------------------------------------------------------ (1) semiring mode *)
Definition lit := (bool * N)%type.            (* (negated?, atom key) *)
Definition lvar (l : lit) : N := snd l.
Definition lit_eqb (a b : lit) : bool := Bool.eqb (fst a) (fst b) && N.eqb (snd a) (snd b).
Definition value := (Q * list lit)%type.      (* (probability, set of literals) *)

Definition memN (x : N) (l : list N) : bool := existsb (N.eqb x) l.
Definition memL (x : lit) (l : list lit) : bool := existsb (lit_eqb x) l.
(* python set union / difference on duplicate-free lists *)
Definition unionN (a b : list N) : list N := a ++ filter (fun x => negb (memN x a)) b.
Definition diffN (a b : list N) : list N := filter (fun x => negb (memN x b)) a.
Definition unionL (a b : list lit) : list lit := a ++ filter (fun x => negb (memL x a)) b.

Definition Qlt_bool (a b : Q) : bool := negb (Qle_bool b a).

Definition sr_zero : value := (0%Q, []).
Definition sr_one : value := (1%Q, []).
(* plus: a if a[0] > b[0]; b if a[0] < b[0]; else (a[0], a[1]) *)
Definition sr_plus (a b : value) : value := if Qlt_bool (fst a) (fst b) then b else a.
(* times: (a[0] * b[0], a[1] | b[1]) *)
Definition sr_times (a b : value) : value := ((fst a * fst b)%Q, unionL (snd a) (snd b)).

Inductive nnf : Type :=
| NTrue | NFalse
| NLit (neg : bool) (x : N)
| NAnd (a b : nnf)
| NOr (a b : nnf).

Section Semiring.
  (* weights of the atoms: extract_weights gives (pos_value, neg_value) *)
  Variable wpos wneg : N -> Q.

  Definition pos_value (x : N) : value := (wpos x, [(false, x)]).
  Definition neg_value (x : N) : value := (wneg x, [(true, x)]).

  (* for nu in not_used: cp = times(cp, plus(weight(nu), weight(-nu))) *)
  Definition smooth (v : value) (vars : list N) : value :=
    fold_left (fun acc x => sr_times acc (sr_plus (pos_value x) (neg_value x))) vars v.

  (* FormulaEvaluatorNSP.get_weight / compute_weight: (weight, set of atoms used) *)
  Fixpoint eval (f : nnf) : value * list N :=
    match f with
    | NTrue => (sr_one, [])
    | NFalse => (sr_zero, [])
    | NLit false x => (pos_value x, [x])
    | NLit true x => (neg_value x, [x])
    | NAnd a b =>
        let (va, ua) := eval a in
        let (vb, ub) := eval b in
        (sr_times va vb, unionN ua ub)
    | NOr a b =>
        let (va, ua) := eval a in
        let (vb, ub) := eval b in
        let all := unionN ua ub in
        (sr_plus (smooth va (diffN all ua)) (smooth vb (diffN all ub)), all)
    end.

  (* FormulaEvaluatorNSP.evaluate: smooth the root over all weighted atoms *)
  Definition evaluate (universe : list N) (f : nnf) : value :=
    let (v, u) := eval f in smooth v (diffN universe u).

  Definition wlit (l : lit) : Q := if fst l then wneg (snd l) else wpos (snd l).
  Definition wprod (w : list lit) : Q := fold_right (fun l acc => (wlit l * acc)%Q) 1%Q w.
End Semiring.

(* Boolean meaning *)
Fixpoint sat (A : N -> bool) (f : nnf) : bool :=
  match f with
  | NTrue => true
  | NFalse => false
  | NLit neg x => if neg then negb (A x) else A x
  | NAnd a b => sat A a && sat A b
  | NOr a b => sat A a || sat A b
  end.

Fixpoint vars (f : nnf) : list N :=
  match f with
  | NTrue | NFalse => []
  | NLit _ x => [x]
  | NAnd a b | NOr a b => unionN (vars a) (vars b)
  end.

Definition disjointN (a b : list N) : bool := forallb (fun x => negb (memN x a)) b.
Fixpoint decomposable (f : nnf) : bool :=
  match f with
  | NAnd a b => decomposable a && decomposable b && disjointN (vars a) (vars b)
  | NOr a b => decomposable a && decomposable b
  | _ => true
  end.

(* a returned set is consistent when no atom occurs with both signs *)
Fixpoint consistent (w : list lit) : bool :=
  match w with
  | [] => true
  | l :: t => negb (memL (negb (fst l), snd l) t) && consistent t
  end.

(* ------------------------------------------------------------------ (2) MaxSAT mode
   log-weights are the floats ln p / ln (1-p) read as exact rationals.
   wt1 = lambda w: int(max(-10000, w) * 10000)   (int truncates toward zero) *)
Definition trunc (x : Q) : Z := Z.quot (Qnum x) (Zpos (Qden x)).
Definition wt (w : Q) : Z :=
  let m := if Qle_bool w (-10000 # 1) then (-10000 # 1)%Q else w in
  trunc (m * (10000 # 1))%Q.
(* SemiringLogProbability.is_one *)
Definition is_one (w : Q) : bool :=
  Qlt_bool (-1 # 1000000000000) w && Qlt_bool w (1 # 1000000000000).

(* The clamp: a literal of probability 0 has log-weight -inf; max(-10000, -inf) = -10000, so its soft
   clause costs 10000 * 10000 = 10^8 (NOT a hard clause).  Any rational <= -10000 stands for -inf. *)
Definition clamped_cost : Z := 100000000%Z.

Definition clause := list Z.
Definition wclause := (Z * clause)%type.

(* for a in 1..atomcount: [-wt(w_pos), -a] and [-wt(w_neg), a] unless is_one *)
Fixpoint soft_clauses (a : Z) (lw : list (Q * Q)) : list wclause :=
  match lw with
  | [] => []
  | (wp, wn) :: t =>
      (if is_one wp then [] else [((- wt wp)%Z, [(- a)%Z])]) ++
      (if is_one wn then [] else [((- wt wn)%Z, [a])]) ++
      soft_clauses (a + 1)%Z t
  end.

(* w_sum += max(w_pos, w_min) + max(w_neg, w_min);  w_max = int(-w_sum * w_mult) + 1 *)
Definition clampw (w : Q) : Q := if Qle_bool w (-10000 # 1) then (-10000 # 1)%Q else w.
Definition w_sum (lw : list (Q * Q)) : Q :=
  fold_left (fun acc pw => (acc + (clampw (fst pw) + clampw (snd pw)))%Q) lw 0%Q.
Definition top_weight (lw : list (Q * Q)) : Z := (trunc (- w_sum lw * (10000 # 1))%Q + 1)%Z.

Definition encode (lw : list (Q * Q)) (hard : list clause) : Z * list wclause :=
  let top := top_weight lw in
  (top, soft_clauses 1 lw ++ map (fun c => (top, c)) hard).

(* an assignment: variable (positive Z) -> bool *)
Definition lit_true (A : Z -> bool) (l : Z) : bool := if (0 <? l)%Z then A l else negb (A (- l)%Z).
Definition clause_sat (A : Z -> bool) (c : clause) : bool := existsb (lit_true A) c.
(* weighted MaxSAT cost: sum of the weights of the falsified clauses *)
Definition cost (A : Z -> bool) (cs : list wclause) : Z :=
  fold_right (fun wc acc => ((if clause_sat A (snd wc) then 0 else fst wc) + acc)%Z) 0%Z cs.
Definition all_sat (A : Z -> bool) (hard : list clause) : bool := forallb (clause_sat A) hard.

(* quantised and exact log-probability of an assignment over atoms a, a+1, ... *)
Fixpoint qcost (A : Z -> bool) (a : Z) (lw : list (Q * Q)) : Z :=
  match lw with
  | [] => 0%Z
  | (wp, wn) :: t => ((if A a then - wt wp else - wt wn) + qcost A (a + 1) t)%Z
  end.
Fixpoint logprob (A : Z -> bool) (a : Z) (lw : list (Q * Q)) : Q :=
  match lw with
  | [] => 0%Q
  | (wp, wn) :: t => ((if A a then wp else wn) + logprob A (a + 1)%Z t)%Q
  end.

(* does the assignment use a literal whose log-weight is clamped (probability 0, or below e^-10000)? *)
Fixpoint uses_clamped (A : Z -> bool) (a : Z) (lw : list (Q * Q)) : bool :=
  match lw with
  | [] => false
  | (wp, wn) :: t => Qle_bool (if A a then wp else wn) (-10000 # 1) || uses_clamped A (a + 1)%Z t
  end.

(* mpe_maxsat read-back: prob *= weights[i][0] if i in result, weights[i][1] if -i in result *)
Fixpoint reported_prob (result : list Z) (a : Z) (pw : list (Q * Q)) : Q :=
  match pw with
  | [] => 1%Q
  | (p, n) :: t =>
      ((if existsb (Z.eqb a) result then p else if existsb (Z.eqb (- a)) result then n else 1)
       * reported_prob result (a + 1)%Z t)%Q
  end.
Definition assignment_of (result : list Z) (x : Z) : bool := existsb (Z.eqb x) result.
Fixpoint prob_of (A : Z -> bool) (a : Z) (pw : list (Q * Q)) : Q :=
  match pw with
  | [] => 1%Q
  | (p, n) :: t => ((if A a then p else n) * prob_of A (a + 1)%Z t)%Q
  end.
