(* Lemmas about the weighted MaxSAT encoding of mpe_maxsat. *)
From Coq Require Import QArith Qround ZArith List Bool NArith Lia Lqa.
From PL.C20 Require Import ModelMPE.
Import ListNotations.
Local Close Scope Q_scope.
Local Open Scope Z_scope.

(* ------------------------------------------------------------------ cost algebra *)
Lemma cost_app : forall A l1 l2, cost A (l1 ++ l2) = cost A l1 + cost A l2.
Proof.
  intros A l1 l2. induction l1 as [|wc l1 IH]; cbn [app cost fold_right].
  - reflexivity.
  - fold (cost A (l1 ++ l2)). fold (cost A l1). rewrite IH. lia.
Qed.

Definition weight_sum (cs : list wclause) : Z := fold_right (fun wc acc => fst wc + acc) 0 cs.

Lemma cost_bounds : forall A cs,
    (forall wc, In wc cs -> 0 <= fst wc) -> 0 <= cost A cs <= weight_sum cs.
Proof.
  intros A cs. induction cs as [|wc cs IH]; intros H; cbn [cost weight_sum fold_right].
  - lia.
  - fold (cost A cs). fold (weight_sum cs).
    assert (H0 : 0 <= fst wc) by (apply H; now left).
    assert (IH' : 0 <= cost A cs <= weight_sum cs) by (apply IH; intros; apply H; now right).
    destruct (clause_sat A (snd wc)); lia.
Qed.

Lemma cost_hard_sat : forall A top hard,
    all_sat A hard = true -> cost A (map (fun c => (top, c)) hard) = 0.
Proof.
  intros A top hard. induction hard as [|c hard IH]; intros H; cbn [map cost fold_right all_sat forallb] in *.
  - reflexivity.
  - apply andb_true_iff in H. destruct H as [H1 H2]. cbn [snd fst]. rewrite H1.
    fold (cost A (map (fun c => (top, c)) hard)). rewrite (IH H2). lia.
Qed.

Lemma cost_hard_unsat : forall A top hard,
    0 <= top -> all_sat A hard = false -> top <= cost A (map (fun c => (top, c)) hard).
Proof.
  intros A top hard Ht. induction hard as [|c hard IH]; intros H; cbn [map cost fold_right all_sat forallb] in *.
  - discriminate.
  - cbn [snd fst]. fold (cost A (map (fun c => (top, c)) hard)).
    assert (Hnn : 0 <= cost A (map (fun c => (top, c)) hard)).
    { apply cost_bounds. intros wc Hin. apply in_map_iff in Hin. destruct Hin as [c' [<- _]]. exact Ht. }
    destruct (clause_sat A c) eqn:E; cbn [andb] in H.
    + specialize (IH H). lia.
    + lia.
Qed.

(* Any optimum of a weighted partial MaxSAT instance whose top weight exceeds the
   sum of the soft weights satisfies every hard clause (if some assignment does). *)
Lemma optimal_satisfies_hard : forall (soft : list wclause) (hard : list clause) (top : Z) A B,
    (forall wc, In wc soft -> 0 <= fst wc) ->
    weight_sum soft < top ->
    all_sat B hard = true ->
    cost A (soft ++ map (fun c => (top, c)) hard) <= cost B (soft ++ map (fun c => (top, c)) hard) ->
    all_sat A hard = true.
Proof.
  intros soft hard top A B Hnn Htop HB Hle.
  destruct (all_sat A hard) eqn:E; [reflexivity|exfalso].
  rewrite !cost_app in Hle. rewrite (cost_hard_sat B top hard HB) in Hle.
  pose proof (cost_bounds A soft Hnn) as HA. pose proof (cost_bounds B soft Hnn) as HB'.
  assert (Ht : 0 <= top) by lia.
  pose proof (cost_hard_unsat A top hard Ht E). lia.
Qed.

(* on assignments that satisfy the hard clauses the cost is the soft cost *)
Lemma cost_encode_sat : forall soft hard top A,
    all_sat A hard = true -> cost A (soft ++ map (fun c => (top, c)) hard) = cost A soft.
Proof. intros. rewrite cost_app, cost_hard_sat by assumption. lia. Qed.

(* ------------------------------------------------------------------ truncation = floor of the negated value *)
Lemma trunc_nonpos : forall x : Q, (x <= 0)%Q -> (- trunc x)%Z = Qfloor (- x)%Q.
Proof.
  intros [n d] H. unfold trunc, Qfloor, Qopp. cbn [Qnum Qden].
  unfold Qle in H. cbn [Qnum Qden] in H. assert (Hn : n <= 0) by lia.
  replace n with (- (- n)) at 1 by lia. rewrite Z.quot_opp_l by lia.
  rewrite Z.quot_div_nonneg by lia. lia.
Qed.

Lemma clampw_id : forall w, (- (10000 # 1) <= w)%Q -> (clampw w == w)%Q.
Proof.
  intros w H. unfold clampw. destruct (Qle_bool w (-10000 # 1)) eqn:E; [|reflexivity].
  apply Qle_bool_iff in E. apply Qle_antisym; [exact H | exact E].
Qed.

Definition scaled (w : Q) : Q := (- (clampw w * (10000 # 1)))%Q.

Lemma clampw_nonpos : forall w, (w <= 0)%Q -> (clampw w <= 0)%Q.
Proof.
  intros w H. unfold clampw. destruct (Qle_bool w (-10000 # 1)); [|exact H].
  unfold Qle. cbn. lia.
Qed.

Lemma wt_floor : forall w, (w <= 0)%Q -> (- wt w)%Z = Qfloor (scaled w).
Proof.
  intros w H. unfold wt, scaled. fold (clampw w). apply trunc_nonpos.
  pose proof (clampw_nonpos w H) as Hc.
  setoid_replace 0%Q with (0 * (10000 # 1))%Q by ring.
  apply Qmult_le_compat_r; [exact Hc|]. unfold Qle. cbn. lia.
Qed.

Lemma scaled_nonneg : forall w, (w <= 0)%Q -> (0 <= scaled w)%Q.
Proof.
  intros w H. unfold scaled. pose proof (clampw_nonpos w H) as Hc. lra.
Qed.

Lemma wt_nonneg : forall w, (w <= 0)%Q -> 0 <= - wt w.
Proof.
  intros w H. rewrite wt_floor by exact H.
  pose proof (Qfloor_resp_le 0 (scaled w) (scaled_nonneg w H)) as Hf.
  exact Hf.
Qed.

Lemma floor_small : forall x : Q, (0 <= x)%Q -> (x < 1)%Q -> Qfloor x = 0.
Proof.
  intros x H0 H1. pose proof (Qfloor_le x) as Hl. pose proof (Qlt_floor x) as Hu.
  assert (A1 : (inject_Z (Qfloor x) < inject_Z 1)%Q) by (apply Qle_lt_trans with x; assumption).
  rewrite <- Zlt_Qlt in A1.
  assert (A2 : (inject_Z 0 < inject_Z (Qfloor x + 1))%Q) by (apply Qle_lt_trans with x; assumption).
  rewrite <- Zlt_Qlt in A2. lia.
Qed.

Lemma is_one_wt : forall w, (w <= 0)%Q -> is_one w = true -> wt w = 0.
Proof.
  intros w Hw H1. unfold is_one in H1. apply andb_true_iff in H1. destruct H1 as [H1 _].
  unfold Qlt_bool in H1. apply negb_true_iff in H1.
  assert (Hl : ((-1 # 1000000000000) < w)%Q).
  { apply Qnot_le_lt. intro L. apply Qle_bool_iff in L. congruence. }
  assert (Hc : (clampw w == w)%Q).
  { apply clampw_id. apply Qlt_le_weak. apply Qlt_trans with (-1 # 1000000000000)%Q; [reflexivity|exact Hl]. }
  pose proof (wt_floor w Hw) as Hf.
  assert (Hz : Qfloor (scaled w) = 0).
  { apply floor_small; [now apply scaled_nonneg|]. unfold scaled. rewrite Hc.
    assert (E : ((-1 # 1000000000000) * (10000 # 1) == - (1 # 100000000))%Q) by reflexivity.
    assert (Hm : ((-1 # 1000000000000) * (10000 # 1) < w * (10000 # 1))%Q).
    { apply Qmult_lt_compat_r; [reflexivity|exact Hl]. }
    rewrite E in Hm. apply Qlt_trans with (1 # 100000000)%Q; [lra|reflexivity]. }
  lia.
Qed.

(* ------------------------------------------------------------------ cost of the soft clauses = quantised cost *)
Definition weights_nonpos (lw : list (Q * Q)) : Prop :=
  forall pw, In pw lw -> (fst pw <= 0)%Q /\ (snd pw <= 0)%Q.

Lemma cost_soft_clauses : forall A lw a,
    0 < a -> weights_nonpos lw -> cost A (soft_clauses a lw) = qcost A a lw.
Proof.
  intros A lw. induction lw as [|[wp wn] lw IH]; intros a Ha Hw; cbn [soft_clauses qcost].
  - reflexivity.
  - destruct (Hw (wp, wn) (or_introl eq_refl)) as [Hp Hn]. cbn [fst snd] in Hp, Hn.
    rewrite !cost_app. rewrite IH; [|lia|intros pw Hin; apply Hw; now right].
    assert (L1 : clause_sat A [- a] = negb (A a)).
    { unfold clause_sat, lit_true. cbn [existsb]. assert (E : (0 <? - a) = false) by (apply Z.ltb_ge; lia).
      rewrite E, Z.opp_involutive. now rewrite orb_false_r. }
    assert (L2 : clause_sat A [a] = A a).
    { unfold clause_sat, lit_true. cbn [existsb]. assert (E : (0 <? a) = true) by (apply Z.ltb_lt; lia).
      rewrite E. now rewrite orb_false_r. }
    destruct (is_one wp) eqn:E1; destruct (is_one wn) eqn:E2;
      cbn [cost fold_right fst snd]; rewrite ?L1, ?L2;
      try rewrite (is_one_wt wp Hp E1); try rewrite (is_one_wt wn Hn E2);
      destruct (A a); cbn [negb]; lia.
Qed.

Lemma soft_clauses_nonneg : forall lw a wc,
    weights_nonpos lw -> In wc (soft_clauses a lw) -> 0 <= fst wc.
Proof.
  induction lw as [|[wp wn] lw IH]; intros a wc Hw Hin; cbn [soft_clauses] in Hin; [destruct Hin|].
  destruct (Hw (wp, wn) (or_introl eq_refl)) as [Hp Hn]. cbn [fst snd] in Hp, Hn.
  apply in_app_or in Hin. destruct Hin as [Hin|Hin].
  - destruct (is_one wp); [destruct Hin|]. destruct Hin as [<-|[]]. cbn [fst]. now apply wt_nonneg.
  - apply in_app_or in Hin. destruct Hin as [Hin|Hin].
    + destruct (is_one wn); [destruct Hin|]. destruct Hin as [<-|[]]. cbn [fst]. now apply wt_nonneg.
    + apply (IH (a + 1) wc); [intros pw H; apply Hw; now right | exact Hin].
Qed.

(* ------------------------------------------------------------------ quantisation bound *)
Definition weights_in_range (lw : list (Q * Q)) : Prop :=
  forall pw, In pw lw ->
    (- (10000 # 1) <= fst pw)%Q /\ (fst pw <= 0)%Q /\ (- (10000 # 1) <= snd pw)%Q /\ (snd pw <= 0)%Q.

Lemma floor_bracket : forall w, (- (10000 # 1) <= w)%Q -> (w <= 0)%Q ->
    (inject_Z (- wt w) <= - (w * (10000 # 1)))%Q /\ (- (w * (10000 # 1)) <= inject_Z (- wt w) + 1)%Q.
Proof.
  intros w Hl Hu. rewrite wt_floor by exact Hu. unfold scaled. pose proof (clampw_id w Hl) as Hc.
  pose proof (Qfloor_le (- (clampw w * (10000 # 1)))%Q) as H1.
  pose proof (Qlt_floor (- (clampw w * (10000 # 1)))%Q) as H2.
  rewrite inject_Z_plus in H2. change (inject_Z 1) with 1%Q in H2.
  set (fl := inject_Z (Qfloor (- (clampw w * (10000 # 1)))%Q)) in *.
  set (c := clampw w) in *.
  split; lra.
Qed.

Lemma qcost_bracket : forall A lw a, weights_in_range lw ->
    (inject_Z (qcost A a lw) <= - (logprob A a lw * (10000 # 1)))%Q /\
    (- (logprob A a lw * (10000 # 1)) <= inject_Z (qcost A a lw) + inject_Z (Z.of_nat (length lw)))%Q.
Proof.
  intros A lw. induction lw as [|[wp wn] lw IH]; intros a Hw.
  - cbn. split; unfold Qle; cbn; lia.
  - destruct (Hw (wp, wn) (or_introl eq_refl)) as (Hp1 & Hp2 & Hn1 & Hn2). cbn [fst snd] in *.
    assert (Hw' : weights_in_range lw) by (intros pw H; apply Hw; now right).
    destruct (IH (a + 1) Hw') as [I1 I2].
    cbn [qcost logprob length]. rewrite Nat2Z.inj_succ. unfold Z.succ.
    destruct (A a); rewrite !inject_Z_plus; change (inject_Z 1) with 1%Q.
    + destruct (floor_bracket wp Hp1 Hp2) as [F1 F2]. change (inject_Z 1) with 1%Q in F2. split; lra.
    + destruct (floor_bracket wn Hn1 Hn2) as [F1 F2]. change (inject_Z 1) with 1%Q in F2. split; lra.
Qed.

(* If A is at least as good as B for the encoding, its log-probability is
   within n * 1e-4 of B's (n = number of weighted atoms). *)
Lemma maxsat_within_quant : forall A B lw,
    weights_in_range lw ->
    qcost A 1 lw <= qcost B 1 lw ->
    (logprob B 1 lw - inject_Z (Z.of_nat (length lw)) / (10000 # 1) <= logprob A 1 lw)%Q.
Proof.
  intros A B lw Hw Hle.
  destruct (qcost_bracket A lw 1 Hw) as [_ A2]. destruct (qcost_bracket B lw 1 Hw) as [B1 _].
  rewrite Zle_Qle in Hle.
  assert (H : (- (logprob A 1 lw * (10000 # 1)) <= - (logprob B 1 lw * (10000 # 1)) + inject_Z (Z.of_nat (length lw)))%Q) by lra.
  assert (E : (inject_Z (Z.of_nat (length lw)) / (10000 # 1) == inject_Z (Z.of_nat (length lw)) * (1 # 10000))%Q).
  { unfold Qdiv. reflexivity. }
  rewrite E. lra.
Qed.

(* ------------------------------------------------------------------ read-back *)
Lemma reported_is_product : forall result pw a,
    (forall x, a <= x -> x < a + Z.of_nat (length pw) -> In x result \/ In (- x) result) ->
    reported_prob result a pw = prob_of (assignment_of result) a pw.
Proof.
  intros result pw. induction pw as [|[p n] pw IH]; intros a Hcompl; cbn [reported_prob prob_of].
  - reflexivity.
  - rewrite IH.
    + change (assignment_of result a) with (existsb (Z.eqb a) result).
      destruct (existsb (Z.eqb a) result) eqn:E1; [reflexivity|].
      destruct (existsb (Z.eqb (- a)) result) eqn:E2; [reflexivity|exfalso].
      cbn [length] in Hcompl. destruct (Hcompl a) as [H|H]; try lia.
      * assert (existsb (Z.eqb a) result = true) by (apply existsb_exists; exists a; split; [exact H|apply Z.eqb_refl]).
        congruence.
      * assert (existsb (Z.eqb (- a)) result = true) by (apply existsb_exists; exists (- a); split; [exact H|apply Z.eqb_refl]).
        congruence.
    + intros x H1 H2. apply Hcompl; cbn [length]; lia.
Qed.

(* ------------------------------------------------------------------ the top weight of `encode` dominates the soft clauses *)
Lemma trunc_nonneg : forall x : Q, (0 <= x)%Q -> trunc x = Qfloor x.
Proof.
  intros [n d] H. unfold trunc, Qfloor. cbn [Qnum Qden]. unfold Qle in H. cbn [Qnum Qden] in H.
  apply Z.quot_div_nonneg; lia.
Qed.

Definition wsumR (lw : list (Q * Q)) : Q :=
  fold_right (fun pw acc => (clampw (fst pw) + clampw (snd pw) + acc)%Q) 0%Q lw.

Lemma w_sum_fold : forall lw acc,
    (fold_left (fun acc pw => (acc + (clampw (fst pw) + clampw (snd pw)))%Q) lw acc == acc + wsumR lw)%Q.
Proof.
  induction lw as [|pw lw IH]; intros acc; cbn [fold_left wsumR fold_right].
  - ring.
  - rewrite IH. fold (wsumR lw). ring.
Qed.

Lemma w_sum_wsumR : forall lw, (w_sum lw == wsumR lw)%Q.
Proof. intros lw. unfold w_sum. rewrite w_sum_fold. ring. Qed.

Lemma weight_sum_app : forall l1 l2, weight_sum (l1 ++ l2) = weight_sum l1 + weight_sum l2.
Proof.
  induction l1 as [|wc l1 IH]; intros l2; cbn [app weight_sum fold_right].
  - reflexivity.
  - fold (weight_sum (l1 ++ l2)). fold (weight_sum l1). rewrite IH. lia.
Qed.

Lemma soft_weight_le : forall w, (w <= 0)%Q ->
    (inject_Z (- wt w) <= - (clampw w * (10000 # 1)))%Q.
Proof. intros w H. rewrite wt_floor by exact H. apply Qfloor_le. Qed.

Lemma soft_sum_bound : forall lw a, weights_nonpos lw ->
    (inject_Z (weight_sum (soft_clauses a lw)) <= - (wsumR lw * (10000 # 1)))%Q.
Proof.
  induction lw as [|[wp wn] lw IH]; intros a Hw; cbn [soft_clauses wsumR fold_right].
  - unfold Qle. cbn. lia.
  - fold (wsumR lw). destruct (Hw (wp, wn) (or_introl eq_refl)) as [Hp Hn]. cbn [fst snd] in *.
    rewrite !weight_sum_app, !inject_Z_plus.
    assert (Hw' : weights_nonpos lw) by (intros pw H; apply Hw; now right).
    specialize (IH (a + 1) Hw').
    pose proof (soft_weight_le wp Hp) as Sp. pose proof (soft_weight_le wn Hn) as Sn.
    pose proof (wt_nonneg wp Hp) as Np. pose proof (wt_nonneg wn Hn) as Nn.
    rewrite Zle_Qle in Np, Nn. change (inject_Z 0) with 0%Q in Np, Nn.
    match goal with
    | |- (inject_Z (weight_sum ?X) + (inject_Z (weight_sum ?Y) + _) <= _)%Q =>
        assert (A1 : (inject_Z (weight_sum X) <= inject_Z (- wt wp)%Z)%Q);
        [ destruct (is_one wp); cbn [weight_sum fold_right fst]; [exact Np|]; rewrite Z.add_0_r; apply Qle_refl |];
        assert (A2 : (inject_Z (weight_sum Y) <= inject_Z (- wt wn)%Z)%Q);
        [ destruct (is_one wn); cbn [weight_sum fold_right fst]; [exact Nn|]; rewrite Z.add_0_r; apply Qle_refl |];
        set (x1 := inject_Z (weight_sum X)) in *; set (x2 := inject_Z (weight_sum Y)) in *
    end.
    set (x3 := inject_Z (weight_sum (soft_clauses (a + 1) lw))) in *.
    set (y1 := inject_Z (- wt wp)) in *. set (y2 := inject_Z (- wt wn)) in *.
    set (c1 := clampw wp) in *. set (c2 := clampw wn) in *. set (c3 := wsumR lw) in *.
    lra.
Qed.

Lemma encode_top_dominates : forall lw a, weights_nonpos lw ->
    weight_sum (soft_clauses a lw) < top_weight lw.
Proof.
  intros lw a Hw. unfold top_weight.
  pose proof (soft_sum_bound lw a Hw) as Hb.
  assert (Hx : (inject_Z (weight_sum (soft_clauses a lw)) <= - w_sum lw * (10000 # 1))%Q).
  { rewrite w_sum_wsumR. lra. }
  assert (H0 : (0 <= - w_sum lw * (10000 # 1))%Q).
  { apply Qle_trans with (inject_Z (weight_sum (soft_clauses a lw))); [|exact Hx].
    pose proof (cost_bounds (fun _ => true) (soft_clauses a lw)) as Hc.
    assert (Hn : forall wc, In wc (soft_clauses a lw) -> 0 <= fst wc) by (intros wc; now apply soft_clauses_nonneg).
    specialize (Hc Hn). rewrite <- (Qfloor_Z 0) in Hc. change (0%Q) with (inject_Z 0). rewrite <- Zle_Qle. cbn in Hc. lia. }
  rewrite trunc_nonneg by exact H0.
  pose proof (Qfloor_resp_le _ _ Hx) as Hf. rewrite Qfloor_Z in Hf. lia.
Qed.

(* the optimum of the actual encoding satisfies the hard clauses *)
Lemma encode_optimal_satisfies_hard : forall lw hard A B,
    weights_nonpos lw ->
    all_sat B hard = true ->
    cost A (snd (encode lw hard)) <= cost B (snd (encode lw hard)) ->
    all_sat A hard = true.
Proof.
  intros lw hard A B Hw HB Hle. unfold encode in Hle. cbn [snd] in Hle.
  apply (optimal_satisfies_hard (soft_clauses 1 lw) hard (top_weight lw) A B).
  - intros wc. now apply soft_clauses_nonneg.
  - now apply encode_top_dominates.
  - exact HB.
  - exact Hle.
Qed.

(* ... and is within the quantisation bound of every assignment satisfying them *)
Lemma encode_optimal_within_quant : forall lw hard A B,
    weights_in_range lw ->
    all_sat B hard = true ->
    cost A (snd (encode lw hard)) <= cost B (snd (encode lw hard)) ->
    all_sat A hard = true /\
    (logprob B 1 lw - inject_Z (Z.of_nat (length lw)) / (10000 # 1) <= logprob A 1 lw)%Q.
Proof.
  intros lw hard A B Hr HB Hle.
  assert (Hw : weights_nonpos lw).
  { intros pw Hin. destruct (Hr pw Hin) as (_ & H1 & _ & H2). now split. }
  pose proof (encode_optimal_satisfies_hard lw hard A B Hw HB Hle) as HA.
  split; [exact HA|].
  unfold encode in Hle. cbn [snd] in Hle.
  rewrite !cost_encode_sat in Hle by assumption.
  rewrite !cost_soft_clauses in Hle by (try lia; assumption).
  now apply maxsat_within_quant.
Qed.

(* ------------------------------------------------------------------ the clamp of ln 0 *)
Lemma wt_clamped : forall w, (w <= - (10000 # 1))%Q -> (- wt w)%Z = clamped_cost.
Proof.
  intros w H. unfold wt.
  assert (L : Qle_bool w (-10000 # 1)%Q = true) by (apply Qle_bool_iff; exact H).
  rewrite L. reflexivity.
Qed.

Lemma qcost_nonneg : forall A lw a, weights_nonpos lw -> 0 <= qcost A a lw.
Proof.
  intros A lw. induction lw as [|[wp wn] lw IH]; intros a Hw; cbn [qcost]; [lia|].
  destruct (Hw (wp, wn) (or_introl eq_refl)) as [Hp Hn]. cbn [fst snd] in *.
  assert (IH' : 0 <= qcost A (a + 1) lw) by (apply IH; intros pw H; apply Hw; now right).
  pose proof (wt_nonneg wp Hp). pose proof (wt_nonneg wn Hn). destruct (A a); lia.
Qed.

Lemma qcost_ge_clamped : forall A lw a, weights_nonpos lw ->
    uses_clamped A a lw = true -> clamped_cost <= qcost A a lw.
Proof.
  intros A lw. induction lw as [|[wp wn] lw IH]; intros a Hw Hu; cbn [uses_clamped qcost] in *; [discriminate|].
  destruct (Hw (wp, wn) (or_introl eq_refl)) as [Hp Hn]. cbn [fst snd] in *.
  assert (Hw' : weights_nonpos lw) by (intros pw H; apply Hw; now right).
  pose proof (qcost_nonneg A lw (a + 1) Hw') as Hq.
  apply orb_true_iff in Hu. destruct Hu as [Hu|Hu].
  - apply Qle_bool_iff in Hu. destruct (A a).
    + rewrite (wt_clamped wp Hu). lia.
    + rewrite (wt_clamped wn Hu). lia.
  - specialize (IH (a + 1) Hw' Hu). pose proof (wt_nonneg wp Hp). pose proof (wt_nonneg wn Hn).
    destruct (A a); lia.
Qed.

Lemma qcost_upper_unclamped : forall A lw a, weights_nonpos lw ->
    uses_clamped A a lw = false ->
    (inject_Z (qcost A a lw) <= - (logprob A a lw * (10000 # 1)))%Q.
Proof.
  intros A lw. induction lw as [|[wp wn] lw IH]; intros a Hw Hu; cbn [uses_clamped qcost logprob] in *.
  - unfold Qle. cbn. lia.
  - destruct (Hw (wp, wn) (or_introl eq_refl)) as [Hp Hn]. cbn [fst snd] in *.
    assert (Hw' : weights_nonpos lw) by (intros pw H; apply Hw; now right).
    apply orb_false_iff in Hu. destruct Hu as [Hc Hu]. specialize (IH (a + 1) Hw' Hu).
    assert (Hlt : forall w, Qle_bool w (-10000 # 1) = false -> (- (10000 # 1) <= w)%Q).
    { intros w E. apply Qlt_le_weak. apply Qnot_le_lt. intro L. change (- (10000 # 1))%Q with (-10000 # 1)%Q in L. apply Qle_bool_iff in L. rewrite L in E. discriminate. }
    rewrite inject_Z_plus. destruct (A a).
    + destruct (floor_bracket wp (Hlt _ Hc) Hp) as [F1 _]. lra.
    + destruct (floor_bracket wn (Hlt _ Hc) Hn) as [F1 _]. lra.
Qed.

(* An assignment that uses a probability-0 literal is strictly more expensive than every
   assignment that uses none and whose probability exceeds e^-10000. *)
Lemma clamped_loses : forall A B lw,
    weights_nonpos lw ->
    uses_clamped A 1 lw = true -> uses_clamped B 1 lw = false ->
    (- (10000 # 1) < logprob B 1 lw)%Q ->
    qcost B 1 lw < qcost A 1 lw.
Proof.
  intros A B lw Hw HA HB Hl.
  pose proof (qcost_ge_clamped A lw 1 Hw HA) as H1.
  pose proof (qcost_upper_unclamped B lw 1 Hw HB) as H2.
  assert (H3 : (inject_Z (qcost B 1 lw) < inject_Z clamped_cost)%Q).
  { apply Qle_lt_trans with (- (logprob B 1 lw * (10000 # 1)))%Q; [exact H2|].
    change (inject_Z clamped_cost) with (100000000 # 1)%Q. lra. }
  rewrite <- Zlt_Qlt in H3. lia.
Qed.
