(* Refutation witness for mpe_semiring AS IT IS at the pinned commit; outside the cone of Props.v.
   0.6::a. 0.3::b. 0.3::c. e1:-a. e1:-b. e2:-\+a. e2:-c. evidence(e1). evidence(e2).
   LogicNNF of the query: (a \/ b) /\ (\+a \/ c): the conjunction shares the atom a. *)
From Coq Require Import QArith ZArith List Bool NArith.
From PL.C20 Require Import ModelMPE ProofsSemiring.
Import ListNotations.
Local Close Scope Q_scope.

Definition w_w (x : N) : Q := match x with 1%N => (6 # 10)%Q | _ => (3 # 10)%Q end.
Definition w_wn (x : N) : Q := (1 - w_w x)%Q.
Definition w_f : nnf := NAnd (NOr (NLit false 1) (NLit false 2)) (NOr (NLit true 1) (NLit false 3)).

Theorem C20_semiring_nondecomposable_refuted :
  exists (wpos wneg : N -> Q) (f : nnf) (A : N -> bool),
    (forall x, (0 <= wpos x)%Q) /\ (forall x, (0 <= wneg x)%Q) /\
    (0 < fst (fst (eval wpos wneg f)))%Q /\
    consistent (snd (fst (eval wpos wneg f))) = false /\
    sat A f = true /\
    (fst (fst (eval wpos wneg f)) < prodA wpos wneg (vars f) A)%Q.
Proof.
  exists w_w, w_wn, w_f, (fun x => match x with 2%N => false | _ => true end).
  split. { intros x. unfold w_w. destruct x as [|[p|p|]]; try destruct p; discriminate. }
  split. { intros x. unfold w_wn, w_w. destruct x as [|[p|p|]]; try destruct p; discriminate. }
  vm_compute. repeat split; reflexivity.
Qed.

(* the returned set and value of the model on this input: {a, \+b, \+a, \+c}, 0.1176 *)
Example C20_semiring_witness_value :
  snd (fst (eval w_w w_wn w_f)) = [(false, 1%N); (true, 2%N); (true, 1%N); (true, 3%N)] /\
  (fst (fst (eval w_w w_wn w_f)) == 1176 # 10000)%Q.
Proof. vm_compute. split; reflexivity. Qed.
