(* Sem/Program.v — abstract syntax of the C01 fragment of ProbLog and its
   instantiation over the (finite, function-free) Herbrand domain.
   Executable definitions only; no proofs in this file.

   First-order level (what the harness generator emits):
     term    ::= variable (nat) | constant (N, interned by the harness)
     atom    ::= predicate symbol (N) applied to a list of terms
     literal ::= atom | \+ atom
     clause  ::= h :- body                      (Rule; a fact has an empty body)
               | p1::h1; ...; pk::hk :- body    (AD;  a probabilistic fact is the case k = 1)
     stmt    ::= clause | query(atom) | evidence(atom, bool)

   Ground level: the same clause type over ground atoms (N * list N).

   Instantiation: every clause is instantiated with every assignment of its
   own variables to the constants occurring anywhere in the program.  ProbLog
   makes ONE independent choice per ground instance of the whole AD clause
   (clausedb._compile: the choice node's arguments are all the clause
   variables), which is exactly one ground `AD` per substitution here. *)
From Coq Require Import NArith QArith List Bool.
Import ListNotations.

Inductive term := TV (v : nat) | TC (c : N).
Definition atom : Type := (N * list term)%type.
Definition gatom : Type := (N * list N)%type.

Inductive lit (A : Type) := Pos (a : A) | Neg (a : A).
Arguments Pos {A} a.
Arguments Neg {A} a.

Inductive clause (A : Type) :=
| Rule (h : A) (b : list (lit A))
| AD (hs : list (Q * A)) (b : list (lit A)).
Arguments Rule {A} h b.
Arguments AD {A} hs b.

Inductive stmt :=
| SClause (c : clause atom)
| SQuery (a : atom)
| SEvid (a : atom) (v : bool).

Definition program := list stmt.

Record gprog := mkG {
  g_clauses : list (clause gatom);
  g_queries : list gatom;
  g_evid : list (gatom * bool) }.

Definition lit_atom {A} (l : lit A) : A := match l with Pos a => a | Neg a => a end.
Definition lit_map {A B} (f : A -> B) (l : lit A) : lit B :=
  match l with Pos a => Pos (f a) | Neg a => Neg (f a) end.
Definition clause_map {A B} (f : A -> B) (c : clause A) : clause B :=
  match c with
  | Rule h b => Rule (f h) (map (lit_map f) b)
  | AD hs b => AD (map (fun ph => (fst ph, f (snd ph))) hs) (map (lit_map f) b)
  end.
Definition clause_body {A} (c : clause A) : list (lit A) :=
  match c with Rule _ b => b | AD _ b => b end.
Definition clause_heads {A} (c : clause A) : list A :=
  match c with Rule h _ => [h] | AD hs _ => map snd hs end.

(* ---------------------------------------------------------------- equality *)
Fixpoint list_eqb {X} (e : X -> X -> bool) (a b : list X) : bool :=
  match a, b with
  | [], [] => true
  | x :: a', y :: b' => e x y && list_eqb e a' b'
  | _, _ => false
  end.
Definition gatom_eqb (a b : gatom) : bool :=
  N.eqb (fst a) (fst b) && list_eqb N.eqb (snd a) (snd b).

(* ---------------------------------------------------------------- constants, variables *)
Definition consts_term (t : term) : list N := match t with TV _ => [] | TC c => [c] end.
Definition vars_term (t : term) : list nat := match t with TV v => [v] | TC _ => [] end.
Definition consts_atom (a : atom) : list N := flat_map consts_term (snd a).
Definition vars_atom (a : atom) : list nat := flat_map vars_term (snd a).
Definition atoms_clause {A} (c : clause A) : list A :=
  clause_heads c ++ map lit_atom (clause_body c).
Definition atoms_stmt (s : stmt) : list atom :=
  match s with SClause c => atoms_clause c | SQuery a => [a] | SEvid a _ => [a] end.
Definition consts_stmt (s : stmt) : list N := flat_map consts_atom (atoms_stmt s).
(* the variables of a statement are 0 .. n-1 where n-1 is the largest index used
   (wf_stmt checks that every index below n really occurs, so no spurious
   instances are created); this list does not depend on the order of literals *)
Definition nvars_stmt (s : stmt) : nat :=
  fold_right Nat.max 0%nat (map S (flat_map vars_atom (atoms_stmt s))).
Definition vars_stmt (s : stmt) : list nat := seq 0%nat (nvars_stmt s).

(* the Herbrand domain: the constants of the program, without repetition *)
Definition domain (P : program) : list N := nodup N.eq_dec (flat_map consts_stmt P).

(* ---------------------------------------------------------------- substitutions *)
Definition subst := list (nat * N).
Fixpoint substs (vs : list nat) (dom : list N) : list subst :=
  match vs with
  | [] => [[]]
  | v :: vs' => flat_map (fun c => map (cons (v, c)) (substs vs' dom)) dom
  end.
Fixpoint lookup (s : subst) (v : nat) : N :=
  match s with
  | [] => 0%N
  | (w, c) :: s' => if Nat.eqb v w then c else lookup s' v
  end.
Definition inst_term (s : subst) (t : term) : N :=
  match t with TV v => lookup s v | TC c => c end.
Definition inst_atom (s : subst) (a : atom) : gatom := (fst a, map (inst_term s) (snd a)).

(* ---------------------------------------------------------------- grounding *)
Definition ground_stmt (dom : list N) (s : stmt) : gprog :=
  let ss := substs (vars_stmt s) dom in
  match s with
  | SClause c => mkG (map (fun sg => clause_map (inst_atom sg) c) ss) [] []
  | SQuery a => mkG [] (map (fun sg => inst_atom sg a) ss) []
  | SEvid a v => mkG [] [] (map (fun sg => (inst_atom sg a, v)) ss)
  end.

Definition gapp (G H : gprog) : gprog :=
  mkG (g_clauses G ++ g_clauses H) (g_queries G ++ g_queries H) (g_evid G ++ g_evid H).

Definition ground_with (dom : list N) (P : program) : gprog :=
  fold_right (fun s G => gapp (ground_stmt dom s) G) (mkG [] [] []) P.

Definition ground (P : program) : gprog := ground_with (domain P) P.

(* ---------------------------------------------------------------- well-formedness (checked by the oracle) *)
Definition sum_p {A} (hs : list (Q * A)) : Q := fold_right (fun ph s => fst ph + s) 0 hs.
Definition prob_ok (p : Q) : bool := Qle_bool 0 p && Qle_bool p 1.
Definition wf_clause {A} (c : clause A) : bool :=
  match c with
  | Rule _ _ => true
  | AD hs _ => forallb (fun ph => prob_ok (fst ph)) hs && Qle_bool (sum_p hs) 1
  end.
(* range restriction: every variable of the clause occurs in a positive body literal;
   evidence atoms are ground *)
Definition pos_vars (b : list (lit atom)) : list nat :=
  flat_map (fun l => match l with Pos a => vars_atom a | Neg _ => [] end) b.
Definition range_restricted (c : clause atom) : bool :=
  forallb (fun v => existsb (Nat.eqb v) (pos_vars (clause_body c)))
          (flat_map vars_atom (atoms_clause c)).
Definition vars_contiguous (s : stmt) : bool :=
  forallb (fun v => existsb (Nat.eqb v) (flat_map vars_atom (atoms_stmt s))) (vars_stmt s).
Definition wf_stmt (s : stmt) : bool :=
  vars_contiguous s &&
  match s with
  | SClause c => wf_clause c && range_restricted c
  | SQuery _ => true
  | SEvid a _ => match vars_atom a with [] => true | _ => false end
  end.
Definition wf_program (P : program) : bool := forallb wf_stmt P.
