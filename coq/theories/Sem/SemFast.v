(* Sem/SemFast.v — the evaluation strategy used by the extracted oracle.
   Executable definitions only; no proofs here (see SemFastProofs.v / the
   differential self-check of harness/sem_oracle.py for the tie to Sem.prob).

   Differences from the specification Sem.prob_gen:
     1. `prune`: ground clause instances with a positive body atom that is not
        "possibly true" (least model of the program with negative literals
        deleted and every AD head selectable) can never fire: dropped.
     2. `restrict`: only clauses with a head in the dependency cone of the
        query and evidence atoms are kept (C08: relevant sub-program).
     3. one well-founded model per world, all indicators at once (vector sum),
        sub-trees under weight-0 alternatives are skipped. *)
From Coq Require Import NArith QArith List Bool.
From PL.Sem Require Import Program Sem.
Import ListNotations.

Section Fast.
Variable A : Type.
Variable eqb : A -> A -> bool.
Notation nrule := (nrule A).
Notation interp := (interp A).
Notation mem := (mem A eqb).

Definition pos_body (b : list (lit A)) : list (lit A) :=
  filter (fun l => match l with Pos _ => true | Neg _ => false end) b.
Definition pos_rules (cs : list (clause A)) : list nrule :=
  flat_map (fun c => map (fun h => (h, pos_body (clause_body c))) (clause_heads c)) cs.
Definition possibly_true (cs : list (clause A)) : option interp :=
  gamma A eqb (pos_rules cs) (universe A eqb cs) [].
Definition live (PT : interp) (c : clause A) : bool :=
  forallb (fun l => match l with Pos a => mem a PT | Neg _ => true end) (clause_body c).
Definition prune (cs : list (clause A)) : option (list (clause A)) :=
  match possibly_true cs with
  | None => None
  | Some PT => Some (filter (live PT) cs)
  end.

Definition restrict (cs : list (clause A)) (goals : list A) : option (list (clause A)) :=
  match cone A eqb (edges A cs) goals with
  | None => None
  | Some C => Some (filter (fun c => existsb (fun h => mem h C) (clause_heads c)) cs)
  end.

(* ---------------------------------------------------------------- vector sums *)
Fixpoint vadd (a b : list Q) : list Q :=
  match a, b with
  | x :: a', y :: b' => (x + y) :: vadd a' b'
  | _, _ => []
  end.
Definition vscale (p : Q) (a : list Q) : list Q := map (Qmult p) a.
Definition vzero (n : nat) : list Q := repeat 0 n.

Section VSum.
Variable n : nat.
Variable F : list nrule -> list Q.
Definition alt (p : Q) (k : list nrule -> list Q) (acc : list nrule) : list Q :=
  if Qeq_bool p 0 then vzero n else vscale p (k acc).
Fixpoint wsumv (cs : list (clause A)) (acc : list nrule) : list Q :=
  match cs with
  | [] => F acc
  | Rule h b :: cs' => wsumv cs' ((h, b) :: acc)
  | AD hs b :: cs' =>
      map Qred (fold_right (fun ph s => vadd (alt (fst ph) (wsumv cs') ((snd ph, b) :: acc)) s)
                           (alt (1 - sum_p hs) (wsumv cs') acc) hs)
  end.
End VSum.

(* layout of the vector: [fuel exhausted; some atom undefined; evidence holds; q1 /\ e; q2 /\ e; ...] *)
Definition leaf (U : interp) (ev : list (A * bool)) (qs : list A) (acc : list nrule) : list Q :=
  match wfm A eqb acc U with
  | None => 1 :: repeat 0 (2 + length qs)
  | Some m =>
      let T := fst m in
      let e := holds A eqb T ev in
      0 :: b2q (negb (subset A eqb (snd m) T)) :: b2q e :: map (fun q => b2q (mem q T && e)) qs
  end.

Definition fast_probs (cs : list (clause A)) (ev : list (A * bool)) (qs : list A)
  : option (list (A * result)) :=
  match prune cs with
  | None => None
  | Some cs1 =>
    match restrict cs1 (qs ++ map fst ev) with
    | None => None
    | Some cs2 =>
      let U := universe A eqb cs2 in
      match wsumv (3 + length qs) (leaf U ev qs) cs2 [] with
      | fu :: un :: pe :: ps =>
          let r := fun (x : Q) =>
            if negb (Qeq_bool fu 0) then OutOfFuel
            else if negb (Qeq_bool un 0) then NotTwoValued
            else if Qeq_bool pe 0 then Inconsistent
            else Ok (Qred (x / pe)) in
          Some (combine qs (map r ps))
      | _ => None
      end
    end
  end.

(* C02 class, evaluated on the pruned and cone-restricted program (the graph test uses the full program) *)
Definition fast_classify (cs : list (clause A)) (goals : list A) : c02class :=
  match neg_cycle_free A eqb cs with
  | None => ClassFuel
  | Some true => MustAnswer
  | Some false =>
    match prune cs with
    | None => ClassFuel
    | Some cs1 =>
      match cone A eqb (edges A cs1) goals, restrict cs1 goals with
      | Some C, Some cs2 =>
        let U := universe A eqb cs2 in
        let lf := fun acc : list nrule =>
          match wfm A eqb acc U with
          | None => [1; 0]
          | Some m => [0; b2q (negb (subset A eqb (filter (fun a => mem a C) (snd m)) (fst m)))]
          end in
        match wsumv 2 lf cs2 [] with
        | [fu; un] => if negb (Qeq_bool fu 0) then ClassFuel else if Qeq_bool un 0 then Either else MustReject
        | _ => ClassFuel
        end
      | _, _ => ClassFuel
      end
    end
  end.

(* number of AD instances (independent choices) the fast evaluation enumerates *)
Definition is_ad (c : clause A) : bool := match c with AD _ _ => true | Rule _ _ => false end.
Definition fast_choices (cs : list (clause A)) (goals : list A) : option nat :=
  match prune cs with
  | None => None
  | Some cs1 => match restrict cs1 goals with
                | None => None
                | Some cs2 => Some (length (filter is_ad cs2))
                end
  end.
End Fast.

Definition fast_answers (P : program) : option (list (gatom * result)) :=
  let G := ground P in fast_probs gatom gatom_eqb (g_clauses G) (g_evid G) (g_queries G).
Definition fast_nchoices (P : program) : option nat :=
  let G := ground P in fast_choices gatom gatom_eqb (g_clauses G) (goals G).
Definition fast_gclassify (P : program) : c02class :=
  let G := ground P in fast_classify gatom gatom_eqb (g_clauses G) (goals G).
Definition spec_nchoices (P : program) : nat :=
  length (filter (is_ad gatom) (g_clauses (ground P))).
