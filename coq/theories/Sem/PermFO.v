(* Sem/PermFO.v — lifting of the order-independence theorems (PermProofs.v) to
   first-order programs: instantiation over the Herbrand domain commutes with
   permutations of statements and of clause bodies. *)
From Coq Require Import NArith QArith List Bool Permutation Lia.
From PL.Sem Require Import Program Sem SemBasics PermProofs.
Import ListNotations.

Lemma flat_map_perm_ext {X Y} (f g : X -> list Y) l l' :
  Permutation l l' -> (forall x, Permutation (f x) (g x)) -> Permutation (flat_map f l) (flat_map g l').
Proof.
  intros H Hfg. induction H; simpl.
  - constructor.
  - apply Permutation_app; [apply Hfg|exact IHPermutation].
  - rewrite !app_assoc. apply Permutation_app.
    + etransitivity; [apply Permutation_app_comm|]. apply Permutation_app; apply Hfg.
    + clear -Hfg. induction l as [|a l IH]; simpl; [constructor|]. apply Permutation_app; [apply Hfg|exact IH].
  - etransitivity; [exact IHPermutation1|]. etransitivity; [|exact IHPermutation2].
    clear -Hfg. (* flat_map g l' ~ flat_map f l' *)
    induction l' as [|a l' IH]; simpl; [constructor|]. apply Permutation_app; [symmetry; apply Hfg|exact IH].
Qed.

Lemma substs_perm vs : forall dom dom', Permutation dom dom' -> Permutation (substs vs dom) (substs vs dom').
Proof.
  induction vs as [|v vs IH]; intros dom dom' H; simpl; [reflexivity|].
  apply flat_map_perm_ext; [exact H|]. intro c. apply Permutation_map. apply IH. exact H.
Qed.

Lemma nodup_perm (l l' : list N) : Permutation l l' -> Permutation (nodup N.eq_dec l) (nodup N.eq_dec l').
Proof.
  intro H. apply NoDup_Permutation; try apply NoDup_nodup.
  intro x. rewrite !nodup_In. split; apply Permutation_in; [exact H|symmetry; exact H].
Qed.

Lemma domain_perm P P' : Permutation P P' -> Permutation (domain P) (domain P').
Proof.
  intro H. unfold domain. apply nodup_perm. apply flat_map_perm_ext; [exact H|reflexivity].
Qed.

(* the three components of a grounded program as flat_maps *)
Lemma ground_with_clauses dom P :
  g_clauses (ground_with dom P) = flat_map (fun s => g_clauses (ground_stmt dom s)) P.
Proof. induction P as [|s P IH]; simpl; [reflexivity|]. rewrite IH. reflexivity. Qed.
Lemma ground_with_queries dom P :
  g_queries (ground_with dom P) = flat_map (fun s => g_queries (ground_stmt dom s)) P.
Proof. induction P as [|s P IH]; simpl; [reflexivity|]. rewrite IH. reflexivity. Qed.
Lemma ground_with_evid dom P :
  g_evid (ground_with dom P) = flat_map (fun s => g_evid (ground_stmt dom s)) P.
Proof. induction P as [|s P IH]; simpl; [reflexivity|]. rewrite IH. reflexivity. Qed.

Lemma ground_stmt_dom_perm dom dom' s : Permutation dom dom' ->
  Permutation (g_clauses (ground_stmt dom s)) (g_clauses (ground_stmt dom' s)) /\
  Permutation (g_queries (ground_stmt dom s)) (g_queries (ground_stmt dom' s)) /\
  Permutation (g_evid (ground_stmt dom s)) (g_evid (ground_stmt dom' s)).
Proof.
  intro H. pose proof (substs_perm (vars_stmt s) dom dom' H) as HS.
  destruct s as [c|a|a v]; simpl; repeat split; try reflexivity; apply Permutation_map; exact HS.
Qed.

Lemma ground_with_perm dom dom' P P' : Permutation dom dom' -> Permutation P P' ->
  Permutation (g_clauses (ground_with dom P)) (g_clauses (ground_with dom' P')) /\
  Permutation (g_queries (ground_with dom P)) (g_queries (ground_with dom' P')) /\
  Permutation (g_evid (ground_with dom P)) (g_evid (ground_with dom' P')).
Proof.
  intros Hd HP. rewrite !ground_with_clauses, !ground_with_queries, !ground_with_evid.
  repeat split; (apply flat_map_perm_ext; [exact HP|]); intro s; apply (ground_stmt_dom_perm dom dom' s Hd).
Qed.

Lemma ground_perm P P' : Permutation P P' ->
  Permutation (g_clauses (ground P)) (g_clauses (ground P')) /\
  Permutation (g_queries (ground P)) (g_queries (ground P')) /\
  Permutation (g_evid (ground P)) (g_evid (ground P')).
Proof. intro H. apply ground_with_perm; [apply domain_perm; exact H|exact H]. Qed.

Theorem prob_perm_statements P P' q : Permutation P P' -> prob P q = prob P' q.
Proof.
  intro H. destruct (ground_perm P P' H) as [Hc [_ He]]. unfold prob, gprob.
  apply (prob_gen_perm_clauses gatom gatom_eqb gatom_eqb_spec); assumption.
Qed.

Theorem answers_perm_statements P P' : Permutation P P' -> Permutation (answers P) (answers P').
Proof.
  intro H. destruct (ground_perm P P' H) as [Hc [Hq He]]. unfold answers.
  rewrite (map_ext (fun q => (q, gprob (ground P') q)) (fun q => (q, gprob (ground P) q))).
  - apply Permutation_map. exact Hq.
  - intro q. f_equal. unfold gprob. symmetry.
    apply (prob_gen_perm_clauses gatom gatom_eqb gatom_eqb_spec); assumption.
Qed.

(* ------------------------------------------------------------------ body permutations *)
Definition sbp (s s' : stmt) : Prop :=
  match s, s' with
  | SClause c, SClause c' => cbp atom c c'
  | SQuery a, SQuery a' => a = a'
  | SEvid a v, SEvid a' v' => a = a' /\ v = v'
  | _, _ => False
  end.

Lemma sbp_atoms s s' : sbp s s' -> Permutation (atoms_stmt s) (atoms_stmt s').
Proof.
  destruct s as [c|a|a v], s' as [c'|a'|a' v']; simpl; try contradiction.
  - destruct c as [h b|hs b], c' as [h' b'|hs' b']; simpl; try contradiction; intros [E Hb]; subst;
      unfold atoms_clause; simpl.
    + constructor. apply Permutation_map. exact Hb.
    + apply Permutation_app_head. apply Permutation_map. exact Hb.
  - intro; subst; reflexivity.
  - intros [E1 E2]; subst; reflexivity.
Qed.

Lemma fold_max_perm l l' : Permutation l l' -> fold_right Nat.max 0%nat l = fold_right Nat.max 0%nat l'.
Proof. induction 1; simpl; try lia. Qed.

Lemma sbp_vars s s' : sbp s s' -> vars_stmt s = vars_stmt s'.
Proof.
  intro H. unfold vars_stmt, nvars_stmt. f_equal. apply fold_max_perm. apply Permutation_map.
  apply flat_map_perm_ext; [apply sbp_atoms; exact H|reflexivity].
Qed.

Lemma sbp_consts s s' : sbp s s' -> Permutation (consts_stmt s) (consts_stmt s').
Proof. intro H. unfold consts_stmt. apply flat_map_perm_ext; [apply sbp_atoms; exact H|reflexivity]. Qed.

Lemma sbp_domain P P' : Forall2 sbp P P' -> Permutation (domain P) (domain P').
Proof.
  intro H. unfold domain. apply nodup_perm. induction H as [|s s' l l' Hs HF IH]; simpl; [constructor|].
  apply Permutation_app; [apply sbp_consts; exact Hs|exact IH].
Qed.

Lemma cbp_clause_map sg c c' : cbp atom c c' -> cbp gatom (clause_map (inst_atom sg) c) (clause_map (inst_atom sg) c').
Proof.
  destruct c as [h b|hs b], c' as [h' b'|hs' b']; simpl; try contradiction; intros [E Hb]; subst;
    (split; [reflexivity|apply Permutation_map; exact Hb]).
Qed.

Lemma sbp_ground_stmt dom s s' : sbp s s' ->
  Forall2 (cbp gatom) (g_clauses (ground_stmt dom s)) (g_clauses (ground_stmt dom s')) /\
  g_queries (ground_stmt dom s) = g_queries (ground_stmt dom s') /\
  g_evid (ground_stmt dom s) = g_evid (ground_stmt dom s').
Proof.
  intro H. pose proof (sbp_vars s s' H) as HV.
  destruct s as [c|a|a v], s' as [c'|a'|a' v']; simpl in H; try contradiction.
  - simpl. rewrite <- HV. repeat split; try reflexivity.
    induction (substs (vars_stmt (SClause c)) dom) as [|sg l IH]; simpl; constructor; [|exact IH].
    apply cbp_clause_map. exact H.
  - subst. simpl. repeat split; constructor.
  - destruct H; subst. simpl. repeat split; constructor.
Qed.

Lemma sbp_ground_with dom P P' : Forall2 sbp P P' ->
  Forall2 (cbp gatom) (g_clauses (ground_with dom P)) (g_clauses (ground_with dom P')) /\
  g_queries (ground_with dom P) = g_queries (ground_with dom P') /\
  g_evid (ground_with dom P) = g_evid (ground_with dom P').
Proof.
  induction 1 as [|s s' l l' Hs HF IH]; simpl; [repeat split; constructor|].
  destruct IH as [I1 [I2 I3]]. destruct (sbp_ground_stmt dom s s' Hs) as [J1 [J2 J3]].
  repeat split; [apply Forall2_app; assumption|rewrite I2, J2; reflexivity|rewrite I3, J3; reflexivity].
Qed.

Theorem prob_perm_body P P' q : Forall2 sbp P P' -> prob P q = prob P' q.
Proof.
  intro H. unfold prob, gprob, ground.
  destruct (sbp_ground_with (domain P) P P' H) as [Hc [_ He]].
  rewrite (prob_gen_perm_body gatom gatom_eqb gatom_eqb_spec _ _ (g_evid (ground_with (domain P) P)) q Hc).
  rewrite He.
  assert (Permutation P' P') as HPP by reflexivity.
  destruct (ground_with_perm (domain P) (domain P') P' P' (sbp_domain P P' H) HPP) as [Kc [_ Ke]].
  apply (prob_gen_perm_clauses gatom gatom_eqb gatom_eqb_spec); assumption.
Qed.
