(* Sem/FuelProofs.v — the fuel of the fixpoint iterations of Sem.v always suffices:
   gamma and wfm never return None, hence prob_gen never returns OutOfFuel. *)
From Coq Require Import NArith QArith List Bool Permutation Lia.
From PL.Sem Require Import Program Sem SemBasics PermProofs StratProofs.
Import ListNotations.
Local Open Scope nat_scope.

Section Fuel.
Variable A : Type.
Variable eqb : A -> A -> bool.
Hypothesis eqb_spec : forall x y, eqb x y = true <-> x = y.

Notation nrule := (nrule A).
Notation mem := (mem A eqb).
Notation subset := (subset A eqb).
Notation derivable := (derivable A eqb).
Notation step := (step A eqb).

Lemma derivable_mono R Ng T T' a : incl T T' -> derivable R Ng T a = true -> derivable R Ng T' a = true.
Proof.
  intros H Hd. apply (derivable_inv A eqb eqb_spec) in Hd. destruct Hd as [b [Hin [Hp Hn]]].
  apply (derivable_intro A eqb eqb_spec R Ng T' a b Hin); [|exact Hn]. intros c Hc. apply H. apply Hp. exact Hc.
Qed.

Lemma step_mono R U Ng T T' : incl T T' -> incl (step R U Ng T) (step R U Ng T').
Proof.
  intros H a Ha. unfold Sem.step in *. apply filter_In in Ha. destruct Ha as [HaU Hd].
  apply filter_In. split; [exact HaU|]. apply (derivable_mono R Ng T T' a H Hd).
Qed.

Lemma step_incl_U R U Ng T : incl (step R U Ng T) U.
Proof. intros a Ha. unfold Sem.step in Ha. apply filter_In in Ha. tauto. Qed.

Lemma subset_false_witness I J : subset I J = false -> exists x, In x I /\ ~ In x J.
Proof.
  unfold Sem.subset. induction I as [|a I IH]; simpl; [discriminate|].
  destruct (mem a J) eqn:Em; simpl.
  - intro H. destruct (IH H) as [x [Hx Hn]]. exists x. split; [right; exact Hx|exact Hn].
  - intros _. exists a. split; [left; reflexivity|]. apply (mem_false A eqb eqb_spec). exact Em.
Qed.

(* how many atoms of the universe an interpretation contains *)
Definition cnt (U T : list A) : nat := length (filter (fun a => mem a T) U).

Lemma cnt_le U T : cnt U T <= length U.
Proof. apply filter_len_le. Qed.

Lemma cnt_lt U T T' x : incl T T' -> In x U -> In x T' -> ~ In x T -> cnt U T < cnt U T'.
Proof.
  intros H HxU HxT' HxT. unfold cnt. apply (filter_length_lt _ _ U x).
  - intros a _ Ha. apply (mem_spec A eqb eqb_spec). apply H. apply (mem_spec A eqb eqb_spec). exact Ha.
  - exact HxU.
  - apply (mem_spec A eqb eqb_spec). exact HxT'.
  - apply (mem_false A eqb eqb_spec). exact HxT.
Qed.

(* the Kleene iteration terminates within |U| + 1 steps *)
Lemma lfp_iter_total R U Ng : forall fuel T,
  incl T (step R U Ng T) -> length U - cnt U T < fuel ->
  lfp_iter A eqb fuel R U Ng T <> None.
Proof.
  induction fuel as [|f IH]; intros T Hpre Hm; [lia|]. simpl.
  destruct (subset (step R U Ng T) T) eqn:Es; [discriminate|].
  destruct (subset_false_witness _ _ Es) as [x [Hx Hnx]].
  apply IH.
  - apply step_mono. exact Hpre.
  - pose proof (cnt_lt U T (step R U Ng T) x Hpre (step_incl_U R U Ng T x Hx) Hx Hnx) as K.
    pose proof (cnt_le U (step R U Ng T)). lia.
Qed.

Theorem gamma_total R U Ng : gamma A eqb R U Ng <> None.
Proof.
  unfold gamma. apply lfp_iter_total; [intros a []|]. pose proof (cnt_le U []). lia.
Qed.

(* ------------------------------------------------------------------ gamma = derivability; antimonotone *)
Lemma gamma_char R U Ng X : gamma A eqb R U Ng = Some X -> forall a, In a X <-> deriv A R U Ng a.
Proof.
  intros H a. split; [apply (gamma_deriv A eqb eqb_spec R U Ng X H)|].
  induction 1 as [a b HaU Hin Hp IHp Hn].
  apply (gamma_closed A eqb eqb_spec R U Ng X H a HaU).
  apply (derivable_intro A eqb eqb_spec R Ng X a b Hin); [exact IHp|exact Hn].
Qed.

Lemma deriv_antimono R U Ng Ng' a : incl Ng Ng' -> deriv A R U Ng' a -> deriv A R U Ng a.
Proof.
  intros H. induction 1 as [a b HaU Hin Hp IHp Hn].
  apply (deriv_intro A R U Ng a b HaU Hin IHp). intros c Hc Hcn. apply (Hn c Hc). apply H. exact Hcn.
Qed.

Lemma gamma_antimono R U Ng Ng' X X' :
  gamma A eqb R U Ng = Some X -> gamma A eqb R U Ng' = Some X' -> incl Ng Ng' -> incl X' X.
Proof.
  intros H H' Hi a Ha. apply (gamma_char R U Ng X H). apply (deriv_antimono R U Ng Ng' a Hi).
  apply (gamma_char R U Ng' X' H'). exact Ha.
Qed.

Lemma gamma_incl_U R U Ng X : gamma A eqb R U Ng = Some X -> incl X U.
Proof.
  intros H a Ha. apply (gamma_char R U Ng X H) in Ha. destruct Ha as [a b HaU _ _ _]. exact HaU.
Qed.

(* the alternating fixpoint terminates within |U| + 1 rounds *)
Lemma wfm_iter_total R U : forall fuel T,
  (forall Uk T', gamma A eqb R U T = Some Uk -> gamma A eqb R U Uk = Some T' -> incl T T') ->
  length U - cnt U T < fuel -> wfm_iter A eqb fuel R U T <> None.
Proof.
  induction fuel as [|f IH]; intros T Hinv Hm; [lia|]. simpl.
  destruct (gamma A eqb R U T) as [Uk|] eqn:E1; [|exfalso; apply (gamma_total R U T E1)].
  destruct (gamma A eqb R U Uk) as [T'|] eqn:E2; [|exfalso; apply (gamma_total R U Uk E2)].
  destruct (subset T' T) eqn:Es; [discriminate|].
  destruct (subset_false_witness _ _ Es) as [x [Hx Hnx]].
  pose proof (Hinv Uk T' eq_refl E2) as HTT'.
  apply IH.
  - intros Uk' T'' E1' E2'.
    pose proof (gamma_antimono R U T T' Uk Uk' E1 E1' HTT') as HU.   (* Uk' <= Uk *)
    apply (gamma_antimono R U Uk' Uk T'' T' E2' E2 HU).
  - pose proof (cnt_lt U T T' x HTT' (gamma_incl_U R U Uk T' E2 x Hx) Hx Hnx) as K.
    pose proof (cnt_le U T'). lia.
Qed.

Theorem wfm_total R U : wfm A eqb R U <> None.
Proof.
  unfold wfm. apply wfm_iter_total; [intros Uk T' _ _ a []|]. pose proof (cnt_le U []). lia.
Qed.

(* ------------------------------------------------------------------ prob_gen never runs out of fuel *)
Local Open Scope Q_scope.
Theorem prob_gen_fuel cs ev q : prob_gen A eqb cs ev q <> OutOfFuel.
Proof.
  unfold prob_gen.
  assert (wsum A (ind_fuel A eqb (universe A eqb cs)) cs [] == 0) as Z.
  { apply (wsum_zero A). intros wt R _. unfold ind_fuel.
    destruct (wfm A eqb R (universe A eqb cs)) eqn:E; [reflexivity|]. exfalso. apply (wfm_total R _ E). }
  apply Qeq_bool_iff in Z. rewrite Z. cbn [negb].
  repeat match goal with |- (if ?c then _ else _) <> _ => destruct c end; discriminate.
Qed.

End Fuel.
