(* Sem/Sem.v — distribution (possible-world) semantics of ground ProbLog programs,
   exact rational arithmetic.  Executable definitions only; no proofs here.

   * A total choice selects, for every ground AD instance, one alternative
     (head i with probability p_i) or none (probability 1 - sum p).  The world
     of a total choice is a NORMAL logic program: the rules of the program plus
     `h_i :- body` for every selected alternative.
   * The model of a world is its well-founded model, computed by the
     alternating fixpoint (T = atoms true, Uk = atoms true-or-undefined).
     Every iteration carries an explicit convergence test; running out of fuel
     is an explicit error value (never a silent default).
   * `wsum F cs acc` = sum over the total choices of `cs` of weight * F(world).
   * prob = P(q /\ e) / P(e); `Inconsistent` when P(e) = 0; `NotTwoValued` when
     a world of positive weight has an undefined atom.

   The definitions are generic in the atom type (section variables A, eqb). *)
From Coq Require Import NArith QArith List Bool.
From PL.Sem Require Import Program.
Import ListNotations.

Inductive result := Ok (p : Q) | Inconsistent | NotTwoValued | OutOfFuel.
Inductive c02class := MustAnswer | MustReject | Either | ClassFuel.

Section Generic.
Variable A : Type.
Variable eqb : A -> A -> bool.

Definition nrule : Type := (A * list (lit A))%type.
Definition interp : Type := list A.

Definition mem (a : A) (I : interp) : bool := existsb (eqb a) I.
Definition subset (I J : interp) : bool := forallb (fun a => mem a J) I.
Fixpoint dedup (l : list A) : list A :=
  match l with
  | [] => []
  | x :: l' => if mem x l' then dedup l' else x :: dedup l'
  end.

(* a literal under (T, Ng): positive literals are looked up in T, negative
   literals are true iff their atom is NOT in Ng *)
Definition lit_true (T Ng : interp) (l : lit A) : bool :=
  match l with Pos a => mem a T | Neg a => negb (mem a Ng) end.
Definition fires (T Ng : interp) (a : A) (r : nrule) : bool :=
  eqb (fst r) a && forallb (lit_true T Ng) (snd r).
Definition derivable (rules : list nrule) (Ng T : interp) (a : A) : bool :=
  existsb (fires T Ng a) rules.
(* immediate-consequence step, restricted to the universe U *)
Definition step (rules : list nrule) (U Ng T : interp) : interp :=
  filter (derivable rules Ng T) U.

(* Kleene iteration from T until closed under `step` *)
Fixpoint lfp_iter (fuel : nat) (rules : list nrule) (U Ng T : interp) : option interp :=
  match fuel with
  | O => None
  | S f => let T' := step rules U Ng T in
           if subset T' T then Some T else lfp_iter f rules U Ng T'
  end.
(* Gamma(Ng) = least model of the reduct of `rules` w.r.t. Ng *)
Definition gamma (rules : list nrule) (U Ng : interp) : option interp :=
  lfp_iter (2 + length U) rules U Ng [].

(* alternating fixpoint: T_0 = {}, Uk = Gamma(T_k), T_{k+1} = Gamma(Uk), until T_{k+1} <= T_k *)
Fixpoint wfm_iter (fuel : nat) (rules : list nrule) (U T : interp) : option (interp * interp) :=
  match fuel with
  | O => None
  | S f =>
    match gamma rules U T with
    | None => None
    | Some Uk =>
      match gamma rules U Uk with
      | None => None
      | Some T' => if subset T' T then Some (T, Uk) else wfm_iter f rules U T'
      end
    end
  end.
Definition wfm (rules : list nrule) (U : interp) : option (interp * interp) :=
  wfm_iter (2 + length U) rules U [].

Definition two_valued (m : interp * interp) : bool := subset (snd m) (fst m).

(* ---------------------------------------------------------------- worlds *)
Definition heads_of (cs : list (clause A)) : list A := flat_map (@clause_heads A) cs.
Definition universe (cs : list (clause A)) : interp := dedup (heads_of cs).

Section Sum.
Variable F : list nrule -> Q.
(* sum over the alternatives of one AD instance; k = value of the rest given the extended world *)
Definition ad_sum (hs : list (Q * A)) (b : list (lit A)) (acc : list nrule) (k : list nrule -> Q) : Q :=
  Qred (fold_right (fun ph s => fst ph * k ((snd ph, b) :: acc) + s)
                   ((1 - sum_p hs) * k acc) hs).
Fixpoint wsum (cs : list (clause A)) (acc : list nrule) : Q :=
  match cs with
  | [] => F acc
  | Rule h b :: cs' => wsum cs' ((h, b) :: acc)
  | AD hs b :: cs' => ad_sum hs b acc (wsum cs')
  end.
End Sum.

(* explicit list of worlds (weight, normal program); used in statements only *)
Fixpoint worlds (cs : list (clause A)) (acc : list nrule) (w : Q) : list (Q * list nrule) :=
  match cs with
  | [] => [(w, acc)]
  | Rule h b :: cs' => worlds cs' ((h, b) :: acc) w
  | AD hs b :: cs' =>
      flat_map (fun ph => worlds cs' ((snd ph, b) :: acc) (w * fst ph)) hs
      ++ worlds cs' acc (w * (1 - sum_p hs))
  end.

(* ---------------------------------------------------------------- indicators *)
Definition holds (T : interp) (ev : list (A * bool)) : bool :=
  forallb (fun av => Bool.eqb (mem (fst av) T) (snd av)) ev.
Definition b2q (b : bool) : Q := if b then 1 else 0.

Definition ind_fuel (U : interp) (acc : list nrule) : Q :=
  match wfm acc U with None => 1 | Some _ => 0 end.
(* some atom satisfying `rel` is undefined *)
Definition ind_undef (U : interp) (rel : A -> bool) (acc : list nrule) : Q :=
  match wfm acc U with
  | None => 0
  | Some m => b2q (negb (subset (filter rel (snd m)) (fst m)))
  end.
Definition ind_true (U : interp) (chk : interp -> bool) (acc : list nrule) : Q :=
  match wfm acc U with None => 0 | Some m => b2q (chk (fst m)) end.

Definition prob_gen (cs : list (clause A)) (ev : list (A * bool)) (q : A) : result :=
  let U := universe cs in
  if negb (Qeq_bool (wsum (ind_fuel U) cs []) 0) then OutOfFuel
  else if negb (Qeq_bool (wsum (ind_undef U (fun _ => true)) cs []) 0) then NotTwoValued
  else
    let pe := wsum (ind_true U (fun T => holds T ev)) cs [] in
    if Qeq_bool pe 0 then Inconsistent
    else Ok (Qred (wsum (ind_true U (fun T => mem q T && holds T ev)) cs [] / pe)).

(* ---------------------------------------------------------------- dependency graph, C02 classes *)
(* edges head -> body atom, with sign (true = through negation) *)
Definition edges_clause (c : clause A) : list (A * A * bool) :=
  flat_map (fun h => map (fun l => match l with Pos a => (h, a, false) | Neg a => (h, a, true) end)
                         (clause_body c)) (clause_heads c).
Definition edges (cs : list (clause A)) : list (A * A * bool) := flat_map edges_clause cs.
Definition succs (E : list (A * A * bool)) (x : A) : list A :=
  map (fun e => snd (fst e)) (filter (fun e => eqb (fst (fst e)) x) E).
(* closure of R under successors; convergence-tested *)
Fixpoint close_iter (fuel : nat) (E : list (A * A * bool)) (R : list A) : option (list A) :=
  match fuel with
  | O => None
  | S f => let N := flat_map (succs E) R in
           if subset N R then Some R else close_iter f E (dedup (R ++ N))
  end.
Definition nodes (E : list (A * A * bool)) : list A :=
  dedup (flat_map (fun e => [fst (fst e); snd (fst e)]) E).
(* atoms reachable from x by one or more edges *)
Definition reach (E : list (A * A * bool)) (x : A) : option (list A) :=
  close_iter (2 + length (nodes E)) E (dedup (succs E x)).
(* the atoms that occur negated *)
Definition neg_targets (E : list (A * A * bool)) : list A :=
  dedup (map (fun e => snd (fst e)) (filter (fun e : A * A * bool => snd e) E)).
(* is there a negative edge h -neg-> b with h = b or b reaching h ? *)
Definition closes_neg_cycle (E : list (A * A * bool)) (b : A) (R : list A) : bool :=
  existsb (fun e : A * A * bool => snd e && eqb (snd (fst e)) b && (eqb (fst (fst e)) b || mem (fst (fst e)) R)) E.
(* no cycle through a negative edge *)
Definition neg_cycle_free_E (E : list (A * A * bool)) : option bool :=
  fold_right (fun (b : A) (r : option bool) =>
     match r, reach E b with
     | Some ok, Some R => Some (ok && negb (closes_neg_cycle E b R))
     | _, _ => None
     end) (Some true) (neg_targets E).
Definition neg_cycle_free (cs : list (clause A)) : option bool := neg_cycle_free_E (edges cs).

(* the dependency cone of the goals: the goals and everything reachable from them *)
Definition cone (E : list (A * A * bool)) (goals : list A) : option (list A) :=
  close_iter (2 + length (nodes E) + length goals) E (dedup goals).

Definition classify (cs : list (clause A)) (goals : list A) : c02class :=
  let E := edges cs in
  let U := universe cs in
  match neg_cycle_free_E E, cone E goals with
  | Some true, Some _ =>
      if Qeq_bool (wsum (ind_fuel U) cs []) 0 then MustAnswer else ClassFuel
  | Some false, Some C =>
      if negb (Qeq_bool (wsum (ind_fuel U) cs []) 0) then ClassFuel
      else if Qeq_bool (wsum (ind_undef U (fun a => mem a C)) cs []) 0 then Either else MustReject
  | _, _ => ClassFuel
  end.

End Generic.

(* ---------------------------------------------------------------- instances on ground atoms *)
Definition gprob (G : gprog) (q : gatom) : result :=
  prob_gen gatom gatom_eqb (g_clauses G) (g_evid G) q.

Definition goals (G : gprog) : list gatom := g_queries G ++ map fst (g_evid G).

Definition gclassify (G : gprog) : c02class :=
  classify gatom gatom_eqb (g_clauses G) (goals G).

(* the semantics of a first-order program: instantiate, then evaluate each ground query *)
Definition prob (P : program) (q : gatom) : result := gprob (ground P) q.
Definition answers (P : program) : list (gatom * result) :=
  let G := ground P in map (fun q => (q, gprob G q)) (g_queries G).
