(* Sem/WMCProofs.v — the exactly-one encoding of annotated disjunctions with the extra "none"
   variable is the categorical distribution (ad_encoding), hence the weighted model count equals
   the possible-world sum, and the conditional probability is the ratio of two counts. *)
From Coq Require Import NArith QArith List Bool Permutation Lia.
From PL.Sem Require Import Program Sem SemBasics PermProofs WMC.
Import ListNotations.

Lemma qsum_app l l' : qsum (l ++ l') == qsum l + qsum l'.
Proof. induction l as [|x l IH]; simpl; [ring|]. rewrite IH. ring. Qed.

Lemma qsum_map_ext {X} (f g : X -> Q) l : (forall x, In x l -> f x == g x) -> qsum (map f l) == qsum (map g l).
Proof.
  induction l as [|x l IH]; simpl; intro H; [reflexivity|].
  rewrite (H x) by (left; reflexivity). rewrite IH by (intros; apply H; right; assumption). reflexivity.
Qed.

Lemma qsum_map_zero {X} (l : list X) : qsum (map (fun _ => 0) l) == 0.
Proof. induction l as [|x l IH]; simpl; [reflexivity|]. rewrite IH. ring. Qed.

Lemma count_true_cons b bs : count_true (b :: bs) = ((if b then 1 else 0) + count_true bs)%nat.
Proof. unfold count_true. simpl. destruct b; reflexivity. Qed.

Lemma lit_weight_none ws : forall bs, count_true bs = 0%nat -> lit_weight ws bs == 1.
Proof.
  induction ws as [|w ws IH]; intros [|b bs] H; simpl; try reflexivity.
  rewrite count_true_cons in H. destruct b; [simpl in H; lia|]. simpl in H. rewrite (IH bs H). ring.
Qed.

Lemma assignments_S n : assignments (S n) = map (cons true) (assignments n) ++ map (cons false) (assignments n).
Proof. reflexivity. Qed.

(* exactly one assignment has no true variable *)
Lemma sum_all_false n c :
  qsum (map (fun bs => if Nat.eqb (count_true bs) 0 then c else 0) (assignments n)) == c.
Proof.
  induction n as [|n IH]; [simpl; ring|]. rewrite assignments_S.
  rewrite map_app, qsum_app, !map_map.
  rewrite (qsum_map_ext _ (fun _ => 0)).
  - rewrite qsum_map_zero.
    rewrite (qsum_map_ext _ (fun bs => if Nat.eqb (count_true bs) 0 then c else 0)).
    + rewrite IH. ring.
    + intros bs _. rewrite count_true_cons. simpl. reflexivity.
  - intros bs _. rewrite count_true_cons. simpl. reflexivity.
Qed.

Section P.
Variable A : Type.

(* the encoding with an arbitrary weight w0 for the extra variable *)
Lemma ad_encoding_gen (g : option A -> Q) : forall (hs : list (Q * A)) (w0 : Q),
  qsum (map (fun bs => if exactly_one bs then lit_weight (map fst hs ++ [w0]) bs * g (selected A hs bs) else 0)
            (assignments (S (length hs))))
  == lsum hs (fun h => g (Some h)) + w0 * g None.
Proof.
  induction hs as [|[p h] hs IH]; intro w0.
  - simpl. unfold exactly_one, count_true. simpl. ring.
  - change (length ((p, h) :: hs)) with (S (length hs)). rewrite (assignments_S (S (length hs))).
    rewrite map_app, qsum_app, !map_map.
    (* first variable true: the rest must be all false *)
    rewrite (qsum_map_ext _ (fun bs => if Nat.eqb (count_true bs) 0 then p * g (Some h) else 0)).
    + rewrite sum_all_false.
      (* first variable false: the induction hypothesis *)
      rewrite (qsum_map_ext _ (fun bs => if exactly_one bs then lit_weight (map fst hs ++ [w0]) bs * g (selected A hs bs) else 0)).
      * rewrite IH. simpl. ring.
      * intros bs _. unfold exactly_one. rewrite count_true_cons. simpl.
        destruct (Nat.eqb (count_true bs) 1); [ring|reflexivity].
    + intros bs _. unfold exactly_one. rewrite count_true_cons. simpl.
      destruct (Nat.eqb (count_true bs) 0) eqn:E; [|reflexivity].
      apply Nat.eqb_eq in E. rewrite (lit_weight_none _ bs E). ring.
Qed.

(* C01 ad_encoding: exactly-one over k+1 variables with weights p_1..p_k, 1 - sum p (negative literals 1)
   is the categorical distribution over {h_1, .., h_k, none} *)
Theorem ad_encoding (hs : list (Q * A)) (g : option A -> Q) : wmc_ad A hs g == expect hs g.
Proof. unfold wmc_ad, ad_weights, expect. apply ad_encoding_gen. Qed.

Lemma extend_ext o b acc : extend A o b acc = ext A o b acc.
Proof. destruct o; reflexivity. Qed.

(* the weighted model count equals the possible-world sum *)
Theorem wmc_wsum F : forall cs acc, wmc A F cs acc == wsum A F cs acc.
Proof.
  induction cs as [|c cs IH]; intro acc; simpl; [reflexivity|].
  destruct c as [h b|hs b]; [apply IH|].
  rewrite ad_encoding, ad_sum_expect. apply expect_ext. intro o. rewrite extend_ext. apply IH.
Qed.
End P.

(* conditional_def: whenever the semantics answers, the answer is the ratio of two weighted model counts *)
Theorem conditional_def (A : Type) (eqb : A -> A -> bool) cs ev q p :
  prob_gen A eqb cs ev q = Ok p ->
  let U := universe A eqb cs in
  let we := wmc A (ind_true A eqb U (fun T => holds A eqb T ev)) cs [] in
  let wqe := wmc A (ind_true A eqb U (fun T => mem A eqb q T && holds A eqb T ev)) cs [] in
  ~ we == 0 /\ p == wqe / we.
Proof.
  intros H U we wqe. unfold prob_gen in H.
  destruct (negb (Qeq_bool (wsum A (ind_fuel A eqb (universe A eqb cs)) cs []) 0)); [discriminate|].
  destruct (negb (Qeq_bool (wsum A (ind_undef A eqb (universe A eqb cs) (fun _ => true)) cs []) 0)); [discriminate|].
  destruct (Qeq_bool (wsum A (ind_true A eqb (universe A eqb cs) (fun T => holds A eqb T ev)) cs []) 0) eqn:E; [discriminate|].
  match type of H with Ok ?t = Ok _ =>
    assert (Hp : t = p) by (exact (f_equal (fun r => match r with Ok x => x | _ => t end) H)) end.
  clear H. subst p. apply Qeq_bool_neq in E. unfold we, wqe, U. rewrite !wmc_wsum. split; [exact E|].
  apply Qred_correct.
Qed.

Theorem inconsistent_def (A : Type) (eqb : A -> A -> bool) cs ev q :
  prob_gen A eqb cs ev q = Inconsistent ->
  wmc A (ind_true A eqb (universe A eqb cs) (fun T => holds A eqb T ev)) cs [] == 0.
Proof.
  intro H. unfold prob_gen in H.
  destruct (negb (Qeq_bool (wsum A (ind_fuel A eqb (universe A eqb cs)) cs []) 0)); [discriminate|].
  destruct (negb (Qeq_bool (wsum A (ind_undef A eqb (universe A eqb cs) (fun _ => true)) cs []) 0)); [discriminate|].
  destruct (Qeq_bool (wsum A (ind_true A eqb (universe A eqb cs) (fun T => holds A eqb T ev)) cs []) 0) eqn:E; [|discriminate].
  apply Qeq_bool_iff in E. rewrite wmc_wsum. exact E.
Qed.
