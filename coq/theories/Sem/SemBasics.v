(* Sem/SemBasics.v — basic facts about the executable definitions of Sem.v that
   every proof file of the Sem slice uses: the boolean set operations are what
   they look like, given a sound and complete equality test. *)
From Coq Require Import NArith QArith List Bool Permutation Lia.
From PL.Sem Require Import Program Sem.
Import ListNotations.

Lemma list_eqb_spec {X} (e : X -> X -> bool) :
  (forall x y, e x y = true <-> x = y) ->
  forall a b, list_eqb e a b = true <-> a = b.
Proof.
  intros He a. induction a as [|x a IH]; intros [|y b]; simpl; split; intro H;
    try reflexivity; try discriminate.
  - apply andb_true_iff in H. destruct H as [H1 H2].
    apply He in H1. apply IH in H2. subst. reflexivity.
  - inversion H; subst. apply andb_true_iff. split; [apply He|apply IH]; reflexivity.
Qed.

Lemma gatom_eqb_spec : forall a b : gatom, gatom_eqb a b = true <-> a = b.
Proof.
  intros [p xs] [q ys]. unfold gatom_eqb. simpl. rewrite andb_true_iff.
  rewrite N.eqb_eq. rewrite (list_eqb_spec N.eqb N.eqb_eq). split.
  - intros [H1 H2]. subst. reflexivity.
  - intro H. inversion H. split; reflexivity.
Qed.

Section Basics.
Variable A : Type.
Variable eqb : A -> A -> bool.
Hypothesis eqb_spec : forall x y, eqb x y = true <-> x = y.

Lemma eqb_refl : forall x, eqb x x = true.
Proof. intro x. apply eqb_spec. reflexivity. Qed.

Lemma eqb_sym : forall x y, eqb x y = eqb y x.
Proof.
  intros x y. destruct (eqb x y) eqn:E1, (eqb y x) eqn:E2; try reflexivity.
  - apply eqb_spec in E1. subst. rewrite eqb_refl in E2. discriminate.
  - apply eqb_spec in E2. subst. rewrite eqb_refl in E1. discriminate.
Qed.

Lemma mem_spec : forall a I, mem A eqb a I = true <-> In a I.
Proof.
  intros a I. unfold mem. rewrite existsb_exists. split.
  - intros [x [Hin He]]. apply eqb_spec in He. subst. exact Hin.
  - intro Hin. exists a. split; [exact Hin|apply eqb_refl].
Qed.

Lemma mem_false : forall a I, mem A eqb a I = false <-> ~ In a I.
Proof.
  intros a I. rewrite <- mem_spec. destruct (mem A eqb a I); split; intro H; try reflexivity;
    try discriminate; try (intro H'; discriminate). exfalso. apply H. reflexivity.
Qed.

Lemma subset_spec : forall I J, subset A eqb I J = true <-> incl I J.
Proof.
  intros I J. unfold subset. rewrite forallb_forall. split.
  - intros H a Ha. apply mem_spec. apply H. exact Ha.
  - intros H a Ha. apply mem_spec. apply H. exact Ha.
Qed.

Lemma dedup_In : forall a l, In a (dedup A eqb l) <-> In a l.
Proof.
  intros a l. induction l as [|x l IH]; simpl; [tauto|].
  destruct (mem A eqb x l) eqn:E.
  - rewrite IH. split; [tauto|]. intros [H|H]; [|exact H]. subst. apply mem_spec. exact E.
  - simpl. rewrite IH. tauto.
Qed.

Lemma dedup_NoDup : forall l, NoDup (dedup A eqb l).
Proof.
  induction l as [|x l IH]; simpl; [constructor|].
  destruct (mem A eqb x l) eqn:E; [exact IH|].
  constructor; [|exact IH]. rewrite dedup_In. apply mem_false. exact E.
Qed.

(* membership only depends on the set of elements *)
Lemma mem_ext : forall a I J, (forall x, In x I <-> In x J) -> mem A eqb a I = mem A eqb a J.
Proof.
  intros a I J H. destruct (mem A eqb a I) eqn:E1, (mem A eqb a J) eqn:E2; try reflexivity.
  - apply mem_spec in E1. apply H in E1. apply mem_spec in E1. congruence.
  - apply mem_spec in E2. apply H in E2. apply mem_spec in E2. congruence.
Qed.

Lemma mem_perm : forall a I J, Permutation I J -> mem A eqb a I = mem A eqb a J.
Proof.
  intros a I J H. apply mem_ext. intro x. split; apply Permutation_in; [exact H|symmetry; exact H].
Qed.

Lemma dedup_perm : forall l l', Permutation l l' -> Permutation (dedup A eqb l) (dedup A eqb l').
Proof.
  intros l l' H. apply NoDup_Permutation; try apply dedup_NoDup.
  intro x. rewrite !dedup_In. split; apply Permutation_in; [exact H|symmetry; exact H].
Qed.

(* lfp_iter returns a set closed under the step it iterates *)
Lemma lfp_iter_closed : forall fuel rules U Ng T0 T,
  lfp_iter A eqb fuel rules U Ng T0 = Some T ->
  subset A eqb (step A eqb rules U Ng T) T = true.
Proof.
  induction fuel as [|f IH]; intros rules U Ng T0 T H; simpl in H; [discriminate|].
  destruct (subset A eqb (step A eqb rules U Ng T0) T0) eqn:E.
  - inversion H; subst. exact E.
  - apply IH in H. exact H.
Qed.

End Basics.
