(* Sem/StratProofs.v — C02, semantic side: if the ground dependency graph has no
   cycle through negation, the well-founded model of every world is two-valued. *)
From Coq Require Import NArith QArith List Bool Permutation Lia.
From PL.Sem Require Import Program Sem SemBasics PermProofs.
Import ListNotations.
Local Open Scope nat_scope.

Lemma filter_length_le {X} (p q : X -> bool) l :
  (forall x, In x l -> p x = true -> q x = true) -> length (filter p l) <= length (filter q l).
Proof.
  induction l as [|x l IH]; simpl; intro H; [lia|].
  assert (length (filter p l) <= length (filter q l)) as K by (apply IH; intros; apply H; auto).
  destruct (p x) eqn:Ep.
  - rewrite (H x (or_introl eq_refl) Ep). simpl. lia.
  - destruct (q x); simpl; lia.
Qed.

Lemma filter_length_lt {X} (p q : X -> bool) l c :
  (forall x, In x l -> p x = true -> q x = true) -> In c l -> q c = true -> p c = false ->
  length (filter p l) < length (filter q l).
Proof.
  induction l as [|x l IH]; simpl; intros H Hc Hq Hp; [contradiction|].
  assert (forall y, In y l -> p y = true -> q y = true) as H' by (intros; apply H; auto).
  destruct Hc as [E|Hc].
  - subst x. rewrite Hp, Hq. simpl. pose proof (filter_length_le p q l H'). lia.
  - specialize (IH H' Hc Hq Hp). destruct (p x) eqn:Ep.
    + rewrite (H x (or_introl eq_refl) Ep). simpl. lia.
    + destruct (q x); simpl; lia.
Qed.

Lemma filter_len_le {X} (p : X -> bool) l : length (filter p l) <= length l.
Proof. induction l as [|x l IH]; simpl; [lia|]. destruct (p x); simpl; lia. Qed.

Section Strat.
Variable A : Type.
Variable eqb : A -> A -> bool.
Hypothesis eqb_spec : forall x y, eqb x y = true <-> x = y.

Notation nrule := (nrule A).
Notation mem := (mem A eqb).
Notation subset := (subset A eqb).
Notation derivable := (derivable A eqb).

(* ------------------------------------------------------------------ A. stratified => two-valued *)
Definition lit_ok (lvl : A -> nat) (h : A) (l : lit A) : Prop :=
  match l with Pos a => lvl a <= lvl h | Neg a => lvl a < lvl h end.
Definition stratified_by (lvl : A -> nat) (R : list nrule) : Prop :=
  forall h b, In (h, b) R -> forall l, In l b -> lit_ok lvl h l.

Inductive deriv (R : list nrule) (U Ng : list A) : A -> Prop :=
| deriv_intro : forall a b, In a U -> In (a, b) R ->
    (forall c, In (Pos c) b -> deriv R U Ng c) ->
    (forall c, In (Neg c) b -> ~ In c Ng) -> deriv R U Ng a.

Lemma derivable_inv R Ng T a : derivable R Ng T a = true ->
  exists b, In (a, b) R /\ (forall c, In (Pos c) b -> In c T) /\ (forall c, In (Neg c) b -> ~ In c Ng).
Proof.
  unfold Sem.derivable. rewrite existsb_exists. intros [[h b] [Hin Hf]]. unfold fires in Hf. simpl in Hf.
  apply andb_true_iff in Hf. destruct Hf as [He Hb]. apply eqb_spec in He. subst h.
  exists b. split; [exact Hin|]. rewrite forallb_forall in Hb. split; intros c Hc.
  - specialize (Hb _ Hc). simpl in Hb. apply (mem_spec A eqb eqb_spec). exact Hb.
  - specialize (Hb _ Hc). simpl in Hb. apply negb_true_iff in Hb. apply (mem_false A eqb eqb_spec). exact Hb.
Qed.

Lemma derivable_intro R Ng T a b : In (a, b) R ->
  (forall c, In (Pos c) b -> In c T) -> (forall c, In (Neg c) b -> ~ In c Ng) -> derivable R Ng T a = true.
Proof.
  intros Hin Hp Hn. unfold Sem.derivable. rewrite existsb_exists. exists (a, b). split; [exact Hin|].
  unfold fires. simpl. rewrite (eqb_refl A eqb eqb_spec). simpl. apply forallb_forall. intros [c|c] Hc; simpl.
  - apply (mem_spec A eqb eqb_spec). apply Hp. exact Hc.
  - apply negb_true_iff. apply (mem_false A eqb eqb_spec). apply Hn. exact Hc.
Qed.

Lemma lfp_iter_deriv R U Ng fuel : forall T0 X,
  (forall a, In a T0 -> deriv R U Ng a) ->
  lfp_iter A eqb fuel R U Ng T0 = Some X -> forall a, In a X -> deriv R U Ng a.
Proof.
  induction fuel as [|f IH]; intros T0 X H0 H; simpl in H; [discriminate|].
  destruct (subset (step A eqb R U Ng T0) T0).
  - inversion H; subst. exact H0.
  - apply (IH (step A eqb R U Ng T0) X); [|exact H]. intros a Ha.
    unfold step in Ha. apply filter_In in Ha. destruct Ha as [HaU Hd].
    apply derivable_inv in Hd. destruct Hd as [b [Hin [Hp Hn]]].
    apply (deriv_intro R U Ng a b HaU Hin); [|exact Hn]. intros c Hc. apply H0. apply Hp. exact Hc.
Qed.

Lemma gamma_deriv R U Ng X : gamma A eqb R U Ng = Some X -> forall a, In a X -> deriv R U Ng a.
Proof. unfold gamma. apply lfp_iter_deriv. intros a []. Qed.

Lemma gamma_closed R U Ng X : gamma A eqb R U Ng = Some X ->
  forall a, In a U -> derivable R Ng X a = true -> In a X.
Proof.
  unfold gamma. intros H a HaU Hd. apply (lfp_iter_closed A eqb) in H.
  apply (subset_spec A eqb eqb_spec) in H. apply H. unfold step. apply filter_In. split; assumption.
Qed.

Lemma wfm_iter_spec fuel : forall R U T0 T Uk,
  wfm_iter A eqb fuel R U T0 = Some (T, Uk) ->
  gamma A eqb R U T = Some Uk /\ exists T', gamma A eqb R U Uk = Some T' /\ incl T' T.
Proof.
  induction fuel as [|f IH]; intros R U T0 T Uk H; simpl in H; [discriminate|].
  destruct (gamma A eqb R U T0) as [Uk0|] eqn:E1; [|discriminate].
  destruct (gamma A eqb R U Uk0) as [T1|] eqn:E2; [|discriminate].
  destruct (subset T1 T0) eqn:E3.
  - inversion H; subst. split; [exact E1|]. exists T1. split; [exact E2|].
    apply (subset_spec A eqb eqb_spec). exact E3.
  - apply IH in H. exact H.
Qed.

Theorem stratified_two_valued lvl R U T Uk :
  stratified_by lvl R -> wfm A eqb R U = Some (T, Uk) -> incl Uk T.
Proof.
  intros HS H. unfold wfm in H. apply wfm_iter_spec in H. destruct H as [HUk [T' [HT' Hincl]]].
  assert (forall n a, lvl a < n -> deriv R U T a -> In a T') as Main.
  { induction n as [|n IHn]; intros a Hl Hd; [lia|].
    revert Hl. induction Hd as [a b HaU Hin Hp IHp Hn]. intro Hl.
    apply (gamma_closed R U Uk T' HT' a HaU). apply (derivable_intro R Uk T' a b Hin).
    - intros c Hc. apply IHp; [exact Hc|]. pose proof (HS a b Hin (Pos c) Hc) as K. simpl in K. lia.
    - intros c Hc Hcu. apply (Hn c Hc). apply Hincl. apply IHn.
      + pose proof (HS a b Hin (Neg c) Hc) as K. simpl in K. lia.
      + apply (gamma_deriv R U T Uk HUk). exact Hcu. }
  intros a Ha. apply Hincl. apply (Main (S (lvl a)) a); [lia|]. apply (gamma_deriv R U T Uk HUk). exact Ha.
Qed.

(* ------------------------------------------------------------------ B. the rules of a world come from the clauses *)
Definition stratified_prog (lvl : A -> nat) (cs : list (clause A)) : Prop :=
  forall c, In c cs -> forall h, In h (clause_heads c) -> forall l, In l (clause_body c) -> lit_ok lvl h l.

Lemma worlds_rules cs : forall acc w0 wt R, In (wt, R) (worlds A cs acc w0) ->
  forall h b, In (h, b) R -> In (h, b) acc \/ exists c, In c cs /\ In h (clause_heads c) /\ b = clause_body c.
Proof.
  induction cs as [|c cs IH]; intros acc w0 wt R HR h b Hhb; simpl in HR.
  - destruct HR as [E|[]]. inversion E; subst. left. exact Hhb.
  - destruct c as [h0 b0|hs b0].
    + destruct (IH _ _ _ _ HR h b Hhb) as [K|[c [K1 [K2 K3]]]].
      * destruct K as [K|K].
        -- inversion K; subst. right. exists (Rule h b). simpl. auto.
        -- left. exact K.
      * right. exists c. simpl. auto.
    + apply in_app_or in HR. destruct HR as [HR|HR].
      * apply in_flat_map in HR. destruct HR as [[p g] [Hg HR]]. simpl in HR.
        destruct (IH _ _ _ _ HR h b Hhb) as [K|[c [K1 [K2 K3]]]].
        -- destruct K as [K|K].
           ++ inversion K; subst. right. exists (AD hs b). simpl. split; [auto|]. split; [|reflexivity].
              apply in_map_iff. exists (p, h). auto.
           ++ left. exact K.
        -- right. exists c. simpl. auto.
      * destruct (IH _ _ _ _ HR h b Hhb) as [K|[c [K1 [K2 K3]]]]; [left; exact K|].
        right. exists c. simpl. auto.
Qed.

Lemma world_stratified lvl cs w0 wt R :
  stratified_prog lvl cs -> In (wt, R) (worlds A cs [] w0) -> stratified_by lvl R.
Proof.
  intros HS HR h b Hhb l Hl. destruct (worlds_rules cs [] w0 wt R HR h b Hhb) as [[]|[c [K1 [K2 K3]]]].
  subst b. apply (HS c K1 h K2 l Hl).
Qed.

(* ------------------------------------------------------------------ C. from the boolean test to a level mapping *)
Notation edge := (A * A * bool)%type.

Lemma close_iter_spec fuel : forall (E : list edge) R0 R,
  close_iter A eqb fuel E R0 = Some R ->
  incl R0 R /\ (forall x, In x R -> incl (succs A eqb E x) R).
Proof.
  induction fuel as [|f IH]; intros E R0 R H; simpl in H; [discriminate|].
  destruct (subset (flat_map (succs A eqb E) R0) R0) eqn:Es.
  - inversion H; subst. split; [apply incl_refl|].
    apply (subset_spec A eqb eqb_spec) in Es. intros x Hx y Hy. apply Es. apply in_flat_map. exists x. auto.
  - apply IH in H. destruct H as [H1 H2]. split; [|exact H2].
    intros x Hx. apply H1. apply (dedup_In A eqb eqb_spec). apply in_or_app. left. exact Hx.
Qed.

Lemma succs_In (E : list edge) h c s : In (h, c, s) E -> In c (succs A eqb E h).
Proof.
  intro H. unfold succs. apply in_map_iff. exists (h, c, s). split; [reflexivity|].
  apply filter_In. split; [exact H|]. simpl. apply (eqb_refl A eqb eqb_spec).
Qed.

Lemma reach_spec (E : list edge) b R : reach A eqb E b = Some R ->
  incl (succs A eqb E b) R /\ (forall x, In x R -> incl (succs A eqb E x) R).
Proof.
  unfold reach. intro H. apply close_iter_spec in H. destruct H as [H1 H2]. split; [|exact H2].
  intros x Hx. apply H1. apply (dedup_In A eqb eqb_spec). exact Hx.
Qed.

Lemma ncf_fold (E : list edge) NT :
  fold_right (fun (b : A) (r : option bool) =>
     match r, reach A eqb E b with
     | Some ok, Some R => Some (ok && negb (closes_neg_cycle A eqb E b R))
     | _, _ => None
     end) (Some true) NT = Some true ->
  forall b, In b NT -> exists R, reach A eqb E b = Some R /\ closes_neg_cycle A eqb E b R = false.
Proof.
  induction NT as [|x NT IH]; simpl; intros H b Hb; [contradiction|].
  destruct (fold_right _ (Some true) NT) as [ok|] eqn:Ef; [|discriminate].
  destruct (reach A eqb E x) as [R|] eqn:Er; [|discriminate].
  inversion H as [H1]. apply andb_true_iff in H1. destruct H1 as [Hok Hx]. subst ok.
  destruct Hb as [Eb|Hb].
  - subst b. exists R. split; [exact Er|]. apply negb_true_iff. exact Hx.
  - apply IH; [reflexivity|exact Hb].
Qed.

(* the negated atoms that are above a (equal to a, or reaching a) *)
Definition above (E : list edge) (a : A) (b : A) : bool :=
  eqb b a || match reach A eqb E b with Some R => mem a R | None => false end.
Definition anti_level (E : list edge) (a : A) : nat := length (filter (above E a) (neg_targets A eqb E)).
Definition level (E : list edge) (a : A) : nat := length (neg_targets A eqb E) - anti_level E a.

Lemma anti_level_le E a : anti_level E a <= length (neg_targets A eqb E).
Proof. unfold anti_level. apply filter_len_le. Qed.

Section WithE.
Variable E : list edge.
Hypothesis Hncf : forall b, In b (neg_targets A eqb E) ->
  exists R, reach A eqb E b = Some R /\ closes_neg_cycle A eqb E b R = false.

Lemma above_edge h c s b : In b (neg_targets A eqb E) -> In (h, c, s) E -> above E h b = true -> above E c b = true.
Proof.
  intros HbN He Hb. unfold above in *. destruct (Hncf b HbN) as [R [Er _]]. rewrite Er in *.
  apply reach_spec in Er. destruct Er as [E1 E2].
  apply orb_true_iff in Hb. apply orb_true_iff. right. apply (mem_spec A eqb eqb_spec).
  destruct Hb as [Hb|Hb].
  - apply eqb_spec in Hb. subst b. apply E1. apply (succs_In E h c s He).
  - apply (mem_spec A eqb eqb_spec) in Hb. apply (E2 h Hb). apply (succs_In E h c s He).
Qed.

Lemma neg_target_In h c : In (h, c, true) E -> In c (neg_targets A eqb E).
Proof.
  intro He. unfold neg_targets. apply (dedup_In A eqb eqb_spec). apply in_map_iff. exists (h, c, true).
  split; [reflexivity|]. apply filter_In. split; [exact He|reflexivity].
Qed.

Lemma level_pos h c : In (h, c, false) E -> level E c <= level E h.
Proof.
  intro He. unfold level. assert (anti_level E h <= anti_level E c); [|lia].
  unfold anti_level. apply filter_length_le. intros b HbN Hb. apply (above_edge h c false b HbN He Hb).
Qed.

Lemma level_neg h c : In (h, c, true) E -> level E c < level E h.
Proof.
  intro He. unfold level. pose proof (anti_level_le E c) as Hc.
  assert (anti_level E h < anti_level E c); [|lia].
  unfold anti_level. pose proof (neg_target_In h c He) as HcN.
  apply (filter_length_lt _ _ _ c); [|exact HcN| |].
  - intros b HbN Hb. apply (above_edge h c true b HbN He Hb).
  - unfold above. rewrite (eqb_refl A eqb eqb_spec). reflexivity.
  - unfold above. destruct (Hncf c HcN) as [R [Er Hcl]]. rewrite Er.
    unfold closes_neg_cycle in Hcl.
    destruct (eqb c h || mem h R) eqn:Ek; [|reflexivity]. exfalso.
    assert (existsb (fun e : edge => snd e && eqb (snd (fst e)) c && (eqb (fst (fst e)) c || mem (fst (fst e)) R)) E = true) as K.
    { apply existsb_exists. exists (h, c, true). split; [exact He|]. simpl.
      rewrite (eqb_refl A eqb eqb_spec). simpl. rewrite (eqb_sym A eqb eqb_spec h c). exact Ek. }
    rewrite K in Hcl. discriminate.
Qed.
End WithE.

Lemma edges_In cs c h l : In c cs -> In h (clause_heads c) -> In l (clause_body c) ->
  In (h, lit_atom l, match l with Pos _ => false | Neg _ => true end) (edges A cs).
Proof.
  intros Hc Hh Hl. unfold edges. apply in_flat_map. exists c. split; [exact Hc|].
  unfold edges_clause. apply in_flat_map. exists h. split; [exact Hh|].
  apply in_map_iff. exists l. split; [|exact Hl]. destruct l; reflexivity.
Qed.

Theorem neg_cycle_free_stratified cs :
  neg_cycle_free A eqb cs = Some true -> exists lvl, stratified_prog lvl cs.
Proof.
  unfold neg_cycle_free, neg_cycle_free_E. intro H.
  pose proof (ncf_fold (edges A cs) _ H) as Hncf.
  exists (level (edges A cs)). intros c Hc h Hh l Hl.
  pose proof (edges_In cs c h l Hc Hh Hl) as He. destruct l as [a|a]; simpl in *.
  - apply (level_pos (edges A cs) Hncf h a He).
  - apply (level_neg (edges A cs) Hncf h a He).
Qed.

Theorem neg_cycle_free_two_valued cs :
  neg_cycle_free A eqb cs = Some true ->
  forall w0 wt R, In (wt, R) (worlds A cs [] w0) ->
  forall U m, wfm A eqb R U = Some m -> two_valued A eqb m = true.
Proof.
  intros H w0 wt R HR U [T Uk] Hm. destruct (neg_cycle_free_stratified cs H) as [lvl HS].
  unfold two_valued. simpl. apply (subset_spec A eqb eqb_spec).
  apply (stratified_two_valued lvl R U T Uk); [|exact Hm]. apply (world_stratified lvl cs w0 wt R HS HR).
Qed.

(* ------------------------------------------------------------------ bridge to wsum / prob_gen *)
Local Open Scope Q_scope.
Lemma worlds_weight_irrel cs : forall acc w wt R, In (wt, R) (worlds A cs acc w) ->
  forall w', exists wt', In (wt', R) (worlds A cs acc w').
Proof.
  induction cs as [|c cs IH]; intros acc w wt R H w'; simpl in *.
  - destruct H as [E|[]]. inversion E; subst. exists w'. left. reflexivity.
  - destruct c as [h b|hs b]; [apply (IH _ _ _ _ H)|].
    apply in_app_or in H. destruct H as [H|H].
    + apply in_flat_map in H. destruct H as [ph [Hph H]].
      destruct (IH _ _ _ _ H (w' * fst ph)) as [wt' K]. exists wt'. apply in_or_app. left.
      apply in_flat_map. exists ph. split; assumption.
    + destruct (IH _ _ _ _ H (w' * (1 - sum_p hs))) as [wt' K]. exists wt'. apply in_or_app. right. exact K.
Qed.

Lemma lsum_ext_in {X} (hs : list (Q * X)) f g :
  (forall ph, In ph hs -> f (snd ph) == g (snd ph)) -> lsum hs f == lsum hs g.
Proof.
  induction hs as [|[p x] hs IH]; simpl; intro H; [reflexivity|].
  rewrite IH by (intros; apply H; right; assumption). rewrite (H (p, x)) by (left; reflexivity). reflexivity.
Qed.

Lemma wsum_zero F cs : forall acc,
  (forall wt R, In (wt, R) (worlds A cs acc 1) -> F R == 0) -> wsum A F cs acc == 0.
Proof.
  induction cs as [|c cs IH]; intros acc H; simpl.
  - apply (H 1 acc). simpl. left. reflexivity.
  - destruct c as [h b|hs b].
    + apply IH. intros wt R HR. apply (H wt R). simpl. exact HR.
    + rewrite (ad_sum_expect A hs b acc (wsum A F cs)). unfold expect.
      rewrite (lsum_ext_in hs _ (fun _ => 0)).
      * rewrite lsum_zero. simpl. rewrite IH; [ring|]. intros wt R HR.
        destruct (worlds_weight_irrel cs acc 1 wt R HR (1 * (1 - sum_p hs))) as [wt' K].
        apply (H wt' R). simpl. apply in_or_app. right. exact K.
      * intros ph Hph. simpl. apply IH. intros wt R HR.
        destruct (worlds_weight_irrel cs _ 1 wt R HR (1 * fst ph)) as [wt' K].
        apply (H wt' R). simpl. apply in_or_app. left. apply in_flat_map. exists ph. split; assumption.
Qed.

Theorem neg_cycle_free_not_NotTwoValued cs ev q :
  neg_cycle_free A eqb cs = Some true -> prob_gen A eqb cs ev q <> NotTwoValued.
Proof.
  intros H. unfold prob_gen.
  destruct (negb (Qeq_bool (wsum A (ind_fuel A eqb (universe A eqb cs)) cs []) 0)); [discriminate|].
  assert (wsum A (ind_undef A eqb (universe A eqb cs) (fun _ => true)) cs [] == 0) as Z.
  { apply wsum_zero. intros wt R HR. unfold ind_undef.
    destruct (wfm A eqb R (universe A eqb cs)) as [m|] eqn:Em; [|reflexivity].
    pose proof (neg_cycle_free_two_valued cs H 1 wt R HR _ m Em) as TV. unfold two_valued in TV.
    assert (subset (filter (fun _ : A => true) (snd m)) (fst m) = true) as K.
    { apply (subset_spec A eqb eqb_spec). apply (subset_spec A eqb eqb_spec) in TV.
      intros a Ha. apply TV. apply filter_In in Ha. tauto. }
    rewrite K. reflexivity. }
  apply Qeq_bool_iff in Z. rewrite Z. cbn [negb].
  match goal with |- (if ?c then _ else _) <> _ => destruct c end; discriminate.
Qed.


(* ------------------------------------------------------------------ D. the boolean decides the graph property *)
Local Open Scope nat_scope.
Inductive path (E : list edge) : A -> A -> Prop :=
| path_one : forall x y s, In (x, y, s) E -> path E x y
| path_step : forall x y z s, In (x, y, s) E -> path E y z -> path E x z.
Definition neg_cycle (E : list edge) : Prop :=
  exists h b, In (h, b, true) E /\ (b = h \/ path E b h).

Lemma path_snoc E x y z s : path E x y -> In (y, z, s) E -> path E x z.
Proof.
  induction 1 as [x y s' H|x y w s' H Hp IH]; intro Hz.
  - apply (path_step E x y z s' H). apply (path_one E y z s Hz).
  - apply (path_step E x y z s' H). apply IH. exact Hz.
Qed.

Lemma succs_inv (E : list edge) x y : In y (succs A eqb E x) -> exists s, In (x, y, s) E.
Proof.
  unfold succs. rewrite in_map_iff. intros [[[x' y'] s] [Ey Hf]]. simpl in Ey. subst y'.
  apply filter_In in Hf. destruct Hf as [Hin He]. simpl in He. apply eqb_spec in He. subst x'.
  exists s. exact Hin.
Qed.

Lemma close_iter_sound (E : list edge) b fuel : forall R0 R,
  (forall x, In x R0 -> path E b x) -> close_iter A eqb fuel E R0 = Some R -> forall x, In x R -> path E b x.
Proof.
  induction fuel as [|f IH]; intros R0 R H0 H; simpl in H; [discriminate|].
  destruct (subset (flat_map (succs A eqb E) R0) R0).
  - inversion H; subst. exact H0.
  - apply (IH (dedup A eqb (R0 ++ flat_map (succs A eqb E) R0)) R); [|exact H].
    intros x Hx. apply (proj1 (dedup_In A eqb eqb_spec x _)) in Hx. apply in_app_or in Hx. destruct Hx as [Hx|Hx].
    + apply H0. exact Hx.
    + apply in_flat_map in Hx. destruct Hx as [y [Hy Hx]]. apply succs_inv in Hx. destruct Hx as [s Hs].
      apply (path_snoc E b y x s (H0 y Hy) Hs).
Qed.

Lemma reach_sound (E : list edge) b R : reach A eqb E b = Some R -> forall x, In x R -> path E b x.
Proof.
  unfold reach. apply close_iter_sound. intros x Hx. apply (proj1 (dedup_In A eqb eqb_spec x _)) in Hx.
  apply succs_inv in Hx. destruct Hx as [s Hs]. apply (path_one E b x s Hs).
Qed.

Lemma reach_complete (E : list edge) b R : reach A eqb E b = Some R -> forall x, path E b x -> In x R.
Proof.
  intros H x Hp. apply reach_spec in H. destruct H as [H1 H2].
  assert (forall y z, path E y z -> (y = b \/ In y R) -> In z R) as K.
  { intros y z Hyz. induction Hyz as [y z s He|y w z s He Hp' IH]; intro Hy.
    - destruct Hy as [Hy|Hy]; [subst y; apply H1|apply (H2 y Hy)]; apply (succs_In E _ z s He).
    - apply IH. right. destruct Hy as [Hy|Hy]; [subst y; apply H1|apply (H2 y Hy)]; apply (succs_In E _ w s He). }
  apply (K b x Hp). left. reflexivity.
Qed.

Theorem neg_cycle_free_true_sound (E : list edge) : neg_cycle_free_E A eqb E = Some true -> ~ neg_cycle E.
Proof.
  unfold neg_cycle_free_E. intros H [h [b [He Hc]]].
  destruct (ncf_fold E _ H b (neg_target_In E h b He)) as [R [Er Hcl]].
  unfold closes_neg_cycle in Hcl.
  assert (existsb (fun e : edge => snd e && eqb (snd (fst e)) b && (eqb (fst (fst e)) b || mem (fst (fst e)) R)) E = true) as K; [|rewrite K in Hcl; discriminate].
  apply existsb_exists. exists (h, b, true). split; [exact He|]. simpl. rewrite (eqb_refl A eqb eqb_spec). simpl.
  apply orb_true_iff. destruct Hc as [Hc|Hc].
  - left. subst. apply (eqb_refl A eqb eqb_spec).
  - right. apply (mem_spec A eqb eqb_spec). apply (reach_complete E b R Er h Hc).
Qed.

Lemma ncf_fold_false (E : list edge) NT :
  fold_right (fun (b : A) (r : option bool) =>
     match r, reach A eqb E b with
     | Some ok, Some R => Some (ok && negb (closes_neg_cycle A eqb E b R))
     | _, _ => None
     end) (Some true) NT = Some false ->
  exists b R, In b NT /\ reach A eqb E b = Some R /\ closes_neg_cycle A eqb E b R = true.
Proof.
  induction NT as [|x NT IH]; simpl; intro H; [discriminate|].
  destruct (fold_right _ (Some true) NT) as [ok|] eqn:Ef; [|discriminate].
  destruct (reach A eqb E x) as [R|] eqn:Er; [|discriminate].
  inversion H as [H1]. destruct ok.
  - simpl in H1. apply negb_false_iff in H1. exists x, R. auto.
  - destruct (IH eq_refl) as [b [R' [K1 [K2 K3]]]]. exists b, R'. auto.
Qed.

Theorem neg_cycle_free_false_complete (E : list edge) : neg_cycle_free_E A eqb E = Some false -> neg_cycle E.
Proof.
  unfold neg_cycle_free_E. intro H. destruct (ncf_fold_false E _ H) as [b [R [Hb [Er Hcl]]]].
  unfold closes_neg_cycle in Hcl. apply existsb_exists in Hcl. destruct Hcl as [[[h b'] s] [He Hc]]. simpl in Hc.
  apply andb_true_iff in Hc. destruct Hc as [Hc1 Hc2]. apply andb_true_iff in Hc1. destruct Hc1 as [Hs Hb'].
  subst s. apply eqb_spec in Hb'. subst b'. exists h, b. split; [exact He|].
  apply orb_true_iff in Hc2. destruct Hc2 as [Hc2|Hc2].
  - left. apply eqb_spec in Hc2. symmetry. exact Hc2.
  - right. apply (mem_spec A eqb eqb_spec) in Hc2. apply (reach_sound E b R Er h Hc2).
Qed.

End Strat.
