(* Sem/WMC.v — the weighted-model-count formulation of the distribution semantics that the
   ProbLog pipeline implements (constraint.py ConstraintAD + evaluator): every ground AD instance
   with heads h_1..h_k gets k+1 boolean choice variables (the last one is the extra "none"
   alternative), positive literal weights p_1..p_k and 1 - sum p, negative literal weights 1, and
   the constraint "exactly one variable is true".  Executable definitions only; no proofs here. *)
From Coq Require Import NArith QArith List Bool.
From PL.Sem Require Import Program Sem.
Import ListNotations.

Definition qsum (l : list Q) : Q := fold_right Qplus 0 l.

Fixpoint assignments (n : nat) : list (list bool) :=
  match n with
  | O => [[]]
  | S n' => map (cons true) (assignments n') ++ map (cons false) (assignments n')
  end.
Definition count_true (bs : list bool) : nat := length (filter (fun b : bool => b) bs).
Definition exactly_one (bs : list bool) : bool := Nat.eqb (count_true bs) 1.

(* product of the literal weights of an assignment: a true variable weighs its weight, a false one 1 *)
Fixpoint lit_weight (ws : list Q) (bs : list bool) : Q :=
  match ws, bs with
  | w :: ws', b :: bs' => (if b then w else 1) * lit_weight ws' bs'
  | _, _ => 1
  end.

Section W.
Variable A : Type.
(* the alternative denoted by a one-hot assignment: the i-th head, or None for the extra variable *)
Fixpoint selected (hs : list (Q * A)) (bs : list bool) : option A :=
  match hs, bs with
  | ph :: hs', b :: bs' => if b then Some (snd ph) else selected hs' bs'
  | _, _ => None
  end.
Definition ad_weights (hs : list (Q * A)) : list Q := map fst hs ++ [1 - sum_p hs].
Definition extend (o : option A) (b : list (lit A)) (acc : list (nrule A)) : list (nrule A) :=
  match o with Some h => (h, b) :: acc | None => acc end.

(* weighted model count over the choice variables of one AD instance *)
Definition wmc_ad (hs : list (Q * A)) (g : option A -> Q) : Q :=
  qsum (map (fun bs => if exactly_one bs then lit_weight (ad_weights hs) bs * g (selected hs bs) else 0)
            (assignments (S (length hs)))).

(* weighted model count of a whole ground program: nested sums over the choice variables of all AD
   instances; F is the (0/1) value of the induced normal program *)
Fixpoint wmc (F : list (nrule A) -> Q) (cs : list (clause A)) (acc : list (nrule A)) : Q :=
  match cs with
  | [] => F acc
  | Rule h b :: cs' => wmc F cs' ((h, b) :: acc)
  | AD hs b :: cs' => wmc_ad hs (fun o => wmc F cs' (extend o b acc))
  end.
End W.
