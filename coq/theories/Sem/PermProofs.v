(* Sem/PermProofs.v — the distribution semantics does not depend on the order of
   clauses, of evidence, or of the literals inside clause bodies (C07). *)
From Coq Require Import NArith QArith List Bool Permutation Lia Morphisms.
From PL.Sem Require Import Program Sem SemBasics.
Import ListNotations.

(* ------------------------------------------------------------------ generic list facts *)
Lemma forallb_perm {X} (f : X -> bool) l l' : Permutation l l' -> forallb f l = forallb f l'.
Proof.
  induction 1; simpl; try congruence.
  - destruct (f x), (f y); reflexivity.
Qed.

Lemma existsb_perm {X} (f : X -> bool) l l' : Permutation l l' -> existsb f l = existsb f l'.
Proof.
  induction 1; simpl; try congruence.
  - destruct (f x), (f y); reflexivity.
Qed.

Definition eqset {X} (I J : list X) : Prop := forall x, In x I <-> In x J.

Lemma eqset_refl {X} (I : list X) : eqset I I.
Proof. intro x. tauto. Qed.

Lemma perm_eqset {X} (I J : list X) : Permutation I J -> eqset I J.
Proof. intros H x. split; apply Permutation_in; [exact H|symmetry; exact H]. Qed.

Lemma forallb_eqset {X} (f : X -> bool) I J : eqset I J -> forallb f I = forallb f J.
Proof.
  intro H. destruct (forallb f I) eqn:E1, (forallb f J) eqn:E2; try reflexivity.
  - rewrite forallb_forall in E1. assert (forallb f J = true) as K.
    { apply forallb_forall. intros x Hx. apply E1. apply H. exact Hx. } congruence.
  - rewrite forallb_forall in E2. assert (forallb f I = true) as K.
    { apply forallb_forall. intros x Hx. apply E2. apply H. exact Hx. } congruence.
Qed.

Lemma forallb_ext_in {X} (f g : X -> bool) l : (forall x, In x l -> f x = g x) -> forallb f l = forallb g l.
Proof.
  induction l as [|x l IH]; simpl; intro H; [reflexivity|].
  rewrite H by (left; reflexivity). rewrite IH; [reflexivity|]. intros y Hy. apply H. right. exact Hy.
Qed.

Lemma filter_ext_eqset {X} (f g : X -> bool) U U' :
  eqset U U' -> (forall x, f x = g x) -> eqset (filter f U) (filter g U').
Proof.
  intros HU Hfg x. rewrite !filter_In. rewrite Hfg. rewrite (HU x). tauto.
Qed.

Inductive orel {X Y} (R : X -> Y -> Prop) : option X -> option Y -> Prop :=
| orel_none : orel R None None
| orel_some : forall x y, R x y -> orel R (Some x) (Some y).

(* ------------------------------------------------------------------ Q sums *)
Section QSums.
Context {X : Type}.
Definition lsum (hs : list (Q * X)) (g : X -> Q) : Q :=
  fold_right (fun ph s => fst ph * g (snd ph) + s) 0 hs.

Lemma lsum_ext hs f g : (forall x, f x == g x) -> lsum hs f == lsum hs g.
Proof.
  intro H. induction hs as [|[p x] hs IH]; simpl; [reflexivity|]. rewrite IH, (H x). reflexivity.
Qed.

Lemma lsum_plus hs f g : lsum hs (fun x => f x + g x) == lsum hs f + lsum hs g.
Proof.
  induction hs as [|[p x] hs IH]; simpl; [ring|]. rewrite IH. ring.
Qed.

Lemma lsum_scale hs c f : lsum hs (fun x => c * f x) == c * lsum hs f.
Proof.
  induction hs as [|[p x] hs IH]; simpl; [ring|]. rewrite IH. ring.
Qed.

Lemma lsum_zero hs : lsum hs (fun _ => 0) == 0.
Proof.
  induction hs as [|[p x] hs IH]; simpl; [reflexivity|]. rewrite IH. ring.
Qed.
End QSums.

Lemma lsum_swap {X Y} (h1 : list (Q * X)) (h2 : list (Q * Y)) (G : X -> Y -> Q) :
  lsum h1 (fun x => lsum h2 (fun y => G x y)) == lsum h2 (fun y => lsum h1 (fun x => G x y)).
Proof.
  induction h1 as [|[p a] h1 IH]; simpl.
  - symmetry. apply lsum_zero.
  - rewrite IH. rewrite <- lsum_scale. rewrite <- lsum_plus. apply lsum_ext. intro y. reflexivity.
Qed.

(* expectation over the alternatives of one AD instance (None = no head selected) *)
Definition expect {X} (hs : list (Q * X)) (g : option X -> Q) : Q :=
  lsum hs (fun h => g (Some h)) + (1 - sum_p hs) * g None.

Lemma expect_ext {X} (hs : list (Q * X)) f g : (forall o, f o == g o) -> expect hs f == expect hs g.
Proof.
  intro H. unfold expect. rewrite (lsum_ext hs _ (fun h => g (Some h))) by (intro; apply H).
  rewrite (H None). reflexivity.
Qed.

Lemma expect_swap {X Y} (h1 : list (Q * X)) (h2 : list (Q * Y)) (G : option X -> option Y -> Q) :
  expect h1 (fun a => expect h2 (fun b => G a b)) == expect h2 (fun b => expect h1 (fun a => G a b)).
Proof.
  unfold expect.
  rewrite (lsum_plus h1 (fun x => lsum h2 (fun h => G (Some x) (Some h))) (fun x => (1 - sum_p h2) * G (Some x) None)).
  rewrite (lsum_scale h1 (1 - sum_p h2) (fun x => G (Some x) None)).
  rewrite (lsum_plus h2 (fun y => lsum h1 (fun h => G (Some h) (Some y))) (fun y => (1 - sum_p h1) * G None (Some y))).
  rewrite (lsum_scale h2 (1 - sum_p h1) (fun y => G None (Some y))).
  rewrite (lsum_swap h1 h2 (fun x y => G (Some x) (Some y))).
  ring.
Qed.

Section Perm.
Variable A : Type.
Variable eqb : A -> A -> bool.
Hypothesis eqb_spec : forall x y, eqb x y = true <-> x = y.

Notation nrule := (nrule A).
Notation mem := (mem A eqb).
Notation subset := (subset A eqb).
Notation derivable := (derivable A eqb).
Notation lit_true := (lit_true A eqb).
Notation fires := (fires A eqb).
Notation step := (step A eqb).

(* ------------------------------------------------------------------ the model only depends on sets *)
Lemma mem_eqset a I J : eqset I J -> mem a I = mem a J.
Proof. intro H. apply (mem_ext A eqb eqb_spec). exact H. Qed.

Lemma subset_eqset I I' J J' : eqset I I' -> eqset J J' -> subset I J = subset I' J'.
Proof.
  intros HI HJ. unfold Sem.subset. rewrite (forallb_eqset _ I I' HI).
  apply forallb_ext_in. intros x _. apply mem_eqset. exact HJ.
Qed.

Lemma lit_true_eqset T T' Ng Ng' l : eqset T T' -> eqset Ng Ng' -> lit_true T Ng l = lit_true T' Ng' l.
Proof.
  intros HT HN. destruct l as [a|a]; simpl; [apply mem_eqset; exact HT|].
  f_equal. apply mem_eqset. exact HN.
Qed.

(* rules with the same head and permuted bodies *)
Definition req (r r' : nrule) : Prop := fst r = fst r' /\ Permutation (snd r) (snd r').

Lemma fires_req T T' Ng Ng' a r r' :
  eqset T T' -> eqset Ng Ng' -> req r r' -> fires T Ng a r = fires T' Ng' a r'.
Proof.
  intros HT HN [Hh Hb]. unfold Sem.fires. rewrite Hh. f_equal.
  rewrite (forallb_perm _ _ _ Hb). apply forallb_ext_in. intros l _. apply lit_true_eqset; assumption.
Qed.

(* semantic equivalence of rule lists: the same atoms are derivable from equivalent interpretations *)
Definition dequiv (R R' : list nrule) : Prop :=
  forall T T' Ng Ng' a, eqset T T' -> eqset Ng Ng' -> derivable R Ng T a = derivable R' Ng' T' a.

Lemma req_refl r : req r r.
Proof. split; reflexivity. Qed.

Lemma dequiv_nil : dequiv [] [].
Proof. intros T T' Ng Ng' a _ _. reflexivity. Qed.

Lemma dequiv_cons r r' R R' : req r r' -> dequiv R R' -> dequiv (r :: R) (r' :: R').
Proof.
  intros Hr HR T T' Ng Ng' a HT HN. unfold Sem.derivable. simpl.
  rewrite (fires_req T T' Ng Ng' a r r' HT HN Hr). f_equal. apply HR; assumption.
Qed.

Lemma dequiv_refl R : dequiv R R.
Proof. induction R as [|r R IH]; [apply dequiv_nil|apply dequiv_cons; [apply req_refl|exact IH]]. Qed.

Lemma dequiv_swap r1 r2 R R' : dequiv R R' -> dequiv (r1 :: r2 :: R) (r2 :: r1 :: R').
Proof.
  intros HR T T' Ng Ng' a HT HN. unfold Sem.derivable. simpl.
  rewrite (fires_req T T' Ng Ng' a r1 r1 HT HN (req_refl r1)).
  rewrite (fires_req T T' Ng Ng' a r2 r2 HT HN (req_refl r2)).
  fold (derivable R Ng T a). fold (derivable R' Ng' T' a). rewrite (HR T T' Ng Ng' a HT HN).
  destruct (fires T' Ng' a r1), (fires T' Ng' a r2); reflexivity.
Qed.

Lemma step_rel R R' U U' Ng Ng' T T' :
  dequiv R R' -> eqset U U' -> eqset Ng Ng' -> eqset T T' ->
  eqset (step R U Ng T) (step R' U' Ng' T').
Proof.
  intros HR HU HN HT. unfold Sem.step. apply filter_ext_eqset; [exact HU|].
  intro x. apply HR; assumption.
Qed.

Lemma lfp_iter_rel fuel : forall R R' U U' Ng Ng' T T',
  dequiv R R' -> eqset U U' -> eqset Ng Ng' -> eqset T T' ->
  orel eqset (lfp_iter A eqb fuel R U Ng T) (lfp_iter A eqb fuel R' U' Ng' T').
Proof.
  induction fuel as [|f IH]; intros R R' U U' Ng Ng' T T' HR HU HN HT; simpl; [constructor|].
  pose proof (step_rel R R' U U' Ng Ng' T T' HR HU HN HT) as HS.
  rewrite (subset_eqset _ _ _ _ HS HT).
  destruct (subset (step R' U' Ng' T') T'); [constructor; exact HT|].
  apply IH; assumption.
Qed.

Lemma gamma_rel R R' U U' Ng Ng' :
  dequiv R R' -> Permutation U U' -> eqset Ng Ng' ->
  orel eqset (gamma A eqb R U Ng) (gamma A eqb R' U' Ng').
Proof.
  intros HR HU HN. unfold gamma. rewrite (Permutation_length HU).
  apply lfp_iter_rel; try assumption; [apply perm_eqset; exact HU|apply eqset_refl].
Qed.

Definition meq (m m' : list A * list A) : Prop := eqset (fst m) (fst m') /\ eqset (snd m) (snd m').

Lemma wfm_iter_rel fuel : forall R R' U U' T T',
  dequiv R R' -> Permutation U U' -> eqset T T' ->
  orel meq (wfm_iter A eqb fuel R U T) (wfm_iter A eqb fuel R' U' T').
Proof.
  induction fuel as [|f IH]; intros R R' U U' T T' HR HU HT; simpl; [constructor|].
  destruct (gamma_rel R R' U U' T T' HR HU HT) as [|Uk Uk' HUk]; [constructor|].
  destruct (gamma_rel R R' U U' Uk Uk' HR HU HUk) as [|T1 T1' HT1]; [constructor|].
  rewrite (subset_eqset _ _ _ _ HT1 HT).
  destruct (subset T1' T'); [constructor; split; assumption|].
  apply IH; assumption.
Qed.

Lemma wfm_rel R R' U U' :
  dequiv R R' -> Permutation U U' -> orel meq (wfm A eqb R U) (wfm A eqb R' U').
Proof.
  intros HR HU. unfold wfm. rewrite (Permutation_length HU).
  apply wfm_iter_rel; try assumption. apply eqset_refl.
Qed.

(* ------------------------------------------------------------------ indicators *)
Lemma ind_fuel_rel U U' R R' : Permutation U U' -> dequiv R R' ->
  ind_fuel A eqb U R = ind_fuel A eqb U' R'.
Proof.
  intros HU HR. unfold ind_fuel. destruct (wfm_rel R R' U U' HR HU); reflexivity.
Qed.

Lemma ind_undef_rel U U' rel R R' : Permutation U U' -> dequiv R R' ->
  ind_undef A eqb U rel R = ind_undef A eqb U' rel R'.
Proof.
  intros HU HR. unfold ind_undef. destruct (wfm_rel R R' U U' HR HU) as [|m m' [H1 H2]]; [reflexivity|]. cbv beta iota.
  f_equal. f_equal. apply subset_eqset; [|exact H1].
  apply filter_ext_eqset; [exact H2|reflexivity].
Qed.

Lemma ind_true_rel U U' chk chk' R R' : Permutation U U' -> dequiv R R' ->
  (forall T T', eqset T T' -> chk T = chk' T') ->
  ind_true A eqb U chk R = ind_true A eqb U' chk' R'.
Proof.
  intros HU HR Hc. unfold ind_true. destruct (wfm_rel R R' U U' HR HU) as [|m m' [H1 H2]]; [reflexivity|]. cbv beta iota.
  f_equal. apply Hc. exact H1.
Qed.

Lemma holds_rel T T' ev ev' : eqset T T' -> Permutation ev ev' ->
  holds A eqb T ev = holds A eqb T' ev'.
Proof.
  intros HT He. unfold holds. rewrite (forallb_perm _ _ _ He).
  apply forallb_ext_in. intros av _. rewrite (mem_eqset _ _ _ HT). reflexivity.
Qed.

(* ------------------------------------------------------------------ wsum *)
Definition ext (o : option A) (b : list (lit A)) (acc : list nrule) : list nrule :=
  match o with Some h => (h, b) :: acc | None => acc end.

Lemma ad_sum_expect hs b acc k :
  ad_sum A hs b acc k == expect hs (fun o => k (ext o b acc)).
Proof.
  unfold ad_sum. rewrite Qred_correct. unfold expect. simpl.
  induction hs as [|[p h] hs IH].
  - simpl. ring.
  - simpl. simpl in IH.
    set (x := fold_right (fun (ph : Q * A) (s : Q) => fst ph * k ((snd ph, b) :: acc) + s) ((1 - sum_p hs) * k acc) hs) in *.
    (* relate the tails: the constant term differs by p * k acc *)
    assert (forall c c', fold_right (fun (ph : Q * A) (s : Q) => fst ph * k ((snd ph, b) :: acc) + s) c hs
                         == fold_right (fun (ph : Q * A) (s : Q) => fst ph * k ((snd ph, b) :: acc) + s) c' hs + (c - c')) as Hshift.
    { intros c c'. clear. induction hs as [|[q g] hs IH']; simpl; [ring|]. rewrite IH'. ring. }
    rewrite (Hshift ((1 - (p + sum_p hs)) * k acc) ((1 - sum_p hs) * k acc)).
    fold x. rewrite IH. unfold lsum. simpl. ring.
Qed.

Section WithF.
Variable F : list nrule -> Q.
Hypothesis F_resp : forall acc acc', dequiv acc acc' -> F acc == F acc'.

Lemma wsum_acc cs : forall acc acc', dequiv acc acc' -> wsum A F cs acc == wsum A F cs acc'.
Proof.
  induction cs as [|c cs IH]; intros acc acc' H; simpl; [apply F_resp; exact H|].
  destruct c as [h b|hs b].
  - apply IH. apply dequiv_cons; [apply req_refl|exact H].
  - rewrite !ad_sum_expect. apply expect_ext. intros [h|]; simpl; apply IH; [|exact H].
    apply dequiv_cons; [apply req_refl|exact H].
Qed.

Lemma wsum_perm cs cs' : Permutation cs cs' ->
  forall acc acc', dequiv acc acc' -> wsum A F cs acc == wsum A F cs' acc'.
Proof.
  induction 1 as [|c l l' HP IH|c1 c2 l|l l' l'' HP1 IH1 HP2 IH2]; intros acc acc' H.
  - simpl. apply F_resp. exact H.
  - simpl. destruct c as [h b|hs b].
    + apply IH. apply dequiv_cons; [apply req_refl|exact H].
    + rewrite !ad_sum_expect. apply expect_ext. intros [h|]; simpl; apply IH; [|exact H].
      apply dequiv_cons; [apply req_refl|exact H].
  - (* swap: c2 :: c1 :: l  versus  c1 :: c2 :: l *)
    destruct c1 as [h1 b1|hs1 b1], c2 as [h2 b2|hs2 b2]; cbn [wsum].
    + apply wsum_acc. apply dequiv_swap. exact H.
    + rewrite !ad_sum_expect. apply expect_ext. intros [h|]; simpl.
      * apply wsum_acc. apply dequiv_swap. exact H.
      * apply wsum_acc. apply dequiv_cons; [apply req_refl|exact H].
    + rewrite !ad_sum_expect. apply expect_ext. intros [h|]; simpl.
      * apply wsum_acc. apply dequiv_swap. exact H.
      * apply wsum_acc. apply dequiv_cons; [apply req_refl|exact H].
    + rewrite (ad_sum_expect hs2 b2 acc). rewrite (ad_sum_expect hs1 b1 acc').
      rewrite (expect_ext hs2 _ (fun o2 => expect hs1 (fun o1 => wsum A F l (ext o1 b1 (ext o2 b2 acc)))))
        by (intro o; apply ad_sum_expect).
      rewrite (expect_ext hs1 _ (fun o1 => expect hs2 (fun o2 => wsum A F l (ext o2 b2 (ext o1 b1 acc')))))
        by (intro o; apply ad_sum_expect).
      rewrite (expect_swap hs2 hs1 (fun o2 o1 => wsum A F l (ext o1 b1 (ext o2 b2 acc)))).
      apply expect_ext. intro o1. apply expect_ext. intro o2. apply wsum_acc.
      destruct o1 as [x|], o2 as [y|]; simpl.
      * apply dequiv_swap. exact H.
      * apply dequiv_cons; [apply req_refl|exact H].
      * apply dequiv_cons; [apply req_refl|exact H].
      * exact H.
  - rewrite (IH1 acc acc (dequiv_refl acc)). apply IH2. exact H.
Qed.

(* bodies permuted clause-wise *)
Definition cbp (c c' : clause A) : Prop :=
  match c, c' with
  | Rule h b, Rule h' b' => h = h' /\ Permutation b b'
  | AD hs b, AD hs' b' => hs = hs' /\ Permutation b b'
  | _, _ => False
  end.

Lemma wsum_body cs cs' : Forall2 cbp cs cs' ->
  forall acc acc', dequiv acc acc' -> wsum A F cs acc == wsum A F cs' acc'.
Proof.
  induction 1 as [|c c' l l' Hc HF IH]; intros acc acc' H; simpl; [apply F_resp; exact H|].
  destruct c as [h b|hs b], c' as [h' b'|hs' b']; simpl in Hc; try contradiction; destruct Hc as [E Hb]; subst.
  - apply IH. apply dequiv_cons; [split; [reflexivity|exact Hb]|exact H].
  - rewrite !ad_sum_expect. apply expect_ext. intros [h|]; simpl; apply IH; [|exact H].
    apply dequiv_cons; [split; [reflexivity|exact Hb]|exact H].
Qed.
End WithF.

Lemma wsum_F_ext F F' cs : (forall acc, F acc == F' acc) -> forall acc, wsum A F cs acc == wsum A F' cs acc.
Proof.
  intro H. induction cs as [|c cs IH]; intro acc; simpl; [apply H|].
  destruct c as [h b|hs b]; [apply IH|].
  rewrite !ad_sum_expect. apply expect_ext. intro o. apply IH.
Qed.

(* ------------------------------------------------------------------ prob_gen *)
Lemma Qeq_bool_comp a b : a == b -> Qeq_bool a 0 = Qeq_bool b 0.
Proof.
  intro H. destruct (Qeq_bool a 0) eqn:E1, (Qeq_bool b 0) eqn:E2; try reflexivity.
  - apply Qeq_bool_iff in E1. assert (Qeq_bool b 0 = true) as K by (apply Qeq_bool_iff; rewrite <- H; exact E1). congruence.
  - apply Qeq_bool_iff in E2. assert (Qeq_bool a 0 = true) as K by (apply Qeq_bool_iff; rewrite H; exact E2). congruence.
Qed.

Lemma heads_of_perm cs cs' : Permutation cs cs' -> Permutation (heads_of A cs) (heads_of A cs').
Proof.
  unfold heads_of. induction 1; simpl.
  - constructor.
  - apply Permutation_app_head. assumption.
  - rewrite !app_assoc. apply Permutation_app_tail. apply Permutation_app_comm.
  - etransitivity; eassumption.
Qed.

Lemma universe_perm cs cs' : Permutation cs cs' -> Permutation (universe A eqb cs) (universe A eqb cs').
Proof. intro H. unfold universe. apply (dedup_perm A eqb eqb_spec). apply heads_of_perm. exact H. Qed.

(* the four sums of prob_gen, related for two programs *)
Definition sums_rel (cs cs' : list (clause A)) (U U' : list A) : Prop :=
  forall (G G' : list A -> list nrule -> Q),
    (forall R R', dequiv R R' -> G U R = G' U' R') ->
    (forall R R', dequiv R R' -> G U R = G U R') ->
    wsum A (G U) cs [] == wsum A (G' U') cs' [].

Lemma prob_gen_rel cs cs' ev ev' q :
  Permutation (universe A eqb cs) (universe A eqb cs') ->
  (forall F, (forall acc acc', dequiv acc acc' -> F acc == F acc') -> wsum A F cs [] == wsum A F cs' []) ->
  Permutation ev ev' ->
  prob_gen A eqb cs ev q = prob_gen A eqb cs' ev' q.
Proof.
  intros HU HW He. unfold prob_gen.
  set (U := universe A eqb cs) in *. set (U' := universe A eqb cs') in *.
  assert (forall (F F' : list nrule -> Q),
             (forall R R', dequiv R R' -> F R = F R') -> (forall R, F R = F' R) ->
             wsum A F cs [] == wsum A F' cs' []) as Hsum.
  { intros F F' HF HFF'. rewrite (HW F) by (intros; rewrite (HF _ _ H); reflexivity).
    apply wsum_F_ext. intro acc. rewrite HFF'. reflexivity. }
  assert (wsum A (ind_fuel A eqb U) cs [] == wsum A (ind_fuel A eqb U') cs' []) as E1.
  { apply Hsum; intros.
    - apply ind_fuel_rel; [reflexivity|assumption].
    - apply ind_fuel_rel; [exact HU|apply dequiv_refl]. }
  assert (wsum A (ind_undef A eqb U (fun _ => true)) cs [] == wsum A (ind_undef A eqb U' (fun _ => true)) cs' []) as E2.
  { apply Hsum; intros.
    - apply ind_undef_rel; [reflexivity|assumption].
    - apply ind_undef_rel; [exact HU|apply dequiv_refl]. }
  assert (wsum A (ind_true A eqb U (fun T => holds A eqb T ev)) cs []
          == wsum A (ind_true A eqb U' (fun T => holds A eqb T ev')) cs' []) as E3.
  { apply Hsum; intros.
    - apply ind_true_rel; [reflexivity|assumption|]. intros T T' HT. apply holds_rel; [exact HT|reflexivity].
    - apply ind_true_rel; [exact HU|apply dequiv_refl|]. intros T T' HT. apply holds_rel; assumption. }
  assert (wsum A (ind_true A eqb U (fun T => mem q T && holds A eqb T ev)) cs []
          == wsum A (ind_true A eqb U' (fun T => mem q T && holds A eqb T ev')) cs' []) as E4.
  { apply Hsum; intros.
    - apply ind_true_rel; [reflexivity|assumption|]. intros T T' HT.
      rewrite (mem_eqset _ _ _ HT). f_equal. apply holds_rel; [exact HT|reflexivity].
    - apply ind_true_rel; [exact HU|apply dequiv_refl|]. intros T T' HT.
      rewrite (mem_eqset _ _ _ HT). f_equal. apply holds_rel; assumption. }
  rewrite (Qeq_bool_comp _ _ E1). destruct (negb (Qeq_bool (wsum A (ind_fuel A eqb U') cs' []) 0)); [reflexivity|].
  rewrite (Qeq_bool_comp _ _ E2).
  destruct (negb (Qeq_bool (wsum A (ind_undef A eqb U' (fun _ => true)) cs' []) 0)); [reflexivity|].
  rewrite (Qeq_bool_comp _ _ E3).
  destruct (Qeq_bool (wsum A (ind_true A eqb U' (fun T => holds A eqb T ev')) cs' []) 0); [reflexivity|].
  f_equal. apply Qred_complete. rewrite E3, E4. reflexivity.
Qed.

Theorem prob_gen_perm_clauses cs cs' ev ev' q :
  Permutation cs cs' -> Permutation ev ev' -> prob_gen A eqb cs ev q = prob_gen A eqb cs' ev' q.
Proof.
  intros Hc He. apply prob_gen_rel; [apply universe_perm; exact Hc| |exact He].
  intros F HF. apply wsum_perm; [exact HF|exact Hc|apply dequiv_nil].
Qed.

Lemma cbp_heads cs cs' : Forall2 cbp cs cs' -> heads_of A cs = heads_of A cs'.
Proof.
  unfold heads_of. induction 1 as [|c c' l l' Hc HF IH]; simpl; [reflexivity|]. rewrite IH. f_equal.
  destruct c, c'; simpl in Hc; try contradiction; destruct Hc as [E _]; subst; reflexivity.
Qed.

Theorem prob_gen_perm_body cs cs' ev q :
  Forall2 cbp cs cs' -> prob_gen A eqb cs ev q = prob_gen A eqb cs' ev q.
Proof.
  intro Hc. apply prob_gen_rel; [unfold universe; rewrite (cbp_heads _ _ Hc); reflexivity| |reflexivity].
  intros F HF. apply wsum_body; [exact HF|exact Hc|apply dequiv_nil].
Qed.

End Perm.
