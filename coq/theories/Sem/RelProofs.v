(* Sem/RelProofs.v — C08 on the semantics: further goals do not change the value of a query, and the
   independent choices of clause instances outside the relevant sub-program marginalise to 1. *)
From Coq Require Import NArith QArith List Bool Permutation Lia.
From PL.Sem Require Import Program Sem SemBasics PermProofs PermFO.
Import ListNotations.

Lemma lsum_const {X} (hs : list (Q * X)) (K : Q) : lsum hs (fun _ => K) == sum_p hs * K.
Proof.
  induction hs as [|[p x] hs IH]; simpl; [ring|]. rewrite IH. ring.
Qed.

Lemma lsum_ext_in' {X} (hs : list (Q * X)) f g :
  (forall ph, In ph hs -> f (snd ph) == g (snd ph)) -> lsum hs f == lsum hs g.
Proof.
  induction hs as [|[p x] hs IH]; simpl; intro H; [reflexivity|].
  rewrite IH by (intros; apply H; right; assumption). rewrite (H (p, x)) by (left; reflexivity). reflexivity.
Qed.

Section Rel.
Variable A : Type.
Notation nrule := (nrule A).

(* kr: which rules matter (e.g. head in the dependency cone of the goals);
   a clause is dropped when none of its heads gives a rule that matters *)
Variable kr : nrule -> bool.
Definition keepc (c : clause A) : bool := existsb (fun h => kr (h, clause_body c)) (clause_heads c).

(* If the value F of a world only depends on the rules that matter, then summing over the total choices of
   the whole program equals summing over the total choices of the kept clauses only: every dropped AD
   instance contributes the factor (sum_i p_i) + (1 - sum_i p_i) = 1, every dropped rule nothing. *)
Theorem wsum_restrict (F F' : list nrule -> Q) :
  (forall acc acc', filter kr acc = filter kr acc' -> F acc == F' acc') ->
  forall cs acc acc', filter kr acc = filter kr acc' ->
  wsum A F cs acc == wsum A F' (filter keepc cs) acc'.
Proof.
  intro HF. induction cs as [|c cs IH]; intros acc acc' Hacc; simpl; [apply HF; exact Hacc|].
  destruct (keepc c) eqn:Ek.
  - destruct c as [h b|hs b]; simpl.
    + apply IH. simpl. rewrite Hacc. reflexivity.
    + rewrite !ad_sum_expect. apply expect_ext. intros [h|]; simpl; apply IH; [|exact Hacc].
      simpl. rewrite Hacc. reflexivity.
  - destruct c as [h b|hs b]; simpl.
    + apply IH. simpl. unfold keepc in Ek. simpl in Ek. rewrite orb_false_r in Ek. rewrite Ek. exact Hacc.
    + rewrite ad_sum_expect. unfold expect.
      set (K := wsum A F' (filter keepc cs) acc').
      rewrite (lsum_ext_in' hs _ (fun _ => K)).
      * rewrite lsum_const. simpl. rewrite (IH acc acc' Hacc). fold K. ring.
      * intros ph Hph. simpl. apply IH. simpl.
        assert (kr (snd ph, b) = false) as Kf.
        { unfold keepc in Ek. simpl in Ek.
          destruct (kr (snd ph, b)) eqn:E; [|reflexivity].
          assert (existsb (fun h => kr (h, b)) (map snd hs) = true) as T.
          { apply existsb_exists. exists (snd ph). split; [apply in_map; exact Hph|exact E]. }
          congruence. }
        rewrite Kf. exact Hacc.
Qed.
End Rel.

(* ------------------------------------------------------------------ further goals *)
(* On the ground program the value of a query does not mention the other queries at all. *)
Lemma gprob_queries_irrelevant cs qs qs' ev q : gprob (mkG cs qs ev) q = gprob (mkG cs qs' ev) q.
Proof. reflexivity. Qed.

Lemma domain_app_query P a : incl (consts_atom a) (domain P) -> Permutation (domain (P ++ [SQuery a])) (domain P).
Proof.
  intro H. unfold domain. apply NoDup_Permutation; try apply NoDup_nodup.
  intro x. rewrite !nodup_In. rewrite flat_map_app. rewrite in_app_iff. simpl. rewrite app_nil_r.
  split; [|tauto]. intros [K|K]; [exact K|]. unfold consts_stmt in K. simpl in K. rewrite app_nil_r in K.
  apply H in K. unfold domain in K. apply nodup_In in K. exact K.
Qed.

Lemma ground_with_app_query d P a :
  g_clauses (ground_with d (P ++ [SQuery a])) = g_clauses (ground_with d P) /\
  g_evid (ground_with d (P ++ [SQuery a])) = g_evid (ground_with d P).
Proof.
  rewrite !ground_with_clauses, !ground_with_evid, !flat_map_app. simpl. rewrite !app_nil_r. split; reflexivity.
Qed.

(* First-order: adding a further query (over known constants) changes no existing answer. *)
Theorem prob_add_query P a q : incl (consts_atom a) (domain P) -> prob (P ++ [SQuery a]) q = prob P q.
Proof.
  intro H. unfold prob, gprob, ground.
  pose proof (domain_app_query P a H) as Hd.
  destruct (ground_with_app_query (domain (P ++ [SQuery a])) P a) as [E1 E2]. rewrite E1, E2.
  assert (Permutation P P) as HPP by reflexivity.
  destruct (ground_with_perm (domain (P ++ [SQuery a])) (domain P) P P Hd HPP) as [Kc [_ Ke]].
  apply (prob_gen_perm_clauses gatom gatom_eqb gatom_eqb_spec); assumption.
Qed.
