(* C16 -- reference semantics of integer arithmetic: ISO/IEC 13211-1 section 9 (and Cor.2 for
   div), which SWI-Prolog and YAP implement for integers (unbounded in both).  SWI/YAP are not
   installed: this file IS the reference (DESIGN 6.4 lists where my reading could be wrong).
     X // Y  = truncate(X / Y)   (flag integer_rounding_function = toward_zero, the value in
                                  SWI-Prolog and YAP)
     X rem Y = X - (X // Y) * Y            (sign of the dividend)
     X mod Y = X - floor(X / Y) * Y        (sign of the divisor)
     X div Y = floor(X / Y)
     zero divisor -> evaluation_error(zero_divisor)
     >> is an arithmetic shift (implementation defined in ISO; SWI and YAP: floor)
     X ^ Y for integers with Y >= 0 is exact integer power.
   No proofs in this file. *)
From Coq Require Import ZArith QArith Qround String List Bool.
From PL.C16 Require Import PyNum ModelEval.
Import ListNotations.
Open Scope Z_scope.

Inductive ires :=
| IVal (z : Z)
| IEvalErr                 (* evaluation_error(zero_divisor); on the model side: problog ArithmeticError *)
| INotCovered              (* outside the integer fragment on which ISO, SWI and YAP agree *)
| IOther.                  (* never produced by the reference: a non-integer / non-ProbLog-error outcome of the model *)

Definition iso_add (a b : Z) := IVal (a + b).
Definition iso_sub (a b : Z) := IVal (a - b).
Definition iso_mul (a b : Z) := IVal (a * b).
Definition iso_intdiv (a b : Z) := if b =? 0 then IEvalErr else IVal (Z.quot a b).
Definition iso_rem (a b : Z) := if b =? 0 then IEvalErr else IVal (a - Z.quot a b * b).
Definition iso_mod (a b : Z) := if b =? 0 then IEvalErr else IVal (a - Z.div a b * b).
Definition iso_div (a b : Z) := if b =? 0 then IEvalErr else IVal (Z.div a b).
Definition iso_min (a b : Z) := IVal (Z.min a b).
Definition iso_max (a b : Z) := IVal (Z.max a b).
Definition iso_and (a b : Z) := IVal (Z.land a b).
Definition iso_or (a b : Z) := IVal (Z.lor a b).
Definition iso_xor (a b : Z) := IVal (Z.lxor a b).
Definition iso_shl (a b : Z) := if b <? 0 then INotCovered else IVal (Z.shiftl a b).
Definition iso_shr (a b : Z) := if b <? 0 then INotCovered else IVal (Z.shiftr a b).
Definition iso_pow (a b : Z) := if b <? 0 then INotCovered else IVal (Z.pow a b).
Definition iso_neg (a : Z) := IVal (Z.opp a).
Definition iso_pos (a : Z) := IVal a.
Definition iso_bitnot (a : Z) := IVal (Z.lnot a).
Definition iso_abs (a : Z) := IVal (Z.abs a).
Definition iso_sign (a : Z) := IVal (Z.sgn a).

(* float -> integer functions (ISO 9.1.5); x is the exact value of the float *)
Definition iso_floor (x : Q) : Z := Qfloor x.
Definition iso_ceiling (x : Q) : Z := Qceiling x.
Definition iso_truncate (x : Q) : Z := Z.quot (Qnum x) (Zpos (Qden x)).

(* The property's own specification: ISO, except for the deviation the documentation
   states ("X rem Y (currently same as mod)").  documented = true selects that reading. *)
Definition spec_fn2 (documented : bool) (f : string) : option (Z -> Z -> ires) :=
  if String.eqb f "+" then Some iso_add else
  if String.eqb f "-" then Some iso_sub else
  if String.eqb f "*" then Some iso_mul else
  if String.eqb f "//" then Some iso_intdiv else
  if String.eqb f "rem" then Some (if documented then iso_mod else iso_rem) else
  if String.eqb f "mod" then Some iso_mod else
  if String.eqb f "div" then Some iso_div else
  if String.eqb f "min" then Some iso_min else
  if String.eqb f "max" then Some iso_max else
  if String.eqb f "/\" then Some iso_and else
  if String.eqb f "\/" then Some iso_or else
  if String.eqb f "xor" then Some iso_xor else
  if String.eqb f "#" then Some iso_xor else
  if String.eqb f "><" then Some iso_xor else
  if String.eqb f "<<" then Some iso_shl else
  if String.eqb f ">>" then Some iso_shr else
  if String.eqb f "^" then Some iso_pow else
  None.

Definition spec_fn1 (f : string) : option (Z -> ires) :=
  if String.eqb f "-" then Some iso_neg else
  if String.eqb f "+" then Some iso_pos else
  if String.eqb f "\" then Some iso_bitnot else
  if String.eqb f "abs" then Some iso_abs else
  if String.eqb f "sign" then Some iso_sign else
  None.

(* an error anywhere makes the whole evaluation an error; anything outside the
   fragment makes the verdict "not covered" *)
Definition ibind1 (g : Z -> ires) (x : ires) : ires :=
  match x with IVal a => g a | other => other end.
Definition ibind2 (g : Z -> Z -> ires) (x y : ires) : ires :=
  match x, y with
  | IVal a, IVal b => g a b
  | IOther, _ | _, IOther => IOther
  | INotCovered, _ | _, INotCovered => INotCovered
  | IEvalErr, _ | _, IEvalErr => IEvalErr
  end.

Fixpoint spec_eval (documented : bool) (e : expr) : ires :=
  match e with
  | ENum (VInt z) => IVal z
  | ENum _ => INotCovered
  | EVar => INotCovered
  | EApp0 _ => INotCovered
  | EApp1 f a =>
      match spec_fn1 f with
      | Some g => ibind1 g (spec_eval documented a)
      | None => INotCovered
      end
  | EApp2 f a b =>
      match spec_fn2 documented f with
      | Some g => ibind2 g (spec_eval documented a) (spec_eval documented b)
      | None => INotCovered
      end
  end.

(* does the observed behaviour of the implementation satisfy the specification? *)
Definition spec_agrees (i : ires) (o : obs) : bool :=
  match i, o with
  | INotCovered, _ => true
  | IVal z, ObInt z' => z =? z'
  | IEvalErr, ObArithErr => true
  | _, _ => false
  end.

(* the model's integer-level view of a table entry, for the per-operator theorems *)
Definition as_ires (o : out) : ires :=
  match o with
  | OVal (VInt z) => IVal z
  | OArithErr => IEvalErr
  | _ => IOther
  end.
