(* C16 -- hand model of the evaluator around the generated function table:
   problog/logic.py  Term.compute_value / Constant.compute_value / compute_function
   (shape pinned by gen/c16_arith.py, which refuses to generate when those functions change)
   and problog/engine_builtin.py  _builtin_is, _builtin_lt/_gt/_le/_ge/_val_eq/_val_neq.
   No proofs in this file. *)
From Coq Require Import ZArith QArith Qabs Ascii String List Bool.
From PL.C16 Require Import PyNum GenArithTable.
Import ListNotations.
Open Scope Z_scope.

(* arithmetic expressions = ProbLog terms seen by is/2 (arity <= 2; user-defined
   functions, engine.functions, are empty in the default engine) *)
Inductive expr :=
| ENum (v : val)                      (* Constant(int) / Constant(float) *)
| EVar                                (* an unbound variable *)
| EApp0 (f : string)                  (* atom *)
| EApp1 (f : string) (a : expr)
| EApp2 (f : string) (a b : expr).

(* outcome of evaluation as the caller of the engine sees it *)
Inductive out :=
| OVal (v : val)
| OArithErr                           (* problog.logic.ArithmeticError (a GroundingError) *)
| ORaw (e : pyexc)                    (* a Python exception that is NOT a ProbLogError *)
| OCallMode                           (* problog CallModeError (a GroundingError) *)
| OInst                               (* problog InstantiationError (Var.compute_value; unreachable through is/2) *)
| OOpaque.                            (* libm / non-finite: any float, ArithmeticError or OverflowError *)

(* compute_function's try/except: the handlers are read from the source by the translator *)
Definition cf (r : pres) : out :=
  match r with
  | POk v => OVal v
  | PExc e => if cf_catches e then OArithErr else ORaw e
  | POpaque => OOpaque
  end.

(* logic.py unquote(s) = s.strip("'"): all leading and trailing quote characters *)
Definition is_quote (c : Ascii.ascii) : bool := Ascii.eqb c "'"%char.
Fixpoint lstrip_q (s : string) : string :=
  match s with
  | String c r => if is_quote c then lstrip_q r else s
  | EmptyString => s
  end.
Fixpoint rstrip_q (s : string) : string :=
  match s with
  | EmptyString => EmptyString
  | String c r =>
      match rstrip_q r with
      | EmptyString => if is_quote c then EmptyString else String c EmptyString
      | r' => String c r'
      end
  end.
Definition unquote (s : string) : string := rstrip_q (lstrip_q s).

Fixpoint ground (e : expr) : bool :=
  match e with
  | ENum _ => true
  | EVar => false
  | EApp0 _ => true
  | EApp1 _ a => ground a
  | EApp2 _ a b => ground a && ground b
  end.

(* compute_value on a ground term.  The function is looked up BEFORE the arguments are
   evaluated (unknown function wins over an error in an argument); arguments are evaluated
   left to right; an error of an argument propagates unchanged (problog's ArithmeticError is
   not one of the caught Python classes, raw Python exceptions are re-examined by the outer
   handlers). *)
Definition reraise (o : out) : out :=
  match o with
  | ORaw e => if cf_catches e then OArithErr else ORaw e
  | other => other
  end.

Fixpoint eval (e : expr) : out :=
  match e with
  | ENum v => OVal v
  | EVar => OInst
  | EApp0 f =>
      match lookup (unquote f) 0 arith_table with
      | Some (F0 r) => cf r
      | _ => OArithErr
      end
  | EApp1 f a =>
      match lookup (unquote f) 1 arith_table with
      | Some (F1 g) =>
          match eval a with
          | OVal x => cf (g x)
          | other => reraise other
          end
      | _ => OArithErr
      end
  | EApp2 f a b =>
      match lookup (unquote f) 2 arith_table with
      | Some (F2 g) =>
          match eval a with
          | OVal x =>
              match eval b with
              | OVal y => cf (g x y)
              | other => reraise other
              end
          | other => reraise other
          end
      | _ => OArithErr
      end
  end.

(* X is E, X unbound: check_mode "*g" first *)
Definition is_m (e : expr) : out := if ground e then eval e else OCallMode.

(* arithmetic comparison builtins *)
Inductive cmpop := CLt | CGt | CLe | CGe | CEq | CNe.
Inductive outb := BBool (b : bool) | BErr (o : out) | BOpaque.

Definition py_cmp (op : cmpop) : val -> val -> option bool :=
  match op with
  | CLt => py_lt | CGt => py_gt | CLe => py_le | CGe => py_ge | CEq => py_eq | CNe => py_ne
  end.

Definition cmp_m (op : cmpop) (a b : expr) : outb :=
  if negb (ground a && ground b) then BErr OCallMode else
  match eval a with
  | OVal x =>
      match eval b with
      | OVal y => match py_cmp op x y with Some t => BBool t | None => BOpaque end
      | OOpaque => BOpaque
      | other => BErr other
      end
  | OOpaque => BOpaque
  | other => BErr other
  end.

(* ---------------------------------------------------------------- observations of the real engine *)
Inductive obs :=
| ObInt (z : Z)
| ObFlt (q : Q)          (* the exact rational value of the Python float that came back *)
| ObNonFinite
| ObArithErr             (* problog ArithmeticError *)
| ObRaw (e : pyexc)
| ObCallMode
| ObOther.               (* anything else (other exception class / several answers / no answer) *)

(* Constant() rounds floats to 15 decimals: absolute 1e-15; one IEEE rounding: relative 2^-50 *)
Definition q_close (m o : Q) : bool :=
  Qle_bool (Qabs (m - o)) ((1 # 1000000000000000) + (1 # 1125899906842624) * Qabs m).

Definition pyexc_eqb (a b : pyexc) : bool :=
  match a, b with
  | PyZeroDivisionError, PyZeroDivisionError | PyValueError, PyValueError
  | PyTypeError, PyTypeError | PyOverflowError, PyOverflowError => true
  | _, _ => false
  end.

Definition out_matches (m : out) (o : obs) : bool :=
  match m, o with
  | OVal (VInt z), ObInt z' => z =? z'
  | OVal (VFlt q), ObFlt q' => q_close q q'
  | OVal VNonFinite, ObNonFinite => true
  | OArithErr, ObArithErr => true
  | ORaw e, ObRaw e' => pyexc_eqb e e'
  | OCallMode, ObCallMode => true
  | OOpaque, (ObInt _ | ObFlt _ | ObNonFinite | ObArithErr | ObRaw PyOverflowError) => true
  | _, _ => false
  end.

(* exact variant for cases whose float results are representable with few bits *)
Definition out_matches_exact (m : out) (o : obs) : bool :=
  match m, o with
  | OVal (VFlt q), ObFlt q' => Qeq_bool q q'
  | _, _ => out_matches m o
  end.

Inductive obsb := ObTrue | ObFalse | ObBErr (o : obs).
Definition outb_matches (m : outb) (o : obsb) : bool :=
  match m, o with
  | BBool true, ObTrue => true
  | BBool false, ObFalse => true
  | BErr e, ObBErr e' => out_matches e e'
  | BOpaque, _ => true
  | _, _ => false
  end.
