(* C16 -- refutation witnesses for defects still present in the code (known findings);
   outside the cone of Props.v.  If one of these stops compiling, the defect is gone.
   Removed after the fixes 0b983d1 (// floored) and 168ee04 (TypeError/OverflowError escaped):
   C16_intdiv_refuted, C16_intdiv_guard_exact, C16_type_error_escapes_refuted. *)
From Coq Require Import ZArith QArith String List Bool Lia ZifyBool.
From PL.C16 Require Import PyNum GenArithTable ModelEval IsoArith ProofsArith GenModes ModelBuiltins ProofsBuiltins.
Import ListNotations.
Open Scope Z_scope.

(* documented (docs/source/prolog.rst), hence not a defect: rem is not ISO rem *)
Theorem C16_rem_is_not_iso_rem : exists a b, app2 "rem" a b <> iso_rem a b.
Proof. exists (-7), 2. vm_compute. discriminate. Qed.

(* ---- term builtins ---- *)
(* succ(X, 0) answers X = -1 (Prolog: no solution; negative arguments: type error) *)
Theorem C16_succ_zero_refuted : exists x, In [TInt x; TInt 0] (sols_of (succ_m (TVar 0) (TInt 0))) /\ ~ succ_rel x 0.
Proof. exists (-1). split; [vm_compute; auto | unfold succ_rel; lia]. Qed.
(* length(L, N) with N smaller than the known prefix (or negative) raises a raw UnifyError *)
Theorem C16_length_negative_refuted : length_m 0 (TVar 0) (TInt (-1)) = RaiseUnify.
Proof. reflexivity. Qed.
(* is_list([a|_]) succeeds; integer(Y) succeeds for Y = '-'(7) built at run time *)
Theorem C16_type_tests_refuted :
  type_test T_is_list (mklist [atom "a"] (TVar 0)) <> iso_type_test T_is_list (mklist [atom "a"] (TVar 0))
  /\ type_test T_integer (TApp "'-'" [TInt 7]) <> iso_type_test T_integer (TApp "'-'" [TInt 7])
  /\ type_test T_atomic (TStr "s") <> iso_type_test T_atomic (TStr "s").
Proof. vm_compute. repeat split; discriminate. Qed.
