(* C16 -- refutation witnesses for the code as it is at the pinned commit; outside the cone
   of Props.v.  If one of these stops compiling, the defect is gone. *)
From Coq Require Import ZArith QArith String List Bool.
From PL.C16 Require Import PyNum GenArithTable ModelEval IsoArith ProofsArith.
Import ListNotations.
Open Scope Z_scope.

(* X is -7 // 2 gives -4; ISO / SWI / YAP (toward_zero) give -3 *)
Theorem C16_intdiv_refuted : exists a b, app2 "//" a b <> iso_intdiv a b.
Proof. exists (-7), 2. vm_compute. discriminate. Qed.

Theorem C16_intdiv_witness : app2 "//" (-7) 2 = IVal (-4) /\ iso_intdiv (-7) 2 = IVal (-3).
Proof. vm_compute. auto. Qed.

(* documented (docs/source/prolog.rst), hence not a defect: rem is not ISO rem *)
Theorem C16_rem_is_not_iso_rem : exists a b, app2 "rem" a b <> iso_rem a b.
Proof. exists (-7), 2. vm_compute. discriminate. Qed.

(* a float operand of an integer-only operator escapes as a raw Python TypeError
   (compute_function only maps ValueError and ZeroDivisionError): X is 1.5 /\ 1 *)
Theorem C16_type_error_escapes_refuted :
  exists e, ground e = true /\ is_m e = ORaw PyTypeError.
Proof. exists (EApp2 "/\" (ENum (VFlt (3 # 2))) (ENum (VInt 1))). vm_compute. auto. Qed.
