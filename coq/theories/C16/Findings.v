(* C16 -- refutation witnesses for the code as it is at the pinned commit; outside the cone
   of Props.v.  If one of these stops compiling, the defect is gone. *)
From Coq Require Import ZArith QArith String List Bool Lia ZifyBool.
From PL.C16 Require Import PyNum GenArithTable ModelEval IsoArith ProofsArith GenModes ModelBuiltins ProofsBuiltins.
Import ListNotations.
Open Scope Z_scope.

(* X is -7 // 2 gives -4; ISO / SWI / YAP (toward_zero) give -3 *)
Theorem C16_intdiv_refuted : exists a b, app2 "//" a b <> iso_intdiv a b.
Proof. exists (-7), 2. vm_compute. discriminate. Qed.

Theorem C16_intdiv_witness : app2 "//" (-7) 2 = IVal (-4) /\ iso_intdiv (-7) 2 = IVal (-3).
Proof. vm_compute. auto. Qed.

(* documented (docs/source/prolog.rst), hence not a defect: rem is not ISO rem *)
Theorem C16_rem_is_not_iso_rem : exists a b, app2 "rem" a b <> iso_rem a b.
Proof. exists (-7), 2. vm_compute. discriminate. Qed.

(* a float operand of an integer-only operator escapes as a raw Python TypeError
   (compute_function only maps ValueError and ZeroDivisionError): X is 1.5 /\ 1 *)
Theorem C16_type_error_escapes_refuted :
  exists e, ModelEval.ground e = true /\ is_m e = ORaw PyTypeError.
Proof. exists (EApp2 "/\" (ENum (VFlt (3 # 2))) (ENum (VInt 1))). vm_compute. auto. Qed.

(* ---- the defect class of X // Y is exactly the complement of intdiv_guard, and the result is
   off by exactly one there ---- *)
Lemma intdiv_form : forall a b, app2 "//" a b = if b =? 0 then IEvalErr else IVal (a / b).
Proof. intros. table. destruct (b =? 0); reflexivity. Qed.


Lemma intdiv_differs_unguarded : forall a b, intdiv_guard a b = false -> app2 "//" a b <> iso_intdiv a b.
Proof.
  intros a b G. rewrite intdiv_form. unfold iso_intdiv.
  destruct (b =? 0) eqn:E.
  - unfold intdiv_guard in G. rewrite E in G. discriminate.
  - intro H. injection H as H. symmetry in H. apply quot_div_guard in H; [|lia]. congruence.
Qed.

Lemma intdiv_floor_minus_one : forall a b, intdiv_guard a b = false -> app2 "//" a b = IVal (Z.quot a b - 1).
Proof.
  intros a b G. rewrite intdiv_form. unfold intdiv_guard in G.
  destruct (b =? 0) eqn:E; [discriminate|].
  assert (Hb : b <> 0) by lia.
  pose proof (Z.quot_rem a b Hb) as Hq.
  pose proof (Z.div_mod a b Hb) as Hd.
  assert (Hm : b > 0 -> 0 <= a mod b < b) by (intro; apply Z.mod_pos_bound; lia).
  assert (Hn : b < 0 -> b < a mod b <= 0) by (intro; apply Z.mod_neg_bound; lia).
  assert (Hr : Z.abs (Z.rem a b) < Z.abs b) by (apply Z.rem_bound_abs; exact Hb).
  assert (Hs : 0 <= a -> 0 <= Z.rem a b) by (intro; apply Z.rem_nonneg; lia).
  assert (Ht : a <= 0 -> Z.rem a b <= 0) by (intro; apply Z.rem_nonpos; lia).
  f_equal. nia.
Qed.


Theorem C16_intdiv_guard_exact :
  forall a b, intdiv_guard a b = false -> app2 "//" a b <> iso_intdiv a b /\ app2 "//" a b = IVal (Z.quot a b - 1).
Proof. intros a b G. split; [exact (intdiv_differs_unguarded a b G) | exact (intdiv_floor_minus_one a b G)]. Qed.

(* ---- term builtins ---- *)
(* succ(X, 0) answers X = -1 (Prolog: no solution; negative arguments: type error) *)
Theorem C16_succ_zero_refuted : exists x, In [TInt x; TInt 0] (sols_of (succ_m (TVar 0) (TInt 0))) /\ ~ succ_rel x 0.
Proof. exists (-1). split; [vm_compute; auto | unfold succ_rel; lia]. Qed.
(* length(L, N) with N smaller than the known prefix (or negative) raises a raw UnifyError *)
Theorem C16_length_negative_refuted : length_m 0 (TVar 0) (TInt (-1)) = RaiseUnify.
Proof. reflexivity. Qed.
(* is_list([a|_]) succeeds; integer(Y) succeeds for Y = '-'(7) built at run time *)
Theorem C16_type_tests_refuted :
  type_test T_is_list (mklist [atom "a"] (TVar 0)) <> iso_type_test T_is_list (mklist [atom "a"] (TVar 0))
  /\ type_test T_integer (TApp "'-'" [TInt 7]) <> iso_type_test T_integer (TApp "'-'" [TInt 7])
  /\ type_test T_atomic (TStr "s") <> iso_type_test T_atomic (TStr "s").
Proof. vm_compute. repeat split; discriminate. Qed.
