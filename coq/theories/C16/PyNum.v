(* C16 -- CPython numeric semantics used by problog/logic.py `_arithmetic_functions`.
   This is the *target language* of the translator gen/c16_arith.py: every Python
   operator / builtin that may occur in a lambda body of the table has one
   definition here.  No proofs in this file.

   Values: Python `int` = Z (unbounded).  Python `float` is modelled by the exact
   rational it denotes (finite doubles are dyadic rationals); operations on floats
   are the exact rational operations, so the model describes CPython exactly only
   where the exact result is representable, and up to one rounding otherwise (the
   tie compares floats with a stated tolerance).  inf / nan are one opaque value.
   libm calls are `POpaque`: exercised, never given a value.  *)
From Coq Require Import ZArith QArith Qround Qabs String List Bool.
Import ListNotations.
Open Scope Z_scope.

Inductive val :=
| VInt (z : Z)
| VFlt (q : Q)
| VNonFinite.            (* float('inf'), float('-inf'), float('nan') *)

Inductive pyexc := PyZeroDivisionError | PyValueError | PyTypeError | PyOverflowError.

Inductive pres :=
| POk (v : val)
| PExc (e : pyexc)
| POpaque.               (* libm / non-finite float arithmetic: not modelled *)

Definition flt (q : Q) : pres := POk (VFlt (Qred q)).
Definition int (z : Z) : pres := POk (VInt z).

(* Python evaluates the left operand, then the right operand, then applies. *)
Definition l1 (f : val -> pres) (x : pres) : pres :=
  match x with POk a => f a | other => other end.
Definition l2 (f : val -> val -> pres) (x y : pres) : pres :=
  match x with
  | POk a => match y with POk b => f a b | other => other end
  | other => other
  end.

Definition Qlt_bool (x y : Q) : bool := negb (Qle_bool y x).

(* binary numeric operator with int/int and (coerced) float/float cases *)
Definition num2 (fi : Z -> Z -> pres) (ff : Q -> Q -> pres) (a b : val) : pres :=
  match a, b with
  | VInt x, VInt y => fi x y
  | VInt x, VFlt y => ff (inject_Z x) y
  | VFlt x, VInt y => ff x (inject_Z y)
  | VFlt x, VFlt y => ff x y
  | _, _ => POpaque
  end.

(* operators defined on int only: a float operand is a TypeError *)
Definition int2 (fi : Z -> Z -> pres) (a b : val) : pres :=
  match a, b with
  | VInt x, VInt y => fi x y
  | _, _ => PExc PyTypeError
  end.

Definition py_add := num2 (fun x y => int (x + y)) (fun x y => flt (x + y)).
Definition py_sub := num2 (fun x y => int (x - y)) (fun x y => flt (x - y)).
Definition py_mul := num2 (fun x y => int (x * y)) (fun x y => flt (x * y)).

(* a / b : true division, always a float *)
Definition py_truediv :=
  num2 (fun x y => if y =? 0 then PExc PyZeroDivisionError else flt (inject_Z x / inject_Z y))
       (fun x y => if Qeq_bool y 0 then PExc PyZeroDivisionError else flt (x / y)).

(* a // b : floor division *)
Definition py_floordiv :=
  num2 (fun x y => if y =? 0 then PExc PyZeroDivisionError else int (Z.div x y))
       (fun x y => if Qeq_bool y 0 then PExc PyZeroDivisionError else flt (inject_Z (Qfloor (x / y)))).

(* a % b : result has the sign of the divisor *)
Definition py_mod :=
  num2 (fun x y => if y =? 0 then PExc PyZeroDivisionError else int (Z.modulo x y))
       (fun x y => if Qeq_bool y 0 then PExc PyZeroDivisionError
                   else flt (x - y * inject_Z (Qfloor (x / y)))).

(* a ** b : int**nonneg int is an int; int**negative int is a float (0**neg raises);
   anything with a float goes through libm pow *)
Definition py_pow (a b : val) : pres :=
  match a, b with
  | VInt x, VInt y =>
      if 0 <=? y then int (Z.pow x y)
      else if x =? 0 then PExc PyZeroDivisionError
      else flt (Qpower (inject_Z x) y)
  | _, _ => POpaque
  end.

Definition py_lshift := int2 (fun x y => if y <? 0 then PExc PyValueError else int (x * 2 ^ y)).
Definition py_rshift := int2 (fun x y => if y <? 0 then PExc PyValueError else int (x / 2 ^ y)).
Definition py_and := int2 (fun x y => int (Z.land x y)).
Definition py_or := int2 (fun x y => int (Z.lor x y)).
Definition py_xor := int2 (fun x y => int (Z.lxor x y)).

Definition py_invert (a : val) : pres :=
  match a with VInt x => int (- x - 1) | _ => PExc PyTypeError end.
Definition py_neg (a : val) : pres :=
  match a with VInt x => int (- x) | VFlt q => flt (- q) | VNonFinite => POpaque end.
Definition py_pos (a : val) : pres := POk a.

Definition py_abs (a : val) : pres :=
  match a with
  | VInt x => int (if x <? 0 then - x else x)
  | VFlt q => flt (if Qlt_bool q 0 then - q else q)
  | VNonFinite => POpaque
  end.

(* comparisons: Python compares int with float exactly; nan makes the outcome opaque *)
Definition cmp2 (fi : Z -> Z -> bool) (ff : Q -> Q -> bool) (a b : val) : option bool :=
  match a, b with
  | VInt x, VInt y => Some (fi x y)
  | VInt x, VFlt y => Some (ff (inject_Z x) y)
  | VFlt x, VInt y => Some (ff x (inject_Z y))
  | VFlt x, VFlt y => Some (ff x y)
  | _, _ => None
  end.
Definition py_lt := cmp2 Z.ltb Qlt_bool.
Definition py_gt := cmp2 Z.gtb (fun x y => Qlt_bool y x).
Definition py_le := cmp2 Z.leb Qle_bool.
Definition py_ge := cmp2 Z.geb (fun x y => Qle_bool y x).
Definition py_eq := cmp2 Z.eqb Qeq_bool.
Definition py_ne := cmp2 (fun x y => negb (x =? y)) (fun x y => negb (Qeq_bool x y)).

(* conditional expression `t if c else e` *)
Definition py_if (c : option bool) (t e : pres) : pres :=
  match c with Some true => t | Some false => e | None => POpaque end.

(* builtin min(a, b): keeps the first argument unless the second is strictly smaller *)
Definition py_min (a b : val) : pres := py_if (py_lt b a) (POk b) (POk a).
Definition py_max (a b : val) : pres := py_if (py_gt b a) (POk b) (POk a).

Definition q_trunc (q : Q) : Z := if Qle_bool 0 q then Qfloor q else Qceiling q.
(* round(x) with one argument: nearest integer, ties to even *)
Definition q_round_half_even (q : Q) : Z :=
  let f := Qfloor q in
  match Qcompare (q - inject_Z f) (1 # 2) with
  | Lt => f
  | Gt => f + 1
  | Eq => if Z.even f then f else f + 1
  end.

(* int(x), float(x), math.floor/ceil/trunc(x), round(x) *)
Definition py_int (a : val) : pres :=
  match a with VInt x => int x | VFlt q => int (q_trunc q) | VNonFinite => POpaque end.
Definition py_float (a : val) : pres :=
  match a with VInt x => flt (inject_Z x) | VFlt q => flt q | VNonFinite => POk VNonFinite end.
Definition py_math_floor (a : val) : pres :=
  match a with VInt x => int x | VFlt q => int (Qfloor q) | VNonFinite => POpaque end.
Definition py_math_ceil (a : val) : pres :=
  match a with VInt x => int x | VFlt q => int (Qceiling q) | VNonFinite => POpaque end.
Definition py_math_trunc (a : val) : pres :=
  match a with VInt x => int x | VFlt q => int (q_trunc q) | VNonFinite => POpaque end.
Definition py_round (a : val) : pres :=
  match a with VInt x => int x | VFlt q => int (q_round_half_even q) | VNonFinite => POpaque end.

(* a libm function of any arity: value (and domain errors) not modelled *)
Definition py_libm1 (name : string) (a : val) : pres := POpaque.
Definition py_libm2 (name : string) (a b : val) : pres := POpaque.

(* function table entries *)
Inductive fn :=
| F0 (r : pres)
| F1 (f : val -> pres)
| F2 (f : val -> val -> pres).

Definition fn_arity (f : fn) : nat :=
  match f with F0 _ => 0%nat | F1 _ => 1%nat | F2 _ => 2%nat end.

Fixpoint lookup (name : string) (arity : nat) (t : list (string * fn)) : option fn :=
  match t with
  | [] => None
  | (n, f) :: rest =>
      if (String.eqb n name && Nat.eqb (fn_arity f) arity)%bool then Some f else lookup name arity rest
  end.
