(* C16 -- hand model of the term-inspection / integer builtins of problog/engine_builtin.py:
   mode tests (_is_var ... _is_fixed_list, is_ground), check_mode, between/3, succ/2, plus/3,
   length/2, functor/3, arg/3, =../2 and the type-test builtins.  The mode tables come from
   GenModes.v (generated from the source).  No proofs in this file.

   Terms: variables are numbered; atoms are TApp f [] ; lists are '.'(H,T) / '[]'.
   Functors are kept as ProbLog keeps them (a parsed operator keeps its quotes: "'-'"). *)
From Coq Require Import ZArith QArith String List Bool.
From PL.C16 Require Import GenModes.
Import ListNotations.
Open Scope Z_scope.

Inductive term :=
| TVar (n : nat)
| TInt (z : Z)                         (* Constant(int) *)
| TFlt (q : Q)                         (* Constant(float) *)
| TStr (s : string)                    (* Constant(str): a double-quoted string *)
| TApp (f : string) (args : list term).

Definition atom (f : string) : term := TApp f [].
Definition nil_t : term := atom "[]".
Definition cons_t (h t : term) : term := TApp "." [h; t].
Fixpoint mklist (xs : list term) (tail : term) : term :=
  match xs with [] => tail | x :: r => cons_t x (mklist r tail) end.

Fixpoint term_eqb (a b : term) : bool :=
  match a, b with
  | TVar n, TVar m => Nat.eqb n m
  | TInt x, TInt y => Z.eqb x y
  | TFlt p, TFlt q => Qeq_bool p q
  | TStr s, TStr t => String.eqb s t
  | TApp f xs, TApp g ys =>
      String.eqb f g &&
      (fix go (xs ys : list term) : bool :=
         match xs, ys with
         | [], [] => true
         | x :: xs', y :: ys' => term_eqb x y && go xs' ys'
         | _, _ => false
         end) xs ys
  | _, _ => false
  end.

Fixpoint ground (t : term) : bool :=
  match t with
  | TVar _ => false
  | TApp _ args => forallb ground args
  | _ => true
  end.

(* ---- engine_builtin.py _is_* ---- *)
Definition is_var (t : term) : bool := match t with TVar _ => true | _ => false end.
Definition is_nonvar (t : term) : bool := negb (is_var t).
Definition is_constant (t : term) : bool := match t with TInt _ | TFlt _ | TStr _ => true | _ => false end.
Definition is_term (t : term) : bool := match t with TApp _ _ => true | _ => false end.
Definition is_integer_pos (t : term) : bool := match t with TInt _ => true | _ => false end.
Definition is_float_pos (t : term) : bool := match t with TFlt _ => true | _ => false end.
(* '-'(N) with the functor spelled "'-'" (what  Y = -X  builds at run time) *)
Definition neg_arg (t : term) : option term :=
  match t with
  | TApp f [x] => if String.eqb f "'-'" then Some x else None
  | _ => None
  end.
Definition is_integer_neg (t : term) : bool :=
  match neg_arg t with Some x => is_integer_pos x | None => false end.
Definition is_float_neg (t : term) : bool :=
  match neg_arg t with Some x => is_float_pos x | None => false end.
Definition is_integer (t : term) : bool := is_integer_pos t || is_integer_neg t.
Definition is_float (t : term) : bool := is_float_pos t || is_float_neg t.
Definition is_number (t : term) : bool := is_float t || is_integer t.
Definition is_string (t : term) : bool := match t with TStr _ => true | _ => false end.
Definition is_atom (t : term) : bool := match t with TApp _ [] => true | _ => false end.
Definition is_compound (t : term) : bool := match t with TApp _ (_ :: _) => true | _ => false end.
Definition is_atomic (t : term) : bool := is_nonvar t && negb (is_compound t).

Fixpoint list_tail (t : term) : term :=
  match t with
  | TApp f (h :: tl :: nil) => if String.eqb f "." then list_tail tl else t
  | _ => t
  end.
Fixpoint list_elements (t : term) : list term :=
  match t with
  | TApp f (h :: tl :: nil) => if String.eqb f "." then h :: list_elements tl else []
  | _ => []
  end.
Definition is_list_maybe (t : term) : bool :=
  match t with TApp f [_; _] => String.eqb f "." | _ => false end.
Definition is_list_empty (t : term) : bool :=
  match t with TApp f [] => String.eqb f "[]" | _ => false end.
Definition is_list_nonempty (t : term) : bool :=
  is_list_maybe t && (is_list_empty (list_tail t) || is_var (list_tail t)).
Definition is_fixed_list_nonempty (t : term) : bool :=
  is_list_maybe t && is_list_empty (list_tail t).
Definition is_fixed_list (t : term) : bool := is_list_empty t || is_fixed_list_nonempty t.
Definition is_list (t : term) : bool := is_list_empty t || is_list_nonempty t.
Definition is_compare (t : term) : bool :=
  match t with TApp f [] => String.eqb f "'<'" || String.eqb f "'='" || String.eqb f "'>'" | _ => false end.

Definition mode_test (m : mode) (t : term) : bool :=
  match m with
  | MI => is_integer t
  | MIpos => is_integer_pos t
  | Mf => is_float t
  | Mv => is_var t
  | Mn => is_nonvar t
  | Ml => is_list t
  | ML => is_fixed_list t
  | Many => true
  | Mcompare => is_compare t
  | Mg => ground t
  | Ma => is_atom t
  | Mc => is_term t
  | Mo => false                       (* Object terms do not occur in the term model *)
  | Ms => is_string t || is_atom t
  end.

(* zip(args, mode): all tests of one mode string *)
Fixpoint mode_ok (args : list term) (m : list mode) : bool :=
  match args, m with
  | a :: ar, t :: mr => mode_test t a && mode_ok ar mr
  | _, _ => true
  end.
(* index of the first accepted mode, None = CallModeError *)
Fixpoint check_mode_from (i : nat) (args : list term) (accepted : list (list mode)) : option nat :=
  match accepted with
  | [] => None
  | m :: rest => if mode_ok args m then Some i else check_mode_from (S i) args rest
  end.
Definition check_mode := check_mode_from 0.

(* ---- the type-test builtins (_builtin_var ... _builtin_is_list) ---- *)
Inductive ttest := T_var | T_nonvar | T_atom | T_atomic | T_number | T_integer | T_float
                 | T_compound | T_callable | T_is_list | T_ground.
Definition type_test (k : ttest) (t : term) : bool :=
  match k with
  | T_var => is_var t
  | T_nonvar => negb (is_var t)
  | T_atom => is_atom t
  | T_atomic => is_atom t || is_number t          (* _builtin_atomic, not _is_atomic *)
  | T_number => is_number t
  | T_integer => is_integer t
  | T_float => is_float t
  | T_compound => is_compound t
  | T_callable => is_term t
  | T_is_list => is_list t
  | T_ground => ground t
  end.

(* ---- results of a deterministic-or-enumerating builtin ---- *)
Inductive bres :=
| Sols (l : list (list term))          (* the argument tuples returned, in order *)
| ModeErr                              (* CallModeError (a ProbLogError) *)
| RaiseUnify                           (* a raw UnifyError escapes the builtin *)
| NotModelled.                         (* needs general unification of non-ground terms *)

(* int(term): Constant -> its value; '-'(N) -> -N (through compute_value) *)
Definition int_of (t : term) : Z :=
  match t with
  | TInt z => z
  | _ => match neg_arg t with Some (TInt z) => - z | _ => 0 end
  end.

(* unify_value(computed, given) when `given` is a variable or both are ground *)
Inductive ures := UOk (t : term) | UFail | UUnknown.
Definition unify_out (computed given : term) : ures :=
  if is_var given then UOk computed
  else if ground given && ground computed then (if term_eqb computed given then UOk computed else UFail)
  else UUnknown.

Fixpoint zrange_from (l : Z) (n : nat) : list Z :=
  match n with O => [] | S k => l :: zrange_from (l + 1) k end.
(* range(low, high + 1) *)
Definition zrange (l h : Z) : list Z := zrange_from l (Z.to_nat (h - l + 1)).

Definition between_m (l h x : term) : bres :=
  match check_mode [l; h; x] modes_between with
  | Some O =>
      if (int_of l <=? int_of x) && (int_of x <=? int_of h) then Sols [[l; h; x]] else Sols []
  | Some _ => Sols (map (fun v => [l; h; TInt v]) (zrange (int_of l) (int_of h)))
  | None => ModeErr
  end.

Definition succ_m (a b : term) : bres :=
  match check_mode [a; b] modes_succ with
  | Some O => Sols [[TInt (int_of b - 1); b]]
  | Some (S O) => Sols [[a; TInt (int_of a + 1)]]
  | Some _ => if int_of b =? int_of a + 1 then Sols [[a; b]] else Sols []
  | None => ModeErr
  end.

Definition plus_m (a b c : term) : bres :=
  match check_mode [a; b; c] modes_plus with
  | Some O => if int_of a + int_of b =? int_of c then Sols [[a; b; c]] else Sols []
  | Some (S O) => Sols [[a; b; TInt (int_of a + int_of b)]]
  | Some (S (S O)) => Sols [[a; TInt (int_of c - int_of a); c]]
  | Some _ => Sols [[TInt (int_of c - int_of b); b; c]]
  | None => ModeErr
  end.

(* fresh variables: numbered upwards from `fresh` *)
Fixpoint fresh_vars (fresh n : nat) : list term :=
  match n with O => [] | S k => TVar fresh :: fresh_vars (S fresh) k end.

Definition length_m (fresh : nat) (l n : term) : bres :=
  match check_mode [l; n] modes_length with
  | Some O | Some (S O) =>
      let k := Z.of_nat (List.length (list_elements l)) in
      match unify_out (TInt k) n with
      | UOk n' => Sols [[l; n']]
      | UFail => Sols []
      | UUnknown => NotModelled
      end
  | Some i =>
      let elements := match i with S (S O) => list_elements l | _ => [] end in
      let remain := int_of n - Z.of_nat (List.length elements) in
      if remain <? 0 then RaiseUnify
      else Sols [[mklist (elements ++ fresh_vars fresh (Z.to_nat remain)) nil_t; n]]
  | None => ModeErr
  end.

Definition functor_m (fresh : nat) (t f a : term) : bres :=
  match check_mode [t; f; a] modes_functor with
  | Some O =>
      match f with
      | TApp g _ => Sols [[TApp g (fresh_vars fresh (Z.to_nat (int_of a))); f; a]]
      | _ => NotModelled
      end
  | Some _ =>
      match t with
      | TApp g args =>
          match unify_out (atom g) f, unify_out (TInt (Z.of_nat (List.length args))) a with
          | UOk f', UOk a' => Sols [[t; f'; a']]
          | UUnknown, _ | _, UUnknown => NotModelled
          | _, _ => Sols []
          end
      | _ => NotModelled                 (* functor of a number: Term(5) is not a term of the model *)
      end
  | None => ModeErr
  end.

Definition arg_m (n t a : term) : bres :=
  match check_mode [n; t; a] modes_arg with
  | Some _ =>
      let i := int_of n - 1 in
      let args := match t with TApp _ xs => xs | _ => [] end in
      if (0 <=? i) && (i <? Z.of_nat (List.length args)) then
        match nth_error args (Z.to_nat i) with
        | Some x =>
            match unify_out x a with
            | UOk r => Sols [[n; t; r]]
            | UFail => Sols []
            | UUnknown => NotModelled
            end
        | None => Sols []
        end
      else Sols []
  | None => ModeErr
  end.

Definition univ_m (t l : term) : bres :=
  match check_mode [t; l] modes_univ with
  | Some O =>
      match list_elements l with
      | [] => ModeErr                                   (* explicit CallModeError: empty list *)
      | [e] => Sols [[e; l]]
      | e :: rest =>
          match e with
          | TApp g [] => Sols [[TApp g rest; l]]
          | _ => ModeErr                                (* explicit CallModeError: head not an atom *)
          end
      end
  | Some _ =>
      let parts := match t with TApp g args => atom g :: args | _ => [t] end in
      match unify_out (mklist parts nil_t) l with
      | UOk l' => Sols [[t; l']]
      | UFail => Sols []
      | UUnknown => NotModelled
      end
  | None => ModeErr
  end.

(* ------------------------------------------------------------------ reference (ISO 8.3 / SWI) *)
(* type classification of standard Prolog on the same term model *)
Fixpoint proper_list (t : term) : bool :=
  match t with
  | TApp f [] => String.eqb f "[]"
  | TApp f (h :: tl :: nil) => if String.eqb f "." then proper_list tl else false
  | _ => false
  end.
Definition iso_type_test (k : ttest) (t : term) : bool :=
  match k with
  | T_var => is_var t
  | T_nonvar => negb (is_var t)
  | T_atom => match t with TApp _ [] => true | _ => false end
  | T_atomic => match t with TApp _ [] | TInt _ | TFlt _ | TStr _ => true | _ => false end
  | T_number => match t with TInt _ | TFlt _ => true | _ => false end
  | T_integer => match t with TInt _ => true | _ => false end
  | T_float => match t with TFlt _ => true | _ => false end
  | T_compound => match t with TApp _ (_ :: _) => true | _ => false end
  | T_callable => match t with TApp _ _ => true | _ => false end
  | T_is_list => proper_list t
  | T_ground => ground t
  end.

(* the inputs on which ProbLog's tests are known to deviate: a run-time '-'(Number) compound,
   a partial list for is_list/1, a double-quoted string for atomic/1 *)
Definition type_test_guard (k : ttest) (t : term) : bool :=
  match k with
  | T_atomic => negb (is_integer_neg t || is_float_neg t) && negb (is_string t)
  | T_number | T_integer | T_float => negb (is_integer_neg t || is_float_neg t)
  | T_is_list => negb (is_var (list_tail t) && is_list_maybe t)
  | _ => true
  end.
