(* C16 -- lemmas about the builtin models of ModelBuiltins.v (mode tables from GenModes.v). *)
From Coq Require Import ZArith QArith String List Bool Lia Sorted.
From PL.C16 Require Import GenModes ModelBuiltins.
Import ListNotations.
Open Scope Z_scope.

(* ---------------------------------------------------------------- between/3 *)
Lemma zrange_from_in : forall n l x, In x (zrange_from l n) <-> l <= x < l + Z.of_nat n.
Proof.
  induction n as [|n IH]; intros l x; cbn [zrange_from In].
  - lia.
  - rewrite IH. lia.
Qed.

Lemma zrange_in : forall l h x, In x (zrange l h) <-> l <= x <= h.
Proof.
  intros l h x. unfold zrange. rewrite zrange_from_in.
  destruct (Z_le_gt_dec l h); [rewrite Z2Nat.id by lia; lia|].
  replace (Z.to_nat (h - l + 1)) with 0%nat by lia. lia.
Qed.

Lemma zrange_from_sorted : forall n l, StronglySorted Z.lt (zrange_from l n).
Proof.
  induction n as [|n IH]; intros l; cbn [zrange_from]; constructor.
  - apply IH.
  - apply Forall_forall. intros x Hx. apply zrange_from_in in Hx. lia.
Qed.
Lemma zrange_sorted : forall l h, StronglySorted Z.lt (zrange l h).
Proof. intros. apply zrange_from_sorted. Qed.

Lemma between_enumerates : forall l h v,
  between_m (TInt l) (TInt h) (TVar v) = Sols (map (fun x => [TInt l; TInt h; TInt x]) (zrange l h)).
Proof. intros; reflexivity. Qed.

Lemma between_checks : forall l h x,
  between_m (TInt l) (TInt h) (TInt x) = if (l <=? x) && (x <=? h) then Sols [[TInt l; TInt h; TInt x]] else Sols [].
Proof. intros; reflexivity. Qed.

Lemma between_mode_error : forall l h x,
  is_integer l = false \/ is_integer h = false \/ (is_integer x = false /\ is_var x = false) ->
  between_m l h x = ModeErr.
Proof.
  intros l h x H. unfold between_m, check_mode, modes_between.
  cbn [check_mode_from mode_ok mode_test].
  destruct H as [H | [H | [H1 H2]]].
  - rewrite H. reflexivity.
  - rewrite H. rewrite !andb_false_r. reflexivity.
  - rewrite H1, H2. rewrite !andb_false_r. reflexivity.
Qed.

(* ---------------------------------------------------------------- succ/2, plus/3 *)
Lemma succ_pred : forall v b, succ_m (TVar v) (TInt b) = Sols [[TInt (b - 1); TInt b]].
Proof. intros; reflexivity. Qed.
Lemma succ_next : forall a v, succ_m (TInt a) (TVar v) = Sols [[TInt a; TInt (a + 1)]].
Proof. intros; reflexivity. Qed.
Lemma succ_check : forall a b, succ_m (TInt a) (TInt b) = if b =? a + 1 then Sols [[TInt a; TInt b]] else Sols [].
Proof. intros; reflexivity. Qed.

(* Prolog: succ(A, B) relates naturals with B = A + 1 *)
Definition succ_rel (a b : Z) : Prop := 0 <= a /\ b = a + 1.
Definition sols_of (r : bres) : list (list term) := match r with Sols l => l | _ => [] end.

Lemma succ_exact_on_naturals : forall v a b,
  (0 < b -> forall x, In [TInt x; TInt b] (sols_of (succ_m (TVar v) (TInt b))) <-> succ_rel x b)
  /\ (0 <= a -> forall y, In [TInt a; TInt y] (sols_of (succ_m (TInt a) (TVar v))) <-> succ_rel a y)
  /\ (0 <= a -> (sols_of (succ_m (TInt a) (TInt b)) <> [] <-> succ_rel a b)).
Proof.
  intros v a b. repeat split.
  - rewrite succ_pred in H0. cbn in H0. destruct H0 as [E|[]]. injection E as E. lia.
  - rewrite succ_pred in H0. cbn in H0. destruct H0 as [E|[]]. injection E as E. lia.
  - intros [_ E]. rewrite succ_pred. cbn. left. f_equal. f_equal. lia.
  - exact H.
  - rewrite succ_next in H0. cbn in H0. destruct H0 as [E|[]]. injection E as E. lia.
  - intros [_ E]. rewrite succ_next. cbn. left. subst. reflexivity.
  - exact H.
  - rewrite succ_check in H0. destruct (b =? a + 1) eqn:E; [lia | cbn in H0; congruence].
  - intros [_ E]. rewrite succ_check. destruct (b =? a + 1) eqn:E2; [cbn; discriminate | lia].
Qed.

Lemma plus_modes : forall a b c v,
  plus_m (TInt a) (TInt b) (TVar v) = Sols [[TInt a; TInt b; TInt (a + b)]]
  /\ plus_m (TInt a) (TVar v) (TInt c) = Sols [[TInt a; TInt (c - a); TInt c]]
  /\ plus_m (TVar v) (TInt b) (TInt c) = Sols [[TInt (c - b); TInt b; TInt c]]
  /\ plus_m (TInt a) (TInt b) (TInt c) = if a + b =? c then Sols [[TInt a; TInt b; TInt c]] else Sols [].
Proof. intros; repeat split; reflexivity. Qed.

(* every reported solution satisfies A + B = C, and the missing argument is determined *)
Lemma plus_sound : forall a b c v x,
  (In [TInt a; TInt b; TInt x] (sols_of (plus_m (TInt a) (TInt b) (TVar v))) <-> x = a + b)
  /\ (In [TInt a; TInt x; TInt c] (sols_of (plus_m (TInt a) (TVar v) (TInt c))) <-> a + x = c)
  /\ (In [TInt x; TInt b; TInt c] (sols_of (plus_m (TVar v) (TInt b) (TInt c))) <-> x + b = c)
  /\ (sols_of (plus_m (TInt a) (TInt b) (TInt c)) <> [] <-> a + b = c).
Proof.
  intros a b c v x. destruct (plus_modes a b c v) as (M1 & M2 & M3 & M4).
  rewrite M1, M2, M3, M4. cbn [sols_of In]. repeat split.
  - intros [E|[]]. injection E as E. lia.
  - intros ->. left. reflexivity.
  - intros [E|[]]. injection E as E. lia.
  - intros E. left. f_equal. f_equal. f_equal. lia.
  - intros [E|[]]. injection E as E. lia.
  - intros E. left. f_equal. f_equal. lia.
  - destruct (a + b =? c) eqn:E; [lia | cbn; congruence].
  - intros E. destruct (a + b =? c) eqn:E2; [cbn; discriminate | lia].
Qed.

(* ---------------------------------------------------------------- lists *)
Lemma list_elements_mklist : forall xs, list_elements (mklist xs nil_t) = xs.
Proof. induction xs as [|x r IH]; [reflexivity|]. cbn. f_equal. exact IH. Qed.
Lemma list_tail_mklist : forall xs tl, list_tail (mklist xs tl) = list_tail tl.
Proof. induction xs as [|x r IH]; intros tl; [reflexivity|]. cbn. apply IH. Qed.
Lemma tail_of_mklist_is_nil : forall xs, is_list_empty (list_tail (mklist xs nil_t)) = true.
Proof. intros xs. rewrite list_tail_mklist. reflexivity. Qed.
Lemma is_fixed_list_mklist : forall xs, is_fixed_list (mklist xs nil_t) = true.
Proof.
  intros [|x r]; [reflexivity|].
  unfold is_fixed_list, is_fixed_list_nonempty. rewrite tail_of_mklist_is_nil. reflexivity.
Qed.
Lemma fresh_vars_length : forall n f, List.length (fresh_vars f n) = n.
Proof. induction n as [|n IH]; intros f; [reflexivity|]. cbn. f_equal. apply IH. Qed.

Lemma length_of_proper_list : forall fr xs v,
  length_m fr (mklist xs nil_t) (TVar v) = Sols [[mklist xs nil_t; TInt (Z.of_nat (List.length xs))]].
Proof.
  intros fr xs v. unfold length_m, check_mode, modes_length.
  cbn [check_mode_from mode_ok mode_test is_integer_pos is_var].
  rewrite is_fixed_list_mklist. cbn [andb]. rewrite list_elements_mklist. reflexivity.
Qed.
Lemma length_check_proper_list : forall fr xs n,
  length_m fr (mklist xs nil_t) (TInt n) =
  if Z.of_nat (List.length xs) =? n then Sols [[mklist xs nil_t; TInt (Z.of_nat (List.length xs))]] else Sols [].
Proof.
  intros fr xs n. unfold length_m, check_mode, modes_length.
  cbn [check_mode_from mode_ok mode_test is_integer_pos is_var].
  rewrite is_fixed_list_mklist. cbn [andb]. rewrite list_elements_mklist.
  unfold unify_out. cbn [is_var ground andb term_eqb].
  destruct (Z.of_nat (List.length xs) =? n); reflexivity.
Qed.
Lemma length_builds_list : forall fr v n, 0 <= n ->
  length_m fr (TVar v) (TInt n) = Sols [[mklist (fresh_vars fr (Z.to_nat n)) nil_t; TInt n]]
  /\ List.length (fresh_vars fr (Z.to_nat n)) = Z.to_nat n.
Proof.
  intros fr v n H. split; [|apply fresh_vars_length].
  unfold length_m, check_mode, modes_length.
  cbn -[Z.ltb Z.sub Z.to_nat fresh_vars mklist]. 
  replace (n - 0 <? 0) with false by lia. rewrite Z.sub_0_r. reflexivity.
Qed.

(* ---------------------------------------------------------------- functor/3, arg/3, =../2 *)
Lemma functor_decomposes : forall fr g args v1 v2,
  functor_m fr (TApp g args) (TVar v1) (TVar v2) = Sols [[TApp g args; atom g; TInt (Z.of_nat (List.length args))]].
Proof. intros; reflexivity. Qed.
Lemma functor_constructs : forall fr g v n, 0 <= n ->
  functor_m fr (TVar v) (atom g) (TInt n) = Sols [[TApp g (fresh_vars fr (Z.to_nat n)); atom g; TInt n]]
  /\ List.length (fresh_vars fr (Z.to_nat n)) = Z.to_nat n.
Proof. intros. split; [reflexivity|apply fresh_vars_length]. Qed.
Lemma functor_checks : forall fr g args h n,
  functor_m fr (TApp g args) (atom h) (TInt n) =
  if String.eqb g h && (Z.of_nat (List.length args) =? n) then Sols [[TApp g args; atom g; TInt (Z.of_nat (List.length args))]] else Sols [].
Proof.
  intros. unfold functor_m, check_mode, modes_functor. cbn [check_mode_from mode_ok mode_test is_var is_nonvar negb andb].
  unfold unify_out. cbn [is_var atom ground forallb andb term_eqb].
  destruct (String.eqb g h); cbn [andb]; destruct (Z.of_nat (List.length args) =? n); reflexivity.
Qed.

Lemma arg_selects : forall i g args v, 1 <= i ->
  arg_m (TInt i) (TApp g args) (TVar v) =
  Sols (match nth_error args (Z.to_nat (i - 1)) with Some x => [[TInt i; TApp g args; x]] | None => [] end).
Proof.
  intros i g args v H. unfold arg_m, check_mode, modes_arg.
  cbn -[Z.leb Z.ltb Z.sub Z.to_nat nth_error Z.of_nat].
  replace (0 <=? i - 1) with true by lia. cbn [andb].
  destruct (i - 1 <? Z.of_nat (List.length args)) eqn:E.
  - destruct (nth_error args (Z.to_nat (i - 1))) eqn:N; reflexivity.
  - assert (N : nth_error args (Z.to_nat (i - 1)) = None) by (apply nth_error_None; lia).
    rewrite N. reflexivity.
Qed.
Lemma arg_out_of_range : forall i g args v, i <= 0 -> arg_m (TInt i) (TApp g args) (TVar v) = Sols [].
Proof.
  intros i g args v H. unfold arg_m, check_mode, modes_arg.
  cbn -[Z.leb Z.ltb Z.sub Z.to_nat nth_error Z.of_nat].
  replace (0 <=? i - 1) with false by lia. reflexivity.
Qed.

Lemma univ_decomposes : forall g args v,
  univ_m (TApp g args) (TVar v) = Sols [[TApp g args; mklist (atom g :: args) nil_t]].
Proof. intros; reflexivity. Qed.
Lemma univ_constructs : forall g a args v,
  univ_m (TVar v) (mklist (atom g :: a :: args) nil_t) = Sols [[TApp g (a :: args); mklist (atom g :: a :: args) nil_t]].
Proof.
  intros. unfold univ_m, check_mode, modes_univ.
  cbn [check_mode_from mode_ok mode_test is_var].
  rewrite is_fixed_list_mklist. cbn [andb]. rewrite list_elements_mklist. reflexivity.
Qed.
Lemma univ_constructs_atom : forall g v,
  univ_m (TVar v) (mklist [atom g] nil_t) = Sols [[atom g; mklist [atom g] nil_t]].
Proof. intros; reflexivity. Qed.

(* ---------------------------------------------------------------- type tests *)
Fixpoint proper_list_tail (t : term) : proper_list t = is_list_empty (list_tail t).
Proof.
  destruct t as [n|z|q|s|f args]; try reflexivity.
  destruct args as [|h [|tl [|x r]]]; try reflexivity.
  cbn. destruct (String.eqb f "."); [apply proper_list_tail | reflexivity].
Qed.

Lemma type_tests_standard : forall k t, type_test_guard k t = true -> type_test k t = iso_type_test k t.
Proof.
  intros k t G. destruct k.
  - reflexivity.
  - reflexivity.
  - (* atom *) destruct t as [| | | |f [|a r]]; reflexivity.
  - (* atomic *)
    unfold type_test_guard in G. apply andb_true_iff in G. destruct G as [G1 G2].
    apply negb_true_iff in G1. apply orb_false_iff in G1. destruct G1 as [Gi Gf].
    apply negb_true_iff in G2.
    unfold type_test, iso_type_test, is_number, is_integer, is_float. rewrite Gi, Gf.
    destruct t as [| | | |f [|a r]]; try reflexivity; try discriminate.
  - (* number *)
    unfold type_test_guard in G. apply negb_true_iff in G. apply orb_false_iff in G. destruct G as [Gi Gf].
    unfold type_test, iso_type_test, is_number, is_integer, is_float. rewrite Gi, Gf.
    destruct t; reflexivity.
  - (* integer *)
    unfold type_test_guard in G. apply negb_true_iff in G. apply orb_false_iff in G. destruct G as [Gi Gf].
    unfold type_test, iso_type_test, is_integer. rewrite Gi. destruct t; reflexivity.
  - (* float *)
    unfold type_test_guard in G. apply negb_true_iff in G. apply orb_false_iff in G. destruct G as [Gi Gf].
    unfold type_test, iso_type_test, is_float. rewrite Gf. destruct t; reflexivity.
  - (* compound *) destruct t as [| | | |f [|a r]]; reflexivity.
  - (* callable *) destruct t; reflexivity.
  - (* is_list *)
    unfold type_test_guard in G. apply negb_true_iff in G.
    unfold type_test, iso_type_test. rewrite proper_list_tail.
    unfold is_list, is_list_nonempty.
    destruct (is_list_maybe t) eqn:M.
    + rewrite andb_true_r in G. rewrite G. rewrite orb_false_r. cbn [andb].
      destruct t as [| | | |f [|h [|tl [|x r]]]]; try discriminate.
      assert (E : is_list_empty (TApp f [h; tl]) = false) by reflexivity.
      rewrite E. reflexivity.
    + cbn [andb]. rewrite orb_false_r.
      destruct t as [| | | |f args]; try reflexivity.
      destruct args as [|h [|tl [|x r]]]; try reflexivity.
      cbn in M. cbn. rewrite M. reflexivity.
  - reflexivity.
Qed.
