(* C16 -- lemmas: each integer operator of the generated table agrees with the ISO reference. *)
From Coq Require Import ZArith QArith Qround String List Bool Lia ZifyBool.
From PL.C16 Require Import PyNum GenArithTable ModelEval IsoArith.
Import ListNotations.
Open Scope Z_scope.

(* the engine-level view: `X is f(a, b)` with integer constants a, b *)
Definition app2 (f : string) (a b : Z) : ires := as_ires (is_m (EApp2 f (ENum (VInt a)) (ENum (VInt b)))).
Definition app1 (f : string) (a : Z) : ires := as_ires (is_m (EApp1 f (ENum (VInt a)))).

Ltac table := unfold app2, app1, is_m; cbn -[Z.div Z.modulo Z.eqb Z.ltb Z.leb Z.gtb Z.geb Z.pow Z.mul Z.sub Z.add Z.opp Z.land Z.lor Z.lxor Z.quot].

Lemma add_ok : forall a b, app2 "+" a b = iso_add a b.
Proof. intros; reflexivity. Qed.
Lemma sub_ok : forall a b, app2 "-" a b = iso_sub a b.
Proof. intros; reflexivity. Qed.
Lemma mul_ok : forall a b, app2 "*" a b = iso_mul a b.
Proof. intros; reflexivity. Qed.
Lemma and_ok : forall a b, app2 "/\" a b = iso_and a b.
Proof. intros; reflexivity. Qed.
Lemma or_ok : forall a b, app2 "\/" a b = iso_or a b.
Proof. intros; reflexivity. Qed.
Lemma xor_ok : forall a b, app2 "xor" a b = iso_xor a b.
Proof. intros; reflexivity. Qed.
Lemma hash_ok : forall a b, app2 "#" a b = iso_xor a b.
Proof. intros; reflexivity. Qed.
Lemma gtlt_ok : forall a b, app2 "><" a b = iso_xor a b.
Proof. intros; reflexivity. Qed.
Lemma neg_ok : forall a, app1 "-" a = iso_neg a.
Proof. intros; reflexivity. Qed.
Lemma pos_ok : forall a, app1 "+" a = iso_pos a.
Proof. intros; reflexivity. Qed.

Lemma mod_ok : forall a b, app2 "mod" a b = iso_mod a b.
Proof.
  intros. table. unfold iso_mod. destruct (b =? 0) eqn:E; [reflexivity|].
  cbn. f_equal. rewrite Z.mod_eq by lia. lia.
Qed.

(* the documented deviation: rem is mod *)
Lemma rem_is_mod : forall a b, app2 "rem" a b = iso_mod a b.
Proof.
  intros. table. unfold iso_mod. destruct (b =? 0) eqn:E; [reflexivity|].
  cbn. f_equal. rewrite Z.mod_eq by lia. lia.
Qed.

Lemma div_ok : forall a b, app2 "div" a b = iso_div a b.
Proof.
  intros. table. unfold iso_div, fn_div_2, l2, py_floordiv, py_sub, py_mod, num2, int.
  destruct (b =? 0) eqn:E; [reflexivity|].
  cbn. f_equal.
  rewrite Z.mod_eq by lia.
  replace (a - (a - b * (a / b))) with (a / b * b) by lia.
  apply Z.div_mul. lia.
Qed.

(* X // Y: the table floors, ISO truncates.  They agree exactly on this guard. *)
Definition intdiv_guard (a b : Z) : bool :=
  (b =? 0) || (a mod b =? 0) || ((0 <=? a) && (0 <? b)) || ((a <=? 0) && (b <? 0)).

Lemma quot_div_guard : forall a b, b <> 0 -> (Z.quot a b = a / b <-> intdiv_guard a b = true).
Proof.
  intros a b Hb. unfold intdiv_guard.
  pose proof (Z.quot_rem a b Hb) as Hq.
  pose proof (Z.div_mod a b Hb) as Hd.
  assert (Hm : b > 0 -> 0 <= a mod b < b) by (intro; apply Z.mod_pos_bound; lia).
  assert (Hn : b < 0 -> b < a mod b <= 0) by (intro; apply Z.mod_neg_bound; lia).
  assert (Hr : Z.abs (Z.rem a b) < Z.abs b) by (apply Z.rem_bound_abs; exact Hb).
  assert (Hs : 0 <= a -> 0 <= Z.rem a b) by (intro; apply Z.rem_nonneg; lia).
  assert (Ht : a <= 0 -> Z.rem a b <= 0) by (intro; apply Z.rem_nonpos; lia).
  split.
  - intro E. rewrite E in Hq.
    assert (Z.rem a b = a mod b) by lia.
    destruct (a mod b =? 0) eqn:M; [rewrite orb_true_r; reflexivity|].
    destruct (Z_lt_le_dec 0 b), (Z_lt_le_dec 0 a); lia.
  - intro G.
    assert (C : a mod b = 0 \/ (0 <= a /\ 0 < b) \/ (a <= 0 /\ b < 0)) by lia.
    destruct C as [C | [C | C]].
    + apply Z.mod_divide in C; [|exact Hb]. destruct C as [k ->].
      rewrite Z.quot_mul, Z.div_mul by exact Hb. reflexivity.
    + apply Z.quot_div_nonneg; lia.
    + rewrite <- (Z.opp_involutive a), <- (Z.opp_involutive b) at 1.
      rewrite Z.quot_opp_opp by lia.
      rewrite Z.quot_div_nonneg by lia.
      rewrite Z.div_opp_opp by lia. reflexivity.
Qed.

Lemma min_ok : forall a b, app2 "min" a b = iso_min a b.
Proof. intros. table. unfold iso_min. destruct (b <? a) eqn:E; cbn; f_equal; lia. Qed.
Lemma max_ok : forall a b, app2 "max" a b = iso_max a b.
Proof. intros. table. unfold iso_max. destruct (b >? a) eqn:E; cbn; f_equal; lia. Qed.

Lemma shl_ok : forall a b, 0 <= b -> app2 "<<" a b = iso_shl a b.
Proof.
  intros a b H. table. unfold iso_shl. destruct (b <? 0) eqn:E; [lia|].
  cbn. f_equal. symmetry. apply Z.shiftl_mul_pow2. exact H.
Qed.
Lemma shr_ok : forall a b, 0 <= b -> app2 ">>" a b = iso_shr a b.
Proof.
  intros a b H. table. unfold iso_shr. destruct (b <? 0) eqn:E; [lia|].
  cbn. f_equal. symmetry. apply Z.shiftr_div_pow2. exact H.
Qed.
Lemma shift_negative_count_is_problog_error :
  forall a b, b < 0 -> app2 "<<" a b = IEvalErr /\ app2 ">>" a b = IEvalErr.
Proof. intros a b H. split; table; destruct (b <? 0) eqn:E; try lia; reflexivity. Qed.

Lemma pow_ok : forall a b, 0 <= b -> app2 "^" a b = iso_pow a b.
Proof.
  intros a b H. table. unfold iso_pow. destruct (b <? 0) eqn:E; [lia|].
  destruct (0 <=? b) eqn:E2; [reflexivity|lia].
Qed.
Lemma starstar_is_caret : forall a b, app2 "**" a b = app2 "^" a b.
Proof. intros; reflexivity. Qed.

Lemma bitnot_ok : forall a, app1 "\" a = iso_bitnot a.
Proof. intros. table. unfold iso_bitnot, Z.lnot. cbn. f_equal; lia. Qed.
Lemma abs_ok : forall a, app1 "abs" a = iso_abs a.
Proof. intros. table. unfold iso_abs. destruct (a <? 0) eqn:E; cbn; f_equal; lia. Qed.
Lemma sign_ok : forall a, app1 "sign" a = iso_sign a.
Proof.
  intros. table. unfold iso_sign.
  destruct (a >? 0) eqn:E; cbn.
  - f_equal. symmetry. apply Z.sgn_pos. lia.
  - destruct (a <? 0) eqn:E2; cbn; f_equal; symmetry.
    + apply Z.sgn_neg. lia.
    + apply Z.sgn_null_iff. lia.
Qed.

(* unknown functions and non-ground right-hand sides are ProbLog errors *)
Lemma nonground_is_callmode : forall e, ground e = false -> is_m e = OCallMode.
Proof. intros e H. unfold is_m. rewrite H. reflexivity. Qed.

(* float -> integer conversions *)
Lemma floor_ok : forall q, is_m (EApp1 "floor" (ENum (VFlt q))) = OVal (VInt (iso_floor q)).
Proof. intros; reflexivity. Qed.
Lemma ceiling_ok : forall q, is_m (EApp1 "ceiling" (ENum (VFlt q))) = OVal (VInt (iso_ceiling q)).
Proof. intros; reflexivity. Qed.

Lemma q_trunc_quot : forall q, q_trunc q = iso_truncate q.
Proof.
  intros [n d]. unfold q_trunc, iso_truncate, Qle_bool, Qfloor, Qceiling. cbn [Qnum Qden Qopp].
  destruct (0 * Z.pos d <=? n * 1) eqn:E.
  - symmetry. apply Z.quot_div_nonneg; lia.
  - assert (n < 0) by lia.
    rewrite <- (Z.opp_involutive n) at 2.
    rewrite Z.quot_opp_l by lia.
    rewrite Z.quot_div_nonneg by lia. reflexivity.
Qed.
Lemma truncate_ok : forall q, is_m (EApp1 "truncate" (ENum (VFlt q))) = OVal (VInt (iso_truncate q)).
Proof. intros. rewrite <- q_trunc_quot. reflexivity. Qed.

(* X // Y under the guard.  The script does not depend on how the table computes the
   quotient (it goes through for the floor version and for a truncating repair alike):
   full unfolding, case split on every test, then nonlinear arithmetic over the Euclidean
   division equations of div / mod / quot / rem. *)
Ltac Zify.zify_post_hook ::= Z.to_euclidean_division_equations.
Ltac split_ifs :=
  repeat match goal with
  | |- context [if ?c then _ else _] => let E := fresh "E" in destruct c eqn:E
  end.
Lemma intdiv_ok_guarded : forall a b, intdiv_guard a b = true -> app2 "//" a b = iso_intdiv a b.
Proof.
  intros a b G. unfold intdiv_guard in G.
  cbv -[Z.div Z.modulo Z.eqb Z.ltb Z.leb Z.gtb Z.geb Z.quot Z.opp Z.add Z.sub Z.mul].
  split_ifs; try reflexivity; try (exfalso; lia); f_equal; nia.
Qed.

(* the unguarded statement: holds since the operator truncates (fix 0b983d1); same script *)
Lemma intdiv_ok : forall a b, app2 "//" a b = iso_intdiv a b.
Proof.
  intros a b.
  cbv -[Z.div Z.modulo Z.eqb Z.ltb Z.leb Z.gtb Z.geb Z.quot Z.opp Z.add Z.sub Z.mul].
  split_ifs; try reflexivity; try (exfalso; lia); f_equal; nia.
Qed.

(* an ill-typed (float) operand of an integer-only operator is a problog ArithmeticError
   (compute_function maps TypeError since fix 168ee04) *)
Lemma int_only_operator_on_float_is_problog_error : forall q b,
  is_m (EApp2 "/\" (ENum (VFlt q)) (ENum (VInt b))) = OArithErr
  /\ is_m (EApp2 "<<" (ENum (VInt b)) (ENum (VFlt q))) = OArithErr
  /\ is_m (EApp1 "\" (ENum (VFlt q))) = OArithErr.
Proof. intros. repeat split; reflexivity. Qed.

(* division by zero is reported as problog ArithmeticError by every division-like operator *)
Lemma zero_divisor_is_problog_error :
  forall a, is_m (EApp2 "//" (ENum (VInt a)) (ENum (VInt 0))) = OArithErr
         /\ is_m (EApp2 "/" (ENum (VInt a)) (ENum (VInt 0))) = OArithErr
         /\ is_m (EApp2 "mod" (ENum (VInt a)) (ENum (VInt 0))) = OArithErr
         /\ is_m (EApp2 "rem" (ENum (VInt a)) (ENum (VInt 0))) = OArithErr
         /\ is_m (EApp2 "div" (ENum (VInt a)) (ENum (VInt 0))) = OArithErr.
Proof.
  intros. repeat split;
    cbv -[Z.div Z.modulo Z.eqb Z.ltb Z.leb Z.gtb Z.geb Z.quot Z.opp Z.add Z.sub Z.mul];
    split_ifs; try reflexivity; exfalso; lia.
Qed.

