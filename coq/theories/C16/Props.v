(* C16 -- arithmetic and term-inspection builtins match Yap/SWI (ISO) semantics.
   Only statements, closed by `exact`.  `app2 f a b` / `app1 f a` is the outcome of
   `X is f(a,b)` / `X is f(a)` in the model generated from problog/logic.py
   (`_arithmetic_functions`, compute_function) for integer constants a, b, viewed as
   IVal z (an integer result), IEvalErr (problog ArithmeticError) or IOther.
   The right-hand sides are the ISO/SWI/YAP reference of IsoArith.v. *)
From Coq Require Import ZArith QArith String List Bool.
From Coq Require Import Sorted.
From PL.C16 Require Import PyNum GenArithTable ModelEval IsoArith ProofsArith GenModes ModelBuiltins ProofsBuiltins.
Import ListNotations.
Open Scope Z_scope.

Theorem C16_add : forall a b, app2 "+" a b = iso_add a b.
Proof. exact add_ok. Qed.
Print Assumptions C16_add.
Theorem C16_sub : forall a b, app2 "-" a b = iso_sub a b.
Proof. exact sub_ok. Qed.
Print Assumptions C16_sub.
Theorem C16_mul : forall a b, app2 "*" a b = iso_mul a b.
Proof. exact mul_ok. Qed.
Print Assumptions C16_mul.

(* mod: sign of the divisor; zero divisor is an evaluation error in both *)
Theorem C16_mod : forall a b, app2 "mod" a b = iso_mod a b.
Proof. exact mod_ok. Qed.
Print Assumptions C16_mod.
(* the deviation stated in docs/source/prolog.rst ("X rem Y (currently same as mod)") *)
Theorem C16_rem_documented : forall a b, app2 "rem" a b = iso_mod a b.
Proof. exact rem_is_mod. Qed.
Print Assumptions C16_rem_documented.
(* div: floor((a - a mod b) / b) = floor(a / b) *)
Theorem C16_div : forall a b, app2 "div" a b = iso_div a b.
Proof. exact div_ok. Qed.
Print Assumptions C16_div.

(* X // Y truncates toward zero, for all integers (zero divisor: evaluation error on both
   sides).  Before fix 0b983d1 the table floored (-7 // 2 = -4) and only the guarded statement
   below held; it is kept because its guard names the former defect class. *)
Theorem C16_intdiv : forall a b, app2 "//" a b = iso_intdiv a b.
Proof. exact intdiv_ok. Qed.
Print Assumptions C16_intdiv.
Theorem C16_intdiv_guarded : forall a b, intdiv_guard a b = true -> app2 "//" a b = iso_intdiv a b.
Proof. exact intdiv_ok_guarded. Qed.
Print Assumptions C16_intdiv_guarded.
Theorem C16_min : forall a b, app2 "min" a b = iso_min a b.
Proof. exact min_ok. Qed.
Print Assumptions C16_min.
Theorem C16_max : forall a b, app2 "max" a b = iso_max a b.
Proof. exact max_ok. Qed.
Print Assumptions C16_max.
Theorem C16_and : forall a b, app2 "/\" a b = iso_and a b.
Proof. exact and_ok. Qed.
Print Assumptions C16_and.
Theorem C16_or : forall a b, app2 "\/" a b = iso_or a b.
Proof. exact or_ok. Qed.
Print Assumptions C16_or.
Theorem C16_xor : forall a b, app2 "xor" a b = iso_xor a b /\ app2 "#" a b = iso_xor a b /\ app2 "><" a b = iso_xor a b.
Proof. intros a b. exact (conj (xor_ok a b) (conj (hash_ok a b) (gtlt_ok a b))). Qed.
Print Assumptions C16_xor.
(* shifts: a * 2^b and floor(a / 2^b) are the (arithmetic) shifts; a negative count is a
   ProbLog error (ISO leaves it undefined, SWI shifts the other way: recorded, no obligation) *)
Theorem C16_shl : forall a b, 0 <= b -> app2 "<<" a b = iso_shl a b.
Proof. exact shl_ok. Qed.
Print Assumptions C16_shl.
Theorem C16_shr : forall a b, 0 <= b -> app2 ">>" a b = iso_shr a b.
Proof. exact shr_ok. Qed.
Print Assumptions C16_shr.
Theorem C16_shift_negative_count : forall a b, b < 0 -> app2 "<<" a b = IEvalErr /\ app2 ">>" a b = IEvalErr.
Proof. exact shift_negative_count_is_problog_error. Qed.
Print Assumptions C16_shift_negative_count.
(* integer power with a non-negative exponent is exact; `**` is the same table function *)
Theorem C16_pow : forall a b, 0 <= b -> app2 "^" a b = iso_pow a b.
Proof. exact pow_ok. Qed.
Print Assumptions C16_pow.
Theorem C16_starstar_is_caret : forall a b, app2 "**" a b = app2 "^" a b.
Proof. exact starstar_is_caret. Qed.
Print Assumptions C16_starstar_is_caret.

Theorem C16_neg : forall a, app1 "-" a = iso_neg a.
Proof. exact neg_ok. Qed.
Print Assumptions C16_neg.
Theorem C16_pos : forall a, app1 "+" a = iso_pos a.
Proof. exact pos_ok. Qed.
Print Assumptions C16_pos.
Theorem C16_bitnot : forall a, app1 "\" a = iso_bitnot a.
Proof. exact bitnot_ok. Qed.
Print Assumptions C16_bitnot.
Theorem C16_abs : forall a, app1 "abs" a = iso_abs a.
Proof. exact abs_ok. Qed.
Print Assumptions C16_abs.
Theorem C16_sign : forall a, app1 "sign" a = iso_sign a.
Proof. exact sign_ok. Qed.
Print Assumptions C16_sign.

(* errors: a zero divisor is a problog ArithmeticError for every division-like operator;
   a non-ground right-hand side is a problog CallModeError *)
Theorem C16_zero_divisor :
  forall a, is_m (EApp2 "//" (ENum (VInt a)) (ENum (VInt 0))) = OArithErr
         /\ is_m (EApp2 "/" (ENum (VInt a)) (ENum (VInt 0))) = OArithErr
         /\ is_m (EApp2 "mod" (ENum (VInt a)) (ENum (VInt 0))) = OArithErr
         /\ is_m (EApp2 "rem" (ENum (VInt a)) (ENum (VInt 0))) = OArithErr
         /\ is_m (EApp2 "div" (ENum (VInt a)) (ENum (VInt 0))) = OArithErr.
Proof. exact zero_divisor_is_problog_error. Qed.
Print Assumptions C16_zero_divisor.
Theorem C16_ill_typed_operand : forall q b,
  is_m (EApp2 "/\" (ENum (VFlt q)) (ENum (VInt b))) = OArithErr
  /\ is_m (EApp2 "<<" (ENum (VInt b)) (ENum (VFlt q))) = OArithErr
  /\ is_m (EApp1 "\" (ENum (VFlt q))) = OArithErr.
Proof. exact int_only_operator_on_float_is_problog_error. Qed.
Print Assumptions C16_ill_typed_operand.
Theorem C16_unbound_is_problog_error : forall e, ModelEval.ground e = false -> is_m e = OCallMode.
Proof. exact nonground_is_callmode. Qed.
Print Assumptions C16_unbound_is_problog_error.

(* float -> integer functions on the exact value q of the float *)
Theorem C16_floor : forall q, is_m (EApp1 "floor" (ENum (VFlt q))) = OVal (VInt (iso_floor q)).
Proof. exact floor_ok. Qed.
Print Assumptions C16_floor.
Theorem C16_ceiling : forall q, is_m (EApp1 "ceiling" (ENum (VFlt q))) = OVal (VInt (iso_ceiling q)).
Proof. exact ceiling_ok. Qed.
Print Assumptions C16_ceiling.
Theorem C16_truncate : forall q, is_m (EApp1 "truncate" (ENum (VFlt q))) = OVal (VInt (iso_truncate q)).
Proof. exact truncate_ok. Qed.
Print Assumptions C16_truncate.

(* ================================================================ term builtins
   (hand models of engine_builtin.py, mode tables generated from the source) *)

(* between(+L, +H, -X) enumerates exactly the integers L..H, ascending, once each *)
Theorem C16_between_enumerates : forall l h v,
  between_m (TInt l) (TInt h) (TVar v) = Sols (map (fun x => [TInt l; TInt h; TInt x]) (zrange l h)).
Proof. exact between_enumerates. Qed.
Print Assumptions C16_between_enumerates.
Theorem C16_between_range : forall l h x, In x (zrange l h) <-> l <= x <= h.
Proof. exact zrange_in. Qed.
Print Assumptions C16_between_range.
Theorem C16_between_ascending : forall l h, StronglySorted Z.lt (zrange l h).
Proof. exact zrange_sorted. Qed.
Print Assumptions C16_between_ascending.
Theorem C16_between_checks : forall l h x,
  between_m (TInt l) (TInt h) (TInt x) = if (l <=? x) && (x <=? h) then Sols [[TInt l; TInt h; TInt x]] else Sols [].
Proof. exact between_checks. Qed.
Print Assumptions C16_between_checks.
Theorem C16_between_mode_error : forall l h x,
  is_integer l = false \/ is_integer h = false \/ (is_integer x = false /\ is_var x = false) -> between_m l h x = ModeErr.
Proof. exact between_mode_error. Qed.
Print Assumptions C16_between_mode_error.

(* succ/2 on naturals (the guard excludes the defect class: a zero / negative argument,
   Findings.v C16_succ_zero_refuted): each mode gives exactly the Prolog solutions *)
Theorem C16_succ : forall v a b,
  (0 < b -> forall x, In [TInt x; TInt b] (sols_of (succ_m (TVar v) (TInt b))) <-> succ_rel x b)
  /\ (0 <= a -> forall y, In [TInt a; TInt y] (sols_of (succ_m (TInt a) (TVar v))) <-> succ_rel a y)
  /\ (0 <= a -> (sols_of (succ_m (TInt a) (TInt b)) <> [] <-> succ_rel a b)).
Proof. exact succ_exact_on_naturals. Qed.
Print Assumptions C16_succ.

(* plus/3: every mode returns one solution, the one with A + B = C *)
Theorem C16_plus_modes : forall a b c v,
  plus_m (TInt a) (TInt b) (TVar v) = Sols [[TInt a; TInt b; TInt (a + b)]]
  /\ plus_m (TInt a) (TVar v) (TInt c) = Sols [[TInt a; TInt (c - a); TInt c]]
  /\ plus_m (TVar v) (TInt b) (TInt c) = Sols [[TInt (c - b); TInt b; TInt c]]
  /\ plus_m (TInt a) (TInt b) (TInt c) = if a + b =? c then Sols [[TInt a; TInt b; TInt c]] else Sols [].
Proof. exact plus_modes. Qed.
Print Assumptions C16_plus_modes.
Theorem C16_plus : forall a b c v x,
  (In [TInt a; TInt b; TInt x] (sols_of (plus_m (TInt a) (TInt b) (TVar v))) <-> x = a + b)
  /\ (In [TInt a; TInt x; TInt c] (sols_of (plus_m (TInt a) (TVar v) (TInt c))) <-> a + x = c)
  /\ (In [TInt x; TInt b; TInt c] (sols_of (plus_m (TVar v) (TInt b) (TInt c))) <-> x + b = c)
  /\ (sols_of (plus_m (TInt a) (TInt b) (TInt c)) <> [] <-> a + b = c).
Proof. exact plus_sound. Qed.
Print Assumptions C16_plus.

(* length/2 *)
Theorem C16_length_of_list : forall fr xs v,
  length_m fr (mklist xs nil_t) (TVar v) = Sols [[mklist xs nil_t; TInt (Z.of_nat (List.length xs))]].
Proof. exact length_of_proper_list. Qed.
Print Assumptions C16_length_of_list.
Theorem C16_length_check : forall fr xs n,
  length_m fr (mklist xs nil_t) (TInt n) =
  if Z.of_nat (List.length xs) =? n then Sols [[mklist xs nil_t; TInt (Z.of_nat (List.length xs))]] else Sols [].
Proof. exact length_check_proper_list. Qed.
Print Assumptions C16_length_check.
Theorem C16_length_builds : forall fr v n, 0 <= n ->
  length_m fr (TVar v) (TInt n) = Sols [[mklist (fresh_vars fr (Z.to_nat n)) nil_t; TInt n]]
  /\ List.length (fresh_vars fr (Z.to_nat n)) = Z.to_nat n.
Proof. exact length_builds_list. Qed.
Print Assumptions C16_length_builds.

(* functor/3, arg/3, =../2 *)
Theorem C16_functor_decomposes : forall fr g args v1 v2,
  functor_m fr (TApp g args) (TVar v1) (TVar v2) = Sols [[TApp g args; atom g; TInt (Z.of_nat (List.length args))]].
Proof. exact functor_decomposes. Qed.
Print Assumptions C16_functor_decomposes.
Theorem C16_functor_constructs : forall fr g v n, 0 <= n ->
  functor_m fr (TVar v) (atom g) (TInt n) = Sols [[TApp g (fresh_vars fr (Z.to_nat n)); atom g; TInt n]]
  /\ List.length (fresh_vars fr (Z.to_nat n)) = Z.to_nat n.
Proof. exact functor_constructs. Qed.
Print Assumptions C16_functor_constructs.
Theorem C16_functor_checks : forall fr g args h n,
  functor_m fr (TApp g args) (atom h) (TInt n) =
  if String.eqb g h && (Z.of_nat (List.length args) =? n) then Sols [[TApp g args; atom g; TInt (Z.of_nat (List.length args))]] else Sols [].
Proof. exact functor_checks. Qed.
Print Assumptions C16_functor_checks.
Theorem C16_arg_selects : forall i g args v, 1 <= i ->
  arg_m (TInt i) (TApp g args) (TVar v) =
  Sols (match nth_error args (Z.to_nat (i - 1)) with Some x => [[TInt i; TApp g args; x]] | None => [] end).
Proof. exact arg_selects. Qed.
Print Assumptions C16_arg_selects.
Theorem C16_arg_out_of_range : forall i g args v, i <= 0 -> arg_m (TInt i) (TApp g args) (TVar v) = Sols [].
Proof. exact arg_out_of_range. Qed.
Print Assumptions C16_arg_out_of_range.
Theorem C16_univ_decomposes : forall g args v,
  univ_m (TApp g args) (TVar v) = Sols [[TApp g args; mklist (atom g :: args) nil_t]].
Proof. exact univ_decomposes. Qed.
Print Assumptions C16_univ_decomposes.
Theorem C16_univ_constructs : forall g a args v,
  univ_m (TVar v) (mklist (atom g :: a :: args) nil_t) = Sols [[TApp g (a :: args); mklist (atom g :: a :: args) nil_t]].
Proof. exact univ_constructs. Qed.
Print Assumptions C16_univ_constructs.

(* type tests: the standard classification, outside three input classes (Findings.v):
   a run-time '-'(Number) compound, a partial list for is_list/1, a string for atomic/1 *)
Theorem C16_type_tests : forall k t, type_test_guard k t = true -> type_test k t = iso_type_test k t.
Proof. exact type_tests_standard. Qed.
Print Assumptions C16_type_tests.

(* non-vacuity *)
Example C16_ex_guard_true : intdiv_guard (-8) 2 = true /\ intdiv_guard 7 2 = true /\ intdiv_guard (-7) (-2) = true.
Proof. vm_compute. auto. Qed.
Example C16_ex_guard_false : intdiv_guard (-7) 2 = false /\ intdiv_guard 7 (-2) = false.
Proof. vm_compute. auto. Qed.
Example C16_ex_values :
  app2 "//" (-7) 2 = IVal (-3) /\ app2 "//" 7 (-2) = IVal (-3) /\ app2 "mod" (-7) 2 = IVal 1 /\ app2 "mod" 7 (-2) = IVal (-1) /\ app2 "div" (-7) 2 = IVal (-4)
  /\ app2 ">>" (-8) 1 = IVal (-4) /\ app1 "\" 5 = IVal (-6) /\ app2 "^" (-2) 3 = IVal (-8)
  /\ is_m (EApp2 "+" (ENum (VInt 1)) (EApp2 "*" (ENum (VInt 2)) (ENum (VInt 3)))) = OVal (VInt 7)
  /\ is_m (EApp2 "+" (ENum (VInt 1)) EVar) = OCallMode
  /\ is_m (EApp1 "cot" (ENum (VInt 1))) = OArithErr.
Proof. vm_compute. repeat split; reflexivity. Qed.
Example C16_ex_builtins :
  between_m (TInt (-1)) (TInt 2) (TVar 0) = Sols [[TInt (-1); TInt 2; TInt (-1)]; [TInt (-1); TInt 2; TInt 0]; [TInt (-1); TInt 2; TInt 1]; [TInt (-1); TInt 2; TInt 2]]
  /\ between_m (TInt 3) (TInt 1) (TVar 0) = Sols []
  /\ length_m 7 (mklist [atom "a"] (TVar 1)) (TInt 3) = Sols [[mklist [atom "a"; TVar 7; TVar 8] nil_t; TInt 3]]
  /\ arg_m (TInt 2) (TApp "foo" [atom "a"; atom "b"]) (TVar 0) = Sols [[TInt 2; TApp "foo" [atom "a"; atom "b"]; atom "b"]]
  /\ univ_m (TVar 0) (mklist [atom "foo"; TInt 1] nil_t) = Sols [[TApp "foo" [TInt 1]; mklist [atom "foo"; TInt 1] nil_t]]
  /\ type_test_guard T_is_list (mklist [atom "a"] nil_t) = true
  /\ type_test_guard T_integer (TInt (-3)) = true
  /\ succ_m (TVar 0) (TVar 1) = ModeErr.
Proof. vm_compute. repeat split; reflexivity. Qed.
