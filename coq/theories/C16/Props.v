(* C16 -- arithmetic and term-inspection builtins match Yap/SWI (ISO) semantics.
   Only statements, closed by `exact`.  `app2 f a b` / `app1 f a` is the outcome of
   `X is f(a,b)` / `X is f(a)` in the model generated from problog/logic.py
   (`_arithmetic_functions`, compute_function) for integer constants a, b, viewed as
   IVal z (an integer result), IEvalErr (problog ArithmeticError) or IOther.
   The right-hand sides are the ISO/SWI/YAP reference of IsoArith.v. *)
From Coq Require Import ZArith QArith String List Bool.
From PL.C16 Require Import PyNum GenArithTable ModelEval IsoArith ProofsArith.
Import ListNotations.
Open Scope Z_scope.

Theorem C16_add : forall a b, app2 "+" a b = iso_add a b.
Proof. exact add_ok. Qed.
Print Assumptions C16_add.
Theorem C16_sub : forall a b, app2 "-" a b = iso_sub a b.
Proof. exact sub_ok. Qed.
Print Assumptions C16_sub.
Theorem C16_mul : forall a b, app2 "*" a b = iso_mul a b.
Proof. exact mul_ok. Qed.
Print Assumptions C16_mul.

(* mod: sign of the divisor; zero divisor is an evaluation error in both *)
Theorem C16_mod : forall a b, app2 "mod" a b = iso_mod a b.
Proof. exact mod_ok. Qed.
Print Assumptions C16_mod.
(* the deviation stated in docs/source/prolog.rst ("X rem Y (currently same as mod)") *)
Theorem C16_rem_documented : forall a b, app2 "rem" a b = iso_mod a b.
Proof. exact rem_is_mod. Qed.
Print Assumptions C16_rem_documented.
(* div: floor((a - a mod b) / b) = floor(a / b) *)
Theorem C16_div : forall a b, app2 "div" a b = iso_div a b.
Proof. exact div_ok. Qed.
Print Assumptions C16_div.

(* X // Y.  The table floors where ISO truncates (Findings.v: C16_intdiv_refuted).  The
   guard below -- zero divisor, exact division, or operands of the same sign -- excludes
   exactly the defect class: Findings.v C16_intdiv_guard_exact shows the operator is wrong
   everywhere outside it, and by exactly one.  Full statement (holds once the operator
   truncates, e.g. with fixes/C16-intdiv.patch; same proof script):
     forall a b, app2 "//" a b = iso_intdiv a b. *)
Theorem C16_intdiv_guarded : forall a b, intdiv_guard a b = true -> app2 "//" a b = iso_intdiv a b.
Proof. exact intdiv_ok_guarded. Qed.
Print Assumptions C16_intdiv_guarded.
Theorem C16_min : forall a b, app2 "min" a b = iso_min a b.
Proof. exact min_ok. Qed.
Print Assumptions C16_min.
Theorem C16_max : forall a b, app2 "max" a b = iso_max a b.
Proof. exact max_ok. Qed.
Print Assumptions C16_max.
Theorem C16_and : forall a b, app2 "/\" a b = iso_and a b.
Proof. exact and_ok. Qed.
Print Assumptions C16_and.
Theorem C16_or : forall a b, app2 "\/" a b = iso_or a b.
Proof. exact or_ok. Qed.
Print Assumptions C16_or.
Theorem C16_xor : forall a b, app2 "xor" a b = iso_xor a b /\ app2 "#" a b = iso_xor a b /\ app2 "><" a b = iso_xor a b.
Proof. intros a b. exact (conj (xor_ok a b) (conj (hash_ok a b) (gtlt_ok a b))). Qed.
Print Assumptions C16_xor.
(* shifts: a * 2^b and floor(a / 2^b) are the (arithmetic) shifts; a negative count is a
   ProbLog error (ISO leaves it undefined, SWI shifts the other way: recorded, no obligation) *)
Theorem C16_shl : forall a b, 0 <= b -> app2 "<<" a b = iso_shl a b.
Proof. exact shl_ok. Qed.
Print Assumptions C16_shl.
Theorem C16_shr : forall a b, 0 <= b -> app2 ">>" a b = iso_shr a b.
Proof. exact shr_ok. Qed.
Print Assumptions C16_shr.
Theorem C16_shift_negative_count : forall a b, b < 0 -> app2 "<<" a b = IEvalErr /\ app2 ">>" a b = IEvalErr.
Proof. exact shift_negative_count_is_problog_error. Qed.
Print Assumptions C16_shift_negative_count.
(* integer power with a non-negative exponent is exact; `**` is the same table function *)
Theorem C16_pow : forall a b, 0 <= b -> app2 "^" a b = iso_pow a b.
Proof. exact pow_ok. Qed.
Print Assumptions C16_pow.
Theorem C16_starstar_is_caret : forall a b, app2 "**" a b = app2 "^" a b.
Proof. exact starstar_is_caret. Qed.
Print Assumptions C16_starstar_is_caret.

Theorem C16_neg : forall a, app1 "-" a = iso_neg a.
Proof. exact neg_ok. Qed.
Print Assumptions C16_neg.
Theorem C16_pos : forall a, app1 "+" a = iso_pos a.
Proof. exact pos_ok. Qed.
Print Assumptions C16_pos.
Theorem C16_bitnot : forall a, app1 "\" a = iso_bitnot a.
Proof. exact bitnot_ok. Qed.
Print Assumptions C16_bitnot.
Theorem C16_abs : forall a, app1 "abs" a = iso_abs a.
Proof. exact abs_ok. Qed.
Print Assumptions C16_abs.
Theorem C16_sign : forall a, app1 "sign" a = iso_sign a.
Proof. exact sign_ok. Qed.
Print Assumptions C16_sign.

(* errors: a zero divisor is a problog ArithmeticError for every division-like operator;
   a non-ground right-hand side is a problog CallModeError *)
Theorem C16_zero_divisor :
  forall a, is_m (EApp2 "//" (ENum (VInt a)) (ENum (VInt 0))) = OArithErr
         /\ is_m (EApp2 "/" (ENum (VInt a)) (ENum (VInt 0))) = OArithErr
         /\ is_m (EApp2 "mod" (ENum (VInt a)) (ENum (VInt 0))) = OArithErr
         /\ is_m (EApp2 "rem" (ENum (VInt a)) (ENum (VInt 0))) = OArithErr
         /\ is_m (EApp2 "div" (ENum (VInt a)) (ENum (VInt 0))) = OArithErr.
Proof. exact zero_divisor_is_problog_error. Qed.
Print Assumptions C16_zero_divisor.
Theorem C16_unbound_is_problog_error : forall e, ground e = false -> is_m e = OCallMode.
Proof. exact nonground_is_callmode. Qed.
Print Assumptions C16_unbound_is_problog_error.

(* float -> integer functions on the exact value q of the float *)
Theorem C16_floor : forall q, is_m (EApp1 "floor" (ENum (VFlt q))) = OVal (VInt (iso_floor q)).
Proof. exact floor_ok. Qed.
Print Assumptions C16_floor.
Theorem C16_ceiling : forall q, is_m (EApp1 "ceiling" (ENum (VFlt q))) = OVal (VInt (iso_ceiling q)).
Proof. exact ceiling_ok. Qed.
Print Assumptions C16_ceiling.
Theorem C16_truncate : forall q, is_m (EApp1 "truncate" (ENum (VFlt q))) = OVal (VInt (iso_truncate q)).
Proof. exact truncate_ok. Qed.
Print Assumptions C16_truncate.

(* non-vacuity *)
Example C16_ex_guard_true : intdiv_guard (-8) 2 = true /\ intdiv_guard 7 2 = true /\ intdiv_guard (-7) (-2) = true.
Proof. vm_compute. auto. Qed.
Example C16_ex_guard_false : intdiv_guard (-7) 2 = false /\ intdiv_guard 7 (-2) = false.
Proof. vm_compute. auto. Qed.
Example C16_ex_values :
  app2 "mod" (-7) 2 = IVal 1 /\ app2 "mod" 7 (-2) = IVal (-1) /\ app2 "div" (-7) 2 = IVal (-4)
  /\ app2 ">>" (-8) 1 = IVal (-4) /\ app1 "\" 5 = IVal (-6) /\ app2 "^" (-2) 3 = IVal (-8)
  /\ is_m (EApp2 "+" (ENum (VInt 1)) (EApp2 "*" (ENum (VInt 2)) (ENum (VInt 3)))) = OVal (VInt 7)
  /\ is_m (EApp2 "+" (ENum (VInt 1)) EVar) = OCallMode
  /\ is_m (EApp1 "cot" (ENum (VInt 1))) = OArithErr.
Proof. vm_compute. repeat split; reflexivity. Qed.
