(* Hand model of problog/clausedb.py class ClauseDB (node store, heads table,
   parent pointer + offset, node redirects, add_fact / add_clause / _compile
   incl. annotated disjunctions, extend, find, get_node, iteration).

   A database is a CHAIN of layers: the head of the list is the database the
   operations act on (`self`), the tail is `self.__parent` (and its parents).
   `size (tail)` is `self.__offset`.  Node indices are global (nat).

   Not modelled (inputs are prepared by the harness accordingly):
     - variable numbering (_AutoDict): statements arrive with variables already
       numbered in first-occurrence order and with their variable count;
     - locations, locvars, op_priority/op_spec, scopes, extern nodes;
     - the library alias forall/2 -> _builtin_forall/2 (`_create_alias`);
     - ClauseIndex argument indexing (a define node keeps the ordered child list).
   No proofs in this file: it must keep running when a proof breaks. *)
From Coq Require Import List Arith Bool NArith.
Import ListNotations.

(* terms are opaque to the store: flattened prefix token strings built by the
   harness:  var i = [0;i]   int n = [1;n]   f(t1..tk) = [2;f;k] ++ t1 ++ .. ++ tk *)
Definition term := list N.

Inductive fn := FU (f : N) | FBody (k : nat).   (* user functor | "body_<k>" *)
Definition sig := (fn * nat)%type.

Inductive node :=
| NEmpty                                                   (* ()  placeholder *)
| NFact (f : fn) (args : list term) (p : option N)
| NClause (f : fn) (args : list term) (p : option N) (child : nat) (vc : nat) (group : option nat)
| NDefine (f : fn) (ar : nat) (children : list nat)
| NCall (f : fn) (args : list term) (dn : nat)             (* call to a user / body predicate *)
| NBuiltin (f : N) (args : list term) (id : N)             (* call with defnode = -id *)
| NCallChoice (g i : nat) (h : term) (args : list term) (dn : nat)
| NConj (a b : nat)
| NDisj (a b : nat)
| NNeg (a : nat)
| NChoice (g i : nat) (h : term) (args : list term) (p : option N).

Record layer := mkL {
  l_nodes : list node;            (* self.__nodes *)
  l_heads : list (sig * nat);     (* self.__heads, newest binding first *)
  l_redir : list (nat * nat);     (* self.__node_redirect, newest first *)
  l_err : bool                    (* an IndexError("Can't update node in parent") or an
                                     in-place update of a parent's define node happened *)
}.
Definition chain := list layer.

Definition empty_layer : layer := mkL [] [] [] false.

(* ---------------------------------------------------------------- equality *)
Definition fn_eqb (a b : fn) : bool :=
  match a, b with
  | FU x, FU y => N.eqb x y
  | FBody x, FBody y => Nat.eqb x y
  | _, _ => false
  end.
Definition sig_eqb (a b : sig) : bool := fn_eqb (fst a) (fst b) && Nat.eqb (snd a) (snd b).

(* ---------------------------------------------------------------- reading *)
Fixpoint size (c : chain) : nat :=                         (* __len__ *)
  match c with [] => 0 | l :: p => size p + length (l_nodes l) end.

Fixpoint redir_get (r : list (nat * nat)) (i : nat) : nat :=
  match r with
  | [] => i
  | (k, v) :: r' => if Nat.eqb i k then v else redir_get r' i
  end.

(* _resolve_redirect: the redirects of the whole parent chain are applied, OLDEST database first
   (`if self.__parent is not None and index < self.__offset: index = self.__parent._resolve_redirect(index)`
    then `self.__node_redirect.get(index, index)`) *)
Fixpoint resolve (c : chain) (i : nat) : nat :=
  match c with
  | [] => i
  | l :: p => redir_get (l_redir l) (if i <? size p then resolve p i else i)
  end.

Fixpoint get_node (c : chain) (i : nat) : node :=          (* get_node *)
  match c with
  | [] => NEmpty
  | l :: p => let i' := resolve (l :: p) i in
              if i' <? size p then get_node p i' else nth (i' - size p) (l_nodes l) NEmpty
  end.

(* the node physically stored at global index i (no redirect applied) *)
Fixpoint raw (c : chain) (i : nat) : node :=
  match c with
  | [] => NEmpty
  | l :: p => if i <? size p then raw p i else nth (i - size p) (l_nodes l) NEmpty
  end.

Fixpoint assoc_sig (h : list (sig * nat)) (s : sig) : option nat :=
  match h with
  | [] => None
  | (s', n) :: h' => if sig_eqb s s' then Some n else assoc_sig h' s
  end.

Fixpoint get_head (c : chain) (s : sig) : option nat :=    (* _get_head = find *)
  match c with
  | [] => None
  | l :: p => match assoc_sig (l_heads l) s with Some n => Some n | None => get_head p s end
  end.

(* ---------------------------------------------------------------- primitive writes
   (p = parent chain, l = current layer) *)
Definition app_node (p : chain) (l : layer) (n : node) : layer * nat :=   (* _append_node *)
  (mkL (l_nodes l ++ [n]) (l_heads l) (l_redir l) (l_err l), size p + length (l_nodes l)).

Fixpoint list_set {A} (i : nat) (x : A) (xs : list A) : list A :=
  match xs, i with
  | [], _ => []
  | _ :: t, O => x :: t
  | y :: t, S i' => y :: list_set i' x t
  end.

Definition set_node (p : chain) (l : layer) (i : nat) (n : node) : layer :=   (* _set_node *)
  if i <? size p then mkL (l_nodes l) (l_heads l) (l_redir l) true
  else mkL (list_set (i - size p) n (l_nodes l)) (l_heads l) (l_redir l) (l_err l).

Definition set_head (l : layer) (s : sig) (i : nat) : layer :=
  mkL (l_nodes l) ((s, i) :: l_heads l) (l_redir l) (l_err l).

Definition add_redirect (l : layer) (k v : nat) : layer :=
  mkL (l_nodes l) (l_heads l) ((k, v) :: l_redir l) (l_err l).

Definition define_children (n : node) : list nat :=
  match n with NDefine _ _ ch => ch | _ => [] end.

(* _add_head(head, create) for a non-builtin head *)
Definition add_head (p : chain) (l : layer) (s : sig) (create : bool) : layer * nat :=
  match get_head (l :: p) s with
  | None =>
      let '(l1, i) := app_node p l (if create then NDefine (fst s) (snd s) [] else NEmpty) in
      (set_head l1 s i, i)
  | Some n =>
      if create && (n <? size p) then
        let ch := define_children (get_node (l :: p) n) in
        let '(l1, i) := app_node p l (NDefine (fst s) (snd s) ch) in
        (set_head (add_redirect l1 n i) s i, i)
      else (l, n)
  end.

(* _add_define_node(head, childnode): `define_node.children.append(childnode)` mutates the
   object found through get_node (i.e. at the position the whole chain of redirects resolves to;
   a position below the offset is an object of an ancestor: flagged by set_node) in place *)
Definition add_define (p : chain) (l : layer) (s : sig) (c : nat) : layer :=
  let '(l1, di) := add_head p l s true in
  match get_node (l1 :: p) di with
  | NDefine f a ch => set_node p l1 (resolve (l1 :: p) di) (NDefine f a (ch ++ [c]))
  | NEmpty => set_node p l1 di (NDefine (fst s) (snd s) [c])
  | _ => mkL (l_nodes l1) (l_heads l1) (l_redir l1) true
  end.

(* _add_clause_node *)
Definition add_clause_node (p : chain) (l : layer) (f : fn) (args : list term) (pr : option N)
           (body : nat) (vc : nat) (group : option nat) : layer :=
  let '(l1, c) := app_node p l (NClause f args pr body vc group) in
  add_define p l1 (f, length args) c.

(* ---------------------------------------------------------------- statements *)
Inductive body :=
| BCall (f : N) (args : list term)
| BBuiltin (f : N) (args : list term) (id : N)
| BAnd (a b : body)
| BOr (a b : body)
| BNot (a : body).

Inductive stmt :=
| SFact (f : N) (args : list term) (p : option N)                  (* ground fact *)
| SClause (f : N) (args : list term) (b : body) (vc : nat)         (* non-probabilistic clause *)
| SAD (heads : list (N * list term * N)) (b : body) (vc : nat)     (* annotated disjunction / probabilistic clause *)
| SDeclare (f : N) (ar : nat).                                     (* _add_head(.., create=False) alone *)

Fixpoint compile_body (p : chain) (l : layer) (b : body) : layer * nat :=   (* _compile on bodies *)
  match b with
  | BCall f args =>
      let '(l1, dn) := add_head p l (FU f, length args) false in
      app_node p l1 (NCall (FU f) args dn)
  | BBuiltin f args id => app_node p l (NBuiltin f args id)
  | BAnd a b =>
      let '(l1, i1) := compile_body p l a in
      let '(l2, i2) := compile_body p l1 b in
      app_node p l2 (NConj i1 i2)
  | BOr a b =>
      let '(l1, i1) := compile_body p l a in
      let '(l2, i2) := compile_body p l1 b in
      app_node p l2 (NDisj i1 i2)
  | BNot a =>
      let '(l1, i1) := compile_body p l a in
      app_node p l1 (NNeg i1)
  end.

Definition t_multi : term := [2%N; 0%N; 0%N].              (* the atom `multi` (interned as 0) *)
Definition t_int (n : nat) : term := [1%N; N.of_nat n].
Definition t_var (n : nat) : term := [0%N; N.of_nat n].
Definition t_app (f : N) (args : list term) : term := 2%N :: f :: N.of_nat (length args) :: concat args.
Definition var_args (vc : nat) : list term := map t_var (seq 0 vc).

(* which group id an AD gets: the code uses len(self.__nodes) (LOCAL count);
   GGlobal = len(self) is the repaired rule *)
Inductive gmode := GLocal | GGlobal.

Definition ad_head_step (p : chain) (k group vc : nat) (bh_args : list term) (cb : nat)
           (acc : layer * nat) (h : N * list term * N) : layer * nat :=
  let '(l, i) := acc in
  let '(f, a, pr) := h in
  let bargs := var_args vc in
  let '(l1, cn) := app_node p l (NChoice group i (t_app f a) bargs (Some pr)) in
  let '(l2, cc) := app_node p l1 (NCallChoice group i (t_app f a) bargs cn) in
  let '(l3, bc) := app_node p l2 (NCall (FBody k) bh_args cb) in
  let '(l4, cj) := app_node p l3 (NConj bc cc) in
  (add_clause_node p l4 (FU f) a (Some pr) cj vc (Some group), S i).

Definition add_ad (gm : gmode) (p : chain) (l : layer) (heads : list (N * list term * N))
           (b : body) (vc : nat) : layer :=
  let group := match gm with GLocal => length (l_nodes l) | GGlobal => size p + length (l_nodes l) end in
  let '(l1, bn) := compile_body p l b in
  let k := size p + length (l_nodes l1) in
  let hl := match heads with [(f, a, _)] => t_app f a | _ => t_multi end in
  let bh_args := t_int group :: hl :: var_args vc in
  let l2 := add_clause_node p l1 (FBody k) bh_args None bn vc None in
  let '(l3, cb) := add_head p l2 (FBody k, length bh_args) true in
  fst (fold_left (ad_head_step p k group vc bh_args cb) heads (l3, 0)).

Definition add_stmt (gm : gmode) (p : chain) (l : layer) (s : stmt) : layer :=
  match s with
  | SFact f args pr =>
      let '(l1, c) := app_node p l (NFact (FU f) args pr) in
      add_define p l1 (FU f, length args) c
  | SClause f args b vc =>
      let '(l1, bn) := compile_body p l b in
      add_clause_node p l1 (FU f) args None bn vc None
  | SAD heads b vc => add_ad gm p l heads b vc
  | SDeclare f ar => fst (add_head p l (FU f, ar) false)
  end.

(* ---------------------------------------------------------------- histories *)
Inductive op := OAdd (s : stmt) | OExtend.

Definition extend (c : chain) : chain := empty_layer :: c.      (* ClauseDB(parent=self) *)

Definition step (gm : gmode) (c : chain) (o : op) : chain :=
  match o, c with
  | OExtend, _ => extend c
  | OAdd s, l :: p => add_stmt gm p l s :: p
  | OAdd _, [] => []
  end.

Definition run (gm : gmode) (ops : list op) (c : chain) : chain := fold_left (step gm) ops c.
Definition adds (gm : gmode) (ss : list stmt) (c : chain) : chain := run gm (map OAdd ss) c.
Definition root0 : chain := [empty_layer].
Definition parent_of (c : chain) : chain := tl c.

(* ---------------------------------------------------------------- abstraction
   `abs fuel c s`: the definition list of predicate s seen through database c
   (find, get_node, define children in order), every clause rendered back to
   source level and independent of node numbering: bodies are rebuilt from the
   body nodes; a call to body_<k> is replaced by the body of the (unique)
   clause of body_<k> (group constant dropped); group ids are dropped. *)
Inductive rbody :=
| RCall (f : N) (args : list term)
| RBuiltin (f : N) (args : list term) (id : N)
| RAnd (a b : rbody)
| ROr (a b : rbody)
| RNot (a : rbody)
| RBodyCall (args : list term) (b : rbody)       (* args without the group constant *)
| RChoiceCall (i : nat) (h : term) (args : list term) (p : option N)
| RBad.

Inductive rclause :=
| RFact (args : list term) (p : option N)
| RClause (args : list term) (p : option N) (b : rbody) (vc : nat) (ad : bool)
| RBadClause.

Fixpoint render (fuel : nat) (c : chain) (i : nat) : rbody :=
  match fuel with
  | O => RBad
  | S fuel =>
    match get_node c i with
    | NCall (FU f) a _ => RCall f a
    | NCall (FBody _) a dn =>
        match get_node c dn with
        | NDefine _ _ [cl] =>
            match get_node c cl with
            | NClause _ _ _ ch _ _ => RBodyCall (tl a) (render fuel c ch)
            | _ => RBad
            end
        | _ => RBad
        end
    | NBuiltin f a id => RBuiltin f a id
    | NCallChoice _ i' h a dn =>
        match get_node c dn with
        | NChoice _ _ _ _ pr => RChoiceCall i' h a pr
        | _ => RBad
        end
    | NConj a b => RAnd (render fuel c a) (render fuel c b)
    | NDisj a b => ROr (render fuel c a) (render fuel c b)
    | NNeg a => RNot (render fuel c a)
    | _ => RBad
    end
  end.

Definition render_clause (fuel : nat) (c : chain) (i : nat) : rclause :=
  match get_node c i with
  | NFact _ a pr => RFact a pr
  | NClause _ a pr ch vc g => RClause a pr (render fuel c ch) vc (match g with Some _ => true | None => false end)
  | _ => RBadClause
  end.

Definition abs (fuel : nat) (c : chain) (s : sig) : list rclause :=
  match get_head c s with
  | None => []
  | Some n => map (render_clause fuel c) (define_children (get_node c n))
  end.

(* what a statement contributes to predicate s, at source level *)
Fixpoint spec_body (b : body) : rbody :=
  match b with
  | BCall f a => RCall f a
  | BBuiltin f a id => RBuiltin f a id
  | BAnd a b => RAnd (spec_body a) (spec_body b)
  | BOr a b => ROr (spec_body a) (spec_body b)
  | BNot a => RNot (spec_body a)
  end.

Fixpoint spec_ad_heads (heads : list (N * list term * N)) (hl : term) (b : body) (vc i : nat) (s : sig)
  : list rclause :=
  match heads with
  | [] => []
  | (f, a, pr) :: t =>
      (if sig_eqb s (FU f, length a)
       then [RClause a (Some pr)
               (RAnd (RBodyCall (hl :: var_args vc) (spec_body b))
                     (RChoiceCall i (t_app f a) (var_args vc) (Some pr))) vc true]
       else []) ++ spec_ad_heads t hl b vc (S i) s
  end.

Definition spec_stmt (st : stmt) (s : sig) : list rclause :=
  match st with
  | SFact f a pr => if sig_eqb s (FU f, length a) then [RFact a pr] else []
  | SClause f a b vc => if sig_eqb s (FU f, length a) then [RClause a None (spec_body b) vc false] else []
  | SAD heads b vc =>
      let hl := match heads with [(f, a, _)] => t_app f a | _ => t_multi end in
      spec_ad_heads heads hl b vc 0 s
  | SDeclare _ _ => []
  end.

Definition spec (ss : list stmt) (s : sig) : list rclause := flat_map (fun st => spec_stmt st s) ss.

(* ---------------------------------------------------------------- other observables *)
(* enum_nodes / iter_nodes: parent's nodes first *)
Fixpoint iter_nodes (c : chain) : list node :=
  match c with [] => [] | l :: p => iter_nodes p ++ l_nodes l end.

(* all (group, choice) pairs of choice nodes, in index order *)
Definition choice_groups (c : chain) : list (nat * nat) :=
  flat_map (fun n => match n with NChoice g i _ _ _ => [(g, i)] | _ => [] end) (iter_nodes c).

(* group ids of the annotated disjunctions, one per AD statement (its choice 0), in order *)
Definition ad_groups (c : chain) : list nat :=
  flat_map (fun n => match n with NChoice g 0 _ _ _ => [g] | _ => [] end) (iter_nodes c).

(* does a user call node at index i resolve, through c, to the current definition of its predicate? *)
Definition call_resolves (c : chain) (i : nat) : bool :=
  match get_node c i with
  | NCall (FU f) a dn =>
      match get_head c (FU f, length a) with
      | Some h => if list_eq_dec Nat.eq_dec (define_children (get_node c dn)) (define_children (get_node c h)) then true else false
      | None => false
      end
  | _ => true
  end.

Definition any_err (c : chain) : bool := existsb l_err c.

(* the group ids attached to the clause at index i, as the engine meets them: the clause node's own
   group, the group in the choice-call of its body and the group of the choice node that call points
   to (the engine keys the choice atom and the mutual-exclusion constraint on the latter) *)
Definition cl_groups (c : chain) (i : nat) : option (nat * nat * nat) :=
  match get_node c i with
  | NClause _ _ _ ch _ (Some g) =>
      match get_node c ch with
      | NConj _ cc =>
          match get_node c cc with
          | NCallChoice g1 _ _ _ dn =>
              match get_node c dn with
              | NChoice g2 _ _ _ _ => Some (g, g1, g2)
              | _ => Some (g, g1, S g1)          (* malformed: made visible as an inconsistent triple *)
              end
          | _ => Some (g, S g, S g)
          end
      | _ => Some (g, S g, S g)
      end
  | _ => None
  end.

(* definition list of s seen through c WITH the group ids kept *)
Definition abs_g (fuel : nat) (c : chain) (s : sig) : list (rclause * option (nat * nat * nat)) :=
  match get_head c s with
  | None => []
  | Some n => map (fun i => (render_clause fuel c i, cl_groups c i)) (define_children (get_node c n))
  end.

(* ---------------------------------------------------------------- boolean comparison (for the tie) *)
Definition term_eqb (a b : term) : bool := if list_eq_dec N.eq_dec a b then true else false.
Definition terms_eqb (a b : list term) : bool := if list_eq_dec (list_eq_dec N.eq_dec) a b then true else false.
Definition optN_eqb (a b : option N) : bool :=
  match a, b with Some x, Some y => N.eqb x y | None, None => true | _, _ => false end.
Definition optnat_eqb (a b : option nat) : bool :=
  match a, b with Some x, Some y => Nat.eqb x y | None, None => true | _, _ => false end.
Definition nats_eqb (a b : list nat) : bool := if list_eq_dec Nat.eq_dec a b then true else false.

Definition node_eqb (x y : node) : bool :=
  match x, y with
  | NEmpty, NEmpty => true
  | NFact f a p, NFact f' a' p' => fn_eqb f f' && terms_eqb a a' && optN_eqb p p'
  | NClause f a p c v g, NClause f' a' p' c' v' g' =>
      fn_eqb f f' && terms_eqb a a' && optN_eqb p p' && Nat.eqb c c' && Nat.eqb v v' && optnat_eqb g g'
  | NDefine f a c, NDefine f' a' c' => fn_eqb f f' && Nat.eqb a a' && nats_eqb c c'
  | NCall f a d, NCall f' a' d' => fn_eqb f f' && terms_eqb a a' && Nat.eqb d d'
  | NBuiltin f a i, NBuiltin f' a' i' => N.eqb f f' && terms_eqb a a' && N.eqb i i'
  | NCallChoice g i h a d, NCallChoice g' i' h' a' d' =>
      Nat.eqb g g' && Nat.eqb i i' && term_eqb h h' && terms_eqb a a' && Nat.eqb d d'
  | NConj a b, NConj a' b' => Nat.eqb a a' && Nat.eqb b b'
  | NDisj a b, NDisj a' b' => Nat.eqb a a' && Nat.eqb b b'
  | NNeg a, NNeg a' => Nat.eqb a a'
  | NChoice g i h a p, NChoice g' i' h' a' p' =>
      Nat.eqb g g' && Nat.eqb i i' && term_eqb h h' && terms_eqb a a' && optN_eqb p p'
  | _, _ => false
  end.

Fixpoint list_eqb {A} (eqb : A -> A -> bool) (a b : list A) : bool :=
  match a, b with
  | [], [] => true
  | x :: a', y :: b' => eqb x y && list_eqb eqb a' b'
  | _, _ => false
  end.

Fixpoint rbody_eqb (x y : rbody) : bool :=
  match x, y with
  | RCall f a, RCall f' a' => N.eqb f f' && terms_eqb a a'
  | RBuiltin f a i, RBuiltin f' a' i' => N.eqb f f' && terms_eqb a a' && N.eqb i i'
  | RAnd a b, RAnd a' b' => rbody_eqb a a' && rbody_eqb b b'
  | ROr a b, ROr a' b' => rbody_eqb a a' && rbody_eqb b b'
  | RNot a, RNot a' => rbody_eqb a a'
  | RBodyCall a b, RBodyCall a' b' => terms_eqb a a' && rbody_eqb b b'
  | RChoiceCall i h a p, RChoiceCall i' h' a' p' => Nat.eqb i i' && term_eqb h h' && terms_eqb a a' && optN_eqb p p'
  | RBad, RBad => true
  | _, _ => false
  end.

Definition rclause_eqb (x y : rclause) : bool :=
  match x, y with
  | RFact a p, RFact a' p' => terms_eqb a a' && optN_eqb p p'
  | RClause a p b v d, RClause a' p' b' v' d' =>
      terms_eqb a a' && optN_eqb p p' && rbody_eqb b b' && Nat.eqb v v' && Bool.eqb d d'
  | RBadClause, RBadClause => true
  | _, _ => false
  end.

(* the tie compares, layer by layer (child first): node table, the heads as
   the harness lists them (sorted by node index), redirects (sorted by key) *)
Fixpoint insert_pair (x : nat * nat) (l : list (nat * nat)) : list (nat * nat) :=
  match l with
  | [] => [x]
  | y :: t => if fst x <=? fst y then x :: l else y :: insert_pair x t
  end.
Definition sort_pairs (l : list (nat * nat)) : list (nat * nat) := fold_right insert_pair [] l.
Definition pair_eqb (a b : nat * nat) : bool := Nat.eqb (fst a) (fst b) && Nat.eqb (snd a) (snd b).

Fixpoint insert_head (x : sig * nat) (l : list (sig * nat)) : list (sig * nat) :=
  match l with
  | [] => [x]
  | y :: t => if snd x <=? snd y then x :: l else y :: insert_head x t
  end.
Definition sort_heads (l : list (sig * nat)) : list (sig * nat) := fold_right insert_head [] l.
Definition head_eqb (a b : sig * nat) : bool := sig_eqb (fst a) (fst b) && Nat.eqb (snd a) (snd b).

Definition layer_matches (l : layer) (nodes : list node) (heads : list (sig * nat)) (redir : list (nat * nat)) : bool :=
  list_eqb node_eqb (l_nodes l) nodes
  && list_eqb head_eqb (sort_heads (l_heads l)) heads
  && list_eqb pair_eqb (sort_pairs (l_redir l)) redir
  && negb (l_err l).

Fixpoint chain_matches (c : chain) (obs : list (list node * list (sig * nat) * list (nat * nat))) : bool :=
  match c, obs with
  | [], [] => true
  | l :: p, (n, h, r) :: obs' => layer_matches l n h r && chain_matches p obs'
  | _, _ => false
  end.

Definition abs_matches (fuel : nat) (c : chain) (obs : list (sig * list rclause)) : bool :=
  forallb (fun so => list_eqb rclause_eqb (abs fuel c (fst so)) (snd so)) obs.

(* tie: get_node of the model against get_node of the implementation on every index of a database.
   `obs` lists, for the indices i whose node the implementation finds somewhere else, the global
   position j of the object returned by get_node(i) *)
Definition gets_match (c : chain) (obs : list (nat * nat)) : bool :=
  forallb (fun i => node_eqb (get_node c i) (raw c (redir_get obs i))) (seq 0 (size c)).
