(* Statements: _compile of bodies, facts and clauses; rendering is stable under later additions. *)
From Coq Require Import List Arith Bool NArith Lia.
From PL.C29 Require Import ModelClauseDB ProofsBase ProofsInv.
Import ListNotations.

Definition extA (c c' : chain) : Prop := forall j, fr c j -> get_node c' j = get_node c j.

Lemma extN_extA : forall c c', extN (size c) c c' -> extA c c'.
Proof. intros c c' [_ H] j Hf. apply H; [apply Hf|exact Hf]. Qed.

Lemma render_stable : forall c c', closed c -> extA c c' ->
  forall fuel i, fr c i -> render fuel c' i = render fuel c i.
Proof.
  intros c c' Hcl Hx fuel. induction fuel as [|fuel IH]; intros i Hi; [reflexivity|].
  simpl. rewrite (Hx i Hi). pose proof (Hcl i (proj1 Hi)) as Hok.
  destruct (get_node c i) eqn:E; try reflexivity; simpl in Hok.
  - destruct f; [reflexivity|]. rewrite (Hx dn Hok).
    pose proof (Hcl dn (proj1 Hok)) as Hok2.
    destruct (get_node c dn) eqn:E2; try reflexivity.
    destruct children as [|cl [|? ?]]; try reflexivity. simpl in Hok2.
    inversion Hok2 as [|? ? Hcl1 _]; subst. rewrite (Hx cl Hcl1).
    pose proof (Hcl cl (proj1 Hcl1)) as Hok3.
    destruct (get_node c cl) eqn:E3; try reflexivity. simpl in Hok3. rewrite (IH _ Hok3). reflexivity.
  - rewrite (Hx dn Hok). reflexivity.
  - destruct Hok as [Ha Hb]. rewrite (IH _ Ha), (IH _ Hb). reflexivity.
  - destruct Hok as [Ha Hb]. rewrite (IH _ Ha), (IH _ Hb). reflexivity.
  - rewrite (IH _ Hok). reflexivity.
Qed.

Lemma render_clause_stable : forall c c', closed c -> extA c c' ->
  forall fuel i, fr c i -> render_clause fuel c' i = render_clause fuel c i.
Proof.
  intros c c' Hcl Hx fuel i Hi. unfold render_clause. rewrite (Hx i Hi).
  pose proof (Hcl i (proj1 Hi)) as Hok. destruct (get_node c i); try reflexivity.
  simpl in Hok. rewrite (render_stable c c' Hcl Hx fuel child Hok). reflexivity.
Qed.

(* the group ids read off a clause are stable as well *)
Lemma cl_groups_stable : forall c c', closed c -> extA c c' ->
  forall i, fr c i -> cl_groups c' i = cl_groups c i.
Proof.
  intros c c' Hcl Hx i Hi. unfold cl_groups. rewrite (Hx i Hi).
  pose proof (Hcl i (proj1 Hi)) as Hok. destruct (get_node c i) eqn:E; try reflexivity.
  destruct group as [g|]; [|reflexivity]. simpl in Hok. rewrite (Hx child Hok).
  pose proof (Hcl child (proj1 Hok)) as Hok2. destruct (get_node c child) eqn:E2; try reflexivity.
  simpl in Hok2. destruct Hok2 as [_ Hb]. rewrite (Hx b Hb).
  pose proof (Hcl b (proj1 Hb)) as Hok3. destruct (get_node c b) eqn:E3; try reflexivity.
  simpl in Hok3. rewrite (Hx dn Hok3). reflexivity.
Qed.

(* group ids of the definition list of s, clause by clause (None: not an alternative of an AD) *)
Definition grp (c : chain) (s : sig) : list (option (nat * nat * nat)) := map (cl_groups c) (defs c s).

Lemma abs_g_combine : forall fuel c s, abs_g fuel c s = combine (abs fuel c s) (grp c s).
Proof.
  intros fuel c s. unfold abs_g, abs, grp, defs. destruct (get_head c s); [|reflexivity].
  induction (define_children (get_node c n)) as [|x xs IH]; [reflexivity|]. simpl. rewrite IH. reflexivity.
Qed.

Lemma abs_defs : forall fuel c s, abs fuel c s = map (render_clause fuel c) (defs c s).
Proof. intros. unfold abs, defs. destruct (get_head c s); reflexivity. Qed.

Lemma defs_fr : forall p l s, Inv p l -> Forall (fr (l :: p)) (defs (l :: p) s).
Proof.
  intros p l s I. unfold defs. destruct (get_head (l :: p) s) as [n|] eqn:E; [|constructor].
  pose proof (I_h0 _ _ I _ _ E) as Hn. pose proof (I_cl _ _ I n Hn) as Hok.
  destruct (I_h1 _ _ I _ _ E) as [Hs|[ch Hs]]; rewrite Hs in *; simpl; [constructor|exact Hok].
Qed.

Lemma abs_old_stable : forall fuel p l c' s, Inv p l -> extA (l :: p) c' ->
  map (render_clause fuel c') (defs (l :: p) s) = abs fuel (l :: p) s.
Proof.
  intros fuel p l c' s I Hx. rewrite abs_defs. apply map_ext_in. intros a Ha.
  apply render_clause_stable; [apply I|exact Hx|].
  pose proof (defs_fr p l s I) as HF. rewrite Forall_forall in HF. apply HF. exact Ha.
Qed.

Lemma grp_old_stable : forall p l c' s, Inv p l -> extA (l :: p) c' ->
  map (cl_groups c') (defs (l :: p) s) = grp (l :: p) s.
Proof.
  intros p l c' s I Hx. unfold grp. apply map_ext_in. intros a Ha.
  apply cl_groups_stable; [apply I|exact Hx|].
  pose proof (defs_fr p l s I) as HF. rewrite Forall_forall in HF. apply HF. exact Ha.
Qed.

(* fuel-indexed source-level rendering of a body *)
Fixpoint rspec (fuel : nat) (b : body) : rbody :=
  match fuel with
  | O => RBad
  | S fuel =>
    match b with
    | BCall f a => RCall f a
    | BBuiltin f a id => RBuiltin f a id
    | BAnd a b => RAnd (rspec fuel a) (rspec fuel b)
    | BOr a b => ROr (rspec fuel a) (rspec fuel b)
    | BNot a => RNot (rspec fuel a)
    end
  end.

Fixpoint bdepth (b : body) : nat :=
  match b with
  | BAnd a b | BOr a b => S (Nat.max (bdepth a) (bdepth b))
  | BNot a => S (bdepth a)
  | _ => 0
  end.

Lemma rspec_enough : forall b fuel, bdepth b < fuel -> rspec fuel b = spec_body b.
Proof.
  induction b; intros [|fuel] H; simpl in *; try lia; try reflexivity.
  - rewrite IHb1, IHb2 by lia. reflexivity.
  - rewrite IHb1, IHb2 by lia. reflexivity.
  - rewrite IHb by lia. reflexivity.
Qed.

Ltac open_app := match goal with |- (let '(l', i) := app_node ?p ?l ?n in _) =>
  change (app_node p l n) with (fst (app_node p l n), size (l :: p)); cbv beta iota end.

(* ------------------------------------------------------------------ compile_body *)
Definition cb_post (p : chain) (l : layer) (b : body) (l' : layer) (i : nat) : Prop :=
  Inv p l' /\
  (forall N, extN N (l :: p) (l' :: p)) /\
  frm (l :: p) (l' :: p) /\
  (forall s, defs (l' :: p) s = defs (l :: p) s) /\
  fr (l' :: p) i /\
  (forall fuel, render fuel (l' :: p) i = rspec fuel b) /\
  size (l :: p) <= size (l' :: p).

Lemma app_post : forall p l n, Inv p l -> ok_node (fst (app_node p l n) :: p) n ->
  (forall f a ch, n <> NDefine f a ch) -> frozen n = true -> call_ok (l :: p) n ->
  let l' := fst (app_node p l n) in
  Inv p l' /\ (forall N, extN N (l :: p) (l' :: p)) /\ frm (l :: p) (l' :: p) /\
  (forall s, defs (l' :: p) s = defs (l :: p) s) /\ fr (l' :: p) (size (l :: p)) /\
  get_node (l' :: p) (size (l :: p)) = n /\ size (l' :: p) = S (size (l :: p)).
Proof.
  intros p l n I Hok Hnd Hfz Hcall l'. pose proof (I_rok _ _ I) as rok. splits.
  - apply Inv_app; assumption.
  - intros N. apply extN_app. exact rok.
  - intros j. apply fr_app_old. exact rok.
  - intros s. apply defs_app. exact I.
  - split; [unfold l'; rewrite size_app; lia|]. unfold l'. rewrite get_node_app by exact rok.
    rewrite Nat.eqb_refl. exact Hfz.
  - unfold l'. rewrite get_node_app by exact rok. rewrite Nat.eqb_refl. reflexivity.
  - apply size_app.
Qed.

Lemma compile_body_spec : forall b p l, Inv p l ->
  let '(l', i) := compile_body p l b in cb_post p l b l' i.
Proof.
  induction b as [f args|f args id|a IHa b IHb|a IHa b IHb|a IHa]; intros p l I; simpl.
  - (* call *)
    pose proof (add_head_spec p l (FU f, length args) false I) as Hah.
    destruct (add_head p l (FU f, length args) false) as [l1 dn].
    destruct Hah as (I1 & Hext1 & Hfrm1 & Hdefs1 & Hhead1 & _); [intros k a E; discriminate|].
    assert (Hcall1 : call_ok (l1 :: p) (NCall (FU f) args dn)).
    { exists dn. split; [exact Hhead1|]. apply (I_hres _ _ I1 _ _ Hhead1). }
    pose proof (app_post p l1 (NCall (FU f) args dn) I1 Logic.I (fun _ _ _ H => ltac:(discriminate H)) eq_refl Hcall1) as Hap.
    simpl in Hap. destruct Hap as (I2 & Hext2 & Hfrm2 & Hdefs2 & Hfr2 & Hg2 & Hsz2).
    open_app. unfold cb_post; splits.
    + exact I2.
    + intros N. eapply extN_trans; [apply Hext1|apply Hext2].
    + eapply frm_trans; eauto.
    + intros s. rewrite Hdefs2, Hdefs1. reflexivity.
    + exact Hfr2.
    + intros [|fuel]; [reflexivity|]. simpl render. simpl snd. rewrite Hg2. reflexivity.
    + destruct (Hext1 0) as [Hs1 _]. simpl in *. lia.
  - (* builtin *)
    pose proof (app_post p l (NBuiltin f args id) I Logic.I (fun _ _ _ H => ltac:(discriminate H)) eq_refl Logic.I) as Hap.
    simpl in Hap. destruct Hap as (I2 & Hext2 & Hfrm2 & Hdefs2 & Hfr2 & Hg2 & Hsz2).
    unfold cb_post; splits; auto.
    + intros [|fuel]; [reflexivity|]. simpl render. rewrite Hg2. reflexivity.
    + simpl in *. lia.
  - (* and *)
    pose proof (IHa p l I) as Ha. destruct (compile_body p l a) as [l1 i1].
    destruct Ha as (I1 & Hext1 & Hfrm1 & Hdefs1 & Hfr1 & Hr1 & Hsz1).
    pose proof (IHb p l1 I1) as Hb. destruct (compile_body p l1 b) as [l2 i2].
    destruct Hb as (I2 & Hext2 & Hfrm2 & Hdefs2 & Hfr2 & Hr2 & Hsz2).
    assert (Hok : ok_node (fst (app_node p l2 (NConj i1 i2)) :: p) (NConj i1 i2)).
    { simpl. split; apply fr_app_old; try apply I2; auto. }
    pose proof (app_post p l2 (NConj i1 i2) I2 Hok (fun _ _ _ H => ltac:(discriminate H)) eq_refl Logic.I) as Hap.
    simpl in Hap. destruct Hap as (I3 & Hext3 & Hfrm3 & Hdefs3 & Hfr3 & Hg3 & Hsz3).
    open_app. unfold cb_post; splits.
    + exact I3.
    + intros N. eapply extN_trans; [apply Hext1|]. eapply extN_trans; [apply Hext2|apply Hext3].
    + eapply frm_trans; [exact Hfrm1|]. eapply frm_trans; eauto.
    + intros s. rewrite Hdefs3, Hdefs2, Hdefs1. reflexivity.
    + exact Hfr3.
    + intros [|fuel]; [reflexivity|]. simpl render. simpl snd. rewrite Hg3. simpl rspec. f_equal.
      * rewrite <- Hr1.
        rewrite (render_stable (l1 :: p) _ (I_cl _ _ I1)); [reflexivity| |exact Hfr1].
        apply extN_extA. eapply extN_trans; [apply Hext2|apply Hext3].
      * rewrite <- Hr2.
        rewrite (render_stable (l2 :: p) _ (I_cl _ _ I2)); [reflexivity| |exact Hfr2].
        apply extN_extA. apply Hext3.
    + simpl in *. lia.
  - (* or *)
    pose proof (IHa p l I) as Ha. destruct (compile_body p l a) as [l1 i1].
    destruct Ha as (I1 & Hext1 & Hfrm1 & Hdefs1 & Hfr1 & Hr1 & Hsz1).
    pose proof (IHb p l1 I1) as Hb. destruct (compile_body p l1 b) as [l2 i2].
    destruct Hb as (I2 & Hext2 & Hfrm2 & Hdefs2 & Hfr2 & Hr2 & Hsz2).
    assert (Hok : ok_node (fst (app_node p l2 (NDisj i1 i2)) :: p) (NDisj i1 i2)).
    { simpl. split; apply fr_app_old; try apply I2; auto. }
    pose proof (app_post p l2 (NDisj i1 i2) I2 Hok (fun _ _ _ H => ltac:(discriminate H)) eq_refl Logic.I) as Hap.
    simpl in Hap. destruct Hap as (I3 & Hext3 & Hfrm3 & Hdefs3 & Hfr3 & Hg3 & Hsz3).
    open_app. unfold cb_post; splits.
    + exact I3.
    + intros N. eapply extN_trans; [apply Hext1|]. eapply extN_trans; [apply Hext2|apply Hext3].
    + eapply frm_trans; [exact Hfrm1|]. eapply frm_trans; eauto.
    + intros s. rewrite Hdefs3, Hdefs2, Hdefs1. reflexivity.
    + exact Hfr3.
    + intros [|fuel]; [reflexivity|]. simpl render. simpl snd. rewrite Hg3. simpl rspec. f_equal.
      * rewrite <- Hr1.
        rewrite (render_stable (l1 :: p) _ (I_cl _ _ I1)); [reflexivity| |exact Hfr1].
        apply extN_extA. eapply extN_trans; [apply Hext2|apply Hext3].
      * rewrite <- Hr2.
        rewrite (render_stable (l2 :: p) _ (I_cl _ _ I2)); [reflexivity| |exact Hfr2].
        apply extN_extA. apply Hext3.
    + simpl in *. lia.
  - (* not *)
    pose proof (IHa p l I) as Ha. destruct (compile_body p l a) as [l1 i1].
    destruct Ha as (I1 & Hext1 & Hfrm1 & Hdefs1 & Hfr1 & Hr1 & Hsz1).
    assert (Hok : ok_node (fst (app_node p l1 (NNeg i1)) :: p) (NNeg i1)).
    { simpl. apply fr_app_old; try apply I1; auto. }
    pose proof (app_post p l1 (NNeg i1) I1 Hok (fun _ _ _ H => ltac:(discriminate H)) eq_refl Logic.I) as Hap.
    simpl in Hap. destruct Hap as (I3 & Hext3 & Hfrm3 & Hdefs3 & Hfr3 & Hg3 & Hsz3).
    open_app. unfold cb_post; splits.
    + exact I3.
    + intros N. eapply extN_trans; [apply Hext1|apply Hext3].
    + eapply frm_trans; eauto.
    + intros s. rewrite Hdefs3, Hdefs1. reflexivity.
    + exact Hfr3.
    + intros [|fuel]; [reflexivity|]. simpl render. simpl snd. rewrite Hg3. simpl rspec. f_equal.
      rewrite <- Hr1.
      rewrite (render_stable (l1 :: p) _ (I_cl _ _ I1)); [reflexivity| |exact Hfr1].
      apply extN_extA. apply Hext3.
    + simpl in *. lia.
Qed.

(* ------------------------------------------------------------------ _add_clause_node *)
Definition acn_post (p : chain) (l : layer) (s : sig) (nd : node) (l2 : layer) : Prop :=
  let c := size (l :: p) in
  Inv p l2 /\ extA (l :: p) (l2 :: p) /\ frm (l :: p) (l2 :: p) /\
  defs (l2 :: p) s = defs (l :: p) s ++ [c] /\
  (forall s', s' <> s -> defs (l2 :: p) s' = defs (l :: p) s') /\
  get_node (l2 :: p) c = nd /\ fr (l2 :: p) c /\
  S (size (l :: p)) <= size (l2 :: p) /\
  (get_head (l :: p) s = None -> size (l2 :: p) = S (S (size (l :: p))) /\ get_head (l2 :: p) s = Some (S (size (l :: p)))).

Lemma app_then_define : forall p l s nd,
  Inv p l -> ok_node (fst (app_node p l nd) :: p) nd -> (forall f a ch, nd <> NDefine f a ch) -> frozen nd = true ->
  call_ok (l :: p) nd ->
  (forall k a, s = (FBody k, a) -> k <= size (l :: p)) ->
  (is_user s \/ get_head (l :: p) s = None) ->
  acn_post p l s nd (add_define p (fst (app_node p l nd)) s (size (l :: p))).
Proof.
  intros p l s nd I Hok Hnd Hfz Hcall Hfb Hcase.
  pose proof (app_post p l nd I Hok Hnd Hfz Hcall) as Hap. cbv zeta in Hap.
  destruct Hap as (I1 & Hext1 & Hfrm1 & Hdefs1 & Hfr1 & Hg1 & Hsz1).
  set (l1 := fst (app_node p l nd)) in *.
  assert (Hfb1 : forall k a, s = (FBody k, a) -> k <= size (l1 :: p)).
  { intros k a E. specialize (Hfb k a E). rewrite Hsz1. lia. }
  pose proof (add_define_spec (size (l1 :: p)) p l1 s (size (l :: p)) I1 Hfb1 (le_n _) Hfr1) as Had.
  destruct Had as (I2 & Hext2 & Hfrm2 & Hd2 & Hdo2 & Hsz2 & Hnone2 & Hback2).
  assert (Hcase1 : is_user s \/ get_head (l1 :: p) s = None).
  { destruct Hcase; [left; assumption|right]. unfold l1. rewrite get_head_app. assumption. }
  specialize (Hext2 Hcase1).
  unfold acn_post; splits.
  - exact I2.
  - apply extN_extA. eapply extN_trans; [apply Hext1|]. eapply extN_weaken; [|exact Hext2]. rewrite Hsz1. lia.
  - eapply frm_trans; eauto.
  - rewrite Hd2, Hdefs1. reflexivity.
  - intros s' Hne. rewrite (Hdo2 s' Hne), Hdefs1. reflexivity.
  - destruct Hext2 as [_ Hx]. rewrite Hx; [exact Hg1| rewrite Hsz1; lia | exact Hfr1].
  - apply Hfrm2. exact Hfr1.
  - rewrite Hsz1 in Hsz2. exact Hsz2.
  - intros Hnn. assert (Hnn1 : get_head (l1 :: p) s = None) by (unfold l1; rewrite get_head_app; exact Hnn).
    destruct (Hnone2 Hnn1) as [Ha Hb]. rewrite Hsz1 in Ha, Hb. split; assumption.
Qed.

(* ------------------------------------------------------------------ statements without annotated disjunctions *)
Definition specf (fuel : nat) (st : stmt) (s : sig) : list rclause :=
  match st with
  | SFact f a pr => if sig_eqb s (FU f, length a) then [RFact a pr] else []
  | SClause f a b vc => if sig_eqb s (FU f, length a) then [RClause a None (rspec fuel b) vc false] else []
  | _ => []
  end.

Definition noad (st : stmt) : Prop := match st with SAD _ _ _ => False | _ => True end.

(* group ids a statement contributes to predicate s when its AD group id is g *)
Fixpoint specg_heads (heads : list (N * list term * N)) (g : nat) (s : sig) : list (option (nat * nat * nat)) :=
  match heads with
  | [] => []
  | (f, a, _) :: t => (if sig_eqb s (FU f, length a) then [Some (g, g, g)] else []) ++ specg_heads t g s
  end.

Definition specG (g : nat) (st : stmt) (s : sig) : list (option (nat * nat * nat)) :=
  match st with
  | SFact f a _ => if sig_eqb s (FU f, length a) then [None] else []
  | SClause f a _ _ => if sig_eqb s (FU f, length a) then [None] else []
  | SAD heads _ _ => specg_heads heads g s
  | SDeclare _ _ => []
  end.

(* the group id _compile gives to an AD added to layer l on top of p *)
Definition gsel (gm : gmode) (p : chain) (l : layer) : nat :=
  match gm with GLocal => length (l_nodes l) | GGlobal => size p + length (l_nodes l) end.

Definition st_post (p : chain) (l : layer) (l' : layer) (contrib : nat -> sig -> list rclause)
           (gcontrib : sig -> list (option (nat * nat * nat))) : Prop :=
  Inv p l' /\ extA (l :: p) (l' :: p) /\
  (forall fuel s, is_user s -> abs fuel (l' :: p) s = abs fuel (l :: p) s ++ contrib fuel s) /\
  (forall s, is_user s -> grp (l' :: p) s = grp (l :: p) s ++ gcontrib s).

Lemma sig_eqb_sym : forall a b, sig_eqb a b = sig_eqb b a.
Proof.
  intros a b. destruct (sig_eqb a b) eqn:E.
  - apply sig_eqb_eq in E. subst. symmetry. apply sig_eqb_refl.
  - destruct (sig_eqb b a) eqn:E2; [|reflexivity]. apply sig_eqb_eq in E2. subst. rewrite sig_eqb_refl in E. discriminate.
Qed.

Lemma abs_after_define : forall fuel p l l2 s0 c rc,
  Inv p l -> extA (l :: p) (l2 :: p) ->
  defs (l2 :: p) s0 = defs (l :: p) s0 ++ [c] ->
  (forall s', s' <> s0 -> defs (l2 :: p) s' = defs (l :: p) s') ->
  render_clause fuel (l2 :: p) c = rc ->
  forall s, abs fuel (l2 :: p) s = abs fuel (l :: p) s ++ (if sig_eqb s s0 then [rc] else []).
Proof.
  intros fuel p l l2 s0 c rc I Hx Hd Hdo Hrc s. rewrite (abs_defs fuel (l2 :: p)).
  destruct (sig_eqb s s0) eqn:E.
  - apply sig_eqb_eq in E. subst s. rewrite Hd, map_app. simpl. rewrite Hrc.
    rewrite (abs_old_stable fuel p l (l2 :: p) s0 I Hx). reflexivity.
  - rewrite Hdo by (intros ->; rewrite sig_eqb_refl in E; discriminate).
    rewrite (abs_old_stable fuel p l (l2 :: p) s I Hx). rewrite app_nil_r. reflexivity.
Qed.

Lemma grp_after_define : forall p l l2 s0 c g,
  Inv p l -> extA (l :: p) (l2 :: p) ->
  defs (l2 :: p) s0 = defs (l :: p) s0 ++ [c] ->
  (forall s', s' <> s0 -> defs (l2 :: p) s' = defs (l :: p) s') ->
  cl_groups (l2 :: p) c = g ->
  forall s, grp (l2 :: p) s = grp (l :: p) s ++ (if sig_eqb s s0 then [g] else []).
Proof.
  intros p l l2 s0 c g I Hx Hd Hdo Hg s. unfold grp at 1.
  destruct (sig_eqb s s0) eqn:E.
  - apply sig_eqb_eq in E. subst s. rewrite Hd, map_app. simpl. rewrite Hg.
    rewrite (grp_old_stable p l (l2 :: p) s0 I Hx). reflexivity.
  - rewrite Hdo by (intros ->; rewrite sig_eqb_refl in E; discriminate).
    rewrite (grp_old_stable p l (l2 :: p) s I Hx). rewrite app_nil_r. reflexivity.
Qed.

Lemma add_stmt_noad_spec : forall gm p l st, Inv p l -> noad st ->
  st_post p l (add_stmt gm p l st) (fun fuel s => specf fuel st s) (fun s => specG (gsel gm p l) st s).
Proof.
  intros gm p l st I Hna. destruct st as [f a pr|f a b vc|heads b vc|f ar]; simpl in Hna; [| | contradiction|].
  - (* fact *)
    simpl add_stmt.
    change (app_node p l (NFact (FU f) a pr)) with (fst (app_node p l (NFact (FU f) a pr)), size (l :: p)). cbv beta iota.
    pose proof (app_then_define p l (FU f, length a) (NFact (FU f) a pr) I Logic.I
                  (fun _ _ _ H => ltac:(discriminate H)) eq_refl Logic.I
                  (fun k a0 H => ltac:(discriminate H)) (or_introl (ex_intro _ f eq_refl))) as H.
    destruct H as (I2 & Hx & Hfrm & Hd & Hdo & Hg & Hfr & Hsz & _).
    unfold st_post; splits; [exact I2|exact Hx| |].
    + intros fuel s _. simpl specf.
      apply (abs_after_define fuel p l _ (FU f, length a) (size (l :: p)) (RFact a pr) I Hx Hd Hdo).
      unfold render_clause. rewrite Hg. reflexivity.
    + intros s _. simpl specG.
      apply (grp_after_define p l _ (FU f, length a) (size (l :: p)) None I Hx Hd Hdo).
      unfold cl_groups. rewrite Hg. reflexivity.
  - (* clause *)
    simpl add_stmt. pose proof (compile_body_spec b p l I) as Hcb.
    destruct (compile_body p l b) as [l1 bn].
    destruct Hcb as (I1 & Hext1 & Hfrm1 & Hdefs1 & Hfr1 & Hr1 & Hsz1).
    unfold add_clause_node.
    change (app_node p l1 (NClause (FU f) a None bn vc None))
      with (fst (app_node p l1 (NClause (FU f) a None bn vc None)), size (l1 :: p)). cbv beta iota.
    assert (Hok : ok_node (fst (app_node p l1 (NClause (FU f) a None bn vc None)) :: p) (NClause (FU f) a None bn vc None)).
    { simpl. apply fr_app_old; [apply I1|exact Hfr1]. }
    pose proof (app_then_define p l1 (FU f, length a) (NClause (FU f) a None bn vc None) I1 Hok
                  (fun _ _ _ H => ltac:(discriminate H)) eq_refl Logic.I
                  (fun k a0 H => ltac:(discriminate H)) (or_introl (ex_intro _ f eq_refl))) as H.
    destruct H as (I2 & Hx & Hfrm & Hd & Hdo & Hg & Hfr & Hsz & _).
    assert (Hx01 : extA (l :: p) (l1 :: p)) by (apply extN_extA; apply Hext1).
    assert (Hx02 : extA (l :: p) (add_define p (fst (app_node p l1 (NClause (FU f) a None bn vc None))) (FU f, length a) (size (l1 :: p)) :: p)).
    { intros j Hj. rewrite Hx; [apply Hx01; exact Hj|apply Hfrm1; exact Hj]. }
    unfold st_post; splits; [exact I2|exact Hx02| |].
    + intros fuel s _. simpl specf.
      rewrite (abs_after_define fuel p l1 _ (FU f, length a) (size (l1 :: p))
                 (RClause a None (rspec fuel b) vc false) I1 Hx Hd Hdo).
      * f_equal. rewrite !abs_defs. rewrite Hdefs1. symmetry.
        rewrite <- abs_defs. symmetry. rewrite <- (abs_old_stable fuel p l (l1 :: p) s I Hx01). reflexivity.
      * unfold render_clause. rewrite Hg. f_equal. rewrite <- Hr1.
        apply render_stable; [apply I1|exact Hx|exact Hfr1].
    + intros s _. simpl specG.
      rewrite (grp_after_define p l1 _ (FU f, length a) (size (l1 :: p)) None I1 Hx Hd Hdo).
      * f_equal. unfold grp at 1. rewrite Hdefs1. apply (grp_old_stable p l (l1 :: p) s I Hx01).
      * unfold cl_groups. rewrite Hg. reflexivity.
  - (* declaration *)
    simpl add_stmt.
    pose proof (add_head_spec p l (FU f, ar) false I (fun k a0 H => ltac:(discriminate H))) as Hah.
    destruct (add_head p l (FU f, ar) false) as [l1 dn]. simpl fst.
    destruct Hah as (I1 & Hext1 & Hfrm1 & Hdefs1 & _).
    assert (Hx01 : extA (l :: p) (l1 :: p)) by (apply extN_extA; apply Hext1).
    unfold st_post; splits; [exact I1|exact Hx01| |].
    + intros fuel s _. simpl. rewrite app_nil_r. rewrite (abs_defs fuel (l1 :: p)), Hdefs1.
      apply (abs_old_stable fuel p l (l1 :: p) s I Hx01).
    + intros s _. simpl. rewrite app_nil_r. unfold grp at 1. rewrite Hdefs1.
      apply (grp_old_stable p l (l1 :: p) s I Hx01).
Qed.
