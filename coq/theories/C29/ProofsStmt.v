(* Statements: _compile of bodies, facts and clauses; rendering is stable under later additions. *)
From Coq Require Import List Arith Bool NArith Lia.
From PL.C29 Require Import ModelClauseDB ProofsBase ProofsInv.
Import ListNotations.

Definition extA (c c' : chain) : Prop := forall j, fr c j -> get_node c' j = get_node c j.

Lemma extN_extA : forall c c', extN (size c) c c' -> extA c c'.
Proof. intros c c' [_ H] j Hf. apply H; [apply Hf|exact Hf]. Qed.

Lemma render_stable : forall c c', closed c -> extA c c' ->
  forall fuel i, fr c i -> render fuel c' i = render fuel c i.
Proof.
  intros c c' Hcl Hx fuel. induction fuel as [|fuel IH]; intros i Hi; [reflexivity|].
  simpl. rewrite (Hx i Hi). pose proof (Hcl i (proj1 Hi)) as Hok.
  destruct (get_node c i) eqn:E; try reflexivity; simpl in Hok.
  - destruct f; [reflexivity|]. rewrite (Hx dn Hok).
    pose proof (Hcl dn (proj1 Hok)) as Hok2.
    destruct (get_node c dn) eqn:E2; try reflexivity.
    destruct children as [|cl [|? ?]]; try reflexivity. simpl in Hok2.
    inversion Hok2 as [|? ? Hcl1 _]; subst. rewrite (Hx cl Hcl1).
    pose proof (Hcl cl (proj1 Hcl1)) as Hok3.
    destruct (get_node c cl) eqn:E3; try reflexivity. simpl in Hok3. rewrite (IH _ Hok3). reflexivity.
  - rewrite (Hx dn Hok). reflexivity.
  - destruct Hok as [Ha Hb]. rewrite (IH _ Ha), (IH _ Hb). reflexivity.
  - destruct Hok as [Ha Hb]. rewrite (IH _ Ha), (IH _ Hb). reflexivity.
  - rewrite (IH _ Hok). reflexivity.
Qed.

Lemma render_clause_stable : forall c c', closed c -> extA c c' ->
  forall fuel i, fr c i -> render_clause fuel c' i = render_clause fuel c i.
Proof.
  intros c c' Hcl Hx fuel i Hi. unfold render_clause. rewrite (Hx i Hi).
  pose proof (Hcl i (proj1 Hi)) as Hok. destruct (get_node c i); try reflexivity.
  simpl in Hok. rewrite (render_stable c c' Hcl Hx fuel child Hok). reflexivity.
Qed.

Lemma abs_defs : forall fuel c s, abs fuel c s = map (render_clause fuel c) (defs c s).
Proof. intros. unfold abs, defs. destruct (get_head c s); reflexivity. Qed.

Lemma defs_fr : forall p l s, Inv p l -> Forall (fr (l :: p)) (defs (l :: p) s).
Proof.
  intros p l s I. unfold defs. destruct (get_head (l :: p) s) as [n|] eqn:E; [|constructor].
  pose proof (I_h0 _ _ I _ _ E) as Hn. pose proof (I_cl _ _ I n Hn) as Hok.
  destruct (I_h1 _ _ I _ _ E) as [Hs|[ch Hs]]; rewrite Hs in *; simpl; [constructor|exact Hok].
Qed.

Lemma abs_old_stable : forall fuel p l c' s, Inv p l -> extA (l :: p) c' ->
  map (render_clause fuel c') (defs (l :: p) s) = abs fuel (l :: p) s.
Proof.
  intros fuel p l c' s I Hx. rewrite abs_defs. apply map_ext_in. intros a Ha.
  apply render_clause_stable; [apply I|exact Hx|].
  pose proof (defs_fr p l s I) as HF. rewrite Forall_forall in HF. apply HF. exact Ha.
Qed.

(* fuel-indexed source-level rendering of a body *)
Fixpoint rspec (fuel : nat) (b : body) : rbody :=
  match fuel with
  | O => RBad
  | S fuel =>
    match b with
    | BCall f a => RCall f a
    | BBuiltin f a id => RBuiltin f a id
    | BAnd a b => RAnd (rspec fuel a) (rspec fuel b)
    | BOr a b => ROr (rspec fuel a) (rspec fuel b)
    | BNot a => RNot (rspec fuel a)
    end
  end.

Fixpoint bdepth (b : body) : nat :=
  match b with
  | BAnd a b | BOr a b => S (Nat.max (bdepth a) (bdepth b))
  | BNot a => S (bdepth a)
  | _ => 0
  end.

Lemma rspec_enough : forall b fuel, bdepth b < fuel -> rspec fuel b = spec_body b.
Proof.
  induction b; intros [|fuel] H; simpl in *; try lia; try reflexivity.
  - rewrite IHb1, IHb2 by lia. reflexivity.
  - rewrite IHb1, IHb2 by lia. reflexivity.
  - rewrite IHb by lia. reflexivity.
Qed.

(* ------------------------------------------------------------------ compile_body *)
Definition cb_post (p : chain) (l : layer) (b : body) (l' : layer) (i : nat) : Prop :=
  Inv p l' /\
  (forall N, extN N (l :: p) (l' :: p)) /\
  frm (l :: p) (l' :: p) /\
  (forall s, defs (l' :: p) s = defs (l :: p) s) /\
  fr (l' :: p) i /\
  (forall fuel, render fuel (l' :: p) i = rspec fuel b) /\
  size (l :: p) <= size (l' :: p).

Lemma app_post : forall p l n, Inv p l -> ok_node (fst (app_node p l n) :: p) n ->
  (forall f a ch, n <> NDefine f a ch) -> frozen n = true ->
  let l' := fst (app_node p l n) in
  Inv p l' /\ (forall N, extN N (l :: p) (l' :: p)) /\ frm (l :: p) (l' :: p) /\
  (forall s, defs (l' :: p) s = defs (l :: p) s) /\ fr (l' :: p) (size (l :: p)) /\
  get_node (l' :: p) (size (l :: p)) = n /\ size (l' :: p) = S (size (l :: p)).
Proof.
  intros p l n I Hok Hnd Hfz l'. pose proof (I_rok _ _ I) as rok. splits.
  - apply Inv_app; assumption.
  - intros N. apply extN_app. exact rok.
  - intros j. apply fr_app_old. exact rok.
  - intros s. apply defs_app. exact I.
  - split; [unfold l'; rewrite size_app; lia|]. unfold l'. rewrite get_node_app by exact rok.
    rewrite Nat.eqb_refl. exact Hfz.
  - unfold l'. rewrite get_node_app by exact rok. rewrite Nat.eqb_refl. reflexivity.
  - apply size_app.
Qed.

Lemma compile_body_spec : forall b p l, Inv p l ->
  let '(l', i) := compile_body p l b in cb_post p l b l' i.
Proof.
  induction b as [f args|f args id|a IHa b IHb|a IHa b IHb|a IHa]; intros p l I; simpl.
  - (* call *)
    pose proof (add_head_spec p l (FU f, length args) false I) as Hah.
    destruct (add_head p l (FU f, length args) false) as [l1 dn].
    destruct Hah as (I1 & Hext1 & Hfrm1 & Hdefs1 & _); [intros k a E; discriminate|].
    pose proof (app_post p l1 (NCall (FU f) args dn) I1 Logic.I (fun _ _ _ H => ltac:(discriminate H)) eq_refl) as Hap.
    simpl in Hap. destruct Hap as (I2 & Hext2 & Hfrm2 & Hdefs2 & Hfr2 & Hg2 & Hsz2).
    unfold app_node at 1. simpl fst in *. unfold cb_post; splits.
    + exact I2.
    + intros N. eapply extN_trans; [apply Hext1|apply Hext2].
    + eapply frm_trans; eauto.
    + intros s. rewrite Hdefs2, Hdefs1. reflexivity.
    + exact Hfr2.
    + intros [|fuel]; [reflexivity|]. simpl render. simpl snd. rewrite Hg2. reflexivity.
    + destruct (Hext1 0) as [Hs1 _]. simpl in *. lia.
  - (* builtin *)
    pose proof (app_post p l (NBuiltin f args id) I Logic.I (fun _ _ _ H => ltac:(discriminate H)) eq_refl) as Hap.
    simpl in Hap. destruct Hap as (I2 & Hext2 & Hfrm2 & Hdefs2 & Hfr2 & Hg2 & Hsz2).
    unfold cb_post; splits; auto.
    + intros [|fuel]; [reflexivity|]. simpl render. rewrite Hg2. reflexivity.
    + simpl in *. lia.
  - (* and *)
    pose proof (IHa p l I) as Ha. destruct (compile_body p l a) as [l1 i1].
    destruct Ha as (I1 & Hext1 & Hfrm1 & Hdefs1 & Hfr1 & Hr1 & Hsz1).
    pose proof (IHb p l1 I1) as Hb. destruct (compile_body p l1 b) as [l2 i2].
    destruct Hb as (I2 & Hext2 & Hfrm2 & Hdefs2 & Hfr2 & Hr2 & Hsz2).
    assert (Hok : ok_node (fst (app_node p l2 (NConj i1 i2)) :: p) (NConj i1 i2)).
    { simpl. split; apply fr_app_old; try apply I2; auto. }
    pose proof (app_post p l2 (NConj i1 i2) I2 Hok (fun _ _ _ H => ltac:(discriminate H)) eq_refl) as Hap.
    simpl in Hap. destruct Hap as (I3 & Hext3 & Hfrm3 & Hdefs3 & Hfr3 & Hg3 & Hsz3).
    unfold cb_post; splits.
    + exact I3.
    + intros N. eapply extN_trans; [apply Hext1|]. eapply extN_trans; [apply Hext2|apply Hext3].
    + eapply frm_trans; [exact Hfrm1|]. eapply frm_trans; eauto.
    + intros s. rewrite Hdefs3, Hdefs2, Hdefs1. reflexivity.
    + exact Hfr3.
    + intros [|fuel]; [reflexivity|]. simpl render. simpl snd. rewrite Hg3. simpl rspec. f_equal.
      * rewrite <- Hr1.
        rewrite (render_stable (l1 :: p) _ (I_cl _ _ I1)); [reflexivity| |exact Hfr1].
        apply extN_extA. eapply extN_trans; [apply Hext2|apply Hext3].
      * rewrite <- Hr2.
        rewrite (render_stable (l2 :: p) _ (I_cl _ _ I2)); [reflexivity| |exact Hfr2].
        apply extN_extA. apply Hext3.
    + simpl in *. lia.
  - (* or *)
    pose proof (IHa p l I) as Ha. destruct (compile_body p l a) as [l1 i1].
    destruct Ha as (I1 & Hext1 & Hfrm1 & Hdefs1 & Hfr1 & Hr1 & Hsz1).
    pose proof (IHb p l1 I1) as Hb. destruct (compile_body p l1 b) as [l2 i2].
    destruct Hb as (I2 & Hext2 & Hfrm2 & Hdefs2 & Hfr2 & Hr2 & Hsz2).
    assert (Hok : ok_node (fst (app_node p l2 (NDisj i1 i2)) :: p) (NDisj i1 i2)).
    { simpl. split; apply fr_app_old; try apply I2; auto. }
    pose proof (app_post p l2 (NDisj i1 i2) I2 Hok (fun _ _ _ H => ltac:(discriminate H)) eq_refl) as Hap.
    simpl in Hap. destruct Hap as (I3 & Hext3 & Hfrm3 & Hdefs3 & Hfr3 & Hg3 & Hsz3).
    unfold cb_post; splits.
    + exact I3.
    + intros N. eapply extN_trans; [apply Hext1|]. eapply extN_trans; [apply Hext2|apply Hext3].
    + eapply frm_trans; [exact Hfrm1|]. eapply frm_trans; eauto.
    + intros s. rewrite Hdefs3, Hdefs2, Hdefs1. reflexivity.
    + exact Hfr3.
    + intros [|fuel]; [reflexivity|]. simpl render. simpl snd. rewrite Hg3. simpl rspec. f_equal.
      * rewrite <- Hr1.
        rewrite (render_stable (l1 :: p) _ (I_cl _ _ I1)); [reflexivity| |exact Hfr1].
        apply extN_extA. eapply extN_trans; [apply Hext2|apply Hext3].
      * rewrite <- Hr2.
        rewrite (render_stable (l2 :: p) _ (I_cl _ _ I2)); [reflexivity| |exact Hfr2].
        apply extN_extA. apply Hext3.
    + simpl in *. lia.
  - (* not *)
    pose proof (IHa p l I) as Ha. destruct (compile_body p l a) as [l1 i1].
    destruct Ha as (I1 & Hext1 & Hfrm1 & Hdefs1 & Hfr1 & Hr1 & Hsz1).
    assert (Hok : ok_node (fst (app_node p l1 (NNeg i1)) :: p) (NNeg i1)).
    { simpl. apply fr_app_old; try apply I1; auto. }
    pose proof (app_post p l1 (NNeg i1) I1 Hok (fun _ _ _ H => ltac:(discriminate H)) eq_refl) as Hap.
    simpl in Hap. destruct Hap as (I3 & Hext3 & Hfrm3 & Hdefs3 & Hfr3 & Hg3 & Hsz3).
    unfold cb_post; splits.
    + exact I3.
    + intros N. eapply extN_trans; [apply Hext1|apply Hext3].
    + eapply frm_trans; eauto.
    + intros s. rewrite Hdefs3, Hdefs1. reflexivity.
    + exact Hfr3.
    + intros [|fuel]; [reflexivity|]. simpl render. simpl snd. rewrite Hg3. simpl rspec. f_equal.
      rewrite <- Hr1.
      rewrite (render_stable (l1 :: p) _ (I_cl _ _ I1)); [reflexivity| |exact Hfr1].
      apply extN_extA. apply Hext3.
    + simpl in *. lia.
Qed.
