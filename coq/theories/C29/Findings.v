(* Refutation witnesses for the code as it WAS before the two repairs in /repo (4d38dc0: group = len(self);
   52826ef: get_node resolves redirects through the whole parent chain); outside the cone of Props.v. *)
From Coq Require Import List Arith Bool NArith.
From PL.C29 Require Import ModelClauseDB.
Import ListNotations.

(* 1. `group = len(self.__nodes)` counts only the child's own nodes: an annotated disjunction added to
      an extension can get the group id of an annotated disjunction of the parent (the engine keys the
      mutual-exclusion group and the choice atoms on that id).  With len(self) (GGlobal) it cannot. *)
Definition adP : list stmt := [SAD [(5%N, [], 1%N); (6%N, [], 1%N)] (BBuiltin 4 [] 1) 0].
Definition adC : list stmt := [SAD [(7%N, [], 1%N); (8%N, [], 1%N)] (BBuiltin 4 [] 1) 0].

Theorem C29_ad_group_collision_refuted :
  exists P cs, ~ NoDup (ad_groups (adds GLocal cs (extend (adds GLocal P root0))))
            /\ NoDup (ad_groups (adds GGlobal cs (extend (adds GGlobal P root0)))).
Proof.
  exists adP, adC. split.
  - vm_compute. intros H. inversion H as [|x l Hn _]. apply Hn. left. reflexivity.
  - vm_compute. repeat constructor; simpl; intuition discriminate.
Qed.

(* 2. (REPAIRED in /repo by commit 52826ef; ModelClauseDB.get_node is the repaired lookup.)  The lookup
      before the repair applied only the youngest database's own redirects and then delegated to the
      parent: a call node of the grandparent, seen through a grandchild that extends a predicate its
      parent had already extended, resolved to the PARENT's definition, not to the grandchild's.  With
      the chained lookup it resolves correctly (Props.v: C29_redirect_sound, for every history). *)
Fixpoint get_node_one_level (c : chain) (i : nat) : node :=
  match c with
  | [] => NEmpty
  | l :: p => let i' := redir_get (l_redir l) i in
              if i' <? size p then get_node_one_level p i' else nth (i' - size p) (l_nodes l) NEmpty
  end.

Definition nestedOps : list op :=
  [ OAdd (SClause 7%N [] (BCall 5%N []) 0);     (* r :- p.   (p undefined yet: placeholder node 0, call node 1) *)
    OExtend; OAdd (SFact 5%N [] None);           (* child:      p.  *)
    OExtend; OAdd (SFact 5%N [] (Some 1%N)) ].   (* grandchild: 0.2::p. *)

Theorem C29_nested_redirect_refuted_for_one_level_lookup :
  exists ops i f a dn h,
    let c := run GGlobal ops root0 in
    get_node c i = NCall (FU f) a dn /\ get_head c (FU f, length a) = Some h /\
    define_children (get_node_one_level c dn) <> define_children (get_node_one_level c h) /\
    define_children (get_node c dn) = define_children (get_node c h) /\
    call_resolves c i = true.
Proof.
  exists nestedOps, 1, 5%N, [], 0, 7. vm_compute. repeat split; try reflexivity. discriminate.
Qed.
