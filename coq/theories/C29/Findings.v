(* Refutation witnesses for the code AS IT IS at the pinned commit (gm = GLocal, get_node with
   one-level redirects); outside the cone of Props.v. *)
From Coq Require Import List Arith Bool NArith.
From PL.C29 Require Import ModelClauseDB.
Import ListNotations.

(* 1. `group = len(self.__nodes)` counts only the child's own nodes: an annotated disjunction added to
      an extension can get the group id of an annotated disjunction of the parent (the engine keys the
      mutual-exclusion group and the choice atoms on that id).  With len(self) (GGlobal) it cannot. *)
Definition adP : list stmt := [SAD [(5%N, [], 1%N); (6%N, [], 1%N)] (BBuiltin 4 [] 1) 0].
Definition adC : list stmt := [SAD [(7%N, [], 1%N); (8%N, [], 1%N)] (BBuiltin 4 [] 1) 0].

Theorem C29_ad_group_collision_refuted :
  exists P cs, ~ NoDup (ad_groups (adds GLocal cs (extend (adds GLocal P root0))))
            /\ NoDup (ad_groups (adds GGlobal cs (extend (adds GGlobal P root0)))).
Proof.
  exists adP, adC. split.
  - vm_compute. intros H. inversion H as [|x l Hn _]. apply Hn. left. reflexivity.
  - vm_compute. repeat constructor; simpl; intuition discriminate.
Qed.

(* 2. redirects are looked up one level at a time: a call node of the grandparent, seen through a
      grandchild that extends a predicate its parent had already extended, resolves to the PARENT's
      definition, not to the grandchild's. *)
Definition nestedOps : list op :=
  [ OAdd (SClause 7%N [] (BCall 5%N []) 0);     (* r :- p.   (p undefined yet: placeholder node 0, call node 1) *)
    OExtend; OAdd (SFact 5%N [] None);           (* child:      p.  *)
    OExtend; OAdd (SFact 5%N [] (Some 1%N)) ].   (* grandchild: 0.2::p. *)

Theorem C29_nested_redirect_refuted :
  exists ops i, call_resolves (run GLocal ops root0) i = false
             /\ call_resolves (parent_of (run GLocal ops root0)) i = true.
Proof. exists nestedOps, 1. split; vm_compute; reflexivity. Qed.
