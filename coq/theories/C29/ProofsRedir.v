(* Redirect soundness (calls of any ancestor see the extended definition, at any nesting depth) and
   AD group ids along arbitrary histories (freshness under GGlobal, partition of choices into groups). *)
From Coq Require Import List Arith Bool NArith Lia.
From PL.C29 Require Import ModelClauseDB ProofsBase ProofsInv ProofsStmt ProofsAD ProofsHist.
Import ListNotations.

(* ------------------------------------------------------------------ suffixes (= ancestors) of a well-formed chain *)
Lemma WFc_suffix : forall q d, WFc (q ++ d) -> WFc d.
Proof. induction q as [|l q IH]; intros d H; [exact H|]. apply IH. apply H. Qed.

(* ------------------------------------------------------------------ redirect soundness *)
Theorem redirect_sound_wf : forall c i f a dn, WFc c ->
  get_node c i = NCall (FU f) a dn ->
  exists h, get_head c (FU f, length a) = Some h /\ resolve c dn = h /\ get_node c dn = get_node c h /\
            define_children (get_node c dn) = defs c (FU f, length a) /\
            forall fuel, map (render_clause fuel c) (define_children (get_node c dn)) = abs fuel c (FU f, length a).
Proof.
  intros [|l p] i f a dn H Hn; [discriminate Hn|]. destruct H as [I H].
  assert (Hi : i < size (l :: p)).
  { destruct (Nat.lt_ge_cases i (size (l :: p))) as [Hlt|Hge]; [exact Hlt|].
    rewrite (get_node_beyond p l i (I_rok _ _ I) Hge) in Hn. discriminate Hn. }
  pose proof (I_call _ _ I i Hi) as Hc. rewrite Hn in Hc. destruct Hc as [h [Hh Hr]].
  assert (Hg : get_node (l :: p) dn = get_node (l :: p) h).
  { apply get_node_same_res; [apply (I_rok _ _ I)|exact Hr]. }
  assert (Hd : define_children (get_node (l :: p) dn) = defs (l :: p) (FU f, length a)).
  { unfold defs. rewrite Hh, Hg. reflexivity. }
  exists h. repeat split; try assumption.
  intros fuel. rewrite abs_defs, Hd. reflexivity.
Qed.

Theorem redirect_sound : forall gm ops q d i f a dn,
  run gm ops root0 = q ++ d ->
  get_node d i = NCall (FU f) a dn ->
  exists h, get_head d (FU f, length a) = Some h /\ resolve d dn = h /\ get_node d dn = get_node d h /\
            forall fuel, map (render_clause fuel d) (define_children (get_node d dn)) = abs fuel d (FU f, length a).
Proof.
  intros gm ops q d i f a dn E Hn.
  assert (H : WFc d).
  { apply (WFc_suffix q). rewrite <- E. apply reachable_wf. }
  destruct (redirect_sound_wf d i f a dn H Hn) as (h & H1 & H2 & H3 & _ & H5).
  exists h. repeat split; assumption.
Qed.

(* a position whose index the chain of redirects moves holds a placeholder or a define node; every
   other physically stored node (in particular every call node of every layer) is read unchanged *)
Lemma resolve_moved : forall c i, WFc c -> resolve c i <> i -> def_or_empty (raw c i).
Proof.
  induction c as [|l p IH]; intros i H Hr; [contradiction Hr; reflexivity|]. destruct H as [I H].
  rewrite resolve_cons in Hr.
  destruct (Nat.eq_dec (pre p i) i) as [Ep|Ep].
  - rewrite Ep in Hr. destruct (redir_get_cases (l_redir l) i) as [E|E]; [contradiction|].
    pose proof (proj1 (I_rok _ _ I) _ _ E) as [Hk _]. rewrite (raw_lt l p i Hk). apply (I_keys _ _ I _ _ E).
  - unfold pre in Ep. destruct (Nat.ltb_spec i (size p)) as [Hlt|Hge]; [|contradiction Ep; reflexivity].
    rewrite (raw_lt l p i Hlt). apply IH; assumption.
Qed.

Lemma get_node_raw_stable : forall c i, WFc c -> ~ def_or_empty (raw c i) -> get_node c i = raw c i.
Proof.
  intros c i H Hn. rewrite get_node_raw by (apply WFc_chain_ok; exact H).
  destruct (Nat.eq_dec (resolve c i) i) as [E|E]; [rewrite E; reflexivity|].
  exfalso. apply Hn. apply resolve_moved; assumption.
Qed.

(* the same for the call nodes as they are physically stored in the layers *)
Theorem redirect_sound_raw : forall gm ops q d i f a dn,
  run gm ops root0 = q ++ d ->
  raw d i = NCall (FU f) a dn ->
  get_node d i = NCall (FU f) a dn /\
  exists h, get_head d (FU f, length a) = Some h /\ resolve d dn = h /\ get_node d dn = get_node d h /\
            forall fuel, map (render_clause fuel d) (define_children (get_node d dn)) = abs fuel d (FU f, length a).
Proof.
  intros gm ops q d i f a dn E Hn.
  assert (H : WFc d).
  { apply (WFc_suffix q). rewrite <- E. apply reachable_wf. }
  assert (Hg : get_node d i = NCall (FU f) a dn).
  { rewrite get_node_raw_stable; [exact Hn|exact H|]. rewrite Hn.
    intros [Hx|[f0 [a0 [ch Hx]]]]; discriminate Hx. }
  split; [exact Hg|]. apply (redirect_sound gm ops q d i f a dn E Hg).
Qed.

Theorem call_resolves_reachable : forall gm ops i, call_resolves (run gm ops root0) i = true.
Proof.
  intros gm ops i. unfold call_resolves.
  destruct (get_node (run gm ops root0) i) as [| | | |f a dn| | | | | |] eqn:E; try reflexivity.
  destruct f as [f|k]; [|reflexivity].
  destruct (redirect_sound gm ops [] _ i f a dn eq_refl E) as (h & H1 & _ & H3 & _).
  rewrite H1, H3. destruct (list_eq_dec Nat.eq_dec _ _); [reflexivity|contradiction].
Qed.

(* calls of the parent, seen through the extension, see the definition of the union program *)
Theorem calls_see_union : forall gm P cs i f a dn fuel,
  Forall (fun st => sdepth st < fuel) (P ++ cs) ->
  get_node (adds gm cs (extend (adds gm P root0))) i = NCall (FU f) a dn ->
  map (render_clause fuel (adds gm cs (extend (adds gm P root0))))
      (define_children (get_node (adds gm cs (extend (adds gm P root0))) dn))
  = spec (P ++ cs) (FU f, length a).
Proof.
  intros gm P cs i f a dn fuel Hf Hn.
  set (c := adds gm cs (extend (adds gm P root0))) in *.
  assert (H : WFc c).
  { unfold c. destruct (adds_WFc gm P root0 ltac:(discriminate) WFc_root0) as [H1 H2].
    apply (adds_WFc gm cs (extend (adds gm P root0))); [discriminate|]. apply WFc_extend; assumption. }
  destruct (redirect_sound_wf c i f a dn H Hn) as (h & _ & _ & _ & _ & H5).
  rewrite H5. unfold c. apply extend_union_spec; [eexists; reflexivity|exact Hf].
Qed.

(* ------------------------------------------------------------------ sizes only grow *)
Lemma size_add_head : forall p l s cr, size (l :: p) <= size (fst (add_head p l s cr) :: p).
Proof.
  intros. unfold add_head. destruct (get_head (l :: p) s); [destruct (cr && (n <? size p))|];
    simpl; rewrite ?app_length; simpl; lia.
Qed.

Lemma size_add_define : forall p l s c, size (l :: p) <= size (add_define p l s c :: p).
Proof.
  intros. unfold add_define. pose proof (size_add_head p l s true) as H.
  destruct (add_head p l s true) as [l1 di]. simpl fst in H.
  destruct (get_node (l1 :: p) di); rewrite ?size_set; try exact H; simpl in *; lia.
Qed.

Lemma size_add_clause_node : forall p l f a pr b vc g,
  size (l :: p) < size (add_clause_node p l f a pr b vc g :: p).
Proof.
  intros. unfold add_clause_node.
  change (app_node p l (NClause f a pr b vc g)) with (fst (app_node p l (NClause f a pr b vc g)), size (l :: p)).
  cbv beta iota.
  pose proof (size_add_define p (fst (app_node p l (NClause f a pr b vc g))) (f, length a) (size (l :: p))) as H.
  rewrite size_app in H. lia.
Qed.

Lemma size_compile_body : forall b p l, size (l :: p) < size (fst (compile_body p l b) :: p).
Proof.
  induction b as [f args|f args id|a IHa b IHb|a IHa b IHb|a IHa]; intros p l; simpl.
  - pose proof (size_add_head p l (FU f, length args) false) as H.
    destruct (add_head p l (FU f, length args) false) as [l1 dn]. simpl fst in H.
    unfold app_node. simpl. rewrite app_length. simpl in *. lia.
  - rewrite app_length. simpl. lia.
  - pose proof (IHa p l) as Ha. destruct (compile_body p l a) as [l1 i1]. simpl fst in Ha.
    pose proof (IHb p l1) as Hb. destruct (compile_body p l1 b) as [l2 i2]. simpl fst in Hb.
    unfold app_node. simpl. rewrite app_length. simpl in *. lia.
  - pose proof (IHa p l) as Ha. destruct (compile_body p l a) as [l1 i1]. simpl fst in Ha.
    pose proof (IHb p l1) as Hb. destruct (compile_body p l1 b) as [l2 i2]. simpl fst in Hb.
    unfold app_node. simpl. rewrite app_length. simpl in *. lia.
  - pose proof (IHa p l) as Ha. destruct (compile_body p l a) as [l1 i1]. simpl fst in Ha.
    unfold app_node. simpl. rewrite app_length. simpl in *. lia.
Qed.

Lemma size_ad_head_step : forall p k g vc bh cb l i h,
  size (l :: p) <= size (fst (ad_head_step p k g vc bh cb (l, i) h) :: p).
Proof.
  intros p k g vc bh cb l i [[f a] pr]. unfold ad_head_step.
  pose proof (size_app p l (NChoice g i (t_app f a) (var_args vc) (Some pr))) as S1.
  destruct (app_node p l (NChoice g i (t_app f a) (var_args vc) (Some pr))) as [l1 cn]. simpl fst in S1.
  pose proof (size_app p l1 (NCallChoice g i (t_app f a) (var_args vc) cn)) as S2.
  destruct (app_node p l1 (NCallChoice g i (t_app f a) (var_args vc) cn)) as [l2 cc]. simpl fst in S2.
  pose proof (size_app p l2 (NCall (FBody k) bh cb)) as S3.
  destruct (app_node p l2 (NCall (FBody k) bh cb)) as [l3 bc]. simpl fst in S3.
  pose proof (size_app p l3 (NConj bc cc)) as S4.
  destruct (app_node p l3 (NConj bc cc)) as [l4 cj]. simpl fst in S4.
  pose proof (size_add_clause_node p l4 (FU f) a (Some pr) cj vc (Some g)) as S5.
  cbn [fst]. lia.
Qed.

Lemma size_ad_fold : forall p k g vc bh cb heads l i,
  size (l :: p) <= size (fst (fold_left (ad_head_step p k g vc bh cb) heads (l, i)) :: p).
Proof.
  intros p k g vc bh cb heads. induction heads as [|h t IH]; intros l i; cbn [fold_left]; [simpl; lia|].
  pose proof (size_ad_head_step p k g vc bh cb l i h) as H.
  destruct (ad_head_step p k g vc bh cb (l, i) h) as [l' i']. simpl fst in H.
  specialize (IH l' i'). lia.
Qed.

Lemma size_add_ad : forall gm p l heads b vc, size (l :: p) < size (add_ad gm p l heads b vc :: p).
Proof.
  intros. unfold add_ad.
  pose proof (size_compile_body b p l) as H1. destruct (compile_body p l b) as [l1 bn]. simpl fst in H1.
  match goal with |- context [add_head p ?l2 ?s true] =>
    pose proof (size_add_head p l2 s true) as H3;
    assert (H2 : size (l1 :: p) < size (l2 :: p)) by apply size_add_clause_node;
    destruct (add_head p l2 s true) as [l3 cb] end.
  simpl fst in H3.
  match goal with |- context [fold_left (ad_head_step p ?k ?g ?vc' ?bh ?cb') heads (l3, 0)] =>
    pose proof (size_ad_fold p k g vc' bh cb' heads l3 0) as H4 end.
  lia.
Qed.

Lemma size_add_stmt : forall gm p l st, size (l :: p) <= size (add_stmt gm p l st :: p).
Proof.
  intros gm p l [f a pr|f a b vc|heads b vc|f ar]; unfold add_stmt.
  - pose proof (size_app p l (NFact (FU f) a pr)) as S1.
    destruct (app_node p l (NFact (FU f) a pr)) as [l1 c]. simpl fst in S1.
    pose proof (size_add_define p l1 (FU f, length a) c) as H. cbn [size] in *. lia.
  - pose proof (size_compile_body b p l) as H1. destruct (compile_body p l b) as [l1 bn]. simpl fst in H1.
    pose proof (size_add_clause_node p l1 (FU f) a None bn vc None). cbn [size] in *. lia.
  - pose proof (size_add_ad gm p l heads b vc). cbn [size] in *. lia.
  - apply size_add_head.
Qed.

(* ------------------------------------------------------------------ group ids along a history *)
Definition is_ad (st : stmt) : bool := match st with SAD _ _ _ => true | _ => false end.

Definition gid_at (gm : gmode) (c : chain) : nat := match c with l :: p => gsel gm p l | [] => 0 end.

(* the statements of a history (extends dropped), each with the group id _compile would give it *)
Fixpoint tagsz (gm : gmode) (ops : list op) (c : chain) : list (stmt * nat) :=
  match ops with
  | [] => []
  | OAdd st :: ops' => (st, gid_at gm c) :: tagsz gm ops' (step gm c (OAdd st))
  | OExtend :: ops' => tagsz gm ops' (step gm c OExtend)
  end.

Fixpoint stmts_of (ops : list op) : list stmt :=
  match ops with [] => [] | OAdd st :: t => st :: stmts_of t | OExtend :: t => stmts_of t end.

Lemma tagsz_stmts : forall gm ops c, map fst (tagsz gm ops c) = stmts_of ops.
Proof. intros gm ops. induction ops as [|[st|] t IH]; intros c; simpl; [reflexivity|rewrite IH; reflexivity|apply IH]. Qed.

Definition specGs (tz : list (stmt * nat)) (s : sig) : list (option (nat * nat * nat)) :=
  flat_map (fun x => specG (snd x) (fst x) s) tz.

Definition ad_tags (tz : list (stmt * nat)) : list nat := map snd (filter (fun x => is_ad (fst x)) tz).

Lemma gid_global : forall c, gid_at GGlobal c = size c.
Proof. intros [|l p]; reflexivity. Qed.

Lemma size_step : forall gm c o, size c <= size (step gm c o).
Proof.
  intros gm [|l p] [st|]; simpl; try lia. pose proof (size_add_stmt gm p l st). simpl in H. exact H.
Qed.

Lemma tagsz_ge : forall ops c, Forall (fun x => size c <= snd x) (tagsz GGlobal ops c).
Proof.
  induction ops as [|[st|] t IH]; intros c; simpl.
  - constructor.
  - constructor; [rewrite gid_global; simpl; lia|].
    eapply Forall_impl; [|apply IH]. intros x Hx. pose proof (size_step GGlobal c (OAdd st)). simpl in *. lia.
  - eapply Forall_impl; [|apply IH]. intros x Hx. pose proof (size_step GGlobal c OExtend). simpl in *. lia.
Qed.

(* freshness: under the global rule no two AD statements of a history - in the same database or in
   different databases of the chain - get the same group id *)
Theorem ad_tags_fresh : forall ops c, c <> [] -> NoDup (ad_tags (tagsz GGlobal ops c)).
Proof.
  induction ops as [|[st|] t IH]; intros c Hne; simpl.
  - constructor.
  - unfold ad_tags. simpl. destruct (is_ad st) eqn:Ea.
    + simpl. constructor.
      * intros Hin. apply in_map_iff in Hin. destruct Hin as [[st' z] [Hz Hin]]. simpl in Hz. subst z.
        apply filter_In in Hin. destruct Hin as [Hin _].
        pose proof (tagsz_ge t (step GGlobal c (OAdd st))) as HF. rewrite Forall_forall in HF.
        specialize (HF _ Hin). simpl in HF. rewrite gid_global in HF.
        destruct c as [|l p]; [contradiction|]. destruct st; try discriminate Ea.
        simpl in HF. pose proof (size_add_ad GGlobal p l heads b vc). simpl in *. lia.
      * apply IH. destruct c; [contradiction|discriminate].
    + apply IH. destruct c; [contradiction|discriminate].
  - apply IH. discriminate.
Qed.

Lemma cl_groups_ext : forall c c', (forall i, get_node c' i = get_node c i) -> forall i, cl_groups c' i = cl_groups c i.
Proof. intros c c' H i. unfold cl_groups. rewrite !H. destruct (get_node c i); try reflexivity.
  destruct group; [|reflexivity]. rewrite H. destruct (get_node c child); try reflexivity.
  rewrite H. destruct (get_node c b); try reflexivity. rewrite H. reflexivity.
Qed.

Lemma grp_extend : forall c s, chain_ok c -> grp (extend c) s = grp c s.
Proof.
  intros c s H. unfold grp, defs. rewrite get_head_extend. destruct (get_head c s); [|reflexivity].
  rewrite get_node_extend by exact H. apply map_ext. intros i. apply cl_groups_ext.
  intros j. apply get_node_extend. exact H.
Qed.

(* every history (adds and nested extends): definition lists and their group ids are the source-level ones *)
Lemma run_abs_grp : forall gm ops c, c <> [] -> WFc c ->
  forall s, is_user s ->
  (forall fuel, abs fuel (run gm ops c) s = abs fuel c s ++ specFs fuel (stmts_of ops) s) /\
  grp (run gm ops c) s = grp c s ++ specGs (tagsz gm ops c) s.
Proof.
  intros gm ops. induction ops as [|[st|] t IH]; intros c Hne H s Hu.
  - simpl. split; [intros fuel|]; rewrite app_nil_r; reflexivity.
  - destruct c as [|l p]; [contradiction|]. destruct H as [I H].
    destruct (add_stmt_spec gm p l st I) as (I1 & _ & Habs1 & Hgrp1).
    assert (H1 : WFc (add_stmt gm p l st :: p)) by (split; assumption).
    destruct (IH (add_stmt gm p l st :: p) ltac:(discriminate) H1 s Hu) as [Ha Hg].
    change (run gm (OAdd st :: t) (l :: p)) with (run gm t (add_stmt gm p l st :: p)).
    split.
    + intros fuel. rewrite Ha, (Habs1 fuel s Hu). simpl. rewrite <- app_assoc. reflexivity.
    + rewrite Hg, (Hgrp1 s Hu). simpl. unfold specGs at 2. simpl. rewrite <- app_assoc. reflexivity.
  - change (run gm (OExtend :: t) c) with (run gm t (extend c)).
    destruct (IH (extend c) ltac:(discriminate) (WFc_extend c Hne H) s Hu) as [Ha Hg].
    split.
    + intros fuel. rewrite Ha. rewrite abs_extend by (apply WFc_chain_ok; exact H). reflexivity.
    + rewrite Hg. rewrite grp_extend by (apply WFc_chain_ok; exact H). reflexivity.
Qed.

Lemma grp_root0 : forall s, grp root0 s = [].
Proof. reflexivity. Qed.

Theorem history_abs_g : forall gm ops fuel s, is_user s ->
  abs_g fuel (run gm ops root0) s
  = combine (specFs fuel (stmts_of ops) s) (specGs (tagsz gm ops root0) s).
Proof.
  intros gm ops fuel s Hu. rewrite abs_g_combine.
  destruct (run_abs_grp gm ops root0 ltac:(discriminate) WFc_root0 s Hu) as [Ha Hg].
  rewrite Ha, Hg. reflexivity.
Qed.

Theorem history_groups : forall gm ops s, is_user s ->
  grp (run gm ops root0) s = specGs (tagsz gm ops root0) s.
Proof.
  intros gm ops s Hu.
  destruct (run_abs_grp gm ops root0 ltac:(discriminate) WFc_root0 s Hu) as [_ Hg]. exact Hg.
Qed.

Lemma stmts_of_adds : forall ss, stmts_of (map OAdd ss) = ss.
Proof. induction ss; simpl; congruence. Qed.

Lemma stmts_of_app : forall a b, stmts_of (a ++ b) = stmts_of a ++ stmts_of b.
Proof. induction a as [|[st|] a IH]; intros b; simpl; [reflexivity|rewrite IH; reflexivity|apply IH]. Qed.

(* extend-then-add and prepare-the-union realise the SAME source-level partition of the AD
   alternatives into groups: both are the statement list P ++ cs tagged with one group id per
   statement, and in both the ids of different AD statements differ *)
Theorem extend_union_groups : forall P cs,
  exists tz1 tz2 : list (stmt * nat),
    map fst tz1 = P ++ cs /\ map fst tz2 = P ++ cs /\
    NoDup (ad_tags tz1) /\ NoDup (ad_tags tz2) /\
    forall fuel s, is_user s ->
      abs_g fuel (adds GGlobal cs (extend (adds GGlobal P root0))) s
        = combine (specFs fuel (P ++ cs) s) (specGs tz1 s) /\
      abs_g fuel (adds GGlobal (P ++ cs) root0) s
        = combine (specFs fuel (P ++ cs) s) (specGs tz2 s).
Proof.
  intros P cs.
  set (ops1 := map OAdd P ++ OExtend :: map OAdd cs).
  set (ops2 := map OAdd (P ++ cs)).
  assert (E1 : adds GGlobal cs (extend (adds GGlobal P root0)) = run GGlobal ops1 root0).
  { unfold ops1, adds, run. rewrite fold_left_app. reflexivity. }
  assert (S1 : stmts_of ops1 = P ++ cs).
  { unfold ops1. rewrite stmts_of_app. simpl. rewrite !stmts_of_adds. reflexivity. }
  assert (S2 : stmts_of ops2 = P ++ cs) by (apply stmts_of_adds).
  exists (tagsz GGlobal ops1 root0), (tagsz GGlobal ops2 root0).
  split; [rewrite tagsz_stmts; exact S1|]. split; [rewrite tagsz_stmts; exact S2|].
  split; [apply ad_tags_fresh; discriminate|]. split; [apply ad_tags_fresh; discriminate|].
  intros fuel s Hu. split.
  - rewrite E1, history_abs_g by exact Hu. rewrite S1. reflexivity.
  - unfold adds. fold ops2. rewrite history_abs_g by exact Hu. rewrite S2. reflexivity.
Qed.

(* ------------------------------------------------------------------ ... i.e. equal up to an injective renaming of the group ids *)
Definition ren (rho : nat -> nat) (x : option (nat * nat * nat)) : option (nat * nat * nat) :=
  match x with Some (a, b, c) => Some (rho a, rho b, rho c) | None => None end.

Definition ren_clause (rho : nat -> nat) (x : rclause * option (nat * nat * nat)) := (fst x, ren rho (snd x)).

Lemma specg_heads_ren : forall rho heads g1 g2 s, rho g2 = g1 ->
  specg_heads heads g1 s = map (ren rho) (specg_heads heads g2 s).
Proof.
  intros rho heads g1 g2 s E. induction heads as [|[[f a] pr] t IH]; [reflexivity|]. simpl.
  rewrite map_app, <- IH. destruct (sig_eqb s (FU f, length a)); simpl; rewrite ?E; reflexivity.
Qed.

Lemma specG_ren : forall rho st g1 g2 s, (is_ad st = true -> rho g2 = g1) ->
  specG g1 st s = map (ren rho) (specG g2 st s).
Proof.
  intros rho [f a pr|f a b vc|heads b vc|f ar] g1 g2 s H; simpl.
  - destruct (sig_eqb s (FU f, length a)); reflexivity.
  - destruct (sig_eqb s (FU f, length a)); reflexivity.
  - apply specg_heads_ren. apply H. reflexivity.
  - reflexivity.
Qed.

Lemma specGs_ren : forall rho tz1 tz2, map fst tz1 = map fst tz2 ->
  (forall g2 g1, In (g2, g1) (combine (ad_tags tz2) (ad_tags tz1)) -> rho g2 = g1) ->
  forall s, specGs tz1 s = map (ren rho) (specGs tz2 s).
Proof.
  intros rho tz1. induction tz1 as [|[st g1] t1 IH]; intros [|[st' g2] t2] E H s; try discriminate E; [reflexivity|].
  simpl in E. inversion E as [[E1 E2]]. subst st'.
  unfold specGs. simpl. rewrite map_app. f_equal.
  - apply specG_ren. intros Ha. apply H. unfold ad_tags. simpl. rewrite Ha. left. reflexivity.
  - apply IH; [exact E2|]. intros a b Hin. apply H. unfold ad_tags in *. simpl.
    destruct (is_ad st); [right|]; exact Hin.
Qed.

Lemma lookup_combine : forall a b k v, NoDup a -> In (k, v) (combine a b) -> redir_get (combine a b) k = v.
Proof.
  induction a as [|x a IH]; intros [|y b] k v Hn Hin; try destruct Hin. 
  - inversion H; subst. simpl. rewrite Nat.eqb_refl. reflexivity.
  - simpl. inversion Hn; subst. destruct (Nat.eqb_spec k x) as [->|Hne].
    + exfalso. apply H2. eapply in_combine_l; eauto.
    + apply IH; assumption.
Qed.

Lemma lookup_in : forall a b k, In k a -> length a <= length b -> In (redir_get (combine a b) k) b.
Proof.
  induction a as [|x a IH]; intros [|y b] k Hin Hl; simpl in *; try contradiction; try lia.
  destruct (Nat.eqb_spec k x); [left; reflexivity|]. right. destruct Hin as [->|Hin]; [contradiction|].
  apply IH; [exact Hin|lia].
Qed.

Lemma lookup_inj : forall a b x y, NoDup b -> length a = length b -> In x a -> In y a ->
  redir_get (combine a b) x = redir_get (combine a b) y -> x = y.
Proof.
  induction a as [|x0 a IH]; intros [|y0 b] x y Hb Hl Hx Hy E; simpl in *; try contradiction; try discriminate.
  inversion Hb; subst. injection Hl as Hl.
  destruct (Nat.eqb_spec x x0) as [->|Nx]; destruct (Nat.eqb_spec y x0) as [->|Ny]; try reflexivity.
  - exfalso. destruct Hy as [Hy|Hy]; [congruence|]. apply H1. rewrite E. apply lookup_in; [exact Hy|lia].
  - exfalso. destruct Hx as [Hx|Hx]; [congruence|]. apply H1. rewrite <- E. apply lookup_in; [exact Hx|lia].
  - destruct Hx as [Hx|Hx]; [congruence|]. destruct Hy as [Hy|Hy]; [congruence|]. eapply IH; eauto.
Qed.

Lemma ad_tags_length : forall tz1 tz2, map fst tz1 = map fst tz2 -> length (ad_tags tz1) = length (ad_tags tz2).
Proof.
  induction tz1 as [|[st g1] t1 IH]; intros [|[st' g2] t2] E; try discriminate E; [reflexivity|].
  simpl in E. inversion E as [[E1 E2]]. subst st'. unfold ad_tags in *. simpl.
  destruct (is_ad st); simpl; rewrite (IH t2 E2); reflexivity.
Qed.

Lemma combine_map_r : forall A B C (f : B -> C) (x : list A) (y : list B),
  combine x (map f y) = map (fun p => (fst p, f (snd p))) (combine x y).
Proof. induction x; intros [|b y]; simpl; try reflexivity. rewrite IHx. reflexivity. Qed.

(* `rho` renames the group ids the union program uses (ad_tags of its history, see history_groups) into
   those of the extension, injectively: the two partitions of the AD alternatives coincide *)
Theorem extend_union_groups_renaming : forall P cs,
  exists rho : nat -> nat,
    (forall fuel s, is_user s ->
       abs_g fuel (adds GGlobal cs (extend (adds GGlobal P root0))) s
       = map (ren_clause rho) (abs_g fuel (adds GGlobal (P ++ cs) root0) s)) /\
    (forall x y, In x (ad_tags (tagsz GGlobal (map OAdd (P ++ cs)) root0)) ->
                 In y (ad_tags (tagsz GGlobal (map OAdd (P ++ cs)) root0)) -> rho x = rho y -> x = y).
Proof.
  intros P cs.
  set (ops1 := map OAdd P ++ OExtend :: map OAdd cs).
  set (ops2 := map OAdd (P ++ cs)).
  set (tz1 := tagsz GGlobal ops1 root0). set (tz2 := tagsz GGlobal ops2 root0).
  assert (E1 : adds GGlobal cs (extend (adds GGlobal P root0)) = run GGlobal ops1 root0).
  { unfold ops1, adds, run. rewrite fold_left_app. reflexivity. }
  assert (S1 : stmts_of ops1 = P ++ cs).
  { unfold ops1. rewrite stmts_of_app. simpl. rewrite !stmts_of_adds. reflexivity. }
  assert (S2 : stmts_of ops2 = P ++ cs) by (apply stmts_of_adds).
  assert (Ef : map fst tz1 = map fst tz2).
  { unfold tz1, tz2. rewrite !tagsz_stmts, S1, S2. reflexivity. }
  assert (N1 : NoDup (ad_tags tz1)) by (apply ad_tags_fresh; discriminate).
  assert (N2 : NoDup (ad_tags tz2)) by (apply ad_tags_fresh; discriminate).
  exists (redir_get (combine (ad_tags tz2) (ad_tags tz1))). split.
  - intros fuel s Hu. rewrite E1. unfold adds. fold ops2.
    rewrite !history_abs_g by exact Hu. rewrite S1, S2. fold tz1 tz2.
    rewrite (specGs_ren (redir_get (combine (ad_tags tz2) (ad_tags tz1))) tz1 tz2 Ef).
    + apply combine_map_r.
    + intros g2 g1 Hin. apply lookup_combine; assumption.
  - intros x y Hx Hy E. eapply lookup_inj; [exact N1| |exact Hx|exact Hy|exact E].
    symmetry. apply ad_tags_length. exact Ef.
Qed.
