(* History-level theorems: every statement appends exactly its source-level contribution to the
   definition list of each user predicate, through any chain of extensions. *)
From Coq Require Import List Arith Bool NArith Lia.
From PL.C29 Require Import ModelClauseDB ProofsBase ProofsInv ProofsStmt ProofsAD.
Import ListNotations.

Fixpoint WFc (c : chain) : Prop :=
  match c with [] => True | l :: p => Inv p l /\ WFc p end.

Lemma WFc_chain_ok : forall c, WFc c -> chain_ok c.
Proof.
  intros [|l p] H; [exact Logic.I|]. destruct H as [I H]. apply (I_rok _ _ I).
Qed.

Lemma add_stmt_spec : forall gm p l st, Inv p l ->
  st_post p l (add_stmt gm p l st) (fun fuel s => specF fuel st s) (fun s => specG (gsel gm p l) st s).
Proof.
  intros gm p l st I. destruct st as [f a pr|f a b vc|heads b vc|f ar].
  - apply (add_stmt_noad_spec gm p l (SFact f a pr) I Logic.I).
  - apply (add_stmt_noad_spec gm p l (SClause f a b vc) I Logic.I).
  - apply add_ad_spec. exact I.
  - apply (add_stmt_noad_spec gm p l (SDeclare f ar) I Logic.I).
Qed.

Definition specFs (fuel : nat) (ss : list stmt) (s : sig) : list rclause :=
  flat_map (fun st => specF fuel st s) ss.

Lemma adds_cons : forall gm st ss l p, adds gm (st :: ss) (l :: p) = adds gm ss (add_stmt gm p l st :: p).
Proof. reflexivity. Qed.

Lemma adds_spec : forall gm ss p l, Inv p l ->
  exists l', adds gm ss (l :: p) = l' :: p /\ Inv p l' /\
  forall fuel s, is_user s -> abs fuel (l' :: p) s = abs fuel (l :: p) s ++ specFs fuel ss s.
Proof.
  intros gm ss. induction ss as [|st ss IH]; intros p l I.
  - exists l. splits; [reflexivity|exact I|]. intros. simpl. rewrite app_nil_r. reflexivity.
  - rewrite adds_cons. destruct (add_stmt_spec gm p l st I) as (I1 & _ & Habs1 & _).
    destruct (IH p _ I1) as (l' & E & I' & Habs').
    exists l'. splits; [exact E|exact I'|]. intros fuel s Hu.
    rewrite (Habs' fuel s Hu), (Habs1 fuel s Hu). simpl. rewrite <- app_assoc. reflexivity.
Qed.

Lemma Inv_root : Inv [] empty_layer.
Proof.
  constructor.
  - split; [intros k v []|exact Logic.I].
  - intros s n H. discriminate H.
  - intros s n H. discriminate H.
  - intros s1 s2 n H. discriminate H.
  - intros s n v H. discriminate H.
  - intros i Hi. simpl in Hi. lia.
  - intros k a n H. discriminate H.
  - reflexivity.
  - intros s n H. discriminate H.
  - intros i Hi. simpl in Hi. lia.
  - intros k v [].
Qed.

Lemma WFc_root0 : WFc root0.
Proof. split; [apply Inv_root|exact Logic.I]. Qed.

Lemma ok_node_ext : forall c c' n, size c' = size c -> (forall i, get_node c' i = get_node c i) ->
  ok_node c n -> ok_node c' n.
Proof.
  intros c c' n Hs Hg. apply ok_node_frm. intros j [Hl Hf]. split; [rewrite Hs; exact Hl|rewrite Hg; exact Hf].
Qed.

Lemma Inv_extend : forall p l, Inv p l -> chain_ok (l :: p) -> Inv (l :: p) empty_layer.
Proof.
  intros p l I Hc.
  assert (Hg : forall i, get_node (empty_layer :: l :: p) i = get_node (l :: p) i) by (intros; apply (get_node_extend (l :: p)); exact Hc).
  assert (Hs : size (empty_layer :: l :: p) = size (l :: p)) by (apply (size_extend (l :: p))).
  assert (Hh : forall s, get_head (empty_layer :: l :: p) s = get_head (l :: p) s) by reflexivity.
  assert (Hr : forall i, resolve (empty_layer :: l :: p) i = resolve (l :: p) i) by (intros; apply (resolve_extend (l :: p)); exact Hc).
  destruct I as [rok h0 h1 h3 w3 cl fresh err hres hcall keys].
  constructor.
  - split; [intros k v []|exact Hc].
  - intros s n Hn. rewrite Hh in Hn. rewrite Hs. eapply h0; eauto.
  - intros s n Hn. rewrite Hh in Hn. unfold head_shape. rewrite Hg. apply h1. exact Hn.
  - intros s1 s2 n. rewrite !Hh. apply h3.
  - intros s n v _ [].
  - intros i Hi. rewrite Hs in Hi. rewrite Hg. eapply ok_node_ext; [exact Hs|exact Hg|]. apply cl. exact Hi.
  - intros k a n Hn. rewrite Hh in Hn. rewrite Hs. eapply fresh; eauto.
  - reflexivity.
  - intros s n Hn. rewrite Hh in Hn. rewrite Hr. apply (hres _ _ Hn).
  - intros i Hi. rewrite Hs in Hi. rewrite Hg. eapply call_ok_ext; [exact Hh|exact Hr|]. apply hcall. exact Hi.
  - intros k v [].
Qed.

Lemma WFc_extend : forall c, c <> [] -> WFc c -> WFc (extend c).
Proof.
  intros [|l p] Hne H; [contradiction|]. unfold extend. split; [|exact H].
  destruct H as [I H]. apply Inv_extend; [exact I|]. apply WFc_chain_ok. split; assumption.
Qed.

Lemma WFc_step : forall gm o c, c <> [] -> WFc c -> WFc (step gm c o) /\ step gm c o <> [].
Proof.
  intros gm o [|l p] Hne H; [contradiction|]. destruct o as [st|].
  - simpl. destruct H as [I H]. split; [|discriminate]. split; [|exact H].
    apply (add_stmt_spec gm p l st I).
  - split; [apply (WFc_extend (l :: p)); assumption|discriminate].
Qed.

Lemma WFc_run : forall gm ops c, c <> [] -> WFc c -> WFc (run gm ops c) /\ run gm ops c <> [].
Proof.
  intros gm ops. induction ops as [|o ops IH]; intros c Hne H; [split; assumption|].
  unfold run. simpl. destruct (WFc_step gm o c Hne H) as [H1 H2]. apply IH; assumption.
Qed.

Lemma WFc_no_err : forall c, WFc c -> any_err c = false.
Proof.
  induction c as [|l p IH]; intros H; [reflexivity|]. destruct H as [I H]. simpl.
  rewrite (I_err _ _ I). simpl. apply IH. exact H.
Qed.

(* ------------------------------------------------------------------ the theorems *)
Theorem adds_abs : forall gm c ss fuel s, c <> [] -> WFc c -> is_user s ->
  abs fuel (adds gm ss c) s = abs fuel c s ++ specFs fuel ss s.
Proof.
  intros gm c ss fuel s Hne H Hu. destruct c as [|l p]; [contradiction|]. destruct H as [I H].
  destruct (adds_spec gm ss p l I) as (l' & E & _ & Habs). rewrite E. apply Habs. exact Hu.
Qed.

Theorem extend_transparent : forall gm d ss fuel s, d <> [] -> WFc d -> is_user s ->
  abs fuel (adds gm ss (extend d)) s = abs fuel (adds gm ss d) s.
Proof.
  intros gm d ss fuel s Hne H Hu.
  rewrite (adds_abs gm (extend d) ss fuel s); [|discriminate|apply WFc_extend; assumption|exact Hu].
  rewrite (adds_abs gm d ss fuel s Hne H Hu).
  rewrite abs_extend by (apply WFc_chain_ok; exact H). reflexivity.
Qed.

Lemma adds_app : forall gm a b c, adds gm (a ++ b) c = adds gm b (adds gm a c).
Proof. intros. unfold adds, run. rewrite map_app, fold_left_app. reflexivity. Qed.

Lemma adds_WFc : forall gm ss c, c <> [] -> WFc c -> WFc (adds gm ss c) /\ adds gm ss c <> [].
Proof. intros. unfold adds. apply WFc_run; assumption. Qed.

Theorem extend_union : forall gm P cs fuel s, is_user s ->
  abs fuel (adds gm cs (extend (adds gm P root0))) s = abs fuel (adds gm (P ++ cs) root0) s.
Proof.
  intros gm P cs fuel s Hu. rewrite adds_app.
  destruct (adds_WFc gm P root0 ltac:(discriminate) WFc_root0) as [H Hne].
  apply extend_transparent; assumption.
Qed.

Theorem prepare_abs : forall gm ss fuel s, is_user s -> abs fuel (adds gm ss root0) s = specFs fuel ss s.
Proof.
  intros gm ss fuel s Hu. rewrite (adds_abs gm root0 ss fuel s ltac:(discriminate) WFc_root0 Hu). reflexivity.
Qed.

Lemma specFs_enough : forall fuel ss s, Forall (fun st => sdepth st < fuel) ss -> specFs fuel ss s = spec ss s.
Proof.
  intros fuel ss s H. unfold specFs, spec. induction H as [|st ss Hst _ IH]; [reflexivity|].
  simpl. rewrite IH, (specF_enough fuel st s Hst). reflexivity.
Qed.

Theorem extend_union_spec : forall gm P cs fuel s, is_user s ->
  Forall (fun st => sdepth st < fuel) (P ++ cs) ->
  abs fuel (adds gm cs (extend (adds gm P root0))) s = spec (P ++ cs) s.
Proof.
  intros gm P cs fuel s Hu Hf. rewrite extend_union by exact Hu.
  rewrite prepare_abs by exact Hu. apply specFs_enough. exact Hf.
Qed.

Theorem history_no_parent_write : forall gm ops, any_err (run gm ops root0) = false.
Proof.
  intros gm ops. apply WFc_no_err. apply (WFc_run gm ops root0); [discriminate|apply WFc_root0].
Qed.

Theorem parent_abs_unchanged : forall gm ss d fuel s,
  abs fuel (parent_of (adds gm ss (extend d))) s = abs fuel d s.
Proof. intros. rewrite parent_isolated_adds. reflexivity. Qed.

Lemma reachable_wf : forall gm ops, WFc (run gm ops root0) /\ run gm ops root0 <> [].
Proof. intros gm ops. apply (WFc_run gm ops root0); [discriminate|exact WFc_root0]. Qed.

Lemma extend_view : forall c i s, chain_ok c ->
  get_node (extend c) i = get_node c i /\ get_head (extend c) s = get_head c s /\ size (extend c) = size c.
Proof. intros c i s H. repeat split; [apply get_node_extend; exact H|apply size_extend]. Qed.
