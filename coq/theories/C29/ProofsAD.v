(* Annotated disjunctions (_compile, AnnotatedDisjunction branch) and the history theorems. *)
From Coq Require Import List Arith Bool NArith Lia.
From PL.C29 Require Import ModelClauseDB ProofsBase ProofsInv ProofsStmt.
Import ListNotations.

Lemma get_node_app_old : forall p l n j, redir_ok p l -> j < size (l :: p) ->
  get_node (fst (app_node p l n) :: p) j = get_node (l :: p) j.
Proof.
  intros p l n j H Hj. rewrite get_node_app by exact H.
  destruct (Nat.eqb_spec j (size (l :: p))); [lia|reflexivity].
Qed.

(* what render yields on the body of an AD alternative, with limited fuel *)
Definition adbody (fuel : nat) (bh_tl : list term) (b : body) (i : nat) (h : term) (bargs : list term) (pr : N) : rbody :=
  match fuel with
  | O => RBad
  | S f => RAnd (match f with O => RBad | S f' => RBodyCall bh_tl (rspec f' b) end)
                (match f with O => RBad | S _ => RChoiceCall i h bargs (Some pr) end)
  end.

Fixpoint spec_adf (fuel : nat) (heads : list (N * list term * N)) (hl : term) (b : body) (vc i : nat) (s : sig)
  : list rclause :=
  match heads with
  | [] => []
  | (f, a, pr) :: t =>
      (if sig_eqb s (FU f, length a)
       then [RClause a (Some pr) (adbody fuel (hl :: var_args vc) b i (t_app f a) (var_args vc) pr) vc true]
       else []) ++ spec_adf fuel t hl b vc (S i) s
  end.

Definition specF (fuel : nat) (st : stmt) (s : sig) : list rclause :=
  match st with
  | SAD heads b vc =>
      let hl := match heads with [(f, a, _)] => t_app f a | _ => t_multi end in
      spec_adf fuel heads hl b vc 0 s
  | _ => specf fuel st s
  end.

Lemma adbody_enough : forall fuel tl b i h a pr, S (S (bdepth b)) < fuel ->
  adbody fuel tl b i h a pr = RAnd (RBodyCall tl (spec_body b)) (RChoiceCall i h a (Some pr)).
Proof.
  intros [|[|fuel]] tl b i h a pr H; try lia. simpl. rewrite rspec_enough by lia. reflexivity.
Qed.

Lemma spec_adf_enough : forall fuel heads hl b vc i s, S (S (bdepth b)) < fuel ->
  spec_adf fuel heads hl b vc i s = spec_ad_heads heads hl b vc i s.
Proof.
  intros fuel heads. induction heads as [|[[f a] pr] t IH]; intros hl b vc i s H; simpl; [reflexivity|].
  rewrite IH by exact H. rewrite adbody_enough by exact H. reflexivity.
Qed.

Definition sdepth (st : stmt) : nat :=
  match st with SClause _ _ b _ => bdepth b | SAD _ b _ => S (S (bdepth b)) | _ => 0 end.

Lemma specF_enough : forall fuel st s, sdepth st < fuel -> specF fuel st s = spec_stmt st s.
Proof.
  intros fuel [f a pr|f a b vc|heads b vc|f ar] s H; simpl in *; try reflexivity.
  - rewrite rspec_enough by exact H. reflexivity.
  - apply spec_adf_enough. exact H.
Qed.

(* the facts about the shared body clause that every alternative relies on *)
Record ADC (c : chain) (k cb bn vc : nat) (bh_args : list term) (b : body) : Prop := mkADC {
  A_cb : fr c cb;
  A_cbn : get_node c cb = NDefine (FBody k) (length bh_args) [k];
  A_k : get_node c k = NClause (FBody k) bh_args None bn vc None;
  A_kfr : fr c k;
  A_bn : fr c bn;
  A_r : forall fuel, render fuel c bn = rspec fuel b
}.

Lemma ADC_ext : forall c c' k cb bn vc bh b, closed c -> extA c c' -> frm c c' ->
  ADC c k cb bn vc bh b -> ADC c' k cb bn vc bh b.
Proof.
  intros c c' k cb bn vc bh b Hcl Hx Hf [H1 H2 H3 H4 H5 H6]. constructor; auto.
  - rewrite (Hx cb H1). exact H2.
  - rewrite (Hx k H4). exact H3.
  - intros fuel. rewrite (render_stable c c' Hcl Hx fuel bn H5). apply H6.
Qed.

Definition step_post (p : chain) (l l' : layer) (k cb bn vc : nat) (bh : list term) (b : body)
           (group i : nat) (f : N) (a : list term) (pr : N) : Prop :=
  Inv p l' /\ extA (l :: p) (l' :: p) /\ frm (l :: p) (l' :: p) /\ ADC (l' :: p) k cb bn vc bh b /\
  (forall fuel s, abs fuel (l' :: p) s = abs fuel (l :: p) s ++
     (if sig_eqb s (FU f, length a)
      then [RClause a (Some pr) (adbody fuel (tl bh) b i (t_app f a) (var_args vc) pr) vc true] else [])) /\
  (forall s, grp (l' :: p) s = grp (l :: p) s ++
     (if sig_eqb s (FU f, length a) then [Some (group, group, group)] else [])).

Lemma ad_head_step_spec : forall p l k group vc bh cb bn b i f a pr,
  Inv p l -> ADC (l :: p) k cb bn vc bh b ->
  step_post p l (fst (ad_head_step p k group vc bh cb (l, i) (f, a, pr))) k cb bn vc bh b group i f a pr
  /\ snd (ad_head_step p k group vc bh cb (l, i) (f, a, pr)) = S i.
Proof.
  intros p l k group vc bh cb bn b i f a pr I A.
  unfold ad_head_step.
  set (n1 := NChoice group i (t_app f a) (var_args vc) (Some pr)).
  pose proof (app_post p l n1 I Logic.I (fun _ _ _ H => ltac:(discriminate H)) eq_refl Logic.I) as H1. cbv zeta in H1.
  change (app_node p l n1) with (fst (app_node p l n1), size (l :: p)). cbv beta iota.
  set (l1 := fst (app_node p l n1)) in *. set (cn := size (l :: p)) in *.
  destruct H1 as (I1 & Hext1 & Hfrm1 & Hdefs1 & Hfr1 & Hg1 & Hsz1).
  set (n2 := NCallChoice group i (t_app f a) (var_args vc) cn).
  assert (Hok2 : ok_node (fst (app_node p l1 n2) :: p) n2).
  { change (fr (fst (app_node p l1 n2) :: p) cn). apply fr_app_old; [apply I1|exact Hfr1]. }
  pose proof (app_post p l1 n2 I1 Hok2 (fun _ _ _ H => ltac:(discriminate H)) eq_refl Logic.I) as H2. cbv zeta in H2.
  change (app_node p l1 n2) with (fst (app_node p l1 n2), size (l1 :: p)). cbv beta iota.
  set (l2 := fst (app_node p l1 n2)) in *. set (cc := size (l1 :: p)) in *.
  destruct H2 as (I2 & Hext2 & Hfrm2 & Hdefs2 & Hfr2 & Hg2 & Hsz2).
  set (n3 := NCall (FBody k) bh cb).
  assert (Hcb2 : fr (l2 :: p) cb) by (apply Hfrm2, Hfrm1; apply A).
  assert (Hok3 : ok_node (fst (app_node p l2 n3) :: p) n3).
  { change (fr (fst (app_node p l2 n3) :: p) cb). apply fr_app_old; [apply I2|exact Hcb2]. }
  pose proof (app_post p l2 n3 I2 Hok3 (fun _ _ _ H => ltac:(discriminate H)) eq_refl Logic.I) as H3. cbv zeta in H3.
  change (app_node p l2 n3) with (fst (app_node p l2 n3), size (l2 :: p)). cbv beta iota.
  set (l3 := fst (app_node p l2 n3)) in *. set (bc := size (l2 :: p)) in *.
  destruct H3 as (I3 & Hext3 & Hfrm3 & Hdefs3 & Hfr3 & Hg3 & Hsz3).
  set (n4 := NConj bc cc).
  assert (Hok4 : ok_node (fst (app_node p l3 n4) :: p) n4).
  { change (fr (fst (app_node p l3 n4) :: p) bc /\ fr (fst (app_node p l3 n4) :: p) cc).
    split; apply fr_app_old; try apply I3; [exact Hfr3|apply Hfrm3; exact Hfr2]. }
  pose proof (app_post p l3 n4 I3 Hok4 (fun _ _ _ H => ltac:(discriminate H)) eq_refl Logic.I) as H4. cbv zeta in H4.
  change (app_node p l3 n4) with (fst (app_node p l3 n4), size (l3 :: p)). cbv beta iota.
  set (l4 := fst (app_node p l3 n4)) in *. set (cj := size (l3 :: p)) in *.
  destruct H4 as (I4 & Hext4 & Hfrm4 & Hdefs4 & Hfr4 & Hg4 & Hsz4).
  (* node contents in state 4 *)
  assert (Hord : cn < cc /\ cc < bc /\ bc < cj /\ cc = size (l1 :: p) /\ bc = size (l2 :: p) /\ cj = size (l3 :: p)).
  { unfold cn, cc, bc, cj in *. lia. }
  assert (G4cn : get_node (l4 :: p) cn = n1).
  { unfold l4. rewrite get_node_app_old; [|apply I3|lia]. unfold l3. rewrite get_node_app_old; [|apply I2|lia].
    unfold l2. rewrite get_node_app_old; [|apply I1|lia]. exact Hg1. }
  assert (G4cc : get_node (l4 :: p) cc = n2).
  { unfold l4. rewrite get_node_app_old; [|apply I3|lia]. unfold l3. rewrite get_node_app_old; [|apply I2|lia]. exact Hg2. }
  assert (G4bc : get_node (l4 :: p) bc = n3).
  { unfold l4. rewrite get_node_app_old; [|apply I3|lia]. exact Hg3. }
  assert (Hx04 : extA (l :: p) (l4 :: p)).
  { apply extN_extA. eapply extN_trans; [apply Hext1|]. eapply extN_trans; [apply Hext2|].
    eapply extN_trans; [apply Hext3|apply Hext4]. }
  assert (Hf04 : frm (l :: p) (l4 :: p)).
  { eapply frm_trans; [exact Hfrm1|]. eapply frm_trans; [exact Hfrm2|]. eapply frm_trans; eauto. }
  assert (A4 : ADC (l4 :: p) k cb bn vc bh b) by (eapply ADC_ext; eauto; apply I).
  (* the clause node and its define *)
  unfold add_clause_node.
  set (n5 := NClause (FU f) a (Some pr) cj vc (Some group)).
  change (app_node p l4 n5) with (fst (app_node p l4 n5), size (l4 :: p)). cbv beta iota.
  assert (Hok5 : ok_node (fst (app_node p l4 n5) :: p) n5).
  { change (fr (fst (app_node p l4 n5) :: p) cj). apply fr_app_old; [apply I4|exact Hfr4]. }
  pose proof (app_then_define p l4 (FU f, length a) n5 I4 Hok5 (fun _ _ _ H => ltac:(discriminate H)) eq_refl Logic.I
                (fun k0 a0 H => ltac:(discriminate H)) (or_introl (ex_intro _ f eq_refl))) as H5.
  set (l5 := add_define p (fst (app_node p l4 n5)) (FU f, length a) (size (l4 :: p))) in *.
  destruct H5 as (I5 & Hx45 & Hfrm45 & Hd5 & Hdo5 & Hg5 & Hfr5 & Hsz5 & _).
  assert (A5 : ADC (l5 :: p) k cb bn vc bh b) by (eapply ADC_ext; eauto; apply I4).
  split; [|reflexivity]. simpl fst. unfold step_post; splits.
  - exact I5.
  - intros j Hj. rewrite Hx45; [apply Hx04; exact Hj|apply Hf04; exact Hj].
  - eapply frm_trans; eauto.
  - exact A5.
  - intros fuel s.
    assert (Hfr4cn : fr (l4 :: p) cn) by (apply Hfrm4, Hfrm3, Hfrm2; exact Hfr1).
    assert (Hfr4cc : fr (l4 :: p) cc) by (apply Hfrm4, Hfrm3; exact Hfr2).
    assert (Hfr4bc : fr (l4 :: p) bc) by (apply Hfrm4; exact Hfr3).
    assert (Hrc : render_clause fuel (l5 :: p) (size (l4 :: p)) =
                  RClause a (Some pr) (adbody fuel (tl bh) b i (t_app f a) (var_args vc) pr) vc true).
    { unfold render_clause. rewrite Hg5. unfold n5. f_equal.
      destruct fuel as [|fuel]; [reflexivity|]. cbn [render].
      rewrite (Hx45 cj Hfr4). rewrite Hg4. unfold n4. cbn [adbody]. f_equal.
      - destruct fuel as [|fuel]; [reflexivity|]. cbn [render].
        rewrite (Hx45 bc Hfr4bc), G4bc. unfold n3.
        rewrite (A_cbn _ _ _ _ _ _ _ A5). rewrite (A_k _ _ _ _ _ _ _ A5). rewrite (A_r _ _ _ _ _ _ _ A5). reflexivity.
      - destruct fuel as [|fuel]; [reflexivity|]. cbn [render].
        rewrite (Hx45 cc Hfr4cc), G4cc. unfold n2. rewrite (Hx45 cn Hfr4cn), G4cn. unfold n1. reflexivity. }
    rewrite (abs_after_define fuel p l4 l5 (FU f, length a) (size (l4 :: p)) _ I4 Hx45 Hd5 Hdo5 Hrc s).
    f_equal. rewrite !abs_defs. rewrite Hdefs4, Hdefs3, Hdefs2, Hdefs1.
    rewrite <- abs_defs. apply (abs_old_stable fuel p l (l4 :: p) s I Hx04).
  - intros s.
    assert (Hfr4cn : fr (l4 :: p) cn) by (apply Hfrm4, Hfrm3, Hfrm2; exact Hfr1).
    assert (Hfr4cc : fr (l4 :: p) cc) by (apply Hfrm4, Hfrm3; exact Hfr2).
    assert (Hgc : cl_groups (l5 :: p) (size (l4 :: p)) = Some (group, group, group)).
    { unfold cl_groups. rewrite Hg5. unfold n5.
      rewrite (Hx45 cj Hfr4), Hg4. unfold n4.
      rewrite (Hx45 cc Hfr4cc), G4cc. unfold n2. rewrite (Hx45 cn Hfr4cn), G4cn. unfold n1. reflexivity. }
    rewrite (grp_after_define p l4 l5 (FU f, length a) (size (l4 :: p)) _ I4 Hx45 Hd5 Hdo5 Hgc s).
    f_equal. unfold grp at 1. rewrite Hdefs4, Hdefs3, Hdefs2, Hdefs1.
    apply (grp_old_stable p l (l4 :: p) s I Hx04).
Qed.

Lemma ad_fold_spec : forall p k group vc bh cb bn b hl heads l i,
  tl bh = hl :: var_args vc ->
  Inv p l -> ADC (l :: p) k cb bn vc bh b ->
  Inv p (fst (fold_left (ad_head_step p k group vc bh cb) heads (l, i))) /\
  extA (l :: p) (fst (fold_left (ad_head_step p k group vc bh cb) heads (l, i)) :: p) /\
  (forall fuel s, abs fuel (fst (fold_left (ad_head_step p k group vc bh cb) heads (l, i)) :: p) s
                 = abs fuel (l :: p) s ++ spec_adf fuel heads hl b vc i s) /\
  (forall s, grp (fst (fold_left (ad_head_step p k group vc bh cb) heads (l, i)) :: p) s
             = grp (l :: p) s ++ specg_heads heads group s).
Proof.
  intros p k group vc bh cb bn b hl heads. induction heads as [|[[f a] pr] t IH]; intros l i Htl I A; cbn [fold_left spec_adf specg_heads].
  - simpl fst. splits; [exact I|intros j _; reflexivity| |].
    + intros fuel s. rewrite app_nil_r. reflexivity.
    + intros s. rewrite app_nil_r. reflexivity.
  - destruct (ad_head_step_spec p l k group vc bh cb bn b i f a pr I A) as [Hst Hsnd].
    destruct (ad_head_step p k group vc bh cb (l, i) (f, a, pr)) as [l' i'] eqn:E. simpl in Hst, Hsnd. subst i'.
    destruct Hst as (I' & Hx & Hfrm & A' & Habs & Hgrp).
    destruct (IH l' (S i) Htl I' A') as (I'' & Hx' & Habs' & Hgrp').
    splits.
    + exact I''.
    + intros j Hj. rewrite Hx'; [apply Hx; exact Hj|apply Hfrm; exact Hj].
    + intros fuel s. rewrite Habs', Habs, Htl, <- app_assoc. reflexivity.
    + intros s. rewrite Hgrp', Hgrp, <- app_assoc. reflexivity.
Qed.

Lemma add_ad_spec : forall gm p l heads b vc, Inv p l ->
  st_post p l (add_ad gm p l heads b vc) (fun fuel s => specF fuel (SAD heads b vc) s)
          (fun s => specG (gsel gm p l) (SAD heads b vc) s).
Proof.
  intros gm p l heads b vc I. unfold add_ad.
  set (group := match gm with GLocal => length (l_nodes l) | GGlobal => size p + length (l_nodes l) end).
  pose proof (compile_body_spec b p l I) as Hcb. destruct (compile_body p l b) as [l1 bn].
  destruct Hcb as (I1 & Hext1 & Hfrm1 & Hdefs1 & Hfr1 & Hr1 & Hsz1).
  set (hl := match heads with [(f, a, _)] => t_app f a | _ => t_multi end).
  set (bh := t_int group :: hl :: var_args vc).
  change (size p + length (l_nodes l1)) with (size (l1 :: p)).
  set (k := size (l1 :: p)).
  set (sb := (FBody k, length bh)).
  assert (Hnone : get_head (l1 :: p) sb = None).
  { destruct (get_head (l1 :: p) sb) eqn:E; [|reflexivity]. apply (I_fresh _ _ I1) in E. unfold k in E. lia. }
  unfold add_clause_node.
  set (n0 := NClause (FBody k) bh None bn vc None).
  change (app_node p l1 n0) with (fst (app_node p l1 n0), size (l1 :: p)). cbv beta iota.
  assert (Hok0 : ok_node (fst (app_node p l1 n0) :: p) n0).
  { change (fr (fst (app_node p l1 n0) :: p) bn). apply fr_app_old; [apply I1|exact Hfr1]. }
  pose proof (app_then_define p l1 sb n0 I1 Hok0 (fun _ _ _ H => ltac:(discriminate H)) eq_refl Logic.I) as H2.
  assert (Hfb : forall k0 a0, sb = (FBody k0, a0) -> k0 <= size (l1 :: p)).
  { intros k0 a0 E. inversion E. unfold k. lia. }
  specialize (H2 Hfb (or_intror Hnone)).
  fold k in H2. fold k.
  set (l2 := add_define p (fst (app_node p l1 n0)) sb k) in *.
  destruct H2 as (I2 & Hx12 & Hfrm12 & Hd2 & Hdo2 & Hg2 & Hfr2 & Hsz2 & Hnn2).
  destruct (Hnn2 Hnone) as [Hsz2' Hhead2].
  (* the second _add_head finds the define node just created *)
  pose proof (add_head_spec p l2 sb true I2) as H3.
  assert (Hfb2 : forall k0 a0, sb = (FBody k0, a0) -> k0 <= size (l2 :: p)).
  { intros k0 a0 E. inversion E. lia. }
  specialize (H3 Hfb2).
  match goal with |- context [add_head p ?x ?y true] => change (add_head p x y true) with (add_head p l2 sb true) end.
  destruct (add_head p l2 sb true) as [l3 cb].
  destruct H3 as (I3 & Hext3 & Hfrm3 & Hdefs3 & Hhead3 & Hoth3 & Hback3 & Hcb & Hcr3 & _ & Hsz3).
  destruct (Hcr3 eq_refl) as [Hcbp Hshape3].
  assert (Hdefsb : defs (l3 :: p) sb = [k]).
  { rewrite Hdefs3, Hd2. unfold defs. rewrite Hnone. reflexivity. }
  assert (Hcbn : get_node (l3 :: p) cb = NDefine (FBody k) (length bh) [k]).
  { destruct Hshape3 as [Hs|Hs].
    - exfalso. unfold defs in Hdefsb. rewrite Hhead3, Hs in Hdefsb. discriminate.
    - rewrite Hs. rewrite Hd2. unfold defs. rewrite Hnone. reflexivity. }
  assert (Hx23 : extA (l2 :: p) (l3 :: p)) by (apply extN_extA; apply Hext3).
  assert (A3 : ADC (l3 :: p) k cb bn vc bh b).
  { constructor.
    - split; [exact Hcb|]. rewrite Hcbn. reflexivity.
    - exact Hcbn.
    - rewrite (Hx23 k Hfr2). exact Hg2.
    - apply Hfrm3. exact Hfr2.
    - apply Hfrm3, Hfrm12. exact Hfr1.
    - intros fuel. rewrite <- Hr1.
      rewrite (render_stable (l2 :: p) (l3 :: p) (I_cl _ _ I2) Hx23 fuel bn (Hfrm12 _ Hfr1)).
      apply (render_stable (l1 :: p) (l2 :: p) (I_cl _ _ I1) Hx12 fuel bn Hfr1). }
  pose proof (ad_fold_spec p k group vc bh cb bn b hl heads l3 0 eq_refl I3 A3) as Hf.
  destruct Hf as (I4 & Hx34 & Habs4 & Hgrp4).
  assert (Hx03 : extA (l :: p) (l3 :: p)).
  { intros j Hj. rewrite Hx23; [|apply Hfrm12, Hfrm1; exact Hj].
    rewrite Hx12; [|apply Hfrm1; exact Hj]. exact (extN_extA _ _ (Hext1 _) j Hj). }
  unfold st_post; splits.
  - exact I4.
  - intros j Hj. rewrite Hx34; [apply Hx03; exact Hj|]. apply Hfrm3, Hfrm12, Hfrm1. exact Hj.
  - intros fuel s Hu. rewrite Habs4. f_equal.
    rewrite (abs_defs fuel (l3 :: p)), Hdefs3.
    destruct (sig_eqb s sb) eqn:Es.
    + apply sig_eqb_eq in Es. subst s. destruct Hu as [f0 Hu]. discriminate Hu.
    + rewrite Hdo2 by (intros ->; rewrite sig_eqb_refl in Es; discriminate).
      rewrite Hdefs1. symmetry. rewrite <- (abs_old_stable fuel p l (l3 :: p) s I Hx03). reflexivity.
  - intros s Hu. rewrite Hgrp4. simpl specG. fold group. f_equal.
    unfold grp at 1. rewrite Hdefs3.
    destruct (sig_eqb s sb) eqn:Es.
    + apply sig_eqb_eq in Es. subst s. destruct Hu as [f0 Hu]. discriminate Hu.
    + rewrite Hdo2 by (intros ->; rewrite sig_eqb_refl in Es; discriminate).
      rewrite Hdefs1. apply (grp_old_stable p l (l3 :: p) s I Hx03).
Qed.
