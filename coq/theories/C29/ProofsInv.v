(* The store invariant of ModelClauseDB and its preservation by _add_head / _add_define_node. *)
From Coq Require Import List Arith Bool NArith Lia.
From PL.C29 Require Import ModelClauseDB ProofsBase.
Import ListNotations.

Lemma fn_eqb_eq : forall a b, fn_eqb a b = true <-> a = b.
Proof.
  intros [x|x] [y|y]; simpl; split; intros H; try discriminate; try (inversion H; subst).
  - apply N.eqb_eq in H. subst. reflexivity.
  - apply N.eqb_refl.
  - apply Nat.eqb_eq in H. subst. reflexivity.
  - apply Nat.eqb_refl.
Qed.

Lemma sig_eqb_eq : forall a b, sig_eqb a b = true <-> a = b.
Proof.
  intros [f a] [g b]. unfold sig_eqb. simpl. rewrite andb_true_iff, fn_eqb_eq, Nat.eqb_eq.
  split; [intros [-> ->]; reflexivity | intros H; inversion H; auto].
Qed.

Lemma sig_eqb_refl : forall s, sig_eqb s s = true.
Proof. intros. apply sig_eqb_eq. reflexivity. Qed.

Lemma sig_eqb_neq : forall a b, a <> b -> sig_eqb a b = false.
Proof. intros a b H. destruct (sig_eqb a b) eqn:E; [apply sig_eqb_eq in E; contradiction|reflexivity]. Qed.

(* positions whose content is never rewritten: everything but placeholders and define nodes of
   user predicates *)
Definition frozen (n : node) : bool :=
  match n with NEmpty => false | NDefine (FU _) _ _ => false | _ => true end.

Definition fr (c : chain) (j : nat) : Prop := j < size c /\ frozen (get_node c j) = true.

Definition ok_node (c : chain) (n : node) : Prop :=
  match n with
  | NClause _ _ _ ch _ _ => fr c ch
  | NConj a b => fr c a /\ fr c b
  | NDisj a b => fr c a /\ fr c b
  | NNeg a => fr c a
  | NCall (FBody _) _ dn => fr c dn
  | NCallChoice _ _ _ _ dn => fr c dn
  | NDefine _ _ ch => Forall (fr c) ch
  | _ => True
  end.

Definition closed (c : chain) : Prop := forall i, i < size c -> ok_node c (get_node c i).

Definition head_shape (c : chain) (s : sig) (n : nat) : Prop :=
  get_node c n = NEmpty \/ exists ch, get_node c n = NDefine (fst s) (snd s) ch.

(* a call to a user predicate points (through the redirects of the whole chain) at the node the
   heads table currently gives for its signature *)
Definition call_ok (c : chain) (n : node) : Prop :=
  match n with
  | NCall (FU f) a dn => exists h, get_head c (FU f, length a) = Some h /\ resolve c dn = h
  | _ => True
  end.

Lemma call_ok_ext : forall c c' n, (forall s, get_head c' s = get_head c s) -> (forall i, resolve c' i = resolve c i) ->
  call_ok c n -> call_ok c' n.
Proof.
  intros c c' n Hh Hr. destruct n; simpl; auto. destruct f; auto.
  intros [h [H1 H2]]. exists h. rewrite Hh, Hr. split; assumption.
Qed.

Lemma resolve_same_redir : forall l l' p i, l_redir l' = l_redir l -> resolve (l' :: p) i = resolve (l :: p) i.
Proof. intros l l' p i H. rewrite !resolve_cons, H. reflexivity. Qed.

Lemma redir_get_nokey : forall r n, (forall v, ~ In (n, v) r) -> redir_get r n = n.
Proof. intros r n H. destruct (redir_get_cases r n) as [E|E]; [exact E|]. exfalso. eapply H; eauto. Qed.

Definition def_or_empty (n : node) : Prop := n = NEmpty \/ exists f a ch, n = NDefine f a ch.

Record Inv (p : chain) (l : layer) : Prop := mkInv {
  I_rok : redir_ok p l;
  I_h0 : forall s n, get_head (l :: p) s = Some n -> n < size (l :: p);
  I_h1 : forall s n, get_head (l :: p) s = Some n -> head_shape (l :: p) s n;
  I_h3 : forall s1 s2 n, get_head (l :: p) s1 = Some n -> get_head (l :: p) s2 = Some n -> s1 = s2;
  I_w3 : forall s n v, get_head (l :: p) s = Some n -> ~ In (n, v) (l_redir l);
  I_cl : closed (l :: p);
  I_fresh : forall k a n, get_head (l :: p) (FBody k, a) = Some n -> k < size (l :: p);
  I_err : l_err l = false;
  I_hres : forall s n, get_head (l :: p) s = Some n -> resolve (l :: p) n = n;
  I_call : forall i, i < size (l :: p) -> call_ok (l :: p) (get_node (l :: p) i);
  I_keys : forall k v, In (k, v) (l_redir l) -> def_or_empty (raw p k)
}.

Definition defs (c : chain) (s : sig) : list nat :=
  match get_head c s with Some n => define_children (get_node c n) | None => [] end.

(* frozen positions below N keep their content *)
Definition extN (N : nat) (c c' : chain) : Prop :=
  size c <= size c' /\ forall j, j < N -> fr c j -> get_node c' j = get_node c j.

Definition frm (c c' : chain) : Prop := forall j, fr c j -> fr c' j.

Lemma extN_refl : forall N c, extN N c c.
Proof. intros. split; auto. Qed.

Lemma extN_frm_lt : forall N c c', extN N c c' -> forall j, j < N -> fr c j -> fr c' j.
Proof. intros N c c' [Hs H] j Hj [Hl Hf]. split; [lia|]. rewrite H; auto. split; auto. Qed.

Lemma extN_trans : forall N c1 c2 c3, extN N c1 c2 -> extN N c2 c3 -> extN N c1 c3.
Proof.
  intros N c1 c2 c3 H12 H23. split; [destruct H12, H23; lia|].
  intros j Hj Hf. destruct H23 as [_ H23]. rewrite H23; auto.
  - destruct H12 as [_ H12]. apply H12; auto.
  - eapply extN_frm_lt; eauto.
Qed.

Lemma extN_weaken : forall N M c c', M <= N -> extN N c c' -> extN M c c'.
Proof. intros N M c c' H [Hs Hx]. split; auto. intros j Hj. apply Hx. lia. Qed.

Lemma frm_refl : forall c, frm c c.
Proof. intros c j H. exact H. Qed.

Lemma frm_trans : forall c1 c2 c3, frm c1 c2 -> frm c2 c3 -> frm c1 c3.
Proof. intros c1 c2 c3 H1 H2 j H. auto. Qed.

Lemma ok_node_frm : forall c c' n, frm c c' -> ok_node c n -> ok_node c' n.
Proof.
  intros c c' n H. destruct n; simpl; auto.
  - intros HF. eapply Forall_impl; [|exact HF]. auto.
  - destruct f; auto.
  - intros [? ?]; auto.
  - intros [? ?]; auto.
Qed.

(* get_head after set_head *)
Lemma get_head_set_head : forall p l s i s',
  get_head (set_head l s i :: p) s' = if sig_eqb s' s then Some i else get_head (l :: p) s'.
Proof. intros. simpl. destruct (sig_eqb s' s); reflexivity. Qed.

(* ------------------------------------------------------------------ appending a node *)
Lemma fr_app_old : forall p l n j, redir_ok p l -> fr (l :: p) j -> fr (fst (app_node p l n) :: p) j.
Proof.
  intros p l n j H [Hl Hf]. split; [rewrite size_app; lia|].
  rewrite get_node_app by assumption. destruct (Nat.eqb_spec j (size (l :: p))); [lia|exact Hf].
Qed.

Lemma Inv_app : forall p l n, Inv p l -> ok_node (fst (app_node p l n) :: p) n ->
  (forall f a ch, n <> NDefine f a ch) -> call_ok (l :: p) n ->
  Inv p (fst (app_node p l n)).
Proof.
  intros p l n I Hok Hnd Hcall. destruct I as [rok h0 h1 h3 w3 cl fresh err hres hcall keys].
  assert (Hfrm : frm (l :: p) (fst (app_node p l n) :: p)) by (intros j; apply fr_app_old; exact rok).
  constructor.
  - apply redir_ok_app. exact rok.
  - intros s m Hm. rewrite get_head_app in Hm. apply h0 in Hm. rewrite size_app. lia.
  - intros s m Hm. rewrite get_head_app in Hm. pose proof (h0 _ _ Hm) as Hlt.
    unfold head_shape. rewrite get_node_app by assumption.
    destruct (Nat.eqb_spec m (size (l :: p))); [lia|]. apply h1. exact Hm.
  - intros s1 s2 m. rewrite !get_head_app. apply h3.
  - intros s m v Hm. rewrite get_head_app in Hm. apply (w3 s m v Hm).
  - intros i Hi. rewrite size_app in Hi. rewrite get_node_app by assumption.
    destruct (Nat.eqb_spec i (size (l :: p))).
    + exact Hok.
    + eapply ok_node_frm; [exact Hfrm|]. apply cl. lia.
  - intros k a m Hm. rewrite get_head_app in Hm. apply fresh in Hm. rewrite size_app. lia.
  - exact err.
  - intros s m Hm. rewrite get_head_app in Hm. apply hres in Hm. exact Hm.
  - intros i Hi. rewrite size_app in Hi. rewrite get_node_app by assumption.
    assert (Hx : forall x, call_ok (l :: p) x -> call_ok (fst (app_node p l n) :: p) x).
    { intros x. apply call_ok_ext; reflexivity. }
    destruct (Nat.eqb_spec i (size (l :: p))); apply Hx; [exact Hcall|]. apply hcall. lia.
  - exact keys.
Qed.

Lemma extN_app : forall N p l n, redir_ok p l -> extN N (l :: p) (fst (app_node p l n) :: p).
Proof.
  intros N p l n H. split; [rewrite size_app; lia|].
  intros j _ [Hl _]. rewrite get_node_app by assumption.
  destruct (Nat.eqb_spec j (size (l :: p))); [lia|reflexivity].
Qed.

Lemma defs_app : forall p l n s, Inv p l -> defs (fst (app_node p l n) :: p) s = defs (l :: p) s.
Proof.
  intros p l n s I. unfold defs. rewrite get_head_app. destruct (get_head (l :: p) s) eqn:E; [|reflexivity].
  rewrite get_node_app by (apply I). pose proof (I_h0 _ _ I _ _ E).
  destruct (Nat.eqb_spec n0 (size (l :: p))); [lia|reflexivity].
Qed.

Ltac splits := match goal with |- _ /\ _ => split; [|splits] | _ => idtac end.

(* ------------------------------------------------------------------ _add_head *)
Definition ah_post (p : chain) (l : layer) (s : sig) (create : bool) (l' : layer) (i : nat) : Prop :=
  Inv p l' /\
  (forall N, extN N (l :: p) (l' :: p)) /\
  frm (l :: p) (l' :: p) /\
  (forall s', defs (l' :: p) s' = defs (l :: p) s') /\
  get_head (l' :: p) s = Some i /\
  (forall s', s' <> s -> get_head (l :: p) s' <> None -> get_head (l' :: p) s' = get_head (l :: p) s') /\
  (forall s' n, get_head (l' :: p) s' = Some n -> s' = s \/ get_head (l :: p) s' = Some n) /\
  i < size (l' :: p) /\
  (create = true -> size p <= i /\
     (get_node (l' :: p) i = NEmpty \/ get_node (l' :: p) i = NDefine (fst s) (snd s) (defs (l :: p) s))) /\
  (get_head (l :: p) s = None -> i = size (l :: p) /\ size (l' :: p) = S (size (l :: p)) /\ l_redir l' = l_redir l) /\
  size (l :: p) <= size (l' :: p).

Lemma frozen_head : forall c s n, head_shape c s n -> frozen (get_node c n) = true ->
  exists ch, get_node c n = NDefine (fst s) (snd s) ch.
Proof. intros c s n [H|H] Hf; [rewrite H in Hf; discriminate|exact H]. Qed.

Lemma add_head_spec : forall p l s create,
  Inv p l -> (forall k a, s = (FBody k, a) -> k <= size (l :: p)) ->
  let '(l', i) := add_head p l s create in ah_post p l s create l' i.
Proof.
  intros p l s create I Hfb. pose proof I as I0. destruct I as [rok h0 h1 h3 w3 cl fresh err hres hcall keys].
  unfold add_head. destruct (get_head (l :: p) s) as [n|] eqn:E.
  - (* the head exists *)
    destruct (create && (n <? size p)) eqn:C.
    + (* it lives in a parent: copy the definition and redirect *)
      apply andb_true_iff in C. destruct C as [-> C]. apply Nat.ltb_lt in C.
      set (ch := define_children (get_node (l :: p) n)).
      set (nd := NDefine (fst s) (snd s) ch).
      set (l1 := fst (app_node p l nd)). set (i := size (l :: p)).
      change (ah_post p l s true (set_head (add_redirect l1 n i) s i) i).
      assert (Hn : n < size (l :: p)) by (apply (h0 _ _ E)).
      assert (Hnn : resolve (l :: p) n = n) by (apply (hres _ _ E)).
      assert (Hres : forall j, resolve (set_head (add_redirect l1 n i) s i :: p) j =
                               if resolve (l :: p) j =? n then i else resolve (l :: p) j).
      { intros j. rewrite !resolve_cons. unfold set_head, add_redirect, l1, app_node. cbn [l_redir fst redir_get].
        destruct (Nat.eqb_spec (pre p j) n) as [Ep|Ep].
        - rewrite Ep. rewrite (redir_get_nokey (l_redir l) n) by (intros v; apply (w3 _ _ v E)).
          rewrite Nat.eqb_refl. reflexivity.
        - destruct (Nat.eqb_spec (redir_get (l_redir l) (pre p j)) n) as [E2|E2]; [|reflexivity].
          exfalso. destruct (redir_get_cases (l_redir l) (pre p j)) as [E3|E3]; [congruence|].
          rewrite E2 in E3. apply (proj1 rok) in E3. lia. }
      assert (Hg : forall j, get_node (set_head (add_redirect l1 n i) s i :: p) j =
                             if resolve (l :: p) j =? n then nd else if j =? i then nd else get_node (l :: p) j).
      { intros j. destruct (Nat.eqb_spec (resolve (l :: p) j) n) as [Ej|Ej].
        - rewrite get_node_cons, Hres, Ej, Nat.eqb_refl. unfold i. cbn [size].
          destruct (Nat.ltb_spec (size p + length (l_nodes l)) (size p)); [lia|].
          unfold set_head, add_redirect, l1, app_node. cbn [l_nodes fst].
          rewrite app_nth2 by lia.
          replace (size p + length (l_nodes l) - size p - length (l_nodes l)) with 0 by lia. reflexivity.
        - transitivity (get_node (l1 :: p) j).
          + rewrite !get_node_cons, Hres.
            change (resolve (l1 :: p) j) with (resolve (l :: p) j).
            destruct (Nat.eqb_spec (resolve (l :: p) j) n); [contradiction|]. reflexivity.
          + unfold l1. rewrite get_node_app by exact rok. reflexivity. }
      assert (Hgn : forall j, resolve (l :: p) j = n -> get_node (l :: p) j = get_node (l :: p) n).
      { intros j Ej. apply get_node_same_res; [exact rok|exact Ej]. }
      assert (Hh : forall s', get_head (set_head (add_redirect l1 n i) s i :: p) s' =
                              if sig_eqb s' s then Some i else get_head (l :: p) s').
      { intros s'. rewrite get_head_set_head. reflexivity. }
      assert (Hsz : size (set_head (add_redirect l1 n i) s i :: p) = S (size (l :: p))).
      { unfold set_head, add_redirect. simpl. unfold l1. simpl. rewrite app_length. simpl. lia. }
      assert (Hshape : head_shape (l :: p) s n) by (apply h1; exact E).
      assert (Hfrm : frm (l :: p) (set_head (add_redirect l1 n i) s i :: p)).
      { intros j [Hl Hf]. split; [rewrite Hsz; lia|]. rewrite Hg.
        destruct (Nat.eqb_spec (resolve (l :: p) j) n) as [Ej|].
        - rewrite (Hgn j Ej) in Hf.
          destruct (frozen_head _ _ _ Hshape Hf) as [ch' Hd]. unfold nd. rewrite Hd in Hf. exact Hf.
        - destruct (Nat.eqb_spec j i); [unfold i in *; lia|exact Hf]. }
      assert (Hext : forall N, extN N (l :: p) (set_head (add_redirect l1 n i) s i :: p)).
      { intros N. split; [rewrite Hsz; lia|]. intros j _ [Hl Hf]. rewrite Hg.
        destruct (Nat.eqb_spec (resolve (l :: p) j) n) as [Ej|].
        - rewrite (Hgn j Ej) in Hf |- *.
          destruct (frozen_head _ _ _ Hshape Hf) as [ch' Hd]. unfold nd, ch. rewrite Hd. reflexivity.
        - destruct (Nat.eqb_spec j i); [unfold i in *; lia|reflexivity]. }
      assert (Hri : resolve (l :: p) i = i) by (apply resolve_ge; [exact rok|unfold i; lia]).
      assert (Hgi : get_node (set_head (add_redirect l1 n i) s i :: p) i = nd).
      { rewrite Hg, Hri. destruct (Nat.eqb_spec i n); [reflexivity|]. rewrite Nat.eqb_refl. reflexivity. }
      assert (Hch : Forall (fr (l :: p)) ch).
      { unfold ch. destruct Hshape as [Hs|[ch' Hs]]; rewrite Hs; simpl; [constructor|].
        pose proof (cl n Hn) as Hc. rewrite Hs in Hc. exact Hc. }
      assert (Hother : forall s' m, s' <> s -> get_head (l :: p) s' = Some m -> m <> n /\ m <> i).
      { intros s' m Hne Hm. split.
        - intros ->. apply Hne. eapply h3; eauto.
        - apply h0 in Hm. unfold i. lia. }
      assert (Hgo : forall s' m, s' <> s -> get_head (l :: p) s' = Some m ->
                    get_node (set_head (add_redirect l1 n i) s i :: p) m = get_node (l :: p) m).
      { intros s' m Hne Hm. destruct (Hother s' m Hne Hm) as [H1 H2]. rewrite Hg, (hres _ _ Hm).
        destruct (Nat.eqb_spec m n); [contradiction|]. destruct (Nat.eqb_spec m i); [contradiction|reflexivity]. }
      unfold ah_post; splits.
      * constructor.
        -- split; [|apply rok]. intros k v [Hkv|Hkv].
           ++ inversion Hkv; subst. rewrite Hsz. unfold i. simpl. simpl in Hn. lia.
           ++ change (In (k, v) (l_redir l)) in Hkv. apply (proj1 rok) in Hkv. rewrite Hsz. simpl in *. lia.
        -- intros s' m Hm. rewrite Hh in Hm. rewrite Hsz. destruct (sig_eqb s' s).
           ++ inversion Hm. unfold i. lia.
           ++ apply h0 in Hm. lia.
        -- intros s' m Hm. rewrite Hh in Hm. unfold head_shape.
           destruct (sig_eqb s' s) eqn:Es.
           ++ apply sig_eqb_eq in Es. subst s'. inversion Hm; subst m.
              rewrite Hgi. right. eexists. reflexivity.
           ++ assert (s' <> s) by (intros ->; rewrite sig_eqb_refl in Es; discriminate).
              rewrite (Hgo s' m H Hm).
              apply h1. exact Hm.
        -- intros s1 s2 m H1 H2. rewrite Hh in H1, H2.
           destruct (sig_eqb s1 s) eqn:E1; destruct (sig_eqb s2 s) eqn:E2.
           ++ apply sig_eqb_eq in E1, E2. congruence.
           ++ inversion H1; subst m. apply h0 in H2. unfold i in H2. lia.
           ++ inversion H2; subst m. apply h0 in H1. unfold i in H1. lia.
           ++ eapply h3; eauto.
        -- intros s' m v Hm Hin. rewrite Hh in Hm. destruct Hin as [Hin|Hin].
           ++ injection Hin as Hm1 Hv1. subst m. destruct (sig_eqb s' s) eqn:Es.
              ** inversion Hm. unfold i in *. lia.
              ** assert (s' <> s) by (intros ->; rewrite sig_eqb_refl in Es; discriminate).
                 destruct (Hother s' n H Hm) as [H1 _]. contradiction.
           ++ change (In (m, v) (l_redir l)) in Hin. destruct (sig_eqb s' s) eqn:Es.
              ** inversion Hm; subst m. apply (proj1 rok) in Hin. unfold i in Hin. simpl in Hin. lia.
              ** eapply w3; eauto.
        -- intros j Hj. rewrite Hsz in Hj. rewrite Hg.
           destruct (Nat.eqb_spec (resolve (l :: p) j) n).
           ++ simpl. eapply Forall_impl; [|exact Hch]. apply Hfrm.
           ++ destruct (Nat.eqb_spec j i).
              ** simpl. eapply Forall_impl; [|exact Hch]. apply Hfrm.
              ** eapply ok_node_frm; [exact Hfrm|]. apply cl. unfold i in *. lia.
        -- intros k a m Hm. rewrite Hh in Hm. rewrite Hsz. destruct (sig_eqb (FBody k, a) s) eqn:Es.
           ++ apply sig_eqb_eq in Es. subst s. apply fresh in E. lia.
           ++ apply fresh in Hm. lia.
        -- exact err.
        -- intros s' m Hm. rewrite Hh in Hm. rewrite Hres. destruct (sig_eqb s' s) eqn:Es.
           ++ inversion Hm; subst m. rewrite Hri. destruct (Nat.eqb_spec i n); [unfold i in *; lia|reflexivity].
           ++ assert (s' <> s) by (intros ->; rewrite sig_eqb_refl in Es; discriminate).
              destruct (Hother s' m H Hm) as [H1 H2]. rewrite (hres _ _ Hm).
              destruct (Nat.eqb_spec m n); [contradiction|reflexivity].
        -- intros j Hj. rewrite Hsz in Hj. rewrite Hg.
           destruct (Nat.eqb_spec (resolve (l :: p) j) n); [exact Logic.I|].
           destruct (Nat.eqb_spec j i); [exact Logic.I|].
           assert (Hj' : j < size (l :: p)) by (unfold i in *; lia).
           pose proof (hcall j Hj') as Hc. destruct (get_node (l :: p) j) as [| | | |f args dn| | | | | |]; try exact Logic.I.
           destruct f as [f|k0]; [|exact Logic.I]. unfold call_ok in Hc |- *. destruct Hc as [h [Hc1 Hc2]]. rewrite Hh, Hres, Hc2.
           destruct (sig_eqb (FU f, length args) s) eqn:Es.
           ++ apply sig_eqb_eq in Es. rewrite Es, E in Hc1. inversion Hc1; subst h.
              rewrite Nat.eqb_refl. eexists; split; reflexivity.
           ++ assert (Hne : (FU f, length args) <> s) by (intros Hq; rewrite Hq, sig_eqb_refl in Es; discriminate).
              destruct (Hother _ h Hne Hc1) as [H1 H2]. exists h. split; [exact Hc1|].
              destruct (Nat.eqb_spec h n); [contradiction|reflexivity].
        -- intros k v [Hkv|Hkv]; [|apply (keys k v Hkv)].
           inversion Hkv; subst k v. rewrite <- (raw_lt l p n C).
           rewrite <- Hnn at 1. rewrite <- (get_node_raw (l :: p) n rok).
           destruct Hshape as [Hs|[ch' Hs]]; [left; exact Hs|right; do 3 eexists; exact Hs].
      * exact Hext.
      * exact Hfrm.
      * intros s'. unfold defs. rewrite Hh. destruct (sig_eqb s' s) eqn:Es.
        -- apply sig_eqb_eq in Es. subst s'. rewrite E. rewrite Hgi. reflexivity.
        -- destruct (get_head (l :: p) s') as [m|] eqn:Em; [|reflexivity].
           assert (s' <> s) by (intros ->; rewrite sig_eqb_refl in Es; discriminate).
           rewrite (Hgo s' m H Em). reflexivity.
      * rewrite Hh. rewrite sig_eqb_refl. reflexivity.
      * intros s' Hne _. rewrite Hh. rewrite sig_eqb_neq by exact Hne. reflexivity.
      * intros s' m Hm. rewrite Hh in Hm. destruct (sig_eqb s' s) eqn:Es.
        -- left. apply sig_eqb_eq. exact Es.
        -- right. exact Hm.
      * rewrite Hsz. unfold i. lia.
      * intros _. split; [unfold i; simpl; lia|].
        right. rewrite Hgi.
        unfold nd, ch, defs. rewrite E. reflexivity.
      * intros Hnone. rewrite E in Hnone. discriminate.
      * rewrite Hsz. lia.
    + (* nothing to do *)
      unfold ah_post; splits.
      * exact I0.
      * intros N. apply extN_refl.
      * apply frm_refl.
      * reflexivity.
      * exact E.
      * reflexivity.
      * intros s' m Hm. right. exact Hm.
      * apply (h0 _ _ E).
      * intros ->. simpl in C. apply Nat.ltb_ge in C. split; [exact C|].
        destruct (h1 _ _ E) as [Hs|[ch Hs]]; [left; exact Hs|right]. rewrite Hs. unfold defs. rewrite E, Hs. reflexivity.
      * intros Hnone. rewrite E in Hnone. discriminate.
      * lia.
  - (* new head: define node or placeholder *)
    set (nd := if create then NDefine (fst s) (snd s) [] else NEmpty).
    set (l1 := fst (app_node p l nd)). set (i := size (l :: p)).
    change (ah_post p l s create (set_head l1 s i) i).
    assert (Hg : forall j, get_node (set_head l1 s i :: p) j = if j =? i then nd else get_node (l :: p) j).
    { intros j. rewrite get_node_set_head. unfold l1. rewrite get_node_app by exact rok. reflexivity. }
    assert (Hh : forall s', get_head (set_head l1 s i :: p) s' = if sig_eqb s' s then Some i else get_head (l :: p) s').
    { intros s'. rewrite get_head_set_head. reflexivity. }
    assert (Hsz : size (set_head l1 s i :: p) = S (size (l :: p))).
    { unfold set_head. simpl. unfold l1. simpl. rewrite app_length. simpl. lia. }
    assert (Hfrm : frm (l :: p) (set_head l1 s i :: p)).
    { intros j [Hl Hf]. split; [rewrite Hsz; lia|]. rewrite Hg.
      destruct (Nat.eqb_spec j i); [unfold i in *; lia|exact Hf]. }
    assert (Hext : forall N, extN N (l :: p) (set_head l1 s i :: p)).
    { intros N. split; [rewrite Hsz; lia|]. intros j _ [Hl Hf]. rewrite Hg.
      destruct (Nat.eqb_spec j i); [unfold i in *; lia|reflexivity]. }
    unfold ah_post; splits.
    + constructor.
      * split; [|apply rok]. intros k v Hkv. change (In (k, v) (l_redir l)) in Hkv. apply (proj1 rok) in Hkv. rewrite Hsz. simpl in *. lia.
      * intros s' m Hm. rewrite Hh in Hm. rewrite Hsz. destruct (sig_eqb s' s).
        -- inversion Hm. unfold i. lia.
        -- apply h0 in Hm. lia.
      * intros s' m Hm. rewrite Hh in Hm. unfold head_shape. rewrite Hg. destruct (sig_eqb s' s) eqn:Es.
        -- apply sig_eqb_eq in Es. subst s'. inversion Hm; subst m. rewrite Nat.eqb_refl.
           unfold nd. destruct create; [right; eexists; reflexivity|left; reflexivity].
        -- pose proof (h0 _ _ Hm). destruct (Nat.eqb_spec m i); [unfold i in *; lia|]. apply h1. exact Hm.
      * intros s1 s2 m H1 H2. rewrite Hh in H1, H2.
        destruct (sig_eqb s1 s) eqn:E1; destruct (sig_eqb s2 s) eqn:E2.
        -- apply sig_eqb_eq in E1, E2. congruence.
        -- inversion H1; subst m. apply h0 in H2. unfold i in H2. lia.
        -- inversion H2; subst m. apply h0 in H1. unfold i in H1. lia.
        -- eapply h3; eauto.
      * intros s' m v Hm Hin. change (In (m, v) (l_redir l)) in Hin. rewrite Hh in Hm. destruct (sig_eqb s' s) eqn:Es.
        -- inversion Hm; subst m. apply (proj1 rok) in Hin. unfold i in Hin. simpl in Hin. lia.
        -- eapply w3; eauto.
      * intros j Hj. rewrite Hsz in Hj. rewrite Hg. destruct (Nat.eqb_spec j i).
        -- unfold nd. destruct create; simpl; auto.
        -- eapply ok_node_frm; [exact Hfrm|]. apply cl. unfold i in *. lia.
      * intros k a m Hm. rewrite Hh in Hm. rewrite Hsz. destruct (sig_eqb (FBody k, a) s) eqn:Es.
        -- apply sig_eqb_eq in Es. subst s. specialize (Hfb k a eq_refl). lia.
        -- apply fresh in Hm. lia.
      * exact err.
      * intros s' m Hm. rewrite Hh in Hm.
        change (resolve (set_head l1 s i :: p) m) with (resolve (l :: p) m).
        destruct (sig_eqb s' s) eqn:Es.
        -- inversion Hm; subst m. apply resolve_ge; [exact rok|unfold i; lia].
        -- apply (hres _ _ Hm).
      * intros j Hj. rewrite Hsz in Hj. rewrite Hg. destruct (Nat.eqb_spec j i).
        -- unfold nd. destruct create; exact Logic.I.
        -- assert (Hj' : j < size (l :: p)) by (unfold i in *; lia).
           pose proof (hcall j Hj') as Hc. destruct (get_node (l :: p) j) as [| | | |f args dn| | | | | |]; try exact Logic.I.
           destruct f as [f|k0]; [|exact Logic.I]. unfold call_ok in Hc |- *. destruct Hc as [h [Hc1 Hc2]]. exists h. rewrite Hh.
           destruct (sig_eqb (FU f, length args) s) eqn:Es.
           ++ apply sig_eqb_eq in Es. rewrite Es, E in Hc1. discriminate.
           ++ split; [exact Hc1|exact Hc2].
      * exact keys.
    + exact Hext.
    + exact Hfrm.
    + intros s'. unfold defs. rewrite Hh. destruct (sig_eqb s' s) eqn:Es.
      * apply sig_eqb_eq in Es. subst s'. rewrite E. rewrite Hg, Nat.eqb_refl. unfold nd. destruct create; reflexivity.
      * destruct (get_head (l :: p) s') as [m|] eqn:Em; [|reflexivity].
        pose proof (h0 _ _ Em). rewrite Hg. destruct (Nat.eqb_spec m i); [unfold i in *; lia|reflexivity].
    + rewrite Hh, sig_eqb_refl. reflexivity.
    + intros s' Hne _. rewrite Hh, sig_eqb_neq by exact Hne. reflexivity.
    + intros s' m Hm. rewrite Hh in Hm. destruct (sig_eqb s' s) eqn:Es.
      * left. apply sig_eqb_eq. exact Es.
      * right. exact Hm.
    + rewrite Hsz. unfold i. lia.
    + intros ->. split; [unfold i; simpl; lia|].
      rewrite Hg, Nat.eqb_refl. unfold nd. right. unfold defs. rewrite E. reflexivity.
    + intros _. split; [reflexivity|split; [exact Hsz|reflexivity]].
    + rewrite Hsz. lia.
Qed.

(* ------------------------------------------------------------------ _add_define_node *)
Definition is_user (s : sig) : Prop := exists f, fst s = FU f.

Definition ad_post (N0 : nat) (p : chain) (l : layer) (s : sig) (c : nat) (l2 : layer) : Prop :=
  Inv p l2 /\
  (is_user s \/ get_head (l :: p) s = None -> extN N0 (l :: p) (l2 :: p)) /\
  frm (l :: p) (l2 :: p) /\
  defs (l2 :: p) s = defs (l :: p) s ++ [c] /\
  (forall s', s' <> s -> defs (l2 :: p) s' = defs (l :: p) s') /\
  size (l :: p) <= size (l2 :: p) /\
  (get_head (l :: p) s = None -> size (l2 :: p) = S (size (l :: p)) /\ get_head (l2 :: p) s = Some (size (l :: p))) /\
  (forall s' n, get_head (l2 :: p) s' = Some n -> s' = s \/ get_head (l :: p) s' = Some n).

Lemma add_define_spec : forall N0 p l s c,
  Inv p l -> (forall k a, s = (FBody k, a) -> k <= size (l :: p)) -> N0 <= size (l :: p) ->
  fr (l :: p) c ->
  ad_post N0 p l s c (add_define p l s c).
Proof.
  intros N0 p l s c I Hfb HN Hc. unfold add_define.
  pose proof (add_head_spec p l s true I Hfb) as Hah.
  destruct (add_head p l s true) as [l1 di].
  destruct Hah as (I1 & Hext1 & Hfrm1 & Hdefs1 & Hhead1 & Hoth1 & Hback1 & Hdi & Hcr & Hnone & Hsz1).
  destruct (Hcr eq_refl) as [Hdip Hshape].
  pose proof I1 as I1'. destruct I1 as [rok h0 h1 h3 w3 cl fresh err hres hcall keys].
  assert (Hrd : resolve (l1 :: p) di = di) by (rewrite resolve_cons, pre_ge by exact Hdip; apply (redir_get_ge p l1 di rok Hdip)).
  set (NEW := NDefine (fst s) (snd s) (defs (l :: p) s ++ [c])).
  assert (Hres : match get_node (l1 :: p) di with
                 | NDefine f a ch => set_node p l1 (resolve (l1 :: p) di) (NDefine f a (ch ++ [c]))
                 | NEmpty => set_node p l1 di (NDefine (fst s) (snd s) [c])
                 | _ => mkL (l_nodes l1) (l_heads l1) (l_redir l1) true
                 end = set_node p l1 di NEW).
  { destruct Hshape as [Hs|Hs]; rewrite Hs.
    - unfold NEW. replace (defs (l :: p) s) with (@nil nat); [reflexivity|].
      rewrite <- Hdefs1. unfold defs. rewrite Hhead1, Hs. reflexivity.
    - rewrite Hrd. reflexivity. }
  rewrite Hres. clear Hres.
  set (l2 := set_node p l1 di NEW).
  assert (Hg : forall j, get_node (l2 :: p) j = if resolve (l1 :: p) j =? di then NEW else get_node (l1 :: p) j).
  { intros j. unfold l2. apply get_node_set; [exact rok|lia]. }
  assert (Hsz : size (l2 :: p) = size (l1 :: p)) by (apply size_set).
  assert (Hh : forall s', get_head (l2 :: p) s' = get_head (l1 :: p) s') by (intros; apply get_head_set).
  assert (Hdi1 : get_node (l1 :: p) di = NEmpty \/ exists ch, get_node (l1 :: p) di = NDefine (fst s) (snd s) ch).
  { destruct Hshape as [Hs|Hs]; [left|right; eexists]; exact Hs. }
  assert (Hfrm2 : frm (l1 :: p) (l2 :: p)).
  { intros j [Hl Hf]. split; [rewrite Hsz; exact Hl|]. rewrite Hg.
    destruct (Nat.eqb_spec (resolve (l1 :: p) j) di) as [Ej|Ej]; [|exact Hf].
    rewrite (get_node_same_res (l1 :: p) j di rok Ej) in Hf.
    destruct Hdi1 as [Hs|[ch Hs]]; rewrite Hs in Hf; [discriminate|]. exact Hf. }
  assert (Hoth : forall s' m, s' <> s -> get_head (l1 :: p) s' = Some m -> resolve (l1 :: p) m <> di).
  { intros s' m Hne Hm. rewrite (hres _ _ Hm). intros ->. apply Hne. eapply h3; eauto. }
  assert (Hr2 : forall j, resolve (l2 :: p) j = resolve (l1 :: p) j).
  { intros j. apply resolve_same_redir. unfold l2. apply redir_set. }
  assert (Hcfr : fr (l1 :: p) c) by (apply Hfrm1; exact Hc).
  assert (Hchildren : Forall (fr (l2 :: p)) (defs (l :: p) s ++ [c])).
  { apply Forall_app. split.
    - rewrite <- Hdefs1. unfold defs. rewrite Hhead1.
      destruct Hdi1 as [Hs|[ch Hs]]; rewrite Hs; simpl; [constructor|].
      pose proof (cl di Hdi) as Hc1. rewrite Hs in Hc1. simpl in Hc1.
      eapply Forall_impl; [|exact Hc1]. apply Hfrm2.
    - constructor; [|constructor]. apply Hfrm2. exact Hcfr. }
  unfold ad_post; splits.
  - constructor.
    + split; [|apply rok]. intros k v Hkv. unfold l2 in Hkv. rewrite redir_set in Hkv. apply (proj1 rok) in Hkv. rewrite Hsz. exact Hkv.
    + intros s' m Hm. rewrite Hh in Hm. rewrite Hsz. eapply h0; eauto.
    + intros s' m Hm. rewrite Hh in Hm. unfold head_shape. rewrite Hg.
      destruct (Nat.eqb_spec (resolve (l1 :: p) m) di) as [Ej|Ej].
      * destruct (sig_eqb s' s) eqn:Es.
        -- apply sig_eqb_eq in Es. subst s'. right. eexists. reflexivity.
        -- exfalso. eapply (Hoth s' m); eauto. intros ->. rewrite sig_eqb_refl in Es. discriminate.
      * apply h1. exact Hm.
    + intros s1 s2 m. rewrite !Hh. apply h3.
    + intros s' m v Hm. rewrite Hh in Hm. unfold l2. rewrite redir_set. eapply w3; eauto.
    + intros j Hj. rewrite Hsz in Hj. rewrite Hg.
      destruct (Nat.eqb_spec (resolve (l1 :: p) j) di).
      * exact Hchildren.
      * eapply ok_node_frm; [exact Hfrm2|]. apply cl. exact Hj.
    + intros k a m Hm. rewrite Hh in Hm. rewrite Hsz. eapply fresh; eauto.
    + unfold l2. rewrite err_set by exact Hdip. exact err.
    + intros s' m Hm. rewrite Hh in Hm. rewrite Hr2. apply (hres _ _ Hm).
    + intros j Hj. rewrite Hsz in Hj. rewrite Hg.
      destruct (Nat.eqb_spec (resolve (l1 :: p) j) di); [exact Logic.I|].
      eapply call_ok_ext; [exact Hh|exact Hr2|]. apply hcall. exact Hj.
    + intros k v Hkv. unfold l2 in Hkv. rewrite redir_set in Hkv. apply (keys k v Hkv).
  - intros Hcase. eapply extN_trans; [apply Hext1|].
    split; [rewrite Hsz; lia|]. intros j Hj [Hl Hf]. rewrite Hg.
    destruct (Nat.eqb_spec (resolve (l1 :: p) j) di) as [Ej|Ej]; [|reflexivity].
    exfalso. rewrite (get_node_same_res (l1 :: p) j di rok Ej) in Hf.
    destruct Hdi1 as [Hs|[ch Hs]]; rewrite Hs in Hf; [discriminate|].
    destruct Hcase as [[f Hu]|Hnn].
    + rewrite Hu in Hf. discriminate.
    + destruct (Hnone Hnn) as [Hdi0 [Hsz0 Hred0]].
      (* nothing old resolves to the fresh position *)
      pose proof (I_rok _ _ I) as rok0.
      rewrite (resolve_same_redir l l1 p j Hred0) in Ej.
      assert (Hl0 : j < size (l :: p)) by lia. pose proof (resolve_lt (l :: p) j rok0 Hl0). lia.
  - eapply frm_trans; eauto.
  - unfold defs. rewrite Hh, Hhead1, Hg, Hrd, Nat.eqb_refl. reflexivity.
  - intros s' Hne. rewrite <- Hdefs1. unfold defs. rewrite Hh.
    destruct (get_head (l1 :: p) s') as [m|] eqn:Em; [|reflexivity].
    rewrite Hg. destruct (Nat.eqb_spec (resolve (l1 :: p) m) di) as [Ej|Ej]; [|reflexivity].
    exfalso. eapply (Hoth s' m); eauto.
  - rewrite Hsz. exact Hsz1.
  - intros Hnn. destruct (Hnone Hnn) as [Hdi0 [Hsz0 Hred0]]. rewrite Hsz, Hh. split; [exact Hsz0|]. rewrite Hhead1, Hdi0. reflexivity.
  - intros s' m Hm. rewrite Hh in Hm. apply Hback1. exact Hm.
Qed.
