(* C29 — extending a prepared database is equivalent to preparing the union.
   Only statements, closed by `exact`.  Model: ModelClauseDB.v (chain of layers = ClauseDB
   parent pointers / offsets / redirects).  `abs fuel c s` is the definition list of predicate s
   seen through database c (find, get_node, define children in order) rendered back to source
   level (bodies rebuilt from the body nodes, the shared AD body inlined, node numbers and
   group ids dropped); `fuel` bounds the rendering depth and is universally quantified.
   gm is the AD group-id rule (GLocal = code as it is, GGlobal = repaired): the theorems hold for both. *)
From Coq Require Import List Arith Bool NArith.
From PL.C29 Require Import ModelClauseDB ProofsBase ProofsInv ProofsStmt ProofsAD ProofsHist.
Import ListNotations.

(* DESIGN: abs (fold add cs (extend (prepare P))) = abs (prepare (P ++ cs)), per user predicate,
   order preserved, for every base program P, every list cs of added facts / clauses / ADs. *)
Theorem C29_extend_union : forall gm P cs fuel s, is_user s ->
  abs fuel (adds gm cs (extend (adds gm P root0))) s = abs fuel (adds gm (P ++ cs) root0) s.
Proof. exact extend_union. Qed.
Print Assumptions C29_extend_union.

(* ... and that list is the source-level statement list itself: parent's clauses first, then the
   added ones, in order (rendering depth large enough for every statement). *)
Theorem C29_extend_union_spec : forall gm P cs fuel s, is_user s ->
  Forall (fun st => sdepth st < fuel) (P ++ cs) ->
  abs fuel (adds gm cs (extend (adds gm P root0))) s = spec (P ++ cs) s.
Proof. exact extend_union_spec. Qed.
Print Assumptions C29_extend_union_spec.

(* the same through ANY well-formed chain (nested extensions: d may itself be an extension of an
   extension ...): extending is transparent for every later history of additions *)
Theorem C29_extend_transparent : forall gm d ss fuel s, d <> [] -> WFc d -> is_user s ->
  abs fuel (adds gm ss (extend d)) s = abs fuel (adds gm ss d) s.
Proof. exact extend_transparent. Qed.
Print Assumptions C29_extend_transparent.

Theorem C29_adds_append : forall gm c ss fuel s, c <> [] -> WFc c -> is_user s ->
  abs fuel (adds gm ss c) s = abs fuel c s ++ specFs fuel ss s.
Proof. exact adds_abs. Qed.
Print Assumptions C29_adds_append.

(* every chain reachable by any history (adds and nested extends) from the empty root is well-formed *)
Theorem C29_reachable_wf : forall gm ops, WFc (run gm ops root0) /\ run gm ops root0 <> [].
Proof. exact reachable_wf. Qed.
Print Assumptions C29_reachable_wf.

(* parent isolation: whatever is added to an extension, the parent chain is bit-for-bit the same *)
Theorem C29_parent_isolated : forall gm ss d, parent_of (adds gm ss (extend d)) = d.
Proof. exact parent_isolated_adds. Qed.
Print Assumptions C29_parent_isolated.

Theorem C29_parent_abs_unchanged : forall gm ss d fuel s,
  abs fuel (parent_of (adds gm ss (extend d))) s = abs fuel d s.
Proof. exact parent_abs_unchanged. Qed.
Print Assumptions C29_parent_abs_unchanged.

(* for every history with nested extends: all ancestors below the current database are untouched *)
Theorem C29_ancestors_untouched : forall gm ops l p, exists pre, pre <> [] /\ run gm ops (l :: p) = pre ++ p.
Proof. exact run_keeps_parent. Qed.
Print Assumptions C29_ancestors_untouched.

(* no write below the offset is ever attempted (no IndexError path, no in-place update of a
   parent's define node), in any layer, for any history *)
Theorem C29_no_write_below_offset : forall gm ops, any_err (run gm ops root0) = false.
Proof. exact history_no_parent_write. Qed.
Print Assumptions C29_no_write_below_offset.

(* at the moment of extension nothing changes at all *)
Theorem C29_extend_view : forall c i s, chain_ok c ->
  get_node (extend c) i = get_node c i /\ get_head (extend c) s = get_head c s /\ size (extend c) = size c.
Proof. exact extend_view. Qed.
Print Assumptions C29_extend_view.

(* NOT proved (see notes/C29.md): C29_redirect_sound (call nodes of the parent seen through the child
   resolve to the extended definition).  It is FALSE for the code as it is at depth >= 3
   (Findings.v: C29_nested_redirect_refuted); at depth <= 2 it is checked on every sampled history by
   evaluating `call_resolves` in the model (whose tables are compared with the implementation's). *)

(* ---------------------------------------------------------------- non-vacuity *)
Definition p_ : N := 5.  Definition q_ : N := 6.  Definition r_ : N := 7.  Definition a_ : term := [2; 20; 0]%N.
Definition exP : list stmt :=
  [ SFact p_ [a_] (Some 3%N);
    SClause q_ [[0;0]%N] (BAnd (BCall p_ [[0;0]%N]) (BNot (BCall r_ []))) 1 ].
Definition exCs : list stmt :=
  [ SFact p_ [[2;21;0]%N] None;                                         (* extends p/1 of the parent *)
    SAD [(r_, [], 1%N); (q_, [a_], 2%N)] (BCall p_ [[0;0]%N]) 1;        (* AD on new r/0 and existing q/1 *)
    SClause r_ [] (BBuiltin 4 [] 1) 0 ].

Example C29_ex_child_p :
  abs 9 (adds GLocal exCs (extend (adds GLocal exP root0))) (FU p_, 1)
  = [RFact [a_] (Some 3%N); RFact [[2;21;0]%N] None].
Proof. vm_compute. reflexivity. Qed.

Example C29_ex_child_q_has_parent_clause_first :
  length (abs 9 (adds GLocal exCs (extend (adds GLocal exP root0))) (FU q_, 1)) = 2
  /\ abs 9 (adds GLocal exCs (extend (adds GLocal exP root0))) (FU q_, 1) = spec (exP ++ exCs) (FU q_, 1).
Proof. vm_compute. split; reflexivity. Qed.

Example C29_ex_redirect_exists :
  l_redir (hd empty_layer (adds GLocal exCs (extend (adds GLocal exP root0)))) <> [].
Proof. vm_compute. discriminate. Qed.

Example C29_ex_parent_sees_only_its_own :
  abs 9 (parent_of (adds GLocal exCs (extend (adds GLocal exP root0)))) (FU p_, 1) = [RFact [a_] (Some 3%N)].
Proof. vm_compute. reflexivity. Qed.
