From Coq Require Import List Arith Bool NArith.
From PL.C29 Require Import ModelClauseDB.
Import ListNotations.
Example C29_placeholder : size root0 = 0.
Proof. reflexivity. Qed.
