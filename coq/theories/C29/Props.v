(* C29 — extending a prepared database is equivalent to preparing the union.
   Only statements, closed by `exact`.  Model: ModelClauseDB.v (chain of layers = ClauseDB
   parent pointers / offsets / redirects).  `abs fuel c s` is the definition list of predicate s
   seen through database c (find, get_node, define children in order) rendered back to source
   level (bodies rebuilt from the body nodes, the shared AD body inlined, node numbers and
   group ids dropped); `fuel` bounds the rendering depth and is universally quantified.
   gm is the AD group-id rule (GLocal = `len(self.__nodes)`, the rule before commit 4d38dc0; GGlobal =
   `len(self)`, the code as it is): the theorems hold for both unless they say GGlobal.
   get_node is the repaired lookup (commit 52826ef): `resolve` applies the redirects of the whole parent
   chain, oldest database first. *)
From Coq Require Import List Arith Bool NArith.
From PL.C29 Require Import ModelClauseDB ProofsBase ProofsInv ProofsStmt ProofsAD ProofsHist ProofsRedir ProofsRaw.
Import ListNotations.

(* DESIGN: abs (fold add cs (extend (prepare P))) = abs (prepare (P ++ cs)), per user predicate,
   order preserved, for every base program P, every list cs of added facts / clauses / ADs. *)
Theorem C29_extend_union : forall gm P cs fuel s, is_user s ->
  abs fuel (adds gm cs (extend (adds gm P root0))) s = abs fuel (adds gm (P ++ cs) root0) s.
Proof. exact extend_union. Qed.
Print Assumptions C29_extend_union.

(* ... and that list is the source-level statement list itself: parent's clauses first, then the
   added ones, in order (rendering depth large enough for every statement). *)
Theorem C29_extend_union_spec : forall gm P cs fuel s, is_user s ->
  Forall (fun st => sdepth st < fuel) (P ++ cs) ->
  abs fuel (adds gm cs (extend (adds gm P root0))) s = spec (P ++ cs) s.
Proof. exact extend_union_spec. Qed.
Print Assumptions C29_extend_union_spec.

(* the same through ANY well-formed chain (nested extensions: d may itself be an extension of an
   extension ...): extending is transparent for every later history of additions *)
Theorem C29_extend_transparent : forall gm d ss fuel s, d <> [] -> WFc d -> is_user s ->
  abs fuel (adds gm ss (extend d)) s = abs fuel (adds gm ss d) s.
Proof. exact extend_transparent. Qed.
Print Assumptions C29_extend_transparent.

Theorem C29_adds_append : forall gm c ss fuel s, c <> [] -> WFc c -> is_user s ->
  abs fuel (adds gm ss c) s = abs fuel c s ++ specFs fuel ss s.
Proof. exact adds_abs. Qed.
Print Assumptions C29_adds_append.

(* every chain reachable by any history (adds and nested extends) from the empty root is well-formed *)
Theorem C29_reachable_wf : forall gm ops, WFc (run gm ops root0) /\ run gm ops root0 <> [].
Proof. exact reachable_wf. Qed.
Print Assumptions C29_reachable_wf.

(* parent isolation: whatever is added to an extension, the parent chain is bit-for-bit the same *)
Theorem C29_parent_isolated : forall gm ss d, parent_of (adds gm ss (extend d)) = d.
Proof. exact parent_isolated_adds. Qed.
Print Assumptions C29_parent_isolated.

Theorem C29_parent_abs_unchanged : forall gm ss d fuel s,
  abs fuel (parent_of (adds gm ss (extend d))) s = abs fuel d s.
Proof. exact parent_abs_unchanged. Qed.
Print Assumptions C29_parent_abs_unchanged.

(* for every history with nested extends: all ancestors below the current database are untouched *)
Theorem C29_ancestors_untouched : forall gm ops l p, exists pre, pre <> [] /\ run gm ops (l :: p) = pre ++ p.
Proof. exact run_keeps_parent. Qed.
Print Assumptions C29_ancestors_untouched.

(* no write below the offset is ever attempted (no IndexError path, no in-place update of a
   parent's define node), in any layer, for any history *)
Theorem C29_no_write_below_offset : forall gm ops, any_err (run gm ops root0) = false.
Proof. exact history_no_parent_write. Qed.
Print Assumptions C29_no_write_below_offset.

(* at the moment of extension nothing changes at all *)
Theorem C29_extend_view : forall c i s, chain_ok c ->
  get_node (extend c) i = get_node c i /\ get_head (extend c) s = get_head c s /\ size (extend c) = size c.
Proof. exact extend_view. Qed.
Print Assumptions C29_extend_view.

(* DESIGN: C29_redirect_sound.  For every history of adds and (arbitrarily nested) extends from the
   empty root: let d be the youngest database (q = []) or any of its ancestors (q = the younger
   layers).  Every call node of ANY layer of d - in particular the call nodes of d's ancestors - read
   through d, points (after the redirects of the whole chain) at the node the heads table of d gives
   for the called predicate, i.e. at the define node whose children are exactly the definition list
   `abs` shows for that predicate seen through d: calls see the extended definition. *)
Theorem C29_redirect_sound : forall gm ops q d i f a dn,
  run gm ops root0 = q ++ d ->
  get_node d i = NCall (FU f) a dn ->
  exists h, get_head d (FU f, length a) = Some h /\ resolve d dn = h /\ get_node d dn = get_node d h /\
            forall fuel, map (render_clause fuel d) (define_children (get_node d dn)) = abs fuel d (FU f, length a).
Proof. exact redirect_sound. Qed.
Print Assumptions C29_redirect_sound.

(* ... stated for the call nodes as they are physically stored (`raw`: no redirect applied) in any
   layer of d: such a node is read unchanged through d (redirects only ever move placeholders and define
   nodes), and it reaches the extended definition *)
Theorem C29_redirect_sound_raw : forall gm ops q d i f a dn,
  run gm ops root0 = q ++ d ->
  raw d i = NCall (FU f) a dn ->
  get_node d i = NCall (FU f) a dn /\
  exists h, get_head d (FU f, length a) = Some h /\ resolve d dn = h /\ get_node d dn = get_node d h /\
            forall fuel, map (render_clause fuel d) (define_children (get_node d dn)) = abs fuel d (FU f, length a).
Proof. exact redirect_sound_raw. Qed.
Print Assumptions C29_redirect_sound_raw.

(* the boolean the tie evaluates on every node of every sampled database is a theorem *)
Theorem C29_call_resolves : forall gm ops i, call_resolves (run gm ops root0) i = true.
Proof. exact call_resolves_reachable. Qed.
Print Assumptions C29_call_resolves.

(* ... so a call of the parent program, evaluated in the extension, runs the clauses of the union
   program (parent's clauses first, then the added ones) *)
Theorem C29_calls_see_union : forall gm P cs i f a dn fuel,
  Forall (fun st => sdepth st < fuel) (P ++ cs) ->
  get_node (adds gm cs (extend (adds gm P root0))) i = NCall (FU f) a dn ->
  map (render_clause fuel (adds gm cs (extend (adds gm P root0))))
      (define_children (get_node (adds gm cs (extend (adds gm P root0))) dn))
  = spec (P ++ cs) (FU f, length a).
Proof. exact calls_see_union. Qed.
Print Assumptions C29_calls_see_union.

(* AD group ids.  `tagsz gm ops c` = the statements of the history (extends dropped), each with the
   group id _compile gives it at that moment; `grp c s` = for each clause of the definition list of s
   seen through c the triple (group of the clause node, group in its choice call, group of the choice
   node that call reaches) or None for a clause that is no AD alternative.
   For EVERY history (any nesting depth, either rule): all alternatives of one AD statement carry that
   statement's id, consistently in the three places, and nothing else carries an id. *)
Theorem C29_history_groups : forall gm ops s, is_user s ->
  grp (run gm ops root0) s = specGs (tagsz gm ops root0) s.
Proof. exact history_groups. Qed.
Print Assumptions C29_history_groups.

(* Freshness under the rule `group = len(self)`: two different AD statements of a history - added to
   the same database or to different databases of the chain - never get the same group id. *)
Theorem C29_group_ids_fresh : forall ops, NoDup (ad_tags (tagsz GGlobal ops root0)).
Proof. intros ops. apply ad_tags_fresh. discriminate. Qed.
Print Assumptions C29_group_ids_fresh.

(* the same at the level of the node tables: in every reachable chain no two choice nodes - of any
   layers - carry the same (group id, choice index), so no two AD statements (each has exactly one
   choice 0) share a group id.  (False under the old local rule: Findings.v.) *)
Theorem C29_choice_ids_fresh : forall ops,
  NoDup (choice_groups (run GGlobal ops root0)) /\ NoDup (ad_groups (run GGlobal ops root0)).
Proof. exact choice_ids_fresh. Qed.
Print Assumptions C29_choice_ids_fresh.

(* abs with the group ids kept *)
Theorem C29_history_abs_g : forall gm ops fuel s, is_user s ->
  abs_g fuel (run gm ops root0) s = combine (specFs fuel (stmts_of ops) s) (specGs (tagsz gm ops root0) s).
Proof. exact history_abs_g. Qed.
Print Assumptions C29_history_abs_g.

(* extend-then-add = prepare-the-union ALSO for the partition of the choices into groups: both are the
   source-level clause list of P ++ cs in which every AD statement is tagged with one group id, and in
   both different AD statements have different ids (the ids themselves may differ: the extension
   copies define nodes, which shifts node numbers). *)
Theorem C29_extend_union_groups : forall P cs,
  exists tz1 tz2 : list (stmt * nat),
    map fst tz1 = P ++ cs /\ map fst tz2 = P ++ cs /\
    NoDup (ad_tags tz1) /\ NoDup (ad_tags tz2) /\
    forall fuel s, is_user s ->
      abs_g fuel (adds GGlobal cs (extend (adds GGlobal P root0))) s
        = combine (specFs fuel (P ++ cs) s) (specGs tz1 s) /\
      abs_g fuel (adds GGlobal (P ++ cs) root0) s
        = combine (specFs fuel (P ++ cs) s) (specGs tz2 s).
Proof. exact extend_union_groups. Qed.
Print Assumptions C29_extend_union_groups.

(* ... equivalently: the definition lists WITH group ids of the extension are those of the union
   program under a renaming rho of group ids that is injective on the ids the union's AD statements
   carry (C29_history_groups / C29_group_ids_fresh say these are pairwise distinct) *)
Theorem C29_extend_union_abs_g : forall P cs,
  exists rho : nat -> nat,
    (forall fuel s, is_user s ->
       abs_g fuel (adds GGlobal cs (extend (adds GGlobal P root0))) s
       = map (ren_clause rho) (abs_g fuel (adds GGlobal (P ++ cs) root0) s)) /\
    (forall x y, In x (ad_tags (tagsz GGlobal (map OAdd (P ++ cs)) root0)) ->
                 In y (ad_tags (tagsz GGlobal (map OAdd (P ++ cs)) root0)) -> rho x = rho y -> x = y).
Proof. exact extend_union_groups_renaming. Qed.
Print Assumptions C29_extend_union_abs_g.

(* ---------------------------------------------------------------- non-vacuity *)
Definition p_ : N := 5.  Definition q_ : N := 6.  Definition r_ : N := 7.  Definition a_ : term := [2; 20; 0]%N.
Definition exP : list stmt :=
  [ SFact p_ [a_] (Some 3%N);
    SClause q_ [[0;0]%N] (BAnd (BCall p_ [[0;0]%N]) (BNot (BCall r_ []))) 1 ].
Definition exCs : list stmt :=
  [ SFact p_ [[2;21;0]%N] None;                                         (* extends p/1 of the parent *)
    SAD [(r_, [], 1%N); (q_, [a_], 2%N)] (BCall p_ [[0;0]%N]) 1;        (* AD on new r/0 and existing q/1 *)
    SClause r_ [] (BBuiltin 4 [] 1) 0 ].

Example C29_ex_child_p :
  abs 9 (adds GLocal exCs (extend (adds GLocal exP root0))) (FU p_, 1)
  = [RFact [a_] (Some 3%N); RFact [[2;21;0]%N] None].
Proof. vm_compute. reflexivity. Qed.

Example C29_ex_child_q_has_parent_clause_first :
  length (abs 9 (adds GLocal exCs (extend (adds GLocal exP root0))) (FU q_, 1)) = 2
  /\ abs 9 (adds GLocal exCs (extend (adds GLocal exP root0))) (FU q_, 1) = spec (exP ++ exCs) (FU q_, 1).
Proof. vm_compute. split; reflexivity. Qed.

Example C29_ex_redirect_exists :
  l_redir (hd empty_layer (adds GLocal exCs (extend (adds GLocal exP root0)))) <> [].
Proof. vm_compute. discriminate. Qed.

Example C29_ex_parent_sees_only_its_own :
  abs 9 (parent_of (adds GLocal exCs (extend (adds GLocal exP root0)))) (FU p_, 1) = [RFact [a_] (Some 3%N)].
Proof. vm_compute. reflexivity. Qed.

(* depth 3: the root calls p, the child and the grandchild both extend p, all three add an AD *)
Definition ad3 (f g : N) : stmt := SAD [(f, [], 1%N); (g, [], 2%N)] (BBuiltin 4 [] 1) 0.
Definition ops3 : list op :=
  [ OAdd (SClause r_ [] (BCall p_ []) 0);          (* r :- p.   call node 1, p still undefined *)
    OAdd (ad3 p_ q_);
    OExtend; OAdd (SFact p_ [] None); OAdd (ad3 q_ p_);
    OExtend; OAdd (SFact p_ [] (Some 1%N)); OAdd (ad3 p_ q_) ].

Example C29_ex_depth3_call_sees_grandchild_definition :
  let c := run GGlobal ops3 root0 in
  length c = 3 /\ get_node c 1 = NCall (FU p_) [] 0 /\
  length (l_redir (nth 0 c empty_layer)) = 2 /\ length (l_redir (nth 1 c empty_layer)) = 2 /\
  (exists k v w, In (k, v) (l_redir (nth 1 c empty_layer)) /\ In (v, w) (l_redir (nth 0 c empty_layer))
                 /\ resolve c k = w /\ resolve (tl c) k = v) /\
  length (define_children (get_node c 0)) = 5 /\
  map (render_clause 9 c) (define_children (get_node c 0)) = spec (stmts_of ops3) (FU p_, 0) /\
  (* through the parent (child database) the same call sees 3 clauses, through the root 1 *)
  length (define_children (get_node (tl c) 0)) = 3 /\ length (define_children (get_node (tl (tl c)) 0)) = 1.
Proof. vm_compute. repeat split; try reflexivity. exists 0, 19, 35. vm_compute. repeat split; auto. Qed.

Example C29_ex_depth3_groups :
  let c := run GGlobal ops3 root0 in
  (exists g1 g2 g3, ad_tags (tagsz GGlobal ops3 root0) = [g1; g2; g3] /\ g1 <> g2 /\ g2 <> g3 /\ g1 <> g3 /\
     grp c (FU p_, 0) = [Some (g1, g1, g1); None; Some (g2, g2, g2); None; Some (g3, g3, g3)] /\
     grp c (FU q_, 0) = [Some (g1, g1, g1); Some (g2, g2, g2); Some (g3, g3, g3)])
  /\ NoDup (ad_groups c)
  (* under the old local rule the three ADs of the three layers collide pairwise or not at all by accident *)
  /\ ~ NoDup (ad_tags (tagsz GLocal ops3 root0)).
Proof.
  vm_compute. split; [|split].
  - do 3 eexists. repeat split; try reflexivity; discriminate.
  - repeat constructor; simpl; intuition discriminate.
  - intros H. inversion H as [|x l Hn H1]; subst. inversion H1 as [|y l' Hn' _]; subst. apply Hn'. left. reflexivity.
Qed.

(* abs_g: same clauses, same partition, numerically different group ids (the extension copies the define
   node of p/1 and q/1, which shifts node numbers) *)
Example C29_ex_abs_g_child_vs_union :
  exists g g', g <> g' /\
    map snd (abs_g 9 (adds GGlobal exCs (extend (adds GGlobal exP root0))) (FU q_, 1)) = [None; Some (g, g, g)] /\
    map snd (abs_g 9 (adds GGlobal (exP ++ exCs) root0) (FU q_, 1)) = [None; Some (g', g', g')] /\
    map fst (abs_g 9 (adds GGlobal exCs (extend (adds GGlobal exP root0))) (FU q_, 1))
    = map fst (abs_g 9 (adds GGlobal (exP ++ exCs) root0) (FU q_, 1)).
Proof. vm_compute. do 2 eexists. repeat split; try reflexivity. discriminate. Qed.
