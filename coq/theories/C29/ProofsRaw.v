(* Node-table level freshness of AD group ids under `group = len(self)` (GGlobal): in every chain
   reachable by adds and nested extends no two choice nodes - of any layers - carry the same
   (group, choice index), hence no two AD statements the same group id.  Purely structural
   (no store invariant needed): operations only append nodes or overwrite a node by a define node. *)
From Coq Require Import List Arith Bool NArith Lia.
From PL.C29 Require Import ModelClauseDB ProofsBase ProofsInv ProofsStmt ProofsRedir.
Import ListNotations.

(* ------------------------------------------------------------------ sublists *)
Inductive sub {A : Type} : list A -> list A -> Prop :=
| sub_nil : sub [] []
| sub_skip : forall x a b, sub a b -> sub a (x :: b)
| sub_keep : forall x a b, sub a b -> sub (x :: a) (x :: b).

Lemma sub_refl : forall A (a : list A), sub a a.
Proof. induction a; constructor; assumption. Qed.

Lemma sub_nil_l : forall A (b : list A), sub [] b.
Proof. induction b; constructor; assumption. Qed.

Lemma sub_trans : forall A (a b c : list A), sub a b -> sub b c -> sub a c.
Proof.
  intros A a b c H1 H2. revert a H1. induction H2 as [|x b c H IH|x b c H IH]; intros a H1.
  - exact H1.
  - constructor. apply IH. exact H1.
  - inversion H1; subst.
    + constructor. apply IH. assumption.
    + apply sub_keep. apply IH. assumption.
Qed.

Lemma sub_app : forall A (a b c d : list A), sub a b -> sub c d -> sub (a ++ c) (b ++ d).
Proof.
  intros A a b c d H1 H2. induction H1; simpl.
  - exact H2.
  - constructor. exact IHsub.
  - apply sub_keep. exact IHsub.
Qed.

Lemma sub_app_l : forall A (a b : list A), sub b (a ++ b).
Proof. intros A a b. induction a; simpl; [apply sub_refl|constructor; assumption]. Qed.

Lemma sub_in : forall A (a b : list A) x, sub a b -> In x a -> In x b.
Proof.
  intros A a b x H. induction H; simpl; intros Hin; auto.
  destruct Hin; [left; assumption|right; auto].
Qed.

Lemma sub_nodup : forall A (a b : list A), sub a b -> NoDup b -> NoDup a.
Proof.
  intros A a b H. induction H; intros Hn.
  - constructor.
  - inversion Hn; subst. auto.
  - inversion Hn; subst. constructor; [|auto]. intros Hin. apply H2. eapply sub_in; eauto.
Qed.

Lemma sub_forall : forall A (P : A -> Prop) (a b : list A), sub a b -> Forall P b -> Forall P a.
Proof.
  intros A P a b H. induction H; intros HF; [constructor| |]; inversion HF; subst; auto.
Qed.

Lemma nodup_app : forall A (a b : list A), NoDup a -> NoDup b -> (forall x, In x a -> ~ In x b) -> NoDup (a ++ b).
Proof.
  intros A a b Ha Hb Hd. induction Ha as [|x a Hx Ha IH]; simpl; [exact Hb|].
  constructor.
  - intros Hin. apply in_app_or in Hin. destruct Hin; [contradiction|]. apply (Hd x); [left; reflexivity|assumption].
  - apply IH. intros y Hy. apply Hd. right. exact Hy.
Qed.

(* ------------------------------------------------------------------ the choice ids of a node list *)
Definition cg1 (n : node) : list (nat * nat) := match n with NChoice g i _ _ _ => [(g, i)] | _ => [] end.
Definition cgs (ns : list node) : list (nat * nat) := flat_map cg1 ns.

Lemma cgs_app : forall a b, cgs (a ++ b) = cgs a ++ cgs b.
Proof. intros. apply flat_map_app. Qed.

Lemma choice_groups_cons : forall l p, choice_groups (l :: p) = choice_groups p ++ cgs (l_nodes l).
Proof. intros. unfold choice_groups. simpl iter_nodes. apply flat_map_app. Qed.

Lemma cgs_list_set : forall y ns i, cg1 y = [] -> sub (cgs (list_set i y ns)) (cgs ns).
Proof.
  intros y ns. induction ns as [|x t IH]; intros i Hy; [destruct i; apply sub_refl|].
  destruct i; simpl.
  - unfold cgs at 1. simpl. rewrite Hy. simpl. apply sub_app_l.
  - apply (sub_app _ (cg1 x) (cg1 x)); [apply sub_refl|apply IH; exact Hy].
Qed.

Definition nsub (l l' : layer) : Prop := sub (cgs (l_nodes l')) (cgs (l_nodes l)).

Lemma nsub_refl : forall l, nsub l l.
Proof. intros. apply sub_refl. Qed.

Lemma nsub_trans : forall a b c, nsub a b -> nsub b c -> nsub a c.
Proof. intros a b c H1 H2. unfold nsub in *. eapply sub_trans; eauto. Qed.

Lemma nsub_app : forall p l n, cg1 n = [] -> nsub l (fst (app_node p l n)).
Proof.
  intros p l n H. unfold nsub, app_node. simpl. rewrite cgs_app. unfold cgs at 2. simpl. rewrite H. simpl.
  rewrite app_nil_r. apply sub_refl.
Qed.

Lemma nsub_set : forall p l i n, cg1 n = [] -> nsub l (set_node p l i n).
Proof.
  intros p l i n H. unfold nsub, set_node. destruct (i <? size p); simpl; [apply sub_refl|].
  apply cgs_list_set. exact H.
Qed.

Lemma nsub_add_head : forall p l s cr, nsub l (fst (add_head p l s cr)).
Proof.
  intros. unfold add_head. destruct (get_head (l :: p) s) as [n|].
  - destruct (cr && (n <? size p)); [|apply nsub_refl].
    apply (nsub_app p l (NDefine (fst s) (snd s) (define_children (get_node (l :: p) n)))). reflexivity.
  - destruct cr; [apply (nsub_app p l (NDefine (fst s) (snd s) []))|apply (nsub_app p l NEmpty)]; reflexivity.
Qed.

Lemma nsub_add_define : forall p l s c, nsub l (add_define p l s c).
Proof.
  intros. unfold add_define. pose proof (nsub_add_head p l s true) as H.
  destruct (add_head p l s true) as [l1 di]. simpl fst in H.
  destruct (get_node (l1 :: p) di); try exact H;
    (eapply nsub_trans; [exact H|apply nsub_set; reflexivity]).
Qed.

Lemma nsub_add_clause_node : forall p l f a pr b vc g, nsub l (add_clause_node p l f a pr b vc g).
Proof.
  intros. unfold add_clause_node.
  pose proof (nsub_app p l (NClause f a pr b vc g) eq_refl) as H1.
  destruct (app_node p l (NClause f a pr b vc g)) as [l1 c]. simpl fst in H1.
  eapply nsub_trans; [exact H1|apply nsub_add_define].
Qed.

Lemma nsub_compile_body : forall b p l, nsub l (fst (compile_body p l b)).
Proof.
  induction b as [f args|f args id|a IHa b IHb|a IHa b IHb|a IHa]; intros p l; cbn [compile_body].
  - pose proof (nsub_add_head p l (FU f, length args) false) as H.
    destruct (add_head p l (FU f, length args) false) as [l1 dn]. simpl fst in H.
    eapply nsub_trans; [exact H|apply nsub_app; reflexivity].
  - apply nsub_app. reflexivity.
  - pose proof (IHa p l) as Ha. destruct (compile_body p l a) as [l1 i1]. simpl fst in Ha.
    pose proof (IHb p l1) as Hb. destruct (compile_body p l1 b) as [l2 i2]. simpl fst in Hb.
    eapply nsub_trans; [exact Ha|]. eapply nsub_trans; [exact Hb|apply nsub_app; reflexivity].
  - pose proof (IHa p l) as Ha. destruct (compile_body p l a) as [l1 i1]. simpl fst in Ha.
    pose proof (IHb p l1) as Hb. destruct (compile_body p l1 b) as [l2 i2]. simpl fst in Hb.
    eapply nsub_trans; [exact Ha|]. eapply nsub_trans; [exact Hb|apply nsub_app; reflexivity].
  - pose proof (IHa p l) as Ha. destruct (compile_body p l a) as [l1 i1]. simpl fst in Ha.
    eapply nsub_trans; [exact Ha|apply nsub_app; reflexivity].
Qed.

(* one alternative of an AD adds exactly the choice id (g, i) *)
Lemma cgs_ad_head_step : forall p k g vc bh cb l i h,
  sub (cgs (l_nodes (fst (ad_head_step p k g vc bh cb (l, i) h)))) (cgs (l_nodes l) ++ [(g, i)])
  /\ snd (ad_head_step p k g vc bh cb (l, i) h) = S i.
Proof.
  intros p k g vc bh cb l i [[f a] pr]. unfold ad_head_step.
  assert (E1 : cgs (l_nodes (fst (app_node p l (NChoice g i (t_app f a) (var_args vc) (Some pr)))))
               = cgs (l_nodes l) ++ [(g, i)]).
  { unfold app_node. simpl. rewrite cgs_app. reflexivity. }
  destruct (app_node p l (NChoice g i (t_app f a) (var_args vc) (Some pr))) as [l1 cn]. simpl fst in E1.
  pose proof (nsub_app p l1 (NCallChoice g i (t_app f a) (var_args vc) cn) eq_refl) as S2.
  destruct (app_node p l1 (NCallChoice g i (t_app f a) (var_args vc) cn)) as [l2 cc]. simpl fst in S2.
  pose proof (nsub_app p l2 (NCall (FBody k) bh cb) eq_refl) as S3.
  destruct (app_node p l2 (NCall (FBody k) bh cb)) as [l3 bc]. simpl fst in S3.
  pose proof (nsub_app p l3 (NConj bc cc) eq_refl) as S4.
  destruct (app_node p l3 (NConj bc cc)) as [l4 cj]. simpl fst in S4.
  pose proof (nsub_add_clause_node p l4 (FU f) a (Some pr) cj vc (Some g)) as S5.
  cbn [fst snd]. split; [|reflexivity].
  rewrite <- E1. change (nsub l1 (add_clause_node p l4 (FU f) a (Some pr) cj vc (Some g))).
  eapply nsub_trans; [exact S2|]. eapply nsub_trans; [exact S3|]. eapply nsub_trans; [exact S4|exact S5].
Qed.

Lemma cgs_ad_fold : forall p k g vc bh cb heads l i,
  sub (cgs (l_nodes (fst (fold_left (ad_head_step p k g vc bh cb) heads (l, i)))))
      (cgs (l_nodes l) ++ map (pair g) (seq i (length heads))).
Proof.
  intros p k g vc bh cb heads. induction heads as [|h t IH]; intros l i; cbn [fold_left length seq map].
  - simpl. rewrite app_nil_r. apply sub_refl.
  - destruct (cgs_ad_head_step p k g vc bh cb l i h) as [H1 H2].
    destruct (ad_head_step p k g vc bh cb (l, i) h) as [l' i']. simpl in H1, H2. subst i'.
    eapply sub_trans; [apply IH|].
    change (cgs (l_nodes l) ++ (g, i) :: map (pair g) (seq (S i) (length t)))
      with (cgs (l_nodes l) ++ [(g, i)] ++ map (pair g) (seq (S i) (length t))).
    rewrite app_assoc. apply sub_app; [exact H1|apply sub_refl].
Qed.

Lemma cgs_add_ad : forall gm p l heads b vc,
  sub (cgs (l_nodes (add_ad gm p l heads b vc)))
      (cgs (l_nodes l) ++ map (pair (gsel gm p l)) (seq 0 (length heads))).
Proof.
  intros. unfold add_ad. fold (gsel gm p l).
  pose proof (nsub_compile_body b p l) as H1. destruct (compile_body p l b) as [l1 bn]. simpl fst in H1.
  match goal with |- context [add_head p ?l2 ?s true] =>
    pose proof (nsub_add_head p l2 s true) as H3;
    assert (H2 : nsub l1 l2) by apply nsub_add_clause_node;
    destruct (add_head p l2 s true) as [l3 cb] end.
  simpl fst in H3.
  match goal with |- context [fold_left (ad_head_step p ?k ?g ?vc' ?bh ?cb') heads (l3, 0)] =>
    pose proof (cgs_ad_fold p k g vc' bh cb' heads l3 0) as H4 end.
  eapply sub_trans; [exact H4|]. apply sub_app; [|apply sub_refl].
  change (nsub l l3). eapply nsub_trans; [exact H1|]. eapply nsub_trans; [exact H2|exact H3].
Qed.

Definition extra_ids (gm : gmode) (p : chain) (l : layer) (st : stmt) : list (nat * nat) :=
  match st with SAD heads _ _ => map (pair (gsel gm p l)) (seq 0 (length heads)) | _ => [] end.

Lemma cgs_add_stmt : forall gm p l st,
  sub (cgs (l_nodes (add_stmt gm p l st))) (cgs (l_nodes l) ++ extra_ids gm p l st).
Proof.
  intros gm p l [f a pr|f a b vc|heads b vc|f ar]; unfold add_stmt, extra_ids; rewrite ?app_nil_r.
  - pose proof (nsub_app p l (NFact (FU f) a pr) eq_refl) as H1.
    destruct (app_node p l (NFact (FU f) a pr)) as [l1 c]. simpl fst in H1.
    change (nsub l (add_define p l1 (FU f, length a) c)). eapply nsub_trans; [exact H1|apply nsub_add_define].
  - pose proof (nsub_compile_body b p l) as H1. destruct (compile_body p l b) as [l1 bn]. simpl fst in H1.
    change (nsub l (add_clause_node p l1 (FU f) a None bn vc None)).
    eapply nsub_trans; [exact H1|apply nsub_add_clause_node].
  - apply cgs_add_ad.
  - apply nsub_add_head.
Qed.

(* ------------------------------------------------------------------ the chain-level invariant *)
Definition GI (c : chain) : Prop :=
  NoDup (choice_groups c) /\ Forall (fun gi => fst gi < size c) (choice_groups c).

Lemma nodup_pairs : forall (g : nat) k i, NoDup (map (pair g) (seq i k)).
Proof.
  intros g k. induction k as [|k IH]; intros i; simpl; constructor; [|apply IH].
  intros Hin. apply in_map_iff in Hin. destruct Hin as [j [E Hj]]. inversion E; subst j.
  apply in_seq in Hj. lia.
Qed.

Lemma GI_step : forall c o, GI c -> GI (step GGlobal c o).
Proof.
  intros [|l p] [st|] [Hn Hf]; simpl step; try (split; assumption).
  - (* add a statement *)
    pose proof (cgs_add_stmt GGlobal p l st) as Hs.
    assert (Hsub : sub (choice_groups (add_stmt GGlobal p l st :: p)) (choice_groups (l :: p) ++ extra_ids GGlobal p l st)).
    { rewrite !choice_groups_cons, <- app_assoc. apply sub_app; [apply sub_refl|exact Hs]. }
    assert (Hsz : size (l :: p) <= size (add_stmt GGlobal p l st :: p)) by apply size_add_stmt.
    assert (Hex : Forall (fun gi => fst gi = size (l :: p)) (extra_ids GGlobal p l st)).
    { destruct st; simpl; try constructor. apply Forall_forall. intros x Hx. apply in_map_iff in Hx.
      destruct Hx as [j [E _]]. subst x. reflexivity. }
    split.
    + eapply sub_nodup; [exact Hsub|]. apply nodup_app; [exact Hn| |].
      * destruct st; simpl; try constructor. apply nodup_pairs.
      * intros x Hx Hx'. rewrite Forall_forall in Hf, Hex. specialize (Hf x Hx). specialize (Hex x Hx'). lia.
    + eapply sub_forall; [exact Hsub|]. apply Forall_app. split.
      * eapply Forall_impl; [|exact Hf]. intros x Hx. cbv beta in Hx |- *. lia.
      * destruct st as [f a pr|f a b vc|heads b vc|f ar]; simpl extra_ids; try constructor.
        pose proof (size_add_ad GGlobal p l heads b vc) as Hlt.
        apply Forall_forall. intros x Hx. apply in_map_iff in Hx. destruct Hx as [j [E _]]. subst x.
        cbv beta. cbn [fst]. unfold add_stmt. exact Hlt.
  - (* extend *)
    unfold extend. split.
    + rewrite choice_groups_cons. simpl. rewrite app_nil_r. exact Hn.
    + rewrite choice_groups_cons. simpl. rewrite app_nil_r.
      eapply Forall_impl; [|exact Hf]. intros x Hx. simpl in *. lia.
Qed.

Lemma GI_run : forall ops c, GI c -> GI (run GGlobal ops c).
Proof.
  induction ops as [|o t IH]; intros c H; [exact H|]. unfold run. simpl. apply IH. apply GI_step. exact H.
Qed.

Lemma GI_root0 : GI root0.
Proof. split; constructor. Qed.

(* group ids of the AD statements (their choice 0) *)
Definition ag1 (n : node) : list nat := match n with NChoice g 0 _ _ _ => [g] | _ => [] end.

Lemma ag_in : forall ns g, In g (flat_map ag1 ns) -> In (g, 0) (cgs ns).
Proof.
  induction ns as [|n t IH]; intros g H; [destruct H|]. simpl in H. apply in_app_or in H.
  unfold cgs. simpl. apply in_or_app. destruct H as [H|H]; [left|right; apply IH; exact H].
  destruct n; simpl in H; try contradiction. destruct i; simpl in H; [|contradiction].
  destruct H as [->|[]]. left. reflexivity.
Qed.

Lemma ag_nodup : forall ns, NoDup (cgs ns) -> NoDup (flat_map ag1 ns).
Proof.
  induction ns as [|n t IH]; intros H; [constructor|]. unfold cgs in H. simpl in H. simpl.
  destruct n; simpl in *; try (apply IH; exact H).
  inversion H; subst. destruct i; simpl; [|apply IH; assumption].
  constructor; [|apply IH; assumption]. intros Hin. apply ag_in in Hin. contradiction.
Qed.

Theorem choice_ids_fresh : forall ops,
  NoDup (choice_groups (run GGlobal ops root0)) /\ NoDup (ad_groups (run GGlobal ops root0)).
Proof.
  intros ops. destruct (GI_run ops root0 GI_root0) as [H _]. split; [exact H|].
  apply (ag_nodup (iter_nodes (run GGlobal ops root0))). exact H.
Qed.
