(* Lemmas about the primitive reads/writes of ModelClauseDB and parent isolation. *)
From Coq Require Import List Arith Bool NArith Lia.
From PL.C29 Require Import ModelClauseDB.
Import ListNotations.

(* ------------------------------------------------------------------ parent isolation (structural) *)
Lemma step_keeps_tail : forall gm o l p, exists l', step gm (l :: p) o = l' :: p \/ step gm (l :: p) o = l' :: l :: p.
Proof.
  intros gm o l p. destruct o as [s|]; simpl.
  - eexists. left. reflexivity.
  - exists empty_layer. right. reflexivity.
Qed.

(* every chain reached from l :: p by any history still ends with p, untouched *)
Lemma run_keeps_parent : forall gm ops l p, exists pre, pre <> [] /\ run gm ops (l :: p) = pre ++ p.
Proof.
  intros gm ops. induction ops as [|o ops IH]; intros l p.
  - exists [l]. split; [discriminate|reflexivity].
  - unfold run. simpl fold_left. destruct o as [s|].
    + simpl. apply IH.
    + simpl. unfold extend. destruct (IH empty_layer (l :: p)) as [pre [Hne He]].
      unfold run in He. rewrite He. exists (pre ++ [l]). split.
      * destruct pre; simpl; discriminate.
      * rewrite <- app_assoc. reflexivity.
Qed.

Lemma adds_keep_parent : forall gm ss l p, exists l', adds gm ss (l :: p) = l' :: p.
Proof.
  intros gm ss. induction ss as [|s ss IH]; intros l p.
  - exists l. reflexivity.
  - unfold adds, run. simpl. apply IH.
Qed.

Lemma parent_isolated_adds : forall gm ss d, parent_of (adds gm ss (extend d)) = d.
Proof.
  intros gm ss d. unfold extend. destruct (adds_keep_parent gm ss empty_layer d) as [l' H].
  rewrite H. reflexivity.
Qed.

(* ------------------------------------------------------------------ redirect lookups *)
Lemma redir_get_cases : forall r i, redir_get r i = i \/ In (i, redir_get r i) r.
Proof.
  induction r as [|[k v] r IH]; intros i; simpl.
  - left. reflexivity.
  - destruct (Nat.eqb_spec i k) as [->|Hne].
    + right. left. reflexivity.
    + destruct (IH i) as [H|H]; [left; exact H | right; right; exact H].
Qed.

Definition redir_ok (p : chain) (l : layer) : Prop :=
  forall k v, In (k, v) (l_redir l) -> k < size p /\ size p <= v < size (l :: p).

Lemma redir_get_ge : forall p l i, redir_ok p l -> size p <= i -> redir_get (l_redir l) i = i.
Proof.
  intros p l i H Hi. destruct (redir_get_cases (l_redir l) i) as [E|E]; [exact E|].
  apply H in E. lia.
Qed.

Lemma redir_get_lt : forall p l i, redir_ok p l -> i < size (l :: p) -> redir_get (l_redir l) i < size (l :: p).
Proof.
  intros p l i H Hi. destruct (redir_get_cases (l_redir l) i) as [E|E]; [rewrite E; exact Hi|].
  apply H in E. lia.
Qed.

(* ------------------------------------------------------------------ get_node after the primitive writes *)
Lemma get_node_beyond : forall p l i, redir_ok p l -> size (l :: p) <= i -> get_node (l :: p) i = NEmpty.
Proof.
  intros p l i H Hi. simpl in *. rewrite (redir_get_ge p l i H) by lia.
  destruct (Nat.ltb_spec i (size p)); [lia|]. apply nth_overflow. lia.
Qed.

Lemma get_node_app : forall p l n i, redir_ok p l ->
  get_node (fst (app_node p l n) :: p) i = if i =? size (l :: p) then n else get_node (l :: p) i.
Proof.
  intros p l n i H. unfold app_node. simpl.
  destruct (Nat.eqb_spec i (size p + length (l_nodes l))) as [->|Hne].
  - rewrite (redir_get_ge p l) by (auto; lia).
    destruct (Nat.ltb_spec (size p + length (l_nodes l)) (size p)); [lia|].
    rewrite app_nth2 by lia. replace (size p + length (l_nodes l) - size p - length (l_nodes l)) with 0 by lia. reflexivity.
  - set (i' := redir_get (l_redir l) i).
    destruct (Nat.ltb_spec i' (size p)); [reflexivity|].
    destruct (Nat.lt_ge_cases (i' - size p) (length (l_nodes l))) as [Hlt|Hge].
    + apply app_nth1. exact Hlt.
    + rewrite (nth_overflow (l_nodes l)) by exact Hge.
      destruct (Nat.eq_dec (i' - size p) (length (l_nodes l))) as [E|E].
      * exfalso. assert (i' = size p + length (l_nodes l)) by lia.
        destruct (redir_get_cases (l_redir l) i) as [E2|E2]; fold i' in E2.
        -- lia.
        -- apply H in E2. simpl in E2. lia.
      * apply nth_overflow. rewrite app_length. simpl. lia.
Qed.

Lemma size_app : forall p l n, size (fst (app_node p l n) :: p) = S (size (l :: p)).
Proof. intros. unfold app_node. simpl. rewrite app_length. simpl. lia. Qed.

Lemma snd_app : forall p l n, snd (app_node p l n) = size (l :: p).
Proof. reflexivity. Qed.

Lemma redir_ok_app : forall p l n, redir_ok p l -> redir_ok p (fst (app_node p l n)).
Proof.
  intros p l n H k v Hin. unfold app_node in Hin. simpl in Hin. apply H in Hin.
  rewrite size_app. lia.
Qed.

Lemma get_head_app : forall p l n s, get_head (fst (app_node p l n) :: p) s = get_head (l :: p) s.
Proof. reflexivity. Qed.

Lemma list_set_length : forall A i (x : A) xs, length (list_set i x xs) = length xs.
Proof. intros A i x xs. revert i. induction xs; intros [|i]; simpl; auto. Qed.

Lemma nth_list_set : forall A i j (x d : A) xs, i < length xs ->
  nth j (list_set i x xs) d = if j =? i then x else nth j xs d.
Proof.
  intros A i j x d xs. revert i j. induction xs as [|y xs IH]; intros i j Hi; simpl in Hi; [lia|].
  destruct i, j; simpl; auto.
  rewrite IH by lia. reflexivity.
Qed.

Lemma get_node_set : forall p l di n i, redir_ok p l -> size p <= di < size (l :: p) ->
  get_node (set_node p l di n :: p) i =
  if redir_get (l_redir l) i =? di then n else get_node (l :: p) i.
Proof.
  intros p l di n i H Hd. unfold set_node. destruct (Nat.ltb_spec di (size p)); [lia|].
  simpl. set (i' := redir_get (l_redir l) i).
  destruct (Nat.eqb_spec i' di) as [E|E].
  - rewrite E. destruct (Nat.ltb_spec di (size p)); [lia|].
    rewrite nth_list_set by (simpl in Hd; lia). rewrite Nat.eqb_refl. reflexivity.
  - destruct (Nat.ltb_spec i' (size p)); [reflexivity|].
    destruct (Nat.lt_ge_cases (di - size p) (length (l_nodes l))).
    + rewrite nth_list_set by assumption.
      destruct (Nat.eqb_spec (i' - size p) (di - size p)); [lia|reflexivity].
    + simpl in Hd. lia.
Qed.

Lemma size_set : forall p l di n, size (set_node p l di n :: p) = size (l :: p).
Proof.
  intros. unfold set_node. destruct (di <? size p); simpl; [reflexivity|].
  rewrite list_set_length. reflexivity.
Qed.

Lemma redir_set : forall p l di n, l_redir (set_node p l di n) = l_redir l.
Proof. intros. unfold set_node. destruct (di <? size p); reflexivity. Qed.

Lemma heads_set : forall p l di n, l_heads (set_node p l di n) = l_heads l.
Proof. intros. unfold set_node. destruct (di <? size p); reflexivity. Qed.

Lemma err_set : forall p l di n, size p <= di -> l_err (set_node p l di n) = l_err l.
Proof. intros. unfold set_node. destruct (Nat.ltb_spec di (size p)); [lia|reflexivity]. Qed.

Lemma get_head_set : forall p l di n s, get_head (set_node p l di n :: p) s = get_head (l :: p) s.
Proof. intros. simpl. rewrite heads_set. reflexivity. Qed.

Lemma get_node_set_head : forall p l s i j, get_node (set_head l s i :: p) j = get_node (l :: p) j.
Proof. reflexivity. Qed.

(* extension is transparent at the moment it is created *)
Definition chain_ok (c : chain) : Prop :=
  forall q l p, c = q ++ l :: p -> redir_ok p l.

Lemma chain_ok_top : forall l p, chain_ok (l :: p) -> redir_ok p l.
Proof. intros l p H. apply (H [] l p). reflexivity. Qed.

Lemma chain_ok_tail : forall l p, chain_ok (l :: p) -> chain_ok p.
Proof. intros l p H q l' p' E. apply (H (l :: q) l' p'). rewrite E. reflexivity. Qed.

Lemma chain_ok_cons : forall l p, redir_ok p l -> chain_ok p -> chain_ok (l :: p).
Proof.
  intros l p H1 H2 q l' p' E. destruct q as [|x q]; simpl in E; inversion E; subst.
  - exact H1.
  - apply (H2 q l' p'). reflexivity.
Qed.

Lemma get_node_beyond_chain : forall c i, chain_ok c -> size c <= i -> get_node c i = NEmpty.
Proof.
  intros [|l p] i H Hi; [reflexivity|]. apply get_node_beyond; [apply chain_ok_top; exact H|exact Hi].
Qed.

Lemma get_node_extend : forall c i, chain_ok c -> get_node (extend c) i = get_node c i.
Proof.
  intros c i H. unfold extend. simpl. destruct (Nat.ltb_spec i (size c)); [reflexivity|].
  rewrite get_node_beyond_chain by assumption. destruct (i - size c); reflexivity.
Qed.

Lemma get_head_extend : forall c s, get_head (extend c) s = get_head c s.
Proof. reflexivity. Qed.

Lemma size_extend : forall c, size (extend c) = size c.
Proof. intros. unfold extend. simpl. lia. Qed.

Lemma render_ext : forall c c', (forall i, get_node c' i = get_node c i) ->
  forall fuel i, render fuel c' i = render fuel c i.
Proof.
  intros c c' H fuel. induction fuel as [|fuel IH]; intros i; simpl; [reflexivity|].
  rewrite H. destruct (get_node c i); try reflexivity.
  - destruct f; [reflexivity|]. rewrite H. destruct (get_node c dn); try reflexivity.
    destruct children as [|cl [|? ?]]; try reflexivity. rewrite H.
    destruct (get_node c cl); try reflexivity. rewrite IH. reflexivity.
  - rewrite H. reflexivity.
  - rewrite !IH. reflexivity.
  - rewrite !IH. reflexivity.
  - rewrite IH. reflexivity.
Qed.

Lemma abs_ext : forall c c', (forall i, get_node c' i = get_node c i) -> (forall s, get_head c' s = get_head c s) ->
  forall fuel s, abs fuel c' s = abs fuel c s.
Proof.
  intros c c' Hn Hh fuel s. unfold abs. rewrite Hh. destruct (get_head c s); [|reflexivity].
  rewrite Hn. apply map_ext. intros a. unfold render_clause. rewrite Hn.
  destruct (get_node c a); try reflexivity. rewrite (render_ext c c' Hn). reflexivity.
Qed.

Lemma abs_extend : forall c fuel s, chain_ok c -> abs fuel (extend c) s = abs fuel c s.
Proof.
  intros c fuel s H. apply abs_ext.
  - intros i. apply get_node_extend. exact H.
  - intros s'. apply get_head_extend.
Qed.
