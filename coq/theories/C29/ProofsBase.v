(* Lemmas about the primitive reads/writes of ModelClauseDB and parent isolation. *)
From Coq Require Import List Arith Bool NArith Lia.
From PL.C29 Require Import ModelClauseDB.
Import ListNotations.

(* ------------------------------------------------------------------ parent isolation (structural) *)
Lemma step_keeps_tail : forall gm o l p, exists l', step gm (l :: p) o = l' :: p \/ step gm (l :: p) o = l' :: l :: p.
Proof.
  intros gm o l p. destruct o as [s|]; simpl.
  - eexists. left. reflexivity.
  - exists empty_layer. right. reflexivity.
Qed.

(* every chain reached from l :: p by any history still ends with p, untouched *)
Lemma run_keeps_parent : forall gm ops l p, exists pre, pre <> [] /\ run gm ops (l :: p) = pre ++ p.
Proof.
  intros gm ops. induction ops as [|o ops IH]; intros l p.
  - exists [l]. split; [discriminate|reflexivity].
  - unfold run. simpl fold_left. destruct o as [s|].
    + simpl. apply IH.
    + simpl. unfold extend. destruct (IH empty_layer (l :: p)) as [pre [Hne He]].
      unfold run in He. rewrite He. exists (pre ++ [l]). split.
      * destruct pre; simpl; discriminate.
      * rewrite <- app_assoc. reflexivity.
Qed.

Lemma adds_keep_parent : forall gm ss l p, exists l', adds gm ss (l :: p) = l' :: p.
Proof.
  intros gm ss. induction ss as [|s ss IH]; intros l p.
  - exists l. reflexivity.
  - unfold adds, run. simpl. apply IH.
Qed.

Lemma parent_isolated_adds : forall gm ss d, parent_of (adds gm ss (extend d)) = d.
Proof.
  intros gm ss d. unfold extend. destruct (adds_keep_parent gm ss empty_layer d) as [l' H].
  rewrite H. reflexivity.
Qed.

(* ------------------------------------------------------------------ redirect lookups *)
Lemma redir_get_cases : forall r i, redir_get r i = i \/ In (i, redir_get r i) r.
Proof.
  induction r as [|[k v] r IH]; intros i; simpl.
  - left. reflexivity.
  - destruct (Nat.eqb_spec i k) as [->|Hne].
    + right. left. reflexivity.
    + destruct (IH i) as [H|H]; [left; exact H | right; right; exact H].
Qed.

(* what the parent chain makes of an index before the layer's own redirect is applied *)
Definition pre (p : chain) (i : nat) : nat := if i <? size p then resolve p i else i.

Lemma resolve_cons : forall l p i, resolve (l :: p) i = redir_get (l_redir l) (pre p i).
Proof. reflexivity. Qed.

Lemma get_node_cons : forall l p i,
  get_node (l :: p) i = if resolve (l :: p) i <? size p then get_node p (resolve (l :: p) i)
                        else nth (resolve (l :: p) i - size p) (l_nodes l) NEmpty.
Proof. reflexivity. Qed.

Definition redir_ok1 (p : chain) (l : layer) : Prop :=
  forall k v, In (k, v) (l_redir l) -> k < size p /\ size p <= v < size (l :: p).

(* every layer of the chain keeps its redirect keys below its offset and its values in its own range *)
Fixpoint chain_ok (c : chain) : Prop :=
  match c with [] => True | l :: p => redir_ok1 p l /\ chain_ok p end.

Definition redir_ok (p : chain) (l : layer) : Prop := redir_ok1 p l /\ chain_ok p.

Lemma redir_get_ge : forall p l i, redir_ok p l -> size p <= i -> redir_get (l_redir l) i = i.
Proof.
  intros p l i H Hi. destruct (redir_get_cases (l_redir l) i) as [E|E]; [exact E|].
  apply (proj1 H) in E. lia.
Qed.

Lemma redir_get_lt : forall p l i, redir_ok p l -> i < size (l :: p) -> redir_get (l_redir l) i < size (l :: p).
Proof.
  intros p l i H Hi. destruct (redir_get_cases (l_redir l) i) as [E|E]; [rewrite E; exact Hi|].
  apply (proj1 H) in E. lia.
Qed.

Lemma pre_ge : forall p i, size p <= i -> pre p i = i.
Proof. intros p i H. unfold pre. destruct (Nat.ltb_spec i (size p)); [lia|reflexivity]. Qed.

Lemma resolve_lt : forall c i, chain_ok c -> i < size c -> resolve c i < size c.
Proof.
  induction c as [|l p IH]; intros i H Hi; [simpl in Hi; lia|]. destruct H as [H1 H2].
  rewrite resolve_cons.
  assert (Hp : pre p i < size (l :: p)).
  { unfold pre. destruct (Nat.ltb_spec i (size p)) as [Hlt|Hge]; [|exact Hi].
    specialize (IH i H2 Hlt). simpl. lia. }
  destruct (redir_get_cases (l_redir l) (pre p i)) as [E|E]; [rewrite E; exact Hp|].
  apply H1 in E. lia.
Qed.

Lemma pre_lt : forall p i, chain_ok p -> i < size p -> pre p i < size p.
Proof.
  intros p i H Hi. unfold pre. destruct (Nat.ltb_spec i (size p)); [|lia]. apply resolve_lt; assumption.
Qed.

Lemma resolve_ge : forall c i, chain_ok c -> size c <= i -> resolve c i = i.
Proof.
  intros [|l p] i H Hi; [reflexivity|]. rewrite resolve_cons, pre_ge by (simpl in Hi; lia).
  apply (redir_get_ge p l); [exact H|simpl in Hi; lia].
Qed.

Lemma pre_resolve : forall c i, chain_ok c -> pre c i = resolve c i.
Proof.
  intros c i H. unfold pre. destruct (Nat.ltb_spec i (size c)); [reflexivity|].
  symmetry. apply resolve_ge; assumption.
Qed.

Lemma resolve_idem : forall c i, chain_ok c -> resolve c (resolve c i) = resolve c i.
Proof.
  induction c as [|l p IH]; intros i H; [reflexivity|]. pose proof H as H0. destruct H as [H1 H2].
  rewrite !resolve_cons. set (r := redir_get (l_redir l) (pre p i)).
  destruct (redir_get_cases (l_redir l) (pre p i)) as [E|E]; fold r in E.
  - assert (Hpp : pre p (pre p i) = pre p i).
    { rewrite !(pre_resolve p) by exact H2. apply IH. exact H2. }
    replace (pre p r) with (pre p i) by (rewrite E; symmetry; exact Hpp). reflexivity.
  - apply H1 in E. rewrite pre_ge by lia. apply (redir_get_ge p l); [exact H0|lia].
Qed.

Lemma get_node_resolve : forall c i, chain_ok c -> get_node c (resolve c i) = get_node c i.
Proof.
  intros [|l p] i H; [reflexivity|]. rewrite !get_node_cons, resolve_idem by exact H. reflexivity.
Qed.

Lemma get_node_same_res : forall c j n, chain_ok c -> resolve c j = n -> get_node c j = get_node c n.
Proof.
  intros c j n H E. rewrite <- (get_node_resolve c j H), E. reflexivity.
Qed.

(* get_node reads the physically stored node at the resolved position *)
Lemma raw_lt : forall l p i, i < size p -> raw (l :: p) i = raw p i.
Proof. intros l p i H. simpl. destruct (Nat.ltb_spec i (size p)); [reflexivity|lia]. Qed.

Lemma get_node_raw : forall c i, chain_ok c -> get_node c i = raw c (resolve c i).
Proof.
  induction c as [|l p IH]; intros i H; [reflexivity|]. pose proof H as H0. destruct H as [H1 H2].
  rewrite get_node_cons. set (r := resolve (l :: p) i).
  destruct (Nat.ltb_spec r (size p)) as [Hlt|Hge].
  - rewrite (raw_lt l p r Hlt). rewrite IH by exact H2. f_equal.
    unfold r in *. rewrite resolve_cons in *.
    destruct (redir_get_cases (l_redir l) (pre p i)) as [E|E].
    + rewrite E in *. unfold pre in *. destruct (Nat.ltb_spec i (size p)); [|lia].
      apply resolve_idem. exact H2.
    + apply H1 in E. lia.
  - simpl. destruct (Nat.ltb_spec r (size p)); [lia|reflexivity].
Qed.

(* ------------------------------------------------------------------ get_node after the primitive writes *)
Lemma get_node_beyond : forall p l i, redir_ok p l -> size (l :: p) <= i -> get_node (l :: p) i = NEmpty.
Proof.
  intros p l i H Hi. rewrite get_node_cons, (resolve_ge (l :: p)) by assumption.
  simpl in Hi. destruct (Nat.ltb_spec i (size p)); [lia|]. apply nth_overflow. lia.
Qed.

Lemma get_node_app : forall p l n i, redir_ok p l ->
  get_node (fst (app_node p l n) :: p) i = if i =? size (l :: p) then n else get_node (l :: p) i.
Proof.
  intros p l n i H. rewrite !get_node_cons.
  change (resolve (fst (app_node p l n) :: p) i) with (resolve (l :: p) i).
  unfold app_node. cbn [fst l_nodes].
  destruct (Nat.eqb_spec i (size (l :: p))) as [->|Hne].
  - rewrite (resolve_ge (l :: p)) by (auto; lia). cbn [size].
    destruct (Nat.ltb_spec (size p + length (l_nodes l)) (size p)); [lia|].
    rewrite app_nth2 by lia. replace (size p + length (l_nodes l) - size p - length (l_nodes l)) with 0 by lia. reflexivity.
  - set (i' := resolve (l :: p) i).
    assert (Hi' : i' < size (l :: p) \/ size (l :: p) < i').
    { destruct (Nat.lt_ge_cases i (size (l :: p))) as [Hlt|Hge].
      - left. apply resolve_lt; assumption.
      - right. unfold i'. rewrite (resolve_ge (l :: p)) by assumption. lia. }
    cbn [size] in Hi'.
    destruct (Nat.ltb_spec i' (size p)); [reflexivity|].
    destruct Hi' as [Hlt|Hgt].
    + apply app_nth1. lia.
    + rewrite (nth_overflow (l_nodes l)) by lia. apply nth_overflow. rewrite app_length. simpl. lia.
Qed.

Lemma size_app : forall p l n, size (fst (app_node p l n) :: p) = S (size (l :: p)).
Proof. intros. unfold app_node. simpl. rewrite app_length. simpl. lia. Qed.

Lemma snd_app : forall p l n, snd (app_node p l n) = size (l :: p).
Proof. reflexivity. Qed.

Lemma redir_ok_app : forall p l n, redir_ok p l -> redir_ok p (fst (app_node p l n)).
Proof.
  intros p l n [H Hc]. split; [|exact Hc]. intros k v Hin. unfold app_node in Hin. simpl in Hin. apply H in Hin.
  rewrite size_app. lia.
Qed.

Lemma get_head_app : forall p l n s, get_head (fst (app_node p l n) :: p) s = get_head (l :: p) s.
Proof. reflexivity. Qed.

Lemma list_set_length : forall A i (x : A) xs, length (list_set i x xs) = length xs.
Proof. intros A i x xs. revert i. induction xs; intros [|i]; simpl; auto. Qed.

Lemma nth_list_set : forall A i j (x d : A) xs, i < length xs ->
  nth j (list_set i x xs) d = if j =? i then x else nth j xs d.
Proof.
  intros A i j x d xs. revert i j. induction xs as [|y xs IH]; intros i j Hi; simpl in Hi; [lia|].
  destruct i, j; simpl; auto.
  rewrite IH by lia. reflexivity.
Qed.

Lemma get_node_set : forall p l di n i, redir_ok p l -> size p <= di < size (l :: p) ->
  get_node (set_node p l di n :: p) i =
  if resolve (l :: p) i =? di then n else get_node (l :: p) i.
Proof.
  intros p l di n i H Hd. unfold set_node. destruct (Nat.ltb_spec di (size p)); [lia|].
  rewrite !get_node_cons.
  change (resolve (mkL (list_set (di - size p) n (l_nodes l)) (l_heads l) (l_redir l) (l_err l) :: p) i)
    with (resolve (l :: p) i).
  cbn [l_nodes]. set (i' := resolve (l :: p) i).
  destruct (Nat.eqb_spec i' di) as [E|E].
  - rewrite E. destruct (Nat.ltb_spec di (size p)); [lia|].
    rewrite nth_list_set by (simpl in Hd; lia). rewrite Nat.eqb_refl. reflexivity.
  - destruct (Nat.ltb_spec i' (size p)); [reflexivity|].
    destruct (Nat.lt_ge_cases (di - size p) (length (l_nodes l))).
    + rewrite nth_list_set by assumption.
      destruct (Nat.eqb_spec (i' - size p) (di - size p)); [lia|reflexivity].
    + simpl in Hd. lia.
Qed.

Lemma size_set : forall p l di n, size (set_node p l di n :: p) = size (l :: p).
Proof.
  intros. unfold set_node. destruct (di <? size p); simpl; [reflexivity|].
  rewrite list_set_length. reflexivity.
Qed.

Lemma redir_set : forall p l di n, l_redir (set_node p l di n) = l_redir l.
Proof. intros. unfold set_node. destruct (di <? size p); reflexivity. Qed.

Lemma heads_set : forall p l di n, l_heads (set_node p l di n) = l_heads l.
Proof. intros. unfold set_node. destruct (di <? size p); reflexivity. Qed.

Lemma err_set : forall p l di n, size p <= di -> l_err (set_node p l di n) = l_err l.
Proof. intros. unfold set_node. destruct (Nat.ltb_spec di (size p)); [lia|reflexivity]. Qed.

Lemma get_head_set : forall p l di n s, get_head (set_node p l di n :: p) s = get_head (l :: p) s.
Proof. intros. simpl. rewrite heads_set. reflexivity. Qed.

Lemma get_node_set_head : forall p l s i j, get_node (set_head l s i :: p) j = get_node (l :: p) j.
Proof. reflexivity. Qed.

(* extension is transparent at the moment it is created *)
Lemma chain_ok_top : forall l p, chain_ok (l :: p) -> redir_ok p l.
Proof. intros l p H. exact H. Qed.

Lemma chain_ok_tail : forall l p, chain_ok (l :: p) -> chain_ok p.
Proof. intros l p H. apply H. Qed.

Lemma chain_ok_cons : forall l p, redir_ok p l -> chain_ok p -> chain_ok (l :: p).
Proof. intros l p H1 H2. exact H1. Qed.

Lemma get_node_beyond_chain : forall c i, chain_ok c -> size c <= i -> get_node c i = NEmpty.
Proof.
  intros [|l p] i H Hi; [reflexivity|]. apply get_node_beyond; [apply chain_ok_top; exact H|exact Hi].
Qed.

Lemma resolve_extend : forall c i, chain_ok c -> resolve (extend c) i = resolve c i.
Proof. intros c i H. unfold extend. rewrite resolve_cons. simpl. apply pre_resolve. exact H. Qed.

Lemma get_node_extend : forall c i, chain_ok c -> get_node (extend c) i = get_node c i.
Proof.
  intros c i H. unfold extend. rewrite get_node_cons, resolve_cons. cbn [l_redir empty_layer redir_get l_nodes].
  unfold pre. destruct (Nat.ltb_spec i (size c)) as [Hlt|Hge].
  - pose proof (resolve_lt c i H Hlt) as Hr. destruct (Nat.ltb_spec (resolve c i) (size c)); [|lia].
    apply get_node_resolve. exact H.
  - destruct (Nat.ltb_spec i (size c)); [lia|].
    rewrite get_node_beyond_chain by assumption. destruct (i - size c); reflexivity.
Qed.

Lemma get_head_extend : forall c s, get_head (extend c) s = get_head c s.
Proof. reflexivity. Qed.

Lemma size_extend : forall c, size (extend c) = size c.
Proof. intros. unfold extend. simpl. lia. Qed.

Lemma render_ext : forall c c', (forall i, get_node c' i = get_node c i) ->
  forall fuel i, render fuel c' i = render fuel c i.
Proof.
  intros c c' H fuel. induction fuel as [|fuel IH]; intros i; simpl; [reflexivity|].
  rewrite H. destruct (get_node c i); try reflexivity.
  - destruct f; [reflexivity|]. rewrite H. destruct (get_node c dn); try reflexivity.
    destruct children as [|cl [|? ?]]; try reflexivity. rewrite H.
    destruct (get_node c cl); try reflexivity. rewrite IH. reflexivity.
  - rewrite H. reflexivity.
  - rewrite !IH. reflexivity.
  - rewrite !IH. reflexivity.
  - rewrite IH. reflexivity.
Qed.

Lemma abs_ext : forall c c', (forall i, get_node c' i = get_node c i) -> (forall s, get_head c' s = get_head c s) ->
  forall fuel s, abs fuel c' s = abs fuel c s.
Proof.
  intros c c' Hn Hh fuel s. unfold abs. rewrite Hh. destruct (get_head c s); [|reflexivity].
  rewrite Hn. apply map_ext. intros a. unfold render_clause. rewrite Hn.
  destruct (get_node c a); try reflexivity. rewrite (render_ext c c' Hn). reflexivity.
Qed.

Lemma abs_extend : forall c fuel s, chain_ok c -> abs fuel (extend c) s = abs fuel c s.
Proof.
  intros c fuel s H. apply abs_ext.
  - intros i. apply get_node_extend. exact H.
  - intros s'. apply get_head_extend.
Qed.
