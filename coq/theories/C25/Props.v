(* C25 — exported ground programs keep the original semantics (DIMACS part).
   Only statements. *)
From Coq Require Import ZArith List Bool String.
From PL.C25 Require Import ModelDimacs ProofsDimacs.
Import ListNotations.
Open Scope Z_scope.

(* decimal printing of every integer is read back exactly *)
Theorem C25_int_roundtrip : forall z, Z_of_str (str_Z z) = Some z.
Proof. exact Z_of_str_Z. Qed.
Print Assumptions C25_int_roundtrip.

(* reading the exported DIMACS gives back the atom count and exactly the stored
   clauses (as disjunctions), for every CNF whose clauses the writer can represent *)
Theorem C25_dimacs_roundtrip : forall f, wf_cnf f = true ->
  read_dimacs (to_dimacs_lines f) = Some (atomcount f, map clause_lits (clauses f)).
Proof. exact dimacs_roundtrip. Qed.
Print Assumptions C25_dimacs_roundtrip.

Theorem C25_same_models : forall f a cs,
  read_dimacs (to_dimacs_lines f) = Some (a, cs) -> wf_cnf f = true ->
  forall m, sat m cs = sat m (map clause_lits (clauses f)).
Proof. exact same_models. Qed.
Print Assumptions C25_same_models.

Example C25_dimacs_example :
  wf_cnf {| atomcount := 3; clauses := [(HInt 3, [-1; -2]); (HInt (-3), [1]); (HBool false, [-1; -2]); (HNone, [12; -10])] |} = true /\
  to_dimacs_lines {| atomcount := 3; clauses := [(HInt 3, [-1; -2]); (HInt (-3), [1]); (HBool false, [-1; -2]); (HNone, [12; -10])] |}
  = [["p"; "cnf"; "3"; "4"]; ["3"; "-1"; "-2"; "0"]; ["-3"; "1"; "0"]; ["-1"; "-2"; "0"]; ["12"; "-10"; "0"]]%string.
Proof. vm_compute. split; reflexivity. Qed.
