(* C25 — exported ground programs keep the original semantics (DIMACS part).
   Only statements. *)
From Coq Require Import ZArith List Bool String.
From PL.C25 Require Import ModelDimacs ProofsDimacs.
From PL.C25 Require Import DimacsPrelude GenDimacs ProofsGen.
Import ListNotations.
Open Scope Z_scope.

(* decimal printing of every integer is read back exactly *)
Theorem C25_int_roundtrip : forall z, Z_of_str (str_Z z) = Some z.
Proof. exact Z_of_str_Z. Qed.
Print Assumptions C25_int_roundtrip.

(* reading the exported DIMACS gives back the atom count and exactly the stored
   clauses (as disjunctions), for every CNF whose clauses the writer can represent *)
Theorem C25_dimacs_roundtrip : forall f, wf_cnf f = true ->
  read_dimacs (to_dimacs_lines f) = Some (atomcount f, map clause_lits (clauses f)).
Proof. exact dimacs_roundtrip. Qed.
Print Assumptions C25_dimacs_roundtrip.

Theorem C25_same_models : forall f a cs,
  read_dimacs (to_dimacs_lines f) = Some (a, cs) -> wf_cnf f = true ->
  forall m, sat m cs = sat m (map clause_lits (clauses f)).
Proof. exact same_models. Qed.
Print Assumptions C25_same_models.

Example C25_dimacs_example :
  wf_cnf {| atomcount := 3; clauses := [(HInt 3, [-1; -2]); (HInt (-3), [1]); (HBool false, [-1; -2]); (HNone, [12; -10])] |} = true /\
  to_dimacs_lines {| atomcount := 3; clauses := [(HInt 3, [-1; -2]); (HInt (-3), [1]); (HBool false, [-1; -2]); (HNone, [12; -10])] |}
  = [["p"; "cnf"; "3"; "4"]; ["3"; "-1"; "-2"; "0"]; ["-3"; "1"; "0"]; ["-1"; "-2"; "0"]; ["12"; "-10"; "0"]]%string.
Proof. vm_compute. split; reflexivity. Qed.

(* ------------------------------------------------------------------------------------
   Tie by translation: GenDimacs.v is regenerated on every run from problog/cnf_formula.py
   (CNF.to_dimacs and the non-partial, non-weighted path of CNF._contents, default options) by the
   fail-closed translator gen/c25_dimacs.py (vocabulary: DimacsPrelude.v).
   The token lines read off the translated code ARE the hand model, on every cnf: *)
Theorem C25_generated_is_model : forall f : cnf, to_dimacs_lines_gen f = to_dimacs_lines f.
Proof. exact to_dimacs_lines_gen_is_model. Qed.
Print Assumptions C25_generated_is_model.

(* what the translated _contents returns: the header [atomcount, len(clauses)] and, per stored
   clause, the body with the head in front unless the head is None or False *)
Theorem C25_generated_contents : forall f : cnf,
  contents_gen f = ([HInt (atomcount f); HInt (Z.of_nat (List.length (clauses f)))], map printed_clause (clauses f)).
Proof. exact contents_gen_spec. Qed.
Print Assumptions C25_generated_contents.

(* the translated to_dimacs (STRING level: "p %s %s\n" %, " ".join, + " 0", "\n".join) produces exactly
   the text the token lines stand for (tokens joined by " ", header line terminated by "\n", clause lines
   joined by "\n"), for every cnf without an empty printed clause (for which the code writes " 0",
   two tokens for str.split(" ")) *)
Theorem C25_generated_string_is_rendered_lines : forall f : cnf, nonempty_clauses f = true ->
  to_dimacs_str_gen f = render (to_dimacs_lines f).
Proof. intros f H. rewrite <- to_dimacs_lines_gen_is_model. now apply to_dimacs_str_gen_renders_lines. Qed.
Print Assumptions C25_generated_string_is_rendered_lines.

(* the round trip, stated for the generated definition *)
Theorem C25_generated_roundtrip : forall f, wf_cnf f = true ->
  read_dimacs (to_dimacs_lines_gen f) = Some (atomcount f, map clause_lits (clauses f)).
Proof. exact gen_roundtrip. Qed.
Print Assumptions C25_generated_roundtrip.

Example C25_generated_example :
  nonempty_clauses {| atomcount := 3; clauses := [(HInt 3, [-1; -2]); (HInt (-3), [1]); (HBool false, [-1; -2]); (HNone, [12; -10])] |} = true /\
  to_dimacs_str_gen {| atomcount := 3; clauses := [(HInt 3, [-1; -2]); (HInt (-3), [1]); (HBool false, [-1; -2]); (HNone, [12; -10])] |}
  = ("p cnf 3 4" ++ nl ++ "3 -1 -2 0" ++ nl ++ "-3 1 0" ++ nl ++ "-1 -2 0" ++ nl ++ "12 -10 0")%string.
Proof. vm_compute. split; reflexivity. Qed.
