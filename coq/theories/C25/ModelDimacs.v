(* Hand model of CNF.to_dimacs() (problog/cnf_formula.py), default options
   (partial=False, weighted=False, names=False) and of the clause store it prints.
   A stored clause is [head] + body where head is an int literal (clarks_completion,
   add_atom(force=True)), None, or a bool (add_constraint passes `force`).
   Printing is modelled down to decimal digit strings; joining tokens with " " and
   lines with "\n" is Python's str.join and is tied by the correspondence run. *)
From Coq Require Import ZArith List Bool String Ascii DecimalString DecimalZ.
Import ListNotations.
Open Scope Z_scope.

Inductive head := HInt (z : Z) | HNone | HBool (b : bool).
Record cnf := { atomcount : Z; clauses : list (head * list Z) }.

(* str(int) *)
Definition str_Z (z : Z) : string := NilZero.string_of_int (Z.to_int z).
Definition Z_of_str (s : string) : option Z := option_map Z.of_int (NilZero.int_of_string s).

(* _contents(): `if head is None or type(head) == bool and not head: body else [head] + body` *)
Definition clause_tokens (c : head * list Z) : list string :=
  match fst c with
  | HInt h => map str_Z (h :: snd c)
  | HNone => map str_Z (snd c)
  | HBool false => map str_Z (snd c)
  | HBool true => "True"%string :: map str_Z (snd c)
  end.

(* to_dimacs(): first line "p cnf <atomcount> <len(clauses)>", then one line per clause ending in 0 *)
Definition to_dimacs_lines (f : cnf) : list (list string) :=
  ["p"; "cnf"; str_Z (atomcount f); str_Z (Z.of_nat (List.length (clauses f)))]%string
  :: map (fun c => clause_tokens c ++ ["0"%string]) (clauses f).

(* the disjunction a stored clause stands for *)
Definition clause_lits (c : head * list Z) : list Z :=
  match fst c with
  | HInt h => h :: snd c
  | _ => snd c
  end.
(* clauses the writer can represent faithfully *)
Definition wf_clause (c : head * list Z) : bool :=
  match fst c with HBool true => false | _ => true end && forallb (fun l => negb (l =? 0)) (clause_lits c).
Definition wf_cnf (f : cnf) : bool := forallb wf_clause (clauses f).

(* reference DIMACS reader (token level) *)
Fixpoint read_lits (toks : list string) : option (list Z) :=
  match toks with
  | [] => None                          (* a clause line must end in 0 *)
  | t :: r =>
    match Z_of_str t with
    | None => None
    | Some 0 => match r with [] => Some [] | _ => None end
    | Some z => option_map (cons z) (read_lits r)
    end
  end.
Fixpoint read_clauses (ls : list (list string)) : option (list (list Z)) :=
  match ls with
  | [] => Some []
  | l :: r => match read_lits l, read_clauses r with
              | Some c, Some cs => Some (c :: cs)
              | _, _ => None
              end
  end.
Definition read_dimacs (ls : list (list string)) : option (Z * list (list Z)) :=
  match ls with
  | ["p"; "cnf"; a; n]%string :: body =>
    match Z_of_str a, Z_of_str n, read_clauses body with
    | Some a', Some n', Some cs => if n' =? Z.of_nat (List.length cs) then Some (a', cs) else None
    | _, _, _ => None
    end
  | _ => None
  end.

(* models *)
Definition lit_true (m : Z -> bool) (l : Z) : bool := if 0 <? l then m l else negb (m (- l)).
Definition sat_clause (m : Z -> bool) (c : list Z) : bool := existsb (lit_true m) c.
Definition sat (m : Z -> bool) (cs : list (list Z)) : bool := forallb (sat_clause m) cs.
