(* The GENERATED image of CNF._contents / CNF.to_dimacs (GenDimacs.v, regenerated from /repo on
   every run) against the hand model ModelDimacs.to_dimacs_lines. *)
From Coq Require Import ZArith List Bool String Ascii Lia.
From PL.C25 Require Import ModelDimacs DimacsPrelude GenDimacs ProofsDimacs.
Import ListNotations.
Open Scope Z_scope.

(* the clause _contents appends for a stored clause *)
Definition printed_clause (c : head * list Z) : list head :=
  match fst c with
  | HNone | HBool false => map HInt (snd c)
  | h => h :: map HInt (snd c)
  end.

Lemma fold_append {A B} (g : A -> B) (l : list A) : forall init,
  fold_left (fun acc a => acc ++ [g a]) l init = init ++ map g l.
Proof.
  induction l as [|a l IH]; intros init; cbn; [now rewrite app_nil_r|].
  rewrite IH, <- app_assoc. reflexivity.
Qed.

Lemma fold_left_ext' {A B} (f g : B -> A -> B) (H : forall acc a, f acc a = g acc a) (l : list A) :
  forall init, fold_left f l init = fold_left g l init.
Proof. induction l as [|a l IH]; intros init; cbn; [reflexivity|]. now rewrite H, IH. Qed.

Lemma contents_gen_spec (f : cnf) :
  contents_gen f = ([HInt (atomcount f); HInt (Z.of_nat (List.length (clauses f)))], map printed_clause (clauses f)).
Proof.
  unfold contents_gen. cbv zeta.
  rewrite (fold_left_ext' _ (fun acc c => acc ++ [printed_clause c])).
  - rewrite fold_append. cbn [app]. rewrite map_length. reflexivity.
  - intros acc [h body]. unfold printed_clause. cbn [fst snd app].
    destruct h as [z| |[|]]; reflexivity.
Qed.

Lemma printed_tokens (c : head * list Z) : map str_pv (printed_clause c) = clause_tokens c.
Proof.
  destruct c as [h body]. unfold printed_clause, clause_tokens. cbn [fst snd].
  destruct h as [z| |[|]]; cbn [map str_pv]; rewrite ?map_map; reflexivity.
Qed.

Theorem to_dimacs_lines_gen_is_model : forall f : cnf, to_dimacs_lines_gen f = to_dimacs_lines f.
Proof.
  intros f. unfold to_dimacs_lines_gen, to_dimacs_lines. rewrite contents_gen_spec. cbv zeta beta iota.
  cbn [app map str_pv]. f_equal.
  rewrite map_map. apply map_ext. intros c. now rewrite printed_tokens.
Qed.

(* ---------------------------------------------------------------- the string level *)
Lemma append_assoc (a b c : string) : ((a ++ b) ++ c = a ++ (b ++ c))%string.
Proof. induction a as [|ch a IH]; cbn; [reflexivity|now rewrite IH]. Qed.

Lemma concat_snoc (sep : string) (l : list string) (t : string) :
  l <> [] -> String.concat sep (l ++ [t]) = (String.concat sep l ++ sep ++ t)%string.
Proof.
  induction l as [|x [|y l] IH]; intros H; [contradiction|reflexivity|].
  change ((x :: y :: l) ++ [t])%list with (x :: (y :: l) ++ [t])%list.
  change (String.concat sep (x :: (y :: l) ++ [t])%list) with (x ++ sep ++ String.concat sep ((y :: l) ++ [t]))%string.
  rewrite IH by discriminate.
  change (String.concat sep (x :: y :: l)) with (x ++ sep ++ String.concat sep (y :: l))%string.
  rewrite !append_assoc. reflexivity.
Qed.

(* every printed clause has at least one token: for an EMPTY clause the code writes " 0", which is
   not the join of the token list ["0"] *)
Definition nonempty_clauses (f : cnf) : bool :=
  forallb (fun c => match printed_clause c with [] => false | _ => true end) (clauses f).

Theorem to_dimacs_str_gen_renders_lines : forall f : cnf, nonempty_clauses f = true ->
  to_dimacs_str_gen f = render (to_dimacs_lines_gen f).
Proof.
  intros f Hne. unfold to_dimacs_str_gen, to_dimacs_lines_gen, render. rewrite contents_gen_spec. cbv zeta beta iota.
  cbn [app map str_pv String.concat].
  rewrite map_map.
  rewrite (map_ext_in _ (fun c => String.concat " " (map str_pv (printed_clause c) ++ ["0"%string]))).
  - rewrite !map_map. cbn [String.append]. rewrite !append_assoc. reflexivity.
  - intros c Hc. unfold nonempty_clauses in Hne. rewrite forallb_forall in Hne. specialize (Hne c Hc).
    rewrite concat_snoc; [reflexivity|]. destruct (printed_clause c); [discriminate|cbn; discriminate].
Qed.

(* the round trip for the generated token lines *)
Lemma gen_roundtrip (f : cnf) : wf_cnf f = true ->
  read_dimacs (to_dimacs_lines_gen f) = Some (atomcount f, map clause_lits (clauses f)).
Proof. intros H. rewrite to_dimacs_lines_gen_is_model. now apply dimacs_roundtrip. Qed.
