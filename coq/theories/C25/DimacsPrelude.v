(* Hand-written vocabulary used by the GENERATED image of CNF.to_dimacs / CNF._contents
   (GenDimacs.v, written by gen/c25_dimacs.py).  Each definition is the reading of one Python
   construct; no proofs in this file.
   A Python value that can sit in a clause list is an int, None or a bool = ModelDimacs.head;
   a stored clause `c` is the pair (c[0], c[1:]) of ModelDimacs.cnf. *)
From Coq Require Import ZArith List Bool String Ascii.
From PL.C25 Require Import ModelDimacs.
Import ListNotations.
Open Scope Z_scope.

(* str(v) *)
Definition str_pv (v : head) : string :=
  match v with
  | HInt z => str_Z z
  | HNone => "None"
  | HBool true => "True"
  | HBool false => "False"
  end%string.
(* `v is None`, `type(v) == bool`, truth value of v *)
Definition is_none (v : head) : bool := match v with HNone => true | _ => false end.
Definition is_bool (v : head) : bool := match v with HBool _ => true | _ => false end.
Definition truthy (v : head) : bool :=
  match v with HInt z => negb (z =? 0) | HNone => false | HBool b => b end.

(* the character "\n" *)
Definition nl : string := String (ascii_of_nat 10) EmptyString.

(* the text a list of token lines stands for: tokens joined by " ", the header line terminated
   by "\n", the remaining lines joined by "\n" (no terminator after the last one) *)
Definition render (ls : list (list string)) : string :=
  match ls with
  | [] => EmptyString
  | h :: r => (String.concat " " h ++ nl ++ String.concat nl (map (String.concat " ") r))%string
  end.
