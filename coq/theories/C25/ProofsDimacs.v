From Coq Require Import ZArith List Bool String Ascii DecimalString DecimalZ DecimalPos Decimal Lia.
From PL.C25 Require Import ModelDimacs.
Import ListNotations.
Open Scope Z_scope.

Lemma Z_of_str_Z z : Z_of_str (str_Z z) = Some z.
Proof.
  unfold Z_of_str, str_Z. rewrite NilZero.isi.
  - cbn [option_map]. now rewrite DecimalZ.of_to.
  - destruct z; cbn; try discriminate. intros [= H]. now apply Unsigned.to_uint_nonnil in H.
  - destruct z; cbn; try discriminate. intros [= H]. now apply Unsigned.to_uint_nonnil in H.
Qed.

Lemma read_lits_print (ls : list Z) :
  forallb (fun l => negb (l =? 0)) ls = true ->
  read_lits (map str_Z ls ++ ["0"%string]) = Some ls.
Proof.
  induction ls as [|l r IH]; intros H; [reflexivity|].
  cbn [forallb] in H. apply andb_true_iff in H. destruct H as [Hl Hr].
  apply negb_true_iff, Z.eqb_neq in Hl.
  change (read_lits (map str_Z (l :: r) ++ ["0"%string])) with
    (match Z_of_str (str_Z l) with
     | None => None
     | Some 0 => match map str_Z r ++ ["0"%string] with [] => Some [] | _ => None end
     | Some z => option_map (cons z) (read_lits (map str_Z r ++ ["0"%string]))
     end).
  rewrite Z_of_str_Z. destruct l; [contradiction| |]; rewrite (IH Hr); reflexivity.
Qed.

Lemma clause_roundtrip c : wf_clause c = true -> read_lits (clause_tokens c ++ ["0"%string]) = Some (clause_lits c).
Proof.
  unfold wf_clause, clause_tokens, clause_lits. destruct c as [[h| |[|]] body]; cbn [fst snd]; intros H;
    apply andb_true_iff in H; destruct H as [H1 H2]; try discriminate; apply (read_lits_print _ H2).
Qed.

Lemma clauses_roundtrip cs :
  forallb wf_clause cs = true ->
  read_clauses (map (fun c => clause_tokens c ++ ["0"%string]) cs) = Some (map clause_lits cs).
Proof.
  induction cs as [|c r IH]; intros H; [reflexivity|].
  cbn [forallb] in H. apply andb_true_iff in H. destruct H as [Hc Hr].
  cbn [map read_clauses]. rewrite (clause_roundtrip c Hc), (IH Hr). reflexivity.
Qed.

Lemma dimacs_roundtrip f :
  wf_cnf f = true -> read_dimacs (to_dimacs_lines f) = Some (atomcount f, map clause_lits (clauses f)).
Proof.
  intros H. unfold to_dimacs_lines, read_dimacs.
  rewrite !Z_of_str_Z, (clauses_roundtrip _ H), map_length, Z.eqb_refl. reflexivity.
Qed.

Lemma same_models f a cs :
  read_dimacs (to_dimacs_lines f) = Some (a, cs) -> wf_cnf f = true ->
  forall m, sat m cs = sat m (map clause_lits (clauses f)).
Proof. intros H Hw m. rewrite (dimacs_roundtrip f Hw) in H. injection H as _ <-. reflexivity. Qed.
