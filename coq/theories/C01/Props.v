(* C01 — exact inference computes the distribution semantics (statements only). *)
From Coq Require Import NArith QArith List Bool.
From PL.Sem Require Import Program Sem.
Import ListNotations.

(* non-vacuity: 0.3::a. 0.5::b :- a. c :- b, \+a.  query(b) | evidence(c,false) *)
Example C01_example :
  gprob (mkG [AD [(3#10, (1%N, []))] []; AD [(1#2, (2%N, []))] [Pos (1%N, [])];
              Rule (3%N, []) [Pos (2%N, []); Neg (1%N, [])]] [(2%N, [])] [((3%N, []), false)])
        (2%N, []) = Ok (3#20).
Proof. vm_compute. reflexivity. Qed.
