(* C01 — exact inference computes the distribution semantics.
   Sem.prob (coq/theories/Sem/Sem.v) is the specification: sum over total choices of the weight of the
   choice times the truth of the query in the well-founded model of the induced normal program,
   conditioned on the evidence.  Only statements here; proofs in Sem/WMCProofs.v, Sem/StratProofs.v. *)
From Coq Require Import NArith QArith List Bool.
From PL.Sem Require Import Program Sem SemBasics PermProofs StratProofs FuelProofs WMC WMCProofs.
Import ListNotations.

(* ad_encoding: the exactly-one constraint over the k head variables plus the extra "none" variable, with
   positive literal weights p_1..p_k, 1 - sum p and negative literal weights 1 (constraint.py ConstraintAD),
   summed over ALL 2^(k+1) assignments, is the categorical distribution over {h_1..h_k, none}. *)
Theorem C01_ad_encoding : forall (hs : list (Q * gatom)) (g : option gatom -> Q),
  wmc_ad gatom hs g == lsum hs (fun h => g (Some h)) + (1 - sum_p hs) * g None.
Proof. exact (ad_encoding gatom). Qed.
Print Assumptions C01_ad_encoding.

(* the weighted model count over the choice variables of all ground AD instances equals the
   possible-world sum of the semantics, for every world valuation F *)
Theorem C01_wmc_is_world_sum : forall F cs acc, wmc gatom F cs acc == wsum gatom F cs acc.
Proof. exact (wmc_wsum gatom). Qed.
Print Assumptions C01_wmc_is_world_sum.

(* conditional_def: whenever the semantics answers p, then WMC(evidence) <> 0 and p = WMC(q /\ e) / WMC(e) *)
Theorem C01_conditional_def : forall cs ev q p,
  prob_gen gatom gatom_eqb cs ev q = Ok p ->
  let U := universe gatom gatom_eqb cs in
  let we := wmc gatom (ind_true gatom gatom_eqb U (fun T => holds gatom gatom_eqb T ev)) cs [] in
  let wqe := wmc gatom (ind_true gatom gatom_eqb U (fun T => mem gatom gatom_eqb q T && holds gatom gatom_eqb T ev)) cs [] in
  ~ we == 0 /\ p == wqe / we.
Proof. exact (conditional_def gatom gatom_eqb). Qed.
Print Assumptions C01_conditional_def.

(* a program is declared Inconsistent only when the weighted model count of the evidence is 0 *)
Theorem C01_inconsistent_def : forall cs ev q,
  prob_gen gatom gatom_eqb cs ev q = Inconsistent ->
  wmc gatom (ind_true gatom gatom_eqb (universe gatom gatom_eqb cs) (fun T => holds gatom gatom_eqb T ev)) cs [] == 0.
Proof. exact (inconsistent_def gatom gatom_eqb). Qed.
Print Assumptions C01_inconsistent_def.

(* on the fragment of the property (no cycle through negation) the semantics never answers NotTwoValued:
   the well-founded model of every world is total, i.e. it is the unique stable / perfect model *)
Theorem C01_fragment_total : forall cs ev q,
  neg_cycle_free gatom gatom_eqb cs = Some true -> prob_gen gatom gatom_eqb cs ev q <> NotTwoValued.
Proof. exact (neg_cycle_free_not_NotTwoValued gatom gatom_eqb gatom_eqb_spec). Qed.
Print Assumptions C01_fragment_total.

(* the specification is total: the fuel of its fixpoint iterations (2 + number of head atoms) always suffices *)
Theorem C01_never_out_of_fuel : forall cs ev q, prob_gen gatom gatom_eqb cs ev q <> OutOfFuel.
Proof. exact (prob_gen_fuel gatom gatom_eqb gatom_eqb_spec). Qed.
Print Assumptions C01_never_out_of_fuel.

(* FULL STATEMENT of DESIGN C01, NOT proved (the theorems above are the part `C01_pipeline_correct_partial`):
     C01_pipeline_correct : forall P q, wf_program P -> stratified P -> infer_m P q = Sem.prob P q
   where infer_m = normalize_m . wmc_m . clark_m . break_cycles_m . ground_m mirrors the code's stages.
   Proved here: the last two stages at the level of choice variables (AD encoding + conditioning = ratio).
   Missing stage lemmas: ground_m_sound (relevant and-or graph = instantiated program), C09_break_cycles,
   C09_clark (owned by the C09 slice), and the composition.  C01_unreported_zero / C01_inconsistent on the
   pipeline model are consequently not stated.  The real pipeline is tied to Sem.prob by the differential
   check of harness/props/C01.py on every run. *)

(* non-vacuity: 0.3::a. 0.5::b :- a. c :- b, \+a.  query(b) | evidence(c,false) *)
Example C01_example :
  gprob (mkG [AD [(3#10, (1%N, []))] []; AD [(1#2, (2%N, []))] [Pos (1%N, [])];
              Rule (3%N, []) [Pos (2%N, []); Neg (1%N, [])]] [(2%N, [])] [((3%N, []), false)])
        (2%N, []) = Ok (3#20).
Proof. vm_compute. reflexivity. Qed.

(* the WMC over 2 + 3 choice variables of a two-AD program, computed literally *)
Example C01_example_wmc :
  wmc gatom (fun acc => if existsb (fun r => gatom_eqb (fst r) (2%N, [])) acc then 1 else 0)
      [AD [(3#10, (1%N, []))] []; AD [(1#2, (2%N, [])); (1#4, (3%N, []))] []] [] == 1#2.
Proof. vm_compute. reflexivity. Qed.
