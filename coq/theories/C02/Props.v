(* C02 — programs with a cycle through negation are rejected, never answered.
   Semantic side.  Only statements; proofs in Sem/StratProofs.v. *)
From Coq Require Import NArith QArith List Bool.
From PL.Sem Require Import Program Sem SemBasics StratProofs FuelProofs.
Import ListNotations.

(* If the ground dependency graph has no cycle through negation, the well-founded model of EVERY
   world (total choice) is two-valued: no atom is undefined. *)
Theorem C02_stratified_two_valued : forall cs,
  neg_cycle_free gatom gatom_eqb cs = Some true ->
  forall w0 wt rules, In (wt, rules) (worlds gatom cs [] w0) ->
  forall U m, wfm gatom gatom_eqb rules U = Some m -> two_valued gatom gatom_eqb m = true.
Proof. exact (neg_cycle_free_two_valued gatom gatom_eqb gatom_eqb_spec). Qed.
Print Assumptions C02_stratified_two_valued.

(* The boolean test computes a stratification (level mapping) of the ground program ... *)
Theorem C02_neg_cycle_free_stratified : forall cs,
  neg_cycle_free gatom gatom_eqb cs = Some true -> exists lvl, stratified_prog gatom lvl cs.
Proof. exact (neg_cycle_free_stratified gatom gatom_eqb gatom_eqb_spec). Qed.
Print Assumptions C02_neg_cycle_free_stratified.

(* ... and decides the graph property "some negative edge h -neg-> b closes a cycle (b = h or b reaches h)". *)
Theorem C02_neg_cycle_free_dec_true : forall E,
  neg_cycle_free_E gatom gatom_eqb E = Some true -> ~ neg_cycle gatom E.
Proof. exact (neg_cycle_free_true_sound gatom gatom_eqb gatom_eqb_spec). Qed.
Print Assumptions C02_neg_cycle_free_dec_true.

Theorem C02_neg_cycle_free_dec_false : forall E,
  neg_cycle_free_E gatom gatom_eqb E = Some false -> neg_cycle gatom E.
Proof. exact (neg_cycle_free_false_complete gatom gatom_eqb gatom_eqb_spec). Qed.
Print Assumptions C02_neg_cycle_free_dec_false.

(* The classes are disjoint in substance: a must_answer program (no cycle through negation) is never
   declared NotTwoValued by the semantics, i.e. Sem.prob returns a number or Inconsistent. *)
Theorem C02_must_answer_is_answered : forall cs ev q,
  neg_cycle_free gatom gatom_eqb cs = Some true -> prob_gen gatom gatom_eqb cs ev q <> NotTwoValued.
Proof. exact (neg_cycle_free_not_NotTwoValued gatom gatom_eqb gatom_eqb_spec). Qed.
Print Assumptions C02_must_answer_is_answered.

(* Stratification by an arbitrary level mapping is enough (used for predicate-level strata). *)
Theorem C02_level_mapping_two_valued : forall lvl rules U T Uk,
  stratified_by gatom lvl rules -> wfm gatom gatom_eqb rules U = Some (T, Uk) -> incl Uk T.
Proof. exact (stratified_two_valued gatom gatom_eqb gatom_eqb_spec). Qed.
Print Assumptions C02_level_mapping_two_valued.

(* The well-founded model always exists: the alternating fixpoint converges within its fuel (2 + |U|),
   so the hypotheses `wfm .. = Some m` above are never vacuous. *)
Theorem C02_wfm_total : forall rules U, wfm gatom gatom_eqb rules U <> None.
Proof. exact (wfm_total gatom gatom_eqb gatom_eqb_spec). Qed.
Print Assumptions C02_wfm_total.

(* NOT proved: (1) fuel sufficiency of the graph closure `reach` (explicit None otherwise; never observed);
   (2) C02_answer_is_C01 : must_answer P -> infer_m P q = Sem.prob P q  (needs the pipeline model of C01);
   (3) SemFast.fast_classify = Sem.classify (tied by the differential self-check of the C02 run). *)

(* non-vacuity *)
Example C02_example_stratified :
  neg_cycle_free gatom gatom_eqb
    [AD [(1#2, (1%N, []))] []; Rule (2%N, []) [Neg (1%N, [])]; Rule (3%N, []) [Pos (3%N, []); Neg (2%N, [])]] = Some true.
Proof. vm_compute. reflexivity. Qed.

(* p :- \+q. q :- \+p.  has a negative cycle, its world is three-valued; relevant => must_reject, irrelevant => either *)
Example C02_example_loop :
  let cs := [Rule (1%N, []) [Neg (2%N, [])]; Rule (2%N, []) [Neg (1%N, [])]] in
  neg_cycle_free gatom gatom_eqb cs = Some false /\
  (exists m, wfm gatom gatom_eqb [((2%N, []), [Neg (1%N, [])]); ((1%N, []), [Neg (2%N, [])])] (universe gatom gatom_eqb cs) = Some m
             /\ two_valued gatom gatom_eqb m = false) /\
  classify gatom gatom_eqb cs [(1%N, [])] = MustReject /\
  classify gatom gatom_eqb cs [(3%N, [])] = Either.
Proof. vm_compute. repeat split. eexists. split; reflexivity. Qed.
