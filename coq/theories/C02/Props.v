(* C02 — cycles through negation are rejected, never answered (statements only). *)
From Coq Require Import NArith QArith List Bool.
From PL.Sem Require Import Program Sem.
Import ListNotations.

(* non-vacuity: p :- \+q. q :- \+p.  has a negative cycle and its single world is three-valued *)
Example C02_example_loop :
  let cs := [Rule (1%N, []) [Neg (2%N, [])]; Rule (2%N, []) [Neg (1%N, [])]] in
  neg_cycle_free gatom gatom_eqb cs = Some false /\
  classify gatom gatom_eqb cs [(1%N, [])] = MustReject /\
  classify gatom gatom_eqb cs [(3%N, [])] = Either.
Proof. vm_compute. repeat split. Qed.
