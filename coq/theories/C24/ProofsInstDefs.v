(* C24 -- instantiation of the abstract k-block EM (ProofsEMBlocks.v) by the executable LFI model
   (ModelLFIUpdate.v): shared definitions.  No proofs in this file.

   post_body / post_par are the two ratios that [estep1] computes per example and parameter
   (before the 1e-6 clamp); FB / FP the expected counts that [update] accumulates from them.
   The decidable side conditions of the model-level monotonicity theorem are the booleans below. *)
From Coq Require Import QArith List Bool Arith.
From PL.C24 Require Import ModelLFIUpdate ProofsBasic.
Import ListNotations.
Open Scope Q_scope.

Definition dcl : clause := Clause [] [].

Definition post_body (th : list Q) (p : program) (me : Q * example) (i : nat) : Q :=
  wsum (ev_worlds (wtable th p) (snd me)) (body_pred p i) / pevidence th p (snd me).
Definition post_par (th : list Q) (p : program) (me : Q * example) (i : nat) : Q :=
  wsum (ev_worlds (wtable th p) (snd me)) (par_pred p i) / pevidence th p (snd me).

(* expected number of "head i selected and body true" / "body of i's clause true" *)
Definition FB (th : list Q) (p : program) (exs : list (Q * example)) (i : nat) : Q :=
  psum (fun me => fst me * post_body th p me i) exs.
Definition FP (th : list Q) (p : program) (exs : list (Q * example)) (i : nat) : Q :=
  psum (fun me => fst me * post_par th p me i) exs.

(* ------------------------------------------------------------------ decidable side conditions *)
Definition zero_or_ge (bound x : Q) : bool := Qeq_bool x 0 || Qle_bool bound x.

(* the 1e-6 clamp of ExampleEvaluator changes no posterior *)
Definition clamp_inactive (th : list Q) (p : program) (exs : list (Q * example)) (n : nat) : bool :=
  forallb (fun me => forallb (fun i => zero_or_ge clampq (post_body th p me i) &&
                                       zero_or_ge clampq (post_par th p me i)) (seq 0 n)) exs.
(* the 1e-15 floor of _update changes no expected count *)
Definition floor_inactive (th : list Q) (p : program) (exs : list (Q * example)) (n : nat) : bool :=
  forallb (fun i => Qeq_bool (FB th p exs i) 0 || negb (Qle_bool (FB th p exs i) floorq)) (seq 0 n).
(* every example reaches every parameter (no "relevant-only" counting) *)
Definition all_queried (p : program) (exs : list (Q * example)) (n : nat) : bool :=
  forallb (fun me => forallb (fun i => existsb (Nat.eqb i) (queried p (snd me))) (seq 0 n)) exs.
(* every example has positive probability *)
Definition ev_pos (th : list Q) (p : program) (exs : list (Q * example)) : bool :=
  forallb (fun me => negb (Qle_bool (pevidence th p (snd me)) 0)) exs.
Definition mult_pos (exs : list (Q * example)) : bool :=
  forallb (fun me => negb (Qle_bool (fst me) 0)) exs.
(* a clause is either purely tunable or has no tunable head (no constant head inside a tunable block) *)
Definition is_tun (h : hkind) : bool := match h with HTun _ => true | _ => false end.
Definition has_tun (c : clause) : bool := existsb (fun h => is_tun (snd h)) (heads c).
Definition pure_clause (c : clause) : bool :=
  forallb (fun h => is_tun (snd h)) (heads c) || negb (has_tun c).
(* (#) the tunable heads of every AD (>= 2 tunable heads) already sum to the available mass *)
Definition ads_full (th : list Q) (p : program) : bool :=
  forallb (fun c => (length (tun_of c) <? 2)%nat ||
                    Qeq_bool (psum (fun i => nth i th 0) (tun_of c)) (1 - fixed_sum c)) p.
(* the body of every tunable clause has positive expected posterior mass (the block is seen by the data) *)
Definition bodies_seen (th : list Q) (p : program) (exs : list (Q * example)) (n : nat) : bool :=
  forallb (fun i => negb (Qle_bool (FP th p exs i) 0)) (seq 0 n).
