(* C24 -- link L1, second generalisation: a summed-out clause (U b) may have outcomes that select a relevant head,
   as long as the two weight tables agree on these outcomes; the remaining outcomes (class N) select only
   irrelevant heads and have the same total weight in both tables ([mixingH]). *)
From Coq Require Import QArith Reals List Bool Arith Lia Lra.
From PL.C24 Require Import ModelLFIUpdate ProofsEM ProofsEMBlocks ProofsInstDefs ProofsInstLatent ProofsInstLatentG.
Import ListNotations.
Open Scope R_scope.

Section RelH.
  Variable Rel : nat -> bool.

  Lemma rel_indep_nH : forall p1 c p2 w1 k k' w2,
    wf_prog (p1 ++ c :: p2) = true -> rel_closed Rel (p1 ++ c :: p2) ->
    (forall h, nth_error (heads c) k = Some h -> Rel (fst h) = false) ->
    (forall h, nth_error (heads c) k' = Some h -> Rel (fst h) = false) ->
    length w1 = length p1 ->
    forall n a, (a < n)%nat -> Rel a = true ->
    nth a (eval_atoms (p1 ++ c :: p2) (w1 ++ k' :: w2) n) false =
    nth a (eval_atoms (p1 ++ c :: p2) (w1 ++ k :: w2) n) false.
  Proof.
    intros p1 c p2 w1 k k' w2 W RC NRk NRk' L. set (P := p1 ++ c :: p2) in *.
    induction n as [|n IH]; intros a Ha Ra; [lia|].
    cbn [eval_atoms]. destruct (Nat.eq_dec a n) as [->|Hne].
    - rewrite !app_nth2 by (rewrite eval_length; lia). rewrite !eval_length, Nat.sub_diag. cbn [nth].
      unfold P. rewrite !combine_split by auto. rewrite !existsb_app. cbn [existsb]. fold P.
      assert (Hin1 : forall x, In x (combine p1 w1) -> In (fst x) P).
      { intros [c' kc'] Hx. apply in_combine_l in Hx. unfold P. apply in_or_app. auto. }
      assert (Hin2 : forall x, In x (combine p2 w2) -> In (fst x) P).
      { intros [c' kc'] Hx. apply in_combine_l in Hx. unfold P. apply in_or_app. right. simpl. auto. }
      f_equal; [|f_equal].
      + apply existsb_ext_in. intros [c' kc'] Hx. pose proof (Hin1 _ Hx) as Hc'. cbn [fst] in Hc'.
        apply (fires_rel_eq Rel P c' kc'); auto. eapply wf_prog_in; eauto.
      + assert (F : forall v kk, (forall h, nth_error (heads c) kk = Some h -> Rel (fst h) = false) ->
                                 fires v n (c, kk) = false).
        { intros v kk NR. unfold fires. cbn [fst snd].
          destruct (nth_error (heads c) kk) as [[a' hk]|] eqn:E; [|reflexivity].
          destruct (Nat.eqb_spec a' n) as [->|_]; [|reflexivity].
          pose proof (NR (n, hk) eq_refl) as K. cbn [fst] in K. congruence. }
        rewrite (F _ k NRk), (F _ k' NRk'). reflexivity.
      + apply existsb_ext_in. intros [c' kc'] Hx. pose proof (Hin2 _ Hx) as Hc'. cbn [fst] in Hc'.
        apply (fires_rel_eq Rel P c' kc'); auto. eapply wf_prog_in; eauto.
    - rewrite !app_nth1 by (rewrite eval_length; lia). apply IH; auto. lia.
  Qed.

  Lemma rel_indepH : forall p1 c p2 w1 k k' w2,
    wf_prog (p1 ++ c :: p2) = true -> rel_closed Rel (p1 ++ c :: p2) ->
    (forall h, nth_error (heads c) k = Some h -> Rel (fst h) = false) ->
    (forall h, nth_error (heads c) k' = Some h -> Rel (fst h) = false) ->
    length w1 = length p1 ->
    agree Rel (world_vals (p1 ++ c :: p2) (w1 ++ k' :: w2)) (world_vals (p1 ++ c :: p2) (w1 ++ k :: w2)).
  Proof.
    intros p1 c p2 w1 k k' w2 W RC NRk NRk' L a Ra. unfold world_vals.
    destruct (lt_dec a (natoms (p1 ++ c :: p2))) as [Ha|Ha].
    - apply rel_indep_nH; auto.
    - rewrite !nth_overflow by (rewrite eval_length; lia). reflexivity.
  Qed.

  Lemma existsb_false_in : forall A (f : A -> bool) l, existsb f l = false -> forall x, In x l -> f x = false.
  Proof.
    intros A f l H x Hx. destruct (f x) eqn:E; [|reflexivity].
    assert (existsb f l = true) by (apply existsb_exists; exists x; auto). congruence.
  Qed.

  Lemma hybrid_stepH : forall p1 c p2 (w w0 : nat -> nat -> R) (T U : nat -> bool) (Nn : nat -> bool) g,
    wf_prog (p1 ++ c :: p2) = true -> rel_closed Rel (p1 ++ c :: p2) ->
    (forall v v', agree Rel v v' -> g v = g v') ->
    (forall b, (b < length (p1 ++ c :: p2))%nat -> T b = true ->
       forall l, In l (body (nth b (p1 ++ c :: p2) dcl)) -> Rel (fst l) = true) ->
    (T (length p1) = true ->
       sumR (w (length p1)) (options c) = sumR (w0 (length p1)) (options c)) ->
    (T (length p1) = false -> U (length p1) = false -> forall k, w (length p1) k = w0 (length p1) k) ->
    (U (length p1) = true ->
       T (length p1) = false /\
       (forall k h, Nn k = true -> nth_error (heads c) k = Some h -> Rel (fst h) = false) /\
       (forall k, Nn k = false -> w (length p1) k = w0 (length p1) k) /\
       sumR (fun k => if Nn k then w (length p1) k else 0) (options c) =
       sumR (fun k => if Nn k then w0 (length p1) k else 0) (options c)) ->
    hyb (p1 ++ c :: p2) w w0 T g (length p1) = hyb (p1 ++ c :: p2) w w0 T g (S (length p1)).
  Proof.
    intros p1 c p2 w w0 T U Nn g WP RC Hg HT H1 H2 HU.
    destruct (U (length p1)) eqn:Uj.
    2:{ apply hybrid_step.
        - eapply wf_prog_mid; eauto.
        - intros Tj. apply H1. auto.
        - intros Tj k. apply H2; auto. }
    destruct (HU eq_refl) as [Tj [NR [NE NS]]].
    unfold hyb. rewrite !sum_worlds_split.
    set (P := p1 ++ c :: p2) in *. set (j := length p1) in *.
    assert (Hj : (j < length P)%nat) by (unfold P, j; rewrite app_length; simpl; lia).
    apply sumR_ext. intros w1 Hw1. apply worlds_len in Hw1.
    apply sumR_ext. intros w2 _.
    set (zk := fun k => w1 ++ k :: w2).
    set (rest := fun jj k => prodR (fun b => if (b =? j)%nat then 1 else fac P w w0 T jj b (zk k)) (seq 0 (length P))).
    assert (I : forall jj k, prodR (fun b => fac P w w0 T jj b (zk k)) (seq 0 (length P)) =
                             fac P w w0 T jj j (zk k) * rest jj k).
    { intros jj k. apply (prodR_isolate (fun b => fac P w w0 T jj b (zk k))). auto. }
    assert (RS : forall k, rest (S j) k = rest j k).
    { intros k. unfold rest. apply prodR_ext. intros b Hb.
      destruct (Nat.eqb_spec b j) as [->|Hne]; [reflexivity|]. unfold fac.
      destruct (Nat.ltb_spec b j); destruct (Nat.ltb_spec b (S j)); try lia; reflexivity. }
    assert (Fj : forall k, fac P w w0 T (S j) j (zk k) = w j k).
    { intros k. unfold fac. destruct (Nat.ltb_spec j (S j)); [|lia].
      unfold zk, j. rewrite <- Hw1. rewrite nth_mid. reflexivity. }
    assert (Fj0 : forall k, fac P w w0 T j j (zk k) = w0 j k).
    { intros k. unfold fac. destruct (Nat.ltb_spec j j); [lia|]. unfold act. rewrite Tj. cbn [andb].
      unfold zk, j. rewrite <- Hw1. rewrite nth_mid. reflexivity. }
    destruct (existsb Nn (options c)) eqn:EX.
    2:{ (* no outcome of class N: the two tables agree on every outcome *)
        apply sumR_ext. intros k Hk. fold (zk k). rewrite !I, Fj, Fj0, RS.
        rewrite (NE k (existsb_false_in _ _ _ EX k Hk)). reflexivity. }
    apply existsb_exists in EX. destruct EX as [k0 [Hk0 Nk0]].
    assert (V : forall k, Nn k = true -> agree Rel (world_vals P (zk k)) (world_vals P (zk k0))).
    { intros k Nk. apply (rel_indepH p1 c p2 w1 k0 k w2 WP RC); auto.
      - intros h. apply NR; auto.
      - intros h. apply NR; auto. }
    assert (R0 : forall k, Nn k = true -> rest j k = rest j k0).
    { intros k Nk. unfold rest. apply prodR_ext. intros b Hb. apply in_seq in Hb.
      destruct (Nat.eqb_spec b j) as [->|Hne]; [reflexivity|]. unfold fac, act.
      assert (N : nth b (zk k) 0%nat = nth b (zk k0) 0%nat)
        by (unfold zk; apply nth_mid_other; unfold j in Hne; lia).
      rewrite N. destruct (T b) eqn:Tb; cbn [andb]; [|reflexivity].
      rewrite (conj_true_agree Rel _ _ _ (V k Nk)); [reflexivity|]. apply HT; auto. lia. }
    set (C := g (world_vals P (zk k0)) * rest j k0).
    set (X := fun k => if Nn k then 0 else g (world_vals P (zk k)) * (w j k * rest j k)).
    rewrite (sumR_ext _ _ (fun k => C * (if Nn k then w0 j k else 0) + X k)).
    2:{ intros k _. fold (zk k). rewrite I, Fj0. unfold X, C. destruct (Nn k) eqn:Nk.
        - rewrite (R0 k Nk), (Hg _ _ (V k Nk)). ring.
        - rewrite (NE k Nk). ring. }
    rewrite (sumR_ext _ (fun k => g (world_vals P (w1 ++ k :: w2)) *
                                  prodR (fun b => fac P w w0 T (S j) b (w1 ++ k :: w2)) (seq 0 (length P)))
                      (fun k => C * (if Nn k then w j k else 0) + X k)).
    2:{ intros k _. fold (zk k). rewrite I, Fj, RS. unfold X, C. destruct (Nn k) eqn:Nk.
        - rewrite (R0 k Nk), (Hg _ _ (V k Nk)). ring.
        - ring. }
    rewrite !sumR_plus, !sumR_scal_l. fold j in NS. rewrite NS. reflexivity.
  Qed.

  Theorem mixingH_sec : forall P (w w0 : nat -> nat -> R) (T U : nat -> bool) (N : nat -> nat -> bool)
    (g : list bool -> R),
    wf_prog P = true -> rel_closed Rel P ->
    (forall v v', agree Rel v v' -> g v = g v') ->
    (forall b, (b < length P)%nat -> T b = true -> forall l, In l (body (nth b P dcl)) -> Rel (fst l) = true) ->
    (forall b, (b < length P)%nat -> T b = true ->
       sumR (w b) (options (nth b P dcl)) = sumR (w0 b) (options (nth b P dcl))) ->
    (forall b k, T b = false -> U b = false -> w b k = w0 b k) ->
    (forall b, (b < length P)%nat -> U b = true ->
       T b = false /\
       (forall k h, N b k = true -> nth_error (heads (nth b P dcl)) k = Some h -> Rel (fst h) = false) /\
       (forall k, N b k = false -> w b k = w0 b k) /\
       sumR (fun k => if N b k then w b k else 0) (options (nth b P dcl)) =
       sumR (fun k => if N b k then w0 b k else 0) (options (nth b P dcl))) ->
    sumR (fun z => g (world_vals P z) *
                   prodR (fun b => if act P T b z then w b (nth b z 0%nat) else w0 b (nth b z 0%nat))
                         (seq 0 (length P))) (worlds P)
    = sumR (fun z => g (world_vals P z) * prodR (fun b => w b (nth b z 0%nat)) (seq 0 (length P))) (worlds P).
  Proof.
    intros P w w0 T U N g W RC Hg HT H1 H2 HU.
    assert (A : forall j, (j <= length P)%nat -> hyb P w w0 T g 0 = hyb P w w0 T g j).
    { induction j as [|j IH]; intros Hj; [reflexivity|]. rewrite IH by lia.
      destruct (split_at P j) as [p1 [c [p2 [E L]]]]; [lia|]. subst P. subst j.
      apply (hybrid_stepH p1 c p2 w w0 T U (N (length p1)) g); auto.
      - intros Tj. specialize (H1 (length p1)). rewrite nth_mid_clause in H1. apply H1; auto.
      - intros Uj. specialize (HU (length p1)). rewrite nth_mid_clause in HU. apply HU; auto. }
    pose proof (A (length P) (le_n _)) as H. unfold hyb in H.
    etransitivity; [etransitivity; [|exact H]|].
    - apply sumR_ext. intros z _. f_equal.
    - apply sumR_ext. intros z _. f_equal. apply prodR_ext. intros b Hb. apply in_seq in Hb.
      unfold fac. destruct (Nat.ltb_spec b (length P)); [reflexivity|lia].
  Qed.
End RelH.

Theorem mixingH : forall (Rel : nat -> bool) P (w w0 : nat -> nat -> R) (T U : nat -> bool) (N : nat -> nat -> bool)
  (g : list bool -> R),
  wf_prog P = true -> rel_closed Rel P ->
  (forall v v', agree Rel v v' -> g v = g v') ->
  (forall b, (b < length P)%nat -> T b = true -> forall l, In l (body (nth b P dcl)) -> Rel (fst l) = true) ->
  (forall b, (b < length P)%nat -> T b = true ->
     sumR (w b) (options (nth b P dcl)) = sumR (w0 b) (options (nth b P dcl))) ->
  (forall b k, T b = false -> U b = false -> w b k = w0 b k) ->
  (forall b, (b < length P)%nat -> U b = true ->
     T b = false /\
     (forall k h, N b k = true -> nth_error (heads (nth b P dcl)) k = Some h -> Rel (fst h) = false) /\
     (forall k, N b k = false -> w b k = w0 b k) /\
     sumR (fun k => if N b k then w b k else 0) (options (nth b P dcl)) =
     sumR (fun k => if N b k then w0 b k else 0) (options (nth b P dcl))) ->
  sumR (fun z => g (world_vals P z) *
                 prodR (fun b => if act P T b z then w b (nth b z 0%nat) else w0 b (nth b z 0%nat))
                       (seq 0 (length P))) (worlds P)
  = sumR (fun z => g (world_vals P z) * prodR (fun b => w b (nth b z 0%nat)) (seq 0 (length P))) (worlds P).
Proof. exact mixingH_sec. Qed.

