(* C24 -- link L3 (M-step) and the model-level monotonicity theorem:
   one normalised iteration [step true p exs th0] of the LFI model IS the block EM update of the instance of
   ProofsInstModel.v, hence it does not decrease the log-likelihood of the data. *)
From Coq Require Import QArith Qreals Reals List Bool Arith Lia Lra.
From PL.C24 Require Import ModelLFIUpdate ProofsBasic ProofsRange ProofsEM ProofsEMBlocks ProofsInstDefs
  ProofsInstTransport ProofsInstLatent ProofsInstModel ProofsInstCounts ProofsInstQ ProofsInstMstep.
Import ListNotations.
Open Scope R_scope.

Lemma sumR_seq_nth_gen : forall A (f : A -> R) d l s,
  sumR (fun k => f (nth (k - s) l d)) (seq s (length l)) = sumR f l.
Proof.
  induction l as [|x t IH]; intros s; [reflexivity|].
  cbn [length seq sumR]. rewrite Nat.sub_diag. cbn [nth]. f_equal.
  rewrite <- (IH (S s)). apply sumR_ext. intros k Hk. apply in_seq in Hk.
  replace (k - s)%nat with (S (k - S s)) by lia. reflexivity.
Qed.

Lemma sumR_seq_nth : forall A (f : A -> R) d l, sumR (fun k => f (nth k l d)) (seq 0 (length l)) = sumR f l.
Proof.
  intros. rewrite <- (sumR_seq_nth_gen A f d l 0). apply sumR_ext. intros k _. rewrite Nat.sub_0_r. reflexivity.
Qed.

(* the complete-data likelihood only reads the parameters of outcomes of its blocks *)
Lemma fmulti_ext : forall (E Z : Type) (a : E -> Z -> R) bs (ks : nat -> list nat) (kap : nat -> E -> Z -> option nat)
  (t1 t2 : nat -> nat -> R) e z,
  (forall b k, In b bs -> kap b e z = Some k -> In k (ks b)) ->
  (forall b k, In b bs -> In k (ks b) -> t1 b k = t2 b k) ->
  fmulti a bs kap t1 e z = fmulti a bs kap t2 e z.
Proof.
  intros E Z a bs ks kap t1 t2 e z KI EQ. unfold fmulti. f_equal. apply prodR_ext. intros b Hb.
  unfold bfactor. destruct (kap b e z) as [k|] eqn:K; [|reflexivity]. apply EQ; eauto.
Qed.

Section Step.
  Variables (p : program) (th0 : list Q) (exs : list (Q * example)).
  Hypothesis W : wf_prog p = true.
  Hypothesis WP : wf_params p (length th0) = true.
  Hypothesis WT : wf_theta p th0 = true.
  Hypothesis NE : exs <> [].
  Hypothesis MP : mult_pos exs = true.
  Hypothesis EP : ev_pos th0 p exs = true.
  Hypothesis AQ : all_queried p exs (length th0) = true.
  Hypothesis CI : clamp_inactive th0 p exs (length th0) = true.
  Hypothesis FI : floor_inactive th0 p exs (length th0) = true.
  Hypothesis PC : forallb pure_clause p = true.
  Hypothesis AF : ads_full th0 p = true.
  Hypothesis BS : bodies_seen th0 p exs (length th0) = true.

  Let th' := step true p exs th0.
  Let bc := bcounts exs m_m (m_zs p) (m_a th0 p) (m_bs p) (m_kap p) (m_th th0 p).
  Let bt := btotal exs m_m (m_zs p) (m_a th0 p) (m_bs p) (m_ks p) (m_kap p) (m_th th0 p).
  Let em := em_update_blocks exs m_m (m_zs p) (m_a th0 p) (m_bs p) (m_ks p) m_avail (m_kap p) (m_th th0 p).

  Lemma ND : NoDup (flat_map tun_of p).
  Proof. rewrite (wf_params_spec p _ WP). apply seq_NoDup. Qed.

  Lemma tun_lt : forall c i, In c p -> In i (tun_of c) -> (i < length th0)%nat.
  Proof.
    intros c i Hc Hi. assert (In i (flat_map tun_of p)) by (apply in_flat_map; eauto).
    rewrite (wf_params_spec p _ WP) in H. apply in_seq in H. lia.
  Qed.

  (* facts about a clause that carries a block *)
  Lemma clause_facts : forall b, (b < length p)%nat -> Tb p b = true ->
    In (nth b p dcl) p /\ wf_clause (nth b p dcl) = true /\ all_tun (nth b p dcl) = true.
  Proof.
    intros b Hb T. assert (Hc : In (nth b p dcl) p) by (apply nth_In; auto). split; auto.
    split.
    - unfold wf_prog in W. rewrite forallb_forall in W. auto.
    - rewrite forallb_forall in PC. apply pure_all_tun; auto.
  Qed.

  Lemma em_off : forall b k, Tb p b = false -> em b k = m_th th' p b k.
  Proof.
    intros b k T. unfold em, em_update_blocks.
    assert (Z0 : btotal exs m_m (m_zs p) (m_a th0 p) (m_bs p) (m_ks p) (m_kap p) (m_th th0 p) b = 0).
    { unfold btotal. rewrite (sumR_ext _ _ (fun _ => 0)); [apply sumR_zero|].
      intros k' _. apply bcounts_off. exact T. }
    destruct (Req_EM_T _ 0) as [_|NZ]; [|contradiction]. unfold m_th. rewrite T. reflexivity.
  Qed.

  Lemma head_counts : forall b k h, (b < length p)%nat -> Tb p b = true ->
    nth_error (heads (nth b p dcl)) k = Some h ->
    bc b k = Q2R (FB th0 p exs (hidx h)) /\ bt b = Q2R (FP th0 p exs (hidx h)) /\
    In (hidx h) (tun_of (nth b p dcl)) /\ (0 < FP th0 p exs (hidx h))%Q.
  Proof.
    intros b k h Hb T E. destruct (clause_facts b Hb T) as [Hc [Wc AT]].
    pose proof (all_tun_head _ k h AT E) as Eh.
    assert (Hi : In (hidx h) (tun_of (nth b p dcl))).
    { rewrite (all_tun_tun_of _ AT). apply in_map. eapply nth_error_In; eauto. }
    assert (E' : nth_error (heads (nth b p dcl)) k = Some (fst h, HTun (hidx h))) by (rewrite <- Eh; exact E).
    repeat split.
    - apply (bcounts_FB p th0 exs W EP b k (fst h) (hidx h) ND Hb E').
    - apply (btotal_FP p th0 exs W EP b k (fst h) (hidx h) ND Hb E').
    - exact Hi.
    - apply (bodies_seen_spec th0 p exs (length th0)); auto. eapply tun_lt; eauto.
  Qed.

  Lemma sum_bc_heads : forall b, (b < length p)%nat -> Tb p b = true ->
    sumR (bc b) (seq 0 (length (heads (nth b p dcl)))) = Q2R (psum (FB th0 p exs) (tun_of (nth b p dcl))).
  Proof.
    intros b Hb T. destruct (clause_facts b Hb T) as [Hc [Wc AT]].
    rewrite (all_tun_tun_of _ AT), Q2R_psum, sumR_map.
    rewrite <- (sumR_seq_nth _ (fun h => Q2R (FB th0 p exs (hidx h))) (0%nat, HDet) (heads (nth b p dcl))).
    apply sumR_ext. intros k Hk. apply in_seq in Hk.
    assert (E : nth_error (heads (nth b p dcl)) k = Some (nth k (heads (nth b p dcl)) (0%nat, HDet)))
      by (apply nth_error_nth'; lia).
    destruct (head_counts b k _ Hb T E) as [A _]. exact A.
  Qed.

  Lemma bt_split : forall b, (b < length p)%nat -> Tb p b = true ->
    bt b = sumR (bc b) (seq 0 (length (heads (nth b p dcl)))) + bc b (length (heads (nth b p dcl))).
  Proof.
    intros b Hb T. destruct (clause_facts b Hb T) as [Hc [Wc AT]].
    unfold bt, btotal, m_ks, options. rewrite (all_tun_not_det _ AT).
    rewrite seq_S, sumR_appL. cbn [sumR plus]. unfold bc. ring.
  Qed.

  (* L3: the normalised M-step of the model is the block update *)
  Theorem mstep_is_block_update : forall b k, (b < length p)%nat -> In k (m_ks p b) ->
    em b k = m_th th' p b k.
  Proof.
    intros b k Hb Hk. destruct (Tb p b) eqn:T; [|apply em_off; auto].
    destruct (clause_facts b Hb T) as [Hc [Wc AT]].
    set (c := nth b p dcl) in *.
    assert (Hk' : (k <= length (heads c))%nat).
    { unfold m_ks, options in Hk. fold c in Hk. rewrite (all_tun_not_det _ AT) in Hk. apply in_seq in Hk. lia. }
    (* the first head exists *)
    assert (EHx : exists h0 hs, heads c = h0 :: hs).
    { destruct (heads c) as [|h0 hs] eqn:EH; [|eauto].
      unfold Tb in T. fold c in T. unfold has_tun in T. rewrite EH in T. discriminate. }
    destruct EHx as [h0 [hs EH]].
    assert (E0 : nth_error (heads c) 0 = Some h0) by (rewrite EH; reflexivity).
    destruct (head_counts b 0 h0 Hb T E0) as [C0 [BT0 [Hi0 FP0]]]. fold c in Hi0.
    assert (FP0R : 0 < Q2R (FP th0 p exs (hidx h0))) by (rewrite <- Q2R_0; apply Qlt_Rlt; exact FP0).
    assert (BTpos : 0 < bt b) by (rewrite BT0; exact FP0R).
    unfold em, em_update_blocks. fold (bt b).
    destruct (Req_EM_T (bt b) 0) as [Z0|NZ]; [lra|]. unfold m_avail. fold (bc b k).
    unfold m_th. rewrite T. unfold swR. fold c.
    pose proof (bt_split b Hb T) as SPL. fold c in SPL.
    destruct hs as [|h1 hs'].
    - (* ---------------- one tunable head: a tunable fact / rule *)
      assert (TO : tun_of c = [hidx h0]) by (rewrite (all_tun_tun_of _ AT), EH; reflexivity).
      pose proof (mstep_closed_form_single p exs th0 c (hidx h0) WP NE MP EP AQ CI FI Hc TO) as CF.
      fold th' in CF.
      assert (NZQ : ~ (FP th0 p exs (hidx h0) == 0)%Q).
      { intro K. rewrite K in FP0. apply (Qlt_irrefl 0). exact FP0. }
      assert (V : Q2R (nth (hidx h0) th' 0%Q) = Q2R (FB th0 p exs (hidx h0)) / Q2R (FP th0 p exs (hidx h0))).
      { rewrite (Qeq_eqR _ _ CF). apply Q2R_div'. exact NZQ. }
      rewrite EH in SPL. cbn [length seq sumR] in SPL.
      assert (k = 0 \/ k = 1)%nat as [-> | ->] by (rewrite EH in Hk'; simpl in Hk'; lia).
      + rewrite (sel_weight_head th' c 0 h0 AT E0). rewrite V, C0, BT0. field. lra.
      + rewrite (sel_weight_none th' c 1) by (rewrite EH; reflexivity).
        assert (HS : Q2R (1 - heads_sum th' c) = 1 - Q2R (nth (hidx h0) th' 0%Q)).
        { rewrite <- Q2R_1, <- Q2R_minus. apply Qeq_eqR. rewrite (single_heads_sum th' c h0 EH).
          rewrite (all_tun_head c 0 h0 AT E0). reflexivity. }
        rewrite HS, V. rewrite BT0, C0 in SPL. rewrite BT0.
        replace (bc b 1%nat) with (Q2R (FP th0 p exs (hidx h0)) - Q2R (FB th0 p exs (hidx h0))) by lra.
        field. lra.
    - (* ---------------- an annotated disjunction with >= 2 tunable heads *)
      set (n := length (heads c)) in *.
      assert (Ln : (2 <= length (tun_of c))%nat).
      { rewrite (all_tun_tun_of _ AT), map_length, EH. simpl. lia. }
      (* the "no head" outcome has weight 0 before the step, hence expected count 0 *)
      assert (Cn : bc b n = 0).
      { unfold bc. apply (th_zero_count_zero (Q * example) world exs m_m (m_zs p) (m_a th0 p) (m_bs p) (m_kap p)).
        - intros me Hme. eapply mult_pos_spec; eauto.
        - intros me z. apply m_a_nonneg; auto.
        - intros b' k' Hb'. apply m_th_nonneg; auto.
        - intros me Hme. apply (m_lik_pos p th0 exs me W EP Hme).
        - unfold m_bs. apply in_seq. lia.
        - unfold m_th. rewrite T. unfold swR. fold c.
          rewrite (sel_weight_none th0 c n) by (apply nth_error_None; unfold n; lia).
          rewrite <- Q2R_0. apply Qeq_eqR. apply (none_zero_before th0 p c Wc AT AF Hc Ln). }
      pose proof (sum_bc_heads b Hb T) as SB. fold c in SB. fold n in SB.
      fold n in SPL. rewrite Cn, SB in SPL.
      set (S := psum (FB th0 p exs) (tun_of c)) in *.
      assert (SposR : 0 < Q2R S) by lra.
      assert (Spos : (0 < S)%Q) by (apply Rlt_Qlt; rewrite Q2R_0; exact SposR).
      assert (NZQ : ~ (S == 0)%Q) by (intro K; rewrite K in Spos; apply (Qlt_irrefl 0); exact Spos).
      assert (CF : forall i, In i (tun_of c) ->
                 (nth i th' 0 == (1 - fixed_sum c) * FB th0 p exs i / S)%Q).
      { intros i Hi. destruct (mstep_closed_form p exs th0 c i W WP WT NE MP EP AQ CI FI Hc Hi) as [_ M].
        apply M; auto. }
      destruct (Nat.eq_dec k n) as [->|Hne].
      + rewrite (sel_weight_none th' c n) by (apply nth_error_None; unfold n; lia).
        rewrite Cn.
        rewrite (Qeq_eqR _ _ (none_zero_after th' (FB th0 p exs) c Wc AT Spos CF)). rewrite Q2R_0.
        unfold Rdiv. ring.
      + assert (Hkn : (k < n)%nat) by lia.
        assert (E : nth_error (heads c) k = Some (nth k (heads c) (0%nat, HDet)))
          by (apply nth_error_nth'; exact Hkn).
        set (h := nth k (heads c) (0%nat, HDet)) in *.
        destruct (head_counts b k h Hb T E) as [Ck [_ [Hik _]]]. fold c in Hik.
        rewrite (sel_weight_head th' c k h AT E).
        rewrite (Qeq_eqR _ _ (CF (hidx h) Hik)).
        rewrite Q2R_div' by exact NZQ. rewrite Q2R_mult, Q2R_minus, Q2R_1.
        rewrite (Qeq_eqR _ _ (all_tun_fixed_sum c AT)), Q2R_0.
        fold (bc b k). rewrite Ck, SPL. field. lra.
  Qed.

  (* ------------------------------------------------------------------ the abstract hypotheses *)
  Lemma abs_kap_in : forall b (me : Q * example) z k, In b (m_bs p) -> In me exs -> In z (m_zs p me) ->
    m_kap p b me z = Some k -> In k (m_ks p b).
  Proof. intros. eapply m_kap_in; eauto. Qed.

  Lemma LL_is_LLm : forall th, LL exs m_m (m_zs p) (m_f th0 p) (m_th th p) = LLm p exs th.
  Proof.
    intros th. unfold LL, LLm. apply sumR_ext. intros me _.
    rewrite latent_space_sums_to_evidence by auto. reflexivity.
  Qed.

  Lemma lik_update : forall me, In me exs ->
    lik (m_zs p) (m_f th0 p) em me = lik (m_zs p) (m_f th0 p) (m_th th' p) me.
  Proof.
    intros me Hme. unfold lik. apply sumR_ext. intros z Hz. unfold m_f.
    apply (fmulti_ext _ _ (m_a th0 p) (m_bs p) (m_ks p) (m_kap p)).
    - intros b k Hb K. eapply abs_kap_in; eauto.
    - intros b k Hb Hk. apply mstep_is_block_update; auto. unfold m_bs in Hb. apply in_seq in Hb. lia.
  Qed.

  (* MODEL-LEVEL MONOTONICITY *)
  Theorem em_monotone_model_sec : LLm p exs th0 <= LLm p exs th'.
  Proof.
    rewrite <- !LL_is_LLm.
    pose proof (em_monotone_blocks (Q * example) world exs m_m (m_zs p) (m_a th0 p) (m_bs p) (m_ks p) m_avail (m_kap p)
                  (m_ks_nodup p) abs_kap_in
                  (fun me Hme => mult_pos_spec exs me MP Hme)
                  (fun me z => m_a_nonneg p th0 me z W WT)
                  (fun b _ => Rlt_0_1)
                  (m_th th0 p)
                  (fun b k Hb => m_th_nonneg p th0 b k W WT Hb)
                  (fun b _ => m_th_sum p th0 b)
                  (fun me Hme => m_lik_pos p th0 exs me W EP Hme)) as M.
    fold em in M. unfold m_f.
    eapply Rle_trans; [exact M|]. right. unfold LL. apply sumR_ext. intros me Hme.
    f_equal. f_equal. apply lik_update. exact Hme.
  Qed.

  (* every example keeps a positive probability after the step *)
  Theorem ev_pos_after_sec : forall me, In me exs -> (0 < pevidence th' p (snd me))%Q.
  Proof.
    intros me Hme.
    pose proof (lik_pos_after (Q * example) world exs m_m (m_zs p) (m_a th0 p) (m_bs p) (m_ks p) m_avail (m_kap p)
                  abs_kap_in
                  (fun me Hme => mult_pos_spec exs me MP Hme)
                  (fun me z => m_a_nonneg p th0 me z W WT)
                  (fun b _ => Rlt_0_1)
                  (m_th th0 p)
                  (fun b k Hb => m_th_nonneg p th0 b k W WT Hb)
                  (fun me Hme => m_lik_pos p th0 exs me W EP Hme) me Hme) as L.
    fold em in L. fold (m_f th0 p) in L. rewrite (lik_update me Hme) in L.
    rewrite latent_space_sums_to_evidence in L by auto.
    apply Rlt_Qlt. rewrite Q2R_0. exact L.
  Qed.
End Step.

(* ------------------------------------------------------------------ closed statements *)
(* all decidable side conditions in one boolean *)
Definition em_side (p : program) (exs : list (Q * example)) (th : list Q) : bool :=
  wf_prog p && wf_params p (length th) && wf_theta p th &&
  mult_pos exs && ev_pos th p exs && all_queried p exs (length th) &&
  clamp_inactive th p exs (length th) && floor_inactive th p exs (length th) &&
  forallb pure_clause p && ads_full th p && bodies_seen th p exs (length th).

Lemma em_side_parts : forall p exs th, em_side p exs th = true ->
  wf_prog p = true /\ wf_params p (length th) = true /\ wf_theta p th = true /\
  mult_pos exs = true /\ ev_pos th p exs = true /\ all_queried p exs (length th) = true /\
  clamp_inactive th p exs (length th) = true /\ floor_inactive th p exs (length th) = true /\
  forallb pure_clause p = true /\ ads_full th p = true /\ bodies_seen th p exs (length th) = true.
Proof.
  intros p exs th H. unfold em_side in H. repeat (apply andb_true_iff in H; destruct H as [H ?]).
  repeat split; assumption.
Qed.

Theorem em_monotone_model : forall p exs th, em_side p exs th = true ->
  LLm p exs th <= LLm p exs (step true p exs th).
Proof.
  intros p exs th H. destruct (em_side_parts p exs th H) as [W [WP [WT [MP [EP [AQ [CI [FI [PC [AF BS]]]]]]]]]].
  destruct exs as [|me0 r] eqn:EX.
  - unfold LLm. simpl. lra.
  - rewrite <- EX in *. apply em_monotone_model_sec; auto. rewrite EX. discriminate.
Qed.

Theorem em_model_step_keeps_evidence : forall p exs th, em_side p exs th = true ->
  forall me, In me exs -> (0 < pevidence (step true p exs th) p (snd me))%Q.
Proof.
  intros p exs th H me Hme.
  destruct (em_side_parts p exs th H) as [W [WP [WT [MP [EP [AQ [CI [FI [PC [AF BS]]]]]]]]]].
  apply ev_pos_after_sec; auto. intro K. rewrite K in Hme. inversion Hme.
Qed.

(* L3 with the bundled side conditions *)
Theorem mstep_is_block_update_side : forall p exs th, em_side p exs th = true -> exs <> [] ->
  forall b k, (b < length p)%nat -> In k (m_ks p b) ->
  em_update_blocks exs m_m (m_zs p) (m_a th p) (m_bs p) (m_ks p) m_avail (m_kap p) (m_th th p) b k =
  m_th (step true p exs th) p b k.
Proof.
  intros p exs th H NE b k Hb Hk.
  destruct (em_side_parts p exs th H) as [W [WP [WT [MP [EP [AQ [CI [FI [PC [AF BS]]]]]]]]]].
  apply mstep_is_block_update; auto.
Qed.

(* L2 for the expected counts: the counts of the abstract EM are the sums of the E-step ratios *)
Theorem estep_counts : forall p exs th b k a i,
  wf_prog p = true -> wf_params p (length th) = true -> ev_pos th p exs = true ->
  (b < length p)%nat -> nth_error (heads (nth b p dcl)) k = Some (a, HTun i) ->
  bcounts exs m_m (m_zs p) (m_a th p) (m_bs p) (m_kap p) (m_th th p) b k = Q2R (FB th p exs i) /\
  btotal exs m_m (m_zs p) (m_a th p) (m_bs p) (m_ks p) (m_kap p) (m_th th p) b = Q2R (FP th p exs i).
Proof.
  intros p exs th b k a i W WP EP Hb E.
  assert (ND : NoDup (flat_map tun_of p)) by (rewrite (wf_params_spec p _ WP); apply seq_NoDup).
  split; [eapply bcounts_FB|eapply btotal_FP]; eauto.
Qed.
