(* C24 -- Learning from interpretations is a monotone EM producing valid parameters.
   Only statements; every proof is `exact <lemma>`.

   [step norm p exs th] is one iteration of LFI (ModelLFIUpdate.v): exact E-step over all
   possible worlds of the propositional program p under the parameters th, for the examples
   exs = list of (multiplicity, partial interpretation), with the 1e-6 posterior clamp of
   ExampleEvaluator; M-step = LFIProblem._update (expected counts, the 1e-15 floor) followed,
   when norm = true, by LFIProblem._normalize_weights. *)
From Coq Require Import QArith List Bool Reals.
From PL.C24 Require Import ModelLFIUpdate ProofsBasic ProofsRange ProofsMLE ProofsEM ProofsEMBlocks ProofsEMExample.
From PL.C24 Require Import ProofsInstDefs ProofsInstDefsG ProofsInstDefsH ProofsInstLatent ProofsInstModel ProofsInstModelG
  ProofsInstModelH ProofsInstCounts ProofsInstMonotoneH ProofsInstExample.
Import ListNotations.
Open Scope Q_scope.

(* ------------------------------------------------------------------ every learned parameter is a probability *)
(* for every well-formed program, every example set with non-negative multiplicities, every
   starting point in which all outcome weights are probabilities, with or without normalisation *)
Theorem C24_range : forall norm p exs th,
  wf_prog p = true -> wf_theta p th = true -> (forall me, In me exs -> 0 <= fst me) ->
  Forall (fun x => 0 <= x /\ x <= 1) (step norm p exs th).
Proof. exact step_in01. Qed.
Print Assumptions C24_range.

Theorem C24_length : forall norm p exs th, length (step norm p exs th) = length th.
Proof. exact length_step. Qed.
Print Assumptions C24_length.

(* ------------------------------------------------------------------ AD heads sum to at most the available mass *)
(* for every clause with at least two tunable heads (the only ones _normalize_weights touches):
   after one normalised iteration the tunable heads sum to at most 1 - (sum of the constant heads) *)
Theorem C24_ad_sum : forall p exs th c,
  wf_prog p = true -> wf_params p (length th) = true -> wf_theta p th = true ->
  (forall me, In me exs -> 0 <= fst me) ->
  In c p -> (2 <= length (tun_of c))%nat ->
  psum (fun i => nth i (step true p exs th) 0) (tun_of c) <= 1 - fixed_sum c.
Proof. exact ad_sum_le_available. Qed.
Print Assumptions C24_ad_sum.

(* ... hence all heads of such a clause sum to at most 1, and the updated parameter vector is again
   a valid starting point (so C24_range / C24_ad_sum hold along the whole run) provided no clause
   pairs exactly one tunable head with constant heads (that class is refuted in Findings.v) *)
Theorem C24_ad_total : forall p exs th c,
  wf_prog p = true -> wf_params p (length th) = true -> wf_theta p th = true ->
  (forall me, In me exs -> 0 <= fst me) ->
  In c p -> ad_ok c = true ->
  heads_sum (step true p exs th) c <= 1.
Proof. exact heads_sum_step. Qed.
Print Assumptions C24_ad_total.

Theorem C24_valid_again : forall p exs th,
  wf_prog p = true -> wf_params p (length th) = true -> wf_theta p th = true ->
  (forall me, In me exs -> 0 <= fst me) ->
  forallb ad_ok p = true ->
  wf_theta p (step true p exs th) = true.
Proof. exact wf_theta_step. Qed.
Print Assumptions C24_valid_again.

(* ------------------------------------------------------------------ fully observed => relative frequency *)
(* i is a tunable fact on its own (group_of p i = [i]: not in an AD with other tunable heads).
   If in every example (multiplicity >= 1, positive probability, i relevant) the truth value of
   the fact is determined by the interpretation -- obs e -- in every possible world of non-zero
   weight consistent with e, then one iteration returns
        (number of examples with obs = true) / (number of examples),
   whatever the starting point th (the right-hand side does not mention th). *)
Theorem C24_fully_observed_mle : forall norm p th i obs exs,
  group_of p i = [i] ->
  (forall me, In me exs ->
     1 <= fst me /\ In i (queried p (snd me)) /\ ~ pevidence th p (snd me) == 0 /\
     observed p (wtable th p) (snd me) i (obs (snd me)) true) ->
  exs <> [] -> (i < length th)%nat ->
  nth i (step norm p exs th) 0 == count_true obs exs / count_all exs.
Proof. exact mle_fact_step. Qed.
Print Assumptions C24_fully_observed_mle.

(* ------------------------------------------------------------------ EM monotonicity (over R) *)
(* Abstract finite mixture: examples exs with weights m, latent worlds zs e, complete-data
   likelihood f th e z >= 0;  LL th = sum_e m e * ln (sum_z f th e z).
   (1) the Q-function bound, for ANY such f (Gibbs' inequality is proved, not assumed) *)
Theorem C24_em_lower_bound : forall (E Z Th : Type) (exs : list E) (m : E -> R) (zs : E -> list Z)
  (f : Th -> E -> Z -> R),
  (forall e, In e exs -> (0 <= m e)%R) ->
  forall th th' : Th,
  (forall e z, (0 <= f th e z)%R) -> (forall e z, (0 <= f th' e z)%R) ->
  (forall e, In e exs -> (0 < lik zs f th e)%R) ->
  (forall e z, In e exs -> In z (zs e) -> (0 < f th e z)%R -> (0 < f th' e z)%R) ->
  (Qf exs m zs f th th' - Qf exs m zs f th th <= LL exs m zs f th' - LL exs m zs f th)%R.
Proof. exact em_lower_bound. Qed.
Print Assumptions C24_em_lower_bound.

(* (2) the update  th' k = avail * c k / sum c  maximises sum_k c k * ln (th k) over sum th <= avail *)
Theorem C24_mstep_categorical : forall (ks : list nat) (c th : nat -> R) (avail : R),
  (0 < avail)%R ->
  (forall k, In k ks -> (0 <= c k)%R) -> (forall k, In k ks -> (0 <= th k)%R) ->
  (forall k, In k ks -> (0 < c k)%R -> (0 < th k)%R) ->
  (sumR th ks <= avail)%R -> (0 < sumR c ks)%R ->
  (sumR (fun k => c k * ln (th k)) ks <= sumR (fun k => c k * ln (avail * c k / sumR c ks)) ks)%R.
Proof. exact mstep_categorical. Qed.
Print Assumptions C24_mstep_categorical.

(* (3) EM is monotone for one tunable block (a tunable fact = block {true,false} with avail = 1, or
   the tunable heads of one AD with avail = 1 - constant heads) inside an arbitrary fixed context:
   f th e z = a e z * (th k) when world z activates outcome k of the block (kap e z = Some k),
   a e z when the block's body is false in z (kap e z = None).  The update is exactly LFI's
   normalised expected-count update.

   FULL STATEMENT NOT PROVED (hence _partial): LL (step true p exs th) >= LL th for the model's
   [step] on every program with SEVERAL tunable blocks, where LL th = sum_e m_e * ln (pevidence th p e),
   with the 1e-6 clamp and the 1e-15 floor inactive.  Missing: the regrouping of the Q-function over
   several blocks and the instantiation of (a, kap) by the world table of ModelLFIUpdate.
   UPDATE: the regrouping over several blocks is proved below (C24_Q_decomposes ... C24_em_monotone);
   the instantiation by the world table is still open, see the comment above C24_em_monotone.
   UPDATE 2: the instantiation is done: the full statement is C24_em_monotone_model below (under the decidable side
   conditions em_side_h, which include the hypothesis (#) without which the statement is false). *)
Theorem C24_em_monotone_partial : forall (E Z : Type) (exs : list E) (m : E -> R) (zs : E -> list Z)
  (a : E -> Z -> R) (kap : E -> Z -> option nat) (ks : list nat) (avail : R),
  NoDup ks ->
  (forall e z k, In e exs -> In z (zs e) -> kap e z = Some k -> In k ks) ->
  (forall e, In e exs -> (0 <= m e)%R) -> (forall e z, (0 <= a e z)%R) ->
  (0 < avail)%R ->
  forall th : nat -> R,
  (forall k, (0 <= th k)%R) -> (sumR th ks <= avail)%R ->
  (forall e, In e exs -> (0 < lik zs (fblock a kap) th e)%R) ->
  (0 < sumR (counts exs m zs a kap th) ks)%R ->
  (forall k, In k ks -> (0 < th k)%R -> (0 < counts exs m zs a kap th k)%R) ->
  (LL exs m zs (fblock a kap) th <=
   LL exs m zs (fblock a kap) (em_update exs m zs a kap ks avail th))%R.
Proof. exact em_monotone_one_block. Qed.
Print Assumptions C24_em_monotone_partial.

(* ------------------------------------------------------------------ EM with SEVERAL tunable blocks (ProofsEMBlocks.v)
   Abstract model: blocks b in bs with outcomes ks b and available mass avail b (a tunable fact = block
   {true,false}, avail 1; an AD = its tunable heads plus its "no head" outcome, avail = 1 - constant heads);
   in world z of example e block b selects outcome k (kap b e z = Some k: factor th b k) or is switched off
   (kap b e z = None: body false, or block irrelevant for e: factor 1); the rest of the world's weight and its
   consistency with the example is a e z >= 0:
       fmulti th e z = a e z * prod_{b in bs} (match kap b e z with Some k => th b k | None => 1 end).
   bcounts th b k = expected number of selections of outcome k of block b (posterior under th);
   em_update_blocks th b k = avail b * bcounts th b k / sum_{k' in ks b} bcounts th b k'  (LFI's normalised
   expected-count update; a block with no expected selection at all keeps its value). *)

(* (4) the Q-function difference is a sum over the blocks, each regrouped by outcome; th' is ANY parameter
   vector that stays positive where the data needs it *)
Theorem C24_Q_decomposes : forall (E Z : Type) (exs : list E) (m : E -> R) (zs : E -> list Z)
  (a : E -> Z -> R) (bs : list nat) (ks : nat -> list nat) (kap : nat -> E -> Z -> option nat),
  (forall b, In b bs -> NoDup (ks b)) ->
  (forall b e z k, In b bs -> In e exs -> In z (zs e) -> kap b e z = Some k -> In k (ks b)) ->
  (forall e z, (0 <= a e z)%R) ->
  forall th : nat -> nat -> R,
  (forall b k, In b bs -> (0 <= th b k)%R) ->
  (forall e, In e exs -> (0 < lik zs (fmulti a bs kap) th e)%R) ->
  forall th' : nat -> nat -> R,
  keeps_support exs zs a bs kap th th' ->
  (Qf exs m zs (fmulti a bs kap) th th' - Qf exs m zs (fmulti a bs kap) th th =
   sumR (fun b => sumR (fun k => bcounts exs m zs a bs kap th b k * (ln (th' b k) - ln (th b k))) (ks b)) bs)%R.
Proof. exact Q_decompose. Qed.
Print Assumptions C24_Q_decomposes.

(* (5) the update maximises every block's summand among all admissible parameter vectors ... *)
Theorem C24_mstep_blockwise : forall (E Z : Type) (exs : list E) (m : E -> R) (zs : E -> list Z)
  (a : E -> Z -> R) (bs : list nat) (ks : nat -> list nat) (avail : nat -> R) (kap : nat -> E -> Z -> option nat),
  (forall e, In e exs -> (0 < m e)%R) -> (forall e z, (0 <= a e z)%R) -> (forall b, In b bs -> (0 < avail b)%R) ->
  forall th : nat -> nat -> R,
  (forall b k, In b bs -> (0 <= th b k)%R) ->
  (forall e, In e exs -> (0 < lik zs (fmulti a bs kap) th e)%R) ->
  forall (th'' : nat -> nat -> R) (b : nat), In b bs ->
  admissible_theta bs ks avail th'' -> keeps_support exs zs a bs kap th th'' ->
  (bterm exs m zs a bs ks kap th th'' b <=
   bterm exs m zs a bs ks kap th (em_update_blocks exs m zs a bs ks avail kap th) b)%R.
Proof. exact block_opt. Qed.
Print Assumptions C24_mstep_blockwise.

(* ... hence the whole expected complete-data log-likelihood Q(.|th) *)
Theorem C24_mstep_maximises_Q : forall (E Z : Type) (exs : list E) (m : E -> R) (zs : E -> list Z)
  (a : E -> Z -> R) (bs : list nat) (ks : nat -> list nat) (avail : nat -> R) (kap : nat -> E -> Z -> option nat),
  (forall b, In b bs -> NoDup (ks b)) ->
  (forall b e z k, In b bs -> In e exs -> In z (zs e) -> kap b e z = Some k -> In k (ks b)) ->
  (forall e, In e exs -> (0 < m e)%R) -> (forall e z, (0 <= a e z)%R) -> (forall b, In b bs -> (0 < avail b)%R) ->
  forall th : nat -> nat -> R,
  (forall b k, In b bs -> (0 <= th b k)%R) ->
  (forall e, In e exs -> (0 < lik zs (fmulti a bs kap) th e)%R) ->
  forall th'' : nat -> nat -> R,
  admissible_theta bs ks avail th'' -> keeps_support exs zs a bs kap th th'' ->
  (Qf exs m zs (fmulti a bs kap) th th'' <=
   Qf exs m zs (fmulti a bs kap) th (em_update_blocks exs m zs a bs ks avail kap th))%R.
Proof. exact mstep_maximises_Q. Qed.
Print Assumptions C24_mstep_maximises_Q.

(* (6) ONE FULL EM STEP of the abstract model with k blocks does not decrease the log-likelihood.
   Side conditions: multiplicities > 0, every example has positive likelihood under th (LFI drops the others),
   th is non-negative and every block is within its available mass.  No clamp / floor in this update: it is
   the exact expected-count update (= LFI's when the 1e-6 clamp and the 1e-15 floor are inactive).

   WHAT THIS IS NOT: a theorem about [step true p exs th] of ModelLFIUpdate.  UPDATE: the model-level statement
   C24_em_monotone_model IS NOW PROVED further below (links L1-L3: C24_latent_space_sums_to_evidence,
   C24_estep_is_posterior, C24_mstep_is_block_update); the text that follows is the original plan.  The statement
       C24_em_monotone_model (not proved at that point):  wf_prog p, wf_params p, wf_theta p th, forallb ad_ok p, multiplicities >= 1,
         0 < pevidence th p e for every example, clamp and floor inactive,
         every AD with tunable heads has  psum th (tun_of c) == 1 - fixed_sum c     (#)
         ->  sum_e m_e * ln (pevidence (step true p exs th) p e)  >=  sum_e m_e * ln (pevidence th p e)
   needs three links (now formalised, see below):
     L1 latent space: fmulti is NOT the weight of a row of [wtable] (there every clause always selects an outcome);
        a latent world must be a row with the selections of the clauses whose body is false, or that
        [queried] does not reach from the example, summed out (their outcome weights sum to 1 and the evidence
        does not depend on them); then  sum_z fmulti th e z = pevidence th p e;
     L2 E-step: wsum(body_pred i)/pe and wsum(par_pred i)/pe of [estep1] are the posterior masses of
        {kap = Some k_i} and {kap <> None} of that latent space (clamp inactive);
     L3 M-step: fact_body/fact_par followed by [normalize] is em_update_blocks: for a tunable fact
        c_true/(c_true + c_false); for an AD the factor "number of heads" in par_marg cancels in normalize1, and
        LFI normalises over the tunable heads only, which is the EM update only if the "no head" outcome has
        expected count 0 (C24_update_without_none) -- this is what (#) is for.
   Without (#) the model-level statement is FALSE (Findings.v: C24_ad_none_outcome_likelihood_collapse_refuted:
   t(0.3)::b; t(0.3)::c. with the interpretations {b} and {not b, not c}: one step gives b = 1, c = 0 and the second
   interpretation drops from probability 0.4 to 0; the real LFIProblem prints "Ignoring example 2/2" and reports
   a larger log-likelihood over the remaining example; and C24_normalize_first_step_ll_decrease_refuted: an example
   that is NOT dropped goes from probability 0.39 to 0.1, the real code reports -0.94 and then -2.30). *)
Theorem C24_em_monotone : forall (E Z : Type) (exs : list E) (m : E -> R) (zs : E -> list Z)
  (a : E -> Z -> R) (bs : list nat) (ks : nat -> list nat) (avail : nat -> R) (kap : nat -> E -> Z -> option nat),
  (forall b, In b bs -> NoDup (ks b)) ->
  (forall b e z k, In b bs -> In e exs -> In z (zs e) -> kap b e z = Some k -> In k (ks b)) ->
  (forall e, In e exs -> (0 < m e)%R) -> (forall e z, (0 <= a e z)%R) -> (forall b, In b bs -> (0 < avail b)%R) ->
  forall th : nat -> nat -> R,
  (forall b k, In b bs -> (0 <= th b k)%R) ->
  (forall b, In b bs -> (sumR (th b) (ks b) <= avail b)%R) ->
  (forall e, In e exs -> (0 < lik zs (fmulti a bs kap) th e)%R) ->
  (LL exs m zs (fmulti a bs kap) th <=
   LL exs m zs (fmulti a bs kap) (em_update_blocks exs m zs a bs ks avail kap th))%R.
Proof. exact em_monotone_blocks. Qed.
Print Assumptions C24_em_monotone.

(* (7) the step can be iterated: the new parameters are again admissible and every example keeps a positive
   likelihood, so C24_em_monotone applies along the whole run *)
Theorem C24_em_step_valid : forall (E Z : Type) (exs : list E) (m : E -> R) (zs : E -> list Z)
  (a : E -> Z -> R) (bs : list nat) (ks : nat -> list nat) (avail : nat -> R) (kap : nat -> E -> Z -> option nat),
  (forall b e z k, In b bs -> In e exs -> In z (zs e) -> kap b e z = Some k -> In k (ks b)) ->
  (forall e, In e exs -> (0 < m e)%R) -> (forall e z, (0 <= a e z)%R) -> (forall b, In b bs -> (0 < avail b)%R) ->
  forall th : nat -> nat -> R,
  (forall b k, In b bs -> (0 <= th b k)%R) ->
  (forall b, In b bs -> (sumR (th b) (ks b) <= avail b)%R) ->
  (forall e, In e exs -> (0 < lik zs (fmulti a bs kap) th e)%R) ->
  admissible_theta bs ks avail (em_update_blocks exs m zs a bs ks avail kap th) /\
  (forall e, In e exs -> (0 < lik zs (fmulti a bs kap) (em_update_blocks exs m zs a bs ks avail kap th) e)%R).
Proof. exact em_step_valid. Qed.
Print Assumptions C24_em_step_valid.

(* (8) LFI normalises an AD over its tunable heads only.  With the "no head" outcome k0 carried as an outcome
   of the block, that is the EM update exactly when k0 has expected count 0 (in particular when th b k0 = 0,
   i.e. the heads already sum to the available mass): then k0 gets 0 and the others avail * c_k / sum_{k<>k0} c *)
Theorem C24_update_without_none : forall (E Z : Type) (exs : list E) (m : E -> R) (zs : E -> list Z)
  (a : E -> Z -> R) (bs : list nat) (ks : nat -> list nat) (avail : nat -> R) (kap : nat -> E -> Z -> option nat)
  (th : nat -> nat -> R) (b k0 : nat),
  bcounts exs m zs a bs kap th b k0 = 0%R ->
  btotal exs m zs a bs ks kap th b = sumR (bcounts exs m zs a bs kap th b) (remove Nat.eq_dec k0 (ks b)) /\
  (btotal exs m zs a bs ks kap th b <> 0%R -> em_update_blocks exs m zs a bs ks avail kap th b k0 = 0%R) /\
  (forall k, btotal exs m zs a bs ks kap th b <> 0%R ->
     em_update_blocks exs m zs a bs ks avail kap th b k =
     (avail b * bcounts exs m zs a bs kap th b k /
      sumR (bcounts exs m zs a bs kap th b) (remove Nat.eq_dec k0 (ks b)))%R).
Proof. exact update_without_none. Qed.
Print Assumptions C24_update_without_none.

(* ------------------------------------------------------------------ THE MODEL-LEVEL STATEMENT (ProofsInst*.v)
   The abstract k-block EM instantiated by the executable LFI model of ModelLFIUpdate.v.  th = the parameter list
   at the start of the iteration.  Instance (ProofsInstModel.v, ProofsInstModelG.v, ProofsInstModelH.v):
     examples = the (multiplicity, interpretation) pairs, m_m = multiplicity;  latent worlds m_zs = ALL worlds of p;
     blocks m_bs = clause numbers, outcomes m_ks b = options of clause b (head k, or "no head");
     h_avail p b = 1 - (sum of the constant heads of clause b)   (1 for clauses without tunable head);
     h_kap p b e z = Some (outcome of clause b in z) if clause b has a tunable head, e QUERIES the clause
                     (ModelLFIUpdate.queried = Example.compile/add_queries), its body is true in z and the outcome is a
                     tunable head or "no head";  None otherwise (also when a constant head of the clause is selected);
     h_a th p e z  = [z consistent with e] * product, over the clauses switched off in z for e, of their outcome weight under th;
     h_th th p b k = weight of outcome k of clause b under th if k is a tunable head or "no head" of a clause with a
                     tunable head, 0 otherwise;
     h_f th p = fmulti (h_a th p) (m_bs p) (h_kap p)  -- the gated complete-data likelihood;
     LLm p exs th = sum_e m_e * ln (pevidence th p e)  -- the log-likelihood of the data under the model;
     FBq / FPq th p exs i = sum over the examples e that query i of m_e * P(lfi_body i | e) / m_e * P(lfi_par i | e)
                            (the two ratios of estep1, before the clamp). *)

(* L1 (latent space).  For EVERY parameter list th' the gated complete-data likelihood, summed over all worlds, is the
   probability of the evidence: a tunable clause whose body is false, or that the example does not query, may carry the
   outcome weights it had under th -- its tunable/"no head" outcomes have the same total weight under th and th', and
   neither the evidence nor the body of a queried clause depends on which of them is selected
   (ProofsInstLatent.vals_indep, ProofsInstLatentG.rel_indep, ProofsInstLatentH.mixingH, ProofsInstSupports for [queried]). *)
Theorem C24_latent_space_sums_to_evidence : forall p n th th' me,
  wf_prog p = true -> wf_params p n = true ->
  lik (m_zs p) (h_f th p) (h_th th' p) me = Q2R (pevidence th' p (snd me)).
Proof. exact latent_space_sums_to_evidence_h. Qed.
Print Assumptions C24_latent_space_sums_to_evidence.

(* L2 (E-step).  The posterior of a latent world under th is the normalised row weight of the world table restricted to
   the example, hence the posterior mass of any set S of rows is the ratio wsum(S)/P(e) that estep1 computes ... *)
Theorem C24_estep_is_posterior : forall p n th me,
  wf_prog p = true -> wf_params p n = true -> ~ pevidence th p (snd me) == 0 ->
  (forall z, In z (worlds p) ->
     post (m_zs p) (h_f th p) (h_th th p) me z =
     (ind (ev_true (world_vals p z) (snd me)) * Q2R (wweight th p z) / Q2R (pevidence th p (snd me)))%R) /\
  (forall S : wentry -> bool,
     sumR (fun z => if S (z, world_vals p z, wweight th p z)
                    then post (m_zs p) (h_f th p) (h_th th p) me z else 0%R) (worlds p) =
     Q2R (wsum (ev_worlds (wtable th p) (snd me)) S / pevidence th p (snd me))).
Proof.
  exact (fun p n th me W WP NZ => conj (fun z Hz => posterior_is_table_row_h p n th me z W WP Hz)
                                       (fun S => posterior_mass_h p n th me S W WP NZ)).
Qed.
Print Assumptions C24_estep_is_posterior.

(* ... in particular the expected counts of the abstract EM are the sums of the E-step ratios of the model over the
   examples that query the parameter: outcome k of block b = tunable head number i  =>  bcounts = FBq i *)
Theorem C24_estep_counts : forall p exs th b k a i,
  wf_prog p = true -> wf_params p (length th) = true -> ev_pos th p exs = true ->
  (b < length p)%nat -> nth_error (heads (nth b p dcl)) k = Some (a, HTun i) ->
  bcounts exs m_m (m_zs p) (h_a th p) (m_bs p) (h_kap p) (h_th th p) b k = Q2R (FBq th p exs i).
Proof. exact estep_counts_h. Qed.
Print Assumptions C24_estep_counts.

(* L3 (M-step).  Under the decidable side conditions em_side_h (below), on every block whose expected total count is
   not 0, one normalised iteration of the model is the block EM update, outcome by outcome (tunable fact:
   c_true/(c_true + c_false); AD: (1 - constants) * c_k / sum c, the head-count factor of par_marg cancels in normalize1,
   the "no head" outcome has expected count 0 because of (#); a block that no example queries keeps its values in the
   model as in the EM).  On a block that is queried but never active (total 0) the EM keeps the parameters while LFI
   resets the heads to 0; that case is covered in C24_em_monotone_model by ProofsEMBlocksZero (dead_block, LL_dominated). *)
Theorem C24_mstep_is_block_update : forall p exs th, em_side_h p exs th = true ->
  forall b k, (b < length p)%nat -> In k (m_ks p b) ->
  btotal exs m_m (m_zs p) (h_a th p) (m_bs p) (m_ks p) (h_kap p) (h_th th p) b <> 0%R ->
  em_update_blocks exs m_m (m_zs p) (h_a th p) (m_bs p) (m_ks p) (h_avail p) (h_kap p) (h_th th p) b k =
  h_th (step true p exs th) p b k.
Proof. exact mstep_is_block_update_h_side. Qed.
Print Assumptions C24_mstep_is_block_update.

(* MODEL-LEVEL EM MONOTONICITY: one normalised iteration [step true p exs th] of the executable LFI model does not
   decrease the log-likelihood of the data.  em_side_h p exs th is the conjunction of the DECIDABLE conditions
     wf_prog p, wf_params p (length th), wf_theta p th   (well-formed program / parameter numbering / all outcome weights are probabilities)
     mult_pos exs                                        (multiplicities > 0)
     ev_pos th p exs                                     (every example has positive probability under th; LFI drops the others)
     clamp_inactive_q, floor_inactive_q                  (the 1e-6 clamp changes no queried posterior, the 1e-15 floor no expected count)
     ads_full th p                                       ((#): the tunable heads of every AD with >= 2 tunable heads sum to 1 - constants)
     forallb clause_ok p                                 (a clause with a tunable head is purely tunable or has >= 2 tunable heads,
                                                          and its constant heads sum to less than 1)
   Positive probability AFTER the step is a conclusion (C24_em_model_step_keeps_evidence), not a hypothesis.
   NOT needed: that every example queries every parameter (relevant-only counting is what is proved), that every queried
   block is active in some example, that ADs have no constant heads.
   Without (#) the statement is false (Findings.v, two witnesses); a clause with exactly ONE tunable head next to constant
   heads is excluded by clause_ok because there _update is not the EM update (it divides by P(body) instead of
   P(body and no constant head selected)) -- the class of C24_single_tunable_with_constant_head_refuted. *)
Theorem C24_em_monotone_model : forall p exs th, em_side_h p exs th = true ->
  (LLm p exs th <= LLm p exs (step true p exs th))%R.
Proof. exact em_monotone_model_h. Qed.
Print Assumptions C24_em_monotone_model.

Theorem C24_em_model_step_keeps_evidence : forall p exs th, em_side_h p exs th = true ->
  forall me, In me exs -> 0 < pevidence (step true p exs th) p (snd me).
Proof. exact em_model_step_keeps_evidence_h. Qed.
Print Assumptions C24_em_model_step_keeps_evidence.

(* ------------------------------------------------------------------ non-vacuity *)
(* t(th)::f.   examples: f three times, \+f once *)
Definition ex_prog : program := [Clause [(0%nat, HTun 0)] []].
Definition ex_data : list (Q * example) := [(3, [(0%nat, true)]); (1, [(0%nat, false)])].
Example C24_example_mle :
  step true ex_prog ex_data [1 # 10] = [3 # 4] /\ step false ex_prog ex_data [9 # 10] = [3 # 4].
Proof. vm_compute. split; reflexivity. Qed.

Example C24_example_mle_hyps :
  group_of ex_prog 0 = [0%nat] /\
  (forall me, In me ex_data ->
     1 <= fst me /\ In 0%nat (queried ex_prog (snd me)) /\ ~ pevidence [1 # 10] ex_prog (snd me) == 0 /\
     observed ex_prog (wtable [1 # 10] ex_prog) (snd me) 0
              (match snd me with [(_, b)] => b | _ => false end) true).
Proof. exact example_hyps. Qed.

(* t(0.3)::a. t(0.2)::b; t(0.5)::c. t(0.4)::d :- a. q :- a, b. q :- c.  with partial interpretations *)
Definition ex_prog2 : program := [
  Clause [(0%nat, HTun 0)] [];
  Clause [(1%nat, HTun 1); (2%nat, HTun 2)] [];
  Clause [(3%nat, HTun 3)] [(0%nat, true)];
  Clause [(4%nat, HDet)] [(0%nat, true); (1%nat, true)];
  Clause [(4%nat, HDet)] [(2%nat, true)]].
Definition ex_data2 : list (Q * example) := [
  (1, [(4%nat, true); (0%nat, true)]); (1, [(4%nat, false)]);
  (1, [(2%nat, true); (3%nat, true); (1%nat, false)]);
  (1, [(0%nat, true); (1%nat, true); (2%nat, false); (3%nat, false)])].
Example C24_example_step :
  wf_prog ex_prog2 = true /\ wf_params ex_prog2 4 = true /\
  wf_theta ex_prog2 [3 # 10; 2 # 10; 5 # 10; 4 # 10] = true /\ forallb ad_ok ex_prog2 = true /\
  step true ex_prog2 ex_data2 [3 # 10; 2 # 10; 5 # 10; 4 # 10] = [141 # 176; 247 # 511; 264 # 511; 1 # 2].
Proof. vm_compute. repeat split; reflexivity. Qed.

(* the hypotheses of C24_em_monotone are satisfiable by a two-block instance with a latent variable:
   t(1/2)::f.  t(1/4)::b; t(1/4)::c.  (block 1 carries its "no head" outcome, weight 1/2);
   example 0 observes f and b, example 1 observes only c *)
Example C24_example_em_hyps :
  (forall b, In b xe_bs -> NoDup (xe_ks b)) /\
  (forall b e z k, In b xe_bs -> In e xe_exs -> In z (xe_zs e) -> xe_kap b e z = Some k -> In k (xe_ks b)) /\
  (forall e, In e xe_exs -> (0 < (fun _ : nat => 1) e)%R) /\
  (forall e z, (0 <= xe_a e z)%R) /\
  (forall b, In b xe_bs -> (0 < (fun _ : nat => 1) b)%R) /\
  (forall b k, In b xe_bs -> (0 <= xe_th b k)%R) /\
  (forall b, In b xe_bs -> (sumR (xe_th b) (xe_ks b) <= (fun _ : nat => 1) b)%R) /\
  (forall e, In e xe_exs -> (0 < lik xe_zs (fmulti xe_a xe_bs xe_kap) xe_th e)%R).
Proof. exact example_em_hyps. Qed.

Example C24_example_em :
  (LL xe_exs (fun _ => 1) xe_zs (fmulti xe_a xe_bs xe_kap) xe_th <=
   LL xe_exs (fun _ => 1) xe_zs (fmulti xe_a xe_bs xe_kap)
      (em_update_blocks xe_exs (fun _ => 1) xe_zs xe_a xe_bs xe_ks (fun _ => 1) xe_kap xe_th))%R.
Proof. exact example_em_monotone. Qed.

(* the side conditions of C24_em_monotone_model are satisfiable (all evaluated by vm_compute), on a program with one
   tunable fact and one two-head tunable AD with a body:   t(1/2)::f.   t(1/4)::b; t(3/4)::c :- f.
   data: {b} twice, {not b, not c}, {c};  they hold again after the step, and the step is the expected one *)
Example C24_example_em_model_hyps :
  em_side_h xi_prog xi_data xi_th = true /\
  step true xi_prog xi_data xi_th = [3 # 4; 2 # 3; 1 # 3] /\
  em_side_h xi_prog xi_data (step true xi_prog xi_data xi_th) = true.
Proof. exact (conj xi_side (conj xi_step xi_side_again)). Qed.

Example C24_example_em_model :
  (LLm xi_prog xi_data xi_th <= LLm xi_prog xi_data [3 # 4; 2 # 3; 1 # 3])%R.
Proof. exact xi_monotone. Qed.

(* ... on   t(1/2)::f.  t(1/4)::b; t(3/4)::c :- f.  t(1/3)::g.  t(1/2)::d :- g.   with {b} twice, {not b, not c}, {c},
   {not g, not d} twice: no example queries all parameters (relevant-only counting), and the block of d is queried but
   its body is never true (expected total count 0: LFI resets d to 0) *)
Example C24_example_em_model_relevant_only :
  em_side_h xz_prog xz_data xz_th = true /\
  step true xz_prog xz_data xz_th = [3 # 4; 2 # 3; 1 # 3; 0; 0] /\
  em_side_h xz_prog xz_data (step true xz_prog xz_data xz_th) = true /\
  qd xz_prog (2, [(1%nat, true)]) 3 = false /\ qd xz_prog (2, [(3%nat, false); (4%nat, false)]) 0 = false /\
  seen_by xz_prog xz_data 4 = true /\ FPq xz_th xz_prog xz_data 4 == 0 /\
  (LLm xz_prog xz_data xz_th <= LLm xz_prog xz_data [3 # 4; 2 # 3; 1 # 3; 0%Q; 0%Q])%R.
Proof.
  exact (conj xz_side (conj xz_step (conj xz_side_again
          (conj (proj1 xz_features) (conj (proj1 (proj2 xz_features)) (conj (proj1 (proj2 (proj2 xz_features)))
          (conj (proj2 (proj2 (proj2 xz_features))) xz_monotone))))))).
Qed.

(* ... and on   t(1/2)::f.  0.3::x; t(0.2)::b; t(0.5)::c :- f.   (a constant head inside the tunable AD) with {x} (queries f
   only: the AD is not queried although the evidence is its constant head), {b} twice, {c}, {not b, not c}, {not x, not b} *)
Example C24_example_em_model_constant_head :
  em_side_h xh_prog xh_data xh_th = true /\
  forallb pure_clause xh_prog = false /\
  qd xh_prog (1, [(1%nat, true)]) 0 = true /\ qd xh_prog (1, [(1%nat, true)]) 1 = false /\
  em_side_h xh_prog xh_data (step true xh_prog xh_data xh_th) = true /\
  (LLm xh_prog xh_data xh_th <= LLm xh_prog xh_data (step true xh_prog xh_data xh_th))%R.
Proof.
  exact (conj xh_side (conj (proj2 (proj2 xh_features)) (conj (proj1 xh_features) (conj (proj1 (proj2 xh_features))
          (conj xh_side_again xh_monotone))))).
Qed.
