(* placeholder while the proofs are being written *)
From Coq Require Import QArith List Bool.
From PL.C24 Require Import ModelLFIUpdate.
Import ListNotations.
Open Scope Q_scope.
Theorem C24_clamp_nonneg : forall x, 0 <= x -> 0 <= clamp x.
Proof. intros x H. unfold clamp. destruct (Qle_bool clampq x); auto. apply Qle_refl. Qed.
Print Assumptions C24_clamp_nonneg.
