(* C24 -- Learning from interpretations is a monotone EM producing valid parameters.
   Only statements; every proof is `exact <lemma>`.

   [step norm p exs th] is one iteration of LFI (ModelLFIUpdate.v): exact E-step over all
   possible worlds of the propositional program p under the parameters th, for the examples
   exs = list of (multiplicity, partial interpretation), with the 1e-6 posterior clamp of
   ExampleEvaluator; M-step = LFIProblem._update (expected counts, the 1e-15 floor) followed,
   when norm = true, by LFIProblem._normalize_weights. *)
From Coq Require Import QArith List Bool Reals.
From PL.C24 Require Import ModelLFIUpdate ProofsBasic ProofsRange ProofsMLE ProofsEM.
Import ListNotations.
Open Scope Q_scope.

(* ------------------------------------------------------------------ every learned parameter is a probability *)
(* for every well-formed program, every example set with non-negative multiplicities, every
   starting point in which all outcome weights are probabilities, with or without normalisation *)
Theorem C24_range : forall norm p exs th,
  wf_prog p = true -> wf_theta p th = true -> (forall me, In me exs -> 0 <= fst me) ->
  Forall (fun x => 0 <= x /\ x <= 1) (step norm p exs th).
Proof. exact step_in01. Qed.
Print Assumptions C24_range.

Theorem C24_length : forall norm p exs th, length (step norm p exs th) = length th.
Proof. exact length_step. Qed.
Print Assumptions C24_length.

(* ------------------------------------------------------------------ AD heads sum to at most the available mass *)
(* for every clause with at least two tunable heads (the only ones _normalize_weights touches):
   after one normalised iteration the tunable heads sum to at most 1 - (sum of the constant heads) *)
Theorem C24_ad_sum : forall p exs th c,
  wf_prog p = true -> wf_params p (length th) = true -> wf_theta p th = true ->
  (forall me, In me exs -> 0 <= fst me) ->
  In c p -> (2 <= length (tun_of c))%nat ->
  psum (fun i => nth i (step true p exs th) 0) (tun_of c) <= 1 - fixed_sum c.
Proof. exact ad_sum_le_available. Qed.
Print Assumptions C24_ad_sum.

(* ... hence all heads of such a clause sum to at most 1, and the updated parameter vector is again
   a valid starting point (so C24_range / C24_ad_sum hold along the whole run) provided no clause
   pairs exactly one tunable head with constant heads (that class is refuted in Findings.v) *)
Theorem C24_ad_total : forall p exs th c,
  wf_prog p = true -> wf_params p (length th) = true -> wf_theta p th = true ->
  (forall me, In me exs -> 0 <= fst me) ->
  In c p -> ad_ok c = true ->
  heads_sum (step true p exs th) c <= 1.
Proof. exact heads_sum_step. Qed.
Print Assumptions C24_ad_total.

Theorem C24_valid_again : forall p exs th,
  wf_prog p = true -> wf_params p (length th) = true -> wf_theta p th = true ->
  (forall me, In me exs -> 0 <= fst me) ->
  forallb ad_ok p = true ->
  wf_theta p (step true p exs th) = true.
Proof. exact wf_theta_step. Qed.
Print Assumptions C24_valid_again.

(* ------------------------------------------------------------------ fully observed => relative frequency *)
(* i is a tunable fact on its own (group_of p i = [i]: not in an AD with other tunable heads).
   If in every example (multiplicity >= 1, positive probability, i relevant) the truth value of
   the fact is determined by the interpretation -- obs e -- in every possible world of non-zero
   weight consistent with e, then one iteration returns
        (number of examples with obs = true) / (number of examples),
   whatever the starting point th (the right-hand side does not mention th). *)
Theorem C24_fully_observed_mle : forall norm p th i obs exs,
  group_of p i = [i] ->
  (forall me, In me exs ->
     1 <= fst me /\ In i (queried p (snd me)) /\ ~ pevidence th p (snd me) == 0 /\
     observed p (wtable th p) (snd me) i (obs (snd me)) true) ->
  exs <> [] -> (i < length th)%nat ->
  nth i (step norm p exs th) 0 == count_true obs exs / count_all exs.
Proof. exact mle_fact_step. Qed.
Print Assumptions C24_fully_observed_mle.

(* ------------------------------------------------------------------ EM monotonicity (over R) *)
(* Abstract finite mixture: examples exs with weights m, latent worlds zs e, complete-data
   likelihood f th e z >= 0;  LL th = sum_e m e * ln (sum_z f th e z).
   (1) the Q-function bound, for ANY such f (Gibbs' inequality is proved, not assumed) *)
Theorem C24_em_lower_bound : forall (E Z Th : Type) (exs : list E) (m : E -> R) (zs : E -> list Z)
  (f : Th -> E -> Z -> R),
  (forall e, In e exs -> (0 <= m e)%R) ->
  forall th th' : Th,
  (forall e z, (0 <= f th e z)%R) -> (forall e z, (0 <= f th' e z)%R) ->
  (forall e, In e exs -> (0 < lik zs f th e)%R) ->
  (forall e z, In e exs -> In z (zs e) -> (0 < f th e z)%R -> (0 < f th' e z)%R) ->
  (Qf exs m zs f th th' - Qf exs m zs f th th <= LL exs m zs f th' - LL exs m zs f th)%R.
Proof. exact em_lower_bound. Qed.
Print Assumptions C24_em_lower_bound.

(* (2) the update  th' k = avail * c k / sum c  maximises sum_k c k * ln (th k) over sum th <= avail *)
Theorem C24_mstep_categorical : forall (ks : list nat) (c th : nat -> R) (avail : R),
  (0 < avail)%R ->
  (forall k, In k ks -> (0 <= c k)%R) -> (forall k, In k ks -> (0 <= th k)%R) ->
  (forall k, In k ks -> (0 < c k)%R -> (0 < th k)%R) ->
  (sumR th ks <= avail)%R -> (0 < sumR c ks)%R ->
  (sumR (fun k => c k * ln (th k)) ks <= sumR (fun k => c k * ln (avail * c k / sumR c ks)) ks)%R.
Proof. exact mstep_categorical. Qed.
Print Assumptions C24_mstep_categorical.

(* (3) EM is monotone for one tunable block (a tunable fact = block {true,false} with avail = 1, or
   the tunable heads of one AD with avail = 1 - constant heads) inside an arbitrary fixed context:
   f th e z = a e z * (th k) when world z activates outcome k of the block (kap e z = Some k),
   a e z when the block's body is false in z (kap e z = None).  The update is exactly LFI's
   normalised expected-count update.

   FULL STATEMENT NOT PROVED (hence _partial): LL (step true p exs th) >= LL th for the model's
   [step] on every program with SEVERAL tunable blocks, where LL th = sum_e m_e * ln (pevidence th p e),
   with the 1e-6 clamp and the 1e-15 floor inactive.  Missing: the regrouping of the Q-function over
   several blocks and the instantiation of (a, kap) by the world table of ModelLFIUpdate. *)
Theorem C24_em_monotone_partial : forall (E Z : Type) (exs : list E) (m : E -> R) (zs : E -> list Z)
  (a : E -> Z -> R) (kap : E -> Z -> option nat) (ks : list nat) (avail : R),
  NoDup ks ->
  (forall e z k, In e exs -> In z (zs e) -> kap e z = Some k -> In k ks) ->
  (forall e, In e exs -> (0 <= m e)%R) -> (forall e z, (0 <= a e z)%R) ->
  (0 < avail)%R ->
  forall th : nat -> R,
  (forall k, (0 <= th k)%R) -> (sumR th ks <= avail)%R ->
  (forall e, In e exs -> (0 < lik zs (fblock a kap) th e)%R) ->
  (0 < sumR (counts exs m zs a kap th) ks)%R ->
  (forall k, In k ks -> (0 < th k)%R -> (0 < counts exs m zs a kap th k)%R) ->
  (LL exs m zs (fblock a kap) th <=
   LL exs m zs (fblock a kap) (em_update exs m zs a kap ks avail th))%R.
Proof. exact em_monotone_one_block. Qed.
Print Assumptions C24_em_monotone_partial.

(* ------------------------------------------------------------------ non-vacuity *)
(* t(th)::f.   examples: f three times, \+f once *)
Definition ex_prog : program := [Clause [(0%nat, HTun 0)] []].
Definition ex_data : list (Q * example) := [(3, [(0%nat, true)]); (1, [(0%nat, false)])].
Example C24_example_mle :
  step true ex_prog ex_data [1 # 10] = [3 # 4] /\ step false ex_prog ex_data [9 # 10] = [3 # 4].
Proof. vm_compute. split; reflexivity. Qed.

Example C24_example_mle_hyps :
  group_of ex_prog 0 = [0%nat] /\
  (forall me, In me ex_data ->
     1 <= fst me /\ In 0%nat (queried ex_prog (snd me)) /\ ~ pevidence [1 # 10] ex_prog (snd me) == 0 /\
     observed ex_prog (wtable [1 # 10] ex_prog) (snd me) 0
              (match snd me with [(_, b)] => b | _ => false end) true).
Proof. exact example_hyps. Qed.

(* t(0.3)::a. t(0.2)::b; t(0.5)::c. t(0.4)::d :- a. q :- a, b. q :- c.  with partial interpretations *)
Definition ex_prog2 : program := [
  Clause [(0%nat, HTun 0)] [];
  Clause [(1%nat, HTun 1); (2%nat, HTun 2)] [];
  Clause [(3%nat, HTun 3)] [(0%nat, true)];
  Clause [(4%nat, HDet)] [(0%nat, true); (1%nat, true)];
  Clause [(4%nat, HDet)] [(2%nat, true)]].
Definition ex_data2 : list (Q * example) := [
  (1, [(4%nat, true); (0%nat, true)]); (1, [(4%nat, false)]);
  (1, [(2%nat, true); (3%nat, true); (1%nat, false)]);
  (1, [(0%nat, true); (1%nat, true); (2%nat, false); (3%nat, false)])].
Example C24_example_step :
  wf_prog ex_prog2 = true /\ wf_params ex_prog2 4 = true /\
  wf_theta ex_prog2 [3 # 10; 2 # 10; 5 # 10; 4 # 10] = true /\ forallb ad_ok ex_prog2 = true /\
  step true ex_prog2 ex_data2 [3 # 10; 2 # 10; 5 # 10; 4 # 10] = [141 # 176; 247 # 511; 264 # 511; 1 # 2].
Proof. vm_compute. repeat split; reflexivity. Qed.
