(* C24 -- every updated parameter is a probability; AD heads sum to at most the available mass *)
From Coq Require Import QArith Qreduction List Bool Arith Lia Lqa.
From PL.C24 Require Import ModelLFIUpdate ProofsBasic.
Import ListNotations.
Open Scope Q_scope.

(* ------------------------------------------------------------------ mapi *)
Lemma Forall_mapi_gen : forall A B (P : B -> Prop) (f : nat -> A -> B) (d : A) l k0,
  (forall j, (j < length l)%nat -> P (f (k0 + j)%nat (nth j l d))) -> Forall P (mapi f k0 l).
Proof.
  induction l as [|x t IH]; intros k0 H; cbn [mapi]; constructor.
  - specialize (H 0%nat). simpl in H. rewrite Nat.add_0_r in H. apply H. lia.
  - apply IH. intros j Hj. specialize (H (S j)). simpl in H.
    replace (S k0 + j)%nat with (k0 + S j)%nat by lia. apply H. lia.
Qed.

Lemma Forall_mapi : forall A B (P : B -> Prop) (f : nat -> A -> B) (d : A) l,
  (forall j, (j < length l)%nat -> P (f j (nth j l d))) -> Forall P (mapi f 0 l).
Proof. intros. eapply Forall_mapi_gen with (d := d). intros j Hj. simpl. auto. Qed.

Lemma length_mapi : forall A B (f : nat -> A -> B) l k, length (mapi f k l) = length l.
Proof. induction l; intros; cbn [mapi]; simpl; auto. Qed.

Lemma nth_mapi_gen : forall (f : nat -> Q -> Q) l k0 j, (j < length l)%nat ->
  nth j (mapi f k0 l) 0 = f (k0 + j)%nat (nth j l 0).
Proof.
  induction l as [|x t IH]; intros k0 j Hj; simpl in Hj; [lia|].
  cbn [mapi]. destruct j as [|j]; simpl.
  - rewrite Nat.add_0_r. reflexivity.
  - rewrite IH by lia. f_equal. lia.
Qed.

Lemma nth_mapi : forall (f : nat -> Q -> Q) l j, (j < length l)%nat ->
  nth j (mapi f 0 l) 0 = f j (nth j l 0).
Proof. intros. rewrite nth_mapi_gen by auto. reflexivity. Qed.

(* ------------------------------------------------------------------ M-step: counts *)
Lemma lookup_body_nonneg : forall i qs, Forall q_ok qs -> 0 <= lookup_body i qs.
Proof.
  intros i qs H. unfold lookup_body. apply qsum_nonneg. intros t Ht.
  rewrite Forall_forall in H. destruct (H t Ht) as [A B].
  destruct (fst (fst t) =? i)%nat; lra.
Qed.

Lemma lookup_par_nonneg : forall i qs, Forall q_ok qs -> 0 <= lookup_par i qs.
Proof.
  intros i qs H. unfold lookup_par. apply qsum_nonneg. intros t Ht.
  rewrite Forall_forall in H. destruct (H t Ht) as [A B].
  destruct (fst (fst t) =? i)%nat; lra.
Qed.

Lemma lookup_body_le_par : forall i qs, Forall q_ok qs -> lookup_body i qs <= lookup_par i qs.
Proof.
  intros i qs H. unfold lookup_body, lookup_par. apply qsum_le. intros t Ht.
  rewrite Forall_forall in H. destruct (H t Ht) as [A B].
  destruct (fst (fst t) =? i)%nat; lra.
Qed.

Lemma par_marg_ge : forall grp i qs, Forall q_ok qs -> In i grp -> lookup_body i qs <= par_marg grp qs.
Proof.
  intros grp i qs H Hin. unfold par_marg.
  apply Qle_trans with (lookup_par i qs); [apply lookup_body_le_par; auto|].
  apply (qsum_in_le _ (fun j => lookup_par j qs)); auto.
  intros; apply lookup_par_nonneg; auto.
Qed.

Lemma par_marg_nonneg : forall grp qs, Forall q_ok qs -> 0 <= par_marg grp qs.
Proof. intros. unfold par_marg. apply qsum_nonneg. intros; apply lookup_par_nonneg; auto. Qed.

Lemma fact_body_nonneg : forall i rs, Forall res_ok rs -> 0 <= fact_body i rs.
Proof.
  intros i rs H. unfold fact_body. apply qsum_nonneg. intros r Hr.
  rewrite Forall_forall in H. destruct (H r Hr) as [A B].
  apply Qmult_le_0_compat; auto. apply lookup_body_nonneg; auto.
Qed.

Lemma fact_body_le_par : forall grp i rs, Forall res_ok rs -> In i grp -> fact_body i rs <= fact_par grp rs.
Proof.
  intros grp i rs H Hin. unfold fact_body, fact_par. apply qsum_le. intros r Hr.
  rewrite Forall_forall in H. destruct (H r Hr) as [A B].
  rewrite !(Qmult_comm (r_mult r)). apply Qmult_le_compat_r; auto. apply par_marg_ge; auto.
Qed.

Lemma fact_par_nonneg : forall grp rs, Forall res_ok rs -> 0 <= fact_par grp rs.
Proof.
  intros grp rs H. unfold fact_par. apply qsum_nonneg. intros r Hr.
  rewrite Forall_forall in H. destruct (H r Hr) as [A B].
  apply Qmult_le_0_compat; auto. apply par_marg_nonneg; auto.
Qed.

Lemma group_of_self : forall p i, In i (group_of p i) \/ group_of p i = [].
Proof.
  induction p as [|c t IH]; intros i; unfold group_of; cbn [flat_map]; [right; reflexivity|].
  destruct (existsb (Nat.eqb i) (tun_of c)) eqn:E.
  - left. apply in_or_app. left. apply existsb_exists in E. destruct E as [x [Hx Hi]].
    apply Nat.eqb_eq in Hi. subst. auto.
  - simpl. apply IH.
Qed.

Lemma ratio_in01 : forall b P, 0 < b -> b <= P -> in01 (b / P).
Proof.
  intros b P Hb HP. split.
  - apply Qle_shift_div_l; lra.
  - apply Qle_shift_div_r; lra.
Qed.

Lemma new_prob_in01 : forall p rs i old, Forall res_ok rs -> in01 old -> in01 (new_prob p rs i old).
Proof.
  intros p rs i old H Hold. unfold new_prob.
  destruct (existsb (fun r => has_query i (r_q r)) rs); [|exact Hold].
  destruct (Qle_bool (fact_body i rs) floorq) eqn:E; [split; lra|].
  apply Qle_bool_false in E. unfold floorq in E.
  assert (Hb : 0 < fact_body i rs) by (eapply Qle_lt_trans; [|exact E]; unfold Qle; simpl; lia).
  destruct (group_of_self p i) as [Hin|Hnil].
  - unfold in01. rewrite Qred_correct. apply ratio_in01; auto. apply fact_body_le_par; auto.
  - rewrite Hnil. unfold in01. rewrite Qred_correct. unfold fact_par.
    assert (Z : qsum (fun r => r_mult r * par_marg [] (r_q r)) rs == 0).
    { rewrite qsum_psum. clear. induction rs as [|r t IH]; simpl; [reflexivity|].
      rewrite IH. unfold par_marg. simpl. lra. }
    rewrite Z. unfold Qdiv. assert (/ 0 == 0) by reflexivity. rewrite H0. split; lra.
Qed.

Lemma update_in01 : forall p rs th, Forall res_ok rs -> Forall in01 th -> Forall in01 (update p rs th).
Proof.
  intros p rs th H Hth. unfold update. apply Forall_mapi with (d := 0).
  intros j Hj. apply new_prob_in01; auto. apply nth_in01; auto.
Qed.

(* ------------------------------------------------------------------ normalisation keeps [0,1] *)
Lemma normalize1_in01 : forall th a idx, 0 <= a -> a <= 1 -> Forall in01 th -> Forall in01 (normalize1 th (a, idx)).
Proof.
  intros th a idx Ha0 Ha1 Hth. unfold normalize1. cbn [snd fst].
  destruct idx as [|i0 [|i1 rest]]; auto.
  set (idx := i0 :: i1 :: rest).
  set (w := qsum (fun i => nth i th 0) idx).
  apply Forall_mapi with (d := 0). intros j Hj.
  destruct (existsb (Nat.eqb j) idx) eqn:E; [|apply nth_in01; auto].
  apply existsb_exists in E. destruct E as [x [Hx Hjx]]. apply Nat.eqb_eq in Hjx. subst x.
  assert (Hxw : nth j th 0 <= w).
  { unfold w. apply (qsum_in_le _ (fun i => nth i th 0)); auto. intros y _. apply nth_in01; auto. }
  destruct (nth_in01 th j Hth) as [X0 X1].
  unfold in01. rewrite Qred_correct.
  destruct (Qeq_bool w 0) eqn:Ew.
  - apply Qeq_bool_iff in Ew. assert (nth j th 0 == 0) by lra. rewrite H. split; lra.
  - assert (Hw : 0 < w).
    { assert (~ w == 0) by (intro K; apply Qeq_bool_iff in K; congruence). lra. }
    assert (R : nth j th 0 * (a / w) == a * (nth j th 0 / w)) by (unfold Qdiv; ring).
    rewrite R.
    assert (Q01 : 0 <= nth j th 0 / w /\ nth j th 0 / w <= 1).
    { split; [apply Qle_shift_div_l; lra|apply Qle_shift_div_r; lra]. }
    destruct Q01 as [Q0 Q1]. split.
    + apply Qmult_le_0_compat; auto.
    + assert (K : (nth j th 0 / w) * a <= 1 * a) by (apply Qmult_le_compat_r; auto). lra.
Qed.

(* ------------------------------------------------------------------ available mass of a clause *)
Lemma fixed_sum_bounds : forall p th c, wf_prog p = true -> wf_theta p th = true -> In c p ->
  0 <= fixed_sum c /\ fixed_sum c <= 1.
Proof.
  intros p th c Hp Hth Hin.
  assert (Hc : wf_clause c = true) by (unfold wf_prog in Hp; rewrite forallb_forall in Hp; auto).
  assert (Hth' := wf_theta_in01 p th Hth).
  split.
  - unfold fixed_sum. apply qsum_nonneg. intros h Hh.
    pose proof (wf_clause_heads c h Hc Hh) as K. destruct (snd h); simpl in *; try lra.
    apply Qle_bool_iff in K. auto.
  - apply Qle_trans with (heads_sum th c); [|eapply wf_theta_sum; eauto].
    unfold fixed_sum, heads_sum. apply qsum_le. intros h Hh.
    pose proof (wf_clause_heads c h Hc Hh) as K.
    pose proof (hweight_nonneg th (snd h) Hth' K) as W.
    destruct (snd h); simpl in *; lra.
Qed.

Lemma in_adatoms : forall p a idx, In (a, idx) (adatoms p) ->
  exists c, In c p /\ a = 1 - fixed_sum c /\ idx = tun_of c /\ idx <> [].
Proof.
  intros p a idx H. unfold adatoms in H. apply in_flat_map in H. destruct H as [c [Hc H]].
  destruct (tun_of c) eqn:E; simpl in H; [tauto|].
  destruct H as [H|[]]. inversion H; subst. exists c. rewrite E. repeat split; auto. discriminate.
Qed.

Lemma normalize_in01 : forall p th0 th, wf_prog p = true -> wf_theta p th0 = true ->
  Forall in01 th -> Forall in01 (normalize p th).
Proof.
  intros p th0 th Hp Hth0. unfold normalize.
  assert (G : forall ads, (forall ad, In ad ads -> In ad (adatoms p)) ->
              forall th, Forall in01 th -> Forall in01 (fold_left normalize1 ads th)).
  { induction ads as [|[a idx] t IH]; intros Hsub th1 H1; simpl; auto.
    apply IH; [intros; apply Hsub; simpl; auto|].
    destruct (in_adatoms p a idx (Hsub _ (or_introl eq_refl))) as [c [Hc [Ha _]]].
    subst a. destruct (fixed_sum_bounds p th0 c Hp Hth0 Hc). apply normalize1_in01; auto; lra. }
  apply G. auto.
Qed.

Theorem step_in01 : forall norm p exs th, wf_prog p = true -> wf_theta p th = true ->
  (forall me, In me exs -> 0 <= fst me) -> Forall in01 (step norm p exs th).
Proof.
  intros norm p exs th Hp Hth Hm. unfold step, mstep.
  assert (U : Forall in01 (update p (estep th p exs) th)).
  { apply update_in01; [apply estep_ok; auto|eapply wf_theta_in01; eauto]. }
  destruct norm; auto. eapply normalize_in01; eauto.
Qed.

Lemma length_step : forall norm p exs th, length (step norm p exs th) = length th.
Proof.
  intros. unfold step, mstep.
  assert (L1 : forall rs, length (update p rs th) = length th) by (intros; unfold update; apply length_mapi).
  assert (L2 : forall ad t, length (normalize1 t ad) = length t).
  { intros [a idx] t. unfold normalize1. cbn [snd fst]. destruct idx as [|i0 [|i1 r]]; auto. apply length_mapi. }
  assert (L3 : forall ads t, length (fold_left normalize1 ads t) = length t).
  { induction ads as [|ad r IH]; intros t; simpl; auto. rewrite IH. apply L2. }
  destruct norm; [unfold normalize; rewrite L3|]; apply L1.
Qed.

(* ------------------------------------------------------------------ AD sums after normalisation *)
Lemma nth_mapi_any : forall (f : nat -> Q -> Q) l j, (forall k, f k 0 == 0) ->
  nth j (mapi f 0 l) 0 == f j (nth j l 0).
Proof.
  intros f l j H0. destruct (lt_dec j (length l)) as [L|L].
  - rewrite nth_mapi by auto. reflexivity.
  - rewrite !nth_overflow; [|lia|rewrite length_mapi; lia]. rewrite H0. reflexivity.
Qed.

Lemma normalize1_other : forall th a idx j, ~ In j idx -> nth j (normalize1 th (a, idx)) 0 == nth j th 0.
Proof.
  intros th a idx j Hn. unfold normalize1. cbn [snd fst].
  destruct idx as [|i0 [|i1 rest]]; try reflexivity.
  set (idx := i0 :: i1 :: rest) in *.
  destruct (lt_dec j (length th)) as [L|L].
  - rewrite nth_mapi by auto.
    destruct (existsb (Nat.eqb j) idx) eqn:E; [|reflexivity].
    apply existsb_exists in E. destruct E as [x [Hx Hjx]]. apply Nat.eqb_eq in Hjx. subst x. tauto.
  - rewrite !nth_overflow; [reflexivity|lia|rewrite length_mapi; lia].
Qed.

Definition nonneg_list (th : list Q) : Prop := forall j, 0 <= nth j th 0.

Lemma in01_nonneg_list : forall th, Forall in01 th -> nonneg_list th.
Proof. intros th H j. apply nth_in01; auto. Qed.

(* the heads of one normalised group sum to the available mass, or to 0 when all were 0 *)
Lemma normalize1_sum : forall th a idx, (2 <= length idx)%nat -> NoDup idx -> nonneg_list th -> 0 <= a ->
  psum (fun i => nth i (normalize1 th (a, idx)) 0) idx <= a.
Proof.
  intros th a idx Hlen Hnd Hnn Ha. unfold normalize1. cbn [snd fst].
  destruct idx as [|i0 [|i1 rest]]; [simpl in Hlen; lia|simpl in Hlen; lia|].
  set (idx := i0 :: i1 :: rest) in *.
  set (w := qsum (fun i => nth i th 0) idx).
  set (n := if Qeq_bool w 0 then a else a / w).
  assert (E : forall i, In i idx ->
     nth i (mapi (fun k x => if existsb (Nat.eqb k) idx then Qred (x * n) else x) 0 th) 0 == nth i th 0 * n).
  { intros i Hi. rewrite nth_mapi_any.
    - assert (X : existsb (Nat.eqb i) idx = true) by (apply existsb_exists; exists i; split; auto; apply Nat.eqb_refl).
      rewrite X. apply Qred_correct.
    - intros k. destruct (existsb (Nat.eqb k) idx); [rewrite Qred_correct; ring|reflexivity]. }
  rewrite (psum_ext _ _ (fun i => nth i th 0 * n) idx E).
  rewrite psum_scale. fold (psum (fun i => nth i th 0) idx).
  assert (W : psum (fun i => nth i th 0) idx == w) by (unfold w; rewrite qsum_psum; reflexivity).
  rewrite W. unfold n. destruct (Qeq_bool w 0) eqn:Ew.
  - apply Qeq_bool_iff in Ew. rewrite Ew. lra.
  - assert (~ w == 0) by (intro K; apply Qeq_bool_iff in K; congruence).
    assert (w * (a / w) == a) by (field; auto). lra.
Qed.

Lemma normalize1_nonneg : forall th a idx, 0 <= a -> nonneg_list th -> nonneg_list (normalize1 th (a, idx)).
Proof.
  intros th a idx Ha Hnn j. unfold normalize1. cbn [snd fst].
  destruct idx as [|i0 [|i1 rest]]; try apply Hnn.
  set (idx := i0 :: i1 :: rest) in *.
  set (w := qsum (fun i => nth i th 0) idx).
  assert (Hw : 0 <= w) by (unfold w; apply qsum_nonneg; intros; apply Hnn).
  rewrite nth_mapi_any.
  - destruct (existsb (Nat.eqb j) idx); [|apply Hnn]. rewrite Qred_correct.
    apply Qmult_le_0_compat; [apply Hnn|].
    destruct (Qeq_bool w 0) eqn:Ew; auto.
    assert (~ w == 0) by (intro K; apply Qeq_bool_iff in K; congruence).
    apply Qle_shift_div_l; lra.
  - intros k. destruct (existsb (Nat.eqb k) idx); [rewrite Qred_correct; ring|reflexivity].
Qed.

Lemma normalize1_short : forall th a idx, (length idx <= 1)%nat -> normalize1 th (a, idx) = th.
Proof.
  intros th a idx H. unfold normalize1. cbn [snd]. destruct idx as [|i0 [|i1 r]]; auto. simpl in H. lia.
Qed.

Lemma fold_normalize_other_gen : forall ads th j,
  (forall ad, In ad ads -> ~ In j (snd ad) \/ (length (snd ad) <= 1)%nat) ->
  nth j (fold_left normalize1 ads th) 0 == nth j th 0.
Proof.
  induction ads as [|[a i2] t IH]; intros th j Hd; simpl; [reflexivity|].
  rewrite IH by (intros; apply Hd; simpl; auto).
  destruct (Hd (a, i2) (or_introl eq_refl)) as [K|K]; simpl in K.
  - apply normalize1_other; auto.
  - rewrite normalize1_short by auto. reflexivity.
Qed.

Lemma fold_normalize_other : forall ads th idx,
  (forall j, In j idx -> ~ In j (flat_map snd ads)) ->
  forall j, In j idx -> nth j (fold_left normalize1 ads th) 0 == nth j th 0.
Proof.
  intros ads th idx Hd j Hj. apply fold_normalize_other_gen.
  intros ad Had. left. intro K. apply (Hd j Hj). apply in_flat_map. exists ad. auto.
Qed.

Lemma NoDup_app_parts : forall (l l' : list nat), NoDup (l ++ l') ->
  NoDup l /\ NoDup l' /\ (forall x, In x l -> ~ In x l').
Proof.
  induction l as [|x r IH]; simpl; intros l' H.
  - repeat split; auto. constructor.
  - inversion H; subst. destruct (IH l' H3) as [A [B C]]. repeat split; auto.
    + constructor; auto. intro K. apply H2. apply in_or_app. auto.
    + intros y [->|Hy]; [intro K; apply H2; apply in_or_app; auto|apply C; auto].
Qed.

Lemma fold_normalize_sum : forall ads th a idx,
  NoDup (flat_map snd ads) -> (forall ad, In ad ads -> 0 <= fst ad) ->
  In (a, idx) ads -> (2 <= length idx)%nat -> nonneg_list th ->
  psum (fun i => nth i (fold_left normalize1 ads th) 0) idx <= a.
Proof.
  induction ads as [|[a1 i1] t IH]; intros th a idx Hnd Hpos Hin Hlen Hnn; [simpl in Hin; tauto|].
  simpl in Hnd. destruct (NoDup_app_parts _ _ Hnd) as [Hnd1 [Hnd_t Hdis]].
  assert (Ha1 : 0 <= a1) by (apply (Hpos (a1, i1)); simpl; auto).
  destruct Hin as [Heq|Hin].
  - inversion Heq; subst a1 i1. cbn [fold_left].
    rewrite (psum_ext _ _ (fun i => nth i (normalize1 th (a, idx)) 0) idx).
    + apply normalize1_sum; auto.
    + intros j Hj. apply fold_normalize_other with (idx := idx); auto.
  - cbn [fold_left]. apply IH; auto.
    + intros ad Had. apply Hpos. simpl. auto.
    + apply normalize1_nonneg; auto.
Qed.

Lemma flat_map_snd_adatoms : forall p, flat_map snd (adatoms p) = flat_map tun_of p.
Proof.
  induction p as [|c t IH]; [reflexivity|].
  unfold adatoms in *. cbn [flat_map]. rewrite flat_map_app, IH.
  destruct (tun_of c); [reflexivity|]. cbn [flat_map snd]. rewrite app_nil_r. reflexivity.
Qed.

Lemma nat_list_eqb_eq : forall a b, nat_list_eqb a b = true -> a = b.
Proof.
  induction a as [|x a IH]; destruct b as [|y b]; simpl; intros H; try discriminate; auto.
  apply andb_true_iff in H. destruct H as [H1 H2]. apply Nat.eqb_eq in H1. f_equal; auto.
Qed.

Theorem ad_sum_le_available : forall p exs th c, wf_prog p = true -> wf_params p (length th) = true ->
  wf_theta p th = true -> (forall me, In me exs -> 0 <= fst me) ->
  In c p -> (2 <= length (tun_of c))%nat ->
  psum (fun i => nth i (step true p exs th) 0) (tun_of c) <= 1 - fixed_sum c.
Proof.
  intros p exs th c Hp Hpar Hth Hm Hc Hlen. unfold step, mstep, normalize.
  apply fold_normalize_sum; auto.
  - rewrite flat_map_snd_adatoms. apply nat_list_eqb_eq in Hpar. rewrite Hpar. apply seq_NoDup.
  - intros [a idx] Had. destruct (in_adatoms p a idx Had) as [c' [Hc' [-> _]]].
    destruct (fixed_sum_bounds p th c' Hp Hth Hc'). simpl. lra.
  - unfold adatoms. apply in_flat_map. exists c. split; auto.
    destruct (tun_of c) eqn:E; [simpl in Hlen; lia|]. simpl. auto.
  - apply in01_nonneg_list. apply update_in01; [apply estep_ok; auto|eapply wf_theta_in01; eauto].
Qed.

(* ------------------------------------------------------------------ all heads of a clause sum to at most 1 *)
Lemma psum_app : forall A (f : A -> Q) l1 l2, psum f (l1 ++ l2) == psum f l1 + psum f l2.
Proof. induction l1 as [|x t IH]; intros; simpl; [ring|]. rewrite IH. ring. Qed.

Definition tunidx (h : nat * hkind) : list nat := match snd h with HTun i => [i] | _ => [] end.
Definition fixpart (h : nat * hkind) : Q := match snd h with HFix q => q | _ => 0 end.
Definition detpart (h : nat * hkind) : Q := match snd h with HDet => 1 | _ => 0 end.

Lemma heads_split : forall th (hs : list (nat * hkind)),
  psum (fun h => hweight th (snd h)) hs ==
  psum (fun i => nth i th 0) (flat_map tunidx hs) + psum fixpart hs + psum detpart hs.
Proof.
  induction hs as [|h t IH]; cbn [psum flat_map]; [ring|].
  rewrite psum_app, IH. unfold tunidx, fixpart, detpart. destruct (snd h); cbn [hweight psum]; ring.
Qed.

Lemma detpart_zero : forall hs, forallb (fun h : nat * hkind => not_det (snd h)) hs = true -> psum detpart hs == 0.
Proof.
  induction hs as [|h t IH]; cbn [psum forallb]; intros H; [reflexivity|].
  apply andb_true_iff in H. destruct H as [H1 H2]. rewrite IH by auto.
  unfold detpart. destruct (snd h); simpl in H1; try discriminate; ring.
Qed.

Lemma heads_sum_split : forall th c, wf_clause c = true -> is_det c = false ->
  heads_sum th c == psum (fun i => nth i th 0) (tun_of c) + fixed_sum c.
Proof.
  intros th c Hc Hd. unfold heads_sum, fixed_sum, tun_of. rewrite !qsum_psum.
  rewrite heads_split. fold tunidx. fold fixpart.
  rewrite detpart_zero; [unfold fixpart; ring|].
  unfold wf_clause in Hc. apply andb_true_iff in Hc. destruct Hc as [_ Hc]. rewrite Hd in Hc. auto.
Qed.

Lemma heads_sum_det : forall th c, is_det c = true -> heads_sum th c == 1.
Proof.
  intros th c H. unfold is_det in H. unfold heads_sum.
  destruct (heads c) as [|[a k] [|h2 r]]; try discriminate; destruct k; try discriminate.
  cbn [qsum snd hweight]. rewrite Qred_correct. ring.
Qed.

Theorem heads_sum_step : forall p exs th c, wf_prog p = true -> wf_params p (length th) = true ->
  wf_theta p th = true -> (forall me, In me exs -> 0 <= fst me) ->
  In c p -> ad_ok c = true -> heads_sum (step true p exs th) c <= 1.
Proof.
  intros p exs th c Hp Hpar Hth Hm Hc Hok.
  assert (Hwc : wf_clause c = true) by (unfold wf_prog in Hp; rewrite forallb_forall in Hp; auto).
  destruct (is_det c) eqn:Hd; [rewrite heads_sum_det by auto; lra|].
  rewrite heads_sum_split by auto.
  destruct (fixed_sum_bounds p th c Hp Hth Hc) as [F0 F1].
  destruct (le_lt_dec 2 (length (tun_of c))) as [L2|L1].
  - pose proof (ad_sum_le_available p exs th c Hp Hpar Hth Hm Hc L2). lra.
  - destruct (tun_of c) as [|i [|j r]] eqn:E; [cbn [psum]; lra| |simpl in L1; lia].
    unfold ad_ok in Hok. rewrite Hd, E in Hok. simpl in Hok. apply Qeq_bool_iff in Hok.
    cbn [psum]. pose proof (step_in01 true p exs th Hp Hth Hm) as R.
    destruct (nth_in01 _ i R). lra.
Qed.

Theorem wf_theta_step : forall p exs th, wf_prog p = true -> wf_params p (length th) = true ->
  wf_theta p th = true -> (forall me, In me exs -> 0 <= fst me) ->
  forallb ad_ok p = true -> wf_theta p (step true p exs th) = true.
Proof.
  intros p exs th Hp Hpar Hth Hm Hok. unfold wf_theta. apply andb_true_iff. split.
  - apply forallb_forall. intros x Hx.
    pose proof (step_in01 true p exs th Hp Hth Hm) as R. rewrite Forall_forall in R.
    destruct (R x Hx) as [A B]. apply andb_true_iff. split; apply Qle_bool_iff; auto.
  - apply forallb_forall. intros c Hc. apply Qle_bool_iff.
    rewrite forallb_forall in Hok. apply heads_sum_step; auto.
Qed.
