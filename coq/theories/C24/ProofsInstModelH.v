(* C24 -- the instance for programs whose tunable annotated disjunctions may also have constant heads
   (0.3::x; t(_)::b; t(_)::c).  The block of such a clause consists of its tunable heads and the "no head" outcome,
   its available mass is 1 - (sum of the constants); when a constant head is selected the block is switched off and
   the constant is part of the parameter-free factor. *)
From Coq Require Import QArith Qreals Reals List Bool Arith Lia Lra.
From PL.C24 Require Import ModelLFIUpdate ProofsBasic ProofsEM ProofsEMBlocks ProofsInstDefs ProofsInstDefsG ProofsInstDefsH
  ProofsInstTransport ProofsInstLatent ProofsInstLatentG ProofsInstLatentH ProofsInstModel ProofsInstQ ProofsInstQH
  ProofsInstMstep ProofsInstMstepQ ProofsInstSupports ProofsInstModelG.
Import ListNotations.
Open Scope R_scope.

Definition actH (p : program) (T : nat -> bool) (b : nat) (z : world) : bool :=
  act p T b z && tunsel (nth b p dcl) (nth b z 0%nat).
Definition h_kap (p : program) (b : nat) (me : Q * example) (z : world) : option nat :=
  if actH p (Tq p me) b z then Some (nth b z 0%nat) else None.
Definition h_a (th0 : list Q) (p : program) (me : Q * example) (z : world) : R :=
  ind (ev_true (world_vals p z) (snd me)) *
  prodR (fun b => if actH p (Tq p me) b z then 1 else swR th0 p b (nth b z 0%nat)) (seq 0 (length p)).
Definition h_f (th0 : list Q) (p : program) := fmulti (h_a th0 p) (m_bs p) (h_kap p).
Definition h_th (th : list Q) (p : program) (b k : nat) : R :=
  if Tb p b && tunsel (nth b p dcl) k then swR th p b k else 0.
Definition h_avail (p : program) (b : nat) : R :=
  if Tb p b then Q2R (1 - fixed_sum (nth b p dcl)) else 1.

Lemma actH_parts : forall p me b z, actH p (Tq p me) b z = true ->
  Tb p b = true /\ tunsel (nth b p dcl) (nth b z 0%nat) = true.
Proof.
  intros p me b z H. unfold actH in H. apply andb_true_iff in H. destruct H as [A S].
  split; [eapply act_Tq; eauto|exact S].
Qed.

Lemma h_fmulti_form : forall th0 th p me z,
  h_f th0 p (h_th th p) me z =
  ind (ev_true (world_vals p z) (snd me)) *
  prodR (fun b => if act p (Tq p me) b z then swR th p b (nth b z 0%nat) else swR th0 p b (nth b z 0%nat))
        (seq 0 (length p)).
Proof.
  intros. unfold h_f, fmulti, h_a, m_bs. rewrite Rmult_assoc. f_equal. rewrite prodR_mult.
  apply prodR_ext. intros b _. unfold bfactor, h_kap, h_th.
  destruct (actH p (Tq p me) b z) eqn:A; cbv iota.
  - destruct (actH_parts _ _ _ _ A) as [T S]. rewrite T, S. cbn [andb].
    unfold actH in A. apply andb_true_iff in A. destruct A as [A _]. rewrite A. ring.
  - unfold actH in A. destruct (act p (Tq p me) b z); [|ring]. cbn [andb] in A.
    unfold swR. rewrite (sel_weight_not_tunsel th th0 _ _ A). ring.
Qed.

(* ------------------------------------------------------------------ L1 *)
Theorem latent_space_sums_to_evidence_h : forall p n th0 th me,
  wf_prog p = true -> wf_params p n = true ->
  lik (m_zs p) (h_f th0 p) (h_th th p) me = Q2R (pevidence th p (snd me)).
Proof.
  intros p n th0 th me W WP. unfold lik, m_zs.
  rewrite (sumR_ext _ _ (fun z => ind (ev_true (world_vals p z) (snd me)) *
     prodR (fun b => if act p (Tq p me) b z then swR th p b (nth b z 0%nat) else swR th0 p b (nth b z 0%nat))
           (seq 0 (length p)))) by (intros; apply h_fmulti_form).
  rewrite (mixingH (rel p (snd me)) p (swR th p) (swR th0 p) (Tq p me) (Uq p me)
                   (fun b k => tunsel (nth b p dcl) k) (fun v => ind (ev_true v (snd me))) W).
  - rewrite Q2R_pevidence. apply sumR_ext. intros z Hz.
    rewrite Q2R_wweight by (apply worlds_length; auto). unfold ind, swR.
    destruct (ev_true (world_vals p z) (snd me)); ring.
  - intros c h l Hc Hh Rh Hl. eapply rel_closed; eauto.
  - intros v v' AG. unfold ev_true. rewrite (conj_true_agree _ v v' (snd me) AG); [reflexivity|].
    intros l Hl. apply rel_evidence. exact Hl.
  - intros b Hb T l Hl. unfold Tq in T. apply andb_true_iff in T. destruct T as [_ Qb].
    unfold qb in Qb. apply existsb_exists in Qb. destruct Qb as [i [Hi Qi]].
    apply (queried_body_rel p n me (nth b p dcl) i l W WP (nth_In _ _ Hb) Hi Qi Hl).
  - intros b _ _. unfold swR. rewrite !sel_weight_options_sumR. reflexivity.
  - intros b k T U. unfold swR. f_equal. apply sel_weight_no_tun.
    unfold Tq in T. unfold Uq in U. fold (Tb p b). destruct (Tb p b); auto.
    destruct (qb p me b); simpl in *; discriminate.
  - intros b Hb U. unfold Uq in U. apply andb_true_iff in U. destruct U as [T NQ].
    assert (Hc : In (nth b p dcl) p) by (apply nth_In; auto).
    split; [unfold Tq; rewrite T; apply negb_true_iff in NQ; rewrite NQ; reflexivity|].
    split; [|split].
    + (* a tunable head of a clause that the example does not query has an irrelevant atom *)
      intros k h S E. destruct (rel p (snd me) (fst h)) eqn:R; auto. exfalso.
      unfold tunsel in S. rewrite E in S. destruct h as [a [|q|i]]; try discriminate.
      pose proof (rel_head_queried p me _ a i W Hc (nth_error_In _ _ E) R) as Q.
      assert (Hi : In i (tun_of (nth b p dcl))).
      { unfold tun_of. apply in_flat_map. exists (a, HTun i). split; [eapply nth_error_In; eauto|simpl; auto]. }
      rewrite (qb_qd p n me b i WP Hb Hi) in NQ. rewrite Q in NQ. discriminate.
    + intros k S. unfold swR. f_equal. apply sel_weight_not_tunsel. exact S.
    + unfold swR. apply tunsel_sum_const.
Qed.

Lemma h_fmulti_at_th0 : forall p th0 me z, In z (worlds p) ->
  h_f th0 p (h_th th0 p) me z = ind (ev_true (world_vals p z) (snd me)) * Q2R (wweight th0 p z).
Proof.
  intros p th0 me z Hz. rewrite h_fmulti_form. f_equal.
  rewrite Q2R_wweight by (apply worlds_length; auto).
  apply prodR_ext. intros b _. destruct (act p (Tq p me) b z); reflexivity.
Qed.

(* ------------------------------------------------------------------ L2 *)
Theorem posterior_is_table_row_h : forall p n th0 me z,
  wf_prog p = true -> wf_params p n = true -> In z (worlds p) ->
  post (m_zs p) (h_f th0 p) (h_th th0 p) me z =
  ind (ev_true (world_vals p z) (snd me)) * Q2R (wweight th0 p z) / Q2R (pevidence th0 p (snd me)).
Proof.
  intros p n th0 me z W WP Hz. unfold post. rewrite (latent_space_sums_to_evidence_h p n) by auto.
  rewrite h_fmulti_at_th0 by auto. reflexivity.
Qed.

Lemma posterior_mass_h : forall p n th0 me (S : wentry -> bool),
  wf_prog p = true -> wf_params p n = true ->
  ~ (pevidence th0 p (snd me) == 0)%Q ->
  sumR (fun z => if S (z, world_vals p z, wweight th0 p z)
                 then post (m_zs p) (h_f th0 p) (h_th th0 p) me z else 0) (worlds p) =
  Q2R (wsum (ev_worlds (wtable th0 p) (snd me)) S / pevidence th0 p (snd me)).
Proof.
  intros p n th0 me S W WP NZ. rewrite Q2R_div' by auto. rewrite Q2R_wsum_ev.
  unfold Rdiv. rewrite <- sumR_scal_r. apply sumR_ext. intros z Hz.
  rewrite (posterior_is_table_row_h p n) by auto. unfold ind, Rdiv.
  destruct (ev_true (world_vals p z) (snd me)); destruct (S (z, world_vals p z, wweight th0 p z)); cbn [andb]; ring.
Qed.
