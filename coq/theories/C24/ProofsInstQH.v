(* C24 -- Q-level and R-level facts about tunable clauses that may also have constant heads
   (generalisation of ProofsInstQ.v from purely tunable clauses). *)
From Coq Require Import QArith List Bool Arith Lia Lqa.
From PL.C24 Require Import ModelLFIUpdate ProofsBasic ProofsRange ProofsInstDefs ProofsInstDefsG ProofsInstDefsH ProofsInstQ.
Import ListNotations.
Open Scope Q_scope.

Lemma has_tun_not_det : forall c, wf_clause c = true -> has_tun c = true -> is_det c = false.
Proof.
  intros c W T. unfold has_tun in T. unfold is_det.
  destruct (heads c) as [|[a [|q|i]] [|h2 r]]; simpl in *; auto; discriminate.
Qed.

Lemma has_tun_heads_sum : forall th c, wf_clause c = true -> has_tun c = true ->
  heads_sum th c == psum (fun i => nth i th 0) (tun_of c) + fixed_sum c.
Proof.
  intros th c W T. apply heads_sum_split; [exact W|]. apply has_tun_not_det; assumption.
Qed.

Lemma none_zero_before_h : forall th p c, wf_clause c = true -> has_tun c = true -> ads_full th p = true -> In c p ->
  (2 <= length (tun_of c))%nat -> 1 - heads_sum th c == 0.
Proof.
  intros th p c W T AF Hc L. rewrite (has_tun_heads_sum th c W T).
  rewrite (ads_full_spec th p c AF Hc L). ring.
Qed.

Lemma none_zero_after_h : forall (th' : list Q) (FBf : nat -> Q) c, wf_clause c = true -> has_tun c = true ->
  0 < psum FBf (tun_of c) ->
  (forall i, In i (tun_of c) -> nth i th' 0 == (1 - fixed_sum c) * FBf i / psum FBf (tun_of c)) ->
  1 - heads_sum th' c == 0.
Proof.
  intros th' FBf c W T SP Hth. rewrite (has_tun_heads_sum th' c W T).
  set (S := psum FBf (tun_of c)) in *.
  assert (NZ : ~ S == 0) by (intro K; rewrite K in SP; apply (Qlt_irrefl 0); exact SP).
  rewrite (psum_ext _ _ (fun i => FBf i * ((1 - fixed_sum c) / S)) (tun_of c)).
  - rewrite psum_scale. fold S. field. exact NZ.
  - intros i Hi. rewrite (Hth i Hi). field. exact NZ.
Qed.

Lemma heads_sum_keep : forall th th' c, wf_clause c = true -> has_tun c = true ->
  (forall i, In i (tun_of c) -> nth i th' 0 == nth i th 0) -> heads_sum th' c == heads_sum th c.
Proof.
  intros th th' c W T H. rewrite (has_tun_heads_sum th' c W T), (has_tun_heads_sum th c W T).
  rewrite (psum_ext _ _ (fun i => nth i th 0) (tun_of c) H). reflexivity.
Qed.

(* an outcome that is not a tunable head / "no head" has a weight that does not depend on theta *)
Lemma sel_weight_not_tunsel : forall th th0 c k, tunsel c k = false -> sel_weight th c k = sel_weight th0 c k.
Proof.
  intros th th0 c k H. unfold tunsel in H. unfold sel_weight.
  destruct (nth_error (heads c) k) as [[a [|q|i]]|]; try discriminate; reflexivity.
Qed.

Lemma sel_weight_tun_head : forall th c k a i, nth_error (heads c) k = Some (a, HTun i) -> sel_weight th c k = nth i th 0.
Proof. intros th c k a i E. unfold sel_weight. rewrite E. reflexivity. Qed.

Lemma tunsel_head : forall c k a i, nth_error (heads c) k = Some (a, HTun i) -> tunsel c k = true.
Proof. intros c k a i E. unfold tunsel. rewrite E. reflexivity. Qed.

Lemma tunsel_none : forall c k, nth_error (heads c) k = None -> tunsel c k = true.
Proof. intros c k E. unfold tunsel. rewrite E. reflexivity. Qed.

Lemma clause_ok_spec : forall c, clause_ok c = true -> has_tun c = true ->
  (forallb (fun h => is_tun (snd h)) (heads c) = true \/ (2 <= length (tun_of c))%nat) /\ 0 < 1 - fixed_sum c.
Proof.
  intros c H T. unfold clause_ok in H. rewrite T in H. cbn [negb orb] in H.
  apply andb_true_iff in H. destruct H as [H1 H2]. split.
  - apply orb_true_iff in H1. destruct H1 as [H1|H1]; [left; exact H1|right; apply Nat.leb_le; exact H1].
  - apply negb_true_iff in H2. apply Qle_bool_false in H2. exact H2.
Qed.

(* ------------------------------------------------------------------ R level *)
From Coq Require Import Qreals Reals Lra.
From PL.C24 Require Import ProofsEM ProofsEMBlocks ProofsInstTransport.
Open Scope R_scope.

Lemma sumR_app_qh : forall A (f : A -> R) l1 l2, sumR f (l1 ++ l2) = sumR f l1 + sumR f l2.
Proof.
  induction l1 as [|x t IH]; intros l2; cbn [app sumR]; [ring|]. rewrite IH. ring.
Qed.

(* sums over the tunable heads of a clause, list of heads vs. list of theta indices *)
Lemma tun_sum_heads : forall (f : nat -> Q) (hs : list (nat * hkind)),
  Q2R (psum f (flat_map tunidx hs)) = sumR (fun h => match snd h with HTun i => Q2R (f i) | _ => 0 end) hs.
Proof.
  intros f hs. rewrite Q2R_psum.
  induction hs as [|h t IH]; cbn [flat_map sumR]; [reflexivity|].
  rewrite sumR_app_qh, IH. unfold tunidx. destruct (snd h); cbn [sumR]; ring.
Qed.

Lemma tun_sum_tun_of : forall (f : nat -> Q) c,
  Q2R (psum f (tun_of c)) = sumR (fun h => match snd h with HTun i => Q2R (f i) | _ => 0 end) (heads c).
Proof. intros f c. unfold tun_of. fold tunidx. apply tun_sum_heads. Qed.

Lemma sumR_split_if : forall A (P : A -> bool) (f : A -> R) l,
  sumR f l = sumR (fun k => if P k then f k else 0) l + sumR (fun k => if P k then 0 else f k) l.
Proof.
  intros A P f l. rewrite <- sumR_plus. apply sumR_ext. intros x _. destruct (P x); ring.
Qed.

(* the total weight of the tunable-or-none outcomes does not depend on theta *)
Lemma tunsel_sum_const : forall th th0 c,
  sumR (fun k => if tunsel c k then Q2R (sel_weight th c k) else 0) (options c) =
  sumR (fun k => if tunsel c k then Q2R (sel_weight th0 c k) else 0) (options c).
Proof.
  intros th th0 c.
  pose proof (sel_weight_options_sumR th c) as H1.
  pose proof (sel_weight_options_sumR th0 c) as H2.
  rewrite (sumR_split_if _ (tunsel c) (fun k => Q2R (sel_weight th c k))) in H1.
  rewrite (sumR_split_if _ (tunsel c) (fun k => Q2R (sel_weight th0 c k))) in H2.
  assert (E : sumR (fun k => if tunsel c k then 0 else Q2R (sel_weight th c k)) (options c) =
              sumR (fun k => if tunsel c k then 0 else Q2R (sel_weight th0 c k)) (options c)).
  { apply sumR_ext. intros k _. destruct (tunsel c k) eqn:T; [reflexivity|].
    rewrite (sel_weight_not_tunsel th th0 c k T). reflexivity. }
  rewrite E in H1. lra.
Qed.

Lemma sumR_nth_error_seq : forall A (F : option A -> R) hs s,
  sumR (fun k => F (nth_error hs (k - s))) (seq s (length hs)) = sumR (fun h => F (Some h)) hs.
Proof.
  induction hs as [|h t IH]; intros s; cbn [length seq sumR]; [reflexivity|].
  rewrite Nat.sub_diag. cbn [nth_error]. rewrite <- (IH (S s)). f_equal.
  apply sumR_ext. intros b Hb. apply in_seq in Hb.
  replace (b - s)%nat with (S (b - S s)) by lia. reflexivity.
Qed.

(* ... and for a non-deterministic clause it is (sum of the tunable heads) + (weight of "no head") *)
Lemma tunsel_sum_value : forall th c, is_det c = false ->
  sumR (fun k => if tunsel c k then Q2R (sel_weight th c k) else 0) (options c) =
  Q2R (psum (fun i => nth i th 0%Q) (tun_of c)) + Q2R (1 - heads_sum th c)%Q.
Proof.
  intros th c D. unfold options. rewrite D. rewrite seq_S, sumR_app_qh. cbn [plus sumR].
  assert (N : nth_error (heads c) (length (heads c)) = None) by (apply nth_error_None; lia).
  rewrite (tunsel_none c _ N). rewrite (sel_weight_none th c _ N).
  rewrite tun_sum_tun_of.
  rewrite <- (sumR_nth_error_seq _
     (fun o => match o with Some h => match snd h with HTun i => Q2R (nth i th 0%Q) | _ => 0 end | None => 0 end)
     (heads c) 0%nat).
  rewrite (sumR_ext _ (fun k => if tunsel c k then Q2R (sel_weight th c k) else 0)
     (fun k => match nth_error (heads c) (k - 0) with
               | Some h => match snd h with HTun i => Q2R (nth i th 0%Q) | _ => 0 end | None => 0 end)
     (seq 0 (length (heads c)))).
  - ring.
  - intros k Hk. apply in_seq in Hk. rewrite Nat.sub_0_r. unfold tunsel, sel_weight.
    destruct (nth_error (heads c) k) as [[a [|q|i]]|] eqn:E; cbn [snd hweight]; try reflexivity.
    apply nth_error_None in E. lia.
Qed.
