(* C24 -- hand model over Q of ONE iteration of LFI (problog/learning/lfi.py:
   LFIProblem.step = _evaluate_examples ; _update ; _normalize_weights) for
   propositional programs.  No proofs in this file.

   Program class.  A program is a list of clauses.  A clause has a list of heads
   (atom, kind) and a body (list of signed atoms).  kind = HDet (plain rule, exactly
   one head), HFix q (constant probability) or HTun i (t(_) parameter number i,
   numbered in source order as LFIProblem.names).  Every clause with a non-HDet head
   is one probabilistic choice ("group"): outcome k < length heads selects head k, the
   extra outcome k = length heads is "no head" and carries weight 1 - sum (this is what
   ConstraintAD.update_weights gives the evaluator).  Programs are acyclic: body atoms
   are smaller than head atoms (checked by [wf_prog]), atoms are evaluated in index order.

   Semantics = enumeration of all worlds (one outcome per clause). *)
From Coq Require Import QArith List Bool Arith.
Import ListNotations.
Open Scope Q_scope.

Inductive hkind := HDet | HFix (q : Q) | HTun (i : nat).
Definition lit := (nat * bool)%type.
Record clause := Clause { heads : list (nat * hkind); body : list lit }.
Definition program := list clause.
Definition world := list nat.            (* selected outcome per clause *)
Definition example := list lit.          (* partial interpretation *)

(* ------------------------------------------------------------------ sums over Q *)
Fixpoint qsum {A} (f : A -> Q) (l : list A) : Q :=
  match l with [] => 0 | x :: t => Qred (f x + qsum f t) end.

Fixpoint qprod (l : list Q) : Q :=
  match l with [] => 1 | x :: t => Qred (x * qprod t) end.

(* ------------------------------------------------------------------ weights *)
Definition hweight (th : list Q) (h : hkind) : Q :=
  match h with HDet => 1 | HFix q => q | HTun i => nth i th 0 end.

Definition is_det (c : clause) : bool :=
  match heads c with [(_, HDet)] => true | _ => false end.

Definition heads_sum (th : list Q) (c : clause) : Q :=
  qsum (fun h => hweight th (snd h)) (heads c).

(* weight of selecting outcome k in clause c *)
Definition sel_weight (th : list Q) (c : clause) (k : nat) : Q :=
  match nth_error (heads c) k with
  | Some h => hweight th (snd h)
  | None => 1 - heads_sum th c
  end.

Definition options (c : clause) : list nat :=
  if is_det c then [0%nat] else seq 0 (S (length (heads c))).

Fixpoint worlds (p : program) : list world :=
  match p with
  | [] => [[]]
  | c :: t => flat_map (fun k => map (cons k) (worlds t)) (options c)
  end.

Definition wweight (th : list Q) (p : program) (w : world) : Q :=
  qprod (map (fun ck => sel_weight th (fst ck) (snd ck)) (combine p w)).

(* ------------------------------------------------------------------ truth of atoms *)
Definition lit_true (vals : list bool) (l : lit) : bool :=
  Bool.eqb (nth (fst l) vals false) (snd l).
Definition conj_true (vals : list bool) (b : list lit) : bool := forallb (lit_true vals) b.

(* clause c with selected outcome k derives atom a *)
Definition fires (vals : list bool) (a : nat) (ck : clause * nat) : bool :=
  match nth_error (heads (fst ck)) (snd ck) with
  | Some (a', _) => (a' =? a)%nat && conj_true vals (body (fst ck))
  | None => false
  end.

(* values of atoms 0 .. n-1 *)
Fixpoint eval_atoms (p : program) (w : world) (n : nat) : list bool :=
  match n with
  | O => []
  | S n' => let vals := eval_atoms p w n' in
            vals ++ [existsb (fires vals n') (combine p w)]
  end.

Definition max_atom_clause (c : clause) : nat :=
  fold_right Nat.max 0%nat (map (fun h => S (fst h)) (heads c) ++ map (fun l => S (fst l)) (body c)).
Definition natoms (p : program) : nat := fold_right Nat.max 0%nat (map max_atom_clause p).

Definition world_vals (p : program) (w : world) : list bool := eval_atoms p w (natoms p).

(* ------------------------------------------------------------------ tunable parameters *)
Fixpoint find_head (hs : list (nat * hkind)) (i k : nat) : option nat :=
  match hs with
  | [] => None
  | (_, HTun j) :: t => if (j =? i)%nat then Some k else find_head t i (S k)
  | _ :: t => find_head t i (S k)
  end.

(* (clause index, head index) of parameter i *)
Fixpoint locate (p : program) (i c : nat) : option (nat * nat) :=
  match p with
  | [] => None
  | cl :: t => match find_head (heads cl) i 0 with
               | Some k => Some (c, k)
               | None => locate t i (S c)
               end
  end.

Definition tun_of (c : clause) : list nat :=
  flat_map (fun h => match snd h with HTun i => [i] | _ => [] end) (heads c).
Definition fixed_sum (c : clause) : Q :=
  qsum (fun h => match snd h with HFix q => q | _ => 0 end) (heads c).

(* LFIProblem._adatoms restricted to clauses that have tunable heads:
   (available probability 1 - fixed, indices of the tunable heads) *)
Definition adatoms (p : program) : list (Q * list nat) :=
  flat_map (fun c => match tun_of c with [] => [] | l => [(1 - fixed_sum c, l)] end) p.

(* the tunable heads of the clause(s) in which parameter i occurs: i itself and self._adatomc[i] *)
Definition group_of (p : program) (i : nat) : list nat :=
  flat_map (fun c => if existsb (Nat.eqb i) (tun_of c) then tun_of c else []) p.

(* lfi_par(i) and lfi_body(i) in a world *)
Definition par_true (p : program) (vals : list bool) (i : nat) : bool :=
  match locate p i 0 with
  | Some (c, _) => conj_true vals (body (nth c p (Clause [] [])))
  | None => false
  end.
Definition sel_true (p : program) (w : world) (i : nat) : bool :=
  match locate p i 0 with
  | Some (c, k) => (nth c w (S k) =? k)%nat
  | None => false
  end.

(* ------------------------------------------------------------------ which parameters an example queries
   Example.compile: the lfi_prob-weighted nodes of the ground program of the evidence
   atoms, closed under "same AD" (add_queries).  For an acyclic propositional program:
   the tunable heads reachable from the evidence atoms through clause bodies. *)
Definition dedup (l : list nat) : list nat := nodup Nat.eq_dec l.

(* supp[a] = parameters reachable from atom a; built for atoms 0..n-1 in order *)
Fixpoint supports (p : program) (n : nat) : list (list nat) :=
  match n with
  | O => []
  | S n' =>
    let s := supports p n' in
    s ++ [dedup (flat_map (fun c =>
            if existsb (fun h => (fst h =? n')%nat) (heads c) then
              flat_map (fun h => if (fst h =? n')%nat then match snd h with HTun i => [i] | _ => [] end else []) (heads c)
              ++ flat_map (fun l => nth (fst l) s []) (body c)
            else []) p)]
  end.

Definition queried_s (s : list (list nat)) (p : program) (e : example) : list nat :=
  let direct := dedup (flat_map (fun l => nth (fst l) s []) e) in
  dedup (flat_map (group_of p) direct).
Definition queried (p : program) (e : example) : list nat := queried_s (supports p (natoms p)) p e.

(* ------------------------------------------------------------------ E-step *)
(* ExampleEvaluator._call_internal: `if w < 1e-6: p_queries[name] = 0.0` *)
Definition clampq : Q := 1 # 1000000.
Definition clamp (x : Q) : Q := if Qle_bool clampq x then x else 0.

Definition ev_true (vals : list bool) (e : example) : bool := conj_true vals e.

Definition b2q (b : bool) : Q := if b then 1 else 0.

(* one E-step result: (multiplicity, P(evidence), [(i, P(lfi_body i | e), P(lfi_par i | e))]) *)
Definition result := (Q * Q * list (nat * Q * Q))%type.

(* table of all worlds: (world, values of all atoms, weight); built once per E-step *)
Definition wentry := (world * list bool * Q)%type.
Definition wtable (th : list Q) (p : program) : list wentry :=
  map (fun w => (w, world_vals p w, wweight th p w)) (worlds p).

(* total weight of the worlds of a table satisfying a predicate *)
Definition wsum (tbl : list wentry) (pred : wentry -> bool) : Q :=
  qsum (fun t => snd t) (filter pred tbl).

Definition ev_pred (e : example) (t : wentry) : bool := ev_true (snd (fst t)) e.
Definition par_pred (p : program) (i : nat) (t : wentry) : bool := par_true p (snd (fst t)) i.
Definition body_pred (p : program) (i : nat) (t : wentry) : bool :=
  par_true p (snd (fst t)) i && sel_true p (fst (fst t)) i.
Definition all_pred (t : wentry) : bool := true.

(* worlds consistent with the evidence of e *)
Definition ev_worlds (tbl : list wentry) (e : example) : list wentry := filter (ev_pred e) tbl.

Definition pevidence (th : list Q) (p : program) (e : example) : Q :=
  wsum (ev_worlds (wtable th p) e) all_pred.

Definition estep1 (s : list (list nat)) (tbl : list wentry) (p : program) (me : Q * example) : option result :=
  let sub := ev_worlds tbl (snd me) in
  let pe := wsum sub all_pred in
  if Qeq_bool pe 0 then None                       (* InconsistentEvidenceError: example ignored *)
  else Some (fst me, pe,
             map (fun i => (i, clamp (Qred (wsum sub (body_pred p i) / pe)),
                               clamp (Qred (wsum sub (par_pred p i) / pe))))
                 (queried_s s p (snd me))).

Definition estep (th : list Q) (p : program) (exs : list (Q * example)) : list result :=
  let tbl := wtable th p in
  let s := supports p (natoms p) in
  flat_map (fun me => match estep1 s tbl p me with Some r => [r] | None => [] end) exs.

(* ------------------------------------------------------------------ M-step: LFIProblem._update *)
Definition r_mult (r : result) : Q := fst (fst r).
Definition r_pe (r : result) : Q := snd (fst r).
Definition r_q (r : result) : list (nat * Q * Q) := snd r.

Definition lookup_body (i : nat) (qs : list (nat * Q * Q)) : Q :=
  qsum (fun t => if (fst (fst t) =? i)%nat then snd (fst t) else 0) qs.
Definition lookup_par (i : nat) (qs : list (nat * Q * Q)) : Q :=
  qsum (fun t => if (fst (fst t) =? i)%nat then snd t else 0) qs.
Definition has_query (i : nat) (qs : list (nat * Q * Q)) : bool :=
  existsb (fun t => (fst (fst t) =? i)%nat) qs.

(* fact_body[i] += value * m *)
Definition fact_body (i : nat) (rs : list result) : Q :=
  qsum (fun r => r_mult r * lookup_body i (r_q r)) rs.

(* par_marg: every queried lfi_par(j) adds its value to j AND to every other head of j's AD
   (self._adatomc), so the entry of i collects the par values of all queried heads of its group *)
Definition par_marg (grp : list nat) (qs : list (nat * Q * Q)) : Q :=
  qsum (fun j => lookup_par j qs) grp.
Definition fact_par (grp : list nat) (rs : list result) : Q :=
  qsum (fun r => r_mult r * par_marg grp (r_q r)) rs.

Definition floorq : Q := 1 # 1000000000000000.      (* 10**-15 *)

Definition new_prob (p : program) (rs : list result) (i : nat) (old : Q) : Q :=
  if existsb (fun r => has_query i (r_q r)) rs then
    let b := fact_body i rs in
    if Qle_bool b floorq then 0 else Qred (b / fact_par (group_of p i) rs)
  else old.

Fixpoint mapi {A B} (f : nat -> A -> B) (k : nat) (l : list A) : list B :=
  match l with [] => [] | x :: t => f k x :: mapi f (S k) t end.

Definition update (p : program) (rs : list result) (th : list Q) : list Q :=
  mapi (new_prob p rs) 0 th.

(* ------------------------------------------------------------------ _normalize_weights *)
Definition set_nth (l : list Q) (i : nat) (v : Q) : list Q :=
  mapi (fun k x => if (k =? i)%nat then v else x) 0 l.

Definition normalize1 (th : list Q) (ad : Q * list nat) : list Q :=
  match snd ad with
  | [] | [_] => th
  | idx =>
    let w := qsum (fun i => nth i th 0) idx in
    let n := if Qeq_bool w 0 then fst ad else fst ad / w in
    mapi (fun k x => if existsb (Nat.eqb k) idx then Qred (x * n) else x) 0 th
  end.

Definition normalize (p : program) (th : list Q) : list Q :=
  fold_left normalize1 (adatoms p) th.

(* ------------------------------------------------------------------ one iteration *)
Definition mstep (norm : bool) (p : program) (rs : list result) (th : list Q) : list Q :=
  let th1 := update p rs th in
  if norm then normalize p th1 else th1.

Definition step (norm : bool) (p : program) (exs : list (Q * example)) (th : list Q) : list Q :=
  mstep norm p (estep th p exs) th.

(* ------------------------------------------------------------------ well-formedness (decidable) *)
Definition hk_ok (h : hkind) : bool := match h with HFix q => Qle_bool 0 q | _ => true end.
Definition not_det (h : hkind) : bool := match h with HDet => false | _ => true end.
Definition wf_clause (c : clause) : bool :=
  negb (match heads c with [] => true | _ => false end) &&
  forallb (fun h => hk_ok (snd h) && forallb (fun l => (fst l <? fst h)%nat) (body c)) (heads c) &&
  (is_det c || forallb (fun h => not_det (snd h)) (heads c)).
Definition wf_prog (p : program) : bool := forallb wf_clause p.

(* the tunable heads are numbered 0 .. n-1 in source order (LFIProblem.names) *)
Fixpoint nat_list_eqb (a b : list nat) : bool :=
  match a, b with
  | [], [] => true
  | x :: a', y :: b' => (x =? y)%nat && nat_list_eqb a' b'
  | _, _ => false
  end.
Definition wf_params (p : program) (n : nat) : bool := nat_list_eqb (flat_map tun_of p) (seq 0 n).

(* all weights of all outcomes are probabilities under th *)
Definition wf_theta (p : program) (th : list Q) : bool :=
  forallb (fun x => Qle_bool 0 x && Qle_bool x 1) th &&
  forallb (fun c => Qle_bool (heads_sum th c) 1) p.

(* every clause except: exactly one tunable head next to constant heads of non-zero mass
   (_normalize_weights skips groups of one head, so that head is not capped at 1 - constants) *)
Definition ad_ok (c : clause) : bool :=
  is_det c || negb (length (tun_of c) =? 1)%nat || Qeq_bool (fixed_sum c) 0.

(* ------------------------------------------------------------------ comparison helpers for the tie *)
Definition qclose (eps a b : Q) : bool := Qle_bool (a - b) eps && Qle_bool (b - a) eps.
Fixpoint qclose_list (eps : Q) (a b : list Q) : bool :=
  match a, b with
  | [], [] => true
  | x :: a', y :: b' => qclose eps x y && qclose_list eps a' b'
  | _, _ => false
  end.
(* results are compared as: same length; per result same multiplicity, close P(e),
   and for every query index of the model an equal-index entry on the other side *)
Definition qs_close (eps : Q) (a b : list (nat * Q * Q)) : bool :=
  (length a =? length b)%nat &&
  forallb (fun t => has_query (fst (fst t)) b &&
                    qclose eps (snd (fst t)) (lookup_body (fst (fst t)) b) &&
                    qclose eps (snd t) (lookup_par (fst (fst t)) b)) a.
Fixpoint results_close (eps : Q) (a b : list result) : bool :=
  match a, b with
  | [], [] => true
  | x :: a', y :: b' => Qeq_bool (r_mult x) (r_mult y) && qclose eps (r_pe x) (r_pe y)
                        && qs_close eps (r_q x) (r_q y) && results_close eps a' b'
  | _, _ => false
  end.
