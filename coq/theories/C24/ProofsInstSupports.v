(* C24 -- the structure of [supports]/[queried]: characterisation of one entry of the support table and the
   closure properties of relevance ([rel]) and of the queried set ([qd]) used by the relevant-only EM theorem. *)
From Coq Require Import QArith List Bool Arith Lia.
From PL.C24 Require Import ModelLFIUpdate ProofsBasic ProofsRange ProofsInstDefs ProofsInstDefsG ProofsInstQ ProofsInstMstep ProofsInstLatent.
Import ListNotations.
Open Scope nat_scope.

(* ------------------------------------------------------------------ one entry of the table *)
Definition entry (p : program) (s : list (list nat)) (n' : nat) : list nat :=
  dedup (flat_map (fun c =>
            if existsb (fun h => (fst h =? n')%nat) (heads c) then
              flat_map (fun h => if (fst h =? n')%nat then match snd h with HTun i => [i] | _ => [] end else []) (heads c)
              ++ flat_map (fun l => nth (fst l) s []) (body c)
            else []) p).

Lemma supports_S : forall p n, supports p (S n) = supports p n ++ [entry p (supports p n) n].
Proof. reflexivity. Qed.

Lemma supports_length : forall p n, length (supports p n) = n.
Proof.
  intros p n. induction n as [|n IH]; [reflexivity|].
  rewrite supports_S, app_length, IH. simpl. lia.
Qed.

Lemma supports_stable : forall p m n a, a < n -> n <= m ->
  nth a (supports p m) [] = nth a (supports p n) [].
Proof.
  intros p m. induction m as [|m IH]; intros n a Ha Hn; [lia|].
  destruct (Nat.eq_dec n (S m)) as [->|Hne]; [reflexivity|].
  rewrite supports_S, app_nth1 by (rewrite supports_length; lia).
  apply IH; lia.
Qed.

Lemma supports_prefix : forall p n a, a < n ->
  nth a (supports p n) [] = nth a (supports p (S a)) [].
Proof. intros p n a Ha. apply supports_stable; lia. Qed.

Lemma supports_last : forall p a, nth a (supports p (S a)) [] = entry p (supports p a) a.
Proof.
  intros p a. rewrite supports_S, app_nth2 by (rewrite supports_length; lia).
  rewrite supports_length, Nat.sub_diag. reflexivity.
Qed.

Lemma head_tun_in : forall (hs : list (nat * hkind)) a i,
  In i (flat_map (fun h => if (fst h =? a)%nat then match snd h with HTun i => [i] | _ => [] end else []) hs)
  <-> In (a, HTun i) hs.
Proof.
  intros hs a i. rewrite in_flat_map. split.
  - intros [[a' k] [Hin Hi]]. simpl in Hi. destruct (a' =? a) eqn:E; [|inversion Hi].
    apply Nat.eqb_eq in E. subst a'. destruct k; simpl in Hi; try contradiction.
    destruct Hi as [->|[]]. exact Hin.
  - intros H. exists (a, HTun i). split; auto. simpl. rewrite Nat.eqb_refl. left; reflexivity.
Qed.

Lemma entry_in_iff : forall p s a i,
  In i (entry p s a) <->
  exists c, In c p /\ (exists h, In h (heads c) /\ fst h = a) /\
    (In (a, HTun i) (heads c) \/ exists l, In l (body c) /\ In i (nth (fst l) s [])).
Proof.
  intros p s a i. unfold entry, dedup. rewrite nodup_In, in_flat_map. split.
  - intros [c [Hc Hi]]. exists c. split; auto.
    destruct (existsb (fun h => fst h =? a) (heads c)) eqn:E; [|inversion Hi].
    apply existsb_exists in E. destruct E as [h [Hh Eh]]. apply Nat.eqb_eq in Eh.
    split. { exists h; auto. }
    apply in_app_iff in Hi. destruct Hi as [Hi|Hi].
    + left. apply head_tun_in in Hi. exact Hi.
    + right. apply in_flat_map in Hi. exact Hi.
  - intros [c [Hc [[h [Hh Eh]] Hd]]]. exists c. split; auto.
    assert (E: existsb (fun h => fst h =? a) (heads c) = true).
    { apply existsb_exists. exists h. split; auto. apply Nat.eqb_eq; auto. }
    rewrite E. apply in_app_iff. destruct Hd as [Hd|Hd].
    + left. apply head_tun_in. auto.
    + right. apply in_flat_map. auto.
Qed.

(* ------------------------------------------------------------------ atoms are below natoms *)
Lemma fold_max_ge : forall l x, In x l -> x <= fold_right Nat.max 0 l.
Proof.
  induction l as [|y t IH]; intros x H; [inversion H|].
  simpl. destruct H as [->|H]; [lia|]. specialize (IH _ H). lia.
Qed.

Lemma head_lt_natoms : forall p c h, In c p -> In h (heads c) -> fst h < natoms p.
Proof.
  intros p c h Hc Hh.
  assert (H1: S (fst h) <= max_atom_clause c).
  { unfold max_atom_clause. apply fold_max_ge. apply in_app_iff. left.
    apply in_map_iff. exists h. auto. }
  assert (H2: max_atom_clause c <= natoms p).
  { unfold natoms. apply fold_max_ge. apply in_map_iff. exists c. auto. }
  lia.
Qed.

Lemma wf_prog_clause : forall p c, wf_prog p = true -> In c p -> wf_clause c = true.
Proof. intros p c W Hc. unfold wf_prog in W. rewrite forallb_forall in W. auto. Qed.

(* ------------------------------------------------------------------ supp *)
Lemma supp_nil : forall p a, natoms p <= a -> supp p a = [].
Proof. intros p a H. unfold supp. apply nth_overflow. rewrite supports_length. exact H. Qed.

Lemma supp_entry : forall p a, a < natoms p -> supp p a = entry p (supports p a) a.
Proof. intros p a H. unfold supp. rewrite supports_prefix by exact H. apply supports_last. Qed.

Lemma supp_lookup : forall p a b, b < a -> a < natoms p -> nth b (supports p a) [] = supp p b.
Proof. intros p a b Hb Ha. unfold supp. symmetry. apply supports_stable; lia. Qed.

Lemma supp_in_iff : forall p a i, wf_prog p = true -> (a < natoms p)%nat ->
  (In i (supp p a) <->
   exists c, In c p /\ (exists h, In h (heads c) /\ fst h = a) /\
     ((In (a, HTun i) (heads c)) \/ (exists l, In l (body c) /\ In i (supp p (fst l))))).
Proof.
  intros p a i W Ha. rewrite supp_entry by exact Ha. rewrite entry_in_iff.
  split; intros [c [Hc [[h [Hh Eh]] Hd]]]; exists c; (split; [exact Hc|]);
    (split; [exists h; auto|]); (destruct Hd as [Hd|[l [Hl Hi]]]; [left; exact Hd|right; exists l; split; [exact Hl|]]).
  - assert (Hlt: fst l < fst h) by (eapply wf_clause_body_lt; eauto using wf_prog_clause).
    rewrite supp_lookup in Hi by lia. exact Hi.
  - assert (Hlt: fst l < fst h) by (eapply wf_clause_body_lt; eauto using wf_prog_clause).
    rewrite supp_lookup by lia. exact Hi.
Qed.

(* ------------------------------------------------------------------ queried / rel / qd as membership *)
Lemma queried_direct : forall p e, queried p e = dedup (flat_map (group_of p) (direct p e)).
Proof. reflexivity. Qed.

Lemma existsb_eqb_in : forall i l, existsb (Nat.eqb i) l = true <-> In i l.
Proof.
  intros i l. rewrite existsb_exists. split.
  - intros [x [Hx E]]. apply Nat.eqb_eq in E. subst. exact Hx.
  - intros H. exists i. split; auto. apply Nat.eqb_refl.
Qed.

Lemma rel_spec : forall p e a, rel p e a = true <-> incl (supp p a) (direct p e).
Proof.
  intros p e a. unfold rel. rewrite forallb_forall. unfold incl.
  split; intros H i Hi; apply existsb_eqb_in; auto.
Qed.

Lemma direct_in : forall p e i, In i (direct p e) <-> exists l, In l e /\ In i (supp p (fst l)).
Proof. intros p e i. unfold direct, dedup. rewrite nodup_In, in_flat_map. reflexivity. Qed.

Lemma group_of_in : forall p i0 i, In i (group_of p i0) <->
  exists c, In c p /\ In i0 (tun_of c) /\ In i (tun_of c).
Proof.
  intros p i0 i. unfold group_of. rewrite in_flat_map. split.
  - intros [c [Hc Hi]]. destruct (existsb (Nat.eqb i0) (tun_of c)) eqn:E; [|inversion Hi].
    apply existsb_eqb_in in E. exists c. auto.
  - intros [c [Hc [H0 Hi]]]. exists c. split; auto.
    apply existsb_eqb_in in H0. rewrite H0. exact Hi.
Qed.

Lemma qd_in : forall p (me : Q * example) i, qd p me i = true <->
  exists i0, In i0 (direct p (snd me)) /\ In i (group_of p i0).
Proof.
  intros p me i. unfold qd. rewrite existsb_eqb_in, queried_direct. unfold dedup.
  rewrite nodup_In, in_flat_map. reflexivity.
Qed.

Lemma tun_of_in : forall c i, In i (tun_of c) <-> exists a, In (a, HTun i) (heads c).
Proof.
  intros c i. unfold tun_of. rewrite in_flat_map. split.
  - intros [[a k] [Hh Hi]]. simpl in Hi. destruct k; simpl in Hi; try contradiction.
    destruct Hi as [->|[]]. exists a. exact Hh.
  - intros [a Hh]. exists (a, HTun i). split; auto. simpl. left; reflexivity.
Qed.

Lemma tun_clause_unique : forall p c1 c2 i, NoDup (flat_map tun_of p) -> In c1 p -> In c2 p ->
  In i (tun_of c1) -> In i (tun_of c2) -> c1 = c2.
Proof.
  induction p as [|c0 t IH]; intros c1 c2 i Hnd H1 H2 I1 I2; [inversion H1|].
  cbn [flat_map] in Hnd. destruct (NoDup_app_parts _ _ Hnd) as [_ [Hnd_t Hdis]].
  destruct H1 as [H1|H1]; destruct H2 as [H2|H2].
  - congruence.
  - subst c1. exfalso. apply (Hdis i I1). apply in_flat_map. exists c2. auto.
  - subst c2. exfalso. apply (Hdis i I2). apply in_flat_map. exists c1. auto.
  - eapply IH; eauto.
Qed.

Lemma wf_params_nodup : forall p n, wf_params p n = true -> NoDup (flat_map tun_of p).
Proof. intros p n H. rewrite (wf_params_spec _ _ H). apply seq_NoDup. Qed.

(* ------------------------------------------------------------------ S1 *)
Lemma rel_evidence : forall p e l, In l e -> rel p e (fst l) = true.
Proof.
  intros p e l Hl. apply rel_spec. intros i Hi. apply direct_in. exists l. auto.
Qed.

(* ------------------------------------------------------------------ S2 *)
Lemma rel_closed : forall p e c h l, wf_prog p = true -> In c p -> In h (heads c) -> rel p e (fst h) = true ->
  In l (body c) -> rel p e (fst l) = true.
Proof.
  intros p e c h l W Hc Hh Hr Hl. apply rel_spec. apply rel_spec in Hr.
  intros i Hi. apply Hr. apply supp_in_iff; [exact W|eapply head_lt_natoms; eauto|].
  exists c. split; [exact Hc|]. split; [exists h; auto|]. right. exists l. auto.
Qed.

(* ------------------------------------------------------------------ S3 *)
Lemma rel_head_queried : forall p (me : Q * example) c a i, wf_prog p = true -> In c p -> In (a, HTun i) (heads c) ->
  rel p (snd me) a = true -> qd p me i = true.
Proof.
  intros p me c a i W Hc Hh Hr. apply rel_spec in Hr.
  assert (Hs: In i (supp p a)).
  { apply supp_in_iff; [exact W|apply (head_lt_natoms p c (a, HTun i) Hc Hh)|].
    exists c. split; [exact Hc|]. split; [exists (a, HTun i); auto|]. left. exact Hh. }
  apply qd_in. exists i. split; [apply Hr; exact Hs|].
  apply group_of_in. exists c.
  assert (In i (tun_of c)) by (apply tun_of_in; exists a; exact Hh). auto.
Qed.

(* ------------------------------------------------------------------ S5 *)
Lemma qd_group_imp : forall p (me : Q * example) c i j, NoDup (flat_map tun_of p) -> In c p ->
  In i (tun_of c) -> In j (tun_of c) -> qd p me i = true -> qd p me j = true.
Proof.
  intros p me c i j Hnd Hc Hi Hj Hq. apply qd_in in Hq. destruct Hq as [i0 [H0 Hg]].
  apply qd_in. exists i0. split; [exact H0|].
  apply group_of_in in Hg. destruct Hg as [c' [Hc' [H0' Hi']]].
  assert (c' = c) by (eapply tun_clause_unique; eauto). subst c'.
  apply group_of_in. exists c. auto.
Qed.

Lemma qd_group : forall p n (me : Q * example) c i j, wf_params p n = true -> In c p -> In i (tun_of c) -> In j (tun_of c) ->
  qd p me i = qd p me j.
Proof.
  intros p n me c i j Wp Hc Hi Hj. pose proof (wf_params_nodup _ _ Wp) as Hnd.
  destruct (qd p me i) eqn:Ei; destruct (qd p me j) eqn:Ej; try reflexivity.
  - rewrite (qd_group_imp p me c i j Hnd Hc Hi Hj Ei) in Ej. discriminate.
  - rewrite (qd_group_imp p me c j i Hnd Hc Hj Hi Ej) in Ei. discriminate.
Qed.

(* ------------------------------------------------------------------ S4 *)
Lemma supp_body_incl : forall p c i, wf_prog p = true -> NoDup (flat_map tun_of p) -> In c p -> In i (tun_of c) ->
  forall a, In i (supp p a) -> forall l, In l (body c) -> incl (supp p (fst l)) (supp p a).
Proof.
  intros p c i W Hnd Hc Hi a. induction a as [a IH] using lt_wf_ind. intros Hs l Hl.
  destruct (le_lt_dec (natoms p) a) as [Hge|Hlt].
  { rewrite supp_nil in Hs by exact Hge. inversion Hs. }
  pose proof Hs as Hs'. apply supp_in_iff in Hs'; [|exact W|exact Hlt].
  destruct Hs' as [c2 [Hc2 [[h2 [Hh2 Eh2]] Hd]]]. destruct Hd as [Hd|[l2 [Hl2 Hi2]]].
  - assert (In i (tun_of c2)) by (apply tun_of_in; exists a; exact Hd).
    assert (c2 = c) by (eapply tun_clause_unique; eauto). subst c2.
    intros x Hx. apply supp_in_iff; [exact W|exact Hlt|].
    exists c. split; [exact Hc|]. split; [exists h2; auto|]. right. exists l. auto.
  - assert (Hlt2: fst l2 < fst h2) by (eapply wf_clause_body_lt; eauto using wf_prog_clause).
    assert (Hin: incl (supp p (fst l)) (supp p (fst l2))) by (apply IH; [lia|exact Hi2|exact Hl]).
    intros x Hx. apply Hin in Hx. apply supp_in_iff; [exact W|exact Hlt|].
    exists c2. split; [exact Hc2|]. split; [exists h2; auto|]. right. exists l2. auto.
Qed.

Lemma queried_body_rel : forall p n (me : Q * example) c i l, wf_prog p = true -> wf_params p n = true ->
  In c p -> In i (tun_of c) -> qd p me i = true -> In l (body c) -> rel p (snd me) (fst l) = true.
Proof.
  intros p n me c i l W Wp Hc Hi Hq Hl. pose proof (wf_params_nodup _ _ Wp) as Hnd.
  apply qd_in in Hq. destruct Hq as [i0 [H0 Hg]].
  apply group_of_in in Hg. destruct Hg as [c' [Hc' [H0' Hi']]].
  assert (c' = c) by (eapply tun_clause_unique; eauto). subst c'.
  apply direct_in in H0. destruct H0 as [le [Hle Hs]].
  apply rel_spec. intros x Hx. apply direct_in. exists le. split; [exact Hle|].
  eapply (supp_body_incl p c i0 W Hnd Hc H0' (fst le) Hs l Hl). exact Hx.
Qed.
