(* C24 -- Q-level facts about purely tunable clauses used by the M-step link (L3). *)
From Coq Require Import QArith List Bool Arith Lia Lqa.
From PL.C24 Require Import ModelLFIUpdate ProofsBasic ProofsRange ProofsInstDefs.
Import ListNotations.
Open Scope Q_scope.

Definition hidx (h : nat * hkind) : nat := match snd h with HTun i => i | _ => 0%nat end.
Definition all_tun (c : clause) : bool := forallb (fun h => is_tun (snd h)) (heads c).

Lemma pure_all_tun : forall c, pure_clause c = true -> has_tun c = true -> all_tun c = true.
Proof.
  intros c P T. unfold pure_clause in P. rewrite T in P. cbn [negb] in P. rewrite orb_false_r in P. exact P.
Qed.

Lemma all_tun_not_det : forall c, all_tun c = true -> is_det c = false.
Proof.
  intros c H. unfold all_tun in H. unfold is_det.
  destruct (heads c) as [|[a [|q|i]] [|h2 r]]; simpl in *; auto; discriminate.
Qed.

Lemma all_tun_head : forall c k h, all_tun c = true -> nth_error (heads c) k = Some h ->
  h = (fst h, HTun (hidx h)).
Proof.
  intros c k h H E. unfold all_tun in H. rewrite forallb_forall in H.
  specialize (H h (nth_error_In _ _ E)). destruct h as [a [|q|i]]; simpl in *; try discriminate. reflexivity.
Qed.

Lemma all_tun_tun_of : forall c, all_tun c = true -> tun_of c = map hidx (heads c).
Proof.
  intros c H. unfold all_tun in H. unfold tun_of.
  induction (heads c) as [|[a h] t IH]; [reflexivity|].
  cbn [forallb] in H. apply andb_true_iff in H. destruct H as [H1 H2].
  cbn [flat_map map]. rewrite IH by auto. destruct h; simpl in *; try discriminate. reflexivity.
Qed.

Lemma all_tun_fixed_sum : forall c, all_tun c = true -> fixed_sum c == 0.
Proof.
  intros c H. unfold all_tun in H. unfold fixed_sum. rewrite qsum_psum.
  induction (heads c) as [|[a h] t IH]; [reflexivity|].
  cbn [forallb] in H. apply andb_true_iff in H. destruct H as [H1 H2].
  cbn [psum]. rewrite IH by auto. destruct h; simpl in *; try discriminate. ring.
Qed.

Lemma all_tun_heads_sum : forall th c, wf_clause c = true -> all_tun c = true ->
  heads_sum th c == psum (fun i => nth i th 0) (tun_of c).
Proof.
  intros th c W H. rewrite (heads_sum_split th c W (all_tun_not_det c H)).
  rewrite (all_tun_fixed_sum c H). ring.
Qed.

(* outcome weights of a purely tunable clause *)
Lemma sel_weight_head : forall th c k h, all_tun c = true -> nth_error (heads c) k = Some h ->
  sel_weight th c k = nth (hidx h) th 0.
Proof.
  intros th c k h H E. unfold sel_weight. rewrite E. rewrite (all_tun_head c k h H E). reflexivity.
Qed.

Lemma sel_weight_none : forall th c k, nth_error (heads c) k = None -> sel_weight th c k = 1 - heads_sum th c.
Proof. intros th c k E. unfold sel_weight. rewrite E. reflexivity. Qed.

Lemma ads_full_spec : forall th p c, ads_full th p = true -> In c p -> (2 <= length (tun_of c))%nat ->
  psum (fun i => nth i th 0) (tun_of c) == 1 - fixed_sum c.
Proof.
  intros th p c H Hc L. unfold ads_full in H. rewrite forallb_forall in H. specialize (H c Hc).
  apply orb_true_iff in H. destruct H as [H|H].
  - apply Nat.ltb_lt in H. lia.
  - apply Qeq_bool_iff in H. exact H.
Qed.

(* (#): before the step the "no head" outcome of every AD has weight 0 *)
Lemma none_zero_before : forall th p c, wf_clause c = true -> all_tun c = true -> ads_full th p = true -> In c p ->
  (2 <= length (tun_of c))%nat -> 1 - heads_sum th c == 0.
Proof.
  intros th p c W H AF Hc L. rewrite (all_tun_heads_sum th c W H).
  rewrite (ads_full_spec th p c AF Hc L). rewrite (all_tun_fixed_sum c H). ring.
Qed.

(* ... and after a normalised step as well *)
Lemma none_zero_after : forall (th' : list Q) (FBf : nat -> Q) c, wf_clause c = true -> all_tun c = true ->
  0 < psum FBf (tun_of c) ->
  (forall i, In i (tun_of c) -> nth i th' 0 == (1 - fixed_sum c) * FBf i / psum FBf (tun_of c)) ->
  1 - heads_sum th' c == 0.
Proof.
  intros th' FBf c W H SP Hth. rewrite (all_tun_heads_sum th' c W H).
  set (S := psum FBf (tun_of c)) in *.
  assert (NZ : ~ S == 0) by (intro K; rewrite K in SP; apply (Qlt_irrefl 0); exact SP).
  rewrite (psum_ext _ _ (fun i => FBf i * (1 / S)) (tun_of c)).
  - rewrite psum_scale. fold S. field. exact NZ.
  - intros i Hi. rewrite (Hth i Hi). rewrite (all_tun_fixed_sum c H). field. exact NZ.
Qed.

Lemma single_heads_sum : forall th c h, heads c = [h] -> heads_sum th c == hweight th (snd h).
Proof. intros th c h E. unfold heads_sum. rewrite E. cbn [qsum]. rewrite Qred_correct. ring. Qed.

Lemma bodies_seen_spec : forall th p exs n i, bodies_seen th p exs n = true -> (i < n)%nat -> 0 < FP th p exs i.
Proof.
  intros th p exs n i H Hi. unfold bodies_seen in H. rewrite forallb_forall in H.
  specialize (H i). rewrite in_seq in H. specialize (H ltac:(lia)).
  apply negb_true_iff in H. apply Qle_bool_false in H. exact H.
Qed.

Lemma wf_params_spec : forall p n, wf_params p n = true -> flat_map tun_of p = seq 0 n.
Proof. intros p n H. apply nat_list_eqb_eq. exact H. Qed.
