(* C24 -- non-vacuity of the model-level EM monotonicity theorem (ProofsInstMonotoneH.em_monotone_model_h).
   All side conditions are evaluated by vm_compute. *)
From Coq Require Import QArith Reals List Bool.
From PL.C24 Require Import ModelLFIUpdate ProofsInstDefs ProofsInstDefsG ProofsInstDefsH ProofsInstModel ProofsInstMonotoneH.
Import ListNotations.

(* ------------------------------------------------------------------ one tunable fact, one two-head tunable AD with a body
     t(1/2)::f.   t(1/4)::b; t(3/4)::c :- f.        data: {b} twice, {not b, not c}, {c} *)
Definition xi_prog : program :=
  [Clause [(0%nat, HTun 0)] [];
   Clause [(1%nat, HTun 1); (2%nat, HTun 2)] [(0%nat, true)]].
Definition xi_th : list Q := [(1 # 2)%Q; (1 # 4)%Q; (3 # 4)%Q].
Definition xi_data : list (Q * example) :=
  [(2%Q, [(1%nat, true)]); (1%Q, [(1%nat, false); (2%nat, false)]); (1%Q, [(2%nat, true)])].

Lemma xi_side : em_side_h xi_prog xi_data xi_th = true.
Proof. vm_compute. reflexivity. Qed.

Lemma xi_step : step true xi_prog xi_data xi_th = [(3 # 4)%Q; (2 # 3)%Q; (1 # 3)%Q].
Proof. vm_compute. reflexivity. Qed.

(* the side conditions hold again after the step: the theorem applies along the run *)
Lemma xi_side_again : em_side_h xi_prog xi_data (step true xi_prog xi_data xi_th) = true.
Proof. vm_compute. reflexivity. Qed.

Lemma xi_monotone : (LLm xi_prog xi_data xi_th <= LLm xi_prog xi_data [(3 # 4)%Q; (2 # 3)%Q; (1 # 3)%Q])%R.
Proof. rewrite <- xi_step. apply em_monotone_model_h. exact xi_side. Qed.

(* ------------------------------------------------------------------ relevant-only counting and a block that is never active
     t(1/2)::f.   t(1/4)::b; t(3/4)::c :- f.   t(1/3)::g.   t(1/2)::d :- g.
   The first three interpretations do not query g and d, the last one ({not g, not d}, twice) does not query f, b, c,
   and the block of d is queried but its body g is never true (LFI sets d to 0). *)
Definition xz_prog : program :=
  [Clause [(0%nat, HTun 0)] [];
   Clause [(1%nat, HTun 1); (2%nat, HTun 2)] [(0%nat, true)];
   Clause [(3%nat, HTun 3)] [];
   Clause [(4%nat, HTun 4)] [(3%nat, true)]].
Definition xz_th : list Q := [(1 # 2)%Q; (1 # 4)%Q; (3 # 4)%Q; (1 # 3)%Q; (1 # 2)%Q].
Definition xz_data : list (Q * example) :=
  [(2%Q, [(1%nat, true)]); (1%Q, [(1%nat, false); (2%nat, false)]); (1%Q, [(2%nat, true)]);
   (2%Q, [(3%nat, false); (4%nat, false)])].

Lemma xz_side : em_side_h xz_prog xz_data xz_th = true.
Proof. vm_compute. reflexivity. Qed.

Lemma xz_step : step true xz_prog xz_data xz_th = [(3 # 4)%Q; (2 # 3)%Q; (1 # 3)%Q; 0%Q; 0%Q].
Proof. vm_compute. reflexivity. Qed.

Lemma xz_side_again : em_side_h xz_prog xz_data (step true xz_prog xz_data xz_th) = true.
Proof. vm_compute. reflexivity. Qed.

Lemma xz_features :
  qd xz_prog (2%Q, [(1%nat, true)]) 3 = false /\ qd xz_prog (2%Q, [(3%nat, false); (4%nat, false)]) 0 = false /\
  seen_by xz_prog xz_data 4 = true /\ (FPq xz_th xz_prog xz_data 4 == 0)%Q.
Proof. vm_compute. repeat split; reflexivity. Qed.

Lemma xz_monotone :
  (LLm xz_prog xz_data xz_th <= LLm xz_prog xz_data [(3 # 4)%Q; (2 # 3)%Q; (1 # 3)%Q; 0%Q; 0%Q])%R.
Proof. rewrite <- xz_step. apply em_monotone_model_h. exact xz_side. Qed.

(* ------------------------------------------------------------------ a constant head inside a tunable AD
     t(1/2)::f.   0.3::x; t(0.2)::b; t(0.5)::c :- f.
   data: {x} (queries f only: the AD is not queried although its constant head x is the evidence), {b} twice, {c},
   {not b, not c}, {not x, not b} *)
Definition xh_prog : program :=
  [Clause [(0%nat, HTun 0)] [];
   Clause [(1%nat, HFix (3 # 10)); (2%nat, HTun 1); (3%nat, HTun 2)] [(0%nat, true)]].
Definition xh_th : list Q := [(1 # 2)%Q; (2 # 10)%Q; (5 # 10)%Q].
Definition xh_data : list (Q * example) :=
  [(1%Q, [(1%nat, true)]); (2%Q, [(2%nat, true)]); (1%Q, [(3%nat, true)]);
   (1%Q, [(2%nat, false); (3%nat, false)]); (1%Q, [(1%nat, false); (2%nat, false)])].

Lemma xh_side : em_side_h xh_prog xh_data xh_th = true.
Proof. vm_compute. reflexivity. Qed.

Lemma xh_features :
  qd xh_prog (1%Q, [(1%nat, true)]) 0 = true /\ qd xh_prog (1%Q, [(1%nat, true)]) 1 = false /\
  forallb pure_clause xh_prog = false.
Proof. vm_compute. repeat split; reflexivity. Qed.

Lemma xh_side_again : em_side_h xh_prog xh_data (step true xh_prog xh_data xh_th) = true.
Proof. vm_compute. reflexivity. Qed.

Lemma xh_monotone :
  (LLm xh_prog xh_data xh_th <= LLm xh_prog xh_data (step true xh_prog xh_data xh_th))%R.
Proof. apply em_monotone_model_h. exact xh_side. Qed.
