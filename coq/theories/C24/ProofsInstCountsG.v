(* C24 -- relevant-only instance: expected counts = E-step ratios summed over the examples that query the parameter
   (bcounts = FBq, btotal = FPq), and the abstract hypotheses of em_monotone_blocks. *)
From Coq Require Import QArith Qreals Reals List Bool Arith Lia Lra.
From PL.C24 Require Import ModelLFIUpdate ProofsBasic ProofsRange ProofsEM ProofsEMBlocks ProofsInstDefs ProofsInstDefsG
  ProofsInstTransport ProofsInstLatent ProofsInstModel ProofsInstCounts ProofsInstModelG.
Import ListNotations.
Open Scope R_scope.

Lemma g_kap_in : forall p exs b (me : Q * example) z k, In b (m_bs p) -> In me exs -> In z (m_zs p me) ->
  g_kap p b me z = Some k -> In k (m_ks p b).
Proof.
  intros p exs b me z k Hb _ Hz K. unfold g_kap in K. destruct (act p (Tq p me) b z); [|discriminate].
  inversion K; subst. unfold m_ks. apply worlds_nth; auto. unfold m_bs in Hb. apply in_seq in Hb. lia.
Qed.

Lemma g_a_nonneg : forall p th0 me z, wf_prog p = true -> wf_theta p th0 = true -> 0 <= g_a th0 p me z.
Proof.
  intros p th0 me z W T. unfold g_a. apply Rmult_le_pos.
  - unfold ind. destruct (ev_true _ _); lra.
  - apply prodR_nonneg. intros b Hb. apply in_seq in Hb.
    destruct (act p (Tq p me) b z); [lra|]. apply swR_nonneg; auto. lia.
Qed.

Lemma g_lik_pos : forall p n th0 exs me, wf_prog p = true -> wf_params p n = true -> forallb pure_clause p = true ->
  ev_pos th0 p exs = true -> In me exs ->
  0 < lik (m_zs p) (g_f th0 p) (m_th th0 p) me.
Proof.
  intros p n th0 exs me W WP PC EP Hin. rewrite (latent_space_sums_to_evidence_q p n) by auto.
  rewrite <- Q2R_0. apply Qlt_Rlt. eapply ev_pos_spec; eauto.
Qed.

Section CountsQ.
  Variables (p : program) (n : nat) (th0 : list Q) (exs : list (Q * example)).
  Hypothesis W : wf_prog p = true.
  Hypothesis WP : wf_params p n = true.
  Hypothesis PC : forallb pure_clause p = true.
  Hypothesis EP : ev_pos th0 p exs = true.

  Let bc := bcounts exs m_m (m_zs p) (g_a th0 p) (m_bs p) (g_kap p) (m_th th0 p).

  Lemma NDq : NoDup (flat_map tun_of p).
  Proof. rewrite (ProofsInstQ.wf_params_spec p _ WP). apply seq_NoDup. Qed.

  Lemma Tq_head : forall me b k a i, (b < length p)%nat -> nth_error (heads (nth b p dcl)) k = Some (a, HTun i) ->
    Tq p me b = qd p me i.
  Proof.
    intros me b k a i Hb E. unfold Tq, Tb. rewrite (has_tun_head _ _ _ _ E). cbn [andb].
    apply (qb_qd p n me b i WP Hb). unfold tun_of. apply in_flat_map. exists (a, HTun i).
    split; [eapply nth_error_In; eauto|simpl; auto].
  Qed.

  Lemma bcounts_FBq : forall b k a i, (b < length p)%nat ->
    nth_error (heads (nth b p dcl)) k = Some (a, HTun i) ->
    bc b k = Q2R (FBq th0 p exs i).
  Proof.
    intros b k a i Hb E. unfold FBq. rewrite Q2R_psum. unfold bc, bcounts.
    apply sumR_ext. intros me Hme. pose proof (Tq_head me b k a i Hb E) as TQ.
    destruct (qd p me i) eqn:Q.
    - rewrite Q2R_mult. unfold m_m at 1. f_equal. unfold post_body.
      rewrite <- (posterior_mass_q p n th0 me (body_pred p i) W WP PC (ev_nz p th0 exs EP me Hme)).
      unfold m_zs. apply sumR_ext. intros z Hz.
      unfold body_pred, par_true, sel_true. cbn [fst snd].
      rewrite (locate_at p b i k a NDq Hb E). unfold g_kap, act. rewrite TQ. cbn [andb]. fold dcl.
      rewrite (nth_indep z (S k) 0%nat) by (rewrite (worlds_length p z Hz); exact Hb).
      destruct (conj_true (world_vals p z) (body (nth b p dcl))); cbn [andb]; reflexivity.
    - rewrite Q2R_0. rewrite (sumR_ext _ _ (fun _ => 0)); [rewrite sumR_zero; ring|].
      intros z _. unfold g_kap, act. rewrite TQ. reflexivity.
  Qed.

  Lemma btotal_FPq : forall b k a i, (b < length p)%nat ->
    nth_error (heads (nth b p dcl)) k = Some (a, HTun i) ->
    btotal exs m_m (m_zs p) (g_a th0 p) (m_bs p) (m_ks p) (g_kap p) (m_th th0 p) b = Q2R (FPq th0 p exs i).
  Proof.
    intros b k a i Hb E. unfold btotal, bcounts. rewrite sumR_swap. unfold FPq. rewrite Q2R_psum.
    apply sumR_ext. intros me Hme. rewrite sumR_scal_l. pose proof (Tq_head me b k a i Hb E) as TQ.
    destruct (qd p me i) eqn:Q.
    - rewrite Q2R_mult. unfold m_m at 1. f_equal. unfold post_par.
      rewrite <- (posterior_mass_q p n th0 me (par_pred p i) W WP PC (ev_nz p th0 exs EP me Hme)).
      unfold m_zs. rewrite sumR_swap. apply sumR_ext. intros z Hz.
      unfold par_pred, par_true. cbn [fst snd].
      rewrite (locate_at p b i k a NDq Hb E). fold dcl.
      unfold g_kap, act. rewrite TQ. cbn [andb].
      destruct (conj_true (world_vals p z) (body (nth b p dcl))).
      + apply (sumR_delta (fun _ => post (fun _ => worlds p) (fmulti (g_a th0 p) (m_bs p) (g_kap p)) (m_th th0 p) me z)
                  (m_ks p b) (nth b z 0%nat)).
        * apply options_NoDup.
        * unfold m_ks. apply worlds_nth; auto.
      + apply sumR_zero.
    - rewrite Q2R_0. rewrite (sumR_ext _ _ (fun _ => 0)); [rewrite sumR_zero; ring|].
      intros k' _. rewrite (sumR_ext _ _ (fun _ => 0)); [apply sumR_zero|].
      intros z _. unfold g_kap, act. rewrite TQ. reflexivity.
  Qed.

  (* a clause that no example queries, or that has no tunable head, is never switched on *)
  Lemma bcounts_off_q : forall b k, (forall me, In me exs -> Tq p me b = false) -> bc b k = 0.
  Proof.
    intros b k T. unfold bc, bcounts.
    rewrite (sumR_ext _ _ (fun _ => 0)); [apply sumR_zero|]. intros me Hme.
    rewrite (sumR_ext _ _ (fun _ => 0)); [rewrite sumR_zero; ring|]. intros z _.
    unfold g_kap, act. rewrite (T me Hme). reflexivity.
  Qed.
End CountsQ.
