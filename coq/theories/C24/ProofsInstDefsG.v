(* C24 -- definitions for the "relevant-only" version of the model-level EM theorem: an example only counts
   for the parameters it queries (ModelLFIUpdate.queried = Example.compile/add_queries).  No proofs in this file. *)
From Coq Require Import QArith List Bool Arith.
From PL.C24 Require Import ModelLFIUpdate ProofsBasic ProofsInstDefs.
Import ListNotations.
Open Scope Q_scope.

(* example me queries parameter i *)
Definition qd (p : program) (me : Q * example) (i : nat) : bool := existsb (Nat.eqb i) (queried p (snd me)).
(* some example queries parameter i *)
Definition seen_by (p : program) (exs : list (Q * example)) (i : nat) : bool := existsb (fun me => qd p me i) exs.

(* expected counts over the examples that query the parameter *)
Definition FBq (th : list Q) (p : program) (exs : list (Q * example)) (i : nat) : Q :=
  psum (fun me => if qd p me i then fst me * post_body th p me i else 0) exs.
Definition FPq (th : list Q) (p : program) (exs : list (Q * example)) (i : nat) : Q :=
  psum (fun me => if qd p me i then fst me * post_par th p me i else 0) exs.

Definition clamp_inactive_q (th : list Q) (p : program) (exs : list (Q * example)) (n : nat) : bool :=
  forallb (fun me => forallb (fun i => negb (qd p me i) ||
                                       (zero_or_ge clampq (post_body th p me i) &&
                                        zero_or_ge clampq (post_par th p me i))) (seq 0 n)) exs.
Definition floor_inactive_q (th : list Q) (p : program) (exs : list (Q * example)) (n : nat) : bool :=
  forallb (fun i => Qeq_bool (FBq th p exs i) 0 || negb (Qle_bool (FBq th p exs i) floorq)) (seq 0 n).
(* a parameter that some example queries has a body of positive expected posterior mass *)
Definition blocks_seen (th : list Q) (p : program) (exs : list (Q * example)) (n : nat) : bool :=
  forallb (fun i => negb (seen_by p exs i) || negb (Qle_bool (FPq th p exs i) 0)) (seq 0 n).

(* relevance of an atom for an example: every parameter that supports the atom is directly reached
   from the evidence atoms *)
Definition supp (p : program) (a : nat) : list nat := nth a (supports p (natoms p)) [].
Definition direct (p : program) (e : example) : list nat := dedup (flat_map (fun l => supp p (fst l)) e).
Definition rel (p : program) (e : example) (a : nat) : bool :=
  forallb (fun i => existsb (Nat.eqb i) (direct p e)) (supp p a).
