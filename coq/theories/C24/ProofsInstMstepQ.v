(* C24 -- closed form of one normalised LFI iteration with "relevant-only" counting: an example
   contributes to parameter i only if it queries i (no [all_queried] side condition).
   A parameter that no example queries keeps its value; a queried one becomes FBq / FPq (single
   tunable head) or (1 - fixed) * FBq / sum FBq (AD). *)
From Coq Require Import QArith List Bool Arith Lia Lqa.
From PL.C24 Require Import ModelLFIUpdate ProofsBasic ProofsRange ProofsMLE ProofsInstDefs ProofsInstDefsG ProofsInstQ ProofsInstMstep.
Import ListNotations.
Open Scope Q_scope.

(* ------------------------------------------------------------------ the heads of one clause are queried together *)
Lemma in_group_of : forall p i0 i, In i (group_of p i0) ->
  exists c, In c p /\ In i0 (tun_of c) /\ In i (tun_of c).
Proof.
  intros p i0 i H. unfold group_of in H. apply in_flat_map in H. destruct H as [c [Hc Hi]].
  destruct (existsb (Nat.eqb i0) (tun_of c)) eqn:E; [|inversion Hi].
  apply existsb_exists in E. destruct E as [x [Hx Hix]]. apply Nat.eqb_eq in Hix. subst x.
  exists c. auto.
Qed.

Lemma qd_true_in : forall p (me : Q * example) j, qd p me j = true -> In j (queried p (snd me)).
Proof.
  intros p me j H. unfold qd in H. apply existsb_exists in H. destruct H as [x [Hx E]].
  apply Nat.eqb_eq in E. subst. exact Hx.
Qed.

Lemma in_qd_true : forall p (me : Q * example) j, In j (queried p (snd me)) -> qd p me j = true.
Proof.
  intros p me j H. unfold qd. apply existsb_exists. exists j. split; auto. apply Nat.eqb_refl.
Qed.

Lemma qd_false_notin : forall p (me : Q * example) j, qd p me j = false -> ~ In j (queried p (snd me)).
Proof. intros p me j H K. apply in_qd_true in K. congruence. Qed.

Lemma qd_dir : forall p (me : Q * example) c i j, NoDup (flat_map tun_of p) -> In c p ->
  In i (tun_of c) -> In j (tun_of c) -> qd p me i = true -> qd p me j = true.
Proof.
  intros p me c i j Hnd Hc Hi Hj H. apply in_qd_true. apply qd_true_in in H.
  unfold queried, queried_s, dedup in *.
  apply nodup_In. apply nodup_In in H.
  apply in_flat_map in H. destruct H as [i0 [Hi0 Hg]].
  apply in_flat_map. exists i0. split; [exact Hi0|].
  destruct (in_group_of p i0 i Hg) as [c' [Hc' [Hi0c Hic]]].
  rewrite (group_of_eq p i0 c' Hnd Hc' Hi0c).
  rewrite <- (group_of_eq p i c' Hnd Hc' Hic).
  rewrite (group_of_eq p i c Hnd Hc Hi). exact Hj.
Qed.

Lemma qd_same_clause : forall p n (me : Q * example) c i j, wf_params p n = true -> In c p ->
  In i (tun_of c) -> In j (tun_of c) -> qd p me i = qd p me j.
Proof.
  intros p n me c i j Hpar Hc Hi Hj.
  assert (Hnd : NoDup (flat_map tun_of p)) by (rewrite (wf_params_spec p n Hpar); apply seq_NoDup).
  destruct (qd p me i) eqn:Ei; destruct (qd p me j) eqn:Ej; auto.
  - rewrite (qd_dir p me c i j Hnd Hc Hi Hj Ei) in Ej. discriminate.
  - rewrite (qd_dir p me c j i Hnd Hc Hj Hi Ej) in Ei. discriminate.
Qed.

Lemma seen_same_clause : forall p n exs c i j, wf_params p n = true -> In c p ->
  In i (tun_of c) -> In j (tun_of c) -> seen_by p exs i = seen_by p exs j.
Proof.
  intros p n exs c i j Hpar Hc Hi Hj. unfold seen_by.
  induction exs as [|me r IH]; [reflexivity|]. cbn [existsb].
  rewrite IH. rewrite (qd_same_clause p n me c i j Hpar Hc Hi Hj). reflexivity.
Qed.

(* ------------------------------------------------------------------ E-step results, per example and parameter *)
Lemma lookup_map_absent : forall i (g : nat * Q * Q -> Q) (fb fp : nat -> Q) qs, ~ In i qs ->
  psum (fun t : nat * Q * Q => if (fst (fst t) =? i)%nat then g t else 0)
       (map (fun j => (j, fb j, fp j)) qs) == 0.
Proof.
  intros i g fb fp qs H. induction qs as [|k r IH]; cbn [map psum fst]; [reflexivity|].
  destruct (Nat.eqb_spec k i) as [->|Hk]; [exfalso; apply H; simpl; auto|].
  rewrite IH; [ring|]. intro K. apply H. simpl. auto.
Qed.

Lemma has_query_absent : forall i (fb fp : nat -> Q) qs, ~ In i qs ->
  existsb (fun t : nat * Q * Q => (fst (fst t) =? i)%nat) (map (fun j => (j, fb j, fp j)) qs) = false.
Proof.
  intros i fb fp qs H. induction qs as [|k r IH]; cbn [map existsb fst]; [reflexivity|].
  destruct (Nat.eqb_spec k i) as [->|Hk]; [exfalso; apply H; simpl; auto|].
  simpl. apply IH. intro K. apply H. simpl. auto.
Qed.

Lemma has_query_mk : forall p th me j, has_query j (r_q (mk p th me)) = qd p me j.
Proof.
  intros p th me j. destruct (qd p me j) eqn:E.
  - apply qd_true_in in E. unfold queried in E. unfold has_query, mk, r_q. cbn [snd].
    apply existsb_exists.
    exists (j, clamp (Qred (wsum (ev_worlds (wtable th p) (snd me)) (body_pred p j) / wsum (ev_worlds (wtable th p) (snd me)) all_pred)),
               clamp (Qred (wsum (ev_worlds (wtable th p) (snd me)) (par_pred p j) / wsum (ev_worlds (wtable th p) (snd me)) all_pred))).
    split; [|simpl; apply Nat.eqb_refl].
    apply in_map_iff. exists j. auto.
  - apply qd_false_notin in E. unfold queried in E. unfold has_query, mk, r_q. cbn [snd].
    apply has_query_absent. exact E.
Qed.

Lemma lookup_mk_q : forall p th me j,
  (qd p me j = true -> zero_or_ge clampq (post_body th p me j) = true /\
                       zero_or_ge clampq (post_par th p me j) = true) ->
  lookup_body j (r_q (mk p th me)) == (if qd p me j then post_body th p me j else 0) /\
  lookup_par j (r_q (mk p th me)) == (if qd p me j then post_par th p me j else 0).
Proof.
  intros p th me j H. destruct (qd p me j) eqn:E.
  - destruct (H eq_refl) as [Zb Zp]. apply qd_true_in in E.
    destruct (lookup_mk_post p th me j E Zb Zp) as [A [B _]]. auto.
  - apply qd_false_notin in E. unfold queried in E.
    unfold lookup_body, lookup_par, mk, r_q. cbn [snd]. rewrite !qsum_psum. split.
    + apply (lookup_map_absent j (fun t => snd (fst t))). exact E.
    + apply (lookup_map_absent j (fun t => snd t)). exact E.
Qed.

Definition ex_good_q (th : list Q) (p : program) (n : nat) (me : Q * example) : Prop :=
  forall j, (j < n)%nat -> qd p me j = true ->
    zero_or_ge clampq (post_body th p me j) = true /\ zero_or_ge clampq (post_par th p me j) = true.

Lemma ex_good_q_of : forall th p exs n, clamp_inactive_q th p exs n = true ->
  forall me, In me exs -> ex_good_q th p n me.
Proof.
  intros th p exs n Hc me Hme j Hj Hq.
  unfold clamp_inactive_q in Hc. rewrite forallb_forall in Hc.
  specialize (Hc me Hme). rewrite forallb_forall in Hc.
  assert (Hs : In j (seq 0 n)) by (apply in_seq; lia).
  specialize (Hc j Hs). rewrite Hq in Hc. simpl in Hc. apply andb_true_iff in Hc. exact Hc.
Qed.

Lemma fact_body_FBq : forall th p n exs j, (forall me, In me exs -> ex_good_q th p n me) -> (j < n)%nat ->
  fact_body j (map (mk p th) exs) == FBq th p exs j.
Proof.
  intros th p n exs j H Hj. unfold fact_body, FBq. rewrite qsum_psum.
  induction exs as [|me r IH]; [reflexivity|]. cbn [map psum].
  destruct (lookup_mk_q p th me j (H me (or_introl eq_refl) j Hj)) as [LB _].
  rewrite IH by (intros; apply H; simpl; auto). rewrite LB.
  change (r_mult (mk p th me)) with (fst me).
  destruct (qd p me j); ring.
Qed.

Lemma fact_par_FPq : forall th p n exs grp, (forall me, In me exs -> ex_good_q th p n me) ->
  (forall j, In j grp -> (j < n)%nat) ->
  fact_par grp (map (mk p th) exs) == psum (FPq th p exs) grp.
Proof.
  intros th p n exs grp H Hg. unfold fact_par. rewrite qsum_psum.
  induction exs as [|me r IH].
  - cbn [map psum]. unfold FPq. cbn [psum]. rewrite psum_const0. reflexivity.
  - cbn [map psum]. rewrite IH by (intros; apply H; simpl; auto).
    unfold FPq. cbn [psum]. rewrite psum_add. apply Qplus_comp; [|reflexivity].
    unfold par_marg. rewrite qsum_psum. rewrite <- psum_scale_l.
    apply psum_ext. intros j Hjg.
    destruct (lookup_mk_q p th me j (H me (or_introl eq_refl) j (Hg j Hjg))) as [_ LP].
    rewrite LP. change (r_mult (mk p th me)) with (fst me).
    destruct (qd p me j); ring.
Qed.

Lemma has_query_seen : forall th p exs j,
  existsb (fun r => has_query j (r_q r)) (map (mk p th) exs) = seen_by p exs j.
Proof.
  intros th p exs j. unfold seen_by. induction exs as [|me r IH]; [reflexivity|].
  cbn [map existsb]. rewrite IH, has_query_mk. reflexivity.
Qed.

(* ------------------------------------------------------------------ the un-normalised update *)
Lemma update_unseen : forall th p exs j, (j < length th)%nat -> seen_by p exs j = false ->
  nth j (update p (map (mk p th) exs) th) 0 == nth j th 0.
Proof.
  intros th p exs j Hj Hs. unfold update. rewrite nth_mapi by lia. unfold new_prob.
  rewrite has_query_seen, Hs. reflexivity.
Qed.

Lemma update_val_q : forall th p n exs grp j,
  (forall me, In me exs -> ex_good_q th p n me) -> n = length th ->
  floor_inactive_q th p exs n = true ->
  (forall k, In k grp -> (k < n)%nat) -> In j grp -> group_of p j = grp -> seen_by p exs j = true ->
  nth j (update p (map (mk p th) exs) th) 0 == FBq th p exs j / psum (FPq th p exs) grp.
Proof.
  intros th p n exs grp j H Hn Hfl Hg Hj Hgrp Hseen.
  assert (Hjn : (j < n)%nat) by auto.
  unfold update. rewrite nth_mapi by lia. unfold new_prob.
  rewrite has_query_seen, Hseen. rewrite Hgrp.
  pose proof (fact_body_FBq th p n exs j H Hjn) as CB.
  pose proof (fact_par_FPq th p n exs grp H Hg) as CP.
  unfold floor_inactive_q in Hfl. rewrite forallb_forall in Hfl.
  assert (Hs : In j (seq 0 n)) by (apply in_seq; lia).
  specialize (Hfl j Hs). apply orb_true_iff in Hfl.
  destruct (Qle_bool (fact_body j (map (mk p th) exs)) floorq) eqn:E.
  - destruct Hfl as [Z|NF].
    + apply Qeq_bool_iff in Z. rewrite Z. unfold Qdiv. ring.
    + exfalso. apply Qle_bool_iff in E. rewrite CB in E. apply Qle_bool_iff in E.
      rewrite E in NF. discriminate.
  - rewrite Qred_correct, CB, CP. reflexivity.
Qed.

(* ------------------------------------------------------------------ normalize1 on a group of total weight 0 *)
Lemma normalize1_at0 : forall th a idx i, (2 <= length idx)%nat -> In i idx ->
  psum (fun j => nth j th 0) idx == 0 ->
  nth i (normalize1 th (a, idx)) 0 == nth i th 0 * a.
Proof.
  intros th a idx i Hlen Hi Hw. unfold normalize1. cbn [snd fst].
  destruct idx as [|i0 [|i1 rest]]; [simpl in Hlen; lia|simpl in Hlen; lia|].
  set (idx := i0 :: i1 :: rest) in *.
  set (w := qsum (fun i => nth i th 0) idx).
  assert (W : w == psum (fun i => nth i th 0) idx) by (unfold w; apply qsum_psum).
  rewrite nth_mapi_any.
  - assert (X : existsb (Nat.eqb i) idx = true) by (apply existsb_exists; exists i; split; auto; apply Nat.eqb_refl).
    rewrite X. rewrite Qred_correct.
    destruct (Qeq_bool w 0) eqn:Ew.
    + reflexivity.
    + exfalso. apply Qeq_bool_neq in Ew. apply Ew. rewrite W. exact Hw.
  - intros k. destruct (existsb (Nat.eqb k) idx); [rewrite Qred_correct; ring|reflexivity].
Qed.

Lemma fold_normalize_at0 : forall ads th a idx i,
  NoDup (flat_map snd ads) -> In (a, idx) ads -> (2 <= length idx)%nat -> In i idx ->
  psum (fun j => nth j th 0) idx == 0 ->
  nth i (fold_left normalize1 ads th) 0 == nth i th 0 * a.
Proof.
  induction ads as [|[a1 i1] t IH]; intros th a idx i Hnd Hin Hlen Hi Hw; [simpl in Hin; tauto|].
  simpl in Hnd. destruct (NoDup_app_parts _ _ Hnd) as [Hnd1 [Hnd_t Hdis]].
  destruct Hin as [Heq|Hin].
  - inversion Heq; subst a1 i1. cbn [fold_left].
    rewrite (fold_normalize_other t (normalize1 th (a, idx)) idx) by auto.
    apply normalize1_at0; auto.
  - cbn [fold_left].
    assert (Hoth : forall j, In j idx -> nth j (normalize1 th (a1, i1)) 0 == nth j th 0).
    { intros j Hj. apply normalize1_other. intro K. apply (Hdis j K).
      apply in_flat_map. exists (a, idx). auto. }
    assert (P : psum (fun j => nth j (normalize1 th (a1, i1)) 0) idx == psum (fun j => nth j th 0) idx)
      by (apply psum_ext; auto).
    rewrite (IH (normalize1 th (a1, i1)) a idx i); auto.
    + rewrite Hoth by auto. reflexivity.
    + rewrite P. auto.
Qed.

(* ------------------------------------------------------------------ shared setting *)
Lemma estep_mk : forall p exs th, ev_pos th p exs = true -> estep th p exs = map (mk p th) exs.
Proof.
  intros p exs th Hev. apply estep_all. intros me Hme. unfold ev_pos in Hev. rewrite forallb_forall in Hev.
  specialize (Hev me Hme). apply negb_true_iff in Hev. apply Qle_bool_false in Hev. lra.
Qed.

Lemma mult_pos_spec : forall exs, mult_pos exs = true -> forall me, In me exs -> 0 <= fst me.
Proof.
  intros exs Hm me Hme. unfold mult_pos in Hm. rewrite forallb_forall in Hm.
  specialize (Hm me Hme). apply negb_true_iff in Hm. apply Qle_bool_false in Hm. lra.
Qed.

Lemma adatoms_member : forall p c, In c p -> tun_of c <> [] -> In (1 - fixed_sum c, tun_of c) (adatoms p).
Proof.
  intros p c Hc Hne. unfold adatoms. apply in_flat_map. exists c. split; auto.
  destruct (tun_of c) eqn:E; [congruence|]. simpl. auto.
Qed.

(* ------------------------------------------------------------------ a parameter no example queries *)
Theorem mstep_q_unseen : forall p exs th c i,
  wf_prog p = true -> wf_params p (length th) = true -> wf_theta p th = true ->
  ev_pos th p exs = true -> ads_full th p = true ->
  In c p -> In i (tun_of c) -> seen_by p exs i = false ->
  nth i (step true p exs th) 0 == nth i th 0.
Proof.
  intros p exs th c i Hp Hpar Hth Hev Haf Hc Hi Hun.
  pose proof (wf_params_spec p (length th) Hpar) as Hseq.
  assert (Hnd : NoDup (flat_map tun_of p)) by (rewrite Hseq; apply seq_NoDup).
  pose proof (estep_mk p exs th Hev) as Hes.
  set (idx := tun_of c) in *.
  assert (Hlt : forall k, In k idx -> (k < length th)%nat).
  { intros k Hk. assert (K : In k (flat_map tun_of p)) by (apply in_flat_map; exists c; auto).
    rewrite Hseq in K. apply in_seq in K. lia. }
  set (u := update p (map (mk p th) exs) th).
  assert (Hu : forall j, In j idx -> nth j u 0 == nth j th 0).
  { intros j Hj. unfold u. apply update_unseen; auto.
    rewrite <- Hun. apply (seen_same_clause p (length th) exs c j i); auto. }
  unfold step, mstep, normalize. rewrite Hes. fold u.
  destruct (le_lt_dec 2 (length idx)) as [Hlen|Hlen].
  - set (a := 1 - fixed_sum c).
    assert (Ha : psum (fun j => nth j th 0) idx == a) by (apply (ads_full_spec th p c); auto).
    assert (HW : psum (fun j => nth j u 0) idx == a).
    { rewrite <- Ha. apply psum_ext. exact Hu. }
    assert (Had : In (a, idx) (adatoms p)).
    { apply adatoms_member; auto. fold idx. intro K. rewrite K in Hi. inversion Hi. }
    destruct (Qeq_dec a 0) as [Z|NZ].
    + rewrite (fold_normalize_at0 (adatoms p) u a idx i); auto.
      * assert (T : nth i th 0 == 0).
        { apply (psum_zero nat (fun j => nth j th 0) idx); auto.
          - intros x _. pose proof (nth_in01 th x (wf_theta_in01 p th Hth)) as I. unfold in01 in I. tauto.
          - rewrite Ha. exact Z. }
        rewrite Hu by auto. rewrite T. ring.
      * rewrite flat_map_snd_adatoms. auto.
      * rewrite HW. exact Z.
    + rewrite (fold_normalize_at (adatoms p) u a idx i); auto.
      * rewrite HW, Hu by auto. field. exact NZ.
      * rewrite flat_map_snd_adatoms. auto.
      * rewrite HW. exact NZ.
  - rewrite fold_normalize_other_gen.
    + apply Hu. exact Hi.
    + intros [a idx'] Had. cbn [snd].
      destruct (in_adatoms p a idx' Had) as [c' [Hc' [_ [-> _]]]].
      destruct (in_dec Nat.eq_dec i (tun_of c')) as [Hin|Hnin]; [right|left; auto].
      assert (E : tun_of c' = idx).
      { rewrite <- (group_of_eq p i c' Hnd Hc' Hin). apply group_of_eq; auto. }
      rewrite E. lia.
Qed.

(* ------------------------------------------------------------------ a queried parameter *)
Theorem mstep_q_single : forall p exs th c i,
  wf_params p (length th) = true ->
  mult_pos exs = true -> ev_pos th p exs = true ->
  clamp_inactive_q th p exs (length th) = true -> floor_inactive_q th p exs (length th) = true ->
  In c p -> tun_of c = [i] -> seen_by p exs i = true ->
  nth i (step true p exs th) 0 == FBq th p exs i / FPq th p exs i.
Proof.
  intros p exs th c i Hpar Hm Hev Hcl Hfl Hc Ht Hseen.
  pose proof (wf_params_spec p (length th) Hpar) as Hseq.
  assert (Hnd : NoDup (flat_map tun_of p)) by (rewrite Hseq; apply seq_NoDup).
  pose proof (estep_mk p exs th Hev) as Hes.
  pose proof (ex_good_q_of th p exs (length th) Hcl) as Hgood.
  assert (Hi : In i (tun_of c)) by (rewrite Ht; simpl; auto).
  assert (Hgrp : group_of p i = [i]) by (rewrite <- Ht; apply group_of_eq; auto).
  assert (Hlt : (i < length th)%nat).
  { assert (K : In i (flat_map tun_of p)) by (apply in_flat_map; exists c; auto).
    rewrite Hseq in K. apply in_seq in K. lia. }
  unfold step, mstep, normalize. rewrite Hes.
  rewrite fold_normalize_other_gen.
  - rewrite (update_val_q th p (length th) exs [i] i); auto.
    + cbn [psum]. assert (E : FPq th p exs i + 0 == FPq th p exs i) by ring. rewrite E. reflexivity.
    + intros k [<-|[]]. auto.
    + simpl; auto.
  - intros [a idx] Had. cbn [snd].
    destruct (in_adatoms p a idx Had) as [c' [Hc' [_ [-> _]]]].
    destruct (in_dec Nat.eq_dec i (tun_of c')) as [Hin|Hnin]; [right|left; auto].
    pose proof (group_of_length p i c' Hc' Hin) as L. rewrite Hgrp in L. simpl in L. auto.
Qed.

Theorem mstep_q_multi : forall p exs th c i,
  wf_prog p = true -> wf_params p (length th) = true -> wf_theta p th = true ->
  mult_pos exs = true -> ev_pos th p exs = true ->
  clamp_inactive_q th p exs (length th) = true -> floor_inactive_q th p exs (length th) = true ->
  In c p -> In i (tun_of c) -> (2 <= length (tun_of c))%nat -> seen_by p exs i = true ->
  0 < psum (FBq th p exs) (tun_of c) ->
  nth i (step true p exs th) 0 == (1 - fixed_sum c) * FBq th p exs i / psum (FBq th p exs) (tun_of c).
Proof.
  intros p exs th c i Hp Hpar Hth Hm Hev Hcl Hfl Hc Hi Hlen Hseen HS.
  pose proof (wf_params_spec p (length th) Hpar) as Hseq.
  assert (Hnd : NoDup (flat_map tun_of p)) by (rewrite Hseq; apply seq_NoDup).
  pose proof (estep_mk p exs th Hev) as Hes.
  pose proof (ex_good_q_of th p exs (length th) Hcl) as Hgood.
  pose proof (mult_pos_spec exs Hm) as Hpos.
  set (idx := tun_of c) in *.
  assert (Hlt : forall k, In k idx -> (k < length th)%nat).
  { intros k Hk. assert (K : In k (flat_map tun_of p)) by (apply in_flat_map; exists c; auto).
    rewrite Hseq in K. apply in_seq in K. lia. }
  set (D := psum (FPq th p exs) idx).
  set (S := psum (FBq th p exs) idx) in *.
  set (u := update p (map (mk p th) exs) th).
  assert (Hu : forall j, In j idx -> nth j u 0 == FBq th p exs j / D).
  { intros j Hj. unfold u, D. apply (update_val_q th p (length th) exs idx j); auto.
    - apply group_of_eq; auto.
    - rewrite <- Hseen. apply (seen_same_clause p (length th) exs c j i); auto. }
  assert (Hok : Forall res_ok (map (mk p th) exs)) by (rewrite <- Hes; apply estep_ok; auto).
  assert (HD0 : 0 <= D).
  { unfold D. rewrite <- (fact_par_FPq th p (length th) exs idx Hgood Hlt). apply fact_par_nonneg; auto. }
  assert (HFBle : forall j, In j idx -> FBq th p exs j <= D).
  { intros j Hj. unfold D. rewrite <- (fact_par_FPq th p (length th) exs idx Hgood Hlt).
    rewrite <- (fact_body_FBq th p (length th) exs j Hgood (Hlt j Hj)).
    apply fact_body_le_par; auto. }
  assert (HD : 0 < D).
  { destruct (Qlt_le_dec 0 D) as [L|L]; auto. exfalso.
    assert (K : S <= psum (fun _ : nat => 0) idx).
    { unfold S. apply psum_le. intros j Hj. specialize (HFBle j Hj). lra. }
    rewrite psum_const0 in K. lra. }
  assert (HW : psum (fun j => nth j u 0) idx == S / D).
  { rewrite (psum_ext _ _ (fun j => FBq th p exs j * / D) idx) by (intros j Hj; rewrite Hu by auto; reflexivity).
    rewrite psum_scale. reflexivity. }
  assert (HSD : 0 < S / D) by (apply Qlt_shift_div_l; lra).
  unfold step, mstep, normalize. rewrite Hes. fold u.
  rewrite (fold_normalize_at (adatoms p) u (1 - fixed_sum c) idx i); auto.
  - rewrite HW, Hu by auto. field. split; lra.
  - rewrite flat_map_snd_adatoms. auto.
  - unfold adatoms. apply in_flat_map. exists c. split; auto. fold idx.
    destruct idx eqn:E; [simpl in Hlen; lia|]. simpl. auto.
  - rewrite HW. lra.
Qed.
