(* C24 -- instance with constant heads inside tunable ADs: expected counts and abstract hypotheses. *)
From Coq Require Import QArith Qreals Reals List Bool Arith Lia Lra.
From PL.C24 Require Import ModelLFIUpdate ProofsBasic ProofsRange ProofsEM ProofsEMBlocks ProofsInstDefs ProofsInstDefsG
  ProofsInstDefsH ProofsInstTransport ProofsInstLatent ProofsInstModel ProofsInstCounts ProofsInstModelG ProofsInstCountsG
  ProofsInstQ ProofsInstQH ProofsInstModelH.
Import ListNotations.
Open Scope R_scope.

Lemma h_kap_in : forall p exs b (me : Q * example) z k, In b (m_bs p) -> In me exs -> In z (m_zs p me) ->
  h_kap p b me z = Some k -> In k (m_ks p b).
Proof.
  intros p exs b me z k Hb _ Hz K. unfold h_kap in K. destruct (actH p (Tq p me) b z); [|discriminate].
  inversion K; subst. unfold m_ks. apply worlds_nth; auto. unfold m_bs in Hb. apply in_seq in Hb. lia.
Qed.

Lemma h_a_nonneg : forall p th0 me z, wf_prog p = true -> wf_theta p th0 = true -> 0 <= h_a th0 p me z.
Proof.
  intros p th0 me z W T. unfold h_a. apply Rmult_le_pos.
  - unfold ind. destruct (ev_true _ _); lra.
  - apply prodR_nonneg. intros b Hb. apply in_seq in Hb.
    destruct (actH p (Tq p me) b z); [lra|]. apply swR_nonneg; auto. lia.
Qed.

Lemma h_th_nonneg : forall p th b k, wf_prog p = true -> wf_theta p th = true -> In b (m_bs p) -> 0 <= h_th th p b k.
Proof.
  intros p th b k W T Hb. unfold h_th. destruct (Tb p b && tunsel (nth b p dcl) k); [|lra].
  apply swR_nonneg; auto. unfold m_bs in Hb. apply in_seq in Hb. lia.
Qed.

Lemma h_lik_pos : forall p n th0 exs me, wf_prog p = true -> wf_params p n = true ->
  ev_pos th0 p exs = true -> In me exs ->
  0 < lik (m_zs p) (h_f th0 p) (h_th th0 p) me.
Proof.
  intros p n th0 exs me W WP EP Hin. rewrite (latent_space_sums_to_evidence_h p n) by auto.
  rewrite <- Q2R_0. apply Qlt_Rlt. eapply ev_pos_spec; eauto.
Qed.

(* the tunable and "no head" outcomes of a clause with a tunable head sum to the available mass *)
Lemma h_th_sum : forall p th b, wf_prog p = true -> (b < length p)%nat ->
  sumR (h_th th p b) (m_ks p b) <= h_avail p b.
Proof.
  intros p th b W Hb. unfold h_th, m_ks, h_avail. destruct (Tb p b) eqn:T; cbn [andb].
  - assert (Hc : In (nth b p dcl) p) by (apply nth_In; auto).
    assert (Wc : wf_clause (nth b p dcl) = true) by (unfold wf_prog in W; rewrite forallb_forall in W; auto).
    unfold swR. rewrite (tunsel_sum_value th _ (has_tun_not_det _ Wc T)).
    rewrite <- Q2R_plus. right. apply Qeq_eqR. rewrite (has_tun_heads_sum th _ Wc T). ring.
  - rewrite sumR_zero. lra.
Qed.

Section CountsH.
  Variables (p : program) (n : nat) (th0 : list Q) (exs : list (Q * example)).
  Hypothesis W : wf_prog p = true.
  Hypothesis WP : wf_params p n = true.
  Hypothesis EP : ev_pos th0 p exs = true.

  Lemma NDh : NoDup (flat_map tun_of p).
  Proof. rewrite (ProofsInstQ.wf_params_spec p _ WP). apply seq_NoDup. Qed.

  Lemma bcounts_FBq_h : forall b k a i, (b < length p)%nat ->
    nth_error (heads (nth b p dcl)) k = Some (a, HTun i) ->
    bcounts exs m_m (m_zs p) (h_a th0 p) (m_bs p) (h_kap p) (h_th th0 p) b k = Q2R (FBq th0 p exs i).
  Proof.
    intros b k a i Hb E. unfold FBq. rewrite Q2R_psum. unfold bcounts.
    apply sumR_ext. intros me Hme. pose proof (Tq_head p n WP me b k a i Hb E) as TQ.
    destruct (qd p me i) eqn:Q.
    - rewrite Q2R_mult. unfold m_m at 1. f_equal. unfold post_body.
      rewrite <- (posterior_mass_h p n th0 me (body_pred p i) W WP (ev_nz p th0 exs EP me Hme)).
      unfold m_zs. apply sumR_ext. intros z Hz.
      unfold body_pred, par_true, sel_true. cbn [fst snd].
      rewrite (locate_at p b i k a NDh Hb E). unfold h_kap, actH, act. rewrite TQ. cbn [andb]. fold dcl.
      rewrite (nth_indep z (S k) 0%nat) by (rewrite (worlds_length p z Hz); exact Hb).
      destruct (conj_true (world_vals p z) (body (nth b p dcl))); cbn [andb]; [|reflexivity].
      destruct (Nat.eqb (nth b z 0%nat) k) eqn:EQ.
      + apply Nat.eqb_eq in EQ. rewrite EQ. rewrite (tunsel_head _ _ _ _ E). rewrite Nat.eqb_refl. reflexivity.
      + destruct (tunsel (nth b p dcl) (nth b z 0%nat)); [rewrite EQ|]; reflexivity.
    - rewrite Q2R_0. rewrite (sumR_ext _ _ (fun _ => 0)); [rewrite sumR_zero; ring|].
      intros z _. unfold h_kap, actH, act. rewrite TQ. reflexivity.
  Qed.

  (* an outcome that is a constant head is never counted *)
  Lemma bcounts_const_h : forall b k, tunsel (nth b p dcl) k = false ->
    bcounts exs m_m (m_zs p) (h_a th0 p) (m_bs p) (h_kap p) (h_th th0 p) b k = 0.
  Proof.
    intros b k S. unfold bcounts.
    rewrite (sumR_ext _ _ (fun _ => 0)); [apply sumR_zero|]. intros me _.
    rewrite (sumR_ext _ _ (fun _ => 0)); [rewrite sumR_zero; ring|]. intros z _.
    unfold h_kap, actH. destruct (act p (Tq p me) b z); cbn [andb]; [|reflexivity].
    destruct (tunsel (nth b p dcl) (nth b z 0%nat)) eqn:Sz; [|reflexivity].
    destruct (Nat.eqb_spec (nth b z 0%nat) k) as [K|_]; [|reflexivity]. rewrite K in Sz. congruence.
  Qed.

  Lemma bcounts_off_h : forall b k, (forall me, In me exs -> Tq p me b = false) ->
    bcounts exs m_m (m_zs p) (h_a th0 p) (m_bs p) (h_kap p) (h_th th0 p) b k = 0.
  Proof.
    intros b k T. unfold bcounts.
    rewrite (sumR_ext _ _ (fun _ => 0)); [apply sumR_zero|]. intros me Hme.
    rewrite (sumR_ext _ _ (fun _ => 0)); [rewrite sumR_zero; ring|]. intros z _.
    unfold h_kap, actH, act. rewrite (T me Hme). reflexivity.
  Qed.

  (* for a purely tunable clause the total count is the expected posterior mass of the body *)
  Lemma btotal_FPq_h : forall b k a i, (b < length p)%nat -> all_tun (nth b p dcl) = true ->
    nth_error (heads (nth b p dcl)) k = Some (a, HTun i) ->
    btotal exs m_m (m_zs p) (h_a th0 p) (m_bs p) (m_ks p) (h_kap p) (h_th th0 p) b = Q2R (FPq th0 p exs i).
  Proof.
    intros b k a i Hb AT E. unfold btotal, bcounts. rewrite sumR_swap. unfold FPq. rewrite Q2R_psum.
    apply sumR_ext. intros me Hme. rewrite sumR_scal_l. pose proof (Tq_head p n WP me b k a i Hb E) as TQ.
    assert (TS : forall kk, tunsel (nth b p dcl) kk = true).
    { intros kk. unfold tunsel. destruct (nth_error (heads (nth b p dcl)) kk) as [h|] eqn:Ek; [|reflexivity].
      rewrite (all_tun_head _ kk h AT Ek). reflexivity. }
    destruct (qd p me i) eqn:Q.
    - rewrite Q2R_mult. unfold m_m at 1. f_equal. unfold post_par.
      rewrite <- (posterior_mass_h p n th0 me (par_pred p i) W WP (ev_nz p th0 exs EP me Hme)).
      unfold m_zs. rewrite sumR_swap. apply sumR_ext. intros z Hz.
      unfold par_pred, par_true. cbn [fst snd].
      rewrite (locate_at p b i k a NDh Hb E). fold dcl.
      unfold h_kap, actH, act. rewrite TQ, TS. cbn [andb]. rewrite andb_true_r.
      destruct (conj_true (world_vals p z) (body (nth b p dcl))).
      + apply (sumR_delta (fun _ => post (fun _ => worlds p) (fmulti (h_a th0 p) (m_bs p) (h_kap p)) (h_th th0 p) me z)
                  (m_ks p b) (nth b z 0%nat)).
        * apply options_NoDup.
        * unfold m_ks. apply worlds_nth; auto.
      + apply sumR_zero.
    - rewrite Q2R_0. rewrite (sumR_ext _ _ (fun _ => 0)); [rewrite sumR_zero; ring|].
      intros k' _. rewrite (sumR_ext _ _ (fun _ => 0)); [apply sumR_zero|].
      intros z _. unfold h_kap, actH, act. rewrite TQ. reflexivity.
  Qed.
End CountsH.
