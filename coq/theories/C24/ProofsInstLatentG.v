(* C24 -- link L1 for "relevant-only" EM: besides the clauses whose body is false, the clauses that an example does
   not query are summed out.  Rel marks the atoms that are relevant for the example (closed under the bodies of the
   clauses that define a relevant atom).  A clause without relevant head atom cannot influence a relevant atom
   ([rel_indep]); if the evidence and the bodies of the gated clauses only read relevant atoms, the outcome weights of
   such a clause may be taken from another table with the same total ([mixingG]). *)
From Coq Require Import QArith Reals List Bool Arith Lia Lra.
From PL.C24 Require Import ModelLFIUpdate ProofsEM ProofsEMBlocks ProofsInstDefs ProofsInstLatent.
Import ListNotations.
Open Scope R_scope.

Lemma existsb_ext_in : forall A (f g : A -> bool) l, (forall x, In x l -> f x = g x) -> existsb f l = existsb g l.
Proof.
  induction l as [|x t IH]; intros H; simpl; auto.
  rewrite (H x) by (simpl; auto). rewrite IH; auto. intros; apply H; simpl; auto.
Qed.

Section Rel.
  Variable Rel : nat -> bool.

  Definition agree (v v' : list bool) : Prop := forall a, Rel a = true -> nth a v false = nth a v' false.
  Definition no_rel_head (c : clause) : Prop := forall h, In h (heads c) -> Rel (fst h) = false.
  Definition rel_closed (P : program) : Prop :=
    forall c h l, In c P -> In h (heads c) -> Rel (fst h) = true -> In l (body c) -> Rel (fst l) = true.

  Lemma fires_rel_eq : forall P c' kc' (v v' : list bool) n, wf_clause c' = true -> In c' P -> rel_closed P ->
    Rel n = true -> (forall a, (a < n)%nat -> Rel a = true -> nth a v' false = nth a v false) ->
    fires v' n (c', kc') = fires v n (c', kc').
  Proof.
    intros P c' kc' v v' n Wc Hc RC Rn AG. unfold fires. cbn [fst snd].
    destruct (nth_error (heads c') kc') as [[a' hk]|] eqn:E; [|reflexivity].
    destruct (Nat.eqb_spec a' n) as [->|_]; [|reflexivity]. cbn [andb].
    apply conj_true_ext. intros l Hl. apply AG.
    - apply (wf_clause_body_lt c' (n, hk) l Wc (nth_error_In _ _ E) Hl).
    - apply (RC c' (n, hk) l Hc (nth_error_In _ _ E) Rn Hl).
  Qed.

  Lemma wf_prog_in : forall P c, wf_prog P = true -> In c P -> wf_clause c = true.
  Proof. intros P c W H. unfold wf_prog in W. rewrite forallb_forall in W. auto. Qed.

  Lemma rel_indep_n : forall p1 c p2 w1 k k' w2,
    wf_prog (p1 ++ c :: p2) = true -> rel_closed (p1 ++ c :: p2) -> no_rel_head c -> length w1 = length p1 ->
    forall n a, (a < n)%nat -> Rel a = true ->
    nth a (eval_atoms (p1 ++ c :: p2) (w1 ++ k' :: w2) n) false =
    nth a (eval_atoms (p1 ++ c :: p2) (w1 ++ k :: w2) n) false.
  Proof.
    intros p1 c p2 w1 k k' w2 W RC NR L. set (P := p1 ++ c :: p2) in *.
    induction n as [|n IH]; intros a Ha Ra; [lia|].
    cbn [eval_atoms]. destruct (Nat.eq_dec a n) as [->|Hne].
    - rewrite !app_nth2 by (rewrite eval_length; lia). rewrite !eval_length, Nat.sub_diag. cbn [nth].
      unfold P. rewrite !combine_split by auto. rewrite !existsb_app. cbn [existsb]. fold P.
      assert (Hin1 : forall x, In x (combine p1 w1) -> In (fst x) P).
      { intros [c' kc'] Hx. apply in_combine_l in Hx. unfold P. apply in_or_app. auto. }
      assert (Hin2 : forall x, In x (combine p2 w2) -> In (fst x) P).
      { intros [c' kc'] Hx. apply in_combine_l in Hx. unfold P. apply in_or_app. right. simpl. auto. }
      f_equal; [|f_equal].
      + apply existsb_ext_in. intros [c' kc'] Hx. pose proof (Hin1 _ Hx) as Hc'. cbn [fst] in Hc'.
        apply (fires_rel_eq P c' kc'); auto. eapply wf_prog_in; eauto.
      + (* the clause without relevant head cannot fire for the relevant atom n *)
        assert (F : forall v kk, fires v n (c, kk) = false).
        { intros v kk. unfold fires. cbn [fst snd].
          destruct (nth_error (heads c) kk) as [[a' hk]|] eqn:E; [|reflexivity].
          destruct (Nat.eqb_spec a' n) as [->|_]; [|reflexivity].
          pose proof (NR (n, hk) (nth_error_In _ _ E)) as K. cbn [fst] in K. congruence. }
        rewrite !F. reflexivity.
      + apply existsb_ext_in. intros [c' kc'] Hx. pose proof (Hin2 _ Hx) as Hc'. cbn [fst] in Hc'.
        apply (fires_rel_eq P c' kc'); auto. eapply wf_prog_in; eauto.
    - rewrite !app_nth1 by (rewrite eval_length; lia). apply IH; auto. lia.
  Qed.

  Lemma rel_indep : forall p1 c p2 w1 k k' w2,
    wf_prog (p1 ++ c :: p2) = true -> rel_closed (p1 ++ c :: p2) -> no_rel_head c -> length w1 = length p1 ->
    agree (world_vals (p1 ++ c :: p2) (w1 ++ k' :: w2)) (world_vals (p1 ++ c :: p2) (w1 ++ k :: w2)).
  Proof.
    intros p1 c p2 w1 k k' w2 W RC NR L a Ra. unfold world_vals.
    destruct (lt_dec a (natoms (p1 ++ c :: p2))) as [Ha|Ha].
    - apply rel_indep_n; auto.
    - rewrite !nth_overflow by (rewrite eval_length; lia). reflexivity.
  Qed.

  Lemma conj_true_agree : forall v v' b, agree v v' -> (forall l, In l b -> Rel (fst l) = true) ->
    conj_true v b = conj_true v' b.
  Proof. intros v v' b AG Hb. apply conj_true_ext. intros l Hl. apply AG. auto. Qed.

  (* U b: clause b is summed out for this example (not queried) *)
  Lemma hybrid_stepG : forall p1 c p2 (w w0 : nat -> nat -> R) (T U : nat -> bool) g,
    wf_prog (p1 ++ c :: p2) = true -> rel_closed (p1 ++ c :: p2) ->
    (forall v v', agree v v' -> g v = g v') ->
    (forall b, (b < length (p1 ++ c :: p2))%nat -> T b = true ->
       forall l, In l (body (nth b (p1 ++ c :: p2) dcl)) -> Rel (fst l) = true) ->
    (T (length p1) = true \/ U (length p1) = true ->
       sumR (w (length p1)) (options c) = sumR (w0 (length p1)) (options c)) ->
    (T (length p1) = false -> U (length p1) = false -> forall k, w (length p1) k = w0 (length p1) k) ->
    (U (length p1) = true -> T (length p1) = false /\ no_rel_head c) ->
    hyb (p1 ++ c :: p2) w w0 T g (length p1) = hyb (p1 ++ c :: p2) w w0 T g (S (length p1)).
  Proof.
    intros p1 c p2 w w0 T U g WP RC Hg HT H1 H2 HU.
    destruct (U (length p1)) eqn:Uj.
    2:{ apply hybrid_step.
        - eapply wf_prog_mid; eauto.
        - intros Tj. apply H1. auto.
        - intros Tj k. apply H2; auto. }
    destruct (HU eq_refl) as [Tj NR].
    unfold hyb. rewrite !sum_worlds_split.
    set (P := p1 ++ c :: p2) in *. set (j := length p1) in *.
    assert (Hj : (j < length P)%nat) by (unfold P, j; rewrite app_length; simpl; lia).
    apply sumR_ext. intros w1 Hw1. apply worlds_len in Hw1.
    apply sumR_ext. intros w2 _.
    set (zk := fun k => w1 ++ k :: w2).
    set (rest := fun jj k => prodR (fun b => if (b =? j)%nat then 1 else fac P w w0 T jj b (zk k)) (seq 0 (length P))).
    assert (I : forall jj k, prodR (fun b => fac P w w0 T jj b (zk k)) (seq 0 (length P)) =
                             fac P w w0 T jj j (zk k) * rest jj k).
    { intros jj k. apply (prodR_isolate (fun b => fac P w w0 T jj b (zk k))). auto. }
    assert (RS : forall k, rest (S j) k = rest j k).
    { intros k. unfold rest. apply prodR_ext. intros b Hb.
      destruct (Nat.eqb_spec b j) as [->|Hne]; [reflexivity|]. unfold fac.
      destruct (Nat.ltb_spec b j); destruct (Nat.ltb_spec b (S j)); try lia; reflexivity. }
    assert (Fj : forall k, fac P w w0 T (S j) j (zk k) = w j k).
    { intros k. unfold fac. destruct (Nat.ltb_spec j (S j)); [|lia].
      unfold zk, j. rewrite <- Hw1. rewrite nth_mid. reflexivity. }
    assert (Fj0 : forall k, fac P w w0 T j j (zk k) = w0 j k).
    { intros k. unfold fac. destruct (Nat.ltb_spec j j); [lia|]. unfold act. rewrite Tj. cbn [andb].
      unfold zk, j. rewrite <- Hw1. rewrite nth_mid. reflexivity. }
    assert (V : forall k, agree (world_vals P (zk k)) (world_vals P (zk 0%nat))).
    { intros k. apply (rel_indep p1 c p2 w1 0%nat k w2 WP RC NR Hw1). }
    assert (R0 : forall k, rest j k = rest j 0%nat).
    { intros k. unfold rest. apply prodR_ext. intros b Hb. apply in_seq in Hb.
      destruct (Nat.eqb_spec b j) as [->|Hne]; [reflexivity|]. unfold fac, act.
      assert (N : nth b (zk k) 0%nat = nth b (zk 0%nat) 0%nat)
        by (unfold zk; apply nth_mid_other; unfold j in Hne; lia).
      rewrite N. destruct (T b) eqn:Tb; cbn [andb]; [|reflexivity].
      rewrite (conj_true_agree _ _ _ (V k)); [reflexivity|]. apply HT; auto. lia. }
    rewrite (sumR_ext _ _ (fun k => (g (world_vals P (zk 0%nat)) * rest j 0%nat) * w0 j k)).
    2:{ intros k _. fold (zk k). rewrite I, Fj0, R0, (Hg _ _ (V k)). ring. }
    rewrite (sumR_ext _ (fun k => g (world_vals P (w1 ++ k :: w2)) *
                                  prodR (fun b => fac P w w0 T (S j) b (w1 ++ k :: w2)) (seq 0 (length P)))
                      (fun k => (g (world_vals P (zk 0%nat)) * rest j 0%nat) * w j k)).
    2:{ intros k _. fold (zk k). rewrite I, Fj, RS, R0, (Hg _ _ (V k)). ring. }
    rewrite !sumR_scal_l. fold j in H1. rewrite (H1 (or_intror eq_refl)). reflexivity.
  Qed.

  Theorem mixingG : forall P (w w0 : nat -> nat -> R) (T U : nat -> bool) (g : list bool -> R),
    wf_prog P = true -> rel_closed P ->
    (forall v v', agree v v' -> g v = g v') ->
    (forall b, (b < length P)%nat -> T b = true -> forall l, In l (body (nth b P dcl)) -> Rel (fst l) = true) ->
    (forall b, (b < length P)%nat -> T b = true \/ U b = true ->
       sumR (w b) (options (nth b P dcl)) = sumR (w0 b) (options (nth b P dcl))) ->
    (forall b k, T b = false -> U b = false -> w b k = w0 b k) ->
    (forall b, (b < length P)%nat -> U b = true -> T b = false /\ no_rel_head (nth b P dcl)) ->
    sumR (fun z => g (world_vals P z) *
                   prodR (fun b => if act P T b z then w b (nth b z 0%nat) else w0 b (nth b z 0%nat))
                         (seq 0 (length P))) (worlds P)
    = sumR (fun z => g (world_vals P z) * prodR (fun b => w b (nth b z 0%nat)) (seq 0 (length P))) (worlds P).
  Proof.
    intros P w w0 T U g W RC Hg HT H1 H2 HU.
    assert (A : forall j, (j <= length P)%nat -> hyb P w w0 T g 0 = hyb P w w0 T g j).
    { induction j as [|j IH]; intros Hj; [reflexivity|]. rewrite IH by lia.
      destruct (split_at P j) as [p1 [c [p2 [E L]]]]; [lia|]. subst P. subst j.
      apply (hybrid_stepG p1 c p2 w w0 T U g); auto.
      - intros HTU. specialize (H1 (length p1)). rewrite nth_mid_clause in H1. apply H1; auto.
      - intros Uj. specialize (HU (length p1)). rewrite nth_mid_clause in HU. apply HU; auto. }
    pose proof (A (length P) (le_n _)) as H. unfold hyb in H.
    etransitivity; [etransitivity; [|exact H]|].
    - apply sumR_ext. intros z _. f_equal.
    - apply sumR_ext. intros z _. f_equal. apply prodR_ext. intros b Hb. apply in_seq in Hb.
      unfold fac. destruct (Nat.ltb_spec b (length P)); [reflexivity|lia].
  Qed.
End Rel.
