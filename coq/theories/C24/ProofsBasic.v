(* C24 -- basic lemmas: sums over Q, non-negativity of world weights, E-step results *)
From Coq Require Import QArith Qreduction List Bool Arith Lia Lqa.
From PL.C24 Require Import ModelLFIUpdate.
Import ListNotations.
Open Scope Q_scope.
Global Opaque Qred.

(* ------------------------------------------------------------------ plain sums *)
Fixpoint psum {A} (f : A -> Q) (l : list A) : Q :=
  match l with [] => 0 | x :: t => f x + psum f t end.

Lemma qsum_psum : forall A (f : A -> Q) l, qsum f l == psum f l.
Proof.
  induction l as [|x t IH]; cbn [qsum psum]; [reflexivity|].
  rewrite Qred_correct, IH. reflexivity.
Qed.

Lemma psum_nonneg : forall A (f : A -> Q) l, (forall x, In x l -> 0 <= f x) -> 0 <= psum f l.
Proof.
  induction l as [|x t IH]; simpl; intros H; [lra|].
  assert (0 <= f x) by (apply H; auto). assert (0 <= psum f t) by (apply IH; intros; apply H; auto). lra.
Qed.

Lemma psum_le : forall A (f g : A -> Q) l, (forall x, In x l -> f x <= g x) -> psum f l <= psum g l.
Proof.
  induction l as [|x t IH]; simpl; intros H; [lra|].
  assert (f x <= g x) by (apply H; auto). assert (psum f t <= psum g t) by (apply IH; intros; apply H; auto). lra.
Qed.

Lemma psum_ext : forall A (f g : A -> Q) l, (forall x, In x l -> f x == g x) -> psum f l == psum g l.
Proof.
  induction l as [|x t IH]; simpl; intros H; [reflexivity|].
  rewrite (H x) by auto. rewrite IH; [reflexivity|]. intros; apply H; auto.
Qed.

Lemma psum_in_le : forall A (f : A -> Q) l x, (forall y, In y l -> 0 <= f y) -> In x l -> f x <= psum f l.
Proof.
  induction l as [|y t IH]; simpl; intros x H Hin; [tauto|].
  assert (0 <= f y) by (apply H; auto).
  assert (0 <= psum f t) by (apply psum_nonneg; intros; apply H; auto).
  destruct Hin as [->|Hin]; [lra|].
  assert (f x <= psum f t) by (apply IH; auto). lra.
Qed.

Lemma psum_scale : forall A (f : A -> Q) c l, psum (fun x => f x * c) l == psum f l * c.
Proof. induction l as [|x t IH]; simpl; [lra|]. rewrite IH. lra. Qed.

Lemma psum_zero : forall A (f : A -> Q) l, (forall x, In x l -> 0 <= f x) -> psum f l == 0 ->
  forall x, In x l -> f x == 0.
Proof.
  intros A f l H H0 x Hin. assert (f x <= psum f l) by (apply psum_in_le; auto).
  assert (0 <= f x) by (apply H; auto). lra.
Qed.

Lemma qsum_nonneg : forall A (f : A -> Q) l, (forall x, In x l -> 0 <= f x) -> 0 <= qsum f l.
Proof. intros. rewrite qsum_psum. apply psum_nonneg; auto. Qed.

Lemma qsum_le : forall A (f g : A -> Q) l, (forall x, In x l -> f x <= g x) -> qsum f l <= qsum g l.
Proof. intros. rewrite !qsum_psum. apply psum_le; auto. Qed.

Lemma qsum_in_le : forall A (f : A -> Q) l x, (forall y, In y l -> 0 <= f y) -> In x l -> f x <= qsum f l.
Proof. intros. rewrite qsum_psum. apply psum_in_le; auto. Qed.

Lemma qprod_nonneg : forall l, (forall x, In x l -> 0 <= x) -> 0 <= qprod l.
Proof.
  induction l as [|x t IH]; cbn [qprod]; intros H; [lra|].
  rewrite Qred_correct. apply Qmult_le_0_compat; [apply H; simpl; auto|apply IH; intros; apply H; simpl; auto].
Qed.

(* ------------------------------------------------------------------ booleans *)
Lemma Qle_bool_true : forall a b, Qle_bool a b = true <-> a <= b.
Proof. intros. apply Qle_bool_iff. Qed.
Lemma Qle_bool_false : forall a b, Qle_bool a b = false -> b < a.
Proof.
  intros a b H. destruct (Qlt_le_dec b a) as [L|L]; auto.
  apply Qle_bool_iff in L. congruence.
Qed.

(* ------------------------------------------------------------------ weights are non-negative *)
Definition in01 (x : Q) : Prop := 0 <= x /\ x <= 1.

Lemma wf_theta_in01 : forall p th, wf_theta p th = true -> Forall in01 th.
Proof.
  intros p th H. unfold wf_theta in H. apply andb_true_iff in H. destruct H as [H _].
  rewrite forallb_forall in H. apply Forall_forall. intros x Hx. apply H in Hx.
  apply andb_true_iff in Hx. destruct Hx as [A B]. apply Qle_bool_iff in A. apply Qle_bool_iff in B.
  split; auto.
Qed.

Lemma nth_in01 : forall th i, Forall in01 th -> in01 (nth i th 0).
Proof.
  intros th i H. destruct (lt_dec i (length th)) as [L|L].
  - rewrite Forall_forall in H. apply H. apply nth_In. auto.
  - rewrite nth_overflow by lia. split; lra.
Qed.

Lemma wf_clause_heads : forall c h, wf_clause c = true -> In h (heads c) -> hk_ok (snd h) = true.
Proof.
  intros c h H Hin. unfold wf_clause in H. apply andb_true_iff in H. destruct H as [H _].
  apply andb_true_iff in H. destruct H as [_ H]. rewrite forallb_forall in H. apply H in Hin.
  apply andb_true_iff in Hin. tauto.
Qed.

Lemma hweight_nonneg : forall th h, Forall in01 th -> hk_ok h = true -> 0 <= hweight th h.
Proof.
  intros th h Hth Hok. destruct h as [|q|i]; simpl in *.
  - lra.
  - apply Qle_bool_iff in Hok. auto.
  - apply nth_in01; auto.
Qed.

Lemma wf_theta_sum : forall p th c, wf_theta p th = true -> In c p -> heads_sum th c <= 1.
Proof.
  intros p th c H Hin. unfold wf_theta in H. apply andb_true_iff in H. destruct H as [_ H].
  rewrite forallb_forall in H. apply H in Hin. apply Qle_bool_iff in Hin. auto.
Qed.

Lemma sel_weight_nonneg : forall p th c k, wf_prog p = true -> wf_theta p th = true -> In c p ->
  0 <= sel_weight th c k.
Proof.
  intros p th c k Hp Hth Hin. unfold sel_weight.
  assert (Hc : wf_clause c = true) by (unfold wf_prog in Hp; rewrite forallb_forall in Hp; auto).
  destruct (nth_error (heads c) k) as [h|] eqn:E.
  - apply hweight_nonneg. eapply wf_theta_in01; eauto.
    eapply wf_clause_heads; eauto. eapply nth_error_In; eauto.
  - pose proof (wf_theta_sum p th c Hth Hin). lra.
Qed.

Lemma wweight_nonneg : forall p th w, wf_prog p = true -> wf_theta p th = true -> 0 <= wweight th p w.
Proof.
  intros p th w Hp Hth. unfold wweight. apply qprod_nonneg. intros x Hx.
  apply in_map_iff in Hx. destruct Hx as [[c k] [<- Hin]]. simpl.
  eapply sel_weight_nonneg; eauto. eapply in_combine_l; eauto.
Qed.

Definition tbl_nonneg (tbl : list wentry) : Prop := forall t, In t tbl -> 0 <= snd t.

Lemma wtable_nonneg : forall p th, wf_prog p = true -> wf_theta p th = true -> tbl_nonneg (wtable th p).
Proof.
  intros p th Hp Hth t Hin. unfold wtable in Hin. apply in_map_iff in Hin.
  destruct Hin as [w [<- _]]. simpl. apply wweight_nonneg; auto.
Qed.

Lemma filter_nonneg : forall tbl f, tbl_nonneg tbl -> tbl_nonneg (filter f tbl).
Proof. intros tbl f H t Hin. apply filter_In in Hin. apply H. tauto. Qed.

(* ------------------------------------------------------------------ wsum *)
Lemma wsum_nonneg : forall tbl pred, tbl_nonneg tbl -> 0 <= wsum tbl pred.
Proof.
  intros. unfold wsum. apply qsum_nonneg. intros x Hx. apply filter_In in Hx. apply H. tauto.
Qed.

Lemma psum_filter_mono : forall (tbl : list wentry) p1 p2, tbl_nonneg tbl ->
  (forall t, In t tbl -> p1 t = true -> p2 t = true) ->
  psum (fun t => snd t) (filter p1 tbl) <= psum (fun t => snd t) (filter p2 tbl).
Proof.
  induction tbl as [|t tl IH]; simpl; intros p1 p2 Hn Himp; [lra|].
  assert (Hn' : tbl_nonneg tl) by (intros x Hx; apply Hn; simpl; auto).
  assert (IH' := IH p1 p2 Hn' (fun x Hx => Himp x (or_intror Hx))).
  assert (0 <= snd t) by (apply Hn; simpl; auto).
  destruct (p1 t) eqn:E1.
  - rewrite (Himp t (or_introl eq_refl) E1). simpl. lra.
  - destruct (p2 t); simpl; lra.
Qed.

Lemma wsum_mono : forall tbl p1 p2, tbl_nonneg tbl ->
  (forall t, In t tbl -> p1 t = true -> p2 t = true) -> wsum tbl p1 <= wsum tbl p2.
Proof. intros. unfold wsum. rewrite !qsum_psum. apply psum_filter_mono; auto. Qed.

(* ------------------------------------------------------------------ clamp *)
Lemma clamp_nonneg : forall x, 0 <= x -> 0 <= clamp x.
Proof. intros x H. unfold clamp. destruct (Qle_bool clampq x); lra. Qed.

Lemma clamp_mono : forall x y, 0 <= x -> x <= y -> clamp x <= clamp y.
Proof.
  intros x y H0 H. unfold clamp.
  destruct (Qle_bool clampq x) eqn:E1; destruct (Qle_bool clampq y) eqn:E2; try lra.
  - apply Qle_bool_iff in E1. apply Qle_bool_false in E2. lra.
Qed.

(* ------------------------------------------------------------------ E-step results *)
Definition q_ok (t : nat * Q * Q) : Prop := 0 <= snd (fst t) /\ snd (fst t) <= snd t.
Definition res_ok (r : result) : Prop := 0 <= r_mult r /\ Forall q_ok (r_q r).

Lemma div_le_div : forall a b c, 0 <= a -> a <= b -> 0 < c -> 0 <= a / c /\ a / c <= b / c.
Proof.
  intros a b c Ha Hab Hc. unfold Qdiv.
  assert (0 < / c) by (apply Qinv_lt_0_compat; auto).
  split.
  - apply Qmult_le_0_compat; lra.
  - apply Qmult_le_compat_r; lra.
Qed.

Lemma estep1_ok : forall s tbl p me r, tbl_nonneg tbl -> 0 <= fst me ->
  estep1 s tbl p me = Some r -> res_ok r.
Proof.
  intros s tbl p me r Hn Hm H. unfold estep1 in H.
  set (sub := ev_worlds tbl (snd me)) in *.
  assert (Hs : tbl_nonneg sub) by (apply filter_nonneg; auto).
  destruct (Qeq_bool (wsum sub all_pred) 0) eqn:E; [discriminate|].
  injection H as <-. split; [exact Hm|].
  unfold r_q; cbn [fst snd]. apply Forall_forall. intros t Ht. apply in_map_iff in Ht.
  destruct Ht as [i [<- _]]. unfold q_ok; cbn [fst snd].
  assert (Hpe : 0 < wsum sub all_pred).
  { assert (0 <= wsum sub all_pred) by (apply wsum_nonneg; auto).
    assert (~ wsum sub all_pred == 0) by (intro K; apply Qeq_bool_iff in K; congruence). lra. }
  assert (Hb : 0 <= wsum sub (body_pred p i)) by (apply wsum_nonneg; auto).
  assert (Hbp : wsum sub (body_pred p i) <= wsum sub (par_pred p i)).
  { apply wsum_mono; auto. intros t _ Ht. unfold body_pred in Ht. apply andb_true_iff in Ht. unfold par_pred. tauto. }
  destruct (div_le_div _ _ _ Hb Hbp Hpe) as [D0 D1].
  split.
  - apply clamp_nonneg. rewrite Qred_correct. auto.
  - apply clamp_mono; rewrite !Qred_correct; auto.
Qed.

Lemma estep_ok : forall th p exs, wf_prog p = true -> wf_theta p th = true ->
  (forall me, In me exs -> 0 <= fst me) -> Forall res_ok (estep th p exs).
Proof.
  intros th p exs Hp Hth Hm. unfold estep. apply Forall_forall. intros r Hr.
  apply in_flat_map in Hr. destruct Hr as [me [Hin Hr]].
  destruct (estep1 _ _ p me) eqn:E; simpl in Hr; [|tauto].
  destruct Hr as [<-|[]]. eapply estep1_ok; eauto. apply wtable_nonneg; auto.
Qed.
