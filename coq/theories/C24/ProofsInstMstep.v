(* C24 -- closed form of one normalised LFI iteration: when neither the 1e-6 clamp nor the
   1e-15 floor is active and every example queries every parameter, [step true] returns
   FB / FP for a single tunable head and (1 - fixed) * FB / sum FB for an AD. *)
From Coq Require Import QArith List Bool Arith Lia Lqa.
From PL.C24 Require Import ModelLFIUpdate ProofsBasic ProofsRange ProofsMLE ProofsInstDefs.
Import ListNotations.
Open Scope Q_scope.

(* ------------------------------------------------------------------ the group of a parameter *)
Lemma group_of_nil : forall p i, ~ In i (flat_map tun_of p) -> group_of p i = [].
Proof.
  induction p as [|c t IH]; intros i H; [reflexivity|].
  unfold group_of. cbn [flat_map]. cbn [flat_map] in H.
  destruct (existsb (Nat.eqb i) (tun_of c)) eqn:E.
  - exfalso. apply H. apply in_or_app. left. apply existsb_exists in E.
    destruct E as [x [Hx Hi]]. apply Nat.eqb_eq in Hi. subst. auto.
  - simpl. apply IH. intro K. apply H. apply in_or_app. auto.
Qed.

Lemma group_of_eq : forall p i c, NoDup (flat_map tun_of p) -> In c p -> In i (tun_of c) ->
  group_of p i = tun_of c.
Proof.
  induction p as [|c0 t IH]; intros i c Hnd Hc Hi; [inversion Hc|].
  cbn [flat_map] in Hnd. destruct (NoDup_app_parts _ _ Hnd) as [_ [Hnd_t Hdis]].
  unfold group_of. cbn [flat_map]. fold (group_of t i).
  destruct (existsb (Nat.eqb i) (tun_of c0)) eqn:E.
  - apply existsb_exists in E. destruct E as [x [Hx Hix]]. apply Nat.eqb_eq in Hix. subst x.
    rewrite group_of_nil by (apply Hdis; auto). rewrite app_nil_r.
    destruct Hc as [->|Hc]; [reflexivity|].
    exfalso. apply (Hdis i Hx). apply in_flat_map. exists c. auto.
  - simpl. destruct Hc as [->|Hc].
    + exfalso. assert (X : existsb (Nat.eqb i) (tun_of c) = true)
        by (apply existsb_exists; exists i; split; auto; apply Nat.eqb_refl). congruence.
    + apply IH; auto.
Qed.

(* ------------------------------------------------------------------ sums *)
Lemma psum_add : forall A (f g : A -> Q) l, psum (fun x => f x + g x) l == psum f l + psum g l.
Proof. induction l as [|x t IH]; simpl; [ring|]. rewrite IH. ring. Qed.

Lemma psum_scale_l : forall A (f : A -> Q) c l, psum (fun x => c * f x) l == c * psum f l.
Proof. induction l as [|x t IH]; simpl; [ring|]. rewrite IH. ring. Qed.

Lemma psum_const0 : forall A (l : list A), psum (fun _ => 0) l == 0.
Proof. induction l as [|x t IH]; simpl; [reflexivity|]. rewrite IH. ring. Qed.

(* ------------------------------------------------------------------ E-step results without clamp *)
Lemma clamp_id : forall x, zero_or_ge clampq x = true -> clamp x == x.
Proof.
  intros x H. unfold zero_or_ge in H. apply orb_true_iff in H. unfold clamp. destruct H as [H|H].
  - apply Qeq_bool_iff in H. destruct (Qle_bool clampq x); [reflexivity|]. symmetry. exact H.
  - rewrite H. reflexivity.
Qed.

Lemma lookup_mk_post : forall p th me j, In j (queried p (snd me)) ->
  zero_or_ge clampq (post_body th p me j) = true -> zero_or_ge clampq (post_par th p me j) = true ->
  lookup_body j (r_q (mk p th me)) == post_body th p me j /\
  lookup_par j (r_q (mk p th me)) == post_par th p me j /\
  has_query j (r_q (mk p th me)) = true.
Proof.
  intros p th me j Hq Zb Zp. unfold queried in Hq.
  unfold lookup_body, lookup_par, mk, r_q. cbn [snd]. rewrite !qsum_psum.
  destruct (lookup_map_gen j
    (fun j => clamp (Qred (wsum (ev_worlds (wtable th p) (snd me)) (body_pred p j) / wsum (ev_worlds (wtable th p) (snd me)) all_pred)))
    (fun j => clamp (Qred (wsum (ev_worlds (wtable th p) (snd me)) (par_pred p j) / wsum (ev_worlds (wtable th p) (snd me)) all_pred)))
    (queried_s (supports p (natoms p)) p (snd me)) (queried_NoDup p (snd me)) Hq) as [L1 L2].
  rewrite L1, L2. split; [|split].
  - transitivity (clamp (post_body th p me j)); [apply clamp_comp; apply Qred_correct|apply clamp_id; auto].
  - transitivity (clamp (post_par th p me j)); [apply clamp_comp; apply Qred_correct|apply clamp_id; auto].
  - unfold has_query. apply existsb_exists.
    exists (j, clamp (Qred (wsum (ev_worlds (wtable th p) (snd me)) (body_pred p j) / wsum (ev_worlds (wtable th p) (snd me)) all_pred)),
               clamp (Qred (wsum (ev_worlds (wtable th p) (snd me)) (par_pred p j) / wsum (ev_worlds (wtable th p) (snd me)) all_pred))).
    split; [|simpl; apply Nat.eqb_refl].
    apply in_map_iff. exists j. auto.
Qed.

(* what the side conditions say about one example and one parameter *)
Definition ex_good (th : list Q) (p : program) (n : nat) (me : Q * example) : Prop :=
  forall j, (j < n)%nat -> In j (queried p (snd me)) /\
    zero_or_ge clampq (post_body th p me j) = true /\ zero_or_ge clampq (post_par th p me j) = true.

Lemma ex_good_of : forall th p exs n, all_queried p exs n = true -> clamp_inactive th p exs n = true ->
  forall me, In me exs -> ex_good th p n me.
Proof.
  intros th p exs n Hq Hc me Hme j Hj.
  unfold all_queried in Hq. unfold clamp_inactive in Hc. rewrite forallb_forall in Hq, Hc.
  specialize (Hq me Hme). specialize (Hc me Hme). rewrite forallb_forall in Hq, Hc.
  assert (Hs : In j (seq 0 n)) by (apply in_seq; lia).
  specialize (Hq j Hs). specialize (Hc j Hs). apply andb_true_iff in Hc.
  split; [|exact Hc]. apply existsb_exists in Hq. destruct Hq as [x [Hx E]].
  apply Nat.eqb_eq in E. subst. auto.
Qed.

Lemma fact_body_FB : forall th p n exs j, (forall me, In me exs -> ex_good th p n me) -> (j < n)%nat ->
  fact_body j (map (mk p th) exs) == FB th p exs j.
Proof.
  intros th p n exs j H Hj. unfold fact_body, FB. rewrite qsum_psum.
  induction exs as [|me r IH]; [reflexivity|]. cbn [map psum].
  destruct (H me (or_introl eq_refl) j Hj) as [Hq [Zb Zp]].
  destruct (lookup_mk_post p th me j Hq Zb Zp) as [LB _].
  rewrite IH by (intros; apply H; simpl; auto). rewrite LB. reflexivity.
Qed.

Lemma fact_par_FP : forall th p n exs grp, (forall me, In me exs -> ex_good th p n me) ->
  (forall j, In j grp -> (j < n)%nat) ->
  fact_par grp (map (mk p th) exs) == psum (FP th p exs) grp.
Proof.
  intros th p n exs grp H Hg. unfold fact_par. rewrite qsum_psum.
  induction exs as [|me r IH].
  - cbn [map psum]. unfold FP. cbn [psum]. rewrite psum_const0. reflexivity.
  - cbn [map psum]. rewrite IH by (intros; apply H; simpl; auto).
    unfold FP. cbn [psum]. rewrite psum_add. apply Qplus_comp; [|reflexivity].
    rewrite psum_scale_l. apply Qmult_comp; [reflexivity|].
    unfold par_marg. rewrite qsum_psum. apply psum_ext. intros j Hjg.
    destruct (H me (or_introl eq_refl) j (Hg j Hjg)) as [Hq [Zb Zp]].
    destruct (lookup_mk_post p th me j Hq Zb Zp) as [_ [LP _]]. exact LP.
Qed.

Lemma has_query_all : forall th p n exs j, (forall me, In me exs -> ex_good th p n me) -> (j < n)%nat ->
  exs <> [] -> existsb (fun r => has_query j (r_q r)) (map (mk p th) exs) = true.
Proof.
  intros th p n exs j H Hj Hne. destruct exs as [|me r]; [congruence|]. cbn [map existsb].
  destruct (H me (or_introl eq_refl) j Hj) as [Hq [Zb Zp]].
  destruct (lookup_mk_post p th me j Hq Zb Zp) as [_ [_ HQ]]. rewrite HQ. reflexivity.
Qed.

(* ------------------------------------------------------------------ the un-normalised update *)
Lemma div0 : forall x y d, x == 0 -> y == 0 -> x / d == y / d.
Proof. intros x y d Hx Hy. rewrite Hx, Hy. reflexivity. Qed.

Lemma update_val : forall th p n exs grp j,
  (forall me, In me exs -> ex_good th p n me) -> exs <> [] -> n = length th ->
  floor_inactive th p exs n = true ->
  (forall k, In k grp -> (k < n)%nat) -> In j grp -> group_of p j = grp ->
  nth j (update p (map (mk p th) exs) th) 0 == FB th p exs j / psum (FP th p exs) grp.
Proof.
  intros th p n exs grp j H Hne Hn Hfl Hg Hj Hgrp.
  assert (Hjn : (j < n)%nat) by auto.
  unfold update. rewrite nth_mapi by lia. unfold new_prob.
  rewrite (has_query_all th p n exs j H Hjn Hne). rewrite Hgrp.
  pose proof (fact_body_FB th p n exs j H Hjn) as CB.
  pose proof (fact_par_FP th p n exs grp H Hg) as CP.
  unfold floor_inactive in Hfl. rewrite forallb_forall in Hfl.
  assert (Hs : In j (seq 0 n)) by (apply in_seq; lia).
  specialize (Hfl j Hs). apply orb_true_iff in Hfl.
  destruct (Qle_bool (fact_body j (map (mk p th) exs)) floorq) eqn:E.
  - destruct Hfl as [Z|NF].
    + apply Qeq_bool_iff in Z. rewrite Z. unfold Qdiv. ring.
    + exfalso. apply Qle_bool_iff in E. rewrite CB in E. apply Qle_bool_iff in E.
      rewrite E in NF. discriminate.
  - rewrite Qred_correct, CB, CP. reflexivity.
Qed.

(* ------------------------------------------------------------------ one normalize1 at a position of its group *)
Lemma normalize1_at : forall th a idx i, (2 <= length idx)%nat -> In i idx ->
  ~ psum (fun j => nth j th 0) idx == 0 ->
  nth i (normalize1 th (a, idx)) 0 == nth i th 0 * (a / psum (fun j => nth j th 0) idx).
Proof.
  intros th a idx i Hlen Hi Hw. unfold normalize1. cbn [snd fst].
  destruct idx as [|i0 [|i1 rest]]; [simpl in Hlen; lia|simpl in Hlen; lia|].
  set (idx := i0 :: i1 :: rest) in *.
  set (w := qsum (fun i => nth i th 0) idx).
  assert (W : w == psum (fun i => nth i th 0) idx) by (unfold w; apply qsum_psum).
  rewrite nth_mapi_any.
  - assert (X : existsb (Nat.eqb i) idx = true) by (apply existsb_exists; exists i; split; auto; apply Nat.eqb_refl).
    rewrite X. rewrite Qred_correct.
    destruct (Qeq_bool w 0) eqn:Ew.
    + exfalso. apply Qeq_bool_iff in Ew. apply Hw. rewrite <- W. exact Ew.
    + rewrite W. reflexivity.
  - intros k. destruct (existsb (Nat.eqb k) idx); [rewrite Qred_correct; ring|reflexivity].
Qed.

Lemma fold_normalize_at : forall ads th a idx i,
  NoDup (flat_map snd ads) -> In (a, idx) ads -> (2 <= length idx)%nat -> In i idx ->
  ~ psum (fun j => nth j th 0) idx == 0 ->
  nth i (fold_left normalize1 ads th) 0 == nth i th 0 * (a / psum (fun j => nth j th 0) idx).
Proof.
  induction ads as [|[a1 i1] t IH]; intros th a idx i Hnd Hin Hlen Hi Hw; [simpl in Hin; tauto|].
  simpl in Hnd. destruct (NoDup_app_parts _ _ Hnd) as [Hnd1 [Hnd_t Hdis]].
  destruct Hin as [Heq|Hin].
  - inversion Heq; subst a1 i1. cbn [fold_left].
    rewrite (fold_normalize_other t (normalize1 th (a, idx)) idx) by auto.
    apply normalize1_at; auto.
  - cbn [fold_left].
    assert (Hoth : forall j, In j idx -> nth j (normalize1 th (a1, i1)) 0 == nth j th 0).
    { intros j Hj. apply normalize1_other. intro K. apply (Hdis j K).
      apply in_flat_map. exists (a, idx). auto. }
    assert (P : psum (fun j => nth j (normalize1 th (a1, i1)) 0) idx == psum (fun j => nth j th 0) idx)
      by (apply psum_ext; auto).
    rewrite (IH (normalize1 th (a1, i1)) a idx i); auto.
    + rewrite P, Hoth by auto. reflexivity.
    + rewrite P. auto.
Qed.

(* ------------------------------------------------------------------ shared setting *)
Lemma setting : forall p exs th,
  wf_params p (length th) = true -> mult_pos exs = true -> ev_pos th p exs = true ->
  all_queried p exs (length th) = true -> clamp_inactive th p exs (length th) = true ->
  flat_map tun_of p = seq 0 (length th) /\
  estep th p exs = map (mk p th) exs /\
  (forall me, In me exs -> ex_good th p (length th) me) /\
  (forall me, In me exs -> 0 <= fst me).
Proof.
  intros p exs th Hpar Hm Hev Hq Hc. split; [apply nat_list_eqb_eq; exact Hpar|]. split; [|split].
  - apply estep_all. intros me Hme. unfold ev_pos in Hev. rewrite forallb_forall in Hev.
    specialize (Hev me Hme). apply negb_true_iff in Hev. apply Qle_bool_false in Hev. lra.
  - apply ex_good_of with (exs := exs); auto.
  - intros me Hme. unfold mult_pos in Hm. rewrite forallb_forall in Hm.
    specialize (Hm me Hme). apply negb_true_iff in Hm. apply Qle_bool_false in Hm. lra.
Qed.

Theorem mstep_closed_form_single : forall p exs th c i,
  wf_params p (length th) = true ->
  exs <> [] ->
  mult_pos exs = true -> ev_pos th p exs = true -> all_queried p exs (length th) = true ->
  clamp_inactive th p exs (length th) = true -> floor_inactive th p exs (length th) = true ->
  In c p -> tun_of c = [i] ->
  nth i (step true p exs th) 0 == FB th p exs i / FP th p exs i.
Proof.
  intros p exs th c i Hpar Hne Hm Hev Hq Hcl Hfl Hc Ht.
  destruct (setting p exs th Hpar Hm Hev Hq Hcl) as [Hseq [Hes [Hgood Hpos]]].
  assert (Hnd : NoDup (flat_map tun_of p)) by (rewrite Hseq; apply seq_NoDup).
  assert (Hi : In i (tun_of c)) by (rewrite Ht; simpl; auto).
  assert (Hgrp : group_of p i = [i]) by (rewrite <- Ht; apply group_of_eq; auto).
  assert (Hlt : (i < length th)%nat).
  { assert (K : In i (flat_map tun_of p)) by (apply in_flat_map; exists c; auto).
    rewrite Hseq in K. apply in_seq in K. lia. }
  unfold step, mstep, normalize. rewrite Hes.
  rewrite fold_normalize_other_gen.
  - rewrite (update_val th p (length th) exs [i] i); auto.
    + cbn [psum]. assert (E : FP th p exs i + 0 == FP th p exs i) by ring. rewrite E. reflexivity.
    + intros k [<-|[]]. auto.
    + simpl; auto.
  - intros [a idx] Had. cbn [snd].
    destruct (in_adatoms p a idx Had) as [c' [Hc' [_ [-> _]]]].
    destruct (in_dec Nat.eq_dec i (tun_of c')) as [Hin|Hnin]; [right|left; auto].
    pose proof (group_of_length p i c' Hc' Hin) as L. rewrite Hgrp in L. simpl in L. auto.
Qed.

Theorem mstep_closed_form_multi : forall p exs th c i,
  wf_prog p = true -> wf_params p (length th) = true -> wf_theta p th = true ->
  exs <> [] ->
  mult_pos exs = true -> ev_pos th p exs = true -> all_queried p exs (length th) = true ->
  clamp_inactive th p exs (length th) = true -> floor_inactive th p exs (length th) = true ->
  In c p -> In i (tun_of c) ->
  (2 <= length (tun_of c))%nat -> 0 < psum (FB th p exs) (tun_of c) ->
  nth i (step true p exs th) 0 == (1 - fixed_sum c) * FB th p exs i / psum (FB th p exs) (tun_of c).
Proof.
  intros p exs th c i Hp Hpar Hth Hne Hm Hev Hq Hcl Hfl Hc Hi Hlen HS.
  destruct (setting p exs th Hpar Hm Hev Hq Hcl) as [Hseq [Hes [Hgood Hpos]]].
  assert (Hnd : NoDup (flat_map tun_of p)) by (rewrite Hseq; apply seq_NoDup).
  set (idx := tun_of c) in *.
  assert (Hlt : forall k, In k idx -> (k < length th)%nat).
  { intros k Hk. assert (K : In k (flat_map tun_of p)) by (apply in_flat_map; exists c; auto).
    rewrite Hseq in K. apply in_seq in K. lia. }
  set (D := psum (FP th p exs) idx).
  set (S := psum (FB th p exs) idx) in *.
  set (u := update p (map (mk p th) exs) th).
  assert (Hu : forall j, In j idx -> nth j u 0 == FB th p exs j / D).
  { intros j Hj. unfold u, D. apply (update_val th p (length th) exs idx j); auto.
    apply group_of_eq; auto. }
  assert (Hok : Forall res_ok (map (mk p th) exs)) by (rewrite <- Hes; apply estep_ok; auto).
  (* D is positive *)
  assert (HD0 : 0 <= D).
  { unfold D. rewrite <- (fact_par_FP th p (length th) exs idx Hgood Hlt). apply fact_par_nonneg; auto. }
  assert (HFBle : forall j, In j idx -> FB th p exs j <= D).
  { intros j Hj. unfold D. rewrite <- (fact_par_FP th p (length th) exs idx Hgood Hlt).
    rewrite <- (fact_body_FB th p (length th) exs j Hgood (Hlt j Hj)).
    apply fact_body_le_par; auto. }
  assert (HD : 0 < D).
  { destruct (Qlt_le_dec 0 D) as [L|L]; auto. exfalso.
    assert (K : S <= psum (fun _ : nat => 0) idx).
    { unfold S. apply psum_le. intros j Hj. specialize (HFBle j Hj). lra. }
    rewrite psum_const0 in K. lra. }
  assert (HW : psum (fun j => nth j u 0) idx == S / D).
  { rewrite (psum_ext _ _ (fun j => FB th p exs j * / D) idx) by (intros j Hj; rewrite Hu by auto; reflexivity).
    rewrite psum_scale. reflexivity. }
  assert (HSD : 0 < S / D) by (apply Qlt_shift_div_l; lra).
  unfold step, mstep, normalize. rewrite Hes. fold u.
  rewrite (fold_normalize_at (adatoms p) u (1 - fixed_sum c) idx i); auto.
  - rewrite HW, Hu by auto. field. split; lra.
  - rewrite flat_map_snd_adatoms. auto.
  - unfold adatoms. apply in_flat_map. exists c. split; auto. fold idx.
    destruct idx eqn:E; [simpl in Hlen; lia|]. simpl. auto.
  - rewrite HW. lra.
Qed.

Theorem mstep_closed_form : forall p exs th c i,
  wf_prog p = true -> wf_params p (length th) = true -> wf_theta p th = true ->
  exs <> [] ->
  mult_pos exs = true -> ev_pos th p exs = true -> all_queried p exs (length th) = true ->
  clamp_inactive th p exs (length th) = true -> floor_inactive th p exs (length th) = true ->
  In c p -> In i (tun_of c) ->
  (tun_of c = [i] -> nth i (step true p exs th) 0 == FB th p exs i / FP th p exs i) /\
  ((2 <= length (tun_of c))%nat -> 0 < psum (FB th p exs) (tun_of c) ->
     nth i (step true p exs th) 0 == (1 - fixed_sum c) * FB th p exs i / psum (FB th p exs) (tun_of c)).
Proof.
  intros p exs th c i Hp Hpar Hth Hne Hm Hev Hq Hcl Hfl Hc Hi. split.
  - intros Ht. apply (mstep_closed_form_single p exs th c i); auto.
  - intros Hlen HS. apply (mstep_closed_form_multi p exs th c i); auto.
Qed.
