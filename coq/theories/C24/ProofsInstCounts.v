(* C24 -- L2 continued: the expected counts of the abstract EM instance are the E-step ratios of the LFI model
   (bcounts = FB, btotal = FP), and the instance satisfies the hypotheses of em_monotone_blocks. *)
From Coq Require Import QArith Qreals Reals List Bool Arith Lia Lra.
From PL.C24 Require Import ModelLFIUpdate ProofsBasic ProofsRange ProofsEM ProofsEMBlocks ProofsInstDefs
  ProofsInstTransport ProofsInstLatent ProofsInstModel.
Import ListNotations.
Open Scope R_scope.

(* ------------------------------------------------------------------ locate *)
Lemma find_head_none : forall hs i s, ~ In i (flat_map tunidx hs) -> find_head hs i s = None.
Proof.
  induction hs as [|[a h] t IH]; intros i s H; [reflexivity|].
  cbn [find_head]. cbn [flat_map] in H. unfold tunidx at 1 in H. cbn [snd] in H.
  destruct h as [|q|j]; try (apply IH; intro K; apply H; simpl; auto).
  destruct (Nat.eqb_spec j i) as [->|Hne]; [exfalso; apply H; simpl; auto|].
  apply IH. intro K. apply H. simpl. auto.
Qed.

Lemma find_head_spec : forall hs i s k a, NoDup (flat_map tunidx hs) ->
  nth_error hs k = Some (a, HTun i) -> find_head hs i s = Some (s + k)%nat.
Proof.
  induction hs as [|[a0 h] t IH]; intros i s k a ND E; [destruct k; discriminate|].
  destruct k as [|k].
  - simpl in E. inversion E; subst. cbn [find_head]. rewrite Nat.eqb_refl. f_equal. lia.
  - simpl in E. cbn [find_head]. cbn [flat_map] in ND. unfold tunidx at 1 in ND. cbn [snd] in ND.
    assert (Hin : In i (flat_map tunidx t)).
    { apply in_flat_map. exists (a, HTun i). split; [eapply nth_error_In; eauto|simpl; auto]. }
    destruct h as [|q|j].
    + rewrite (IH i (S s) k a) by auto. f_equal. lia.
    + rewrite (IH i (S s) k a) by auto. f_equal. lia.
    + inversion ND; subst. destruct (Nat.eqb_spec j i) as [->|Hne]; [tauto|].
      rewrite (IH i (S s) k a) by auto. f_equal. lia.
Qed.

Lemma locate_spec : forall p1 c p2 i s k a, NoDup (flat_map tun_of (p1 ++ c :: p2)) ->
  nth_error (heads c) k = Some (a, HTun i) ->
  locate (p1 ++ c :: p2) i s = Some ((s + length p1)%nat, k).
Proof.
  induction p1 as [|c0 p1 IH]; intros c p2 i s k a ND E.
  - cbn [app locate]. cbn [app flat_map] in ND. destruct (NoDup_app_parts _ _ ND) as [N1 _].
    rewrite (find_head_spec (heads c) i 0 k a N1 E). simpl. f_equal. f_equal. lia.
  - cbn [app locate]. rewrite <- app_comm_cons in ND. cbn [flat_map] in ND.
    destruct (NoDup_app_parts _ _ ND) as [_ [N2 D]].
    assert (Hin : In i (flat_map tun_of (p1 ++ c :: p2))).
    { apply in_flat_map. exists c. split; [apply in_or_app; right; simpl; auto|].
      unfold tun_of. apply in_flat_map. exists (a, HTun i). split; [eapply nth_error_In; eauto|simpl; auto]. }
    rewrite find_head_none by (intro K; apply (D i K Hin)).
    rewrite (IH c p2 i (S s) k a N2 E). simpl. f_equal. f_equal. lia.
Qed.

Lemma locate_at : forall p b i k a, NoDup (flat_map tun_of p) -> (b < length p)%nat ->
  nth_error (heads (nth b p dcl)) k = Some (a, HTun i) -> locate p i 0 = Some (b, k).
Proof.
  intros p b i k a ND Hb E. destruct (split_at p b Hb) as [p1 [c [p2 [EP L]]]]. subst p b.
  rewrite nth_mid_clause in E. rewrite (locate_spec p1 c p2 i 0 k a ND E). reflexivity.
Qed.

Lemma has_tun_head : forall c k a i, nth_error (heads c) k = Some (a, HTun i) -> has_tun c = true.
Proof.
  intros c k a i E. unfold has_tun. apply existsb_exists. exists (a, HTun i).
  split; [eapply nth_error_In; eauto|reflexivity].
Qed.

(* ------------------------------------------------------------------ the instance satisfies the abstract hypotheses *)
Lemma options_NoDup : forall c, NoDup (options c).
Proof. intros c. unfold options. destruct (is_det c); [repeat constructor; simpl; tauto|apply seq_NoDup]. Qed.

Lemma m_ks_nodup : forall p b, In b (m_bs p) -> NoDup (m_ks p b).
Proof. intros. apply options_NoDup. Qed.

Lemma m_kap_in : forall p exs b (me : Q * example) z k, In b (m_bs p) -> In me exs -> In z (m_zs p me) ->
  m_kap p b me z = Some k -> In k (m_ks p b).
Proof.
  intros p exs b me z k Hb _ Hz K. unfold m_kap in K. destruct (act p (Tb p) b z); [|discriminate].
  inversion K; subst. unfold m_ks. apply worlds_nth; auto. unfold m_bs in Hb. apply in_seq in Hb. lia.
Qed.

Lemma mult_pos_spec : forall exs me, mult_pos exs = true -> In me exs -> 0 < m_m me.
Proof.
  intros exs me H Hin. unfold mult_pos in H. rewrite forallb_forall in H. specialize (H me Hin).
  apply negb_true_iff in H. apply Qle_bool_false in H. unfold m_m. apply Qlt_Rlt in H. rewrite Q2R_0 in H. exact H.
Qed.

Lemma ev_pos_spec : forall th p exs me, ev_pos th p exs = true -> In me exs ->
  (0 < pevidence th p (snd me))%Q.
Proof.
  intros th p exs me H Hin. unfold ev_pos in H. rewrite forallb_forall in H. specialize (H me Hin).
  apply negb_true_iff in H. apply Qle_bool_false in H. exact H.
Qed.

Lemma swR_nonneg : forall p th b k, wf_prog p = true -> wf_theta p th = true -> (b < length p)%nat ->
  0 <= swR th p b k.
Proof.
  intros p th b k W T Hb. unfold swR. rewrite <- Q2R_0. apply Qle_Rle.
  eapply sel_weight_nonneg; eauto. apply nth_In. auto.
Qed.

Lemma m_a_nonneg : forall p th0 me z, wf_prog p = true -> wf_theta p th0 = true -> 0 <= m_a th0 p me z.
Proof.
  intros p th0 me z W T. unfold m_a. apply Rmult_le_pos.
  - unfold ind. destruct (ev_true _ _); lra.
  - apply prodR_nonneg. intros b Hb. apply in_seq in Hb.
    destruct (act p (Tb p) b z); [lra|]. apply swR_nonneg; auto. lia.
Qed.

Lemma m_th_nonneg : forall p th b k, wf_prog p = true -> wf_theta p th = true -> In b (m_bs p) -> 0 <= m_th th p b k.
Proof.
  intros p th b k W T Hb. unfold m_th. destruct (Tb p b); [|lra].
  apply swR_nonneg; auto. unfold m_bs in Hb. apply in_seq in Hb. lia.
Qed.

Lemma m_th_sum : forall p th b, sumR (m_th th p b) (m_ks p b) <= m_avail b.
Proof.
  intros p th b. unfold m_th, m_ks, m_avail. destruct (Tb p b).
  - unfold swR. rewrite sel_weight_options_sumR. lra.
  - rewrite sumR_zero. lra.
Qed.

Lemma m_lik_pos : forall p th0 exs me, wf_prog p = true -> ev_pos th0 p exs = true -> In me exs ->
  0 < lik (m_zs p) (m_f th0 p) (m_th th0 p) me.
Proof.
  intros p th0 exs me W EP Hin. rewrite latent_space_sums_to_evidence by auto.
  rewrite <- Q2R_0. apply Qlt_Rlt. eapply ev_pos_spec; eauto.
Qed.

(* ------------------------------------------------------------------ expected counts = E-step ratios *)
Section Counts.
  Variables (p : program) (th0 : list Q) (exs : list (Q * example)).
  Hypothesis W : wf_prog p = true.
  Hypothesis EP : ev_pos th0 p exs = true.

  Let bc := bcounts exs m_m (m_zs p) (m_a th0 p) (m_bs p) (m_kap p) (m_th th0 p).

  Lemma ev_nz : forall me, In me exs -> ~ (pevidence th0 p (snd me) == 0)%Q.
  Proof. intros me Hin K. pose proof (ev_pos_spec th0 p exs me EP Hin) as P. rewrite K in P. apply (Qlt_irrefl 0). exact P. Qed.

  Lemma bcounts_mass : forall b k (S : wentry -> bool), (b < length p)%nat ->
    (forall z, In z (worlds p) ->
       S (z, world_vals p z, wweight th0 p z) = act p (Tb p) b z && (nth b z 0 =? k)%nat) ->
    bc b k = sumR (fun me => Q2R (fst me) *
                   Q2R (wsum (ev_worlds (wtable th0 p) (snd me)) S / pevidence th0 p (snd me))) exs.
  Proof.
    intros b k S Hb HS. unfold bc, bcounts. apply sumR_ext. intros me Hme. unfold m_m at 1. f_equal.
    rewrite <- (posterior_mass p th0 me S W (ev_nz me Hme)). unfold m_zs. apply sumR_ext. intros z Hz.
    rewrite (HS z Hz). unfold m_kap. destruct (act p (Tb p) b z); cbn [andb]; reflexivity.
  Qed.

  (* outcome k of clause b is the tunable head number i *)
  Lemma bcounts_FB : forall b k a i, NoDup (flat_map tun_of p) -> (b < length p)%nat ->
    nth_error (heads (nth b p dcl)) k = Some (a, HTun i) ->
    bc b k = Q2R (FB th0 p exs i).
  Proof.
    intros b k a i ND Hb E. unfold FB. rewrite Q2R_psum.
    rewrite (bcounts_mass b k (body_pred p i) Hb).
    - apply sumR_ext. intros me _. rewrite Q2R_mult. reflexivity.
    - intros z Hz. unfold body_pred, par_true, sel_true. cbn [fst snd].
      rewrite (locate_at p b i k a ND Hb E). unfold act, Tb. rewrite (has_tun_head _ _ _ _ E). cbn [andb].
      fold dcl. f_equal. rewrite (nth_indep z (S k) 0%nat); [reflexivity|].
      rewrite (worlds_length p z Hz). exact Hb.
  Qed.

  Lemma btotal_mass : forall b, (b < length p)%nat ->
    btotal exs m_m (m_zs p) (m_a th0 p) (m_bs p) (m_ks p) (m_kap p) (m_th th0 p) b =
    sumR (fun me => m_m me * sumR (fun z => if act p (Tb p) b z
                                           then post (m_zs p) (m_f th0 p) (m_th th0 p) me z else 0) (worlds p)) exs.
  Proof.
    intros b Hb. unfold btotal, bcounts. rewrite sumR_swap. apply sumR_ext. intros me _.
    rewrite sumR_scal_l. f_equal. unfold m_zs. rewrite sumR_swap. apply sumR_ext. intros z Hz.
    unfold m_kap. destruct (act p (Tb p) b z).
    - apply (sumR_delta (fun _ => post (fun _ => worlds p) (fmulti (m_a th0 p) (m_bs p)
                  (fun b me z => if act p (Tb p) b z then Some (nth b z 0%nat) else None)) (m_th th0 p) me z)
                (m_ks p b) (nth b z 0%nat)).
      + apply options_NoDup.
      + unfold m_ks. apply worlds_nth; auto.
    - apply sumR_zero.
  Qed.

  Lemma btotal_FP : forall b k a i, NoDup (flat_map tun_of p) -> (b < length p)%nat ->
    nth_error (heads (nth b p dcl)) k = Some (a, HTun i) ->
    btotal exs m_m (m_zs p) (m_a th0 p) (m_bs p) (m_ks p) (m_kap p) (m_th th0 p) b = Q2R (FP th0 p exs i).
  Proof.
    intros b k a i ND Hb E. rewrite btotal_mass by auto. unfold FP. rewrite Q2R_psum.
    apply sumR_ext. intros me Hme. rewrite Q2R_mult. unfold m_m. f_equal.
    unfold post_par. rewrite <- (posterior_mass p th0 me (par_pred p i) W (ev_nz me Hme)).
    apply sumR_ext. intros z Hz. unfold par_pred, par_true. cbn [fst snd].
    rewrite (locate_at p b i k a ND Hb E). unfold act, Tb. rewrite (has_tun_head _ _ _ _ E). cbn [andb].
    fold dcl. reflexivity.
  Qed.

  (* a clause without tunable head is never switched on *)
  Lemma bcounts_off : forall b k, Tb p b = false -> bc b k = 0.
  Proof.
    intros b k T. unfold bc, bcounts.
    rewrite (sumR_ext _ _ (fun _ => 0)); [apply sumR_zero|]. intros me _.
    rewrite (sumR_ext _ _ (fun _ => 0)); [rewrite sumR_zero; ring|]. intros z _.
    unfold m_kap, act. rewrite T. reflexivity.
  Qed.
End Counts.
