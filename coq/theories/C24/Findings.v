(* Refutation witnesses for lfi.py AS IT IS at the pinned commit (the model mirrors the code);
   outside the cone of Props.v. *)
From Coq Require Import QArith List Bool Lia.
From PL.C24 Require Import ModelLFIUpdate.
Import ListNotations.
Open Scope Q_scope.

(* 0.3::x; t(0.5)::b.  with b true in 9 of 10 complete interpretations: _normalize_weights skips
   groups of one tunable head, b becomes 0.9 and the AD sums to 1.2 *)
Theorem C24_single_tunable_with_constant_head_refuted :
  exists p exs th c, wf_prog p = true /\ wf_params p (length th) = true /\ wf_theta p th = true /\
    In c p /\ ~ heads_sum (step true p exs th) c <= 1.
Proof.
  exists [Clause [(0%nat, HFix (3 # 10)); (1%nat, HTun 0)] []],
         [(9, [(0%nat, false); (1%nat, true)]); (1, [(0%nat, true); (1%nat, false)])],
         [1 # 2], (Clause [(0%nat, HFix (3 # 10)); (1%nat, HTun 0)] []).
  repeat split; try reflexivity; [left; reflexivity|].
  vm_compute. intro H. apply H. reflexivity.
Qed.

(* t(0.5)::a; t(0.5)::b.  fully observed (a three times, b once), normalize = False (the default of
   LFIProblem.__init__): par_marg counts lfi_par once per head of the AD, the estimates are the
   relative frequencies divided by the number of heads *)
Theorem C24_nonormalize_ad_refuted :
  exists p exs th, wf_prog p = true /\ wf_params p (length th) = true /\ wf_theta p th = true /\
    step false p exs th = [3 # 8; 1 # 8] /\ step true p exs th = [3 # 4; 1 # 4].
Proof.
  exists [Clause [(0%nat, HTun 0); (1%nat, HTun 1)] []],
         [(3, [(0%nat, true); (1%nat, false)]); (1, [(0%nat, false); (1%nat, true)])],
         [1 # 2; 1 # 2].
  vm_compute. repeat split; reflexivity.
Qed.
