(* Refutation witnesses for lfi.py AS IT IS at the pinned commit (the model mirrors the code);
   outside the cone of Props.v. *)
From Coq Require Import QArith List Bool Lia.
From PL.C24 Require Import ModelLFIUpdate.
Import ListNotations.
Open Scope Q_scope.

(* 0.3::x; t(0.5)::b.  with b true in 9 of 10 complete interpretations: _normalize_weights skips
   groups of one tunable head, b becomes 0.9 and the AD sums to 1.2 *)
Theorem C24_single_tunable_with_constant_head_refuted :
  exists p exs th c, wf_prog p = true /\ wf_params p (length th) = true /\ wf_theta p th = true /\
    In c p /\ ~ heads_sum (step true p exs th) c <= 1.
Proof.
  exists [Clause [(0%nat, HFix (3 # 10)); (1%nat, HTun 0)] []],
         [(9, [(0%nat, false); (1%nat, true)]); (1, [(0%nat, true); (1%nat, false)])],
         [1 # 2], (Clause [(0%nat, HFix (3 # 10)); (1%nat, HTun 0)] []).
  repeat split; try reflexivity; [left; reflexivity|].
  vm_compute. intro H. apply H. reflexivity.
Qed.

(* t(0.5)::a; t(0.5)::b.  fully observed (a three times, b once), normalize = False (the default of
   LFIProblem.__init__): par_marg counts lfi_par once per head of the AD, the estimates are the
   relative frequencies divided by the number of heads *)
Theorem C24_nonormalize_ad_refuted :
  exists p exs th, wf_prog p = true /\ wf_params p (length th) = true /\ wf_theta p th = true /\
    step false p exs th = [3 # 8; 1 # 8] /\ step true p exs th = [3 # 4; 1 # 4].
Proof.
  exists [Clause [(0%nat, HTun 0); (1%nat, HTun 1)] []],
         [(3, [(0%nat, true); (1%nat, false)]); (1, [(0%nat, false); (1%nat, true)])],
         [1 # 2; 1 # 2].
  vm_compute. repeat split; reflexivity.
Qed.

(* The model-level monotonicity statement WITHOUT the hypothesis "the tunable heads of every AD already sum to the
   available mass" is false: t(0.3)::b; t(0.3)::c.  with the interpretations {b} and {not b, not c}.
   _normalize_weights gives all the mass to the tunable heads (b = 1, c = 0), the "no head" outcome that the second
   interpretation needs gets probability 0: P(e2) drops from 0.4 to 0, the data log-likelihood from
   ln 0.3 + ln 0.4 to -infinity.  (The real LFIProblem then prints "Ignoring example 2/2" and reports the
   log-likelihood of the remaining example only, which is larger.) *)
Theorem C24_ad_none_outcome_likelihood_collapse_refuted :
  exists p exs th, wf_prog p = true /\ wf_params p (length th) = true /\ wf_theta p th = true /\
    forallb ad_ok p = true /\
    (forall me, In me exs -> 1 <= fst me /\ 0 < pevidence th p (snd me)) /\
    exists me, In me exs /\ pevidence (step true p exs th) p (snd me) == 0.
Proof.
  exists [Clause [(0%nat, HTun 0); (1%nat, HTun 1)] []],
         [(1, [(0%nat, true)]); (1, [(0%nat, false); (1%nat, false)])],
         [3 # 10; 3 # 10].
  repeat split; try reflexivity.
  - destruct H as [H|[H|[]]]; subst; vm_compute; discriminate.
  - destruct H as [H|[H|[]]]; subst; vm_compute; reflexivity.
  - exists (1, [(0%nat, false); (1%nat, false)]). split; [right; left; reflexivity|]. vm_compute. reflexivity.
Qed.

(* Stronger: the likelihood of an example that is NOT dropped decreases, so the REPORTED log-likelihood of the real
   LFIProblem decreases (observed: -0.9416 = ln 0.39, then -2.3026 = ln 0.1 from the second iteration on):
       t(0.3)::b; t(0.3)::c.   0.9::f1.   0.1::f2.   s :- \+b, \+c, f1.   s :- b, f2.        evidence: s
   Under (0.3, 0.3) the example is mostly explained by "no head of the AD" (0.4 * 0.9 of 0.39); the normalised update
   moves all mass to the heads (b = 1, c = 0), P(s) becomes 0.1.  The posteriors (1/13, 0) are far from the 1e-6 clamp
   and the 1e-15 floor.  Only the first iteration can do this: afterwards the heads sum to the available mass. *)
Theorem C24_normalize_first_step_ll_decrease_refuted :
  exists p e th, wf_prog p = true /\ wf_params p (length th) = true /\ wf_theta p th = true /\
    forallb ad_ok p = true /\
    0 < pevidence (step true p [(1, e)] th) p e /\
    pevidence (step true p [(1, e)] th) p e < pevidence th p e.
Proof.
  exists [Clause [(0%nat, HTun 0); (1%nat, HTun 1)] []; Clause [(2%nat, HFix (9 # 10))] [];
          Clause [(3%nat, HFix (1 # 10))] [];
          Clause [(4%nat, HDet)] [(0%nat, false); (1%nat, false); (2%nat, true)];
          Clause [(4%nat, HDet)] [(0%nat, true); (3%nat, true)]],
         [(4%nat, true)], [3 # 10; 3 # 10].
  repeat split; vm_compute; reflexivity.
Qed.
