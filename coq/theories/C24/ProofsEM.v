(* C24 -- EM monotonicity over R: Gibbs' inequality, the Q-function lower bound for an
   arbitrary finite complete-data likelihood, optimality of the normalised expected-count
   update for one categorical block, and their combination. *)
From Coq Require Import Reals Lra List Arith Lia.
Import ListNotations.
Open Scope R_scope.

Fixpoint sumR {A} (f : A -> R) (l : list A) : R :=
  match l with [] => 0 | x :: t => f x + sumR f t end.

(* ------------------------------------------------------------------ finite sums *)
Lemma sumR_ext : forall A (f g : A -> R) l, (forall x, In x l -> f x = g x) -> sumR f l = sumR g l.
Proof.
  induction l as [|x t IH]; simpl; intros H; auto.
  rewrite (H x) by auto. rewrite IH; auto.
Qed.

Lemma sumR_le : forall A (f g : A -> R) l, (forall x, In x l -> f x <= g x) -> sumR f l <= sumR g l.
Proof.
  induction l as [|x t IH]; simpl; intros H; [lra|].
  assert (f x <= g x) by auto. assert (sumR f t <= sumR g t) by auto. lra.
Qed.

Lemma sumR_nonneg : forall A (f : A -> R) l, (forall x, In x l -> 0 <= f x) -> 0 <= sumR f l.
Proof.
  induction l as [|x t IH]; simpl; intros H; [lra|].
  assert (0 <= f x) by auto. assert (0 <= sumR f t) by auto. lra.
Qed.

Lemma sumR_plus : forall A (f g : A -> R) l, sumR (fun x => f x + g x) l = sumR f l + sumR g l.
Proof. induction l as [|x t IH]; simpl; [lra|]. rewrite IH. lra. Qed.

Lemma sumR_minus : forall A (f g : A -> R) l, sumR (fun x => f x - g x) l = sumR f l - sumR g l.
Proof. induction l as [|x t IH]; simpl; [lra|]. rewrite IH. lra. Qed.

Lemma sumR_scal_l : forall A (f : A -> R) c l, sumR (fun x => c * f x) l = c * sumR f l.
Proof. induction l as [|x t IH]; simpl; [lra|]. rewrite IH. lra. Qed.

Lemma sumR_scal_r : forall A (f : A -> R) c l, sumR (fun x => f x * c) l = sumR f l * c.
Proof. induction l as [|x t IH]; simpl; [lra|]. rewrite IH. lra. Qed.

Lemma sumR_zero : forall A (l : list A), sumR (fun _ => 0) l = 0.
Proof. induction l; simpl; lra. Qed.

Lemma sumR_swap : forall A B (g : A -> B -> R) la lb,
  sumR (fun x => sumR (fun y => g x y) lb) la = sumR (fun y => sumR (fun x => g x y) la) lb.
Proof.
  induction la as [|x t IH]; intros lb; simpl.
  - rewrite sumR_zero. reflexivity.
  - rewrite IH. rewrite <- sumR_plus. reflexivity.
Qed.

Lemma sumR_pos_in : forall A (f : A -> R) l, (forall x, In x l -> 0 <= f x) ->
  forall x, In x l -> 0 < f x -> 0 < sumR f l.
Proof.
  induction l as [|y t IH]; simpl; intros H x Hin Hx; [tauto|].
  assert (0 <= f y) by auto. assert (0 <= sumR f t) by (apply sumR_nonneg; auto).
  destruct Hin as [->|Hin]; [lra|]. assert (0 < sumR f t) by (eapply IH; eauto). lra.
Qed.

Lemma sumR_pos_ex : forall A (f : A -> R) l, 0 < sumR f l -> exists x, In x l /\ 0 < f x.
Proof.
  induction l as [|y t IH]; simpl; intros H; [lra|].
  destruct (Rlt_dec 0 (f y)) as [P|N].
  - exists y. auto.
  - destruct IH as [x [Hx Px]]; [lra|]. exists x. auto.
Qed.

Lemma sumR_delta : forall (v : nat -> R) ks k0, NoDup ks -> In k0 ks ->
  sumR (fun k => if Nat.eqb k0 k then v k else 0) ks = v k0.
Proof.
  induction ks as [|k t IH]; intros k0 Hnd Hin; [inversion Hin|].
  inversion Hnd; subst. simpl. destruct (Nat.eqb_spec k0 k) as [->|Hne].
  - assert (Z : sumR (fun k' => if Nat.eqb k k' then v k' else 0) t = 0).
    { clear -H1. induction t as [|j t IHt]; simpl; [reflexivity|].
      destruct (Nat.eqb_spec k j) as [->|_]; [exfalso; apply H1; simpl; auto|].
      rewrite IHt; [lra|]. intro K. apply H1. simpl. auto. }
    rewrite Z. lra.
  - destruct Hin as [->|Hin]; [congruence|]. rewrite IH; auto. lra.
Qed.

(* ------------------------------------------------------------------ ln x <= x - 1 *)
Lemma ln_le_minus1 : forall x, 0 < x -> ln x <= x - 1.
Proof.
  intros x Hx. pose proof (exp_ineq1_le (ln x)) as H. rewrite exp_ln in H by auto. lra.
Qed.

Lemma gibbs_term : forall p q, 0 <= p -> 0 <= q -> (0 < p -> 0 < q) -> p * ln q - p * ln p <= q - p.
Proof.
  intros p q Hp Hq Hpq. destruct (Rle_lt_or_eq_dec 0 p Hp) as [P|Z].
  - specialize (Hpq P).
    assert (L : ln (q / p) <= q / p - 1) by (apply ln_le_minus1; apply Rdiv_lt_0_compat; auto).
    unfold Rdiv in L. rewrite ln_mult in L by (auto; apply Rinv_0_lt_compat; auto).
    rewrite ln_Rinv in L by auto.
    assert (p * (ln q + - ln p) <= p * (q * / p - 1)) by (apply Rmult_le_compat_l; lra).
    assert (p * (q * / p - 1) = q - p) by (field; lra). lra.
  - subst p. lra.
Qed.

(* Gibbs' inequality over a finite list *)
Theorem gibbs : forall (A : Type) (p q : A -> R) (l : list A),
  (forall x, In x l -> 0 <= p x) -> (forall x, In x l -> 0 <= q x) ->
  (forall x, In x l -> 0 < p x -> 0 < q x) ->
  sumR q l <= sumR p l ->
  sumR (fun x => p x * ln (q x)) l <= sumR (fun x => p x * ln (p x)) l.
Proof.
  intros A p q l Hp Hq Hpq Hs.
  assert (H : sumR (fun x => p x * ln (q x) - p x * ln (p x)) l <= sumR (fun x => q x - p x) l).
  { apply sumR_le. intros x Hx. apply gibbs_term; auto. }
  rewrite !sumR_minus in H. lra.
Qed.

(* ------------------------------------------------------------------ the EM lower bound *)
Section EM.
  Variables (E Z Th : Type) (exs : list E) (m : E -> R) (zs : E -> list Z) (f : Th -> E -> Z -> R).
  Hypothesis m_nonneg : forall e, In e exs -> 0 <= m e.

  Definition lik th e := sumR (f th e) (zs e).
  Definition LL th := sumR (fun e => m e * ln (lik th e)) exs.
  Definition post th e z := f th e z / lik th e.
  Definition Qf th th' := sumR (fun e => m e * sumR (fun z => post th e z * ln (f th' e z)) (zs e)) exs.

  Lemma post_sum : forall th e, 0 < lik th e -> sumR (post th e) (zs e) = 1.
  Proof.
    intros th e H. unfold post, Rdiv. rewrite sumR_scal_r. fold (lik th e). field. lra.
  Qed.

  Lemma em_one : forall th th' e,
    (forall z, 0 <= f th e z) -> (forall z, 0 <= f th' e z) ->
    0 < lik th e ->
    (forall z, In z (zs e) -> 0 < f th e z -> 0 < f th' e z) ->
    sumR (fun z => post th e z * ln (f th' e z)) (zs e) - sumR (fun z => post th e z * ln (f th e z)) (zs e)
      <= ln (lik th' e) - ln (lik th e).
  Proof.
    intros th th' e Hf Hf' HP Hpos.
    assert (f_nonneg : forall t, t = th \/ t = th' -> forall z, 0 <= f t e z)
      by (intros t [->| ->]; auto).
    assert (HP' : 0 < lik th' e).
    { destruct (sumR_pos_ex _ _ _ HP) as [z [Hz Pz]].
      apply sumR_pos_in with (x := z); auto. }
    pose proof (gibbs Z (post th e) (post th' e) (zs e)) as G.
    assert (Hpn : forall th0, th0 = th \/ th0 = th' -> 0 < lik th0 e -> forall z, 0 <= post th0 e z).
    { intros th0 Ht H0 z. unfold post. apply Rmult_le_pos; [apply f_nonneg; auto|].
      left. apply Rinv_0_lt_compat. auto. }
    assert (Hpp : forall th0, 0 < lik th0 e -> forall z, 0 < f th0 e z -> 0 < post th0 e z).
    { intros th0 H0 z Hz. unfold post. apply Rdiv_lt_0_compat; auto. }
    assert (Hp0 : forall z, 0 < post th e z -> 0 < f th e z).
    { intros z Hz. unfold post, Rdiv in Hz. destruct (Hf z) as [K|K]; auto.
      rewrite <- K in Hz. lra. }
    specialize (G (fun z _ => Hpn th (or_introl eq_refl) HP z) (fun z _ => Hpn th' (or_intror eq_refl) HP' z)).
    assert (G' : sumR (fun x => post th e x * ln (post th' e x)) (zs e) <=
                 sumR (fun x => post th e x * ln (post th e x)) (zs e)).
    { apply G.
      - intros z Hz Pz. apply Hpp; auto.
      - rewrite !post_sum; auto. lra. }
    clear G.
    assert (T1 : sumR (fun z => post th e z * ln (post th' e z)) (zs e) =
                 sumR (fun z => post th e z * ln (f th' e z) - post th e z * ln (lik th' e)) (zs e)).
    { apply sumR_ext. intros z Hz. destruct (Hpn th (or_introl eq_refl) HP z) as [Pz|Zz].
      - assert (0 < f th' e z) by (apply Hpos; auto).
        unfold post at 2. unfold Rdiv. rewrite ln_mult by (auto; apply Rinv_0_lt_compat; auto).
        rewrite ln_Rinv by auto. ring.
      - rewrite <- Zz. ring. }
    assert (T2 : sumR (fun z => post th e z * ln (post th e z)) (zs e) =
                 sumR (fun z => post th e z * ln (f th e z) - post th e z * ln (lik th e)) (zs e)).
    { apply sumR_ext. intros z Hz. destruct (Hpn th (or_introl eq_refl) HP z) as [Pz|Zz].
      - assert (0 < f th e z) by auto.
        unfold post at 2. unfold Rdiv. rewrite ln_mult by (auto; apply Rinv_0_lt_compat; auto).
        rewrite ln_Rinv by auto. ring.
      - rewrite <- Zz. ring. }
    rewrite T1, T2 in G'. rewrite !sumR_minus, !sumR_scal_r, !post_sum in G' by auto. lra.
  Qed.

  Theorem em_lower_bound : forall th th',
    (forall e z, 0 <= f th e z) -> (forall e z, 0 <= f th' e z) ->
    (forall e, In e exs -> 0 < lik th e) ->
    (forall e z, In e exs -> In z (zs e) -> 0 < f th e z -> 0 < f th' e z) ->
    Qf th th' - Qf th th <= LL th' - LL th.
  Proof.
    intros th th' Hf Hf' HP Hpos. unfold Qf, LL. rewrite <- !sumR_minus. apply sumR_le.
    intros e He. pose proof (em_one th th' e (Hf e) (Hf' e) (HP e He) (fun z Hz => Hpos e z He Hz)) as K.
    assert (0 <= m e) by auto.
    assert (m e * (sumR (fun z => post th e z * ln (f th' e z)) (zs e) -
                   sumR (fun z => post th e z * ln (f th e z)) (zs e))
            <= m e * (ln (lik th' e) - ln (lik th e))) by (apply Rmult_le_compat_l; auto).
    lra.
  Qed.
End EM.
Arguments lik {E Z Th}.
Arguments LL {E Z Th}.
Arguments post {E Z Th}.
Arguments Qf {E Z Th}.

(* ------------------------------------------------------------------ M-step for one categorical block *)
Theorem mstep_categorical : forall (ks : list nat) (c th : nat -> R) (avail : R),
  0 < avail ->
  (forall k, In k ks -> 0 <= c k) -> (forall k, In k ks -> 0 <= th k) ->
  (forall k, In k ks -> 0 < c k -> 0 < th k) ->
  sumR th ks <= avail -> 0 < sumR c ks ->
  sumR (fun k => c k * ln (th k)) ks <= sumR (fun k => c k * ln (avail * c k / sumR c ks)) ks.
Proof.
  intros ks c th avail Ha Hc Hth Hct Hs HC.
  set (C := sumR c ks) in *.
  set (p := fun k => avail * c k / C).
  assert (Hp : forall k, In k ks -> 0 <= p k).
  { intros k Hk. unfold p. apply Rmult_le_pos; [apply Rmult_le_pos; auto; lra|].
    left. apply Rinv_0_lt_compat. auto. }
  assert (Hpp : forall k, In k ks -> 0 < p k -> 0 < th k).
  { intros k Hk Pk. apply Hct; auto. destruct (Hc k Hk) as [K|K]; auto.
    unfold p in Pk. rewrite <- K in Pk. unfold Rdiv in Pk. rewrite Rmult_0_r, Rmult_0_l in Pk. lra. }
  assert (Sp : sumR p ks = avail).
  { unfold p, Rdiv. rewrite sumR_scal_r.
    rewrite (sumR_scal_l _ c avail). fold C. field. lra. }
  pose proof (gibbs nat p th ks Hp Hth Hpp) as G. rewrite Sp in G. specialize (G Hs).
  assert (E1 : sumR (fun x => p x * ln (th x)) ks = avail / C * sumR (fun k => c k * ln (th k)) ks).
  { rewrite <- sumR_scal_l. apply sumR_ext. intros k _. unfold p. field. lra. }
  assert (E2 : sumR (fun x => p x * ln (p x)) ks = avail / C * sumR (fun k => c k * ln (avail * c k / C)) ks).
  { rewrite <- sumR_scal_l. apply sumR_ext. intros k _. unfold p. field. lra. }
  rewrite E1, E2 in G.
  assert (0 < avail / C) by (apply Rdiv_lt_0_compat; auto).
  apply Rmult_le_reg_l with (r := avail / C); auto.
Qed.

(* ------------------------------------------------------------------ EM for one tunable block *)
Section OneBlock.
  Variables (E Z : Type) (exs : list E) (m : E -> R) (zs : E -> list Z).
  Variables (a : E -> Z -> R) (kap : E -> Z -> option nat) (ks : list nat) (avail : R).
  Hypothesis ks_nodup : NoDup ks.
  Hypothesis kap_in : forall e z k, In e exs -> In z (zs e) -> kap e z = Some k -> In k ks.
  Hypothesis m_nonneg : forall e, In e exs -> 0 <= m e.
  Hypothesis a_nonneg : forall e z, 0 <= a e z.
  Hypothesis avail_pos : 0 < avail.

  Definition fblock (th : nat -> R) (e : E) (z : Z) : R :=
    a e z * match kap e z with Some k => th k | None => 1 end.

  (* expected number of times outcome k is selected (with the block active) *)
  Definition counts (th : nat -> R) (k : nat) : R :=
    sumR (fun e => m e * sumR (fun z => match kap e z with
                                        | Some k' => if Nat.eqb k' k then post zs fblock th e z else 0
                                        | None => 0 end) (zs e)) exs.

  Definition em_update (th : nat -> R) (k : nat) : R := avail * counts th k / sumR (counts th) ks.

  Variable th : nat -> R.
  Hypothesis th_nonneg : forall k, 0 <= th k.
  Hypothesis th_sum : sumR th ks <= avail.
  Hypothesis lik_pos : forall e, In e exs -> 0 < lik zs fblock th e.
  Hypothesis counts_pos : 0 < sumR (counts th) ks.
  Hypothesis support_kept : forall k, In k ks -> 0 < th k -> 0 < counts th k.

  Lemma fblock_nonneg : forall t, (forall k, 0 <= t k) -> forall e z, 0 <= fblock t e z.
  Proof.
    intros t Ht e z. unfold fblock. apply Rmult_le_pos; auto. destruct (kap e z); auto. lra.
  Qed.

  Lemma post_nonneg : forall e z, In e exs -> 0 <= post zs fblock th e z.
  Proof.
    intros e z He. unfold post. apply Rmult_le_pos; [apply fblock_nonneg; auto|].
    left. apply Rinv_0_lt_compat. auto.
  Qed.

  Lemma counts_nonneg : forall k, 0 <= counts th k.
  Proof.
    intros k. unfold counts. apply sumR_nonneg. intros e He. apply Rmult_le_pos; auto.
    apply sumR_nonneg. intros z Hz. destruct (kap e z); [|lra].
    destruct (Nat.eqb n k); [apply post_nonneg; auto|lra].
  Qed.

  Lemma update_nonneg : forall k, 0 <= em_update th k.
  Proof.
    intros k. unfold em_update. apply Rmult_le_pos; [apply Rmult_le_pos; [lra|apply counts_nonneg]|].
    left. apply Rinv_0_lt_compat. auto.
  Qed.

  Lemma update_pos : forall k, In k ks -> 0 < th k -> 0 < em_update th k.
  Proof.
    intros k Hk Pk. unfold em_update. apply Rdiv_lt_0_compat; auto.
    apply Rmult_lt_0_compat; auto.
  Qed.

  (* counts k > 0 only if th k > 0 *)
  Lemma counts_zero : forall k, th k = 0 -> counts th k = 0.
  Proof.
    intros k Hk. unfold counts.
    rewrite (sumR_ext _ _ (fun _ => 0)); [apply sumR_zero|].
    intros e He.
    rewrite (sumR_ext _ _ (fun _ => 0) (zs e)); [rewrite sumR_zero; ring|].
    intros z Hz.
    destruct (kap e z) as [k'|] eqn:K; [|reflexivity].
    destruct (Nat.eqb_spec k' k) as [->|_]; [|reflexivity].
    unfold post, fblock. rewrite K, Hk. unfold Rdiv. ring.
  Qed.

  Lemma support_of_counts : forall k, In k ks -> 0 < counts th k -> 0 < th k.
  Proof.
    intros k Hk Pc. destruct (th_nonneg k) as [P|Z0]; auto.
    rewrite counts_zero in Pc by auto. lra.
  Qed.

  (* the difference of the Q-function regroups by outcome *)
  Lemma Q_diff : let th' := em_update th in
    Qf exs m zs fblock th th' - Qf exs m zs fblock th th =
    sumR (fun k => counts th k * (ln (th' k) - ln (th k))) ks.
  Proof.
    intros th'. unfold Qf. rewrite <- sumR_minus.
    (* right-hand side: pull the factor inside and swap the sums *)
    assert (R1 : sumR (fun k => counts th k * (ln (th' k) - ln (th k))) ks =
                 sumR (fun e => m e * sumR (fun z => sumR (fun k =>
                    match kap e z with
                    | Some k' => if Nat.eqb k' k then post zs fblock th e z * (ln (th' k) - ln (th k)) else 0
                    | None => 0 end) ks) (zs e)) exs).
    { unfold counts.
      rewrite (sumR_ext _ _ (fun k => sumR (fun e => m e * sumR (fun z =>
                 match kap e z with
                 | Some k' => if Nat.eqb k' k then post zs fblock th e z * (ln (th' k) - ln (th k)) else 0
                 | None => 0 end) (zs e)) exs) ks).
      - rewrite sumR_swap. apply sumR_ext. intros e He. rewrite sumR_scal_l. f_equal.
        rewrite sumR_swap. reflexivity.
      - intros k Hk. rewrite <- sumR_scal_r. apply sumR_ext. intros e He.
        rewrite Rmult_assoc. f_equal. rewrite <- sumR_scal_r. apply sumR_ext. intros z Hz.
        destruct (kap e z); [|lra]. destruct (Nat.eqb n k); lra. }
    rewrite R1. apply sumR_ext. intros e He. rewrite <- Rmult_minus_distr_l. f_equal.
    rewrite <- sumR_minus. apply sumR_ext. intros z Hz.
    destruct (kap e z) as [k0|] eqn:K.
    - rewrite (sumR_delta (fun k => post zs fblock th e z * (ln (th' k) - ln (th k))) ks k0 ks_nodup
                          (kap_in e z k0 He Hz K)).
      destruct (post_nonneg e z He) as [Pz|Zz]; [|rewrite <- Zz; ring].
      assert (Fz : 0 < fblock th e z).
      { unfold post, Rdiv in Pz. destruct (fblock_nonneg th th_nonneg e z) as [F|F]; auto.
        rewrite <- F in Pz. lra. }
      unfold fblock in Fz. rewrite K in Fz.
      assert (Az : 0 < a e z).
      { destruct (a_nonneg e z) as [A|A]; auto. rewrite <- A in Fz. lra. }
      assert (Tz : 0 < th k0).
      { destruct (th_nonneg k0) as [T|T]; auto. rewrite <- T in Fz. lra. }
      assert (Tz' : 0 < th' k0) by (apply update_pos; auto; eapply kap_in; eauto).
      unfold fblock. rewrite K. rewrite !ln_mult by auto. ring.
    - rewrite sumR_zero. unfold fblock. rewrite K. ring.
  Qed.

  Theorem em_monotone_one_block :
    LL exs m zs fblock th <= LL exs m zs fblock (em_update th).
  Proof.
    assert (LB : Qf exs m zs fblock th (em_update th) - Qf exs m zs fblock th th <=
                 LL exs m zs fblock (em_update th) - LL exs m zs fblock th).
    { apply em_lower_bound; auto.
      - apply fblock_nonneg. auto.
      - apply fblock_nonneg. apply update_nonneg.
      - intros e z He Hz Fz. unfold fblock in *.
        assert (Az : 0 < a e z).
        { destruct (a_nonneg e z) as [A|A]; auto. rewrite <- A in Fz. lra. }
        apply Rmult_lt_0_compat; auto.
        destruct (kap e z) as [k|] eqn:K; [|lra].
        assert (Tz : 0 < th k).
        { destruct (th_nonneg k) as [T|T]; auto. rewrite <- T in Fz. lra. }
        apply update_pos; auto. eapply kap_in; eauto. }
    pose proof Q_diff as QD. cbv zeta in QD. rewrite QD in LB.
    pose proof (mstep_categorical ks (counts th) th avail avail_pos
                  (fun k _ => counts_nonneg k) (fun k _ => th_nonneg k) support_of_counts th_sum counts_pos) as MS.
    assert (S : sumR (fun k => counts th k * (ln (em_update th k) - ln (th k))) ks =
                sumR (fun k => counts th k * ln (avail * counts th k / sumR (counts th) ks)) ks -
                sumR (fun k => counts th k * ln (th k)) ks).
    { rewrite <- sumR_minus. apply sumR_ext. intros k _. unfold em_update. ring. }
    rewrite S in LB. lra.
  Qed.
End OneBlock.
Arguments fblock {E Z}.
Arguments counts {E Z}.
Arguments em_update {E Z}.
