(* C24 -- when a tunable fact is observed in every example, one iteration returns the
   relative frequency, whatever the starting point. *)
From Coq Require Import QArith Qreduction List Bool Arith Lia Lqa.
From PL.C24 Require Import ModelLFIUpdate ProofsBasic ProofsRange.
Import ListNotations.
Open Scope Q_scope.

(* In every world of positive weight that is consistent with the evidence e,
   lfi_body(i) has the truth value b and lfi_par(i) the truth value pr. *)
Definition observed (p : program) (tbl : list wentry) (e : example) (i : nat) (b pr : bool) : Prop :=
  forall t, In t tbl -> ~ snd t == 0 -> ev_pred e t = true ->
            body_pred p i t = b /\ par_pred p i t = pr.

Lemma psum_filter_const : forall (l : list wentry) (pred : wentry -> bool) (b : bool),
  (forall t, In t l -> ~ snd t == 0 -> pred t = b) ->
  psum (fun t => snd t) (filter pred l) == b2q b * psum (fun t => snd t) (filter all_pred l).
Proof.
  induction l as [|t r IH]; intros pred b H; cbn [filter all_pred psum]; [ring|].
  assert (IH' := IH pred b (fun x Hx => H x (or_intror Hx))).
  destruct (Qeq_dec (snd t) 0) as [Z|NZ].
  - destruct (pred t); cbn [psum]; rewrite IH', Z; ring.
  - rewrite (H t (or_introl eq_refl) NZ). destruct b; cbn [psum b2q]; rewrite IH'; cbn [b2q]; ring.
Qed.

Lemma clamp_b2q : forall b, clamp (b2q b) == b2q b.
Proof. destruct b; unfold clamp, b2q; simpl; reflexivity. Qed.

Lemma clamp_comp : forall x y, x == y -> clamp x == clamp y.
Proof.
  intros x y H. unfold clamp.
  destruct (Qle_bool clampq x) eqn:E1; destruct (Qle_bool clampq y) eqn:E2; auto; try reflexivity.
  - apply Qle_bool_iff in E1. apply Qle_bool_false in E2. lra.
  - apply Qle_bool_iff in E2. apply Qle_bool_false in E1. lra.
Qed.

Section Observed.
  Variables (p : program) (th : list Q) (i : nat).
  Let tbl := wtable th p.
  Let s := supports p (natoms p).

  Definition mk (me : Q * example) : result :=
    let sub := ev_worlds tbl (snd me) in
    let pe := wsum sub all_pred in
    (fst me, pe, map (fun j => (j, clamp (Qred (wsum sub (body_pred p j) / pe)),
                                   clamp (Qred (wsum sub (par_pred p j) / pe))))
                     (queried_s s p (snd me))).

  Lemma estep_all : forall exs,
    (forall me, In me exs -> ~ pevidence th p (snd me) == 0) ->
    estep th p exs = map mk exs.
  Proof.
    induction exs as [|me r IH]; intros H; [reflexivity|].
    unfold estep in *. cbn [flat_map map]. fold tbl. fold s. fold tbl in IH. fold s in IH.
    rewrite IH by (intros; apply H; simpl; auto).
    unfold estep1. assert (K := H me (or_introl eq_refl)). unfold pevidence in K. fold tbl in K.
    destruct (Qeq_bool (wsum (ev_worlds tbl (snd me)) all_pred) 0) eqn:E.
    - apply Qeq_bool_iff in E. tauto.
    - reflexivity.
  Qed.

  Lemma body_post_observed : forall e b pr, observed p tbl e i b pr ->
    ~ wsum (ev_worlds tbl e) all_pred == 0 ->
    clamp (Qred (wsum (ev_worlds tbl e) (body_pred p i) / wsum (ev_worlds tbl e) all_pred)) == b2q b /\
    clamp (Qred (wsum (ev_worlds tbl e) (par_pred p i) / wsum (ev_worlds tbl e) all_pred)) == b2q pr.
  Proof.
    intros e b pr Ho Hne.
    set (sub := ev_worlds tbl e) in *.
    assert (Hsub : forall t, In t sub -> In t tbl /\ ev_pred e t = true).
    { intros t Ht. unfold sub, ev_worlds in Ht. apply filter_In in Ht. auto. }
    assert (B : wsum sub (body_pred p i) == b2q b * wsum sub all_pred).
    { unfold wsum. rewrite !qsum_psum. apply psum_filter_const.
      intros t Ht NZ. destruct (Hsub t Ht) as [A1 A2]. destruct (Ho t A1 NZ A2). auto. }
    assert (P : wsum sub (par_pred p i) == b2q pr * wsum sub all_pred).
    { unfold wsum. rewrite !qsum_psum. apply psum_filter_const.
      intros t Ht NZ. destruct (Hsub t Ht) as [A1 A2]. destruct (Ho t A1 NZ A2). auto. }
    split.
    - rewrite <- clamp_b2q. apply clamp_comp. rewrite Qred_correct, B. field. auto.
    - rewrite <- clamp_b2q. apply clamp_comp. rewrite Qred_correct, P. field. auto.
  Qed.

  (* lookup in a result list built by mapping over a duplicate-free query list *)
  Lemma lookup_map_gen : forall (fb fp : nat -> Q) qs, NoDup qs -> In i qs ->
    psum (fun t : nat * Q * Q => if (fst (fst t) =? i)%nat then snd (fst t) else 0)
         (map (fun j => (j, fb j, fp j)) qs) == fb i /\
    psum (fun t : nat * Q * Q => if (fst (fst t) =? i)%nat then snd t else 0)
         (map (fun j => (j, fb j, fp j)) qs) == fp i.
  Proof.
    induction qs as [|j r IH]; intros Hnd Hin; [inversion Hin|].
    inversion Hnd; subst. cbn [map psum fst snd].
    destruct (Nat.eq_dec j i) as [->|Hne].
    - rewrite Nat.eqb_refl.
      assert (Z : forall g : nat * Q * Q -> Q,
        psum (fun t => if (fst (fst t) =? i)%nat then g t else 0) (map (fun j => (j, fb j, fp j)) r) == 0).
      { intros g. clear -H1. induction r as [|k r IHr]; cbn [map psum fst]; [reflexivity|].
        destruct (Nat.eqb_spec k i) as [->|Hk]; [exfalso; apply H1; simpl; auto|].
        rewrite IHr; [ring|]. intro K. apply H1. simpl. auto. }
      rewrite (Z (fun t => snd (fst t))), (Z (fun t => snd t)). split; ring.
    - destruct Hin as [Hin|Hin]; [congruence|].
      apply Nat.eqb_neq in Hne. rewrite Hne. destruct (IH H2 Hin) as [A B]. rewrite A, B. split; ring.
  Qed.

  Lemma queried_NoDup : forall e, NoDup (queried_s s p e).
  Proof. intros. unfold queried_s, dedup. apply NoDup_nodup. Qed.

  Lemma lookup_mk : forall me b pr, In i (queried p (snd me)) ->
    observed p tbl (snd me) i b pr -> ~ pevidence th p (snd me) == 0 ->
    lookup_body i (r_q (mk me)) == b2q b /\ lookup_par i (r_q (mk me)) == b2q pr /\
    has_query i (r_q (mk me)) = true.
  Proof.
    intros me b pr Hq Ho Hne. unfold pevidence in Hne. fold tbl in Hne.
    unfold queried in Hq. fold s in Hq.
    destruct (body_post_observed (snd me) b pr Ho Hne) as [B P].
    unfold lookup_body, lookup_par, mk, r_q. cbn [snd]. rewrite !qsum_psum.
    destruct (lookup_map_gen
      (fun j => clamp (Qred (wsum (ev_worlds tbl (snd me)) (body_pred p j) / wsum (ev_worlds tbl (snd me)) all_pred)))
      (fun j => clamp (Qred (wsum (ev_worlds tbl (snd me)) (par_pred p j) / wsum (ev_worlds tbl (snd me)) all_pred)))
      (queried_s s p (snd me)) (queried_NoDup (snd me)) Hq) as [L1 L2].
    rewrite L1, L2. repeat split; auto.
    unfold has_query. apply existsb_exists.
    exists (i, clamp (Qred (wsum (ev_worlds tbl (snd me)) (body_pred p i) / wsum (ev_worlds tbl (snd me)) all_pred)),
               clamp (Qred (wsum (ev_worlds tbl (snd me)) (par_pred p i) / wsum (ev_worlds tbl (snd me)) all_pred))).
    split; [|simpl; apply Nat.eqb_refl].
    apply in_map_iff. exists i. auto.
  Qed.

  (* ---------------------------------------------------------------- a tunable fact *)
  Variable obs : example -> bool.
  Variable exs : list (Q * example).
  Hypothesis grp : group_of p i = [i].
  Hypothesis exs_ok : forall me, In me exs ->
    1 <= fst me /\ In i (queried p (snd me)) /\ ~ pevidence th p (snd me) == 0 /\
    observed p tbl (snd me) i (obs (snd me)) true.
  Hypothesis exs_nonempty : exs <> [].

  Definition count_true : Q := psum (fun me => fst me * b2q (obs (snd me))) exs.
  Definition count_all : Q := psum (fun me => fst me) exs.

  Lemma counts : fact_body i (map mk exs) == count_true /\ fact_par [i] (map mk exs) == count_all.
  Proof.
    unfold fact_body, fact_par, count_true, count_all. rewrite !qsum_psum.
    clear exs_nonempty. induction exs as [|me r IH]; [split; reflexivity|].
    cbn [map psum].
    destruct (exs_ok me (or_introl eq_refl)) as [_ [Hq [Hne Ho]]].
    destruct (lookup_mk me _ _ Hq Ho Hne) as [LB [LP _]].
    destruct IH as [IH1 IH2]; [intros; apply exs_ok; simpl; auto|].
    rewrite IH1, IH2, LB. unfold par_marg. cbn [qsum]. rewrite !Qred_correct, LP.
    unfold mk, r_mult. cbn [fst snd b2q]. split; ring.
  Qed.

  Lemma has_query_exs : existsb (fun r => has_query i (r_q r)) (map mk exs) = true.
  Proof.
    destruct exs as [|me r]; [congruence|]. cbn [map existsb].
    destruct (exs_ok me (or_introl eq_refl)) as [_ [Hq [Hne Ho]]].
    destruct (lookup_mk me _ _ Hq Ho Hne) as [_ [_ H]]. rewrite H. reflexivity.
  Qed.

  Lemma count_true_cases : count_true == 0 \/ 1 <= count_true.
  Proof.
    unfold count_true. clear exs_nonempty.
    induction exs as [|me r IH]; [left; reflexivity|]. cbn [psum].
    destruct (exs_ok me (or_introl eq_refl)) as [Hm _].
    assert (IH' : psum (fun me => fst me * b2q (obs (snd me))) r == 0 \/
                  1 <= psum (fun me => fst me * b2q (obs (snd me))) r)
      by (apply IH; intros; apply exs_ok; simpl; auto).
    assert (0 <= psum (fun me => fst me * b2q (obs (snd me))) r) by (destruct IH'; lra).
    destruct (obs (snd me)); cbn [b2q].
    - right. lra.
    - destruct IH'; [left|right]; lra.
  Qed.

  Theorem mle_fact_update : (i < length th)%nat ->
    nth i (update p (estep th p exs) th) 0 == count_true / count_all.
  Proof.
    intros Hi. rewrite estep_all by (intros me Hme; apply (exs_ok me Hme)).
    unfold update. rewrite nth_mapi by auto. unfold new_prob.
    rewrite has_query_exs. rewrite grp. destruct counts as [CB CP].
    destruct (Qle_bool (fact_body i (map mk exs)) floorq) eqn:E.
    - apply Qle_bool_iff in E. rewrite CB in E. unfold floorq in E.
      destruct count_true_cases as [Z|G].
      + rewrite Z. unfold Qdiv. ring.
      + exfalso. assert (1 <= 1 # 1000000000000000) by lra. unfold Qle in H. simpl in H. lia.
    - rewrite Qred_correct, CB, CP. reflexivity.
  Qed.
End Observed.

Lemma group_of_length : forall p i c, In c p -> In i (tun_of c) ->
  (length (tun_of c) <= length (group_of p i))%nat.
Proof.
  induction p as [|c0 t IH]; intros i c Hc Hi; [inversion Hc|].
  unfold group_of. cbn [flat_map]. rewrite app_length. destruct Hc as [->|Hc].
  - assert (E : existsb (Nat.eqb i) (tun_of c) = true)
      by (apply existsb_exists; exists i; split; auto; apply Nat.eqb_refl).
    rewrite E. lia.
  - specialize (IH i c Hc Hi). unfold group_of in IH. lia.
Qed.

Theorem mle_fact_step : forall norm p th i obs exs,
  group_of p i = [i] ->
  (forall me, In me exs ->
     1 <= fst me /\ In i (queried p (snd me)) /\ ~ pevidence th p (snd me) == 0 /\
     observed p (wtable th p) (snd me) i (obs (snd me)) true) ->
  exs <> [] -> (i < length th)%nat ->
  nth i (step norm p exs th) 0 == count_true obs exs / count_all exs.
Proof.
  intros norm p th i obs exs Hg Hex Hne Hi. unfold step, mstep.
  destruct norm; [|apply mle_fact_update; auto].
  unfold normalize. rewrite fold_normalize_other_gen; [apply mle_fact_update; auto|].
  intros [a idx] Had. cbn [snd].
  destruct (in_adatoms p a idx Had) as [c [Hc [_ [-> _]]]].
  destruct (in_dec Nat.eq_dec i (tun_of c)) as [Hin|Hnin]; [right|left; auto].
  pose proof (group_of_length p i c Hc Hin) as L. rewrite Hg in L. simpl in L. auto.
Qed.

(* the hypotheses of mle_fact_step are satisfiable: t(0.1)::f with data f, f, f, \+f *)
Lemma example_hyps :
  let p := [Clause [(0%nat, HTun 0)] []] in
  let data : list (Q * example) := [(3, [(0%nat, true)]); (1, [(0%nat, false)])] in
  group_of p 0 = [0%nat] /\
  (forall me, In me data ->
     1 <= fst me /\ In 0%nat (queried p (snd me)) /\ ~ pevidence [1 # 10] p (snd me) == 0 /\
     observed p (wtable [1 # 10] p) (snd me) 0
              (match snd me with [(_, b)] => b | _ => false end) true).
Proof.
  cbv zeta. split; [reflexivity|].
  intros me [<-|[<-|[]]]; cbn [fst snd].
  - split; [unfold Qle; simpl; lia|]. split; [vm_compute; auto|]. split.
    + intro K. vm_compute in K. discriminate K.
    + intros t Ht NZ Hev. vm_compute in Ht. destruct Ht as [<-|[<-|[]]]; vm_compute in Hev |- *;
        try discriminate; split; reflexivity.
  - split; [unfold Qle; simpl; lia|]. split; [vm_compute; auto|]. split.
    + intro K. vm_compute in K. discriminate K.
    + intros t Ht NZ Hev. vm_compute in Ht. destruct Ht as [<-|[<-|[]]]; vm_compute in Hev |- *;
        try discriminate; split; reflexivity.
Qed.
