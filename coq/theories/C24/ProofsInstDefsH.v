(* C24 -- definitions for tunable annotated disjunctions that also have constant heads.  No proofs in this file. *)
From Coq Require Import QArith List Bool Arith.
From PL.C24 Require Import ModelLFIUpdate ProofsBasic ProofsInstDefs ProofsInstDefsG.
Import ListNotations.
Open Scope Q_scope.

(* outcome k of clause c is a tunable head or "no head" (as opposed to a constant / deterministic head) *)
Definition tunsel (c : clause) (k : nat) : bool :=
  match nth_error (heads c) k with
  | Some (_, HTun _) => true
  | Some _ => false
  | None => true
  end.

(* a clause with a tunable head is purely tunable or has at least two tunable heads (the one-tunable-head-plus-constants
   class is where _update is not the EM update), and its constants leave room *)
Definition clause_ok (c : clause) : bool :=
  negb (has_tun c) ||
  ((forallb (fun h => is_tun (snd h)) (heads c) || (2 <=? length (tun_of c))%nat) &&
   negb (Qle_bool (1 - fixed_sum c) 0)).
