(* C24 -- link L1 (latent space) between the world table of ModelLFIUpdate.v and the gated
   complete-data likelihood of ProofsEMBlocks.v.

   In the world table every clause always selects an outcome.  LFI's expected counts only look at a
   clause in the worlds in which its body is true; the EM that has exactly these counts has a
   complete-data likelihood in which a tunable clause whose body is false contributes a factor that
   does NOT depend on the parameters being learned.  [mixing] is the semantic fact that makes this
   legitimate: in the sum over all worlds, the weight of the outcome of a clause whose body is false
   can be taken from ANY other weight table w0 (here: the parameters of the previous iteration)
   without changing the sum, as long as the outcome weights of the clause add up to the same total
   -- the value of every atom, hence the evidence and the bodies of all clauses, does not depend on
   the outcome selected by a clause whose body is false ([vals_indep]). *)
From Coq Require Import QArith Reals List Bool Arith Lia Lra.
From PL.C24 Require Import ModelLFIUpdate ProofsEM ProofsEMBlocks ProofsInstDefs.
Import ListNotations.
Open Scope R_scope.

(* ------------------------------------------------------------------ sums over lists of worlds *)
Lemma sumR_appL : forall A (f : A -> R) l1 l2, sumR f (l1 ++ l2) = sumR f l1 + sumR f l2.
Proof. induction l1 as [|x t IH]; intros; simpl; [lra|]. rewrite IH. lra. Qed.

Lemma sumR_mapL : forall A B (h : A -> B) (f : B -> R) l, sumR f (map h l) = sumR (fun x => f (h x)) l.
Proof. induction l as [|x t IH]; simpl; auto. rewrite IH. reflexivity. Qed.

Lemma sumR_flat_map : forall A B (h : A -> list B) (f : B -> R) l,
  sumR f (flat_map h l) = sumR (fun x => sumR f (h x)) l.
Proof. induction l as [|x t IH]; simpl; auto. rewrite sumR_appL, IH. reflexivity. Qed.

Lemma sum_worlds_cons : forall c t (g : world -> R),
  sumR g (worlds (c :: t)) = sumR (fun k => sumR (fun w => g (k :: w)) (worlds t)) (options c).
Proof.
  intros. cbn [worlds]. rewrite sumR_flat_map. apply sumR_ext. intros k _. apply sumR_mapL.
Qed.

Lemma sum_worlds_split : forall p1 c p2 (g : world -> R),
  sumR g (worlds (p1 ++ c :: p2)) =
  sumR (fun w1 => sumR (fun w2 => sumR (fun k => g (w1 ++ k :: w2)) (options c)) (worlds p2)) (worlds p1).
Proof.
  induction p1 as [|a p1 IH]; intros c p2 g.
  - cbn [app]. rewrite sum_worlds_cons. cbn [worlds sumR app].
    rewrite (sumR_swap _ _ (fun k w => g (k :: w))). lra.
  - rewrite <- app_comm_cons. rewrite sum_worlds_cons.
    rewrite (sum_worlds_cons a p1). apply sumR_ext. intros k _.
    exact (IH c p2 (fun w => g (k :: w))).
Qed.

Lemma worlds_len : forall p z, In z (worlds p) -> length z = length p.
Proof.
  induction p as [|c t IH]; intros z Hz.
  - simpl in Hz. destruct Hz as [<-|[]]. reflexivity.
  - cbn [worlds] in Hz. apply in_flat_map in Hz. destruct Hz as [k [_ Hz]].
    apply in_map_iff in Hz. destruct Hz as [w [<- Hw]]. simpl. f_equal. auto.
Qed.

(* ------------------------------------------------------------------ isolate one factor of a product *)
Lemma prodR_isolate_gen : forall (f : nat -> R) s n j, (s <= j < s + n)%nat ->
  prodR f (seq s n) = f j * prodR (fun b => if (b =? j)%nat then 1 else f b) (seq s n).
Proof.
  intros f s n. revert s. induction n as [|n IH]; intros s j Hj; [lia|].
  cbn [seq prodR]. destruct (Nat.eq_dec s j) as [->|Hne].
  - rewrite Nat.eqb_refl.
    assert (E : prodR (fun b => if (b =? j)%nat then 1 else f b) (seq (S j) n) = prodR f (seq (S j) n)).
    { apply prodR_ext. intros b Hb. apply in_seq in Hb.
      destruct (Nat.eqb_spec b j); [lia|reflexivity]. }
    rewrite E. ring.
  - destruct (Nat.eqb_spec s j); [lia|].
    rewrite (IH (S s) j) by lia. ring.
Qed.

Lemma prodR_isolate : forall (f : nat -> R) n j, (j < n)%nat ->
  prodR f (seq 0 n) = f j * prodR (fun b => if (b =? j)%nat then 1 else f b) (seq 0 n).
Proof. intros. apply prodR_isolate_gen. lia. Qed.

(* ------------------------------------------------------------------ a clause whose body is false does not matter *)
Lemma combine_split : forall (p1 : list clause) c p2 (w1 : list nat) k w2, length w1 = length p1 ->
  combine (p1 ++ c :: p2) (w1 ++ k :: w2) = combine p1 w1 ++ (c, k) :: combine p2 w2.
Proof.
  induction p1 as [|a p1 IH]; intros c p2 w1 k w2 L; destruct w1 as [|x w1]; simpl in L; try discriminate.
  - reflexivity.
  - simpl. f_equal. apply IH. lia.
Qed.

Lemma eval_length : forall p w n, length (eval_atoms p w n) = n.
Proof. induction n as [|n IH]; simpl; auto. rewrite app_length, IH. simpl. lia. Qed.

Lemma eval_nth_stable : forall p w n N a, (a < n)%nat -> (n <= N)%nat ->
  nth a (eval_atoms p w N) false = nth a (eval_atoms p w n) false.
Proof.
  intros p w n N a Ha. induction N as [|N IH]; intros Hn.
  - lia.
  - destruct (Nat.eq_dec n (S N)) as [->|Hne]; [reflexivity|].
    cbn [eval_atoms]. rewrite app_nth1 by (rewrite eval_length; lia). apply IH. lia.
Qed.

Lemma conj_true_ext : forall v1 v2 b,
  (forall l, In l b -> nth (fst l) v1 false = nth (fst l) v2 false) -> conj_true v1 b = conj_true v2 b.
Proof.
  intros v1 v2 b. unfold conj_true. induction b as [|l t IH]; intros H; simpl; auto.
  unfold lit_true at 1 3. rewrite (H l) by (simpl; auto). f_equal. apply IH. intros; apply H; simpl; auto.
Qed.

Lemma wf_clause_body_lt : forall c h l, wf_clause c = true -> In h (heads c) -> In l (body c) ->
  (fst l < fst h)%nat.
Proof.
  intros c h l W Hh Hl. unfold wf_clause in W.
  apply andb_true_iff in W. destruct W as [W _]. apply andb_true_iff in W. destruct W as [_ W].
  rewrite forallb_forall in W. specialize (W h Hh). apply andb_true_iff in W. destruct W as [_ W].
  rewrite forallb_forall in W. specialize (W l Hl). apply Nat.ltb_lt in W. exact W.
Qed.

(* the clause in the middle cannot fire when its body is false in the final valuation *)
Lemma fires_false : forall P z c N n kk, wf_clause c = true -> (n <= N)%nat ->
  conj_true (eval_atoms P z N) (body c) = false ->
  fires (eval_atoms P z n) n (c, kk) = false.
Proof.
  intros P z c N n kk W Hn B. unfold fires. cbn [fst snd].
  destruct (nth_error (heads c) kk) as [[a' hk]|] eqn:E; [|reflexivity].
  destruct (Nat.eqb_spec a' n) as [->|_]; [|reflexivity]. cbn [andb].
  rewrite <- B. apply conj_true_ext. intros l Hl.
  pose proof (wf_clause_body_lt c (n, hk) l W (nth_error_In _ _ E) Hl) as L. cbn [fst] in L.
  symmetry. apply eval_nth_stable; auto.
Qed.

Lemma vals_indep_n : forall p1 c p2 w1 k k' w2 N,
  wf_clause c = true -> length w1 = length p1 ->
  conj_true (eval_atoms (p1 ++ c :: p2) (w1 ++ k :: w2) N) (body c) = false ->
  forall n, (n <= N)%nat ->
  eval_atoms (p1 ++ c :: p2) (w1 ++ k' :: w2) n = eval_atoms (p1 ++ c :: p2) (w1 ++ k :: w2) n.
Proof.
  intros p1 c p2 w1 k k' w2 N W L B. induction n as [|n IH]; intros Hn; [reflexivity|].
  cbn [eval_atoms]. rewrite IH by lia. f_equal. f_equal.
  rewrite !combine_split by auto. rewrite !existsb_app. f_equal. cbn [existsb]. f_equal.
  rewrite (fires_false _ _ c N n k W) by (auto; lia).
  pose proof (fires_false (p1 ++ c :: p2) (w1 ++ k :: w2) c N n k' W) as F.
  apply F; auto; lia.
Qed.

Lemma vals_indep : forall p1 c p2 w1 k k' w2,
  wf_clause c = true -> length w1 = length p1 ->
  conj_true (world_vals (p1 ++ c :: p2) (w1 ++ k :: w2)) (body c) = false ->
  world_vals (p1 ++ c :: p2) (w1 ++ k' :: w2) = world_vals (p1 ++ c :: p2) (w1 ++ k :: w2).
Proof.
  intros. unfold world_vals in *. eapply vals_indep_n; eauto.
Qed.

Lemma nth_mid : forall (w1 : list nat) k w2, nth (length w1) (w1 ++ k :: w2) 0%nat = k.
Proof. intros. rewrite app_nth2 by lia. rewrite Nat.sub_diag. reflexivity. Qed.

Lemma nth_mid_other : forall (w1 : list nat) k k' w2 b, b <> length w1 ->
  nth b (w1 ++ k :: w2) 0%nat = nth b (w1 ++ k' :: w2) 0%nat.
Proof.
  intros w1 k k' w2 b Hb. destruct (lt_dec b (length w1)) as [L|L].
  - rewrite !app_nth1 by auto. reflexivity.
  - rewrite !app_nth2 by lia. destruct (b - length w1)%nat eqn:E; [lia|]. reflexivity.
Qed.

Lemma nth_mid_clause : forall (p1 : list clause) c p2, nth (length p1) (p1 ++ c :: p2) dcl = c.
Proof. intros. rewrite app_nth2 by lia. rewrite Nat.sub_diag. reflexivity. Qed.

(* ------------------------------------------------------------------ hybrids *)
(* T b: clause number b is a tunable block.  act: the block is switched on in world z. *)
Definition act (P : program) (T : nat -> bool) (b : nat) (z : world) : bool :=
  T b && conj_true (world_vals P z) (body (nth b P dcl)).

Definition fac (P : program) (w w0 : nat -> nat -> R) (T : nat -> bool) (j b : nat) (z : world) : R :=
  if (b <? j)%nat then w b (nth b z 0%nat)
  else if act P T b z then w b (nth b z 0%nat) else w0 b (nth b z 0%nat).

Definition hyb (P : program) (w w0 : nat -> nat -> R) (T : nat -> bool) (g : list bool -> R) (j : nat) : R :=
  sumR (fun z => g (world_vals P z) * prodR (fun b => fac P w w0 T j b z) (seq 0 (length P))) (worlds P).

Lemma hybrid_step : forall p1 c p2 (w w0 : nat -> nat -> R) (T : nat -> bool) g,
  wf_clause c = true ->
  (T (length p1) = true -> sumR (w (length p1)) (options c) = sumR (w0 (length p1)) (options c)) ->
  (T (length p1) = false -> forall k, w (length p1) k = w0 (length p1) k) ->
  hyb (p1 ++ c :: p2) w w0 T g (length p1) = hyb (p1 ++ c :: p2) w w0 T g (S (length p1)).
Proof.
  intros p1 c p2 w w0 T g W H1 H2.
  unfold hyb. rewrite !sum_worlds_split.
  set (P := p1 ++ c :: p2). set (j := length p1).
  assert (Hj : (j < length P)%nat) by (unfold P, j; rewrite app_length; simpl; lia).
  apply sumR_ext. intros w1 Hw1. apply worlds_len in Hw1.
  apply sumR_ext. intros w2 _.
  set (zk := fun k => w1 ++ k :: w2).
  (* isolate factor j *)
  set (rest := fun jj k => prodR (fun b => if (b =? j)%nat then 1 else fac P w w0 T jj b (zk k)) (seq 0 (length P))).
  assert (I : forall jj k, prodR (fun b => fac P w w0 T jj b (zk k)) (seq 0 (length P)) =
                           fac P w w0 T jj j (zk k) * rest jj k).
  { intros jj k. apply (prodR_isolate (fun b => fac P w w0 T jj b (zk k))). auto. }
  assert (RS : forall k, rest (S j) k = rest j k).
  { intros k. unfold rest. apply prodR_ext. intros b Hb.
    destruct (Nat.eqb_spec b j) as [->|Hne]; [reflexivity|]. unfold fac.
    destruct (Nat.ltb_spec b j); destruct (Nat.ltb_spec b (S j)); try lia; reflexivity. }
  assert (Fj : forall k, fac P w w0 T (S j) j (zk k) = w j k).
  { intros k. unfold fac. destruct (Nat.ltb_spec j (S j)); [|lia].
    unfold zk, j. rewrite <- Hw1. rewrite nth_mid. reflexivity. }
  assert (Fj0 : forall k, fac P w w0 T j j (zk k) = if act P T j (zk k) then w j k else w0 j k).
  { intros k. unfold fac. destruct (Nat.ltb_spec j j); [lia|].
    unfold zk, j. rewrite <- Hw1. rewrite nth_mid. reflexivity. }
  assert (Cj : nth j P dcl = c) by (unfold j, P; apply nth_mid_clause).
  apply eq_trans with (y := sumR (fun k => g (world_vals P (zk k)) *
                                   ((if act P T j (zk k) then w j k else w0 j k) * rest j k)) (options c)).
  { apply sumR_ext. intros k _. fold (zk k). rewrite I, Fj0. reflexivity. }
  apply eq_trans with (y := sumR (fun k => g (world_vals P (zk k)) * (w j k * rest j k)) (options c)).
  2:{ apply sumR_ext. intros k _. fold (zk k). rewrite I, Fj, RS. reflexivity. }
  destruct (T j) eqn:Tj.
  2:{ apply sumR_ext. intros k _. unfold act. rewrite Tj. cbn [andb]. pose proof (H2 Tj k) as E2. fold j in E2. rewrite E2. reflexivity. }
  destruct (conj_true (world_vals P (zk 0%nat)) (body c)) eqn:B0.
  - (* body true for one selection of clause j, hence for all *)
    apply sumR_ext. intros k _. unfold act. rewrite Tj, Cj. cbn [andb].
    destruct (conj_true (world_vals P (zk k)) (body c)) eqn:Bk; [reflexivity|].
    pose proof (vals_indep p1 c p2 w1 k 0%nat w2 W Hw1 Bk) as V. fold P in V. fold (zk 0%nat) in V. fold (zk k) in V.
    rewrite V in B0. congruence.
  - (* body false: nothing depends on the selection of clause j *)
    assert (V : forall k, world_vals P (zk k) = world_vals P (zk 0%nat)).
    { intros k. apply (vals_indep p1 c p2 w1 0%nat k w2 W Hw1 B0). }
    assert (R0 : forall k, rest j k = rest j 0%nat).
    { intros k. unfold rest. apply prodR_ext. intros b Hb.
      destruct (Nat.eqb_spec b j) as [->|Hne]; [reflexivity|]. unfold fac, act. rewrite V.
      assert (N : nth b (zk k) 0%nat = nth b (zk 0%nat) 0%nat)
        by (unfold zk; apply nth_mid_other; unfold j in Hne; lia).
      rewrite N. reflexivity. }
    rewrite (sumR_ext _ _ (fun k => (g (world_vals P (zk 0%nat)) * rest j 0%nat) * w0 j k)).
    2:{ intros k _. unfold act. rewrite Tj, Cj, V, B0, R0. cbn [andb]. ring. }
    rewrite (sumR_ext _ (fun k => g (world_vals P (zk k)) * (w j k * rest j k))
                      (fun k => (g (world_vals P (zk 0%nat)) * rest j 0%nat) * w j k)).
    2:{ intros k _. rewrite V, R0. ring. }
    rewrite !sumR_scal_l. pose proof (H1 Tj) as E1. fold j in E1. rewrite E1. reflexivity.
Qed.

Lemma split_at : forall (P : program) j, (j < length P)%nat ->
  exists p1 c p2, P = p1 ++ c :: p2 /\ length p1 = j.
Proof.
  induction P as [|a P IH]; intros j Hj; [simpl in Hj; lia|].
  destruct j as [|j].
  - exists [], a, P. auto.
  - destruct (IH j) as [p1 [c [p2 [E L]]]]; [simpl in Hj; lia|].
    exists (a :: p1), c, p2. subst P. simpl. auto.
Qed.

Lemma wf_prog_mid : forall p1 c p2, wf_prog (p1 ++ c :: p2) = true -> wf_clause c = true.
Proof.
  intros p1 c p2 H. unfold wf_prog in H. rewrite forallb_forall in H. apply H.
  apply in_or_app. right. simpl. auto.
Qed.

Lemma hyb_all : forall P w w0 T g, wf_prog P = true ->
  (forall b, (b < length P)%nat -> T b = true ->
     sumR (w b) (options (nth b P dcl)) = sumR (w0 b) (options (nth b P dcl))) ->
  (forall b k, T b = false -> w b k = w0 b k) ->
  forall j, (j <= length P)%nat -> hyb P w w0 T g 0 = hyb P w w0 T g j.
Proof.
  intros P w w0 T g W H1 H2. induction j as [|j IH]; intros Hj; [reflexivity|].
  rewrite IH by lia.
  destruct (split_at P j) as [p1 [c [p2 [E L]]]]; [lia|]. subst P. subst j.
  apply hybrid_step.
  - eapply wf_prog_mid; eauto.
  - intros Tj. specialize (H1 (length p1)). rewrite nth_mid_clause in H1. apply H1; auto.
  - intros Tj k. apply H2; auto.
Qed.

(* THE MIXING LEMMA: in the sum over all worlds, the outcome weight of a tunable clause whose body is false
   may be taken from another table w0 with the same totals *)
Theorem mixing : forall P (w w0 : nat -> nat -> R) (T : nat -> bool) (g : list bool -> R),
  wf_prog P = true ->
  (forall b, (b < length P)%nat -> T b = true ->
     sumR (w b) (options (nth b P dcl)) = sumR (w0 b) (options (nth b P dcl))) ->
  (forall b k, T b = false -> w b k = w0 b k) ->
  sumR (fun z => g (world_vals P z) *
                 prodR (fun b => if act P T b z then w b (nth b z 0%nat) else w0 b (nth b z 0%nat))
                       (seq 0 (length P))) (worlds P)
  = sumR (fun z => g (world_vals P z) * prodR (fun b => w b (nth b z 0%nat)) (seq 0 (length P))) (worlds P).
Proof.
  intros P w w0 T g W H1 H2.
  pose proof (hyb_all P w w0 T g W H1 H2 (length P) (le_n _)) as H. unfold hyb in H.
  etransitivity; [etransitivity; [|exact H]|].
  - apply sumR_ext. intros z _. f_equal.
  - apply sumR_ext. intros z _. f_equal. apply prodR_ext. intros b Hb. apply in_seq in Hb.
    unfold fac. destruct (Nat.ltb_spec b (length P)); [reflexivity|lia].
Qed.
