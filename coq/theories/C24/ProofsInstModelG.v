(* C24 -- "relevant-only" instance of the abstract k-block EM: like ProofsInstModel.v, but a tunable clause is switched
   on in world z for example e only if e QUERIES the clause (ModelLFIUpdate.queried) and its body is true in z.  The
   clauses an example does not query keep, for that example, the outcome weights of the previous iteration. *)
From Coq Require Import QArith Qreals Reals List Bool Arith Lia Lra.
From PL.C24 Require Import ModelLFIUpdate ProofsBasic ProofsEM ProofsEMBlocks ProofsInstDefs ProofsInstDefsG
  ProofsInstTransport ProofsInstLatent ProofsInstLatentG ProofsInstModel ProofsInstQ ProofsInstMstep ProofsInstMstepQ
  ProofsInstSupports.
Import ListNotations.
Open Scope R_scope.

(* example me queries (the tunable heads of) clause b *)
Definition qb (p : program) (me : Q * example) (b : nat) : bool :=
  existsb (fun i => qd p me i) (tun_of (nth b p dcl)).
Definition Tq (p : program) (me : Q * example) (b : nat) : bool := Tb p b && qb p me b.
Definition Uq (p : program) (me : Q * example) (b : nat) : bool := Tb p b && negb (qb p me b).

Definition g_kap (p : program) (b : nat) (me : Q * example) (z : world) : option nat :=
  if act p (Tq p me) b z then Some (nth b z 0%nat) else None.
Definition g_a (th0 : list Q) (p : program) (me : Q * example) (z : world) : R :=
  ind (ev_true (world_vals p z) (snd me)) *
  prodR (fun b => if act p (Tq p me) b z then 1 else swR th0 p b (nth b z 0%nat)) (seq 0 (length p)).
Definition g_f (th0 : list Q) (p : program) := fmulti (g_a th0 p) (m_bs p) (g_kap p).

Lemma act_Tq : forall p me b z, act p (Tq p me) b z = true -> Tb p b = true.
Proof.
  intros p me b z H. unfold act, Tq in H. apply andb_true_iff in H. destruct H as [H _].
  apply andb_true_iff in H. tauto.
Qed.

Lemma g_fmulti_form : forall th0 th p me z,
  g_f th0 p (m_th th p) me z =
  ind (ev_true (world_vals p z) (snd me)) *
  prodR (fun b => if act p (Tq p me) b z then swR th p b (nth b z 0%nat) else swR th0 p b (nth b z 0%nat))
        (seq 0 (length p)).
Proof.
  intros. unfold g_f, fmulti, g_a, m_bs. rewrite Rmult_assoc. f_equal. rewrite prodR_mult.
  apply prodR_ext. intros b _. unfold bfactor, g_kap, m_th.
  destruct (act p (Tq p me) b z) eqn:A; cbv iota; [|ring]. rewrite (act_Tq _ _ _ _ A). ring.
Qed.

(* all heads of a clause are queried together *)
Lemma qb_qd : forall p n me b i, wf_params p n = true -> (b < length p)%nat -> In i (tun_of (nth b p dcl)) ->
  qb p me b = qd p me i.
Proof.
  intros p n me b i WP Hb Hi. unfold qb.
  assert (Hc : In (nth b p dcl) p) by (apply nth_In; auto).
  destruct (qd p me i) eqn:Q.
  - apply existsb_exists. exists i. auto.
  - destruct (existsb (fun i0 => qd p me i0) (tun_of (nth b p dcl))) eqn:X; auto.
    apply existsb_exists in X. destruct X as [j [Hj Qj]].
    rewrite (qd_same_clause p n me _ i j WP Hc Hi Hj) in Q. congruence.
Qed.

(* ------------------------------------------------------------------ L1, relevant-only *)
Theorem latent_space_sums_to_evidence_q : forall p n th0 th me,
  wf_prog p = true -> wf_params p n = true -> forallb pure_clause p = true ->
  lik (m_zs p) (g_f th0 p) (m_th th p) me = Q2R (pevidence th p (snd me)).
Proof.
  intros p n th0 th me W WP PC. unfold lik, m_zs.
  rewrite (sumR_ext _ _ (fun z => ind (ev_true (world_vals p z) (snd me)) *
     prodR (fun b => if act p (Tq p me) b z then swR th p b (nth b z 0%nat) else swR th0 p b (nth b z 0%nat))
           (seq 0 (length p)))) by (intros; apply g_fmulti_form).
  rewrite (mixingG (rel p (snd me)) p (swR th p) (swR th0 p) (Tq p me) (Uq p me)
                   (fun v => ind (ev_true v (snd me))) W).
  - rewrite Q2R_pevidence. apply sumR_ext. intros z Hz.
    rewrite Q2R_wweight by (apply worlds_length; auto). unfold ind, swR.
    destruct (ev_true (world_vals p z) (snd me)); ring.
  - (* relevance is closed *)
    intros c h l Hc Hh Rh Hl. eapply rel_closed; eauto.
  - (* the evidence only reads relevant atoms *)
    intros v v' AG. unfold ev_true. rewrite (conj_true_agree _ v v' (snd me) AG); [reflexivity|].
    intros l Hl. apply rel_evidence. exact Hl.
  - (* the bodies of the queried tunable clauses only read relevant atoms *)
    intros b Hb T l Hl. unfold Tq in T. apply andb_true_iff in T. destruct T as [_ Qb].
    unfold qb in Qb. apply existsb_exists in Qb. destruct Qb as [i [Hi Qi]].
    apply (queried_body_rel p n me (nth b p dcl) i l W WP (nth_In _ _ Hb) Hi Qi Hl).
  - intros b _ _. unfold swR. rewrite !sel_weight_options_sumR. reflexivity.
  - intros b k T U. unfold swR. f_equal. apply sel_weight_no_tun.
    unfold Tq in T. unfold Uq in U. fold (Tb p b). destruct (Tb p b); auto.
    destruct (qb p me b); simpl in *; discriminate.
  - (* a tunable clause that the example does not query has no relevant head atom *)
    intros b Hb U. unfold Uq in U. apply andb_true_iff in U. destruct U as [T NQ].
    split; [unfold Tq; rewrite T; apply negb_true_iff in NQ; rewrite NQ; reflexivity|].
    intros h Hh. destruct (rel p (snd me) (fst h)) eqn:R; auto. exfalso.
    assert (Hc : In (nth b p dcl) p) by (apply nth_In; auto).
    rewrite forallb_forall in PC. pose proof (pure_all_tun _ (PC _ Hc) T) as AT.
    destruct (In_nth_error _ _ Hh) as [k E]. pose proof (all_tun_head _ k h AT E) as Eh.
    assert (Hh' : In (fst h, HTun (hidx h)) (heads (nth b p dcl))) by (rewrite <- Eh; exact Hh).
    pose proof (rel_head_queried p me _ (fst h) (hidx h) W Hc Hh' R) as Q.
    assert (Hi : In (hidx h) (tun_of (nth b p dcl))).
    { rewrite (all_tun_tun_of _ AT). apply in_map. exact Hh. }
    rewrite (qb_qd p n me b (hidx h) WP Hb Hi) in NQ. rewrite Q in NQ. discriminate.
Qed.

Lemma g_fmulti_at_th0 : forall p th0 me z, In z (worlds p) ->
  g_f th0 p (m_th th0 p) me z = ind (ev_true (world_vals p z) (snd me)) * Q2R (wweight th0 p z).
Proof.
  intros p th0 me z Hz. rewrite g_fmulti_form. f_equal.
  rewrite Q2R_wweight by (apply worlds_length; auto).
  apply prodR_ext. intros b _. destruct (act p (Tq p me) b z); reflexivity.
Qed.

(* ------------------------------------------------------------------ L2, relevant-only *)
Theorem posterior_is_table_row_q : forall p n th0 me z,
  wf_prog p = true -> wf_params p n = true -> forallb pure_clause p = true -> In z (worlds p) ->
  post (m_zs p) (g_f th0 p) (m_th th0 p) me z =
  ind (ev_true (world_vals p z) (snd me)) * Q2R (wweight th0 p z) / Q2R (pevidence th0 p (snd me)).
Proof.
  intros p n th0 me z W WP PC Hz. unfold post. rewrite (latent_space_sums_to_evidence_q p n) by auto.
  rewrite g_fmulti_at_th0 by auto. reflexivity.
Qed.

Lemma posterior_mass_q : forall p n th0 me (S : wentry -> bool),
  wf_prog p = true -> wf_params p n = true -> forallb pure_clause p = true ->
  ~ (pevidence th0 p (snd me) == 0)%Q ->
  sumR (fun z => if S (z, world_vals p z, wweight th0 p z)
                 then post (m_zs p) (g_f th0 p) (m_th th0 p) me z else 0) (worlds p) =
  Q2R (wsum (ev_worlds (wtable th0 p) (snd me)) S / pevidence th0 p (snd me)).
Proof.
  intros p n th0 me S W WP PC NZ. rewrite Q2R_div' by auto. rewrite Q2R_wsum_ev.
  unfold Rdiv. rewrite <- sumR_scal_r. apply sumR_ext. intros z Hz.
  rewrite (posterior_is_table_row_q p n) by auto. unfold ind, Rdiv.
  destruct (ev_true (world_vals p z) (snd me)); destruct (S (z, world_vals p z, wweight th0 p z)); cbn [andb]; ring.
Qed.
