(* C24 -- non-vacuity of the k-block EM theorem: a two-block instance with a latent variable.
     t(1/2)::f.   t(1/4)::b; t(1/4)::c.        (block 0 = {f, not f}; block 1 = {b, c, no head})
   example 0 observes f and b, example 1 observes c only (f is latent).
   Worlds = (outcome of block 0, outcome of block 1); a e z = 1 iff z is consistent with example e. *)
From Coq Require Import Reals Lra List Arith Lia Bool.
From PL.C24 Require Import ProofsEM ProofsEMBlocks.
Import ListNotations.
Open Scope R_scope.

Definition xe_exs : list nat := [0%nat; 1%nat].
Definition xe_zs (_ : nat) : list (nat * nat) := list_prod [0%nat; 1%nat] [0%nat; 1%nat; 2%nat].
Definition xe_a (e : nat) (z : nat * nat) : R :=
  match e with
  | O => if andb (fst z =? 0)%nat (snd z =? 0)%nat then 1 else 0
  | _ => if (snd z =? 1)%nat then 1 else 0
  end.
Definition xe_bs : list nat := [0%nat; 1%nat].
Definition xe_ks (b : nat) : list nat := match b with O => [0%nat; 1%nat] | _ => [0%nat; 1%nat; 2%nat] end.
Definition xe_kap (b : nat) (_ : nat) (z : nat * nat) : option nat :=
  Some (match b with O => fst z | _ => snd z end).
Definition xe_th (b k : nat) : R :=
  match b with
  | O => 1 / 2
  | _ => match k with 0%nat | 1%nat => 1 / 4 | _ => 1 / 2 end
  end.

Lemma xe_a_nonneg : forall e z, 0 <= xe_a e z.
Proof.
  intros e z. unfold xe_a. destruct e.
  - destruct (andb (fst z =? 0)%nat (snd z =? 0)%nat); lra.
  - destruct (snd z =? 1)%nat; lra.
Qed.

Lemma example_em_hyps :
  (forall b, In b xe_bs -> NoDup (xe_ks b)) /\
  (forall b e z k, In b xe_bs -> In e xe_exs -> In z (xe_zs e) -> xe_kap b e z = Some k -> In k (xe_ks b)) /\
  (forall e, In e xe_exs -> 0 < (fun _ : nat => 1) e) /\
  (forall e z, 0 <= xe_a e z) /\
  (forall b, In b xe_bs -> 0 < (fun _ : nat => 1) b) /\
  (forall b k, In b xe_bs -> 0 <= xe_th b k) /\
  (forall b, In b xe_bs -> sumR (xe_th b) (xe_ks b) <= (fun _ : nat => 1) b) /\
  (forall e, In e xe_exs -> 0 < lik xe_zs (fmulti xe_a xe_bs xe_kap) xe_th e).
Proof.
  repeat split.
  - intros b [<-|[<-|[]]]; simpl; repeat constructor; simpl; intuition lia.
  - intros b e z k Hb He Hz K. unfold xe_kap in K. inversion K; subst k. clear K.
    unfold xe_zs in Hz. destruct z as [z0 z1]. apply in_prod_iff in Hz. destruct Hz as [H0 H1].
    destruct Hb as [<-|[<-|[]]]; simpl in *; intuition.
  - intros; lra.
  - apply xe_a_nonneg.
  - intros; lra.
  - intros b k Hb. unfold xe_th. destruct b; [lra|]. destruct k as [|[|k]]; lra.
  - intros b [<-|[<-|[]]]; simpl; lra.
  - intros e [<-|[<-|[]]]; unfold lik, fmulti, bfactor, xe_zs; simpl; lra.
Qed.

Lemma example_em_monotone :
  LL xe_exs (fun _ => 1) xe_zs (fmulti xe_a xe_bs xe_kap) xe_th <=
  LL xe_exs (fun _ => 1) xe_zs (fmulti xe_a xe_bs xe_kap)
     (em_update_blocks xe_exs (fun _ => 1) xe_zs xe_a xe_bs xe_ks (fun _ => 1) xe_kap xe_th).
Proof.
  destruct example_em_hyps as [H1 [H2 [H3 [H4 [H5 [H6 [H7 H8]]]]]]].
  apply em_monotone_blocks; auto.
Qed.
