(* C24 -- blocks that the data never activates (expected total count 0).
   The abstract EM keeps the parameters of such a block; LFI resets them (every head gets 0, all the mass goes to the
   "no head" outcome).  Both give a log-likelihood at least as large as before: every world in which a dead block is
   switched on has weight 0 after the EM update ([dead_block]), so changing the parameters of dead blocks to any
   non-negative values can only add weight ([LL_dominated]). *)
From Coq Require Import Reals Lra List Arith Lia.
From PL.C24 Require Import ProofsEM ProofsEMBlocks.
Import ListNotations.
Open Scope R_scope.

Lemma ln_le' : forall x y, 0 < x -> x <= y -> ln x <= ln y.
Proof.
  intros x y Hx Hxy. destruct (Rle_lt_or_eq_dec x y Hxy) as [L|L]; [|subst; lra].
  left. apply ln_increasing; auto.
Qed.

Section Zero.
  Variables (E Z : Type) (exs : list E) (m : E -> R) (zs : E -> list Z).
  Variable a : E -> Z -> R.
  Variable bs : list nat.
  Variable ks : nat -> list nat.
  Variable avail : nat -> R.
  Variable kap : nat -> E -> Z -> option nat.
  Hypothesis kap_in : forall b e z k, In b bs -> In e exs -> In z (zs e) -> kap b e z = Some k -> In k (ks b).
  Hypothesis m_pos : forall e, In e exs -> 0 < m e.
  Hypothesis a_nonneg : forall e z, 0 <= a e z.
  Hypothesis avail_pos : forall b, In b bs -> 0 < avail b.
  Variable th : nat -> nat -> R.
  Hypothesis th_nonneg : forall b k, In b bs -> 0 <= th b k.
  Hypothesis lik_pos : forall e, In e exs -> 0 < lik zs (fmulti a bs kap) th e.

  Let em := em_update_blocks exs m zs a bs ks avail kap th.
  Let bt := btotal exs m zs a bs ks kap th.
  Let bc := bcounts exs m zs a bs kap th.

  Lemma em_nonneg : forall b k, In b bs -> 0 <= em b k.
  Proof. intros. apply (update_nonneg_b E Z exs m zs a bs ks avail kap m_pos a_nonneg avail_pos th th_nonneg lik_pos); auto. Qed.

  (* the EM update does not enlarge the support *)
  Lemma em_pos_th_pos : forall b k, In b bs -> 0 < em b k -> 0 < th b k.
  Proof.
    intros b k Hb P. unfold em, em_update_blocks in P.
    destruct (Req_EM_T (btotal exs m zs a bs ks kap th b) 0) as [Z0|NZ]; auto.
    apply (bcounts_support E Z exs m zs a bs kap m_pos a_nonneg th th_nonneg b k Hb).
    pose proof (bcounts_nonneg E Z exs m zs a bs kap m_pos a_nonneg th th_nonneg lik_pos b k) as C.
    destruct C as [C|C]; auto. rewrite <- C in P. unfold Rdiv in P. rewrite Rmult_0_r, Rmult_0_l in P. lra.
  Qed.

  (* a world in which a dead block is switched on has weight 0 after the update *)
  Lemma dead_block : forall b e z k, In b bs -> In e exs -> In z (zs e) -> bt b = 0 -> kap b e z = Some k ->
    fmulti a bs kap em e z = 0.
  Proof.
    intros b e z k Hb He Hz Z0 K.
    destruct (fmulti_nonneg E Z a bs kap a_nonneg em em_nonneg e z) as [P|Q0]; [|auto]. exfalso.
    destruct (fmulti_pos_parts E Z a bs kap a_nonneg em em_nonneg e z P) as [Az Bz].
    assert (F : 0 < fmulti a bs kap th e z).
    { apply fmulti_pos_intro; auto. intros b' k' Hb' K'. apply em_pos_th_pos; auto.
      specialize (Bz b' Hb'). unfold bfactor in Bz. rewrite K' in Bz. exact Bz. }
    pose proof (bcounts_pos E Z exs m zs a bs kap m_pos a_nonneg th th_nonneg lik_pos b k e z He Hz F K) as C.
    assert (0 < bt b).
    { unfold bt, btotal. apply sumR_pos_in with (x := k); auto.
      - intros k' _. apply (bcounts_nonneg E Z exs m zs a bs kap m_pos a_nonneg th th_nonneg lik_pos).
      - eapply kap_in; eauto. }
    lra.
  Qed.

  (* th2 agrees with the EM update on the live blocks and is non-negative everywhere *)
  Variable th2 : nat -> nat -> R.
  Hypothesis th2_nonneg : forall b k, In b bs -> 0 <= th2 b k.
  Hypothesis same_live : forall b k, In b bs -> In k (ks b) -> bt b <> 0 -> em b k = th2 b k.

  Lemma f_dominated : forall e z, In e exs -> In z (zs e) -> fmulti a bs kap em e z <= fmulti a bs kap th2 e z.
  Proof.
    intros e z He Hz.
    destruct (existsb (fun b => match kap b e z with
                                | Some _ => if Req_EM_T (bt b) 0 then true else false
                                | None => false end) bs) eqn:X.
    - apply existsb_exists in X. destruct X as [b [Hb Xb]].
      destruct (kap b e z) as [k|] eqn:K; [|discriminate].
      destruct (Req_EM_T (bt b) 0) as [Z0|]; [|discriminate].
      rewrite (dead_block b e z k Hb He Hz Z0 K). apply fmulti_nonneg; auto.
    - right. unfold fmulti. f_equal. apply prodR_ext. intros b Hb. unfold bfactor.
      destruct (kap b e z) as [k|] eqn:K; [|reflexivity].
      apply same_live; auto; [eapply kap_in; eauto|].
      intro Z0. assert (Y : existsb (fun b => match kap b e z with
                                | Some _ => if Req_EM_T (bt b) 0 then true else false
                                | None => false end) bs = true).
      { apply existsb_exists. exists b. split; auto. rewrite K. destruct (Req_EM_T (bt b) 0); [reflexivity|contradiction]. }
      congruence.
  Qed.

  Lemma lik_dominated : forall e, In e exs -> lik zs (fmulti a bs kap) em e <= lik zs (fmulti a bs kap) th2 e.
  Proof. intros e He. unfold lik. apply sumR_le. intros z Hz. apply f_dominated; auto. Qed.

  Lemma LL_dominated : LL exs m zs (fmulti a bs kap) em <= LL exs m zs (fmulti a bs kap) th2.
  Proof.
    unfold LL. apply sumR_le. intros e He. apply Rmult_le_compat_l; [left; auto|].
    apply ln_le'; [|apply lik_dominated; auto].
    apply (lik_pos_after E Z exs m zs a bs ks avail kap kap_in m_pos a_nonneg avail_pos th th_nonneg lik_pos e He).
  Qed.

  Lemma lik2_pos : forall e, In e exs -> 0 < lik zs (fmulti a bs kap) th2 e.
  Proof.
    intros e He. eapply Rlt_le_trans; [|apply lik_dominated; auto].
    apply (lik_pos_after E Z exs m zs a bs ks avail kap kap_in m_pos a_nonneg avail_pos th th_nonneg lik_pos e He).
  Qed.
End Zero.
